(* C07 clause 709: a Logon carrying ResetSeqNumFlag=Y that is accepted in the logon state resets the store, unless it echoes a
   reset Logon WE sent on this connection.
   The predicate reads "we sent one" from the wire (sent141); the engine remembers it at queueing time (sentReset).  The two
   agree on every trace in which the application does not itself send a Logon carrying 141=Y through SendToTarget while the
   handshake is in progress (such a Logon is numbered, marks sentReset, and is queued -- it never reaches the wire in the logon
   state).  With that hypothesis clause 709 never fails; without it it does (`_refuted` witness below). *)
From Coq Require Import String.
From Coq Require Import ZArith List Bool Lia.
From QF Require Import Base.Bytes Session.Types Session.Model Session.Spec Session.C01Proofs Session.LocalProofs
  Session.FrameProofs Session.TraceProofs Session.RecoveryProofs Session.ReactionProofs Session.ConnectProofs Session.MonoProofs
  Session.LogonProofs Session.TgProofs Session.ResendInvProofs Session.NoReqProofs Session.ChunkProofs Session.NextStateProofs.
Import ListNotations.
Open Scope list_scope.
Open Scope Z_scope.

(* ---------- the flag the engine keeps ---------- *)
Definition app_reset_logon (t : bytes) (body : list (Z * bytes)) : bool := beq_bytes t T_LOGON && body_has_reset_y body.

Lemma prep_sent_reset s t hdr body ir ok s1 r : app_reset_logon t body = false ->
  prep s t hdr body ir ok = (s1, r) -> s_sent_reset s1 = s_sent_reset s.
Proof.
  unfold app_reset_logon. intros H E. unfold prep in E. rewrite H in E.
  destruct (is_admin t); [|destruct ok]; inv E; unfold persist; try destruct (c_disable_persist _); reflexivity.
Qed.

Lemma queue_for_send_sent_reset s t hdr body ir ok : app_reset_logon t body = false ->
  s_sent_reset (queue_for_send s t hdr body ir ok) = s_sent_reset s.
Proof.
  intros H. unfold queue_for_send. destruct (prep s t hdr body ir ok) as [s1 [m|]] eqn:E;
    rewrite <- (prep_sent_reset _ _ _ _ _ _ _ _ H E); reflexivity.
Qed.

Lemma logon_body_no_reset s : body_has_reset_y (logon_body s false) = false.
Proof. unfold logon_body, body_has_reset_y. destruct (Nat.ltb 0 (length (c_appl_ver (s_cfg s)))); reflexivity. Qed.

Lemma send_logon_plain_sent_reset s ir : s_sent_reset (send_logon_in_reply_to s false ir) = s_sent_reset s.
Proof.
  unfold send_logon_in_reply_to, drop_and_send_in_reply_to.
  assert (H : app_reset_logon T_LOGON (logon_body s false) = false) by (unfold app_reset_logon; rewrite logon_body_no_reset; reflexivity).
  destruct (prep s T_LOGON [] (logon_body s false) ir true) as [s1 [m|]] eqn:E;
    rewrite <- (prep_sent_reset _ _ _ _ _ _ _ _ H E); [|reflexivity].
  unfold send_queued. destruct (s_out_open _); reflexivity.
Qed.

Lemma existsb_rev_b {A} (f : A -> bool) (l : list A) : existsb f (rev l) = existsb f l.
Proof.
  induction l as [|x r IH]; [reflexivity|]. cbn [rev existsb]. rewrite existsb_app, IH. cbn [existsb].
  rewrite orb_false_r. apply orb_comm.
Qed.

(* ---------- the invariant: in the logon state, sentReset implies a reset Logon went out on this connection ---------- *)
Definition SR (s : sess) (b : bool) : Prop := s_st s = SLogon -> s_sent_reset s = true -> b = true.

Definition handshake_ok (s : sess) (e : event) : Prop :=
  match e with EAppSend t body _ => s_st s = SLogon -> app_reset_logon t body = false | _ => True end.

Definition sent141_next (e : event) (prev o : obs) (b : bool) : bool :=
  match e with
  | EConnect => if sh_connected (ob_st prev) then b else existsb logon_resets (ob_wire o)
  | _ => b || existsb logon_resets (ob_wire o)
  end.

Lemma incoming_logon x m : s_st (incoming x m) = SLogon -> incoming x m = x.
Proof.
  unfold incoming, incoming_with. destruct (negb (is_connected (s_st x))) eqn:Ec; [reflexivity|].
  destruct m as [mm|]; [|reflexivity].
  destruct (state_fix_msg_in (s_st x) x mm) as [s1 next] eqn:E. rewrite s_st_set_state_with. intros ->.
  apply negb_false_iff in Ec. pose proof (hs_state_fix_msg_in _ _ _ _ _ Ec E) as H. discriminate H.
Qed.

Lemma step_sr : forall s e b, Boundary s -> SR s b -> handshake_ok s e ->
  SR (step s e) (sent141_next e (obs_of s) (obs_of (step s e)) b).
Proof.
  intros s e b Hb0 Hsr0 Hok0. unfold SR, sent141_next. intros Hst' Hsent'.
  change (ob_wire (obs_of (step s e))) with (rev (s_wire (step s e))).
  change (ob_st (obs_of s)) with (shape_of (s_st s)).
  unfold step in *.
  assert (Hsr : SR (clear_logs s) b) by exact Hsr0.
  assert (Hb : Boundary (clear_logs s)) by exact Hb0.
  assert (Hok : handshake_ok (clear_logs s) e) by exact Hok0.
  change (s_st s) with (s_st (clear_logs s)).
  set (c := clear_logs s) in *. clearbody c. clear Hsr0 Hb0 Hok0.
  (* the state is the logon state as before, with the same flag *)
  assert (Hkeep : forall x, step_event c e = x -> s_st x = s_st c -> s_sent_reset x = s_sent_reset c ->
            b || existsb logon_resets (rev (s_wire (step_event c e))) = true).
  { intros x Hx H1 H2. rewrite Hx in Hst', Hsent'. rewrite H1 in Hst'. rewrite H2 in Hsent'. rewrite (Hsr Hst' Hsent'). reflexivity. }
  destruct e; cbn [step_event sent141_next] in *.
  - (* connect *)
    rewrite ConnectProofs.sh_connected_shape. unfold connect in *.
    destruct (is_connected (s_st c)) eqn:Ec; [exact (Hsr Hst' Hsent')|].
    match type of Hsent' with context [set_sent_reset ?x false] => set (c0 := set_sent_reset x false) in * end.
    destruct (negb (initiator c0)).
    + rewrite (set_state_connected c0 SLogon eq_refl) in Hsent'. discriminate Hsent'.
    + rewrite (set_state_connected _ SLogon eq_refl) in Hsent' |- *.
      cbn [upd_st s_sent_reset s_wire] in Hsent' |- *.
      match type of Hsent' with context [send_logon_in_reply_to ?x _ None] => set (s1 := x) in * end.
      assert (Hs1 : s_sent_reset s1 = false) by (unfold s1; destruct (c_reset_on_logon _); reflexivity).
      assert (Ho1 : s_out_open s1 = true) by (unfold s1; destruct (c_reset_on_logon _); reflexivity).
      destruct (should_send_reset s1).
      * destruct (reset_logon_reply s1 None Ho1) as (lg & W & Hlr & _). rewrite W, existsb_rev_b. cbn [existsb]. rewrite Hlr. reflexivity.
      * rewrite send_logon_plain_sent_reset, Hs1 in Hsent'. discriminate Hsent'.
  - (* arrive *) destruct (_ && _); eapply Hkeep; reflexivity.
  - (* deliver *)
    destruct (negb (s_in_open c)); [eapply Hkeep; reflexivity|].
    destruct (s_in_buf c) as [|m r]; [eapply Hkeep; reflexivity|].
    eapply Hkeep; [exact (incoming_logon _ _ Hst') | reflexivity | reflexivity].
  - eapply Hkeep; [exact (incoming_logon _ _ Hst') | reflexivity | reflexivity].
  - eapply Hkeep; [exact (incoming_logon _ _ Hst') | reflexivity | reflexivity].
  - (* in closed *)
    destruct (is_connected (s_st c)); [|eapply Hkeep; reflexivity].
    rewrite s_st_set_state in Hst'. discriminate Hst'.
  - (* timeout *)
    destruct (state_timeout (s_st c) c e) as [s1 next] eqn:E. rewrite s_st_set_state in Hst'.
    destruct (state_timeout_logon _ _ _ _ _ E Hst') as [H1 ->]. subst next.
    eapply Hkeep; [apply (set_state_connected c SLogon eq_refl) | symmetry; exact H1 | reflexivity].
  - (* app send *)
    assert (Hs : Same c (queue_for_send c t [] body None ok)) by fr_go.
    pose proof (same_st _ _ Hs) as H1.
    eapply Hkeep; [reflexivity | exact H1 |].
    apply queue_for_send_sent_reset. apply Hok. rewrite <- H1. exact Hst'.
  - (* flush *)
    destruct (is_logged_on (s_st c)); [|eapply Hkeep; reflexivity].
    eapply Hkeep; [reflexivity | unfold send_queued; destruct (s_out_open c); reflexivity
                   | unfold send_queued; destruct (s_out_open c); reflexivity].
  - (* stop *)
    match type of Hst' with context [state_stop ?a ?b0] => destruct (state_stop a b0) as [s1 next] eqn:E end.
    rewrite s_st_set_state in Hst'. exfalso. exact (state_stop_not_logon _ _ _ _ E Hst').
  - (* reset time *)
    destruct (is_connected (s_st c)) eqn:Ec; [|eapply Hkeep; reflexivity].
    assert (Ho : s_out_open c = true) by (destruct Hb as [B1 _]; exact (proj1 (B1 Ec))).
    destruct (reset_logon_reply c None Ho) as (lg & W & Hlr & _). rewrite W, existsb_rev_b. cbn [existsb]. rewrite Hlr.
    apply orb_true_r.
Qed.

(* ---------- handleLogon resets the store when the flag is set and we sent no reset ---------- *)
Lemma mo_logon_accept c s3 m flag s1 r : logon_accept c s3 m flag = (s1, r) -> Mono s3 s1.
Proof.
  intros E. unfold logon_accept in E. cbv zeta in E.
  destruct (check_target_too_high _ m); inv E; mo_go.
Qed.

Lemma verify_app_sent_reset s m s1 r : verify_msg_against_app_impl s m = (s1, r) -> s_sent_reset s1 = s_sent_reset s.
Proof.
  intros E. unfold verify_msg_against_app_impl in E. destruct (rej_of_verdict (mi_valid m)); [inv E; reflexivity|].
  destruct (is_admin (mi_type m)); inv E; reflexivity.
Qed.

Lemma handle_logon_resets s m s2 r : handle_logon s m = (s2, r) ->
  ~ In CbOnLogon (s_cbs s) -> In CbOnLogon (s_cbs s2) -> reset_flag m = true -> s_sent_reset s = false ->
  In CbStoreReset (s_cbs s2).
Proof.
  intros E Hno Hin Hf Hsr. rewrite handle_logon_unfold in E.
  destruct (if c_begin (s_cfg s) =? 5 then match mi_applver m with None => Some (R_cond_missing 1137) | Some _ => None end else None).
  { inv E. contradiction. }
  destruct (verify_msg_against_app_impl s m) as [sa ra] eqn:Ev.
  assert (Qa : Quiet s sa) by (eapply qt_verify_app; [exact Ev | apply qt_refl]).
  pose proof (verify_app_sent_reset _ _ _ _ Ev) as Hsa.
  destruct ra as [ra|].
  { inv E. exfalso. apply Hno. destruct Qa as (_ & _ & Q). apply Q. exact Hin. }
  cbv zeta in E. rewrite Hf, Hsa, Hsr in E. cbn [negb andb] in E. rewrite orb_true_r in E.
  destruct (verify_select (drop_and_reset sa) m false true false) as [s3 r3] eqn:Evs.
  pose proof (verify_select_noapp _ _ _ _ _ _ Evs) as ->.
  destruct r3 as [r3|].
  { inv E. exfalso. apply Hno. destruct Qa as (_ & _ & Q). apply Q.
    assert (Q2 : Quiet sa (drop_and_reset sa)) by qt_go. destruct Q2 as (_ & _ & Q2). apply Q2. exact Hin. }
  destruct (mo_logon_accept _ _ _ _ _ _ E) as [_ M]. apply M. left. reflexivity.
Qed.

Lemma mo_after_handle_logon s m s2 r s1 next : beq_bytes (mi_type m) T_LOGON = true ->
  handle_logon s m = (s2, r) -> logon_state_fix_msg_in s m = (s1, next) -> Mono s2 s1.
Proof.
  intros Hty Eh E. unfold logon_state_fix_msg_in in E. rewrite Hty, Eh in E. cbn [negb] in E.
  destruct r as [r|]; [|inv E; apply mono_refl].
  destruct r; try (inv E; apply mono_refl).
  - unfold do_target_too_high in E. eapply mo_send_resend_request; [exact E | apply mono_refl].
  - eapply mo_shutdown_with_reason; [exact E | apply mono_refl].
  - eapply mo_shutdown_with_reason; [exact E | apply mono_refl].
Qed.

(* clause 709 as a step: an accepted Logon carrying ResetSeqNumFlag=Y, processed in the logon state with nothing buffered,
   resets the store unless the engine's sentReset mark is set *)
Lemma step_logon_reset_resets s m :
  s_st s = SLogon -> s_in_buf s = [] -> reset_flag m = true -> s_sent_reset s = false ->
  In CbOnLogon (s_cbs (step s (EIncoming m))) -> In CbStoreReset (s_cbs (step s (EIncoming m))).
Proof.
  intros Hst Hbuf Hf Hsr. rewrite (step_logon_state s m Hst).
  set (c := clear_logs s).
  destruct (logon_state_fix_msg_in c m) as [s1 next] eqn:E. intros Hin.
  assert (S1 : Same c s1) by (eapply fr_logon_state; [exact E | apply same_refl]).
  assert (Hb1 : s_in_buf s1 = []) by (destruct S1 as (_ & _ & S1 & _); rewrite S1; exact Hbuf).
  destruct (LogonProofs.set_state_quiet s1 next Hb1) as (_ & _ & Q3). specialize (Q3 Hin).
  assert (Hno : ~ In CbOnLogon (s_cbs c)) by (intros C; exact C).
  destruct (logon_state_accepted c m s1 next E Hno Q3) as (Hty & s3 & s2 & r & _ & _ & _ & _ & Ea & Eh & _).
  destruct (logon_accept_logs _ _ _ _ _ _ Ea) as (Hin2 & _).
  pose proof (handle_logon_resets c m s2 r Eh Hno Hin2 Hf Hsr) as Hr2.
  destruct (mo_after_handle_logon c m s2 r s1 next Hty Eh E) as [_ M1].
  destruct (mo_set_state_with drain next mo_drain s1 s1 (mono_refl s1)) as [_ M2].
  apply M2, M1, Hr2.
Qed.

(* ---------- clause 709, one event ---------- *)
Lemma has_reset_observed s : In CbStoreReset (s_cbs s) -> has_reset (ob_cbs (obs_of s)) = true.
Proof.
  intros H. unfold has_reset. apply existsb_exists. exists CbStoreReset. split; [|reflexivity].
  cbn [obs_of ob_cbs]. apply in_rev. rewrite rev_involutive. exact H.
Qed.

Lemma c07_event_709 : forall i b s e, SR s b ->
  free_of [709] (c07_event (s_cfg s) i b (obs_of s) e (obs_of (step s e))) = true.
Proof.
  intros i b s e Hsr. unfold c07_event. cbn [c07_scan]. rewrite !app_nil_r.
  destruct e as [| | |m| | |t| | | |]; try (free_rest; fail).
  rewrite !free_of_app. repeat (apply andb_true_iff; split); try (free_rest; fail).
  match goal with |- free_of _ (if ?x then _ else _) = true => destruct x eqn:Ec; [|reflexivity] end.
  exfalso.
  apply andb_true_iff in Ec as [Ec E7]. apply andb_true_iff in Ec as [Ec E6]. apply andb_true_iff in Ec as [Ec E5].
  apply andb_true_iff in Ec as [Ec E4]. apply andb_true_iff in Ec as [Ec E3]. apply andb_true_iff in Ec as [E1 E2].
  change (ob_st (obs_of s)) with (shape_of (s_st s)) in E4. apply shape_logon in E4.
  change (ob_inbuf (obs_of s)) with (Z.of_nat (length (s_in_buf s))) in E3. apply len0 in E3.
  apply onlogon_observed in E5. apply negb_true_iff in E6. apply negb_true_iff in E7.
  assert (Hs : s_sent_reset s = false).
  { destruct (s_sent_reset s) eqn:Es; [|reflexivity]. rewrite (Hsr E4 Es) in E6. discriminate E6. }
  rewrite (has_reset_observed _ (step_logon_reset_resets s m E4 E3 E2 Hs E5)) in E7. discriminate E7.
Qed.

(* ---------- trace level ---------- *)
Fixpoint handshake_clean (es : list event) (s : sess) : Prop :=
  match es with
  | [] => True
  | e :: r => handshake_ok s e /\ handshake_clean r (step s e)
  end.

Lemma c07_scan_709 : forall es s i b, Boundary s -> SR s b -> handshake_clean es s ->
  free_of [709] (c07_scan (s_cfg s) i b (obs_of s) (combine es (map obs_of (run_trace es s)))) = true.
Proof.
  induction es as [|e r IH]; intros s i b Hb Hsr Hq; cbn [run_trace map combine]; [reflexivity|].
  destruct Hq as [Hq Hqr].
  rewrite c07_scan_cons, free_of_app. apply andb_true_iff; split.
  - apply c07_event_709; exact Hsr.
  - rewrite <- (step_cfg (s_cfg s) s e eq_refl).
    apply IH; [apply step_boundary; exact Hb | exact (step_sr s e b Hb Hsr Hq) | exact Hqr].
Qed.

(* C07, trace level: clause 709 never fails on a trace in which the application sends no Logon carrying 141=Y while the
   handshake is in progress *)
Theorem c07_received_reset_logon_resets : forall c es, handshake_clean es (init_sess c) ->
  free_of [709] (c07_check c (combine es (map obs_of (run_trace es (init_sess c))))) = true.
Proof.
  intros c es Hq. unfold c07_check.
  apply (c07_scan_709 es (init_sess c)); [apply init_boundary | intros H; discriminate H | exact Hq].
Qed.

(* a syntactic sufficient condition: the application never sends a Logon carrying 141=Y through SendToTarget *)
Definition no_app_reset_logon (e : event) : Prop :=
  match e with EAppSend t body _ => app_reset_logon t body = false | _ => True end.

Lemma no_app_reset_logon_clean : forall es s, Forall no_app_reset_logon es -> handshake_clean es s.
Proof.
  induction es as [|e r IH]; intros s Hf; cbn [handshake_clean]; [exact I|].
  inversion Hf as [|? ? Hp Hr]; subst. split; [|apply IH; exact Hr].
  destruct e; try exact I. intros _. exact Hp.
Qed.

Theorem c07_received_reset_logon_resets_plain : forall c es, Forall no_app_reset_logon es ->
  free_of [709] (c07_check c (combine es (map obs_of (run_trace es (init_sess c))))) = true.
Proof. intros c es Hf. apply c07_received_reset_logon_resets. apply no_app_reset_logon_clean. exact Hf. Qed.

(* ---------- witnesses ---------- *)
Definition rex_cfg (r : role) : cfg :=
  {| c_role := r; c_begin := 2; c_sender := B "S"; c_target := B "T"; c_reset_on_logon := false;
     c_reset_on_logout := false; c_reset_on_disconnect := false; c_refresh_on_logon := false; c_chunk := 0; c_hb := 30;
     c_hb_override := false; c_skip_latency := true; c_max_latency := 120; c_disable_persist := false;
     c_last_seq_processed := false; c_in_cap := 1%nat; c_appl_ver := [] |}.
Definition rex_logon (n : Z) (reset : fres bool) : minput :=
  {| mi_type := T_LOGON; mi_begin := B "FIX.4.2"; mi_sender := Some (B "T"); mi_target := Some (B "S");
     mi_seq := FVal n; mi_possdup := FAbsent; mi_stime := FVal 0; mi_otime := FAbsent; mi_gapfill := FAbsent;
     mi_newseq := FAbsent; mi_beginseq := FAbsent; mi_endseq := FAbsent; mi_reset := reset; mi_hbint := FVal 30;
     mi_testreq := None; mi_applver := None; mi_route := []; mi_body := []; mi_app := VAccept; mi_valid := VAccept;
     mi_refuse := [] |}.
Definition rex_run (c : cfg) (es : list event) := combine es (map obs_of (run_trace es (init_sess c))).

(* the hypothesis holds and the guard of the clause fires: an initiator that sent a plain Logon receives a Logon carrying
   141=Y: the store is reset in that event (the Logon is then number 1 against the fresh store) *)
Definition rex_clean_trace : list event := [EConnect; EIncoming (rex_logon 1 (FVal true))].
Lemma rex_clean_trace_ok : Forall no_app_reset_logon rex_clean_trace.
Proof. repeat constructor. Qed.
Lemma rex_clean_trace_resets :
  map (fun o => (ob_st (snd o), ob_snd (snd o), ob_tgt (snd o), has_reset (ob_cbs (snd o)),
                 existsb (fun x => match x with CbOnLogon => true | _ => false end) (ob_cbs (snd o))))
      (rex_run (rex_cfg Initiator) rex_clean_trace)
  = [(ShLogon, 2, 1, false, false); (ShInSession, 1, 2, true, true)]
  /\ c07_check (rex_cfg Initiator) (rex_run (rex_cfg Initiator) rex_clean_trace) = [].
Proof. vm_compute. split; reflexivity. Qed.

(* REFUTED without the hypothesis: during the handshake the application sends a Logon carrying 141=Y through SendToTarget.
   The store is reset at that point and sentReset is set, but the Logon is only queued: nothing carrying 141=Y is written.
   The peer's Logon with 141=Y is then taken for the echo of a reset we asked for: accepted (OnLogon) without a reset, and
   no reset Logon of ours is on the wire of this connection.  Clause 709 fails at event 2. *)
Definition rex_app_trace : list event :=
  [EConnect; EAppSend T_LOGON [(141, B "Y")] true; EIncoming (rex_logon 1 (FVal true))].
Lemma c07_709_app_reset_logon_refuted :
  exists c es, c07_check c (combine es (map obs_of (run_trace es (init_sess c)))) = [(2%nat, 709)].
Proof. exists (rex_cfg Initiator), rex_app_trace. vm_compute. reflexivity. Qed.
