(* C04: the recovery invariant at event boundaries (clauses 403 / 404 of c04_check).
   While the session is recovering (resend state, possibly under a pending test request):
     - the expected number is not the number of a kept message (a kept message that is next has been delivered), and
     - the expected number is not past the end of the range being recovered (otherwise recovery has ended).
   Proved for every reachable state of the model. *)
From Coq Require Import String.
From Coq Require Import ZArith List Bool Lia.
From QF Require Import Base.Bytes Session.Types Session.Model Session.Spec Session.C01Proofs Session.LocalProofs
  Session.FrameProofs Session.TraceProofs Session.RecoveryProofs Session.ReactionProofs Session.TgProofs.
Import ListNotations.
Open Scope list_scope.
Open Scope Z_scope.

Definition keys (l : list (Z * minput)) : list Z := map fst l.
(* every kept message sits under its own number, which is at least 2 *)
Definition wk (l : list (Z * minput)) : Prop := forall k m, In (k, m) l -> mi_seq m = FVal k /\ 2 <= k.

Definition RIst (tgt : Z) (st : sstate) : Prop :=
  match unwrap_pending st with
  | SResend stash c e =>
      tgt <= e /\ (c = 0 \/ c <= e) /\ match stash with Some l => ~ In tgt (keys l) /\ wk l | None => True end
  | _ => True
  end.
Definition RI (s : sess) : Prop := RIst (s_tgt s) (s_st s).

Definition not_resend_st (st : sstate) : Prop := forall a b c, unwrap_pending st <> SResend a b c.

Lemma RIst_not_resend tgt st : not_resend_st st -> RIst tgt st.
Proof. intros H. unfold RIst. destruct (unwrap_pending st) eqn:E; try exact I. exfalso. eapply H. exact E. Qed.

Lemma not_connected_not_resend st : is_connected st = false -> not_resend_st st.
Proof. induction st; cbn; intros H a0 b0 c0; try discriminate; try (intro X; discriminate X). apply IHst; exact H. Qed.

Lemma not_logged_on_not_resend st : is_logged_on st = false -> not_resend_st st.
Proof. induction st; cbn; intros H a0 b0 c0; try discriminate; try (intro X; discriminate X). apply IHst; exact H. Qed.

(* ---------- the stash ---------- *)
Lemma stash_take_none : forall k l, stash_take k l = None <-> ~ In k (keys l).
Proof.
  induction l as [|[k' m] r IH]; cbn [stash_take keys map fst In].
  - split; [intros _ [] | reflexivity].
  - destruct (Z.eqb_spec k' k) as [->|Hn].
    + split; [discriminate | intros H; exfalso; apply H; left; reflexivity].
    + destruct (stash_take k r) as [[x r']|] eqn:E.
      * split; [discriminate|]. intros H. exfalso. apply H. right. fold (keys r).
        destruct (in_dec Z.eq_dec k (keys r)) as [Hi|Hi]; [exact Hi|]. apply IH in Hi. discriminate.
      * split; [|reflexivity]. intros _ [H|H]; [exact (Hn H)|]. apply (proj1 IH eq_refl). exact H.
Qed.

Lemma stash_take_some : forall k l m l', stash_take k l = Some (m, l') ->
  In (k, m) l /\ (forall x, In x l' -> In x l) /\ length l = S (length l').
Proof.
  induction l as [|[k' m0] r IH]; intros m l' H; cbn [stash_take] in H; [discriminate|].
  destruct (Z.eqb_spec k' k) as [->|Hn].
  - inversion H; subst. split; [left; reflexivity|]. split; [intros x Hx; right; exact Hx | reflexivity].
  - destruct (stash_take k r) as [[x r']|] eqn:E; [|discriminate]. inversion H; subst.
    destruct (IH _ _ eq_refl) as (A1 & A2 & A3). split; [right; exact A1|]. split.
    + intros y [Hy|Hy]; [left; exact Hy | right; apply A2; exact Hy].
    + cbn [length]. rewrite A3. reflexivity.
Qed.

Lemma wk_sub : forall l l', (forall x, In x l' -> In x l) -> wk l -> wk l'.
Proof. intros l l' H W k m Hi. apply W, H, Hi. Qed.

Lemma keys_in : forall k l, In k (keys l) <-> exists m, In (k, m) l.
Proof.
  intros k l. unfold keys. rewrite in_map_iff. split.
  - intros [[k' m] [E Hi]]. cbn in E. subst. exists m. exact Hi.
  - intros [m Hi]. exists (k, m). split; [reflexivity | exact Hi].
Qed.

Lemma stash_insert_in : forall k m l x, In x (stash_insert k m l) <-> x = (k, m) \/ (In x l /\ fst x <> k).
Proof.
  intros k m l x. unfold stash_insert. cbn [In]. rewrite filter_In. split.
  - intros [H|[H1 H2]]; [left; symmetry; exact H | right]. split; [exact H1|].
    apply negb_true_iff in H2. apply Z.eqb_neq in H2. exact H2.
  - intros [H|[H1 H2]]; [left; symmetry; exact H | right]. split; [exact H1|].
    apply negb_true_iff. apply Z.eqb_neq. exact H2.
Qed.

Lemma wk_insert : forall k m l, mi_seq m = FVal k -> 2 <= k -> wk l -> wk (stash_insert k m l).
Proof.
  intros k m l Hs Hk W k' m' Hi. apply stash_insert_in in Hi as [E|[Hi _]].
  - inversion E; subst. auto.
  - apply W; exact Hi.
Qed.

Lemma keys_insert : forall k m l x, In x (keys (stash_insert k m l)) -> x = k \/ In x (keys l).
Proof.
  intros k m l x H. apply keys_in in H as [m' Hi]. apply stash_insert_in in Hi as [E|[Hi _]].
  - inversion E; subst. left; reflexivity.
  - right. apply keys_in. exists m'. exact Hi.
Qed.

(* ---------- what verification says when it reports "too high" ---------- *)
Lemma verify_select_too_high_inv : forall s m hi lo app s1 recv exp,
  verify_select s m hi lo app = (s1, Some (RTooHigh recv exp)) ->
  s1 = s /\ exp = s_tgt s /\ s_tgt s < recv /\ mi_seq m = FVal recv.
Proof.
  intros s m hi lo app s1 recv exp E. unfold verify_select in E.
  destruct (check_begin_string s m) as [r|] eqn:E1.
  { unfold check_begin_string in E1. destruct (beq_bytes _ _); inversion E1; subst; inversion E. }
  destruct (check_comp_id s m) as [r|] eqn:E2.
  { unfold check_comp_id in E2. repeat match type of E2 with context [match ?x with _ => _ end] => destruct x end;
      inversion E2; subst; inversion E. }
  destruct (match s_st s with SResend _ _ _ => None | _ => check_sending_time s m end) as [r|] eqn:E3.
  { assert (Hr : check_sending_time s m = Some r) by (destruct (s_st s); try discriminate; exact E3).
    unfold check_sending_time in Hr. repeat match type of Hr with context [match ?x with _ => _ end] => destruct x end;
      inversion Hr; subst; inversion E. }
  destruct (if lo then check_target_too_low s m else None) as [r|] eqn:E4.
  { destruct lo; [|discriminate]. unfold check_target_too_low in E4.
    repeat match type of E4 with context [match ?x with _ => _ end] => destruct x end; inversion E4; subst; inversion E. }
  destruct (if hi then check_target_too_high s m else None) as [r|] eqn:E5.
  { destruct hi; [|discriminate]. unfold check_target_too_high in E5.
    destruct (mi_seq m) as [| |n] eqn:Es; try (inversion E5; subst; inversion E; fail).
    destruct (Z.ltb_spec (s_tgt s) n); [|discriminate]. inversion E5; subst. inversion E; subst. auto. }
  destruct app; [|inversion E].
  unfold verify_msg_against_app_impl in E.
  destruct (mi_valid m); cbn [rej_of_verdict] in E; try (inversion E; fail).
  destruct (mi_app m); cbn [rej_of_verdict] in E; inversion E.
Qed.

Lemma verify_select_too_high_hi : forall s m hi lo app s1 recv exp,
  verify_select s m hi lo app = (s1, Some (RTooHigh recv exp)) -> hi = true.
Proof.
  intros s m hi lo app s1 recv exp E. destruct hi; [reflexivity|]. exfalso. unfold verify_select in E.
  destruct (check_begin_string s m) as [r|] eqn:E1.
  { unfold check_begin_string in E1. destruct (beq_bytes _ _); inversion E1; subst; inversion E. }
  destruct (check_comp_id s m) as [r|] eqn:E2.
  { unfold check_comp_id in E2. repeat match type of E2 with context [match ?x with _ => _ end] => destruct x end;
      inversion E2; subst; inversion E. }
  destruct (match s_st s with SResend _ _ _ => None | _ => check_sending_time s m end) as [r|] eqn:E3.
  { assert (Hr : check_sending_time s m = Some r) by (destruct (s_st s); try discriminate; exact E3).
    unfold check_sending_time in Hr. repeat match type of Hr with context [match ?x with _ => _ end] => destruct x end;
      inversion Hr; subst; inversion E. }
  destruct (if lo then check_target_too_low s m else None) as [r|] eqn:E4.
  { destruct lo; [|discriminate]. unfold check_target_too_low in E4.
    repeat match type of E4 with context [match ?x with _ => _ end] => destruct x end; inversion E4; subst; inversion E. }
  destruct app; [|inversion E].
  unfold verify_msg_against_app_impl in E.
  destruct (mi_valid m); cbn [rej_of_verdict] in E; try (inversion E; fail).
  destruct (mi_app m); cbn [rej_of_verdict] in E; inversion E.
Qed.

(* ---------- processReject: only "too high" leads into (or keeps) the resend state ---------- *)
Definition ns_SInSession : not_resend_st SInSession. Proof. intros a b c H; discriminate H. Qed.
Definition ns_SLogout : not_resend_st SLogout. Proof. intros a b c H; discriminate H. Qed.
Definition ns_SLatent : not_resend_st SLatent. Proof. intros a b c H; discriminate H. Qed.
Definition ns_SLogon : not_resend_st SLogon. Proof. intros a b c H; discriminate H. Qed.

Lemma process_reject_other : forall s m r s1 next,
  (forall a b, r <> RTooHigh a b) -> process_reject s m r = (s1, next) -> not_resend_st next.
Proof.
  intros s m r s1 next Hr E. destruct r as [a b|a b| | |reason tag bus]; [exfalso; eapply Hr; reflexivity | | | |];
    cbn [process_reject] in E.
  - unfold do_target_too_low in E.
    repeat match type of E with context [match ?x with _ => _ end] => destruct x
                           | context [if ?x then _ else _] => destruct x end;
      inversion E; subst; first [apply ns_SInSession | apply ns_SLogout].
  - inversion E; subst. apply ns_SLogout.
  - inversion E; subst. apply ns_SInSession.
  - destruct ((reason =? 9) || (reason =? 10)); inversion E; subst; [apply ns_SLogout | apply ns_SInSession].
Qed.

Definition via_too_high (s : sess) (m : minput) (s1 : sess) (next : sstate) : Prop :=
  not_resend_st next
  \/ exists recv, mi_seq m = FVal recv /\ s_tgt s < recv /\ process_reject s m (RTooHigh recv (s_tgt s)) = (s1, next).

Lemma verify_then_reject : forall s m hi lo app s' r s1 next,
  verify_select s m hi lo app = (s', Some r) -> process_reject s' m r = (s1, next) -> via_too_high s m s1 next.
Proof.
  intros s m hi lo app s' r s1 next Ev Ep.
  destruct r as [a b|a b| | |reason tag bus].
  - destruct (verify_select_too_high_inv _ _ _ _ _ _ _ _ Ev) as (-> & -> & Hlt & Hs). right. exists a. auto.
  - left. eapply process_reject_other; [|exact Ep]. intros; discriminate.
  - left. eapply process_reject_other; [|exact Ep]. intros; discriminate.
  - left. eapply process_reject_other; [|exact Ep]. intros; discriminate.
  - left. eapply process_reject_other; [|exact Ep]. intros; discriminate.
Qed.

Lemma in_session_char : forall s m s1 next, in_session_fix_msg_in s m = (s1, next) -> via_too_high s m s1 next.
Proof.
  intros s m s1 next E. unfold in_session_fix_msg_in in E.
  destruct (beq_bytes (mi_type m) T_LOGON).
  { destruct (handle_logon s m) as [x [r|]]; inversion E; subst; left; [apply ns_SLogout | apply ns_SInSession]. }
  destruct (beq_bytes (mi_type m) T_LOGOUT).
  { unfold handle_logout in E. destruct (verify_select s m false false true) as [s' [r|]] eqn:Ev.
    - eapply verify_then_reject; eassumption.
    - left. repeat match type of E with context [match ?x with _ => _ end] => destruct x
                                  | context [if ?x then _ else _] => destruct x end; inversion E; subst; apply ns_SLatent. }
  destruct (beq_bytes (mi_type m) T_RESENDREQ).
  { unfold handle_resend_request in E. destruct (verify_select s m false false true) as [s' [r|]] eqn:Ev.
    - eapply verify_then_reject; eassumption.
    - destruct (mi_beginseq m) as [| |b]; try (left; eapply process_reject_other; [|exact E]; intros; discriminate).
      destruct (mi_endseq m) as [| |e0]; try (left; eapply process_reject_other; [|exact E]; intros; discriminate).
      left. cbv zeta in E.
      repeat match type of E with context [match ?x with _ => _ end] => destruct x end; inversion E; subst; apply ns_SInSession. }
  destruct (beq_bytes (mi_type m) T_SEQRESET).
  { unfold handle_sequence_reset in E.
    destruct (mi_gapfill m) as [| |g] eqn:Eg.
    - destruct (verify_select s m false false true) as [s' [r|]] eqn:Ev; [eapply verify_then_reject; eassumption|].
      left. repeat match type of E with context [match ?x with _ => _ end] => destruct x
                                  | context [if ?x then _ else _] => destruct x end; inversion E; subst; apply ns_SInSession.
    - left; eapply process_reject_other; [|exact E]; intros; discriminate.
    - destruct (verify_select s m (match FVal g with FVal true => true | _ => false end) (match FVal g with FVal true => true | _ => false end) true)
        as [s' [r|]] eqn:Ev; [eapply verify_then_reject; eassumption|].
      left. repeat match type of E with context [match ?x with _ => _ end] => destruct x
                                  | context [if ?x then _ else _] => destruct x end; inversion E; subst; apply ns_SInSession. }
  destruct (beq_bytes (mi_type m) T_TESTREQ).
  { unfold handle_test_request, verify in E. destruct (verify_select s m true true true) as [s' [r|]] eqn:Ev.
    - eapply verify_then_reject; eassumption.
    - inversion E; subst. left; apply ns_SInSession. }
  unfold verify in E. destruct (verify_select s m true true true) as [s' [r|]] eqn:Ev.
  - eapply verify_then_reject; eassumption.
  - inversion E; subst. left; apply ns_SInSession.
Qed.

(* ---------- sending anything but a Logon leaves the expected number alone ---------- *)
Lemma send_keeps_tgt : forall s t hdr body ir, beq_bytes t T_LOGON = false ->
  s_tgt (send_in_reply_to s t hdr body ir) = s_tgt s.
Proof.
  intros s t hdr body ir Hn. unfold send_in_reply_to, queue_for_send, prep. rewrite Hn. cbn [andb].
  destruct (negb (is_logged_on (s_st s))), (is_admin t); cbn [fst snd];
    unfold send_queued, enqueue, persist, log_cb, upd_logs, upd_store, upd_to_send;
    repeat match goal with |- context [if ?x then _ else _] => destruct x end; reflexivity.
Qed.

Lemma send_resend_request_shape : forall s b e s1 st, send_resend_request s b e = (s1, st) ->
  s_tgt s1 = s_tgt s /\ exists c, st = SResend (Some []) c e /\ (c = 0 \/ c < e).
Proof.
  intros s b e s1 st H. unfold send_resend_request in H. cbv zeta in H.
  match type of H with context [if ?x <? e then _ else _] => destruct (Z.ltb_spec x e) as [Hl|Hl] end;
    inversion H; subst; (split; [apply (send_keeps_tgt s T_RESENDREQ [] _ None eq_refl)|]); eexists; split; try reflexivity; auto.
Qed.

Lemma too_high_step : forall s m recv s1 next,
  RI s -> LB s -> mi_seq m = FVal recv -> s_tgt s < recv ->
  process_reject s m (RTooHigh recv (s_tgt s)) = (s1, next) -> RIst (s_tgt s1) next.
Proof.
  intros s m recv s1 next Hri Hlb Hs Hlt E. unfold LB in Hlb. cbn [process_reject] in E.
  unfold RI, RIst in Hri.
  assert (Hfresh : forall x c e, s_tgt x = s_tgt s -> (c = 0 \/ c < e) -> e = recv - 1 ->
            RIst (s_tgt x) (SResend (Some (stash_insert recv m [])) c e)).
  { intros x c e Hx Hc He. unfold RIst. cbn [unwrap_pending]. rewrite Hx. split; [lia|]. split; [lia|]. split.
    - intros Hi. apply keys_insert in Hi as [Hi|[]]. lia.
    - apply wk_insert; [exact Hs | lia | intros k0 m0 []]. }
  destruct (unwrap_pending (s_st s)) as [| | | | | st c e | j] eqn:Eu.
  6: { (* already recovering: the message joins the kept ones, nothing is sent *)
       inversion E; subst. unfold RIst. cbn [unwrap_pending].
       destruct Hri as (H1 & H2 & H3). split; [exact H1|]. split; [exact H2|].
       destruct st as [l|].
       - destruct H3 as [H3 H4]. split.
         + intros Hi. apply keys_insert in Hi as [Hi|Hi]; [lia | exact (H3 Hi)].
         + apply wk_insert; [exact Hs | lia | exact H4].
       - split.
         + intros Hi. apply keys_insert in Hi as [Hi|[]]. lia.
         + apply wk_insert; [exact Hs | lia | intros k0 m0 []]. }
  all: unfold do_target_too_high in E;
    destruct (send_resend_request s (s_tgt s) (recv - 1)) as [x st0] eqn:Er;
    destruct (send_resend_request_shape _ _ _ _ _ Er) as (Hx & c0 & -> & Hc);
    inversion E; subst; apply Hfresh; auto.
Qed.

Lemma in_session_ri : forall s m s1 next,
  RI s -> LB s -> in_session_fix_msg_in s m = (s1, next) -> RIst (s_tgt s1) next.
Proof.
  intros s m s1 next Hri Hlb E. destruct (in_session_char s m s1 next E) as [H|(recv & Hs & Hlt & Ep)].
  - apply RIst_not_resend; exact H.
  - eapply too_high_step; eassumption.
Qed.

Lemma in_session_in_sequence : forall s m s1 next,
  mi_seq m = FVal (s_tgt s) -> in_session_fix_msg_in s m = (s1, next) -> not_resend_st next.
Proof.
  intros s m s1 next Hs E. destruct (in_session_char s m s1 next E) as [H|(recv & Hs' & Hlt & _)]; [exact H|].
  rewrite Hs in Hs'. inversion Hs'. lia.
Qed.

(* ---------- the drain loop ---------- *)
Lemma resend_drain_spec : forall fuel s l next s2 l' next2 still,
  wk l -> (length l < fuel)%nat ->
  resend_drain fuel s l next = (s2, l', next2, still) ->
  wk l'
  /\ (still = true -> ~ In (s_tgt s2) (keys l') /\ ((s2 = s /\ next2 = next) \/ not_resend_st next2))
  /\ (still = false -> not_resend_st next2).
Proof.
  induction fuel as [|f IH]; intros s l next s2 l' next2 still Hw Hlen E; [lia|].
  cbn [resend_drain] in E.
  destruct (stash_take (s_tgt s) l) as [[m l1]|] eqn:Et.
  - destruct (stash_take_some _ _ _ _ Et) as (Hin & Hsub & Hl).
    destruct (in_session_fix_msg_in s m) as [s1 next1] eqn:Ei.
    pose proof (in_session_in_sequence s m s1 next1 (proj1 (Hw _ _ Hin)) Ei) as Hnr.
    destruct (negb (is_logged_on next1)) eqn:El.
    + inversion E; subst. split; [eapply wk_sub; eassumption|]. split; [discriminate | intros _; exact Hnr].
    + assert (Hw1 : wk l1) by (eapply wk_sub; eassumption).
      destruct (IH s1 l1 next1 s2 l' next2 still Hw1 ltac:(lia) E) as (A1 & A2 & A3).
      split; [exact A1|]. split; [|exact A3].
      intros Hs. destruct (A2 Hs) as [B1 [[-> ->]|B2]]; (split; [exact B1|]); right; [exact Hnr | exact B2].
  - inversion E; subst. split; [exact Hw|]. split; [|discriminate].
    intros _. split; [apply stash_take_none; exact Et | left; auto].
Qed.

(* ---------- resendState.FixMsgIn re-establishes the invariant at every exit ---------- *)
Lemma resend_state_ri : forall s stash ce re m s' next',
  unwrap_pending (s_st s) = SResend stash ce re -> RI s -> LB s ->
  resend_state_fix_msg_in s stash ce re m = (s', next') -> RIst (s_tgt s') next'.
Proof.
  intros s stash ce re m s' next' Hu Hri Hlb E. unfold resend_state_fix_msg_in in E.
  destruct (in_session_fix_msg_in s m) as [s1 next] eqn:Ei.
  pose proof (in_session_ri s m s1 next Hri Hlb Ei) as R1.
  destruct (negb (is_logged_on next)) eqn:El; [inversion E; subst; exact R1|].
  unfold RI, RIst in Hri. rewrite Hu in Hri. destruct Hri as (Hre & Hce & Hst).
  set (st := shared_stash stash next) in E.
  set (l := match st with Some l => l | None => [] end) in E.
  assert (Hwl : wk l).
  { unfold l, st, shared_stash. destruct stash as [l0|]; [|intros k0 m0 []].
    destruct next as [| | | | | [l2|] c2 e2 | j]; try exact (proj2 Hst).
    unfold RIst in R1. cbn [unwrap_pending] in R1. exact (proj2 (proj2 (proj2 R1))). }
  destruct (resend_drain (S (length l)) s1 l next) as [[[s2 l'] next2] still] eqn:Ed.
  destruct (resend_drain_spec _ _ _ _ _ _ _ _ Hwl (Nat.lt_succ_diag_r _) Ed) as (A1 & A2 & A3).
  destruct still; cbn [negb] in E; [|inversion E; subst; apply RIst_not_resend, A3; reflexivity].
  destruct (A2 eq_refl) as [B1 B2].
  set (st' := match st with Some _ => Some l' | None => None end) in E.
  assert (Hbuild : forall x c e, s_tgt x = s_tgt s2 -> s_tgt s2 <= e -> (c = 0 \/ c <= e) -> RIst (s_tgt x) (SResend st' c e)).
  { intros x c e Hx He Hc. unfold RIst. cbn [unwrap_pending]. rewrite Hx. split; [exact He|]. split; [exact Hc|].
    unfold st'. destruct st; [split; assumption | exact I]. }
  assert (Hreq : forall s3 st3, send_resend_request s2 (s_tgt s2) re = (s3, st3) -> s_tgt s2 <= re ->
            RIst (s_tgt (fst (match st3 with SResend _ c e => (s3, SResend st' c e) | other => (s3, other) end)))
                 (snd (match st3 with SResend _ c e => (s3, SResend st' c e) | other => (s3, other) end))).
  { intros s3 st3 Er Hle. destruct (send_resend_request_shape _ _ _ _ _ Er) as (Hx & c3 & -> & Hc3).
    cbn [fst snd]. apply Hbuild; [exact Hx | exact Hle | lia]. }
  destruct (negb (ce =? 0) && (ce <? s_tgt s2) && (s_tgt s2 <=? re)) eqn:Ec.
  { apply andb_true_iff in Ec as [_ Hle]. apply Z.leb_le in Hle.
    destruct (send_resend_request s2 (s_tgt s2) re) as [s3 st3] eqn:Er.
    specialize (Hreq s3 st3 eq_refl Hle). destruct st3; inversion E; subst; exact Hreq. }
  assert (Hfinal : forall g : bool,
    (if g && negb (ce =? 0) && (ce =? s_tgt s2)
     then match send_resend_request s2 (s_tgt s2) re with (s3, SResend _ c e) => (s3, SResend st' c e) | (s3, other) => (s3, other) end
     else if s_tgt s2 <=? re then (s2, SResend st' ce re) else (s2, next2)) = (s', next') -> RIst (s_tgt s') next').
  { intros g Eg. destruct (g && negb (ce =? 0) && (ce =? s_tgt s2)) eqn:Eg1.
    - apply andb_true_iff in Eg1 as [Eg1 Heq]. apply andb_true_iff in Eg1 as [_ Hne].
      apply Z.eqb_eq in Heq. apply negb_true_iff in Hne. apply Z.eqb_neq in Hne.
      assert (Hle : s_tgt s2 <= re) by (destruct Hce; lia).
      destruct (send_resend_request s2 (s_tgt s2) re) as [s3 st3] eqn:Er.
      specialize (Hreq s3 st3 eq_refl Hle). destruct st3; inversion Eg; subst; exact Hreq.
    - destruct (Z.leb_spec (s_tgt s2) re) as [Hle|Hgt]; inversion Eg; subst.
      + apply Hbuild; [reflexivity | exact Hle | exact Hce].
      + destruct B2 as [[-> ->]|B2]; [exact R1 | apply RIst_not_resend; exact B2]. }
  destruct (mi_gapfill m) as [| |g]; [apply (Hfinal false); exact E | inversion E; subst; apply RIst_not_resend, ns_SLatent | ].
  apply (Hfinal (match FVal g with FVal true => true | _ => false end)). exact E.
Qed.

(* ---------- every state's message handler ---------- *)
Lemma handle_logon_too_high : forall s m s1 recv exp,
  handle_logon s m = (s1, Some (RTooHigh recv exp)) -> s_tgt s1 < recv.
Proof.
  intros s m s1 recv exp E. unfold handle_logon in E.
  destruct (if c_begin (s_cfg s) =? 5 then match mi_applver m with None => Some (R_cond_missing 1137) | Some _ => None end else None) as [r0|] eqn:E0.
  { destruct (c_begin (s_cfg s) =? 5); [|discriminate]. destruct (mi_applver m); inversion E0; subst. inversion E. }
  destruct (verify_msg_against_app_impl s m) as [x [r|]] eqn:Ea.
  { unfold verify_msg_against_app_impl in Ea. destruct (mi_valid m); cbn [rej_of_verdict] in Ea;
      try (inversion Ea; subst; inversion E; fail).
    destruct (mi_app m); cbn [rej_of_verdict] in Ea; inversion Ea; subst; inversion E. }
  cbv zeta in E.
  match type of E with context [verify_select ?a m false true false] => destruct (verify_select a m false true false) as [y [r|]] eqn:Ev end.
  { inversion E; subst. pose proof (verify_select_too_high_hi _ _ _ _ _ _ _ _ Ev). discriminate. }
  match type of E with context [check_target_too_high ?a m] => destruct (check_target_too_high a m) as [r|] eqn:Eh; [|inversion E];
    set (s5 := a) in * end.
  inversion E; subst. unfold check_target_too_high in Eh.
  destruct (mi_seq m) as [| |n]; try (inversion Eh; fail).
  destruct (Z.ltb_spec (s_tgt s5) n); inversion Eh; subst. assumption.
Qed.

Lemma state_fix_ri : forall st s m s1 next,
  unwrap_pending st = unwrap_pending (s_st s) -> RI s -> LB s ->
  state_fix_msg_in st s m = (s1, next) -> RIst (s_tgt s1) next.
Proof.
  induction st as [| | | | | stash c e | j IH]; intros s m s1 next Hu Hri Hlb E; cbn [state_fix_msg_in] in E.
  - inversion E; subst. apply RIst_not_resend, ns_SLatent.
  - inversion E; subst. apply RIst_not_resend. intros a b c H; discriminate H.
  - unfold logon_state_fix_msg_in in E.
    destruct (negb (beq_bytes (mi_type m) T_LOGON)); [inversion E; subst; apply RIst_not_resend, ns_SLatent|].
    destruct (handle_logon s m) as [x [r|]] eqn:Eh; [|inversion E; subst; apply RIst_not_resend, ns_SInSession].
    destruct r as [recv exp| | | |]; try (unfold shutdown_with_reason in E; inversion E; subst; apply RIst_not_resend, ns_SLatent).
    pose proof (handle_logon_too_high _ _ _ _ _ Eh) as Hlt.
    unfold do_target_too_high in E. destruct (send_resend_request_shape _ _ _ _ _ E) as (Hx & c0 & -> & Hc).
    unfold RIst. cbn [unwrap_pending]. rewrite Hx.
    (* the request is [exp, recv-1] with exp the expected number: the range end is recv-1 *)
    split; [lia|]. split; [lia|]. split; [intros [] | intros k0 m0 []].
  - unfold logout_state_fix_msg_in in E. destruct (in_session_fix_msg_in s m) as [x nx].
    destruct nx; inversion E; subst; apply RIst_not_resend; first [apply ns_SLatent | apply ns_SLogout].
  - apply (in_session_ri s m); assumption.
  - cbn [unwrap_pending] in Hu. apply (resend_state_ri s stash c e m); [symmetry; exact Hu | assumption..].
  - apply (IH s m); [exact Hu | assumption..].
Qed.

(* ---------- the state machine above the handlers ---------- *)
Lemma s_st_set_state_with : forall dr s next, s_st (set_state_with dr s next) = next.
Proof. intros dr s next. unfold set_state_with. destruct (negb (is_connected next)); reflexivity. Qed.

Lemma set_state_with_ri : forall dr s next, RIst (s_tgt s) next -> RI (set_state_with dr s next).
Proof.
  intros dr s next H. unfold RI. rewrite s_st_set_state_with.
  destruct (is_connected next) eqn:Ec.
  - unfold set_state_with. rewrite Ec. exact H.
  - apply RIst_not_resend, not_connected_not_resend, Ec.
Qed.

Lemma incoming_with_ri : forall dr s m, RI s -> LB s -> RI (incoming_with dr s m).
Proof.
  intros dr s m Hri Hlb. unfold incoming_with.
  destruct (negb (is_connected (s_st s))); [exact Hri|]. destruct m as [mm|]; [|exact Hri].
  destruct (state_fix_msg_in (s_st s) s mm) as [s1 next] eqn:E.
  apply set_state_with_ri. eapply state_fix_ri; [reflexivity | exact Hri | exact Hlb | exact E].
Qed.

Lemma RIst_at_one : forall tgt st, RIst tgt st -> 1 <= tgt -> RIst 1 st.
Proof.
  intros tgt st H Hl. unfold RIst in *. destruct (unwrap_pending st); try exact I.
  destruct H as (H1 & H2 & H3). split; [lia|]. split; [exact H2|].
  destruct stash as [l|]; [|exact I]. destruct H3 as [H3 H4]. split; [|exact H4].
  intros Hi. apply keys_in in Hi as [m Hi]. destruct (H4 _ _ Hi). lia.
Qed.

Lemma RI_moved : forall s x, RI s -> LB s -> s_st x = s_st s -> (s_tgt x = s_tgt s \/ s_tgt x = 1) -> RI x.
Proof.
  intros s x Hri Hlb Hst [Ht|Ht]; unfold RI; rewrite Hst, Ht; [exact Hri | eapply RIst_at_one; [exact Hri | exact Hlb]].
Qed.

Lemma prep_tgt : forall s t hdr body ir ok s1 r, prep s t hdr body ir ok = (s1, r) -> s_tgt s1 = s_tgt s \/ s_tgt s1 = 1.
Proof.
  intros s t hdr body ir ok s1 r E. unfold prep in E.
  repeat match type of E with context [if ?x then _ else _] => destruct x end; inversion E; subst;
    unfold persist, log_cb, upd_logs, upd_store, set_sent_reset, upd_flags, store_reset; cbn;
    repeat match goal with |- context [if ?x then _ else _] => destruct x end; cbn; auto.
Qed.

Lemma queue_for_send_tgt : forall s t hdr body ir ok, let x := queue_for_send s t hdr body ir ok in
  s_st x = s_st s /\ (s_tgt x = s_tgt s \/ s_tgt x = 1).
Proof.
  intros s t hdr body ir ok x. split.
  - assert (H : Same s x) by (unfold x; fr_go). exact (proj2 (proj2 (proj2 (proj2 (proj2 (proj2 (proj2 H))))))).
  - unfold x, queue_for_send. destruct (prep s t hdr body ir ok) as [s1 [m|]] eqn:E;
      [change (s_tgt (enqueue s1 m)) with (s_tgt s1)|]; eapply prep_tgt; exact E.
Qed.

Lemma drop_and_send_tgt : forall s t body ir, let x := drop_and_send_in_reply_to s t body ir in
  s_st x = s_st s /\ (s_tgt x = s_tgt s \/ s_tgt x = 1).
Proof.
  intros s t body ir x. split.
  - assert (H : Same s x) by (unfold x; fr_go). exact (proj2 (proj2 (proj2 (proj2 (proj2 (proj2 (proj2 H))))))).
  - unfold x, drop_and_send_in_reply_to. destruct (prep s t [] body ir true) as [s1 [m|]] eqn:E; [|eapply prep_tgt; exact E].
    assert (Ht : s_tgt (send_queued (enqueue (drop_queued s1) m)) = s_tgt s1).
    { unfold send_queued. destruct (s_out_open _); reflexivity. }
    rewrite Ht. eapply prep_tgt; exact E.
Qed.

Lemma state_stop_not_resend : forall st s s1 next, state_stop st s = (s1, next) -> not_resend_st next.
Proof.
  induction st as [| | | | | a b d | j IH]; intros s s1 next E; cbn [state_stop] in E; try (inversion E; subst);
    try (intros x y z H; discriminate H); try apply ns_SLatent; try apply ns_SLogout.
  eapply IH; exact E.
Qed.

Lemma state_timeout_ri : forall s t s1 next, RI s -> state_timeout (s_st s) s t = (s1, next) -> RIst (s_tgt s1) next.
Proof.
  intros s t s1 next Hri E. unfold RI in Hri. unfold state_timeout in E.
  assert (Hsend : forall ty body, beq_bytes ty T_LOGON = false -> s_tgt (send s ty body) = s_tgt s).
  { intros ty body Hn. apply (send_keeps_tgt s ty [] body None Hn). }
  destruct (s_st s) as [| | | | | a b d | j] eqn:Es.
  - inversion E; subst. apply RIst_not_resend, ns_SLatent.
  - inversion E; subst. apply RIst_not_resend. intros x y z H; discriminate H.
  - destruct t; inversion E; subst; apply RIst_not_resend; first [apply ns_SLatent | apply ns_SLogon].
  - destruct t; inversion E; subst; apply RIst_not_resend; first [apply ns_SLatent | apply ns_SLogout].
  - unfold in_session_timeout in E. destruct t; inversion E; subst; apply RIst_not_resend;
      first [apply ns_SInSession | intros x y z H; discriminate H].
  - unfold in_session_timeout in E. destruct t; inversion E; subst; try exact Hri.
    + rewrite (Hsend T_HEARTBEAT [] eq_refl). exact Hri.
    + rewrite (Hsend T_TESTREQ _ eq_refl). exact Hri.
  - destruct t; inversion E; subst; try exact Hri. apply RIst_not_resend, ns_SLatent.
Qed.

Lemma step_ri : forall s e, RI s -> LB s -> RI (step s e).
Proof.
  intros s e Hri0 Hlb0. unfold step.
  assert (Hri : RI (clear_logs s)) by exact Hri0. assert (Hlb : LB (clear_logs s)) by exact Hlb0.
  set (c := clear_logs s) in *. clearbody c.
  destruct e; cbn [step_event].
  - unfold connect. destruct (is_connected (s_st c)); [exact Hri|].
    destruct (negb (initiator _)); unfold RI; unfold set_state; rewrite s_st_set_state_with; apply RIst_not_resend, ns_SLogon.
  - destruct (_ && _); exact Hri.
  - destruct (negb (s_in_open c)); [exact Hri|]. destruct (s_in_buf c) as [|m r]; [exact Hri|].
    apply incoming_with_ri; [exact Hri | exact Hlb].
  - apply incoming_with_ri; assumption.
  - apply incoming_with_ri; assumption.
  - destruct (is_connected (s_st c)); [|exact Hri].
    unfold RI, set_state. rewrite s_st_set_state_with. apply RIst_not_resend, ns_SLatent.
  - destruct (state_timeout (s_st c) c e) as [s1 next] eqn:E. apply set_state_with_ri.
    eapply state_timeout_ri; eassumption.
  - destruct (queue_for_send_tgt c t [] body None ok) as [H1 H2]. eapply RI_moved; eassumption.
  - destruct (is_logged_on (s_st c)); [unfold send_queued; destruct (s_out_open c)|]; exact Hri.
  - match goal with |- context [state_stop ?a ?b] => destruct (state_stop a b) as [s1 next] eqn:E end.
    apply set_state_with_ri. apply RIst_not_resend. eapply state_stop_not_resend; exact E.
  - destruct (is_connected (s_st c)); [|exact Hri].
    destruct (drop_and_send_tgt c T_LOGON (logon_body c true) None) as [H1 H2]. eapply RI_moved; eassumption.
Qed.

Lemma init_ri c : RI (init_sess c).
Proof. unfold RI, RIst, init_sess. cbn. exact I. Qed.

Lemma run_trace_ri : forall es s, RI s -> LB s -> Forall RI (run_trace es s).
Proof.
  induction es as [|e r IH]; intros s H1 H2; cbn [run_trace]; [constructor|].
  constructor; [apply step_ri; assumption | apply IH; [apply step_ri | apply step_lb]; assumption].
Qed.

Theorem trace_ri : forall c es, Forall RI (run_trace es (init_sess c)).
Proof. intros c es. apply run_trace_ri; [apply init_ri | apply init_lb]. Qed.

(* ---------- clauses 403 / 404 of c04_check ---------- *)
Lemma shape_unwrap st : sh_unwrap (shape_of st) = shape_of (unwrap_pending st).
Proof. induction st; cbn; auto. Qed.

Lemma ri_clause : forall i s, RI s ->
  free_of [403; 404]
    (match sh_unwrap (ob_st (obs_of s)) with
     | ShResend true ks _ re => (if existsb (Z.eqb (ob_tgt (obs_of s))) ks then [(i, 403)] else []) ++ (if re <? ob_tgt (obs_of s) then [(i, 404)] else [])
     | ShResend false _ _ re => if re <? ob_tgt (obs_of s) then [(i, 404)] else []
     | _ => []
     end) = true.
Proof.
  intros i s Hri. change (ob_st (obs_of s)) with (shape_of (s_st s)). change (ob_tgt (obs_of s)) with (s_tgt s).
  rewrite shape_unwrap. unfold RI, RIst in Hri.
  destruct (unwrap_pending (s_st s)) as [| | | | | stash c e | j]; try reflexivity.
  destruct Hri as (H1 & _ & H3). cbn [shape_of].
    replace (e <? s_tgt s) with false by (symmetry; apply Z.ltb_ge; lia).
    destruct stash as [l|]; [|reflexivity].
    replace (existsb (Z.eqb (s_tgt s)) (map fst l)) with false; [reflexivity|].
    symmetry. destruct (existsb (Z.eqb (s_tgt s)) (map fst l)) eqn:Ex; [|reflexivity].
    apply existsb_exists in Ex as [k [Hk Hq]]. apply Z.eqb_eq in Hq. subst k. exfalso. exact (proj1 H3 Hk).
Qed.

Lemma c04_scan_recovery : forall es s i kept, RI s -> LB s ->
  free_of [403; 404] (c04_scan (s_cfg s) i kept (obs_of s) (combine es (map obs_of (run_trace es s)))) = true.
Proof.
  induction es as [|e r IH]; intros s i kept Hri Hlb; cbn [run_trace map combine]; [reflexivity|].
  cbn [c04_scan]. rewrite !free_of_app. repeat (apply andb_true_iff; split).
  - free_rest.
  - free_rest.
  - free_rest.
  - apply ri_clause. apply step_ri; assumption.
  - free_rest.
  - free_rest.
  - free_rest.
  - rewrite <- (step_cfg (s_cfg s) s e eq_refl). apply IH; [apply step_ri | apply step_lb]; assumption.
Qed.

(* C04, trace level: on every trace of the model, after every event, a recovering session never expects the number of a
   message it is keeping (403) and never expects a number beyond the range it is recovering (404) *)
Theorem c04_recovery_invariant_never_fails : forall c es,
  free_of [403; 404] (c04_check c (combine es (map obs_of (run_trace es (init_sess c))))) = true.
Proof. intros c es. unfold c04_check. apply (c04_scan_recovery es (init_sess c)); [apply init_ri | apply init_lb]. Qed.
