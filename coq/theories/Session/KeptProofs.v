(* C04, clause 405 of c04_check: no kept application message is dropped.  While the session is recovering, when the
   expected number passes the number k of a kept message that would be accepted (application type, header passes at k,
   validator accepts) — and neither the processed message nor a kept SequenceReset below k skipped k, and the store was not
   reset — the message was handed to the application (FromApp for k) in that very step.
   Model level: rs_405 (resendState.FixMsgIn: the drain loop hands every kept message that is next to inSession.FixMsgIn;
   the expected number advances one at a time except for SequenceReset jumps — TjProofs.v).
   Trace level (every configuration, every event list): the scan's record `kept` of what is kept under each stash key agrees
   with the model's stash (invariant KA: the scan records a message only when it passes the header checks, and then it is the
   one the engine keeps; otherwise it forgets what sits under that number). *)
From Coq Require Import String.
From Coq Require Import ZArith List Bool Lia.
From QF Require Import Base.Bytes Session.Types Session.Model Session.Spec Session.C01Proofs Session.LocalProofs
  Session.FrameProofs Session.TraceProofs Session.RecoveryProofs Session.ReactionProofs Session.TgProofs Session.MonoProofs
  Session.ResendInvProofs Session.NoReqProofs Session.ChunkProofs Session.TjProofs.
Import ListNotations.
Open Scope list_scope.
Open Scope Z_scope.

(* ---------- small facts ---------- *)
Lemma existsb_rev {A} (f : A -> bool) (l : list A) : existsb f (rev l) = existsb f l.
Proof.
  induction l as [|x r IH]; [reflexivity|]. cbn [rev existsb]. rewrite existsb_app, IH. cbn [existsb].
  rewrite orb_false_r. apply orb_comm.
Qed.

Lemma mono_delivered s0 s k : Mono s0 s -> delivered k (s_cbs s0) = true -> delivered k (s_cbs s) = true.
Proof.
  intros [_ Hm] H. unfold delivered in *. apply existsb_exists in H as [c [Hc Hp]]. apply existsb_exists.
  exists c. split; [apply Hm; exact Hc | exact Hp].
Qed.
Lemma mono_rst s0 s : Mono s0 s -> rst s0 = true -> rst s = true.
Proof.
  intros [_ Hm] H. unfold rst, has_reset in *. apply existsb_exists in H as [c [Hc Hp]]. apply existsb_exists.
  exists c. split; [apply Hm; exact Hc | exact Hp].
Qed.

Definition jumps (x : minput) (k : Z) : Prop :=
  beq_bytes (mi_type x) T_SEQRESET = true /\ exists q, mi_newseq x = FVal q /\ k < q.

Lemma is_admin_false t : is_admin t = false ->
  beq_bytes t T_LOGON = false /\ beq_bytes t T_LOGOUT = false /\ beq_bytes t T_RESENDREQ = false
  /\ beq_bytes t T_SEQRESET = false /\ beq_bytes t T_TESTREQ = false.
Proof. unfold is_admin. intros H. repeat (apply orb_false_elim in H as [H ?]). repeat split; assumption. Qed.

(* an application message that is next in sequence, passes the header checks and the validator, is handed to FromApp *)
Lemma app_delivered : forall s mk s1 next,
  hdr_ok (s_cfg s) mk -> mi_seq mk = FVal (s_tgt s) -> is_admin (mi_type mk) = false -> mi_valid mk = VAccept ->
  in_session_fix_msg_in s mk = (s1, next) -> delivered (s_tgt s) (s_cbs s1) = true.
Proof.
  intros s mk s1 next Hh Hseq Ha Hv E. destruct (is_admin_false _ Ha) as (A1 & A2 & A3 & A4 & A5).
  unfold in_session_fix_msg_in in E. rewrite A1, A2, A3, A4, A5 in E. unfold verify in E.
  rewrite (verify_select_in_sequence s mk true true true Hh Hseq) in E.
  unfold verify_msg_against_app_impl in E. rewrite Hv in E. cbn [rej_of_verdict] in E. rewrite Ha in E.
  match type of E with context [log_cb s ?c] => set (sx := log_cb s c) in E end.
  assert (Hd : delivered (s_tgt s) (s_cbs sx) = true).
  { unfold sx, log_cb. cbn [s_cbs upd_logs delivered existsb]. rewrite Hseq, Z.eqb_refl. reflexivity. }
  destruct (rej_of_verdict (mi_app mk)) as [r|].
  - apply (mono_delivered sx); [|exact Hd]. eapply mo_process_reject; [exact E | apply mono_refl].
  - inversion E; subst. exact Hd.
Qed.

(* ---------- the drain loop: the expected number reaches k only by handing over the message kept under k ---------- *)
Lemma drain_traj : forall fuel s l next s2 l' next2 still k mk,
  resend_drain fuel s l next = (s2, l', next2, still) ->
  s_tgt s <= k ->
  (forall x, In (k, x) l -> x = mk) ->
  (forall n0 x, In (n0, x) l -> s_tgt s <= n0 < k -> ~ jumps x k) ->
  mi_seq mk = FVal k -> is_admin (mi_type mk) = false -> hdr_ok (s_cfg s) mk -> mi_valid mk = VAccept ->
  rst s2 = true \/ delivered k (s_cbs s2) = true \/ s_tgt s2 <= k.
Proof.
  induction fuel as [|f IH]; intros s l next s2 l' next2 still k mk E Hle Hacc Hnj Hseq Ha Hh Hv; cbn [resend_drain] in E.
  - inversion E; subst. right; right; exact Hle.
  - destruct (stash_take (s_tgt s) l) as [[x l1]|] eqn:Et; [|inversion E; subst; right; right; exact Hle].
    destruct (stash_take_some _ _ _ _ Et) as (Hin & Hsub & _).
    destruct (in_session_fix_msg_in s x) as [s1 n1] eqn:Ei.
    pose proof (adv_in_session_fix_msg_in s s x s1 n1 Ei (tj_refl s)) as [_ Hadv].
    pose proof (fr_in_session_fix_msg_in s s x s1 n1 Ei (same_refl s)) as Hs1.
    assert (Hmid : rst s1 = true \/ delivered k (s_cbs s1) = true \/ (s_tgt s1 <= k /\ s_tgt s <= s_tgt s1)).
    { destruct (Z.eq_dec (s_tgt s) k) as [Heq|Hne].
      - right; left. assert (Hx : x = mk) by (apply Hacc; rewrite <- Heq; exact Hin). subst x.
        rewrite <- Heq. eapply app_delivered; try eassumption. rewrite Heq. exact Hseq.
      - destruct Hadv as [A|[A|[A|(A1 & A2 & A3)]]].
        + left; exact A.
        + right; right. lia.
        + right; right. lia.
        + right; right. split; [|lia]. destruct (Z.le_gt_cases (s_tgt s1) k) as [Hc|Hc]; [exact Hc|]. exfalso.
          apply (Hnj (s_tgt s) x Hin); [lia|]. split; [exact A1 | exists (s_tgt s1); split; [exact A2 | lia]]. }
    destruct (negb (is_logged_on n1)).
    + inversion E; subst. destruct Hmid as [A|[A|[A _]]]; auto.
    + pose proof (mo_resend_drain s1 _ _ _ _ _ _ _ _ E (mono_refl s1)) as Hm.
      destruct Hmid as [A|[A|[A1 A2]]].
      * left. eapply mono_rst; eassumption.
      * right; left. eapply mono_delivered; eassumption.
      * eapply IH; [exact E | exact A1 | intros y Hy; apply Hacc, Hsub, Hy
                   | intros n0 y Hy Hr; apply (Hnj n0 y); [apply Hsub; exact Hy | lia]
                   | exact Hseq | exact Ha | rewrite (same_cfg _ _ Hs1); exact Hh | exact Hv].
Qed.

Definition olist (st : option (list (Z * minput))) : list (Z * minput) := match st with Some l => l | None => [] end.

Lemma shared_stash_not_resend l next : not_resend_st next -> shared_stash (Some l) next = Some l.
Proof.
  intros H. destruct next as [| | | | | [l2|] c e | j]; try reflexivity.
  exfalso. eapply H. reflexivity.
Qed.

Lemma take_none_insert : forall t recv m l, ~ In t (keys l) -> t < recv -> stash_take t (stash_insert recv m l) = None.
Proof.
  intros t recv m l Hn Hlt. apply stash_take_none. intros Hi. apply keys_insert in Hi as [Hi|Hi]; [lia | exact (Hn Hi)].
Qed.

(* resendState.FixMsgIn, model level *)
Lemma rs_405 : forall s l0 ce re m s' next' k mk,
  unwrap_pending (s_st s) = SResend (Some l0) ce re -> RI s ->
  resend_state_fix_msg_in s (Some l0) ce re m = (s', next') ->
  In k (keys l0) -> (forall x, In (k, x) l0 -> x = mk) ->
  is_admin (mi_type mk) = false -> hdr_ok (s_cfg s) mk -> mi_valid mk = VAccept ->
  ~ jumps m k -> (forall n0 x, In (n0, x) l0 -> s_tgt s <= n0 < k -> ~ jumps x k) ->
  s_tgt s <= k -> k < s_tgt s' ->
  delivered k (s_cbs s') = true \/ rst s' = true.
Proof.
  intros s l0 ce re m s' next' k mk Hu Hri E Hk Hacc Ha Hh Hv Hnjm Hnj Hle Hlt.
  unfold RI, RIst in Hri. rewrite Hu in Hri. destruct Hri as (Hre & _ & Hnk & Hwk).
  assert (Hseq : mi_seq mk = FVal k).
  { apply keys_in in Hk as [x Hx]. rewrite <- (Hacc x Hx). exact (proj1 (Hwk _ _ Hx)). }
  assert (Hlt0 : s_tgt s < k).
  { destruct (Z.eq_dec (s_tgt s) k) as [Heq|Hne]; [|lia]. exfalso. apply Hnk. rewrite Heq. exact Hk. }
  unfold resend_state_fix_msg_in in E.
  destruct (in_session_fix_msg_in s m) as [s1 next] eqn:Ei.
  pose proof (adv_in_session_fix_msg_in s s m s1 next Ei (tj_refl s)) as [_ Hadv].
  pose proof (fr_in_session_fix_msg_in s s m s1 next Ei (same_refl s)) as Hs1.
  assert (Hmid : rst s1 = true \/ (s_tgt s1 <= k /\ s_tgt s <= s_tgt s1)).
  { destruct Hadv as [A|[A|[A|(A1 & A2 & A3)]]].
    - left; exact A.
    - right; lia.
    - right; lia.
    - right. split; [|lia]. destruct (Z.le_gt_cases (s_tgt s1) k) as [Hc|Hc]; [exact Hc|]. exfalso.
      apply Hnjm. split; [exact A1 | exists (s_tgt s1); split; [exact A2 | lia]]. }
  destruct (negb (is_logged_on next)).
  { inversion E; subst. destruct Hmid as [A|[A _]]; [right; exact A | lia]. }
  match type of E with context [resend_drain ?f ?a ?b ?c] => destruct (resend_drain f a b c) as [[[s2 l'] next2] still] eqn:Ed end.
  assert (D : rst s2 = true \/ delivered k (s_cbs s2) = true \/ s_tgt s2 <= k).
  { destruct (in_session_char s m s1 next Ei) as [Hnr|(recv & Hsq & Hgt & Ep)].
    - rewrite (shared_stash_not_resend l0 next Hnr) in Ed.
      destruct Hmid as [A|[A1 A2]].
      + left. eapply mono_rst; [eapply mo_resend_drain; [exact Ed | apply mono_refl] | exact A].
      + eapply drain_traj; [exact Ed | exact A1 | exact Hacc | intros n0 x Hx Hr; apply (Hnj n0 x Hx); lia
                           | exact Hseq | exact Ha | rewrite (same_cfg _ _ Hs1); exact Hh | exact Hv].
    - cbn [process_reject] in Ep. rewrite Hu in Ep. inversion Ep; subst s1 next. cbn [shared_stash] in Ed.
      cbn [resend_drain] in Ed. rewrite (take_none_insert _ _ _ _ Hnk Hgt) in Ed. inversion Ed; subst. right; right; lia. }
  assert (Hfin : still = true -> Tj s2 s' /\ Mono s2 s').
  { intros ->. cbn [negb] in E. brk_in E; inv E; (split; [tj_go | mo_go]). }
  destruct still.
  - destruct (Hfin eq_refl) as [[T1 T2] Hm].
    destruct D as [A|[A|A]].
    + right. apply T1; exact A.
    + left. eapply mono_delivered; eassumption.
    + destruct T2 as [T2|T2]; [right; exact T2 | lia].
  - cbn [negb] in E. inversion E; subst. destruct D as [A|[A|A]]; [right; exact A | left; exact A | lia].
Qed.

(* ---------- how the stash evolves in one handler call ---------- *)
Definition stash_of_st (st : sstate) : list (Z * minput) :=
  match unwrap_pending st with SResend (Some l) _ _ => l | _ => [] end.
Definition type_ok (m : minput) : bool :=
  gated_type (mi_type m) || (beq_bytes (mi_type m) T_SEQRESET && is_gapfill m).

Lemma stash_of_not_resend st : not_resend_st st -> stash_of_st st = [].
Proof. intros H. unfold stash_of_st. destruct (unwrap_pending st) eqn:E; try reflexivity. exfalso. eapply H. exact E. Qed.

Lemma verify_then_reject_nohi : forall s m lo app s' r s1 next,
  verify_select s m false lo app = (s', Some r) -> process_reject s' m r = (s1, next) -> not_resend_st next.
Proof.
  intros s m lo app s' r s1 next Ev Ep. destruct r as [a b|a b| | |reason tag bus].
  - pose proof (verify_select_too_high_hi _ _ _ _ _ _ _ _ Ev). discriminate.
  - eapply process_reject_other; [|exact Ep]. intros; discriminate.
  - eapply process_reject_other; [|exact Ep]. intros; discriminate.
  - eapply process_reject_other; [|exact Ep]. intros; discriminate.
  - eapply process_reject_other; [|exact Ep]. intros; discriminate.
Qed.

Definition via_too_high_typed (s : sess) (m : minput) (s1 : sess) (next : sstate) : Prop :=
  not_resend_st next
  \/ (type_ok m = true /\ exists recv, mi_seq m = FVal recv /\ s_tgt s < recv /\ process_reject s m (RTooHigh recv (s_tgt s)) = (s1, next)).

Lemma typed_of_via s m s1 next : type_ok m = true -> via_too_high s m s1 next -> via_too_high_typed s m s1 next.
Proof. intros Ht [H|H]; [left; exact H | right; split; [exact Ht | exact H]]. Qed.

(* only sequence-gated messages and gap-fill SequenceResets are ever kept *)
Lemma in_session_char2 : forall s m s1 next, in_session_fix_msg_in s m = (s1, next) -> via_too_high_typed s m s1 next.
Proof.
  intros s m s1 next E. unfold in_session_fix_msg_in in E.
  destruct (beq_bytes (mi_type m) T_LOGON) eqn:T1.
  { destruct (handle_logon s m) as [x [r|]]; inversion E; subst; left; [apply ns_SLogout | apply ns_SInSession]. }
  destruct (beq_bytes (mi_type m) T_LOGOUT) eqn:T2.
  { unfold handle_logout in E. destruct (verify_select s m false false true) as [s' [r|]] eqn:Ev.
    - left. eapply verify_then_reject_nohi; eassumption.
    - left. repeat match type of E with context [match ?x with _ => _ end] => destruct x
                                  | context [if ?x then _ else _] => destruct x end; inversion E; subst; apply ns_SLatent. }
  destruct (beq_bytes (mi_type m) T_RESENDREQ) eqn:T3.
  { unfold handle_resend_request in E. destruct (verify_select s m false false true) as [s' [r|]] eqn:Ev.
    - left. eapply verify_then_reject_nohi; eassumption.
    - destruct (mi_beginseq m) as [| |b]; try (left; eapply process_reject_other; [|exact E]; intros; discriminate).
      destruct (mi_endseq m) as [| |e0]; try (left; eapply process_reject_other; [|exact E]; intros; discriminate).
      left. cbv zeta in E.
      repeat match type of E with context [match ?x with _ => _ end] => destruct x end; inversion E; subst; apply ns_SInSession. }
  destruct (beq_bytes (mi_type m) T_SEQRESET) eqn:T4.
  { unfold handle_sequence_reset in E.
    destruct (mi_gapfill m) as [| |g] eqn:Eg.
    - destruct (verify_select s m false false true) as [s' [r|]] eqn:Ev; [left; eapply verify_then_reject_nohi; eassumption|].
      left. repeat match type of E with context [match ?x with _ => _ end] => destruct x
                                  | context [if ?x then _ else _] => destruct x end; inversion E; subst; apply ns_SInSession.
    - left; eapply process_reject_other; [|exact E]; intros; discriminate.
    - destruct g.
      + destruct (verify_select s m true true true) as [s' [r|]] eqn:Ev.
        * apply typed_of_via; [|eapply verify_then_reject; eassumption].
          unfold type_ok, is_gapfill. rewrite T4, Eg. apply orb_true_r.
        * left. repeat match type of E with context [match ?x with _ => _ end] => destruct x
                                      | context [if ?x then _ else _] => destruct x end; inversion E; subst; apply ns_SInSession.
      + destruct (verify_select s m false false true) as [s' [r|]] eqn:Ev; [left; eapply verify_then_reject_nohi; eassumption|].
        left. repeat match type of E with context [match ?x with _ => _ end] => destruct x
                                    | context [if ?x then _ else _] => destruct x end; inversion E; subst; apply ns_SInSession. }
  assert (Hg : type_ok m = true) by (unfold type_ok, gated_type; rewrite T1, T2, T3, T4; reflexivity).
  destruct (beq_bytes (mi_type m) T_TESTREQ).
  { unfold handle_test_request, verify in E. destruct (verify_select s m true true true) as [s' [r|]] eqn:Ev.
    - apply typed_of_via; [exact Hg | eapply verify_then_reject; eassumption].
    - inversion E; subst. left; apply ns_SInSession. }
  unfold verify in E. destruct (verify_select s m true true true) as [s' [r|]] eqn:Ev.
  - apply typed_of_via; [exact Hg | eapply verify_then_reject; eassumption].
  - inversion E; subst. left; apply ns_SInSession.
Qed.

(* a well-addressed, keepable message above the expected number IS reported too high *)
Lemma in_session_too_high : forall s m n0,
  hdr_ok (s_cfg s) m -> mi_seq m = FVal n0 -> s_tgt s < n0 -> type_ok m = true ->
  in_session_fix_msg_in s m = process_reject s m (RTooHigh n0 (s_tgt s)).
Proof.
  intros s m n0 Hh Hseq Hlt Ht. unfold type_ok in Ht. apply orb_true_iff in Ht as [Hg|Hsr].
  - apply gated_failed_verify; [exact Hg|]. apply (verify_select_too_high s m true true n0); assumption.
  - apply andb_true_iff in Hsr as [Hty Hgf]. apply beq_bytes_true in Hty.
    unfold in_session_fix_msg_in. rewrite Hty.
    change (beq_bytes T_SEQRESET T_LOGON) with false. change (beq_bytes T_SEQRESET T_LOGOUT) with false.
    change (beq_bytes T_SEQRESET T_RESENDREQ) with false. change (beq_bytes T_SEQRESET T_SEQRESET) with true. cbv iota.
    unfold handle_sequence_reset. unfold is_gapfill in Hgf.
    destruct (mi_gapfill m) as [| |g]; try discriminate. destruct g; [|discriminate].
    rewrite (verify_select_too_high s m true true n0 Hh Hseq Hlt). reflexivity.
Qed.

Lemma drain_sub : forall fuel s l next s2 l' next2 still,
  resend_drain fuel s l next = (s2, l', next2, still) -> forall x, In x l' -> In x l.
Proof.
  induction fuel as [|f IH]; intros s l next s2 l' next2 still E x Hx; cbn [resend_drain] in E.
  - inversion E; subst. exact Hx.
  - destruct (stash_take (s_tgt s) l) as [[y l1]|] eqn:Et; [|inversion E; subst; exact Hx].
    destruct (stash_take_some _ _ _ _ Et) as (_ & Hsub & _).
    destruct (in_session_fix_msg_in s y) as [s1 n1].
    destruct (negb (is_logged_on n1)); [inversion E; subst; apply Hsub; exact Hx|].
    apply Hsub. eapply IH; eassumption.
Qed.

(* the possible results of resendState.FixMsgIn, without the details of the exits *)
Lemma rs_next_shape : forall s stash ce re m s' next',
  resend_state_fix_msg_in s stash ce re m = (s', next') ->
  exists s1 next, in_session_fix_msg_in s m = (s1, next)
    /\ ((is_logged_on next = false /\ next' = next)
        \/ (is_logged_on next = true /\ exists s2 l' next2 still,
              resend_drain (S (length (olist (shared_stash stash next)))) s1 (olist (shared_stash stash next)) next = (s2, l', next2, still)
              /\ ((still = false /\ next' = next2)
                  \/ (still = true /\ (next' = next2 \/ next' = SLatent
                                       \/ exists c e, next' = SResend (match shared_stash stash next with Some _ => Some l' | None => None end) c e))))).
Proof.
  intros s stash ce re m s' next' E. unfold resend_state_fix_msg_in in E.
  destruct (in_session_fix_msg_in s m) as [s1 next] eqn:Ei. exists s1, next. split; [reflexivity|].
  destruct (is_logged_on next) eqn:El; cbn [negb] in E; [right; split; [reflexivity|] | left; split; [reflexivity|]; inversion E; reflexivity].
  fold (olist (shared_stash stash next)) in E.
  destruct (resend_drain (S (length (olist (shared_stash stash next)))) s1 (olist (shared_stash stash next)) next) as [[[s2 l'] next2] still] eqn:Ed.
  exists s2, l', next2, still. split; [reflexivity|].
  destruct still; cbn [negb] in E; [right; split; [reflexivity|] | left; split; [reflexivity|]; inversion E; reflexivity].
  assert (Hreq : forall x (p : sess * sstate), (exists c e, snd p = SResend (Some []) c e) ->
            exists c e, snd (match p with (s3, SResend _ c e) => (s3, SResend x c e) | (s3, other) => (s3, other) end) = SResend x c e).
  { intros x [s3 st3] (c & e & Hp). cbn [snd] in Hp. subst st3. exists c, e. reflexivity. }
  assert (Hsr : forall b e, exists c e', snd (send_resend_request s2 b e) = SResend (Some []) c e').
  { intros b e. destruct (send_resend_request s2 b e) as [s3 st3] eqn:Er.
    destruct (send_resend_request_shape _ _ _ _ _ Er) as (_ & c & -> & _). exists c, e. reflexivity. }
  destruct (negb (ce =? 0) && (ce <? s_tgt s2) && (s_tgt s2 <=? re)).
  { right; right. destruct (Hreq (match shared_stash stash next with Some _ => Some l' | None => None end) _ (Hsr (s_tgt s2) re)) as (c & e & Hc).
    rewrite E in Hc. exists c, e. exact Hc. }
  assert (Hfinal : forall g : bool,
    (if g && negb (ce =? 0) && (ce =? s_tgt s2)
     then match send_resend_request s2 (s_tgt s2) re with (s3, SResend _ c e) => (s3, SResend (match shared_stash stash next with Some _ => Some l' | None => None end) c e) | (s3, other) => (s3, other) end
     else if s_tgt s2 <=? re then (s2, SResend (match shared_stash stash next with Some _ => Some l' | None => None end) ce re) else (s2, next2)) = (s', next') ->
    next' = next2 \/ next' = SLatent \/ exists c e, next' = SResend (match shared_stash stash next with Some _ => Some l' | None => None end) c e).
  { intros g Eg. destruct (g && negb (ce =? 0) && (ce =? s_tgt s2)).
    - right; right. destruct (Hreq (match shared_stash stash next with Some _ => Some l' | None => None end) _ (Hsr (s_tgt s2) re)) as (c & e & Hc).
      rewrite Eg in Hc. exists c, e. exact Hc.
    - destruct (s_tgt s2 <=? re); inversion Eg; subst; [right; right; eexists; eexists; reflexivity | left; reflexivity]. }
  destruct (mi_gapfill m) as [| |g]; [apply (Hfinal false); exact E | inversion E; subst; right; left; reflexivity | ].
  apply (Hfinal (match FVal g with FVal true => true | _ => false end)). exact E.
Qed.

Definition inserted_as (s : sess) (m : minput) (n : Z) (x : minput) : Prop :=
  x = m /\ mi_seq m = FVal n /\ s_tgt s < n /\ type_ok m = true.

Lemma stash_of_resend st c e : stash_of_st (SResend st c e) = olist st.
Proof. reflexivity. Qed.

Lemma rs_stash : forall s stash ce re m s' next',
  unwrap_pending (s_st s) = SResend stash ce re -> RI s -> LB s ->
  resend_state_fix_msg_in s stash ce re m = (s', next') ->
  (forall n x, In (n, x) (stash_of_st next') -> In (n, x) (olist stash) \/ inserted_as s m n x)
  /\ (forall n0, hdr_ok (s_cfg s) m -> mi_seq m = FVal n0 -> s_tgt s < n0 -> type_ok m = true ->
      forall x, In (n0, x) (stash_of_st next') -> x = m).
Proof.
  intros s stash ce re m s' next' Hu Hri Hlb E.
  destruct (rs_next_shape _ _ _ _ _ _ _ E) as (s1 & next & Ei & Hsh).
  pose proof (in_session_ri s m s1 next Hri Hlb Ei) as R1.
  unfold RI, RIst in Hri. rewrite Hu in Hri. destruct Hri as (Hre & _ & Hst).
  destruct (in_session_char2 s m s1 next Ei) as [Hnr|(Hty & recv & Hsq & Hgt & Ep)].
  - (* the processed message is not kept: the stash can only shrink *)
    assert (Hold : forall n x, In (n, x) (stash_of_st next') -> In (n, x) (olist stash)).
    { destruct Hsh as [[_ ->]|(_ & s2 & l' & next2 & still & Ed & Hx)].
      - rewrite (stash_of_not_resend _ Hnr). intros n x [].
      - assert (Hsame : olist (shared_stash stash next) = olist stash).
        { destruct stash as [l0|]; [rewrite (shared_stash_not_resend l0 next Hnr)|]; reflexivity. }
        assert (Hwl : wk (olist stash)) by (destruct stash as [l0|]; [exact (proj2 Hst) | intros k0 m0 []]).
        rewrite Hsame in Ed.
        destruct (resend_drain_spec _ _ _ _ _ _ _ _ Hwl (Nat.lt_succ_diag_r _) Ed) as (_ & A2 & A3).
        pose proof (drain_sub _ _ _ _ _ _ _ _ Ed) as Hsub.
        assert (Hn2 : not_resend_st next2).
        { destruct still; [|apply A3; reflexivity]. destruct (A2 eq_refl) as [_ HB]. destruct HB as [HB|HB]; [|exact HB].
          destruct HB as [_ HB]. rewrite HB. exact Hnr. }
        destruct Hx as [ [_ ->] | [_ [ -> | [ -> | (c & e & ->) ] ] ] ].
        + rewrite (stash_of_not_resend _ Hn2). intros n x [].
        + rewrite (stash_of_not_resend _ Hn2). intros n x [].
        + intros n x [].
        + rewrite stash_of_resend. intros n x Hx.
          destruct stash as [l0|]; [rewrite (shared_stash_not_resend l0 next Hnr) in Hx; apply Hsub; exact Hx | destruct Hx]. }
    split.
    + intros n x Hx. left. apply Hold; exact Hx.
    + intros n0 Hh Hseq Hlt Ht x Hx. exfalso.
      rewrite (in_session_too_high s m n0 Hh Hseq Hlt Ht) in Ei. cbn [process_reject] in Ei. rewrite Hu in Ei.
      inversion Ei; subst. eapply Hnr. reflexivity.
  - (* the processed message is kept under recv; nothing is drained *)
    cbn [process_reject] in Ep. rewrite Hu in Ep. inversion Ep; subst s1 next. clear Ep.
    destruct stash as [l0|].
    + destruct Hst as [Hnk Hwk].
      destruct Hsh as [[Hl _]|(_ & s2 & l' & next2 & still & Ed & Hx)]; [discriminate|].
      cbn [shared_stash olist] in Ed, Hx. cbn [resend_drain] in Ed.
      rewrite (take_none_insert _ _ _ _ Hnk Hgt) in Ed. inversion Ed; subst s2 l' next2 still. clear Ed.
      assert (Hin : forall n x, In (n, x) (stash_of_st next') -> In (n, x) (stash_insert recv m l0)).
      { destruct Hx as [ [Hf _] | [_ [ -> | [ -> | (c & e & ->) ] ] ] ]; [discriminate | | intros n x [] | ]; intros n x H; exact H. }
      split.
      * intros n x H. apply Hin in H. apply stash_insert_in in H as [H|[H _]]; [right | left; exact H].
        inversion H; subst. repeat split; assumption.
      * intros n0 _ Hseq _ _ x H. apply Hin in H. rewrite Hsq in Hseq. inversion Hseq; subst n0.
        apply stash_insert_in in H as [H|[_ H]]; [inversion H; reflexivity | exfalso; apply H; reflexivity].
    + (* the receiver's map is nil: the new map is not seen by the receiver *)
      destruct Hsh as [[Hl _]|(_ & s2 & l' & next2 & still & Ed & Hx)]; [discriminate|].
      cbn [shared_stash olist length] in Ed, Hx. cbn [resend_drain stash_take] in Ed. inversion Ed; subst s2 l' next2 still. clear Ed.
      destruct Hx as [ [Hf _] | [_ [ -> | [ -> | (c & e & ->) ] ] ] ]; [discriminate | | | ].
      * (* next' = the state returned by processReject: only reached when the expected number is past the range *)
        rewrite stash_of_resend. cbn [olist]. split.
        -- intros n x H. apply stash_insert_in in H as [H|[[] _]]. right. inversion H; subst. repeat split; assumption.
        -- intros n0 _ Hseq _ _ x H. rewrite Hsq in Hseq. inversion Hseq; subst n0.
           apply stash_insert_in in H as [H|[[] _]]. inversion H; reflexivity.
      * split; [intros n x [] | intros n0 _ _ _ _ x []].
      * split; [intros n x [] | intros n0 _ _ _ _ x []].
Qed.

Lemma stash_of_unwrap st st' : unwrap_pending st = unwrap_pending st' -> stash_of_st st = stash_of_st st'.
Proof. intros H. unfold stash_of_st. rewrite H. reflexivity. Qed.

Lemma sf_stash : forall st s m s1 next,
  unwrap_pending st = unwrap_pending (s_st s) -> RI s -> LB s ->
  state_fix_msg_in st s m = (s1, next) ->
  (forall n x, In (n, x) (stash_of_st next) -> In (n, x) (stash_of_st (s_st s)) \/ inserted_as s m n x)
  /\ (forall n0, hdr_ok (s_cfg s) m -> mi_seq m = FVal n0 -> s_tgt s < n0 -> type_ok m = true ->
      forall x, In (n0, x) (stash_of_st next) -> x = m).
Proof.
  induction st as [| | | | | stash c e | j IH]; intros s m s1 next Hu Hri Hlb E; cbn [state_fix_msg_in] in E.
  - inversion E; subst. split; [intros n x []|intros n0 _ _ _ _ x []].
  - inversion E; subst. split; [intros n x []|intros n0 _ _ _ _ x []].
  - assert (Hemp : stash_of_st next = []).
    { unfold logon_state_fix_msg_in in E.
      destruct (negb (beq_bytes (mi_type m) T_LOGON)); [inversion E; subst; reflexivity|].
      destruct (handle_logon s m) as [x [r|]] eqn:Eh; [|inversion E; subst; reflexivity].
      destruct r as [recv ex| | | |]; try (unfold shutdown_with_reason in E; inversion E; subst; reflexivity).
      unfold do_target_too_high in E. destruct (send_resend_request_shape _ _ _ _ _ E) as (_ & c0 & -> & _). reflexivity. }
    rewrite Hemp. split; [intros n x []|intros n0 _ _ _ _ x []].
  - assert (Hemp : stash_of_st next = []).
    { unfold logout_state_fix_msg_in in E. destruct (in_session_fix_msg_in s m) as [x nx].
      destruct nx; inversion E; subst; reflexivity. }
    rewrite Hemp. split; [intros n x []|intros n0 _ _ _ _ x []].
  - (* in session, not recovering: a gap starts a fresh stash holding the message *)
    cbn [unwrap_pending] in Hu.
    destruct (in_session_char2 s m s1 next E) as [Hnr|(Hty & recv & Hsq & Hgt & Ep)].
    + rewrite (stash_of_not_resend _ Hnr). split; [intros n x []|intros n0 _ _ _ _ x []].
    + cbn [process_reject] in Ep. rewrite <- Hu in Ep. unfold do_target_too_high in Ep.
      destruct (send_resend_request s (s_tgt s) (recv - 1)) as [y st0] eqn:Er.
      destruct (send_resend_request_shape _ _ _ _ _ Er) as (_ & c0 & -> & _).
      inversion Ep; subst. rewrite stash_of_resend. cbn [olist]. split.
      * intros n x H. apply stash_insert_in in H as [H|[[] _]]. right. inversion H; subst. repeat split; assumption.
      * intros n0 _ Hseq _ _ x H. rewrite Hsq in Hseq. inversion Hseq; subst n0.
        apply stash_insert_in in H as [H|[[] _]]. inversion H; reflexivity.
  - cbn [unwrap_pending] in Hu.
    assert (Ho : stash_of_st (s_st s) = olist stash) by (unfold stash_of_st; rewrite <- Hu; reflexivity).
    rewrite Ho. apply (rs_stash s stash c e m s1 next); [symmetry; exact Hu | assumption..].
  - apply (IH s m s1 next); [exact Hu | assumption..].
Qed.

(* ---------- the stash across one event ---------- *)
Lemma incoming_stash : forall s m,
  RI s -> LB s ->
  (forall n x, In (n, x) (stash_of_st (s_st (incoming s (Some m)))) -> In (n, x) (stash_of_st (s_st s)) \/ inserted_as s m n x)
  /\ (forall n0, hdr_ok (s_cfg s) m -> mi_seq m = FVal n0 -> s_tgt s < n0 -> type_ok m = true ->
      forall x, In (n0, x) (stash_of_st (s_st (incoming s (Some m)))) -> x = m).
Proof.
  intros s m Hri Hlb. unfold incoming, incoming_with.
  destruct (negb (is_connected (s_st s))) eqn:Ec.
  - assert (Hemp : stash_of_st (s_st s) = []).
    { apply stash_of_not_resend, not_connected_not_resend. apply negb_true_iff in Ec. exact Ec. }
    rewrite Hemp. split; [intros n x []|intros n0 _ _ _ _ x []].
  - destruct (state_fix_msg_in (s_st s) s m) as [s1 next] eqn:E. rewrite s_st_set_state_with.
    apply (sf_stash (s_st s) s m s1 next); [reflexivity | assumption..].
Qed.

Lemma timeout_stash : forall st s t s1 next, state_timeout st s t = (s1, next) ->
  stash_of_st next = stash_of_st st \/ stash_of_st next = [].
Proof.
  intros st s t s1 next E. unfold state_timeout in E.
  destruct st as [| | | | | a b d | j].
  - inversion E; subst. left; reflexivity.
  - inversion E; subst. left; reflexivity.
  - destruct t; inversion E; subst; right; reflexivity.
  - destruct t; inversion E; subst; right; reflexivity.
  - unfold in_session_timeout in E. destruct t; inversion E; subst; right; reflexivity.
  - unfold in_session_timeout in E. destruct t; inversion E; subst; left; reflexivity.
  - destruct t; inversion E; subst; first [left; reflexivity | right; reflexivity].
Qed.

(* events other than the processing of a frame never add to the stash *)
Lemma other_event_stash : forall s e,
  match e with EIncoming _ | EDeliver => False | _ => True end ->
  forall n x, In (n, x) (stash_of_st (s_st (step s e))) -> In (n, x) (stash_of_st (s_st s)).
Proof.
  intros s e He n x. unfold step. change (s_st s) with (s_st (clear_logs s)).
  set (c := clear_logs s). clearbody c.
  assert (Hsame : forall y, s_st y = s_st c -> In (n, x) (stash_of_st (s_st y)) -> In (n, x) (stash_of_st (s_st c)))
    by (intros y -> H; exact H).
  assert (Hnr : forall y, not_resend_st (s_st y) -> In (n, x) (stash_of_st (s_st y)) -> In (n, x) (stash_of_st (s_st c)))
    by (intros y Hy H; rewrite (stash_of_not_resend _ Hy) in H; destruct H).
  destruct e; cbn [step_event]; try contradiction.
  - unfold connect. destruct (is_connected (s_st c)); [intros H; exact H|].
    destruct (negb (initiator _)); apply Hnr; unfold set_state; rewrite s_st_set_state_with; apply ns_SLogon.
  - destruct (_ && _); intros H; exact H.
  - unfold incoming, incoming_with. destruct (negb (is_connected (s_st c))); intros H; exact H.
  - destruct (is_connected (s_st c)); [|intros H; exact H].
    apply Hnr. unfold set_state. rewrite s_st_set_state_with. apply ns_SLatent.
  - destruct (state_timeout (s_st c) c e) as [s1 next] eqn:E. unfold set_state. rewrite s_st_set_state_with.
    destruct (timeout_stash _ _ _ _ _ E) as [H|H]; rewrite H; [intros Hx; exact Hx | intros []].
  - apply Hsame. assert (H : Same c (queue_for_send c t [] body None ok)) by fr_go. exact (same_st _ _ H).
  - apply Hsame. destruct (is_logged_on (s_st c)); [unfold send_queued; destruct (s_out_open c)|]; reflexivity.
  - match goal with |- context [state_stop ?a ?b] => destruct (state_stop a b) as [s1 next] eqn:E end.
    apply Hnr. unfold set_state. rewrite s_st_set_state_with. eapply state_stop_not_resend; exact E.
  - apply Hsame. destruct (is_connected (s_st c)); [|reflexivity].
    assert (H : Same c (send_logon_in_reply_to c true None)) by fr_go. exact (same_st _ _ H).
Qed.

(* ---------- the scan's record of what is kept agrees with the stash ---------- *)
Definition KA (kept : list (Z * minput)) (st : sstate) : Prop :=
  forall n y x, kept_lookup n kept = Some y -> In (n, x) (stash_of_st st) -> x = y.

Lemma stash_keys_shape st : stash_keys (shape_of st) = keys (stash_of_st st).
Proof.
  unfold stash_keys, stash_of_st. rewrite shape_unwrap.
  destruct (unwrap_pending st) as [| | | | | [l|] c e | j]; reflexivity.
Qed.

Lemma existsb_eqb_in k l : existsb (Z.eqb k) l = true <-> In k l.
Proof.
  rewrite existsb_exists. split.
  - intros [x [Hx He]]. apply Z.eqb_eq in He. subst. exact Hx.
  - intros H. exists k. split; [exact H | apply Z.eqb_refl].
Qed.

Lemma kept_lookup_cons a b r n :
  kept_lookup n ((a, b) :: r) = if a =? n then Some b else kept_lookup n r.
Proof. unfold kept_lookup. cbn [find fst]. destruct (a =? n); reflexivity. Qed.

Lemma kept_lookup_filter (p : Z -> bool) : forall kept n y,
  kept_lookup n (filter (fun e0 => p (fst e0)) kept) = Some y -> kept_lookup n kept = Some y /\ p n = true.
Proof.
  induction kept as [|[a b] r IH]; intros n y H; [discriminate H|].
  cbn [filter fst] in H. destruct (p a) eqn:Ep.
  - rewrite kept_lookup_cons in *. destruct (Z.eqb_spec a n) as [->|Hn]; [split; [exact H | exact Ep]|]. apply IH; exact H.
  - destruct (IH _ _ H) as [H1 H2]. split; [|exact H2]. rewrite kept_lookup_cons.
    destruct (Z.eqb_spec a n) as [->|Hn]; [congruence | exact H1].
Qed.

Lemma kept_lookup_in : forall kept n y, kept_lookup n kept = Some y -> In (n, y) kept.
Proof.
  induction kept as [|[a b] r IH]; intros n y H; [discriminate H|]. rewrite kept_lookup_cons in H.
  destruct (Z.eqb_spec a n) as [->|Hn]; [inversion H; subst; left; reflexivity | right; apply IH; exact H].
Qed.

Lemma kept_lookup_some : forall kept n, existsb (fun e0 => fst e0 =? n) kept = true -> exists y, kept_lookup n kept = Some y.
Proof.
  induction kept as [|[a b] r IH]; intros n H; [discriminate H|]. rewrite kept_lookup_cons. cbn [existsb fst] in H.
  destruct (a =? n); [eexists; reflexivity | apply IH; exact H].
Qed.

Lemma ka_filter_sub kept st st' (p : Z -> bool) :
  (forall n x, In (n, x) (stash_of_st st') -> In (n, x) (stash_of_st st)) -> KA kept st ->
  KA (filter (fun e0 => p (fst e0)) kept) st'.
Proof. intros Hsub Hka n y x Hl Hi. destruct (kept_lookup_filter p _ _ _ Hl) as [Hl' _]. exact (Hka n y x Hl' (Hsub _ _ Hi)). Qed.

Lemma ka_filter_out kept st' :
  KA (filter (fun e0 => negb (existsb (Z.eqb (fst e0)) (keys (stash_of_st st')))) kept) st'.
Proof.
  intros n y x Hl Hi.
  destruct (kept_lookup_filter (fun z => negb (existsb (Z.eqb z) (keys (stash_of_st st')))) _ _ _ Hl) as [_ Hp].
  apply negb_true_iff in Hp. exfalso.
  assert (Hin : In n (keys (stash_of_st st'))) by (apply keys_in; exists x; exact Hi).
  apply existsb_eqb_in in Hin. congruence.
Qed.

Definition kept_next (c : cfg) (e : event) (prev o : obs) (kept : list (Z * minput)) : list (Z * minput) :=
  match e with
  | EIncoming m => match mi_seq m with
                   | FVal n => let kept0 := filter (fun e0 => existsb (Z.eqb (fst e0)) (stash_keys (ob_st o))) kept in
                               if existsb (Z.eqb n) (stash_keys (ob_st o)) && (ob_tgt prev <? n)
                                  && (gated_type (mi_type m) || (beq_bytes (mi_type m) T_SEQRESET && is_gapfill m))
                               then (if msg_passes_header c (ob_tgt prev) m then (n, m) :: kept0
                                     else filter (fun e0 => negb (fst e0 =? n)) kept0)
                               else kept0
                   | _ => filter (fun e0 => existsb (Z.eqb (fst e0)) (stash_keys (ob_st o))) kept
                   end
  | EDeliver => filter (fun e0 => negb (existsb (Z.eqb (fst e0)) (stash_keys (ob_st o)))) kept
  | _ => filter (fun e0 => existsb (Z.eqb (fst e0)) (stash_keys (ob_st o))) kept
  end.

Lemma ka_step : forall s e kept, RI s -> LB s -> KA kept (s_st s) ->
  KA (kept_next (s_cfg s) e (obs_of s) (obs_of (step s e)) kept) (s_st (step s e)).
Proof.
  intros s e kept Hri Hlb Hka. unfold kept_next.
  change (ob_st (obs_of (step s e))) with (shape_of (s_st (step s e))). rewrite stash_keys_shape.
  change (ob_tgt (obs_of s)) with (s_tgt s).
  assert (Hother : match e with EIncoming _ | EDeliver => False | _ => True end ->
            KA (filter (fun e0 => existsb (Z.eqb (fst e0)) (keys (stash_of_st (s_st (step s e))))) kept) (s_st (step s e))).
  { intros He. apply (ka_filter_sub kept (s_st s) _ (fun z => existsb (Z.eqb z) (keys (stash_of_st (s_st (step s e)))))); [|exact Hka].
    apply other_event_stash. exact He. }
  destruct e; try (apply Hother; exact I).
  - apply ka_filter_out.
  - (* EIncoming m *)
    assert (Hst : step s (EIncoming m) = incoming (clear_logs s) (Some m)) by reflexivity.
    destruct (incoming_stash (clear_logs s) m Hri Hlb) as [P1 P2]. rewrite <- Hst in P1, P2.
    change (s_st (clear_logs s)) with (s_st s) in P1.
    set (st' := s_st (step s (EIncoming m))) in *.
    assert (Hold : forall n y x, kept_lookup n (filter (fun e0 => existsb (Z.eqb (fst e0)) (keys (stash_of_st st'))) kept) = Some y ->
              In (n, x) (stash_of_st (s_st s)) -> x = y).
    { intros n y x Hl Hi.
      destruct (kept_lookup_filter (fun z => existsb (Z.eqb z) (keys (stash_of_st st'))) _ _ _ Hl) as [Hl' _].
      exact (Hka n y x Hl' Hi). }
    destruct (mi_seq m) as [| |n0] eqn:Eseq.
    + intros n y x Hl Hi. destruct (P1 n x Hi) as [Ho|(_ & Hs & _)]; [exact (Hold n y x Hl Ho) | congruence].
    + intros n y x Hl Hi. destruct (P1 n x Hi) as [Ho|(_ & Hs & _)]; [exact (Hold n y x Hl Ho) | congruence].
    + cbv zeta.
      destruct (existsb (Z.eqb n0) (keys (stash_of_st st')) && (s_tgt s <? n0)
                && (gated_type (mi_type m) || (beq_bytes (mi_type m) T_SEQRESET && is_gapfill m))) eqn:Ec.
      * apply andb_true_iff in Ec as [Ec Hty]. apply andb_true_iff in Ec as [_ Hlt]. apply Z.ltb_lt in Hlt.
        destruct (msg_passes_header (s_cfg s) (s_tgt s) m) eqn:Hp.
        -- (* recorded: the message passes the header checks, so it is the one the engine keeps *)
           pose proof (passes_hdr_ok _ _ _ Hp) as Had.
           intros n y x Hl Hi. rewrite kept_lookup_cons in Hl.
           destruct (Z.eqb_spec n0 n) as [<-|Hn].
           ++ inversion Hl; subst y. apply (P2 n0 Had eq_refl Hlt Hty x Hi).
           ++ destruct (P1 n x Hi) as [Ho|(_ & Hs & _)]; [exact (Hold n y x Hl Ho) | congruence].
        -- (* not recorded: the record for n0 is dropped *)
           intros n y x Hl Hi.
           destruct (kept_lookup_filter (fun z => negb (z =? n0)) _ _ _ Hl) as [Hl' Hne].
           apply negb_true_iff in Hne. apply Z.eqb_neq in Hne.
           destruct (P1 n x Hi) as [Ho|(_ & Hs & _)]; [exact (Hold n y x Hl' Ho) | congruence].
      * intros n y x Hl Hi. destruct (P1 n x Hi) as [Ho|(Hx & Hs & Hlt & Hty)]; [exact (Hold n y x Hl Ho)|].
        exfalso. assert (Hnn : n0 = n) by congruence. subst n0.
        assert (Hin : In n (keys (stash_of_st st'))) by (apply keys_in; exists x; exact Hi).
        apply existsb_eqb_in in Hin. change (s_tgt (clear_logs s)) with (s_tgt s) in Hlt. apply Z.ltb_lt in Hlt.
        unfold type_ok in Hty. rewrite Hin, Hlt, Hty in Ec. discriminate Ec.
Qed.

(* ---------- clause 405 for one event ---------- *)
Lemma step_405 : forall s m kept k mk,
  RI s -> KA kept (s_st s) ->
  let s' := step s (EIncoming m) in
  is_connected (s_st s') = true ->
  In k (keys (stash_of_st (s_st s))) -> kept_lookup k kept = Some mk ->
  ~ jumps m k ->
  (forall e0, In e0 kept -> s_tgt s <= fst e0 < k -> ~ jumps (snd e0) k) ->
  (forall n, In n (keys (stash_of_st (s_st s))) -> s_tgt s <= n < k -> exists y, kept_lookup n kept = Some y) ->
  s_tgt s <= k -> k < s_tgt s' ->
  is_admin (mi_type mk) = false -> hdr_ok (s_cfg s) mk -> mi_valid mk = VAccept ->
  delivered k (s_cbs s') = true \/ rst s' = true.
Proof.
  intros s m kept k mk Hri Hka s' Hcon Hk Hlk Hnjm Hnjk Hunk Hle Hlt Ha Hh Hv.
  unfold stash_of_st in Hk, Hunk. unfold KA, stash_of_st in Hka.
  destruct (unwrap_pending (s_st s)) as [| | | | | [l0|] ce re | j] eqn:Hu; try (destruct Hk; fail).
  assert (Hrec : recovering (s_st s)) by (exists (Some l0), ce, re; exact Hu).
  unfold s', step, step_event, incoming, incoming_with in *.
  change (s_st (clear_logs s)) with (s_st s) in *.
  rewrite (recovering_connected _ Hrec) in *. cbn [negb] in *.
  rewrite (state_fix_recovering _ (clear_logs s) m _ _ _ Hu) in *.
  destruct (resend_state_fix_msg_in (clear_logs s) (Some l0) ce re m) as [s1 next] eqn:E.
  rewrite s_st_set_state_with in Hcon. fold (set_state s1 next) in *.
  rewrite (set_state_connected s1 next Hcon) in *.
  change (s_cbs (upd_st s1 next)) with (s_cbs s1). change (s_tgt (upd_st s1 next)) with (s_tgt s1) in Hlt.
  change (rst (upd_st s1 next)) with (rst s1).
  apply (rs_405 (clear_logs s) l0 ce re m s1 next k mk); try assumption.
  - intros x Hx. exact (Hka k mk x Hlk Hx).
  - intros n0 x Hx Hr.
    assert (Hin : In n0 (keys l0)) by (apply keys_in; exists x; exact Hx).
    destruct (Hunk n0 Hin Hr) as [y Hy].
    rewrite (Hka n0 y x Hy Hx). apply (Hnjk (n0, y)); [apply kept_lookup_in; exact Hy | exact Hr].
Qed.

Lemma free_of_flat_map_in {A} codes (f : A -> list failure) l :
  (forall x, In x l -> free_of codes (f x) = true) -> free_of codes (flat_map f l) = true.
Proof.
  intros H. induction l as [|x r IH]; cbn [flat_map]; [reflexivity|]. rewrite free_of_app, H, IH; [reflexivity | | left; reflexivity].
  intros y Hy. apply H. right. exact Hy.
Qed.

Lemma existsb_false {A} (f : A -> bool) l : existsb f l = false -> forall x, In x l -> f x = false.
Proof.
  intros H x Hx. destruct (f x) eqn:E; [|reflexivity].
  assert (existsb f l = true) by (apply existsb_exists; exists x; split; assumption). congruence.
Qed.

Lemma sh_connected_shape st : sh_logged_on (shape_of st) || match shape_of st with ShLogout => true | _ => false end = true ->
  is_connected st = true.
Proof.
  intros H. apply orb_true_iff in H as [H|H].
  - rewrite sh_logged_on_shape in H. apply logged_on_connected; exact H.
  - destruct st; cbn in H; try discriminate. reflexivity.
Qed.

Lemma clause_405 : forall i s e kept, RI s -> KA kept (s_st s) ->
  let c := s_cfg s in let prev := obs_of s in let o := obs_of (step s e) in
  free_of [405]
    (if sh_logged_on (ob_st o) || match ob_st o with ShLogout => true | _ => false end then
       flat_map (fun k =>
         let jumped := match e with
                       | EIncoming m => beq_bytes (mi_type m) T_SEQRESET && match mi_newseq m with FVal q => k <? q | _ => false end
                       | _ => true
                       end in
         let jumped_by_kept := existsb (fun e0 => (ob_tgt prev <=? fst e0) && (fst e0 <? k) && beq_bytes (mi_type (snd e0)) T_SEQRESET
                                                 && match mi_newseq (snd e0) with FVal q => k <? q | _ => false end) kept in
         let jumped_unknown := existsb (fun n => (ob_tgt prev <=? n) && (n <? k) && negb (existsb (fun e0 => fst e0 =? n) kept))
                                       (stash_keys (ob_st prev)) in
         if negb jumped && negb jumped_by_kept && negb jumped_unknown && (ob_tgt prev <=? k) && (k <? ob_tgt o) && negb (existsb (Z.eqb k) (stash_keys (ob_st o))) then
           match kept_lookup k kept with
           | Some m => if negb (is_admin (mi_type m)) && msg_passes_header c k m
                          && match mi_valid m with VAccept => true | _ => false end
                          && negb (delivered k (ob_cbs o)) && negb (has_reset (ob_cbs o))
                       then [(i, 405)] else []
           | None => []
           end
         else []) (stash_keys (ob_st prev))
     else []) = true.
Proof.
  intros i s e kept Hri Hka c prev o. unfold c, prev, o. clear c prev o.
  change (ob_st (obs_of (step s e))) with (shape_of (s_st (step s e))).
  change (ob_st (obs_of s)) with (shape_of (s_st s)).
  change (ob_tgt (obs_of s)) with (s_tgt s). change (ob_tgt (obs_of (step s e))) with (s_tgt (step s e)).
  change (ob_cbs (obs_of (step s e))) with (rev (s_cbs (step s e))).
  destruct (sh_logged_on (shape_of (s_st (step s e))) || match shape_of (s_st (step s e)) with ShLogout => true | _ => false end) eqn:Hfin; [|reflexivity].
  apply sh_connected_shape in Hfin.
  apply free_of_flat_map_in. intros k Hk. cbv zeta. rewrite stash_keys_shape in Hk.
  destruct e as [| | |m| | | | | | |]; try reflexivity.
  match goal with |- free_of _ (if ?x then _ else _) = true => destruct x eqn:Hc; [|reflexivity] end.
  destruct (kept_lookup k kept) as [mk|] eqn:Hlk; [|reflexivity].
  match goal with |- free_of _ (if ?x then _ else _) = true => destruct x eqn:Hg; [|reflexivity] end.
  exfalso.
  apply andb_true_iff in Hc as [Hc _]. apply andb_true_iff in Hc as [Hc Hlt]. apply andb_true_iff in Hc as [Hc Hle].
  apply andb_true_iff in Hc as [Hc Hunk]. apply andb_true_iff in Hc as [Hj Hjk].
  apply negb_true_iff in Hj. apply negb_true_iff in Hjk. apply negb_true_iff in Hunk.
  apply Z.ltb_lt in Hlt. apply Z.leb_le in Hle.
  apply andb_true_iff in Hg as [Hg Hnr]. apply andb_true_iff in Hg as [Hg Hnd]. apply andb_true_iff in Hg as [Hg Hv].
  apply andb_true_iff in Hg as [Hna Hp]. apply negb_true_iff in Hna. apply negb_true_iff in Hnd. apply negb_true_iff in Hnr.
  assert (Hv' : mi_valid mk = VAccept) by (destruct (mi_valid mk); try discriminate; reflexivity).
  unfold delivered in Hnd. rewrite existsb_rev in Hnd. unfold has_reset in Hnr. rewrite existsb_rev in Hnr.
  destruct (step_405 s m kept k mk Hri Hka Hfin Hk Hlk) as [D|D]; try assumption.
  - intros [J1 (q & J2 & J3)]. rewrite J1, J2 in Hj. apply Z.ltb_lt in J3. rewrite J3 in Hj. discriminate.
  - intros e0 He0 [R1 R2] [J1 (q & J2 & J3)].
    pose proof (existsb_false _ _ Hjk e0 He0) as Hf. cbv beta in Hf.
    apply Z.leb_le in R1. apply Z.ltb_lt in R2. apply Z.ltb_lt in J3. rewrite R1, R2, J1, J2, J3 in Hf. discriminate.
  - intros n Hn [R1 R2]. rewrite <- stash_keys_shape in Hn.
    pose proof (existsb_false _ _ Hunk n Hn) as Hf. cbv beta in Hf.
    apply Z.leb_le in R1. apply Z.ltb_lt in R2. rewrite R1, R2 in Hf. cbn [andb] in Hf. apply negb_false_iff in Hf.
    apply kept_lookup_some; exact Hf.
  - exact (passes_hdr_ok _ _ _ Hp).
  - unfold delivered in D. congruence.
  - unfold rst, has_reset in D. congruence.
Qed.

(* ---------- trace level ---------- *)
Lemma c04_scan_405 : forall es s i kept, Boundary s -> RI s -> LB s -> KA kept (s_st s) ->
  free_of [405] (c04_scan (s_cfg s) i kept (obs_of s) (combine es (map obs_of (run_trace es s)))) = true.
Proof.
  induction es as [|e r IH]; intros s i kept Hb Hri Hlb Hka; cbn [run_trace map combine]; [reflexivity|].
  cbn [c04_scan]. rewrite !free_of_app. repeat (apply andb_true_iff; split).
  - free_rest.
  - free_rest.
  - free_rest.
  - free_rest.
  - apply (clause_405 i s e kept); assumption.
  - free_rest.
  - free_rest.
  - match goal with |- free_of _ (c04_scan _ _ ?kn _ _) = true =>
      change kn with (kept_next (s_cfg s) e (obs_of s) (obs_of (step s e)) kept) end.
    rewrite <- (step_cfg (s_cfg s) s e eq_refl) at 1.
    apply IH; [apply step_boundary | apply step_ri | apply step_lb | apply ka_step]; assumption.
Qed.

Lemma ka_nil st : KA [] st.
Proof. intros n y x H. discriminate H. Qed.

Theorem c04_no_kept_message_dropped : forall c es,
  free_of [405] (c04_check c (combine es (map obs_of (run_trace es (init_sess c))))) = true.
Proof.
  intros c es. unfold c04_check.
  apply (c04_scan_405 es (init_sess c)); [apply init_boundary | apply init_ri | apply init_lb | apply ka_nil].
Qed.

(* ---------- concrete instances ---------- *)
Lemma c04x_msg_addressed chunk t n : hdr_ok (c04x_cfg chunk) (c04x_msg t n).
Proof. unfold hdr_ok. repeat split; try reflexivity; intros x Hx; inversion Hx; subst; discriminate. Qed.

(* Logon, application message 4 arrives early (gap 2..3, message 4 kept), Heartbeats 2 and 3 fill the gap: after 3 the kept
   message 4 is handed to the application and the session is back in normal operation expecting 5 *)
Definition c04x_kept_trace : list event :=
  [EConnect; EIncoming (c04x_msg T_LOGON 1); EIncoming (c04x_msg (B "D") 4);
   EIncoming (c04x_msg T_HEARTBEAT 2); EIncoming (c04x_msg T_HEARTBEAT 3)].
Lemma c04x_kept_trace_delivers :
  map (fun o => (ob_st (snd o), ob_tgt (snd o), delivered 4 (ob_cbs (snd o)))) (c04x_run (c04x_cfg 0) c04x_kept_trace)
  = [(ShLogon, 1, false); (ShInSession, 2, false); (ShResend true [4] 0 3, 2, false); (ShResend true [4] 0 3, 3, false);
     (ShInSession, 5, true)].
Proof. vm_compute. reflexivity. Qed.

(* Regression for the scan's bookkeeping.  A gap-fill SequenceReset 5 -> 12 is kept through the buffered channel (the scan
   does not know what sits under key 5), application message 10 is kept, then a message numbered 5 with no SenderCompID
   arrives: it is rejected, not kept.  The scan used to record it under key 5 and then reported 405 at event 8 when the kept
   SequenceReset moved the expected number from 5 to 12 over the kept message 10.  Recording only messages that pass the
   header checks (and dropping the record for the number otherwise) the scan reports nothing. *)
Definition c04x_seqreset (n q : Z) : minput :=
  {| mi_type := T_SEQRESET; mi_begin := B "FIX.4.2"; mi_sender := Some (B "T"); mi_target := Some (B "S"); mi_seq := FVal n;
     mi_possdup := FVal true; mi_stime := FVal 0; mi_otime := FAbsent; mi_gapfill := FVal true; mi_newseq := FVal q;
     mi_beginseq := FAbsent; mi_endseq := FAbsent; mi_reset := FAbsent; mi_hbint := FAbsent; mi_testreq := None;
     mi_applver := None; mi_route := []; mi_body := []; mi_app := VAccept; mi_valid := VAccept; mi_refuse := [] |}.
Definition c04x_no_sender (n : Z) : minput :=
  {| mi_type := B "D"; mi_begin := B "FIX.4.2"; mi_sender := None; mi_target := Some (B "S"); mi_seq := FVal n;
     mi_possdup := FAbsent; mi_stime := FVal 0; mi_otime := FAbsent; mi_gapfill := FAbsent; mi_newseq := FAbsent;
     mi_beginseq := FAbsent; mi_endseq := FAbsent; mi_reset := FAbsent; mi_hbint := FAbsent; mi_testreq := None;
     mi_applver := None; mi_route := []; mi_body := []; mi_app := VAccept; mi_valid := VAccept; mi_refuse := [] |}.
Definition c04x_misaddressed_trace : list event :=
  [EConnect; EIncoming (c04x_msg T_LOGON 1); EIncoming (c04x_msg (B "D") 10);
   EArrive (c04x_seqreset 5 12); EDeliver; EIncoming (c04x_msg (B "D") 10); EIncoming (c04x_no_sender 5);
   EIncoming (c04x_msg T_HEARTBEAT 3); EIncoming (c04x_msg T_HEARTBEAT 4)].
Lemma c04x_misaddressed_trace_ok :
  c04_check (c04x_cfg 0) (c04x_run (c04x_cfg 0) c04x_misaddressed_trace) = []
  /\ map (fun o => (ob_st (snd o), ob_tgt (snd o))) (c04x_run (c04x_cfg 0) c04x_misaddressed_trace)
     = [(ShLogon, 1); (ShInSession, 2); (ShResend true [10] 0 9, 2); (ShResend true [10] 0 9, 2); (ShResend true [5; 10] 0 9, 2);
        (ShResend true [10; 5] 0 9, 2); (ShResend true [10; 5] 0 9, 3); (ShResend true [10; 5] 0 9, 4); (ShInSession, 12)].
Proof. split; vm_compute; reflexivity. Qed.

(* ============================================================================================================== *)
(* Clause 407: while recovering, an early sequence-gated message that passes the header checks is kept under its number;
   nothing is requested, the expected number stays.
   Reachable-state invariant CE: in the resend state the stash map exists, and — for a non-negative ResendRequestChunkSize —
   the current chunk end is 0 or not below the expected number (every exit of resendState.FixMsgIn establishes it; store
   resets only lower the expected number). *)
Definition CEst (c : cfg) (tgt : Z) (st : sstate) : Prop :=
  match unwrap_pending st with
  | SResend stash cur _ => stash <> None /\ (0 <= c_chunk c -> cur = 0 \/ tgt <= cur)
  | _ => True
  end.
Definition CE (s : sess) : Prop := CEst (s_cfg s) (s_tgt s) (s_st s).

Lemma CEst_not_resend c tgt st : not_resend_st st -> CEst c tgt st.
Proof. intros H. unfold CEst. destruct (unwrap_pending st) eqn:E; try exact I. exfalso. eapply H. exact E. Qed.

Lemma srr_ce s b e s1 st : send_resend_request s b e = (s1, st) ->
  s_tgt s1 = s_tgt s /\ exists c, st = SResend (Some []) c e /\ (0 <= c_chunk (s_cfg s) -> c = 0 \/ b <= c).
Proof.
  intros H. split; [exact (proj1 (send_resend_request_shape _ _ _ _ _ H))|].
  unfold send_resend_request in H. cbv zeta in H.
  destruct (Z.eqb_spec (c_chunk (s_cfg s)) 0) as [Hc|Hc].
  - rewrite Z.ltb_irrefl in H. inversion H; subst. eexists; split; [reflexivity | intros _; left; reflexivity].
  - match type of H with context [if ?x <? e then _ else _] => destruct (x <? e) end;
      inversion H; subst; eexists; split; try reflexivity; intros Hn; [right; lia | left; reflexivity].
Qed.

Lemma too_high_ce : forall s m recv s1 next,
  CE s -> process_reject s m (RTooHigh recv (s_tgt s)) = (s1, next) -> CEst (s_cfg s) (s_tgt s1) next.
Proof.
  intros s m recv s1 next Hce E. cbn [process_reject] in E. unfold CE, CEst in Hce.
  destruct (unwrap_pending (s_st s)) as [| | | | | st c e | j] eqn:Eu.
  6: { inversion E; subst. unfold CEst. cbn [unwrap_pending]. split; [discriminate | exact (proj2 Hce)]. }
  all: unfold do_target_too_high in E;
    destruct (send_resend_request s (s_tgt s) (recv - 1)) as [x st0] eqn:Er;
    destruct (srr_ce _ _ _ _ _ Er) as (Hx & c0 & -> & Hc);
    inversion E; subst; unfold CEst; cbn [unwrap_pending]; rewrite Hx; (split; [discriminate | exact Hc]).
Qed.

Lemma in_session_ce : forall s m s1 next,
  CE s -> in_session_fix_msg_in s m = (s1, next) -> CEst (s_cfg s) (s_tgt s1) next.
Proof.
  intros s m s1 next Hce E. destruct (in_session_char s m s1 next E) as [H|(recv & Hs & Hlt & Ep)].
  - apply CEst_not_resend; exact H.
  - eapply too_high_ce; eassumption.
Qed.

Lemma resend_state_ce : forall s stash ce re m s' next',
  unwrap_pending (s_st s) = SResend stash ce re -> RI s -> LB s -> CE s ->
  resend_state_fix_msg_in s stash ce re m = (s', next') -> CEst (s_cfg s) (s_tgt s') next'.
Proof.
  intros s stash ce re m s' next' Hu Hri Hlb Hce E. unfold resend_state_fix_msg_in in E.
  destruct (in_session_fix_msg_in s m) as [s1 next] eqn:Ei.
  pose proof (in_session_ce s m s1 next Hce Ei) as R1.
  pose proof (in_session_ri s m s1 next Hri Hlb Ei) as Q1.
  pose proof (fr_in_session_fix_msg_in s s m s1 next Ei (same_refl s)) as Hs1.
  destruct (negb (is_logged_on next)); [inversion E; subst; exact R1|].
  unfold RI, RIst in Hri. rewrite Hu in Hri. destruct Hri as (_ & _ & Hst).
  unfold CE, CEst in Hce. rewrite Hu in Hce. destruct Hce as [Hsome _].
  destruct stash as [l0|]; [clear Hsome | exfalso; apply Hsome; reflexivity].
  assert (Hst' : exists l, shared_stash (Some l0) next = Some l /\ wk l).
  { cbn [shared_stash]. destruct next as [| | | | | [l2|] c2 e2 | j]; try (exists l0; split; [reflexivity | exact (proj2 Hst)]).
    exists l2. split; [reflexivity|]. unfold RIst in Q1. cbn [unwrap_pending] in Q1. exact (proj2 (proj2 (proj2 Q1))). }
  destruct Hst' as (l & Hsh & Hwl). rewrite Hsh in E.
  destruct (resend_drain (S (length l)) s1 l next) as [[[s2 l'] next2] still] eqn:Ed.
  destruct (resend_drain_spec _ _ _ _ _ _ _ _ Hwl (Nat.lt_succ_diag_r _) Ed) as (_ & A2 & A3).
  pose proof (fr_resend_drain s _ _ _ _ _ _ _ _ Ed Hs1) as Hs2.
  destruct still; cbn [negb] in E; [|inversion E; subst; apply CEst_not_resend, A3; reflexivity].
  destruct (A2 eq_refl) as [_ B2].
  assert (Hreq : forall s3 st3, send_resend_request s2 (s_tgt s2) re = (s3, st3) ->
            CEst (s_cfg s) (s_tgt (fst (match st3 with SResend _ c e => (s3, SResend (Some l') c e) | other => (s3, other) end)))
                 (snd (match st3 with SResend _ c e => (s3, SResend (Some l') c e) | other => (s3, other) end))).
  { intros s3 st3 Er. destruct (srr_ce _ _ _ _ _ Er) as (Hx & c3 & -> & Hc3). cbn [fst snd].
    unfold CEst. cbn [unwrap_pending]. rewrite Hx. split; [discriminate|]. rewrite <- (same_cfg _ _ Hs2). exact Hc3. }
  destruct (negb (ce =? 0) && (ce <? s_tgt s2) && (s_tgt s2 <=? re)) eqn:Ec.
  { destruct (send_resend_request s2 (s_tgt s2) re) as [s3 st3] eqn:Er.
    specialize (Hreq s3 st3 eq_refl). destruct st3; inversion E; subst; exact Hreq. }
  assert (Hfinal : forall g : bool,
    (if g && negb (ce =? 0) && (ce =? s_tgt s2)
     then match send_resend_request s2 (s_tgt s2) re with (s3, SResend _ c e) => (s3, SResend (Some l') c e) | (s3, other) => (s3, other) end
     else if s_tgt s2 <=? re then (s2, SResend (Some l') ce re) else (s2, next2)) = (s', next') -> CEst (s_cfg s) (s_tgt s') next').
  { intros g Eg. destruct (g && negb (ce =? 0) && (ce =? s_tgt s2)).
    - destruct (send_resend_request s2 (s_tgt s2) re) as [s3 st3] eqn:Er.
      specialize (Hreq s3 st3 eq_refl). destruct st3; inversion Eg; subst; exact Hreq.
    - destruct (Z.leb_spec (s_tgt s2) re) as [Hle|Hgt]; inversion Eg; subst.
      + unfold CEst. cbn [unwrap_pending]. split; [discriminate|]. intros _.
        destruct (Z.eqb_spec ce 0) as [Hz|Hz]; [left; exact Hz|]. right.
        destruct (Z.ltb_spec ce (s_tgt s')) as [Hl|Hl]; [|lia]. cbn [negb andb] in Ec. discriminate Ec.
      + destruct B2 as [[-> ->]|B2]; [exact R1 | apply CEst_not_resend; exact B2]. }
  destruct (mi_gapfill m) as [| |g]; [apply (Hfinal false); exact E | inversion E; subst; apply CEst_not_resend, ns_SLatent | ].
  apply (Hfinal (match FVal g with FVal true => true | _ => false end)). exact E.
Qed.

Lemma handle_logon_too_high_exp : forall s m s1 recv exp,
  handle_logon s m = (s1, Some (RTooHigh recv exp)) -> exp = s_tgt s1.
Proof.
  intros s m s1 recv exp E. unfold handle_logon in E.
  destruct (if c_begin (s_cfg s) =? 5 then match mi_applver m with None => Some (R_cond_missing 1137) | Some _ => None end else None) as [r0|] eqn:E0.
  { destruct (c_begin (s_cfg s) =? 5); [|discriminate]. destruct (mi_applver m); inversion E0; subst. inversion E. }
  destruct (verify_msg_against_app_impl s m) as [x [r|]] eqn:Ea.
  { unfold verify_msg_against_app_impl in Ea. destruct (mi_valid m); cbn [rej_of_verdict] in Ea;
      try (inversion Ea; subst; inversion E; fail).
    destruct (mi_app m); cbn [rej_of_verdict] in Ea; inversion Ea; subst; inversion E. }
  cbv zeta in E.
  match type of E with context [verify_select ?a m false true false] => destruct (verify_select a m false true false) as [y [r|]] eqn:Ev end.
  { inversion E; subst. pose proof (verify_select_too_high_hi _ _ _ _ _ _ _ _ Ev). discriminate. }
  match type of E with context [check_target_too_high ?a m] => destruct (check_target_too_high a m) as [r|] eqn:Eh; [|inversion E];
    set (s5 := a) in * end.
  inversion E; subst. unfold check_target_too_high in Eh.
  destruct (mi_seq m) as [| |n]; try (inversion Eh; fail).
  destruct (Z.ltb_spec (s_tgt s5) n); inversion Eh; subst. reflexivity.
Qed.

Lemma state_fix_ce : forall st s m s1 next,
  unwrap_pending st = unwrap_pending (s_st s) -> RI s -> LB s -> CE s ->
  state_fix_msg_in st s m = (s1, next) -> CEst (s_cfg s) (s_tgt s1) next.
Proof.
  induction st as [| | | | | stash c e | j IH]; intros s m s1 next Hu Hri Hlb Hce E; cbn [state_fix_msg_in] in E.
  - inversion E; subst. apply CEst_not_resend, ns_SLatent.
  - inversion E; subst. apply CEst_not_resend. intros a b c H; discriminate H.
  - unfold logon_state_fix_msg_in in E.
    destruct (negb (beq_bytes (mi_type m) T_LOGON)); [inversion E; subst; apply CEst_not_resend, ns_SLatent|].
    destruct (handle_logon s m) as [x [r|]] eqn:Eh; [|inversion E; subst; apply CEst_not_resend, ns_SInSession].
    pose proof (fr_handle_logon s s m x _ Eh (same_refl s)) as Hs.
    destruct r as [recv ex| | | |]; try (unfold shutdown_with_reason in E; inversion E; subst; apply CEst_not_resend, ns_SLatent).
    pose proof (handle_logon_too_high_exp _ _ _ _ _ Eh) as ->.
    unfold do_target_too_high in E. destruct (srr_ce _ _ _ _ _ E) as (Hx & c0 & -> & Hc).
    unfold CEst. cbn [unwrap_pending]. rewrite Hx. split; [discriminate|]. rewrite <- (same_cfg _ _ Hs). exact Hc.
  - unfold logout_state_fix_msg_in in E. destruct (in_session_fix_msg_in s m) as [x nx].
    destruct nx; inversion E; subst; apply CEst_not_resend; first [apply ns_SLatent | apply ns_SLogout].
  - apply (in_session_ce s m s1); assumption.
  - cbn [unwrap_pending] in Hu. apply (resend_state_ce s stash c e m s1); [symmetry; exact Hu | assumption..].
  - apply (IH s m s1); [exact Hu | assumption..].
Qed.

Lemma set_state_with_ce : forall dr s next c0, s_cfg s = c0 -> CEst c0 (s_tgt s) next ->
  CEst c0 (s_tgt (set_state_with dr s next)) (s_st (set_state_with dr s next)).
Proof.
  intros dr s next c0 Hc H. rewrite s_st_set_state_with.
  destruct (is_connected next) eqn:Ec.
  - unfold set_state_with. rewrite Ec. exact H.
  - apply CEst_not_resend, not_connected_not_resend, Ec.
Qed.

Lemma incoming_with_ce : forall dr s m, RI s -> LB s -> CE s ->
  CEst (s_cfg s) (s_tgt (incoming_with dr s m)) (s_st (incoming_with dr s m)).
Proof.
  intros dr s m Hri Hlb Hce. unfold incoming_with.
  destruct (negb (is_connected (s_st s))); [exact Hce|]. destruct m as [mm|]; [|exact Hce].
  destruct (state_fix_msg_in (s_st s) s mm) as [s1 next] eqn:E.
  apply set_state_with_ce; [exact (same_cfg _ _ (fr_state_fix_msg_in s _ _ _ _ _ E (same_refl s)))|].
  eapply state_fix_ce; [reflexivity | exact Hri | exact Hlb | exact Hce | exact E].
Qed.

Lemma CEst_moved : forall c tgt tgt' st, CEst c tgt st -> 1 <= tgt -> (tgt' = tgt \/ tgt' = 1) -> CEst c tgt' st.
Proof.
  intros c tgt tgt' st H Hl Ht. unfold CEst in *. destruct (unwrap_pending st); try exact I.
  destruct H as [H1 H2]. split; [exact H1|]. intros Hn. destruct (H2 Hn) as [Hz|Hz]; [left; exact Hz | right; lia].
Qed.

Lemma state_timeout_ce : forall s t s1 next, CE s -> state_timeout (s_st s) s t = (s1, next) -> CEst (s_cfg s) (s_tgt s1) next.
Proof.
  intros s t s1 next Hce E. unfold CE in Hce. unfold state_timeout in E.
  assert (Hsend : forall ty body, beq_bytes ty T_LOGON = false -> s_tgt (send s ty body) = s_tgt s).
  { intros ty body Hn. apply (send_keeps_tgt s ty [] body None Hn). }
  destruct (s_st s) as [| | | | | a b d | j] eqn:Es.
  - inversion E; subst. apply CEst_not_resend, ns_SLatent.
  - inversion E; subst. apply CEst_not_resend. intros x y z H; discriminate H.
  - destruct t; inversion E; subst; apply CEst_not_resend; first [apply ns_SLatent | apply ns_SLogon].
  - destruct t; inversion E; subst; apply CEst_not_resend; first [apply ns_SLatent | apply ns_SLogout].
  - unfold in_session_timeout in E. destruct t; inversion E; subst; apply CEst_not_resend;
      first [apply ns_SInSession | intros x y z H; discriminate H].
  - unfold in_session_timeout in E. destruct t; inversion E; subst; try exact Hce.
    + rewrite (Hsend T_HEARTBEAT [] eq_refl). exact Hce.
    + rewrite (Hsend T_TESTREQ _ eq_refl). exact Hce.
  - destruct t; inversion E; subst; try exact Hce. apply CEst_not_resend, ns_SLatent.
Qed.

Lemma step_ce_aux : forall s e, RI s -> LB s -> CE s -> CEst (s_cfg s) (s_tgt (step s e)) (s_st (step s e)).
Proof.
  intros s e Hri0 Hlb0 Hce0. unfold step.
  assert (Hri : RI (clear_logs s)) by exact Hri0. assert (Hlb : LB (clear_logs s)) by exact Hlb0.
  assert (Hce : CE (clear_logs s)) by exact Hce0. change (s_cfg s) with (s_cfg (clear_logs s)).
  set (c := clear_logs s) in *. clearbody c. clear Hri0 Hlb0 Hce0.
  assert (Hnr : forall x, not_resend_st (s_st x) -> CEst (s_cfg c) (s_tgt x) (s_st x)) by (intros x Hx; apply CEst_not_resend; exact Hx).
  destruct e; cbn [step_event].
  - unfold connect. destruct (is_connected (s_st c)); [exact Hce|].
    destruct (negb (initiator _)); apply Hnr; unfold set_state; rewrite s_st_set_state_with; apply ns_SLogon.
  - destruct (_ && _); exact Hce.
  - destruct (negb (s_in_open c)); [exact Hce|]. destruct (s_in_buf c) as [|m r]; [exact Hce|].
    unfold incoming.
    exact (incoming_with_ce drain (upd_chan c (s_out_open c) (s_in_open c) r (s_closed c)) m Hri Hlb Hce).
  - apply incoming_with_ce; assumption.
  - apply incoming_with_ce; assumption.
  - destruct (is_connected (s_st c)); [|exact Hce].
    apply Hnr. unfold set_state. rewrite s_st_set_state_with. apply ns_SLatent.
  - destruct (state_timeout (s_st c) c e) as [s1 next] eqn:E. unfold set_state.
    apply set_state_with_ce; [exact (same_cfg _ _ (fr_state_timeout c _ _ _ _ _ E (same_refl c)))|].
    eapply state_timeout_ce; eassumption.
  - destruct (queue_for_send_tgt c t [] body None ok) as [H1 H2]. rewrite H1.
    eapply CEst_moved; [exact Hce | exact Hlb | exact H2].
  - destruct (is_logged_on (s_st c)); [unfold send_queued; destruct (s_out_open c)|]; exact Hce.
  - match goal with |- context [state_stop ?a ?b] => destruct (state_stop a b) as [s1 next] eqn:E end.
    apply Hnr. unfold set_state. rewrite s_st_set_state_with. eapply state_stop_not_resend; exact E.
  - destruct (is_connected (s_st c)); [|exact Hce].
    destruct (drop_and_send_tgt c T_LOGON (logon_body c true) None) as [H1 H2].
    unfold send_logon_in_reply_to. rewrite H1. eapply CEst_moved; [exact Hce | exact Hlb | exact H2].
Qed.

Lemma step_ce : forall s e, RI s -> LB s -> CE s -> CE (step s e).
Proof. intros s e H1 H2 H3. unfold CE. rewrite (step_cfg (s_cfg s) s e eq_refl). apply step_ce_aux; assumption. Qed.

Lemma init_ce c : CE (init_sess c).
Proof. unfold CE, CEst, init_sess. cbn. exact I. Qed.

Lemma run_trace_ce : forall es s, RI s -> LB s -> CE s -> Forall CE (run_trace es s).
Proof.
  induction es as [|e r IH]; intros s H1 H2 H3; cbn [run_trace]; [constructor|].
  constructor; [apply step_ce; assumption | apply IH; [apply step_ri | apply step_lb | apply step_ce]; assumption].
Qed.
Theorem trace_ce : forall c es, Forall CE (run_trace es (init_sess c)).
Proof. intros c es. apply run_trace_ce; [apply init_ri | apply init_lb | apply init_ce]. Qed.

(* the GapFillFlag of a sequence-gated message: absent or N (resendState.FixMsgIn reads tag 123 of EVERY message) *)
Definition no_gap_flag (m : minput) : Prop := mi_gapfill m = FAbsent \/ mi_gapfill m = FVal false.
Definition c04_no_gap_flag (e : event) : Prop :=
  match e with EIncoming m => gated_type (mi_type m) = true -> no_gap_flag m | _ => True end.

Lemma rs_407 : forall s l0 ce re m n,
  unwrap_pending (s_st s) = SResend (Some l0) ce re -> RI s -> (ce = 0 \/ s_tgt s <= ce) ->
  hdr_ok (s_cfg s) m -> gated_type (mi_type m) = true -> mi_seq m = FVal n -> s_tgt s < n -> no_gap_flag m ->
  resend_state_fix_msg_in s (Some l0) ce re m = (s, SResend (Some (stash_insert n m l0)) ce re).
Proof.
  intros s l0 ce re m n Hu Hri Hce Hh Hg Hseq Hlt Hgf.
  unfold RI, RIst in Hri. rewrite Hu in Hri. destruct Hri as (Hre & _ & Hnk & _).
  assert (Ei : in_session_fix_msg_in s m = (s, SResend (Some (stash_insert n m l0)) ce re)).
  { rewrite (in_session_too_high s m n Hh Hseq Hlt) by (unfold type_ok; rewrite Hg; reflexivity).
    cbn [process_reject]. rewrite Hu. reflexivity. }
  unfold resend_state_fix_msg_in. rewrite Ei. cbn [is_logged_on negb shared_stash]. cbn [resend_drain].
  rewrite (take_none_insert _ _ _ _ Hnk Hlt). cbn [negb].
  assert (Hc1 : negb (ce =? 0) && (ce <? s_tgt s) && (s_tgt s <=? re) = false).
  { destruct Hce as [->|Hle]; [reflexivity|]. replace (ce <? s_tgt s) with false by (symmetry; apply Z.ltb_ge; lia).
    destruct (negb (ce =? 0)); reflexivity. }
  rewrite Hc1.
  replace (s_tgt s <=? re) with true by (symmetry; apply Z.leb_le; exact Hre).
  destruct Hgf as [Hgf|Hgf]; rewrite Hgf; reflexivity.
Qed.

Lemma step_407 : forall s m n,
  RI s -> CE s -> 0 <= c_chunk (s_cfg s) -> recovering (s_st s) ->
  gated_type (mi_type m) = true -> msg_passes_header (s_cfg s) (s_tgt s) m = true -> mi_seq m = FVal n -> s_tgt s < n ->
  no_gap_flag m ->
  let s' := step s (EIncoming m) in
  In n (keys (stash_of_st (s_st s'))) /\ s_tgt s' = s_tgt s /\ s_wire s' = [].
Proof.
  intros s m n Hri Hce Hch Hrec Hg Hp Hseq Hlt Hgf s'.
  pose proof (passes_hdr_ok _ _ _ Hp) as Hh.
  destruct Hrec as (stash & ce & re & Hu).
  unfold CE, CEst in Hce. rewrite Hu in Hce. destruct Hce as [Hsome Hce]. specialize (Hce Hch).
  destruct stash as [l0|]; [clear Hsome | exfalso; apply Hsome; reflexivity].
  assert (Hrec : recovering (s_st s)) by (exists (Some l0), ce, re; exact Hu).
  unfold s', step, step_event, incoming, incoming_with.
  change (s_st (clear_logs s)) with (s_st s).
  rewrite (recovering_connected _ Hrec). cbn [negb].
  rewrite (state_fix_recovering _ (clear_logs s) m _ _ _ Hu).
  rewrite (rs_407 (clear_logs s) l0 ce re m n Hu Hri Hce Hh Hg Hseq Hlt Hgf).
  fold (set_state (clear_logs s) (SResend (Some (stash_insert n m l0)) ce re)).
  rewrite (set_state_connected (clear_logs s) (SResend (Some (stash_insert n m l0)) ce re) eq_refl).
  cbn [s_st upd_st]. split; [|split; reflexivity].
  rewrite stash_of_resend. cbn [olist]. apply keys_in. exists m. apply stash_insert_in. left. reflexivity.
Qed.

Lemma sh_is_resend_recovering st : sh_is_resend (shape_of st) = true -> recovering st.
Proof.
  unfold sh_is_resend. rewrite shape_unwrap. intros H.
  destruct (unwrap_pending st) as [| | | | | a b c | j] eqn:E; cbn in H; try discriminate. exists a, b, c. exact E.
Qed.

Lemma clause_407 : forall i s e, RI s -> CE s -> 0 <= c_chunk (s_cfg s) -> c04_no_gap_flag e ->
  let c := s_cfg s in let prev := obs_of s in let o := obs_of (step s e) in
  free_of [407]
    (match e with
     | EIncoming m =>
         match mi_seq m with
         | FVal n =>
             if sh_is_resend (ob_st prev) && sh_logged_on (ob_st prev) && (ob_inbuf prev =? 0)
                && gated_type (mi_type m) && msg_passes_header c (ob_tgt prev) m && (ob_tgt prev <? n)
             then if existsb (Z.eqb n) (stash_keys (ob_st o)) && (ob_tgt o =? ob_tgt prev)
                     && Nat.eqb (length (resend_requests (ob_wire o))) 0
                  then [] else [(i, 407)]
             else []
         | _ => []
         end
     | _ => []
     end) = true.
Proof.
  intros i s e Hri Hce Hch Hgf c prev o. unfold c, prev, o. clear c prev o.
  destruct e as [| | |m| | | | | | |]; try reflexivity. cbn [c04_no_gap_flag] in Hgf.
  destruct (mi_seq m) as [| |n] eqn:Eseq; try reflexivity.
  match goal with |- free_of _ (if ?x then _ else _) = true => destruct x eqn:Hc; [|reflexivity] end.
  apply andb_true_iff in Hc as [Hc Hlt]. apply andb_true_iff in Hc as [Hc Hp]. apply andb_true_iff in Hc as [Hc Hg].
  apply andb_true_iff in Hc as [Hc _]. apply andb_true_iff in Hc as [Hr _].
  change (ob_st (obs_of s)) with (shape_of (s_st s)) in Hr. change (ob_tgt (obs_of s)) with (s_tgt s) in *.
  apply Z.ltb_lt in Hlt.
  destruct (step_407 s m n Hri Hce Hch (sh_is_resend_recovering _ Hr) Hg Hp Eseq Hlt (Hgf Hg)) as (K1 & K2 & K3).
  change (ob_st (obs_of (step s (EIncoming m)))) with (shape_of (s_st (step s (EIncoming m)))).
  change (ob_tgt (obs_of (step s (EIncoming m)))) with (s_tgt (step s (EIncoming m))).
  change (ob_wire (obs_of (step s (EIncoming m)))) with (rev (s_wire (step s (EIncoming m)))).
  rewrite stash_keys_shape, K2, K3, Z.eqb_refl. apply existsb_eqb_in in K1. rewrite K1. reflexivity.
Qed.

Lemma c04_scan_407 : forall es s i kept, Boundary s -> RI s -> LB s -> CE s -> 0 <= c_chunk (s_cfg s) ->
  Forall c04_no_gap_flag es ->
  free_of [407] (c04_scan (s_cfg s) i kept (obs_of s) (combine es (map obs_of (run_trace es s)))) = true.
Proof.
  induction es as [|e r IH]; intros s i kept Hb Hri Hlb Hce Hch Hgf; cbn [run_trace map combine]; [reflexivity|].
  inversion Hgf as [|? ? Hg Hgr]; subst.
  cbn [c04_scan]. rewrite !free_of_app. repeat (apply andb_true_iff; split).
  - free_rest.
  - free_rest.
  - free_rest.
  - free_rest.
  - free_rest.
  - free_rest.
  - apply (clause_407 i s e); assumption.
  - rewrite <- (step_cfg (s_cfg s) s e eq_refl) at 1.
    apply IH; [apply step_boundary | apply step_ri | apply step_lb | apply step_ce | rewrite (step_cfg (s_cfg s) s e eq_refl) | ]; assumption.
Qed.

Theorem c04_early_message_kept_while_recovering : forall c es,
  0 <= c_chunk c -> Forall c04_no_gap_flag es ->
  free_of [407] (c04_check c (combine es (map obs_of (run_trace es (init_sess c))))) = true.
Proof.
  intros c es Hch Hgf. unfold c04_check.
  apply (c04_scan_407 es (init_sess c)); [apply init_boundary | apply init_ri | apply init_lb | apply init_ce | exact Hch | exact Hgf].
Qed.

(* ---------- concrete instances for 407 ---------- *)
Definition c04x_with_gapfill (m : minput) (g : fres bool) : minput :=
  {| mi_type := mi_type m; mi_begin := mi_begin m; mi_sender := mi_sender m; mi_target := mi_target m; mi_seq := mi_seq m;
     mi_possdup := mi_possdup m; mi_stime := mi_stime m; mi_otime := mi_otime m; mi_gapfill := g; mi_newseq := mi_newseq m;
     mi_beginseq := mi_beginseq m; mi_endseq := mi_endseq m; mi_reset := mi_reset m; mi_hbint := mi_hbint m;
     mi_testreq := mi_testreq m; mi_applver := mi_applver m; mi_route := mi_route m; mi_body := mi_body m; mi_app := mi_app m;
     mi_valid := mi_valid m; mi_refuse := mi_refuse m |}.

(* the hypotheses hold on a trace in which a second early message arrives while recovering (also after a gap on the Logon) *)
Definition c04x_early_trace : list event :=
  [EConnect; EIncoming (c04x_msg T_LOGON 5); EIncoming (c04x_msg (B "D") 10); EIncoming (c04x_msg (B "D") 12)].
Lemma c04x_early_trace_no_gap_flag : Forall c04_no_gap_flag c04x_early_trace.
Proof. unfold c04x_early_trace. repeat (first [apply Forall_cons | apply Forall_nil]); try exact I; intros _; left; reflexivity. Qed.
Lemma c04x_early_trace_keeps :
  map (fun o => (ob_st (snd o), ob_tgt (snd o))) (c04x_run (c04x_cfg 2) c04x_early_trace)
  = [(ShLogon, 1); (ShResend true [] 2 4, 1); (ShResend true [10] 2 4, 1); (ShResend true [12; 10] 2 4, 1)].
Proof. vm_compute. reflexivity. Qed.

(* REFUTED without the hypotheses (all three are model traces on which clause 407 fires):
   (a) an early application message with a malformed GapFillFlag: resendState.FixMsgIn reads tag 123 of every message and
       handleStateError disconnects — the message is not kept;
   (b) an early application message carrying GapFillFlag=Y when the expected number sits exactly at the current chunk end:
       the next chunk is requested (a ResendRequest is written) although the gap fill exit is meant for SequenceResets;
   (c) a negative ResendRequestChunkSize (nothing validates it): the current chunk end is below the expected number, and
       every early message triggers another ResendRequest. *)
Lemma c04_407_bad_gap_flag_refuted :
  exists c es, 0 <= c_chunk c /\ c04_check c (combine es (map obs_of (run_trace es (init_sess c)))) = [(3%nat, 407)].
Proof.
  exists (c04x_cfg 0), [EConnect; EIncoming (c04x_msg T_LOGON 1); EIncoming (c04x_msg (B "D") 10);
                        EIncoming (c04x_with_gapfill (c04x_msg (B "D") 12) FBad)].
  split; [vm_compute; discriminate | vm_compute; reflexivity].
Qed.
Lemma c04_407_gap_flag_on_application_message_refuted :
  exists c es, 0 <= c_chunk c /\ c04_check c (combine es (map obs_of (run_trace es (init_sess c)))) = [(4%nat, 407)].
Proof.
  exists (c04x_cfg 2), [EConnect; EIncoming (c04x_msg T_LOGON 1); EIncoming (c04x_msg (B "D") 10); EIncoming (c04x_msg T_HEARTBEAT 2);
                        EIncoming (c04x_with_gapfill (c04x_msg (B "D") 12) (FVal true))].
  split; [vm_compute; discriminate | vm_compute; reflexivity].
Qed.
Lemma c04_407_negative_chunk_size_refuted :
  exists c es, Forall c04_no_gap_flag es /\ c04_check c (combine es (map obs_of (run_trace es (init_sess c)))) = [(3%nat, 407)].
Proof.
  exists (c04x_cfg (-3)), [EConnect; EIncoming (c04x_msg T_LOGON 1); EIncoming (c04x_msg (B "D") 10); EIncoming (c04x_msg (B "D") 12)].
  split; [repeat (first [apply Forall_cons | apply Forall_nil]); try exact I; intros _; left; reflexivity | vm_compute; reflexivity].
Qed.
