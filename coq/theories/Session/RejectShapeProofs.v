(* C06 clause 603: every Reject the engine writes while processing a sequence-gated message in a logged-on, non-recovering
   session quotes that message's MsgSeqNum as RefSeqNum and carries its routing fields reversed. *)
From Coq Require Import String.
From Coq Require Import ZArith List Bool Lia.
From QF Require Import Base.Bytes Session.Types Session.Model Session.Spec Session.C01Proofs Session.LocalProofs
  Session.FrameProofs Session.TraceProofs Session.RecoveryProofs Session.ReactionProofs Session.TgProofs Session.ResendInvProofs.
Import ListNotations.
Open Scope list_scope.
Open Scope Z_scope.

(* ---------- the reversed routing fields have pairwise distinct tags ---------- *)
Inductive subl : list Z -> list Z -> Prop :=
| subl_nil : subl [] []
| subl_skip : forall x l t, subl l t -> subl l (x :: t)
| subl_take : forall x l t, subl l t -> subl (x :: l) (x :: t).

Lemma subl_in : forall l t x, subl l t -> In x l -> In x t.
Proof. induction 1; intros Hi; [exact Hi | right; auto | destruct Hi as [->|Hi]; [left; reflexivity | right; auto]]. Qed.
Lemma subl_nodup : forall l t, subl l t -> NoDup t -> NoDup l.
Proof.
  induction 1; intros Hn; [constructor | inversion Hn; auto |].
  inversion Hn; subst. constructor; [|auto]. intros Hi. apply H2. eapply subl_in; eassumption.
Qed.
Lemma subl_app : forall a b c d, subl a b -> subl c d -> subl (a ++ c) (b ++ d).
Proof.
  intros a b c d H. induction H; intros H2; cbn [app].
  - exact H2.
  - apply subl_skip. apply IHsubl. exact H2.
  - apply subl_take. apply IHsubl. exact H2.
Qed.
Lemma subl_refl_nil : forall t, subl [] t.
Proof. induction t; constructor; assumption. Qed.

Definition route_tags : list Z := [57; 143; 50; 142; 128; 129; 115; 116; 145; 144].

Lemma reverse_route_subl : forall m, subl (map fst (reverse_route m)) route_tags.
Proof.
  intros m. unfold reverse_route, route_tags.
  assert (Hcp : forall src dst, subl (map fst (match route_lookup m src with Some v => [(dst, v)] | None => [] end)) [dst]).
  { intros src dst. destruct (route_lookup m src); cbn; [apply subl_take, subl_nil | apply subl_skip, subl_nil]. }
  rewrite !map_app.
  change [57; 143; 50; 142; 128; 129; 115; 116; 145; 144] with ([57] ++ [143] ++ [50] ++ [142] ++ [128] ++ [129] ++ [115] ++ [116] ++ ([145] ++ [144])).
  repeat (apply subl_app; [apply Hcp|]).
  destruct (beq_bytes (mi_begin m) (B "FIX.4.0")); [apply subl_refl_nil|].
  rewrite map_app. apply subl_app; apply Hcp.
Qed.

Lemma reverse_route_nodup : forall m, NoDup (map fst (reverse_route m)).
Proof.
  intros m. eapply subl_nodup; [apply reverse_route_subl|]. unfold route_tags.
  repeat constructor; cbn; intuition lia.
Qed.

Lemma field_of_first : forall (l d : list (Z * bytes)), NoDup (map fst l) ->
  forallb (fun f => opt_beq (field_of (fst f) (l ++ d)) (snd f)) l = true.
Proof.
  intros l d. induction l as [|[t v] r IH]; intros Hn; [reflexivity|].
  inversion Hn as [|x xs Hx Hr]; subst. cbn [forallb fst snd].
  apply andb_true_iff. split.
  - unfold field_of. cbn [app find fst]. rewrite Z.eqb_refl. cbn [opt_beq]. apply beq_bytes_refl.
  - rewrite forallb_forall. intros [t' v'] Hi. cbn [fst snd].
    assert (Hne : t <> t') by (intros ->; apply Hx; apply in_map_iff; exists (t', v'); auto).
    unfold field_of. cbn [app find fst]. replace (t =? t') with false by (symmetry; apply Z.eqb_neq; exact Hne).
    specialize (IH Hr). rewrite forallb_forall in IH. exact (IH (t', v') Hi).
Qed.

(* ---------- a message with the reversed routing header and the right RefSeqNum has the shape ---------- *)
Definition ref45_ok (m : minput) (body : list (Z * bytes)) : Prop :=
  match mi_seq m with
  | FVal n => field_of 45 body = Some (itoa n)
  | _ => field_of 45 body = None
  end.

Lemma shape_from_parts : forall s m w,
  o_hdr w = reverse_route m ++ default_hdr s (Some m) -> ref45_ok m (o_body w) -> c06_reject_shape m w = true.
Proof.
  intros s m w Hh Hb. unfold c06_reject_shape. rewrite Hh. apply andb_true_iff. split; [apply andb_true_iff; split|].
  - unfold ref45_ok in Hb. destruct (mi_seq m); rewrite Hb; cbn [opt_beq]; try reflexivity. apply beq_bytes_refl.
  - apply field_of_first. apply reverse_route_nodup.
  - rewrite forallb_app. apply andb_true_iff. split.
    + rewrite forallb_forall. intros f Hf. apply orb_true_iff. left. apply existsb_exists. exists f. split; [exact Hf | apply Z.eqb_refl].
    + unfold default_hdr. destruct (c_last_seq_processed (s_cfg s)); [|reflexivity].
      destruct (mi_seq m); try reflexivity.
      cbn [forallb fst]. rewrite andb_true_r. apply orb_true_iff. right. reflexivity.
Qed.

(* sending one message (any type but Logon) from a ready state *)
Definition ready (s : sess) : Prop := is_logged_on (s_st s) = true /\ s_out_open s = true /\ s_to_send s = [].

Lemma sq_enq : forall x m, s_out_open x = true -> s_to_send x = [] ->
  let y := send_queued (enqueue x m) in
  s_wire y = m :: s_wire x /\ s_out_open y = true /\ s_to_send y = [] /\ s_st y = s_st x.
Proof.
  intros x m Ho Hq. unfold send_queued, enqueue, upd_to_send. cbn [s_out_open s_to_send]. rewrite Ho, Hq.
  cbn [app rev upd_logs s_wire s_out_open s_to_send s_st s_cbs]. repeat split; try reflexivity; try exact Ho.
Qed.

Lemma persist_keeps : forall x m, s_out_open (persist x m) = s_out_open x /\ s_to_send (persist x m) = s_to_send x
  /\ s_st (persist x m) = s_st x /\ s_wire (persist x m) = s_wire x.
Proof. intros x m. unfold persist. destruct (c_disable_persist (s_cfg x)); repeat split; reflexivity. Qed.

Lemma send_ready : forall s t hdr body ir, ready s -> beq_bytes t T_LOGON = false ->
  let s' := send_in_reply_to s t hdr body ir in
  ready s' /\ s_st s' = s_st s
  /\ s_wire s' = {| o_type := t; o_seq := s_snd s; o_hdr := hdr ++ default_hdr s ir; o_body := body |} :: s_wire s.
Proof.
  intros s t hdr body ir (Hl & Ho & Hq) Hn. unfold send_in_reply_to. rewrite Hl. cbn [negb].
  unfold prep. rewrite Hn. cbn [andb].
  assert (Hfin : forall x m, s_out_open x = s_out_open s -> s_to_send x = s_to_send s -> s_st x = s_st s -> s_wire x = s_wire s ->
            let y := send_queued (enqueue (persist x m) m) in
            ready y /\ s_st y = s_st s /\ s_wire y = m :: s_wire s).
  { intros x m E1 E2 E3 E4. destruct (persist_keeps x m) as (P1 & P2 & P3 & P4).
    destruct (sq_enq (persist x m) m) as (Q1 & Q2 & Q3 & Q4); [rewrite P1, E1; exact Ho | rewrite P2, E2; exact Hq|].
    unfold ready. rewrite Q4, P3, E3, Q1, P4, E4. auto. }
  destruct (is_admin t).
  - apply (Hfin (log_cb s (CbToAdmin t))); reflexivity.
  - apply (Hfin (log_cb s (CbToApp (s_snd s) false))); reflexivity.
Qed.

(* the wire holds only well-shaped Rejects *)
Definition okwire (m : minput) (l : list omsg) : Prop :=
  Forall (fun w => is_type T_REJECT w = true -> c06_reject_shape m w = true) l.
Definition RS (m : minput) (s : sess) : Prop := ready s /\ okwire m (s_wire s).

Lemma rs_send : forall m s t hdr body ir, RS m s -> beq_bytes t T_LOGON = false -> beq_bytes t T_REJECT = false ->
  RS m (send_in_reply_to s t hdr body ir).
Proof.
  intros m s t hdr body ir [Hr Hw] Hn Hj. destruct (send_ready s t hdr body ir Hr Hn) as (R1 & _ & R3).
  split; [exact R1|]. unfold okwire. rewrite R3. constructor; [|exact Hw].
  intros Ht. unfold is_type in Ht. cbn [o_type] in Ht. rewrite Hj in Ht. discriminate.
Qed.

Lemma ref45_of_ref_seq : forall m rest, field_of 45 rest = None ->
  ref45_ok m ((match mi_seq m with FVal n => [(45, itoa n)] | _ => [] end) ++ rest).
Proof. intros m rest Hr. unfold ref45_ok. destruct (mi_seq m); cbn [app]; try exact Hr. reflexivity. Qed.

Lemma rs_do_reject : forall m s r, RS m s -> RS m (do_reject s m r).
Proof.
  intros m s r [Hr Hw]. unfold do_reject.
  destruct (match r with RMsg a b c => (a, b, c) | _ => (0, None, false) end) as [[reason ref_tag] business].
  assert (Hgen : forall t body, beq_bytes t T_LOGON = false -> (is_type T_REJECT {| o_type := t; o_seq := 0; o_hdr := []; o_body := [] |} = true -> ref45_ok m body) ->
            RS m (send_in_reply_to s t (reverse_route m) body (Some m))).
  { intros t body Hn Hb. destruct (send_ready s t (reverse_route m) body (Some m) Hr Hn) as (R1 & _ & R3).
    split; [exact R1|]. unfold okwire. rewrite R3. constructor; [|exact Hw].
    intros Ht. apply (shape_from_parts s); [reflexivity | apply Hb; exact Ht]. }
  destruct (2 <=? c_begin (s_cfg s)).
  - destruct business.
    + apply Hgen; [reflexivity | intros H; discriminate H].
    + apply Hgen; [reflexivity | intros _]. apply ref45_of_ref_seq.
      destruct ref_tag; destruct ((11 <? reason) && (c_begin (s_cfg s) =? 2)); reflexivity.
  - apply Hgen; [reflexivity | intros _].
    rewrite <- (app_nil_r (match mi_seq m with FVal n => [(45, itoa n)] | _ => [] end)). apply ref45_of_ref_seq. reflexivity.
Qed.

Lemma rs_incr m s : RS m s -> RS m (incr_tgt s).
Proof. intros H. exact H. Qed.
Lemma rs_log m s c : RS m s -> RS m (log_cb s c).
Proof. intros H. exact H. Qed.
Lemma rs_logout m s : RS m s -> RS m (initiate_logout_in_reply_to s None).
Proof. intros H. unfold initiate_logout_in_reply_to, send_logout_in_reply_to. apply rs_send; [exact H | reflexivity | reflexivity]. Qed.

Lemma srr_is_send : forall s b e s1 st, send_resend_request s b e = (s1, st) ->
  exists body, s1 = send s T_RESENDREQ body /\ exists c, st = SResend (Some []) c e.
Proof.
  intros s b e s1 st H. unfold send_resend_request in H. cbv zeta in H.
  match type of H with context [if ?x <? e then _ else _] => destruct (x <? e) end;
    inversion H; subst; eexists; split; try reflexivity; eexists; reflexivity.
Qed.

Lemma rs_process_reject : forall m s r s1 next,
  process_reject s m r = (s1, next) -> RS m s -> okwire m (s_wire s1) /\ is_connected next = true.
Proof.
  intros m s r s1 next E H. destruct r as [recv exp|recv exp| | |reason tag bus]; cbn [process_reject] in E.
  - (* too high *)
    destruct (unwrap_pending (s_st s)) eqn:Eu;
      try (destruct (do_target_too_high s recv exp) as [x st0] eqn:Ed; unfold do_target_too_high in Ed;
           destruct (srr_is_send _ _ _ _ _ Ed) as (body & -> & c0 & ->); inversion E; subst;
           split; [apply rs_send; [exact H | reflexivity | reflexivity] | reflexivity]).
    inversion E; subst. split; [exact (proj2 H) | reflexivity].
  - unfold do_target_too_low in E.
    repeat match type of E with context [match ?x with _ => _ end] => destruct x
                           | context [if ?x then _ else _] => destruct x end;
      inversion E; subst; (split; [|reflexivity]);
      first [ exact (proj2 H) | apply rs_do_reject; exact H | apply rs_logout; exact H
            | apply rs_incr, rs_do_reject; exact H | apply rs_logout, rs_do_reject; exact H ].
  - inversion E; subst. split; [apply rs_logout; exact H | reflexivity].
  - inversion E; subst. split; [apply rs_incr, rs_do_reject; exact H | reflexivity].
  - destruct ((reason =? 9) || (reason =? 10)); inversion E; subst; (split; [|reflexivity]);
      [apply rs_logout, rs_do_reject; exact H | apply rs_incr, rs_do_reject; exact H].
Qed.

(* ---------- the handlers for a sequence-gated message ---------- *)
Lemma rs_verify : forall m s hi lo app s' r, verify_select s m hi lo app = (s', r) -> RS m s -> RS m s'.
Proof.
  intros m s hi lo app s' r E H. unfold verify_select in E.
  repeat match type of E with
         | context [match ?x with Some _ => _ | None => _ end] => destruct x
         end; try (inversion E; subst; exact H).
  destruct app; [|inversion E; subst; exact H].
  unfold verify_msg_against_app_impl in E. destruct (rej_of_verdict (mi_valid m)); [inversion E; subst; exact H|].
  destruct (is_admin (mi_type m)); inversion E; subst; apply rs_log; exact H.
Qed.

Lemma gated_wire_ok : forall m s s1 next,
  gated_type (mi_type m) = true -> RS m s -> in_session_fix_msg_in s m = (s1, next) ->
  okwire m (s_wire s1) /\ is_connected next = true.
Proof.
  intros m s s1 next Hg H E. unfold gated_type in Hg. apply negb_true_iff in Hg.
  repeat (apply orb_false_elim in Hg as [Hg ?]).
  unfold in_session_fix_msg_in in E.
  repeat match goal with Hb : beq_bytes (mi_type m) _ = false |- _ => rewrite Hb in E; clear Hb end.
  destruct (beq_bytes (mi_type m) T_TESTREQ).
  - unfold handle_test_request, verify in E.
    destruct (verify_select s m true true true) as [s' [r|]] eqn:Ev; pose proof (rs_verify _ _ _ _ _ _ _ Ev H) as H'.
    + eapply rs_process_reject; eassumption.
    + inversion E; subst. split; [|reflexivity].
      destruct (mi_testreq m); [apply rs_incr, rs_send; [exact H' | reflexivity | reflexivity] | exact (proj2 H')].
  - unfold verify in E.
    destruct (verify_select s m true true true) as [s' [r|]] eqn:Ev; pose proof (rs_verify _ _ _ _ _ _ _ Ev H) as H'.
    + eapply rs_process_reject; eassumption.
    + inversion E; subst. split; [exact (proj2 H') | reflexivity].
Qed.

Theorem reject_shape_step : forall s m,
  s_st s = SInSession -> s_out_open s = true -> s_to_send s = [] -> gated_type (mi_type m) = true ->
  forallb (fun w => negb (is_type T_REJECT w) || c06_reject_shape m w) (ob_wire (obs_of (step s (EIncoming m)))) = true.
Proof.
  intros s m Hst Ho Hq Hg.
  set (c := clear_logs s).
  assert (Hrs : RS m c).
  { split; [|constructor]. split; [change (s_st c) with (s_st s); rewrite Hst; reflexivity | split; [exact Ho | exact Hq]]. }
  rewrite (step_incoming_in_session s m Hst). fold c.
  destruct (in_session_fix_msg_in c m) as [s1 next] eqn:E.
  destruct (gated_wire_ok m c s1 next Hg Hrs E) as [Hw Hc].
  rewrite (set_state_connected s1 next Hc).
  change (ob_wire (obs_of (upd_st s1 next))) with (rev (s_wire s1)).
  apply forallb_forall. intros w Hin. apply in_rev in Hin.
  pose proof (proj1 (Forall_forall _ _) Hw w Hin) as Hk. cbv beta in Hk.
  destruct (is_type T_REJECT w); [rewrite (Hk eq_refl); reflexivity | reflexivity].
Qed.

(* ---------- trace level ---------- *)
Lemma c06_scan_shape : forall es s i, Boundary s ->
  free_of [603] (c06_scan (s_cfg s) i (obs_of s) (combine es (map obs_of (run_trace es s)))) = true.
Proof.
  induction es as [|e r IH]; intros s i Hb; cbn [run_trace map combine]; [reflexivity|].
  cbn [c06_scan]. rewrite !free_of_app. repeat (apply andb_true_iff; split).
  - free_rest.
  - free_rest.
  - destruct e; try reflexivity.
    match goal with |- free_of _ (if ?x then _ else _) = true => destruct x eqn:Ec; [|reflexivity] end.
    rewrite free_of_app. apply andb_true_iff; split; [free_rest|].
    repeat (apply andb_true_iff in Ec as [Ec ?]).
    change (ob_st (obs_of s)) with (shape_of (s_st s)) in *.
    assert (Hst : s_st s = SInSession).
    { apply plain_in_session. repeat (apply andb_true_iff; split); assumption. }
    assert (Hq : s_to_send s = []) by (apply len0; assumption).
    assert (Ho : s_out_open s = true).
    { destruct Hb as [B1 _]. rewrite Hst in B1. exact (proj1 (B1 eq_refl)). }
    rewrite (reject_shape_step s m Hst Ho Hq) by assumption. reflexivity.
  - rewrite <- (step_cfg (s_cfg s) s e eq_refl). apply IH. apply step_boundary; exact Hb.
Qed.

(* C06, trace level: on every trace of the model, every Reject written while a logged-on, non-recovering session (nothing
   queued or buffered) processes a sequence-gated message quotes that message's MsgSeqNum as RefSeqNum (or has none when
   the message has no readable number) and carries exactly its routing fields, reversed *)
Lemma c06_reject_shape_never_fails : forall c es,
  free_of [603] (c06_check c (combine es (map obs_of (run_trace es (init_sess c))))) = true.
Proof. intros c es. unfold c06_check. apply (c06_scan_shape es (init_sess c)). apply init_boundary. Qed.
