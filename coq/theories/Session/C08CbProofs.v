(* C08: what the handlers log.  A closure over the model in the style of FrameProofs.v (sections L1-L9 cloned):
   relative to a start state the callback log of one event only grows, and the callbacks added satisfy a predicate -
     level Lboring   : only ToAdmin / ToApp / StoreReset (the send path: sections L1-L5, any state),
     level Lnologout : anything but OnLogout (every message handler, timer and stop handler: the logout notification is
                       issued by handleDisconnectState only).
   Then the shape of the state a handler returns (never back to logonState, never a "pending" around a state that is not
   logged on), and the callbacks of logonState.FixMsgIn. *)
From Coq Require Import String.
From Coq Require Import ZArith List Bool Lia.
From QF Require Import Base.Bytes Session.Types Session.Model Session.Spec Session.FrameProofs.
Import ListNotations.
Open Scope list_scope.
Open Scope Z_scope.

Inductive lvl := Lboring | Lnologout.
Definition cb_ok (l : lvl) (c : cb) : Prop :=
  match l with
  | Lboring => match c with CbToAdmin _ | CbToApp _ _ | CbStoreReset => True | _ => False end
  | Lnologout => c <> CbOnLogout
  end.
Lemma cb_ok_toadmin l t : cb_ok l (CbToAdmin t). Proof. destruct l; [exact I | intro X; discriminate X]. Qed.
Lemma cb_ok_toapp l n b : cb_ok l (CbToApp n b). Proof. destruct l; [exact I | intro X; discriminate X]. Qed.
Lemma cb_ok_storereset l : cb_ok l CbStoreReset. Proof. destruct l; [exact I | intro X; discriminate X]. Qed.
Lemma cb_ok_weaken c : cb_ok Lboring c -> cb_ok Lnologout c.
Proof. destruct c; cbn; intros H; try contradiction; intro X; discriminate X. Qed.

Definition CbR (l : lvl) (s0 s : sess) : Prop := exists new, s_cbs s = new ++ s_cbs s0 /\ Forall (cb_ok l) new.

Lemma cbr_refl l s : CbR l s s.
Proof. exists []. split; [reflexivity | constructor]. Qed.
Lemma cbr_trans l a b c : CbR l a b -> CbR l b c -> CbR l a c.
Proof.
  intros (n1 & A1 & A2) (n2 & B1 & B2). exists (n2 ++ n1). split; [rewrite B1, A1, app_assoc; reflexivity|].
  apply Forall_app; split; assumption.
Qed.
Lemma cbr_weaken a b : CbR Lboring a b -> CbR Lnologout a b.
Proof. intros (n & A1 & A2). exists n. split; [exact A1|]. eapply Forall_impl; [|exact A2]. exact cb_ok_weaken. Qed.

Ltac cb_side :=
  first [ apply cb_ok_toadmin | apply cb_ok_toapp | apply cb_ok_storereset | (let X := fresh "X" in intro X; discriminate X) ].

Section CbBase.
Variable s0 : sess.
Variable l : lvl.
Ltac stepcb := intros H; eapply cbr_trans; [exact H|]; exists []; split; [reflexivity | constructor].
Lemma cb_upd_to_send s q : CbR l s0 s -> CbR l s0 (upd_to_send s q). Proof. stepcb. Qed.
Lemma cb_upd_store s a b c : CbR l s0 s -> CbR l s0 (upd_store s a b c). Proof. stepcb. Qed.
Lemma cb_upd_wire s w : CbR l s0 s -> CbR l s0 (upd_logs s (s_cbs s) w). Proof. stepcb. Qed.
Lemma cb_log s c : cb_ok l c -> CbR l s0 s -> CbR l s0 (log_cb s c).
Proof.
  intros Hc H. eapply cbr_trans; [exact H|]. exists [c]. split; [reflexivity | constructor; [exact Hc | constructor]].
Qed.
Lemma cb_reset s : CbR l s0 s -> CbR l s0 (store_reset s).
Proof. intros H. unfold store_reset. apply cb_log; [apply cb_ok_storereset | apply cb_upd_store, H]. Qed.
Lemma cb_incr s : CbR l s0 s -> CbR l s0 (incr_tgt s). Proof. unfold incr_tgt. apply cb_upd_store. Qed.
Lemma cb_set_tgt s n : CbR l s0 s -> CbR l s0 (set_tgt s n). Proof. unfold set_tgt. apply cb_upd_store. Qed.
Lemma cb_set_sent_reset s b : CbR l s0 s -> CbR l s0 (set_sent_reset s b). Proof. stepcb. Qed.
Lemma cb_set_hb s h : CbR l s0 s -> CbR l s0 (set_hb s h). Proof. stepcb. Qed.
Lemma cb_persist s m : CbR l s0 s -> CbR l s0 (persist s m).
Proof. intros H. unfold persist. destruct (c_disable_persist _); apply cb_upd_store, H. Qed.
End CbBase.

Ltac cb_ext := fail.
Ltac cb_go :=
  lazymatch goal with
  | H : CbR ?l ?a ?b |- CbR ?l ?a ?b => exact H
  | |- CbR _ ?a ?a => apply cbr_refl
  | |- CbR _ _ (if ?x then _ else _) => destruct x eqn:?; cb_go
  | |- CbR _ _ (match ?x with _ => _ end) => destruct x eqn:?; cb_go
  | |- CbR _ _ (upd_to_send _ _) => apply cb_upd_to_send; cb_go
  | |- CbR _ _ (upd_store _ _ _ _) => apply cb_upd_store; cb_go
  | |- CbR _ _ (upd_logs ?x (s_cbs ?x) _) => apply cb_upd_wire; cb_go
  | |- CbR _ _ (log_cb _ _) => apply cb_log; [cb_side | cb_go]
  | |- CbR _ _ (store_reset _) => apply cb_reset; cb_go
  | |- CbR _ _ (incr_tgt _) => apply cb_incr; cb_go
  | |- CbR _ _ (set_tgt _ _) => apply cb_set_tgt; cb_go
  | |- CbR _ _ (set_sent_reset _ _) => apply cb_set_sent_reset; cb_go
  | |- CbR _ _ (set_hb _ _) => apply cb_set_hb; cb_go
  | |- CbR _ _ (persist _ _) => apply cb_persist; cb_go
  | _ => cb_ext
  end.
Ltac cb_pairlemma E := brk_in E; inv E; brk_hyps; cb_go.

Section L1.
Variable s0 : sess.
Variable l : lvl.
Lemma cb_prep s t hdr body ir ok s1 r : prep s t hdr body ir ok = (s1, r) -> CbR l s0 s -> CbR l s0 s1.
Proof. intros E H. unfold prep in E. cb_pairlemma E. Qed.
Lemma cb_send_queued s : CbR l s0 s -> CbR l s0 (send_queued s).
Proof. intros H. unfold send_queued. cb_go. Qed.
Lemma cb_drop_queued s : CbR l s0 s -> CbR l s0 (drop_queued s).
Proof. intros H. unfold drop_queued. cb_go. Qed.
Lemma cb_enqueue s m : CbR l s0 s -> CbR l s0 (enqueue s m).
Proof. intros H. unfold enqueue. cb_go. Qed.
End L1.
Ltac cb_ext1 :=
  lazymatch goal with
  | |- CbR _ _ (send_queued _) => apply cb_send_queued; cb_go
  | |- CbR _ _ (drop_queued _) => apply cb_drop_queued; cb_go
  | |- CbR _ _ (enqueue _ _) => apply cb_enqueue; cb_go
  | |- CbR _ _ ?v => match goal with E : prep _ _ _ _ _ _ = (v, _) |- _ => eapply cb_prep; [exact E | cb_go] end
  end.
Ltac cb_ext ::= cb_ext1.

Section L2.
Variable s0 : sess.
Variable l : lvl.
Lemma cb_queue_for_send s t hdr body ir ok : CbR l s0 s -> CbR l s0 (queue_for_send s t hdr body ir ok).
Proof. intros H. unfold queue_for_send. cb_go. Qed.
Lemma cb_enqueue_bytes s m : CbR l s0 s -> CbR l s0 (enqueue_bytes_and_send s m).
Proof. intros H. unfold enqueue_bytes_and_send. cb_go. Qed.
Lemma cb_drop_and_send s t body ir : CbR l s0 s -> CbR l s0 (drop_and_send_in_reply_to s t body ir).
Proof. intros H. unfold drop_and_send_in_reply_to. cb_go. Qed.
Lemma cb_drop_and_reset s : CbR l s0 s -> CbR l s0 (drop_and_reset s).
Proof. intros H. unfold drop_and_reset. cb_go. Qed.
End L2.
Ltac cb_ext2 :=
  lazymatch goal with
  | |- CbR _ _ (queue_for_send _ _ _ _ _ _) => apply cb_queue_for_send; cb_go
  | |- CbR _ _ (enqueue_bytes_and_send _ _) => apply cb_enqueue_bytes; cb_go
  | |- CbR _ _ (drop_and_send_in_reply_to _ _ _ _) => apply cb_drop_and_send; cb_go
  | |- CbR _ _ (drop_and_reset _) => apply cb_drop_and_reset; cb_go
  | _ => cb_ext1
  end.
Ltac cb_ext ::= cb_ext2.

Section L3.
Variable s0 : sess.
Variable l : lvl.
Lemma cb_send_in_reply_to s t hdr body ir : CbR l s0 s -> CbR l s0 (send_in_reply_to s t hdr body ir).
Proof. intros H. unfold send_in_reply_to. cb_go. Qed.
Lemma cb_send_logon s b ir : CbR l s0 s -> CbR l s0 (send_logon_in_reply_to s b ir).
Proof. intros H. unfold send_logon_in_reply_to. cb_go. Qed.
Lemma cb_generate_sequence_reset s b e ir : CbR l s0 s -> CbR l s0 (generate_sequence_reset s b e ir).
Proof. intros H. unfold generate_sequence_reset. cb_go. Qed.
End L3.
Ltac cb_ext3 :=
  lazymatch goal with
  | |- CbR _ _ (send_in_reply_to _ _ _ _ _) => apply cb_send_in_reply_to; cb_go
  | |- CbR _ _ (send_logon_in_reply_to _ _ _) => apply cb_send_logon; cb_go
  | |- CbR _ _ (generate_sequence_reset _ _ _ _) => apply cb_generate_sequence_reset; cb_go
  | _ => cb_ext2
  end.
Ltac cb_ext ::= cb_ext3.

Section L4.
Variable s0 : sess.
Variable l : lvl.
Lemma cb_send s t body : CbR l s0 s -> CbR l s0 (send s t body).
Proof. intros H. unfold send. cb_go. Qed.
Lemma cb_send_logout s ir : CbR l s0 s -> CbR l s0 (send_logout_in_reply_to s ir).
Proof. intros H. unfold send_logout_in_reply_to. cb_go. Qed.
Lemma cb_do_reject s m r : CbR l s0 s -> CbR l s0 (do_reject s m r).
Proof. intros H. unfold do_reject. cb_go. Qed.
Lemma cb_resend_loop : forall keys s ir a b s1 x y, resend_loop keys s ir a b = (s1, x, y) -> CbR l s0 s -> CbR l s0 s1.
Proof.
  induction keys as [|k r IH]; intros s ir a b s1 x y E H; cbn [resend_loop] in E.
  - inv E. exact H.
  - brk_in E; eapply IH; try exact E; cb_go.
Qed.
End L4.
Ltac cb_ext4 :=
  lazymatch goal with
  | |- CbR _ _ (send _ _ _) => apply cb_send; cb_go
  | |- CbR _ _ (send_logout_in_reply_to _ _) => apply cb_send_logout; cb_go
  | |- CbR _ _ (initiate_logout_in_reply_to _ _) => unfold initiate_logout_in_reply_to; apply cb_send_logout; cb_go
  | |- CbR _ _ (do_reject _ _ _) => apply cb_do_reject; cb_go
  | |- CbR _ _ ?v =>
      match goal with
      | E : prep _ _ _ _ _ _ = (v, _) |- _ => eapply cb_prep; [exact E | cb_go]
      | E : resend_loop _ _ _ _ _ = (v, _, _) |- _ => eapply cb_resend_loop; [exact E | cb_go]
      | _ => cb_ext3
      end
  | _ => cb_ext3
  end.
Ltac cb_ext ::= cb_ext4.

Section L5.
Variable s0 : sess.
Variable l : lvl.
Lemma cb_send_resend_request s b e s1 st : send_resend_request s b e = (s1, st) -> CbR l s0 s -> CbR l s0 s1.
Proof. intros E H. unfold send_resend_request in E. cb_pairlemma E. Qed.
Lemma cb_resend_messages s b e ir : CbR l s0 s -> CbR l s0 (resend_messages s b e ir).
Proof. intros H. unfold resend_messages. cb_go. Qed.
Lemma cb_do_target_too_low s m s1 st : do_target_too_low s m = (s1, st) -> CbR l s0 s -> CbR l s0 s1.
Proof. intros E H. unfold do_target_too_low in E. cb_pairlemma E. Qed.
Lemma cb_shutdown_with_reason s m b s1 st : shutdown_with_reason s m b = (s1, st) -> CbR l s0 s -> CbR l s0 s1.
Proof. intros E H. unfold shutdown_with_reason in E. cb_pairlemma E. Qed.
Lemma cb_in_session_timeout s e s1 st : in_session_timeout s e = (s1, st) -> CbR l s0 s -> CbR l s0 s1.
Proof. intros E H. unfold in_session_timeout in E. cb_pairlemma E. Qed.
End L5.
Ltac cb_ext5 :=
  lazymatch goal with
  | |- CbR _ _ (resend_messages _ _ _ _) => apply cb_resend_messages; cb_go
  | |- CbR _ _ ?v =>
      match goal with
      | E : prep _ _ _ _ _ _ = (v, _) |- _ => eapply cb_prep; [exact E | cb_go]
      | E : resend_loop _ _ _ _ _ = (v, _, _) |- _ => eapply cb_resend_loop; [exact E | cb_go]
      | E : send_resend_request _ _ _ = (v, _) |- _ => eapply cb_send_resend_request; [exact E | cb_go]
      | E : do_target_too_high _ _ _ = (v, _) |- _ => unfold do_target_too_high in E; eapply cb_send_resend_request; [exact E | cb_go]
      | E : do_target_too_low _ _ = (v, _) |- _ => eapply cb_do_target_too_low; [exact E | cb_go]
      | E : shutdown_with_reason _ _ _ = (v, _) |- _ => eapply cb_shutdown_with_reason; [exact E | cb_go]
      | E : in_session_timeout _ _ = (v, _) |- _ => eapply cb_in_session_timeout; [exact E | cb_go]
      | _ => cb_ext4
      end
  | _ => cb_ext4
  end.
Ltac cb_ext ::= cb_ext5.

Section L6.
Variable s0 : sess.
Lemma cb_verify_app s m s1 r : verify_msg_against_app_impl s m = (s1, r) -> CbR Lnologout s0 s -> CbR Lnologout s0 s1.
Proof. intros E H. unfold verify_msg_against_app_impl in E. cb_pairlemma E. Qed.
Lemma cb_verify_select s m a b c s1 r : verify_select s m a b c = (s1, r) -> CbR Lnologout s0 s -> CbR Lnologout s0 s1.
Proof. intros E H. unfold verify_select in E. brk_in E; try (inv E; exact H). all: eapply cb_verify_app; eauto. Qed.
Lemma cb_process_reject s m r s1 st : process_reject s m r = (s1, st) -> CbR Lnologout s0 s -> CbR Lnologout s0 s1.
Proof. intros E H. unfold process_reject in E. cb_pairlemma E. Qed.
End L6.
Ltac cb_ext6 :=
  lazymatch goal with
  | |- CbR _ _ ?v =>
      match goal with
      | E : verify_msg_against_app_impl _ _ = (v, _) |- _ => eapply cb_verify_app; [exact E | cb_go]
      | E : verify_select _ _ _ _ _ = (v, _) |- _ => eapply cb_verify_select; [exact E | cb_go]
      | E : process_reject _ _ _ = (v, _) |- _ => eapply cb_process_reject; [exact E | cb_go]
      | _ => cb_ext5
      end
  | _ => cb_ext5
  end.
Ltac cb_ext ::= cb_ext6.

Section L7.
Variable s0 : sess.
Lemma cb_handle_logon s m s1 r : handle_logon s m = (s1, r) -> CbR Lnologout s0 s -> CbR Lnologout s0 s1.
Proof. intros E H. unfold handle_logon in E. cb_pairlemma E. Qed.
Lemma cb_handle_logout s m s1 st : handle_logout s m = (s1, st) -> CbR Lnologout s0 s -> CbR Lnologout s0 s1.
Proof. intros E H. unfold handle_logout in E. cb_pairlemma E. Qed.
Lemma cb_handle_test_request s m s1 st : handle_test_request s m = (s1, st) -> CbR Lnologout s0 s -> CbR Lnologout s0 s1.
Proof. intros E H. unfold handle_test_request, verify in E. cb_pairlemma E. Qed.
Lemma cb_handle_sequence_reset s m s1 st : handle_sequence_reset s m = (s1, st) -> CbR Lnologout s0 s -> CbR Lnologout s0 s1.
Proof. intros E H. unfold handle_sequence_reset in E. cb_pairlemma E. Qed.
Lemma cb_handle_resend_request s m s1 st : handle_resend_request s m = (s1, st) -> CbR Lnologout s0 s -> CbR Lnologout s0 s1.
Proof. intros E H. unfold handle_resend_request in E. cb_pairlemma E. Qed.
End L7.
Ltac cb_ext7 :=
  lazymatch goal with
  | |- CbR _ _ ?v =>
      match goal with
      | E : handle_logon _ _ = (v, _) |- _ => eapply cb_handle_logon; [exact E | cb_go]
      | E : handle_logout _ _ = (v, _) |- _ => eapply cb_handle_logout; [exact E | cb_go]
      | E : handle_test_request _ _ = (v, _) |- _ => eapply cb_handle_test_request; [exact E | cb_go]
      | E : handle_sequence_reset _ _ = (v, _) |- _ => eapply cb_handle_sequence_reset; [exact E | cb_go]
      | E : handle_resend_request _ _ = (v, _) |- _ => eapply cb_handle_resend_request; [exact E | cb_go]
      | _ => cb_ext6
      end
  | _ => cb_ext6
  end.
Ltac cb_ext ::= cb_ext7.

Section L8.
Variable s0 : sess.
Lemma cb_in_session_fix_msg_in s m s1 st : in_session_fix_msg_in s m = (s1, st) -> CbR Lnologout s0 s -> CbR Lnologout s0 s1.
Proof. intros E H. unfold in_session_fix_msg_in, verify in E. cb_pairlemma E. Qed.
Lemma cb_logon_state s m s1 st : logon_state_fix_msg_in s m = (s1, st) -> CbR Lnologout s0 s -> CbR Lnologout s0 s1.
Proof. intros E H. unfold logon_state_fix_msg_in in E. cb_pairlemma E. Qed.
End L8.

Section L9.
Variable s0 : sess.
Lemma cb_logout_state s m s1 st : logout_state_fix_msg_in s m = (s1, st) -> CbR Lnologout s0 s -> CbR Lnologout s0 s1.
Proof.
  intros E H. unfold logout_state_fix_msg_in in E.
  destruct (in_session_fix_msg_in s m) as [s2 st2] eqn:E2.
  assert (CbR Lnologout s0 s2) by (eapply cb_in_session_fix_msg_in; eassumption). destruct st2; inv E; assumption.
Qed.
Lemma cb_resend_drain : forall fuel s stash next s1 stash1 next1 still,
  resend_drain fuel s stash next = (s1, stash1, next1, still) -> CbR Lnologout s0 s -> CbR Lnologout s0 s1.
Proof.
  induction fuel as [|f IH]; intros s stash next s1 stash1 next1 still E H; cbn [resend_drain] in E.
  - inv E. exact H.
  - destruct (stash_take (s_tgt s) stash) as [[m stash']|]; [|inv E; exact H].
    destruct (in_session_fix_msg_in s m) as [s2 n2] eqn:E2.
    assert (H2 : CbR Lnologout s0 s2) by (eapply cb_in_session_fix_msg_in; eassumption).
    destruct (negb (is_logged_on n2)); [inv E; exact H2|]. eapply IH; eassumption.
Qed.
Lemma cb_resend_state s stash c e m s1 st : resend_state_fix_msg_in s stash c e m = (s1, st) -> CbR Lnologout s0 s -> CbR Lnologout s0 s1.
Proof.
  intros E H. unfold resend_state_fix_msg_in in E.
  destruct (in_session_fix_msg_in s m) as [s2 n2] eqn:E2.
  assert (H2 : CbR Lnologout s0 s2) by (eapply cb_in_session_fix_msg_in; eassumption).
  destruct (negb (is_logged_on n2)); [inv E; exact H2|].
  match type of E with context [resend_drain ?f ?a ?b ?c] => destruct (resend_drain f a b c) as [[[s3 l3] n3] still] eqn:E3 end.
  assert (H3 : CbR Lnologout s0 s3) by (eapply cb_resend_drain; eassumption).
  destruct (negb still); [inv E; exact H3|].
  brk_in E; inv E; try exact H3; eapply cb_send_resend_request; eassumption.
Qed.
Lemma cb_state_fix_msg_in : forall st s m s1 st1, state_fix_msg_in st s m = (s1, st1) -> CbR Lnologout s0 s -> CbR Lnologout s0 s1.
Proof.
  induction st as [| | | | | stash c e | i IH]; intros s m s1 st1 E H; cbn [state_fix_msg_in] in E.
  - inv E; exact H.
  - inv E; exact H.
  - eapply cb_logon_state; eassumption.
  - eapply cb_logout_state; eassumption.
  - eapply cb_in_session_fix_msg_in; eassumption.
  - eapply cb_resend_state; eassumption.
  - eapply IH; eassumption.
Qed.
Lemma cb_state_timeout st s e s1 st1 : state_timeout st s e = (s1, st1) -> CbR Lnologout s0 s -> CbR Lnologout s0 s1.
Proof.
  intros E H. unfold state_timeout in E.
  destruct st; try (brk_in E; inv E; exact H).
  - eapply cb_in_session_timeout; eassumption.
  - destruct (in_session_timeout s e) as [s2 st2] eqn:E2.
    assert (CbR Lnologout s0 s2) by (eapply cb_in_session_timeout; eassumption). brk_in E; inv E; assumption.
Qed.
Lemma cb_state_stop : forall st s s1 st1, state_stop st s = (s1, st1) -> CbR Lnologout s0 s -> CbR Lnologout s0 s1.
Proof.
  induction st as [| | | | | stash c e | i IH]; intros s s1 st1 E H; cbn [state_stop] in E; try (inv E; cb_go).
  eapply IH; eassumption.
Qed.
End L9.
(* ---------- the shape of the state a handler returns ---------- *)
(* latent, logout, or logged on (in session / resend / pending around a logged-on state) *)
Definition gst (st : sstate) : bool := match st with SLatent | SLogout => true | _ => is_logged_on st end.

Lemma gst_logged_on st : is_logged_on st = true -> gst st = true.
Proof. destruct st; cbn; intros H; try discriminate; try reflexivity; exact H. Qed.

Lemma send_resend_request_next s b e s1 st : send_resend_request s b e = (s1, st) -> exists c en, st = SResend (Some []) c en.
Proof.
  unfold send_resend_request. intros E.
  match type of E with context [if ?x then _ else _] => destruct x end; inversion E; eauto.
Qed.

Ltac nx_done :=
  match goal with
  | |- gst _ = true => reflexivity
  | E : send_resend_request _ _ _ = (_, ?n) |- gst ?n = true =>
      destruct (send_resend_request_next _ _ _ _ _ E) as (? & ? & ->); reflexivity
  | E : do_target_too_high _ _ _ = (_, ?n) |- gst ?n = true =>
      unfold do_target_too_high in E; destruct (send_resend_request_next _ _ _ _ _ E) as (? & ? & ->); reflexivity
  end.

Lemma do_target_too_low_next s m s1 next : do_target_too_low s m = (s1, next) -> gst next = true.
Proof. intros E. unfold do_target_too_low in E. brk_in E; inversion E; subst; reflexivity. Qed.

Lemma process_reject_next s m r s1 next : process_reject s m r = (s1, next) -> gst next = true.
Proof.
  intros E. unfold process_reject in E. destruct r as [recv exp|recv exp| | |reason tag bus].
  - destruct (unwrap_pending (s_st s)) eqn:Eu.
    all: try (destruct (do_target_too_high s recv exp) as [x n] eqn:Eh; unfold do_target_too_high in Eh;
              destruct (send_resend_request_next _ _ _ _ _ Eh) as (c0 & en & ->); inversion E; subst; reflexivity).
  - eapply do_target_too_low_next; exact E.
  - inversion E; subst; reflexivity.
  - inversion E; subst; reflexivity.
  - destruct (_ || _); inversion E; subst; reflexivity.
Qed.

Ltac nx E :=
  brk_in E;
  first [ (inversion E; subst; reflexivity)
        | (eapply process_reject_next; exact E) ].

Lemma handle_logout_next s m s1 next : handle_logout s m = (s1, next) -> gst next = true.
Proof. intros E. unfold handle_logout in E. nx E. Qed.
Lemma handle_test_request_next s m s1 next : handle_test_request s m = (s1, next) -> gst next = true.
Proof. intros E. unfold handle_test_request, verify in E. nx E. Qed.
Lemma handle_sequence_reset_next s m s1 next : handle_sequence_reset s m = (s1, next) -> gst next = true.
Proof. intros E. unfold handle_sequence_reset in E. nx E. Qed.
Lemma handle_resend_request_next s m s1 next : handle_resend_request s m = (s1, next) -> gst next = true.
Proof. intros E. unfold handle_resend_request in E. nx E. Qed.

Lemma in_session_next s m s1 next : in_session_fix_msg_in s m = (s1, next) -> gst next = true.
Proof.
  intros E. unfold in_session_fix_msg_in, verify in E.
  destruct (beq_bytes (mi_type m) T_LOGON). { destruct (handle_logon s m) as [x [r|]]; inversion E; subst; reflexivity. }
  destruct (beq_bytes (mi_type m) T_LOGOUT). { eapply handle_logout_next; exact E. }
  destruct (beq_bytes (mi_type m) T_RESENDREQ). { eapply handle_resend_request_next; exact E. }
  destruct (beq_bytes (mi_type m) T_SEQRESET). { eapply handle_sequence_reset_next; exact E. }
  destruct (beq_bytes (mi_type m) T_TESTREQ). { eapply handle_test_request_next; exact E. }
  nx E.
Qed.

Lemma logon_state_next s m s1 next : logon_state_fix_msg_in s m = (s1, next) -> gst next = true.
Proof.
  intros E. unfold logon_state_fix_msg_in in E.
  destruct (negb _); [inversion E; subst; reflexivity|].
  destruct (handle_logon s m) as [x [r|]]; [|inversion E; subst; reflexivity].
  destruct r; try (unfold shutdown_with_reason in E; inversion E; subst; reflexivity).
  unfold do_target_too_high in E. destruct (send_resend_request_next _ _ _ _ _ E) as (c0 & en & ->). reflexivity.
Qed.

Lemma logout_state_next s m s1 next : logout_state_fix_msg_in s m = (s1, next) -> gst next = true.
Proof. intros E. unfold logout_state_fix_msg_in in E. destruct (in_session_fix_msg_in s m) as [x n]. destruct n; inversion E; subst; reflexivity. Qed.

Lemma resend_drain_next : forall fuel s stash next s1 stash1 next1 still,
  resend_drain fuel s stash next = (s1, stash1, next1, still) -> gst next = true -> gst next1 = true.
Proof.
  induction fuel as [|f IH]; intros s stash next s1 stash1 next1 still E H; cbn [resend_drain] in E.
  - inversion E; subst. exact H.
  - destruct (stash_take (s_tgt s) stash) as [[m stash']|]; [|inversion E; subst; exact H].
    destruct (in_session_fix_msg_in s m) as [s2 n2] eqn:E2.
    pose proof (in_session_next _ _ _ _ E2) as H2.
    destruct (negb (is_logged_on n2)); [inversion E; subst; exact H2|]. eapply IH; eassumption.
Qed.

Lemma resend_state_next s stash c e m s1 next : resend_state_fix_msg_in s stash c e m = (s1, next) -> gst next = true.
Proof.
  intros E. unfold resend_state_fix_msg_in in E.
  destruct (in_session_fix_msg_in s m) as [s2 n2] eqn:E2.
  pose proof (in_session_next _ _ _ _ E2) as H2.
  destruct (negb (is_logged_on n2)); [inversion E; subst; exact H2|].
  match type of E with context [resend_drain ?f ?a ?b ?c] => destruct (resend_drain f a b c) as [[[s3 l3] n3] still] eqn:E3 end.
  pose proof (resend_drain_next _ _ _ _ _ _ _ _ E3 H2) as H3.
  destruct (negb still); [inversion E; subst; exact H3|].
  brk_in E; inversion E; subst; try reflexivity; try exact H3;
    match goal with Hq : send_resend_request _ _ _ = (_, _) |- _ =>
      let X := fresh "X" in destruct (send_resend_request_next _ _ _ _ _ Hq) as (? & ? & X); discriminate X end.
Qed.

Lemma state_fix_next : forall st s m s1 next, gst st = true \/ st = SLogon ->
  state_fix_msg_in st s m = (s1, next) -> gst next = true.
Proof.
  induction st as [| | | | | stash c e | i IH]; intros s m s1 next Hg E; cbn [state_fix_msg_in] in E.
  - inversion E; subst; reflexivity.
  - destruct Hg as [Hg|Hg]; discriminate Hg.
  - eapply logon_state_next; exact E.
  - eapply logout_state_next; exact E.
  - eapply in_session_next; exact E.
  - eapply resend_state_next; exact E.
  - destruct Hg as [Hg|Hg]; [|discriminate Hg]. cbn [gst is_logged_on] in Hg.
    eapply (IH s m); [left; apply gst_logged_on; exact Hg | exact E].
Qed.

Lemma state_timeout_next st s e s1 next : gst st = true \/ st = SLogon ->
  state_timeout st s e = (s1, next) -> gst next = true \/ (next = SLogon /\ st = SLogon).
Proof.
  intros Hg E. unfold state_timeout in E. destruct st as [| | | | | stash c en | i].
  - inversion E; subst. left; reflexivity.
  - destruct Hg as [Hg|Hg]; discriminate Hg.
  - destruct e; inversion E; subst; auto.
  - destruct e; inversion E; subst; left; reflexivity.
  - destruct e; cbn [in_session_timeout] in E; inversion E; subst; left; reflexivity.
  - destruct e; cbn [in_session_timeout] in E; inversion E; subst; left; reflexivity.
  - destruct Hg as [Hg|Hg]; [|discriminate Hg]. destruct e; inversion E; subst; left; try reflexivity; exact Hg.
Qed.

Lemma state_stop_next : forall st s s1 next, gst st = true \/ st = SLogon -> state_stop st s = (s1, next) -> gst next = true.
Proof.
  induction st as [| | | | | stash c e | i IH]; intros s s1 next Hg E; cbn [state_stop] in E;
    try (inversion E; subst; reflexivity).
  - destruct Hg as [Hg|Hg]; discriminate Hg.
  - destruct Hg as [Hg|Hg]; [|discriminate Hg]. cbn [gst is_logged_on] in Hg.
    eapply (IH s); [left; apply gst_logged_on; exact Hg | exact E].
Qed.
