(* C08 at trace level: the clauses of c08_check that hold on EVERY trace of the model -
     805  nothing is written to a connection after it was closed,
     801  the first message written on a connection is a Logon or a Logout (through the drain of buffered frames that
          handleDisconnectState now performs BEFORE it closes: invariant RW, kept by every "handler, then setState" round) -
   the former witnesses of 803 / 804 / 806 (finding drain-after-disconnect, repaired: they now pass; the clauses are proved
   for every trace in C08QuietProofs.v) and the witness of the one clause that does NOT hold on every trace (802: an
   application that sends a Logout-typed message itself). *)
From Coq Require Import String.
From Coq Require Import ZArith List Bool Lia.
From QF Require Import Base.Bytes Session.Types Session.Model Session.Spec Session.C01Proofs Session.LocalProofs
  Session.FrameProofs Session.TraceProofs Session.RecoveryProofs Session.ReactionProofs Session.TgProofs
  Session.ResendInvProofs Session.C08WireProofs.
Import ListNotations.
Open Scope list_scope.
Open Scope Z_scope.

(* ---------- the logon state writes nothing but a Logon or a Logout ---------- *)
Definition lgm (m : omsg) : Prop := is_type T_LOGON m || is_type T_LOGOUT m = true.

(* relative to a start state in logonState: still logonState (session.State is assigned after the handler), channel and
   configuration untouched, and everything written since is a Logon or a Logout *)
Definition LGr (s0 s : sess) : Prop :=
  s_st s0 = SLogon ->
  s_st s = SLogon /\ s_out_open s = s_out_open s0 /\ s_cfg s = s_cfg s0
  /\ exists new, s_wire s = new ++ s_wire s0 /\ Forall lgm new.

Lemma lg_refl s : LGr s s.
Proof. intros C. repeat split; try assumption. exists []. split; [reflexivity | constructor]. Qed.
Lemma lg_trans a b c : LGr a b -> LGr b c -> LGr a c.
Proof.
  intros H1 H2 C. destruct (H1 C) as (A1 & A2 & A3 & n1 & A4 & A5). destruct (H2 A1) as (B1 & B2 & B3 & n2 & B4 & B5).
  split; [exact B1|]. split; [congruence|]. split; [congruence|].
  exists (n2 ++ n1). split; [rewrite B4, A4, app_assoc; reflexivity | apply Forall_app; split; assumption].
Qed.

Section LBase.
Variable s0 : sess.
Ltac steplg := intros H; eapply lg_trans; [exact H|]; intros C; split; [exact C|]; split; [reflexivity|]; split; [reflexivity|];
              exists []; split; [reflexivity | constructor].
Lemma lg_upd_to_send s q : LGr s0 s -> LGr s0 (upd_to_send s q). Proof. steplg. Qed.
Lemma lg_upd_store s a b c : LGr s0 s -> LGr s0 (upd_store s a b c). Proof. steplg. Qed.
Lemma lg_log s c : LGr s0 s -> LGr s0 (log_cb s c). Proof. steplg. Qed.
Lemma lg_reset s : LGr s0 s -> LGr s0 (store_reset s). Proof. steplg. Qed.
Lemma lg_incr s : LGr s0 s -> LGr s0 (incr_tgt s). Proof. steplg. Qed.
Lemma lg_set_sent_reset s b : LGr s0 s -> LGr s0 (set_sent_reset s b). Proof. steplg. Qed.
Lemma lg_set_hb s h : LGr s0 s -> LGr s0 (set_hb s h). Proof. steplg. Qed.
Lemma lg_persist s m : LGr s0 s -> LGr s0 (persist s m).
Proof. intros H. unfold persist. destruct (c_disable_persist _); apply lg_upd_store, H. Qed.
Lemma lg_enqueue s m : LGr s0 s -> LGr s0 (enqueue s m). Proof. steplg. Qed.
Lemma lg_drop_queued s : LGr s0 s -> LGr s0 (drop_queued s). Proof. steplg. Qed.
Lemma lg_drop_and_reset s : LGr s0 s -> LGr s0 (drop_and_reset s). Proof. steplg. Qed.
End LBase.

Ltac lg_ext := fail.
Ltac lg_go :=
  lazymatch goal with
  | H : LGr ?a ?b |- LGr ?a ?b => exact H
  | |- LGr ?a ?a => apply lg_refl
  | |- LGr _ (if ?x then _ else _) => destruct x eqn:?; lg_go
  | |- LGr _ (match ?x with _ => _ end) => destruct x eqn:?; lg_go
  | |- LGr _ (upd_to_send _ _) => apply lg_upd_to_send; lg_go
  | |- LGr _ (upd_store _ _ _ _) => apply lg_upd_store; lg_go
  | |- LGr _ (log_cb _ _) => apply lg_log; lg_go
  | |- LGr _ (store_reset _) => apply lg_reset; lg_go
  | |- LGr _ (incr_tgt _) => apply lg_incr; lg_go
  | |- LGr _ (set_sent_reset _ _) => apply lg_set_sent_reset; lg_go
  | |- LGr _ (set_hb _ _) => apply lg_set_hb; lg_go
  | |- LGr _ (persist _ _) => apply lg_persist; lg_go
  | |- LGr _ (enqueue _ _) => apply lg_enqueue; lg_go
  | |- LGr _ (drop_queued _) => apply lg_drop_queued; lg_go
  | |- LGr _ (drop_and_reset _) => apply lg_drop_and_reset; lg_go
  | _ => lg_ext
  end.
Ltac lg_pairlemma E := brk_in E; inv E; brk_hyps; lg_go.

Lemma prep_some_type s t hdr body ir ok s1 m : prep s t hdr body ir ok = (s1, Some m) -> o_type m = t.
Proof. unfold prep. intros E. destruct (is_admin t); [|destruct ok]; inversion E; reflexivity. Qed.

Section LL1.
Variable s0 : sess.
Lemma lg_prep s t hdr body ir ok s1 r : prep s t hdr body ir ok = (s1, r) -> LGr s0 s -> LGr s0 s1.
Proof. intros E H. unfold prep in E. lg_pairlemma E. Qed.
End LL1.
Ltac lg_ext1 :=
  lazymatch goal with
  | |- LGr _ ?v => match goal with E : prep _ _ _ _ _ _ = (v, _) |- _ => eapply lg_prep; [exact E | lg_go] end
  end.
Ltac lg_ext ::= lg_ext1.

Section LL2.
Variable s0 : sess.
Lemma lg_queue_for_send s t hdr body ir ok : LGr s0 s -> LGr s0 (queue_for_send s t hdr body ir ok).
Proof. intros H. unfold queue_for_send. lg_go. Qed.
(* dropAndSend: the queue is dropped first, so exactly the one message is written *)
Lemma lg_drop_and_send s t body ir : beq_bytes t T_LOGON || beq_bytes t T_LOGOUT = true ->
  LGr s0 s -> LGr s0 (drop_and_send_in_reply_to s t body ir).
Proof.
  intros Ht H. unfold drop_and_send_in_reply_to.
  destruct (prep s t [] body ir true) as [s1 [m|]] eqn:E; [|eapply lg_prep; eassumption].
  assert (H1 : LGr s0 s1) by (eapply lg_prep; eassumption).
  pose proof (prep_some_type _ _ _ _ _ _ _ _ E) as Hm.
  intros C. destruct (H1 C) as (A1 & A2 & A3 & new & A4 & A5).
  unfold send_queued. cbn [s_out_open enqueue drop_queued upd_to_send].
  destruct (s_out_open s1) eqn:Eo.
  - cbn [s_st s_out_open s_cfg s_wire s_to_send s_cbs upd_to_send upd_logs enqueue drop_queued app rev].
    split; [exact A1|]. split; [congruence|]. split; [exact A3|].
    exists (m :: new). split; [rewrite A4; reflexivity|]. constructor; [|exact A5].
    unfold lgm, is_type. rewrite Hm. exact Ht.
  - cbn [s_st s_out_open s_cfg s_wire upd_to_send enqueue drop_queued].
    split; [exact A1|]. split; [congruence|]. split; [exact A3|]. exists new. split; assumption.
Qed.
End LL2.
Ltac lg_ext2 :=
  lazymatch goal with
  | |- LGr _ (queue_for_send _ _ _ _ _ _) => apply lg_queue_for_send; lg_go
  | _ => lg_ext1
  end.
Ltac lg_ext ::= lg_ext2.

Section LL3.
Variable s0 : sess.
(* sendInReplyTo outside a logged-on state only queues *)
Lemma lg_send_in_reply_to s t hdr body ir : LGr s0 s -> LGr s0 (send_in_reply_to s t hdr body ir).
Proof.
  intros H C. pose proof (H C) as (A1 & _). unfold send_in_reply_to. rewrite A1. cbn [is_logged_on negb].
  exact (lg_queue_for_send s0 s t hdr body None true H C).
Qed.
Lemma lg_send_logon s b ir : LGr s0 s -> LGr s0 (send_logon_in_reply_to s b ir).
Proof. intros H. unfold send_logon_in_reply_to. apply lg_drop_and_send; [reflexivity | exact H]. Qed.
End LL3.
Ltac lg_ext3 :=
  lazymatch goal with
  | |- LGr _ (send_in_reply_to _ _ _ _ _) => apply lg_send_in_reply_to; lg_go
  | |- LGr _ (send_logon_in_reply_to _ _ _) => apply lg_send_logon; lg_go
  | |- LGr _ (drop_and_send_in_reply_to _ T_LOGOUT _ _) => apply lg_drop_and_send; [reflexivity | lg_go]
  | _ => lg_ext2
  end.
Ltac lg_ext ::= lg_ext3.

Section LL4.
Variable s0 : sess.
Lemma lg_send s t body : LGr s0 s -> LGr s0 (send s t body).
Proof. intros H. unfold send. lg_go. Qed.
Lemma lg_verify_app s m s1 r : verify_msg_against_app_impl s m = (s1, r) -> LGr s0 s -> LGr s0 s1.
Proof. intros E H. unfold verify_msg_against_app_impl in E. lg_pairlemma E. Qed.
Lemma lg_shutdown_with_reason s m b s1 st : shutdown_with_reason s m b = (s1, st) -> LGr s0 s -> LGr s0 s1.
Proof.
  intros E H. unfold shutdown_with_reason in E. inv E.
  assert (H1 : LGr s0 (drop_and_send_in_reply_to s T_LOGOUT [] (Some m))) by (apply lg_drop_and_send; [reflexivity | exact H]).
  destruct b; [apply lg_incr|]; exact H1.
Qed.
End LL4.
Ltac lg_ext4 :=
  lazymatch goal with
  | |- LGr _ (send _ _ _) => apply lg_send; lg_go
  | |- LGr _ ?v =>
      match goal with
      | E : prep _ _ _ _ _ _ = (v, _) |- _ => eapply lg_prep; [exact E | lg_go]
      | E : verify_msg_against_app_impl _ _ = (v, _) |- _ => eapply lg_verify_app; [exact E | lg_go]
      | E : shutdown_with_reason _ _ _ = (v, _) |- _ => eapply lg_shutdown_with_reason; [exact E | lg_go]
      | _ => lg_ext3
      end
  | _ => lg_ext3
  end.
Ltac lg_ext ::= lg_ext4.

Section LL5.
Variable s0 : sess.
Lemma lg_send_resend_request s b e s1 st : send_resend_request s b e = (s1, st) -> LGr s0 s -> LGr s0 s1.
Proof. intros E H. unfold send_resend_request in E. lg_pairlemma E. Qed.
Lemma lg_verify_select s m a b c s1 r : verify_select s m a b c = (s1, r) -> LGr s0 s -> LGr s0 s1.
Proof. intros E H. unfold verify_select in E. brk_in E; try (inv E; exact H). all: eapply lg_verify_app; eauto. Qed.
End LL5.
Ltac lg_ext5 :=
  lazymatch goal with
  | |- LGr _ ?v =>
      match goal with
      | E : send_resend_request _ _ _ = (v, _) |- _ => eapply lg_send_resend_request; [exact E | lg_go]
      | E : do_target_too_high _ _ _ = (v, _) |- _ => unfold do_target_too_high in E; eapply lg_send_resend_request; [exact E | lg_go]
      | E : verify_select _ _ _ _ _ = (v, _) |- _ => eapply lg_verify_select; [exact E | lg_go]
      | _ => lg_ext4
      end
  | _ => lg_ext4
  end.
Ltac lg_ext ::= lg_ext5.

Section LL6.
Variable s0 : sess.
Lemma lg_handle_logon s m s1 r : handle_logon s m = (s1, r) -> LGr s0 s -> LGr s0 s1.
Proof. intros E H. unfold handle_logon in E. lg_pairlemma E. Qed.
End LL6.
Ltac lg_ext6 :=
  lazymatch goal with
  | |- LGr _ ?v =>
      match goal with
      | E : handle_logon _ _ = (v, _) |- _ => eapply lg_handle_logon; [exact E | lg_go]
      | _ => lg_ext5
      end
  | _ => lg_ext5
  end.
Ltac lg_ext ::= lg_ext6.

Lemma lg_logon_state s0 s m s1 st : logon_state_fix_msg_in s m = (s1, st) -> LGr s0 s -> LGr s0 s1.
Proof. intros E H. unfold logon_state_fix_msg_in in E. lg_pairlemma E. Qed.

(* ---------- an acceptor that accepts a Logon has written its own Logon ---------- *)
Lemma send_logon_writes s b ir : s_out_open s = true -> s_wire (send_logon_in_reply_to s b ir) <> [].
Proof.
  intros Ho. unfold send_logon_in_reply_to, drop_and_send_in_reply_to.
  destruct (prep s T_LOGON [] (logon_body s b) ir true) as [s1 [m|]] eqn:E.
  - pose proof (fr_prep s _ _ _ _ _ _ _ _ E (same_refl s)) as (S1 & _).
    unfold send_queued. cbn [s_out_open enqueue drop_queued upd_to_send]. rewrite S1, Ho.
    cbn [s_wire s_to_send upd_to_send upd_logs enqueue drop_queued app rev]. discriminate.
  - exfalso. unfold prep in E. assert (Ha : is_admin T_LOGON = true) by reflexivity. rewrite Ha in E. inversion E.
Qed.

Lemma initiator_same s s' : Same s s' -> initiator s' = initiator s.
Proof. intros (_ & _ & _ & H & _). unfold initiator. rewrite H. reflexivity. Qed.

Lemma handle_logon_sent : forall s m s1 r,
  handle_logon s m = (s1, r) -> initiator s = false -> s_out_open s = true ->
  (r = None \/ exists a b, r = Some (RTooHigh a b)) -> s_wire s1 <> [].
Proof.
  intros s m s1 r E Hi Ho Hr. unfold handle_logon in E.
  destruct (if c_begin (s_cfg s) =? 5 then match mi_applver m with None => Some (R_cond_missing 1137) | Some _ => None end else None) as [r0|] eqn:E0.
  { exfalso. destruct (c_begin (s_cfg s) =? 5); [|discriminate]. destruct (mi_applver m); inversion E0; subst. inversion E; subst.
    destruct Hr as [Hr|(a & b & Hr)]; discriminate Hr. }
  destruct (verify_msg_against_app_impl s m) as [x [r1|]] eqn:Ea.
  { exfalso. unfold verify_msg_against_app_impl in Ea. destruct (mi_valid m); cbn [rej_of_verdict] in Ea;
      try (inversion Ea; subst; inversion E; subst; destruct Hr as [Hr|(a & b & Hr)]; discriminate Hr).
    destruct (mi_app m); cbn [rej_of_verdict] in Ea; inversion Ea; subst; inversion E; subst;
      destruct Hr as [Hr|(a & b & Hr)]; discriminate Hr. }
  pose proof (fr_verify_app s _ _ _ _ Ea (same_refl s)) as Sx.
  cbv zeta in E.
  match type of E with context [verify_select ?a m false true false] =>
    assert (Sa : Same s a) by fr_go;
    destruct (verify_select a m false true false) as [y [r1|]] eqn:Ev end.
  { exfalso. inversion E; subst. destruct Hr as [Hr|(a & b & Hr)]; [discriminate Hr|]. inversion Hr; subst.
    pose proof (verify_select_too_high_hi _ _ _ _ _ _ _ _ Ev). discriminate. }
  pose proof (fr_verify_select s _ _ _ _ _ _ _ Ev Sa) as Sy.
  rewrite (initiator_same _ _ Sy), Hi in E.
  match type of E with context [send_logon_in_reply_to ?a ?b ?c] =>
    assert (Hs3 : s_out_open a = true) by
      (assert (S3 : Same s a) by fr_go; destruct S3 as (S31 & _); rewrite S31; exact Ho);
    pose proof (send_logon_writes a b c Hs3) as Hw; set (s4 := send_logon_in_reply_to a b c) in * end.
  destruct (check_target_too_high _ m); inversion E; subst; exact Hw.
Qed.

(* logonState.FixMsgIn of an acceptor with the channel open: whatever it writes is a Logon or a Logout, and if the session
   stays connected (handshake completed) something - its Logon - has been written *)
Lemma logon_state_acceptor : forall s m s1 next,
  s_st s = SLogon -> initiator s = false -> s_out_open s = true ->
  logon_state_fix_msg_in s m = (s1, next) ->
  (exists new, s_wire s1 = new ++ s_wire s /\ Forall lgm new) /\ (is_connected next = true -> s_wire s1 <> []).
Proof.
  intros s m s1 next Hst Hi Ho E. split.
  - destruct (lg_logon_state s s m s1 next E (lg_refl s) Hst) as (_ & _ & _ & H). exact H.
  - intros Hc. unfold logon_state_fix_msg_in in E.
    destruct (negb (beq_bytes (mi_type m) T_LOGON)); [inversion E; subst; discriminate Hc|].
    destruct (handle_logon s m) as [x [r|]] eqn:Eh.
    + destruct r as [recv exp|recv exp| | |reason tag bus];
        try (unfold shutdown_with_reason in E; inversion E; subst; discriminate Hc).
      pose proof (handle_logon_sent s m x _ Eh Hi Ho (or_intror (ex_intro _ recv (ex_intro _ exp eq_refl)))) as Hw.
      pose proof (lg_handle_logon s s m x _ Eh (lg_refl s) Hst) as (Hx & _).
      unfold do_target_too_high in E.
      destruct (lg_send_resend_request x x _ _ _ _ E (lg_refl x) Hx) as (_ & _ & _ & new & A4 & _).
      rewrite A4. intros Hn. apply app_eq_nil in Hn as [_ Hn]. exact (Hw Hn).
    + inversion E; subst. exact (handle_logon_sent s m s1 None Eh Hi Ho (or_introl eq_refl)).
Qed.

(* dropAndSend writes at most the one message it was asked to send (whatever the state) *)
Lemma drop_and_send_wire s t body ir :
  exists new, s_wire (drop_and_send_in_reply_to s t body ir) = new ++ s_wire s /\ Forall (fun m => o_type m = t) new.
Proof.
  unfold drop_and_send_in_reply_to.
  destruct (prep s t [] body ir true) as [s1 [m|]] eqn:E.
  - assert (Hw : s_wire s1 = s_wire s).
    { unfold prep in E. brk_in E; inv E; unfold persist; try destruct (c_disable_persist _); reflexivity. }
    pose proof (prep_some_type _ _ _ _ _ _ _ _ E) as Hm.
    unfold send_queued. cbn [s_out_open enqueue drop_queued upd_to_send].
    destruct (s_out_open s1).
    + cbn [s_wire s_to_send s_cbs upd_to_send upd_logs enqueue drop_queued app rev]. rewrite Hw.
      exists [m]. split; [reflexivity|]. constructor; [exact Hm | constructor].
    + cbn [s_wire upd_to_send enqueue drop_queued]. rewrite Hw. exists []. split; [reflexivity | constructor].
  - assert (Hw : s_wire s1 = s_wire s).
    { unfold prep in E. brk_in E; inv E; reflexivity. }
    rewrite Hw. exists []. split; [reflexivity | constructor].
Qed.

(* ---------- what one event does, as far as clauses 801 / 805 are concerned ---------- *)
Lemma step_connect_connected s : is_connected (s_st s) = true -> step s EConnect = clear_logs s.
Proof. intros H. unfold step, step_event, connect. cbn [clear_logs s_st upd_chan upd_logs]. rewrite H. reflexivity. Qed.

Lemma step_connect_new s : is_connected (s_st s) = false ->
  let s' := step s EConnect in
  s_out_open s' = true /\ s_closed s' = false /\ s_st s' = SLogon
  /\ (initiator s = false -> s_wire s' = [])
  /\ (initiator s = true -> s_wire s' <> [] /\ Forall lgm (s_wire s')).
Proof.
  intros Hc s'. unfold s', step, step_event, connect. cbn [clear_logs s_st upd_chan upd_logs]. rewrite Hc.
  match goal with |- context [set_sent_reset ?x false] => set (c0 := set_sent_reset x false) end.
  assert (Hi0 : initiator c0 = initiator s) by reflexivity. rewrite Hi0.
  assert (Hss : forall x, set_state x SLogon = upd_st x SLogon) by (intros x; reflexivity).
  rewrite !Hss.
  destruct (initiator s); cbn [negb].
  - match goal with |- context [send_logon_in_reply_to ?a ?b ?c] =>
      assert (Sa : Same c0 a) by fr_go; assert (Wa : s_wire a = []) by (destruct (c_reset_on_logon _); reflexivity);
      pose proof (send_logon_writes a b c ltac:(destruct Sa as (S1 & _); rewrite S1; reflexivity)) as Hw;
      destruct (drop_and_send_wire a T_LOGON (logon_body a b) c) as (new & Hn & Hf);
      assert (Sb : Same c0 (send_logon_in_reply_to a b c)) by fr_go;
      set (s2 := send_logon_in_reply_to a b c) in * end.
    destruct Sb as (S1 & _ & _ & _ & _ & _ & S7 & _).
    cbn [upd_st s_out_open s_closed s_st s_wire]. rewrite S1, S7.
    split; [reflexivity|]. split; [reflexivity|]. split; [reflexivity|]. split; [discriminate|]. intros _.
    split; [exact Hw|]. unfold s2, send_logon_in_reply_to. rewrite Hn, Wa, app_nil_r.
    eapply Forall_impl; [|exact Hf]. intros m Hm. unfold lgm, is_type. rewrite Hm. reflexivity.
  - cbn. split; [reflexivity|]. split; [reflexivity|]. split; [reflexivity|]. split; [intros _; reflexivity | intros Hx; discriminate Hx].
Qed.

(* ---------- the first message of a connection, through the drain ---------- *)
Lemma rev_head_lgm (w : list omsg) : Forall lgm w -> match rev w with [] => True | m :: _ => lgm m end.
Proof.
  intros H. apply Forall_rev in H. destruct (rev w); [exact I|]. inversion H; assumption.
Qed.

(* the chronologically first message written in this event, if any, is a Logon or a Logout *)
Definition FirstOK (x : sess) : Prop := match rev (s_wire x) with [] => True | m :: _ => lgm m end.
(* ... and while nothing has been written the session is an acceptor in logonState, or has disconnected *)
Definition RW (x : sess) : Prop :=
  Boundary x /\ FirstOK x
  /\ (s_wire x = [] -> (s_st x = SLogon /\ initiator x = false) \/ is_connected (s_st x) = false).

Lemma firstok_app (w new : list omsg) : w <> [] ->
  match rev w with [] => True | m :: _ => lgm m end -> match rev (new ++ w) with [] => True | m :: _ => lgm m end.
Proof.
  intros Hne H. rewrite rev_app_distr. destruct (rev w) as [|m t] eqn:E.
  - exfalso. apply Hne. apply (f_equal (@rev omsg)) in E. rewrite rev_involutive in E. exact E.
  - exact H.
Qed.

Lemma boundary_same x s1 : Boundary x -> Same x s1 -> Boundary s1.
Proof.
  intros [B1 B2] (S1 & S2 & S3 & _ & _ & _ & _ & S8). split; intros H; rewrite S8 in H.
  - rewrite S1, S2. apply B1; exact H.
  - rewrite S1, S2, S3. apply B2; exact H.
Qed.
Lemma boundary_upd_st_connected x s1 next : Boundary x -> Same x s1 -> is_connected (s_st x) = true ->
  is_connected next = true -> Boundary (upd_st s1 next).
Proof.
  intros [B1 _] (S1 & S2 & _) Hc Hn. split; cbn [s_st upd_st s_out_open s_in_open s_in_buf]; intros H; [|congruence].
  rewrite S1, S2. apply B1; exact Hc.
Qed.
Lemma boundary_fin_dead s0 next : Boundary s0 -> is_connected (s_st s0) = false -> is_connected next = false -> Boundary (fin s0 next).
Proof.
  intros [_ B2] Hc Hn. destruct (B2 Hc) as (D1 & D2 & D3). unfold fin.
  split; cbn [s_st upd_st]; intros H; [congruence|]. destruct (s_pending_stop s0); cbn; repeat split; assumption.
Qed.
Lemma boundary_fin_disconnect s0 next : is_connected next = false -> Boundary (fin (disconnect_now s0) next).
Proof.
  intros Hn. unfold fin. split; cbn [s_st upd_st]; intros H; [congruence|].
  assert (Hd : s_out_open (disconnect_now s0) = false /\ s_in_open (disconnect_now s0) = false /\ s_in_buf (disconnect_now s0) = []).
  { unfold disconnect_now. cbv zeta. cbn [s_out_open s_in_open s_in_buf upd_chan]. repeat split.
    match goal with |- s_out_open (if s_out_open ?y then _ else _) = false => destruct (s_out_open y) eqn:E; [reflexivity | exact E] end. }
  destruct Hd as (D1 & D2 & D3). destruct (s_pending_stop _); cbn; repeat split; assumption.
Qed.
Lemma boundary_pop x m r : Boundary x -> s_in_buf x = m :: r -> Boundary (upd_chan x (s_out_open x) (s_in_open x) r (s_closed x)).
Proof.
  intros [B1 B2] Eb. split; cbn [s_st upd_chan s_out_open s_in_open s_in_buf]; intros H.
  - apply B1; exact H.
  - destruct (B2 H) as (_ & _ & D3). rewrite D3 in Eb. discriminate.
Qed.
Lemma wire_fin s next : s_wire (fin s next) = s_wire s.
Proof. unfold fin. destruct (s_pending_stop s); reflexivity. Qed.
Lemma wire_disconnect_now s : s_wire (disconnect_now s) = s_wire s.
Proof.
  unfold disconnect_now. cbv zeta. cbn [s_wire upd_chan].
  repeat match goal with |- context [if ?b then _ else _] => destruct b end; reflexivity.
Qed.
Lemma st_fin s next : s_st (fin s next) = next.
Proof. reflexivity. Qed.

(* one handler round keeps RW *)
Lemma rw_msg x m s1 next : RW x -> is_connected (s_st x) = true -> state_fix_msg_in (s_st x) x m = (s1, next) ->
  (is_connected next = true -> RW (upd_st s1 next)) /\ (is_connected next = false -> RW s1).
Proof.
  intros (Hb & Hf & Hq) Hc E.
  pose proof (fr_state_fix_msg_in x _ _ _ _ _ E (same_refl x)) as Hs.
  destruct (wire_grows_state_fix _ _ _ _ _ E) as (new & Hg).
  assert (Hfirst : FirstOK s1 /\ (s_wire s1 = [] -> s_wire x = [])
                   /\ (s_wire x = [] -> is_connected next = true -> s_wire s1 <> [])).
  { destruct (s_wire x) as [|w0 wr] eqn:Ew.
    - destruct (Hq eq_refl) as [[Hst Hi]|Hd]; [|congruence].
      rewrite Hst in E. cbn [state_fix_msg_in] in E.
      assert (Ho : s_out_open x = true) by (destruct Hb as [B1 _]; destruct (B1 Hc) as [H _]; exact H).
      destruct (logon_state_acceptor x m s1 next Hst Hi Ho E) as ((nw & A1 & A2) & A3).
      rewrite Ew, app_nil_r in A1. split; [unfold FirstOK; rewrite A1; apply rev_head_lgm; exact A2|].
      split; [intros _; reflexivity | intros _ Hn; exact (A3 Hn)].
    - split; [unfold FirstOK; rewrite Hg; apply firstok_app; [discriminate | unfold FirstOK in Hf; rewrite Ew in Hf; exact Hf]|].
      split; [intros H0; rewrite Hg in H0; apply app_eq_nil in H0 as [_ H0]; discriminate H0 | intros X; discriminate X]. }
  destruct Hfirst as (F1 & F2 & F3).
  split; intros Hn.
  - split; [eapply boundary_upd_st_connected; eassumption|]. split; [exact F1|].
    cbn [s_wire upd_st s_st]. intros H0. exfalso. exact (F3 (F2 H0) Hn H0).
  - split; [eapply boundary_same; eassumption|]. split; [exact F1|].
    intros H0. destruct (Hq (F2 H0)) as [[Hst Hi]|Hd]; [|congruence].
    destruct Hs as (_ & _ & _ & S4 & _ & _ & _ & S8). left. split; [congruence|]. unfold initiator in *. rewrite S4. exact Hi.
Qed.

Lemma rw_pop x m r : RW x -> s_in_buf x = m :: r -> RW (upd_chan x (s_out_open x) (s_in_open x) r (s_closed x)).
Proof. intros (Hb & Hf & Hq) Eb. split; [eapply boundary_pop; eassumption|]. split; [exact Hf | exact Hq]. Qed.
Lemma rw_dead s0 next : RW s0 -> is_connected (s_st s0) = false -> is_connected next = false -> True -> RW (fin s0 next).
Proof.
  intros (Hb & Hf & Hq) Hc Hn _. split; [apply boundary_fin_dead; assumption|].
  unfold FirstOK. rewrite wire_fin. split; [exact Hf | intros _; right; exact Hn].
Qed.
Lemma rw_disc s0 next : RW s0 -> is_connected (s_st s0) = true -> is_connected next = false -> True -> RW (fin (disconnect_now s0) next).
Proof.
  intros (Hb & Hf & Hq) Hc Hn _. split; [apply boundary_fin_disconnect; assumption|].
  unfold FirstOK. rewrite wire_fin, wire_disconnect_now. split; [exact Hf | intros _; right; exact Hn].
Qed.

Lemma rw_set_state s1 next : is_connected (s_st s1) = true ->
  (is_connected next = true -> RW (upd_st s1 next)) -> (is_connected next = false -> RW s1) -> RW (set_state s1 next).
Proof.
  intros Hc H1 H2. apply (rounds_set_state RW (fun _ => True)); try assumption.
  - exact rw_pop.
  - intros x m s2 n Hp Hx E Hn. exact (proj1 (rw_msg x m s2 n Hp Hx E) Hn).
  - intros x m s2 n Hp Hx E Hn. split; [exact (proj2 (rw_msg x m s2 n Hp Hx E) Hn) | exact I].
  - exact rw_dead.
  - exact rw_disc.
  - intros Hn. split; [exact (H2 Hn) | exact I].
Qed.
Lemma rw_incoming x m : RW x -> RW (incoming x m).
Proof.
  intros Hp. apply (rounds_incoming RW (fun _ => True)); try assumption.
  - exact rw_pop.
  - intros y mm s2 n Hy Hx E Hn. exact (proj1 (rw_msg y mm s2 n Hy Hx E) Hn).
  - intros y mm s2 n Hy Hx E Hn. split; [exact (proj2 (rw_msg y mm s2 n Hy Hx E) Hn) | exact I].
  - exact rw_dead.
  - exact rw_disc.
Qed.

(* one event from an acceptor in logonState that has written nothing on this connection: the first thing written, in this
   event, is a Logon or a Logout - whatever the buffered frames make the session do afterwards - and if nothing is
   written the session is still in logonState or has disconnected *)
Lemma step_logon_acceptor : forall s e, e <> EConnect -> Boundary s ->
  s_st s = SLogon -> initiator s = false ->
  FirstOK (step s e)
  /\ (s_wire (step s e) = [] -> (s_st (step s e) = SLogon /\ initiator (step s e) = false) \/ is_connected (s_st (step s e)) = false).
Proof.
  intros s e Hne Hb0 Hst0 Hi0. unfold step.
  assert (Hst : s_st (clear_logs s) = SLogon) by exact Hst0.
  assert (Hi : initiator (clear_logs s) = false) by exact Hi0.
  assert (Hb : Boundary (clear_logs s)) by exact Hb0.
  assert (Hw : s_wire (clear_logs s) = []) by reflexivity.
  set (c := clear_logs s) in *. clearbody c.
  assert (Hrw : RW c).
  { split; [exact Hb|]. split; [unfold FirstOK; rewrite Hw; exact I | intros _; left; split; assumption]. }
  assert (Hc : is_connected (s_st c) = true) by (rewrite Hst; reflexivity).
  assert (Hplain : forall x, s_wire x = [] -> s_st x = SLogon -> initiator x = false ->
            FirstOK x /\ (s_wire x = [] -> (s_st x = SLogon /\ initiator x = false) \/ is_connected (s_st x) = false)).
  { intros x X1 X2 X3. split; [unfold FirstOK; rewrite X1; exact I | intros _; left; split; assumption]. }
  assert (Hlg : forall x, LGr c x -> FirstOK x /\ (s_wire x = [] -> (s_st x = SLogon /\ initiator x = false) \/ is_connected (s_st x) = false)).
  { intros x Hx. destruct (Hx Hst) as (A1 & _ & A3 & new & A4 & A5). rewrite Hw, app_nil_r in A4.
    split; [unfold FirstOK; rewrite A4; apply rev_head_lgm; exact A5|].
    intros _. left. split; [exact A1|]. unfold initiator in *. rewrite A3. exact Hi. }
  destruct e; cbn [step_event].
  - exfalso. apply Hne. reflexivity.
  - destruct (_ && _); apply Hplain; assumption.
  - destruct (negb (s_in_open c)); [apply Hplain; assumption|].
    destruct (s_in_buf c) as [|m r] eqn:Eb; [apply Hplain; assumption|].
    destruct (rw_incoming _ m (rw_pop c m r Hrw Eb)) as (_ & R2 & R3). split; assumption.
  - destruct (rw_incoming c (Some m) Hrw) as (_ & R2 & R3). split; assumption.
  - destruct (rw_incoming c None Hrw) as (_ & R2 & R3). split; assumption.
  - rewrite Hc.
    destruct (rw_set_state c SLatent Hc) as (_ & R2 & R3); [intros X; discriminate X | intros _; exact Hrw | split; assumption].
  - rewrite Hst.
    assert (Ht : exists next, state_timeout SLogon c e = (c, next) /\ (next = SLogon \/ next = SLatent)).
    { destruct e; cbn [state_timeout]; eexists; split; try reflexivity; auto. }
    destruct Ht as (next & -> & Hn).
    destruct (rw_set_state c next Hc) as (_ & R2 & R3); [| intros _; exact Hrw | split; assumption].
    intros Hcn. destruct Hn as [-> | ->]; [|discriminate Hcn].
    split; [eapply boundary_upd_st_connected; [exact Hb | apply same_refl | exact Hc | reflexivity]|].
    split; [unfold FirstOK; cbn [s_wire upd_st]; rewrite Hw; exact I | intros _; left; split; [reflexivity | exact Hi]].
  - apply Hlg. apply lg_queue_for_send, lg_refl.
  - rewrite Hst. cbn [is_logged_on]. apply Hplain; assumption.
  - cbn [s_st upd_flags]. rewrite Hst. cbn [state_stop].
    set (c0 := upd_flags c (s_sent_reset c) (s_hb c) true (s_stopped c)).
    assert (Hrw0 : RW c0) by exact Hrw.
    destruct (rw_set_state c0 SLatent Hc) as (_ & R2 & R3); [intros X; discriminate X | intros _; exact Hrw0 | split; assumption].
  - rewrite Hc. apply Hlg. apply lg_send_logon, lg_refl.
Qed.

(* ---------- c08_scan, one event at a time ---------- *)
Definition c08_k0 (k : c08_st) (e : event) : c08_st :=
  match e with
  | EConnect => if k_connected k then k
                else {| k_connected := true; k_first_sent := false; k_logged := false; k_logout_sent := false; k_open_logons := 0 |}
  | _ => k
  end.
Definition has_onlogon (l : list cb) : bool := existsb (fun c => match c with CbOnLogon => true | _ => false end) l.
Definition c08_kw (k0 : c08_st) (o : obs) : c08_st :=
  {| k_connected := k_connected k0; k_first_sent := k_first_sent k0; k_logged := k_logged k0 || has_onlogon (ob_cbs o);
     k_logout_sent := k_logout_sent k0; k_open_logons := k_open_logons k0 |}.
Definition c08_next (k : c08_st) (e : event) (o : obs) : c08_st :=
  let k0 := c08_k0 k e in
  let k1 := fst (fold_steps c08_cb_step k0 (ob_cbs o)) in
  let k2 := fst (fold_steps c08_wire_step (c08_kw k0 o) (ob_wire o)) in
  {| k_connected := k_connected k0 && negb (ob_closed o); k_first_sent := k_first_sent k2; k_logged := k_logged k1;
     k_logout_sent := k_logout_sent k2; k_open_logons := k_open_logons k1 |}.
Definition c08_event_codes (k : c08_st) (e : event) (o : obs) : list Z :=
  let k0 := c08_k0 k e in
  let k1 := fst (fold_steps c08_cb_step k0 (ob_cbs o)) in
  let e1 := snd (fold_steps c08_cb_step k0 (ob_cbs o)) in
  let e2 := snd (fold_steps c08_wire_step (c08_kw k0 o) (ob_wire o)) in
  let e3 := if Nat.ltb 1 (count_onlogout (ob_cbs o)) && negb (has_onlogon (ob_cbs o)) then [804] else [] in
  let e4 := if ob_closed o && k_logged k1 then [806] else [] in
  let e1' := if fromapp_after_logout false (ob_cbs o) then 803 :: filter (fun x => negb (x =? 803)) e1 else e1 in
  e1' ++ e2 ++ e3 ++ e4.

Lemma c08_scan_cons i k e o r :
  c08_scan i k ((e, o) :: r) = map (fun code => (i, code)) (c08_event_codes k e o) ++ c08_scan (S i) (c08_next k e o) r.
Proof.
  cbn [c08_scan]. unfold c08_event_codes, c08_next. fold (c08_k0 k e). cbv zeta.
  fold (has_onlogon (ob_cbs o)). fold (c08_kw (c08_k0 k e) o).
  destruct (fold_steps c08_cb_step (c08_k0 k e) (ob_cbs o)) as [k1 e1].
  destruct (fold_steps c08_wire_step (c08_kw (c08_k0 k e) o) (ob_wire o)) as [k2 e2].
  reflexivity.
Qed.

Lemma free_of_map codes i l : (forall x, In x l -> ~ In x codes) ->
  free_of codes (map (fun code : Z => (i, code)) l) = true.
Proof.
  intros H. unfold free_of. apply forallb_forall. intros [j x] Hx. apply in_map_iff in Hx as (y & Hy & Hi).
  injection Hy as Hj Hyx. cbn [snd]. apply negb_true_iff. destruct (existsb (Z.eqb x) codes) eqn:E; [|reflexivity].
  exfalso. apply existsb_exists in E as (z & Hz & Ez). apply Z.eqb_eq in Ez. apply (H y Hi). rewrite Hyx, Ez. exact Hz.
Qed.

(* callbacks only ever report 803 *)
Lemma cb_fold_codes : forall l k x, In x (snd (fold_steps c08_cb_step k l)) -> x = 803.
Proof.
  induction l as [|c r IH]; intros k x Hx; cbn [fold_steps] in Hx; [destruct Hx|].
  destruct (c08_cb_step k c) as [k1 e1] eqn:E1. destruct (fold_steps c08_cb_step k1 r) as [k2 e2] eqn:E2.
  cbn [snd] in Hx. apply in_app_or in Hx as [Hx|Hx].
  - unfold c08_cb_step in E1. destruct c; inversion E1; subst; clear E1;
      repeat match type of Hx with context [if ?b then _ else _] => destruct b end;
      cbn [In] in Hx; try contradiction; destruct Hx as [Hx|[]]; symmetry; exact Hx.
  - apply (IH k1). rewrite E2. exact Hx.
Qed.

(* the wire part of the automaton *)
Lemma wire_fold_state : forall w k,
  k_connected (fst (fold_steps c08_wire_step k w)) = k_connected k
  /\ k_first_sent (fst (fold_steps c08_wire_step k w)) = match w with [] => k_first_sent k | _ => true end.
Proof.
  induction w as [|m r IH]; intros k; cbn [fold_steps]; [split; reflexivity|].
  destruct (c08_wire_step k m) as [k1 e1] eqn:E1. destruct (fold_steps c08_wire_step k1 r) as [k2 e2] eqn:E2.
  cbn [fst]. destruct (IH k1) as [A1 A2]. rewrite E2 in A1, A2. cbn [fst] in A1, A2.
  unfold c08_wire_step in E1. inversion E1; subst k1. cbn [k_connected k_first_sent] in *.
  split; [exact A1|]. rewrite A2. destruct r; reflexivity.
Qed.

Lemma wire_fold_codes : forall w k x,
  (k_connected k = true \/ w = []) ->
  (k_first_sent k = true \/ match w with [] => True | m :: _ => lgm m end) ->
  In x (snd (fold_steps c08_wire_step k w)) -> x = 802.
Proof.
  induction w as [|m r IH]; intros k x Hc Hf Hx; cbn [fold_steps] in Hx; [destruct Hx|].
  destruct (c08_wire_step k m) as [k1 e1] eqn:E1. destruct (fold_steps c08_wire_step k1 r) as [k2 e2] eqn:E2.
  cbn [snd] in Hx.
  destruct Hc as [Hc|Hc]; [|discriminate Hc].
  unfold c08_wire_step in E1. inversion E1 as [[Hk1 He1]]. clear E1.
  apply in_app_or in Hx as [Hx|Hx].
  - rewrite <- He1 in Hx. rewrite Hc in Hx. cbn [app] in Hx.
    assert (Hno : (if k_first_sent k then [] else if is_type T_LOGON m || is_type T_LOGOUT m then [] else [801]) = []).
    { destruct Hf as [Hf|Hf]; [rewrite Hf; reflexivity|]. unfold lgm in Hf. rewrite Hf. destruct (k_first_sent k); reflexivity. }
    rewrite Hno in Hx. cbn [app] in Hx.
    destruct (_ && _); [|destruct Hx]. destruct Hx as [Hx|[]]. symmetry; exact Hx.
  - apply (IH k1 x); [left; rewrite <- Hk1; exact Hc | left; rewrite <- Hk1; reflexivity | rewrite E2; exact Hx].
Qed.

(* an event reports neither 801 nor 805 when the automaton is connected or nothing is written, and the first thing
   written on a connection that has not written yet is a Logon or a Logout *)
Lemma event_codes_free k e o :
  (k_connected (c08_k0 k e) = true \/ ob_wire o = []) ->
  (k_first_sent (c08_k0 k e) = true \/ match ob_wire o with [] => True | m :: _ => lgm m end) ->
  forall x, In x (c08_event_codes k e o) -> ~ In x [801; 805].
Proof.
  intros Hc Hf x Hx. unfold c08_event_codes in Hx. cbv zeta in Hx.
  assert (Hok : x = 802 \/ x = 803 \/ x = 804 \/ x = 806).
  { apply in_app_or in Hx as [Hx|Hx].
    - right; left. destruct (fromapp_after_logout false (ob_cbs o)).
      + destruct Hx as [Hx|Hx]; [symmetry; exact Hx|]. apply filter_In in Hx as [Hx _]. eapply cb_fold_codes; exact Hx.
      + eapply cb_fold_codes; exact Hx.
    - apply in_app_or in Hx as [Hx|Hx].
      + left. eapply wire_fold_codes; [| |exact Hx]; assumption.
      + apply in_app_or in Hx as [Hx|Hx].
        * destruct (_ && _); [|destruct Hx]. destruct Hx as [Hx|[]]. right; right; left; symmetry; exact Hx.
        * destruct (_ && _); [|destruct Hx]. destruct Hx as [Hx|[]]. right; right; right; symmetry; exact Hx. }
  intros [H|[H|[]]]; subst x; destruct Hok as [H|[H|[H|H]]]; discriminate H.
Qed.

Lemma event_eq_connect (e : event) : e = EConnect \/ e <> EConnect.
Proof. destruct e; try (right; discriminate). left; reflexivity. Qed.

(* ---------- the coupling invariant between the automaton and the model ---------- *)
(* the automaton is "connected" exactly when messageOut is open; while nothing has been written on the connection the
   session is an acceptor in logonState *)
Definition C08Inv (k : c08_st) (s : sess) : Prop :=
  Boundary s /\ k_connected k = s_out_open s
  /\ (k_connected k = true -> k_first_sent k = false -> s_st s = SLogon /\ initiator s = false).

Lemma boundary_open_connected s : Boundary s -> s_out_open s = is_connected (s_st s).
Proof.
  intros [B1 B2]. destruct (is_connected (s_st s)) eqn:Ec.
  - destruct (B1 eq_refl) as [H _]. exact H.
  - destruct (B2 eq_refl) as [H _]. exact H.
Qed.

Lemma initiator_step s e : initiator (step s e) = initiator s.
Proof. unfold initiator. rewrite (step_cfg (s_cfg s) s e eq_refl). reflexivity. Qed.

Lemma c08_step_inv : forall k s e, C08Inv k s ->
  (forall x, In x (c08_event_codes k e (obs_of (step s e))) -> ~ In x [801; 805])
  /\ C08Inv (c08_next k e (obs_of (step s e))) (step s e).
Proof.
  intros k s e (Hb & Hk & Hf).
  pose proof (step_boundary s e Hb) as Hb'.
  pose proof (boundary_open_connected s Hb) as Hoc.
  pose proof (boundary_open_connected _ Hb') as Hoc'.
  set (s' := step s e) in *. set (o := obs_of s').
  assert (Hwire : ob_wire o = rev (s_wire s')) by reflexivity.
  assert (Hclosed : ob_closed o = s_closed s') by reflexivity.
  (* facts about this event *)
  assert (Facts :
    (k_connected (c08_k0 k e) = true \/ s_wire s' = [])
    /\ (k_first_sent (c08_k0 k e) = true \/ FirstOK s')
    /\ k_connected (c08_k0 k e) && negb (s_closed s') = s_out_open s'
    /\ (k_connected (c08_k0 k e) = true -> k_first_sent (c08_k0 k e) = false -> s_wire s' = [] ->
        (s_st s' = SLogon \/ is_connected (s_st s') = false) /\ initiator s' = false)).
  { destruct (event_eq_connect e) as [-> | Hne].
    - (* Connect *)
      cbn [c08_k0]. destruct (k_connected k) eqn:Ek.
      + (* already connected: nothing happens *)
        assert (Hc : is_connected (s_st s) = true) by (rewrite <- Hoc, <- Hk; reflexivity).
        assert (Es : s' = clear_logs s) by (apply step_connect_connected; exact Hc).
        rewrite Es. cbn [clear_logs s_wire s_closed s_out_open upd_chan upd_logs s_st].
        split; [left; exact Ek|]. split; [right; exact I|]. split; [rewrite Ek, <- Hk; reflexivity|].
        intros _ Hfs _. destruct (Hf eq_refl Hfs) as [A1 A2]. split; [left; exact A1 | exact A2].
      + assert (Hc : is_connected (s_st s) = false) by (rewrite <- Hoc, <- Hk; reflexivity).
        destruct (step_connect_new s Hc) as (A1 & A2 & A3 & A4 & A5). fold s' in A1, A2, A3, A4, A5.
        cbn [k_connected k_first_sent]. split; [left; reflexivity|]. split.
        { right. unfold FirstOK. destruct (initiator s) eqn:Ei; [apply rev_head_lgm, A5; reflexivity | rewrite (A4 eq_refl); exact I]. }
        split; [rewrite A1, A2; reflexivity|].
        intros _ _ Hw. split; [left; exact A3|].
        unfold s'. rewrite initiator_step. destruct (initiator s); [|reflexivity].
        exfalso. destruct (A5 eq_refl) as [A6 _]. exact (A6 Hw).
    - (* any other event *)
      assert (Ek0 : c08_k0 k e = k) by (destruct e; try reflexivity; exfalso; apply Hne; reflexivity).
      rewrite Ek0.
      pose proof (step_channel s e Hne) as Hch. fold s' in Hch.
      split.
      { destruct (k_connected k) eqn:Ek; [left; reflexivity | right].
        apply (step_closed_writes_nothing s e Hne). rewrite <- Hk; reflexivity. }
      split.
      { destruct (k_first_sent k) eqn:Efs; [left; reflexivity | right].
        destruct (k_connected k) eqn:Ek.
        - destruct (Hf eq_refl eq_refl) as [A1 A2].
          apply (step_logon_acceptor s e Hne Hb A1 A2).
        - destruct (step_closed_writes_nothing s e Hne) as [A1 _]; [rewrite <- Hk; reflexivity|].
          fold s' in A1. unfold FirstOK. rewrite A1. exact I. }
      split; [rewrite Hk; symmetry; exact Hch|].
      intros Ek Efs Hw. destruct (Hf Ek Efs) as [A1 A2].
      destruct (step_logon_acceptor s e Hne Hb A1 A2) as [_ A3]. fold s' in A3.
      split; [destruct (A3 Hw) as [[B1 _]|B1]; [left | right]; exact B1|]. unfold s'. rewrite initiator_step. exact A2. }
  destruct Facts as (F1 & F2 & F3 & F4).
  split.
  - apply event_codes_free.
    + destruct F1 as [F1|F1]; [left; exact F1 | right]. rewrite Hwire, F1. reflexivity.
    + destruct F2 as [F2|F2]; [left; exact F2 | right]. rewrite Hwire. exact F2.
  - split; [exact Hb'|]. unfold c08_next. cbv zeta. cbn [k_connected k_first_sent].
    destruct (wire_fold_state (ob_wire o) (c08_kw (c08_k0 k e) o)) as [W1 W2].
    split; [rewrite Hclosed; exact F3|].
    rewrite W2. cbn [c08_kw k_first_sent]. rewrite Hclosed, F3.
    intros Hopen Hfs.
    assert (Hw : s_wire s' = []).
    { rewrite Hwire in Hfs. destruct (rev (s_wire s')) eqn:Er; [|discriminate Hfs].
      apply (f_equal (@rev omsg)) in Er. rewrite rev_involutive in Er. exact Er. }
    rewrite Hwire, Hw in Hfs. cbn [rev] in Hfs.
    assert (Hk0 : k_connected (c08_k0 k e) = true).
    { rewrite <- F3 in Hopen. apply andb_true_iff in Hopen as [H _]. exact H. }
    destruct (F4 Hk0 Hfs Hw) as [[A1|A1] A2]; [split; assumption|].
    exfalso. rewrite Hoc', A1 in Hopen. discriminate Hopen.
Qed.

Lemma init_c08inv c : C08Inv c08_init (init_sess c).
Proof. split; [apply init_boundary|]. split; [reflexivity|]. intros H; discriminate H. Qed.

Lemma c08_scan_801_805 : forall es s i k, C08Inv k s ->
  free_of [801; 805] (c08_scan i k (combine es (map obs_of (run_trace es s)))) = true.
Proof.
  induction es as [|e r IH]; intros s i k Hinv; cbn [run_trace map combine]; [reflexivity|].
  rewrite c08_scan_cons, free_of_app. destruct (c08_step_inv k s e Hinv) as [H1 H2].
  apply andb_true_iff; split; [apply free_of_map; exact H1 | apply IH; exact H2].
Qed.

(* C08, trace level: on every trace of the model (every configuration, both roles, every event list)
   - 805: nothing is written to a connection after it was closed, until the next Connect;
   - 801: the first message written on a connection is a Logon or a Logout. *)
Lemma c08_first_message_and_silence_after_close : forall c es,
  free_of [801; 805] (c08_check (combine es (map obs_of (run_trace es (init_sess c))))) = true.
Proof. intros c es. unfold c08_check. apply c08_scan_801_805. apply init_c08inv. Qed.

(* the coupling invariant itself, at every event boundary of every trace: the automaton of c08_check believes the connection
   is up exactly when the model's outbound channel is open *)
Fixpoint c08_states (k : c08_st) (tr : list (event * obs)) : list c08_st :=
  match tr with
  | [] => []
  | (e, o) :: r => let k' := c08_next k e o in k' :: c08_states k' r
  end.

Lemma c08_coupling_general : forall es s k, C08Inv k s ->
  Forall2 C08Inv (c08_states k (combine es (map obs_of (run_trace es s)))) (run_trace es s).
Proof.
  induction es as [|e r IH]; intros s k Hinv; cbn [run_trace map combine c08_states]; [constructor|].
  destruct (c08_step_inv k s e Hinv) as [_ H2]. constructor; [exact H2 | apply IH; exact H2].
Qed.

Lemma Forall2_imp {A C} (P Q : A -> C -> Prop) : (forall a b, P a b -> Q a b) ->
  forall l1 l2, Forall2 P l1 l2 -> Forall2 Q l1 l2.
Proof. intros H l1 l2 F. induction F as [|a b la lb H1 H2 IH]; constructor; [apply H; exact H1 | exact IH]. Qed.

Lemma c08_coupling : forall c es,
  Forall2 (fun k s => k_connected k = s_out_open s)
          (c08_states c08_init (combine es (map obs_of (run_trace es (init_sess c))))) (run_trace es (init_sess c)).
Proof.
  intros c es. eapply Forall2_imp; [|exact (c08_coupling_general es (init_sess c) c08_init (init_c08inv c))].
  intros k s (_ & H & _). exact H.
Qed.

(* ---------- examples: the former witnesses of 803 / 804 / 806, and the clause that does NOT hold on every trace (802) ---------- *)
Definition c08_ex_cfg (r : role) : cfg :=
  {| c_role := r; c_begin := 2; c_sender := B "S"; c_target := B "T"; c_reset_on_logon := false; c_reset_on_logout := false;
     c_reset_on_disconnect := false; c_refresh_on_logon := false; c_chunk := 0; c_hb := 30; c_hb_override := false;
     c_skip_latency := true; c_max_latency := 120; c_disable_persist := false; c_last_seq_processed := false; c_in_cap := 4;
     c_appl_ver := [] |}.
(* an inbound message of type t with number seq whose header passes every check *)
Definition c08_ex_msg (t : bytes) (seq : Z) : minput :=
  {| mi_type := t; mi_begin := B "FIX.4.2"; mi_sender := Some (B "T"); mi_target := Some (B "S"); mi_seq := FVal seq;
     mi_possdup := FAbsent; mi_stime := FVal 0; mi_otime := FAbsent; mi_gapfill := FAbsent; mi_newseq := FAbsent;
     mi_beginseq := FAbsent; mi_endseq := FAbsent; mi_reset := FAbsent; mi_hbint := FVal 30; mi_testreq := None;
     mi_applver := None; mi_route := []; mi_body := []; mi_app := VAccept; mi_valid := VAccept; mi_refuse := [] |}.
(* a ResendRequest [b, e] *)
Definition c08_ex_resend_request (seq b e : Z) : minput :=
  {| mi_type := T_RESENDREQ; mi_begin := B "FIX.4.2"; mi_sender := Some (B "T"); mi_target := Some (B "S"); mi_seq := FVal seq;
     mi_possdup := FAbsent; mi_stime := FVal 0; mi_otime := FAbsent; mi_gapfill := FAbsent; mi_newseq := FAbsent;
     mi_beginseq := FVal b; mi_endseq := FVal e; mi_reset := FAbsent; mi_hbint := FAbsent; mi_testreq := None;
     mi_applver := None; mi_route := []; mi_body := []; mi_app := VAccept; mi_valid := VAccept; mi_refuse := [] |}.
Definition c08_trace_check (c : cfg) (es : list event) : list failure :=
  c08_check (combine es (map obs_of (run_trace es (init_sess c)))).

(* Former witness of 806 (finding drain-after-disconnect, repaired: handleDisconnectState drains messageIn BEFORE it notifies
   and closes): an acceptor in logonState with a Logon buffered in messageIn processes a non-Logon frame.  The buffered
   Logon is now handled first, in logonState, with the channel open: FromAdmin, ToAdmin, OnLogon, then OnLogout and the
   close.  The whole predicate passes. *)
Definition c08_ex_806 : list event :=
  [EConnect; EArrive (c08_ex_msg T_LOGON 1); EIncoming (c08_ex_msg (B "D") 1)].
Lemma c08_ex_806_run : c08_trace_check (c08_ex_cfg Acceptor) c08_ex_806 = [].
Proof. vm_compute. reflexivity. Qed.

(* Former witness of 803 and 804 (same finding, F17): logged on; an application message 3 and a Logout 4 are buffered when
   Logout 2 is processed.  Message 3 is now handed to FromApp and Logout 4 is answered BEFORE the one logout notification;
   the whole predicate passes. *)
Definition c08_ex_803_804 : list event :=
  [EConnect; EIncoming (c08_ex_msg T_LOGON 1); EArrive (c08_ex_msg (B "D") 3); EArrive (c08_ex_msg T_LOGOUT 4);
   EIncoming (c08_ex_msg T_LOGOUT 2)].
Lemma c08_ex_803_804_run : c08_trace_check (c08_ex_cfg Acceptor) c08_ex_803_804 = [].
Proof. vm_compute. reflexivity. Qed.
(* the callbacks of its last event, in order: FromAdmin ToAdmin (Logout 2), FromApp (3), FromAdmin ToAdmin (Logout 4), OnLogout *)
Lemma c08_ex_803_804_order :
  map (fun c => match c with CbFromApp _ _ _ _ => 1 | CbFromAdmin _ _ _ => 2 | CbToAdmin _ => 4 | CbOnLogout => 6 | _ => 0 end)
      (rev (s_cbs (last (run_trace c08_ex_803_804 (init_sess (c08_ex_cfg Acceptor))) (init_sess (c08_ex_cfg Acceptor)))))
  = [2; 4; 1; 2; 4; 6].
Proof. vm_compute. reflexivity. Qed.

(* 802: the finding queued-app-flushed-outside-logon was repaired (b6d3b39): a replay no longer flushes what was queued outside
   a logon.  What still refutes the clause on arbitrary event lists is an APPLICATION that itself sends a Logout-typed
   message through SendToTarget and keeps sending afterwards: the session stays logged on, the predicate has seen "our
   Logout" on the wire.  (Outside the property: the engine's Logout is the one the engine initiates.) *)
Definition c08_ex_802 : list event :=
  [EConnect; EIncoming (c08_ex_msg T_LOGON 1); EAppSend (B "5") [] true; EFlush; EAppSend (B "D") [] true; EFlush].
Lemma c08_ex_802_run : c08_trace_check (c08_ex_cfg Acceptor) c08_ex_802 = [(5%nat, 802)].
Proof. vm_compute. reflexivity. Qed.

Lemma c08_802_refuted : exists c es, free_of [802] (c08_check (combine es (map obs_of (run_trace es (init_sess c))))) = false.
Proof. exists (c08_ex_cfg Acceptor), c08_ex_802. vm_compute. reflexivity. Qed.

(* the proved clauses are not vacuous: both examples above write on the wire, connect and close, and pass 801 / 805 *)
Lemma c08_ex_nontrivial :
  let tr := run_trace c08_ex_803_804 (init_sess (c08_ex_cfg Acceptor)) in
  map (fun s => length (s_wire s)) tr = [0; 1; 0; 0; 2]%nat /\ map s_closed tr = [false; false; false; false; true].
Proof. vm_compute. split; reflexivity. Qed.

(* the hypotheses of step_logon_acceptor on a concrete state, and a step that does something *)
Lemma c08_ex_logon_state :
  let s := step (init_sess (c08_ex_cfg Acceptor)) EConnect in
  s_st s = SLogon /\ initiator s = false /\ s_out_open s = true
  /\ map o_type (s_wire (step s (EIncoming (c08_ex_msg T_LOGON 1)))) = [T_LOGON].
Proof. vm_compute. repeat split; reflexivity. Qed.
