(* C07 clause 710: with ResetOnLogout, a Logout that passed verification (handed to FromAdmin, accepted) resets the store,
   whatever its MsgSeqNum -- in every logged-on state (in session, recovering, test request pending) and in the logout state.
   The FromAdmin callback for a Logout can only come from the processed message itself: the closure NewCbProofs.v with
   P = "not FromAdmin for a Logout" covers processReject, the drain of the kept messages (never a Logout: invariant TS) and
   the state change; so the callback proves that handleLogout took its success path, which resets under ResetOnLogout. *)
From Coq Require Import String.
From Coq Require Import ZArith List Bool Lia.
From QF Require Import Base.Bytes Session.Types Session.Model Session.Spec Session.C01Proofs Session.LocalProofs
  Session.FrameProofs Session.TraceProofs Session.RecoveryProofs Session.ReactionProofs Session.TgProofs Session.MonoProofs
  Session.ResendInvProofs Session.NoReqProofs Session.ChunkProofs Session.TjProofs Session.KeptProofs Session.ConnectProofs
  Session.LogonProofs Session.StashTypeProofs Session.NewCbProofs Session.ResetEchoProofs.
Import ListNotations.
Open Scope list_scope.
Open Scope Z_scope.

Definition is_logout_fromadmin (x : cb) : bool := match x with CbFromAdmin t _ _ => beq_bytes t T_LOGOUT | _ => false end.
Definition P710 (x : cb) : bool := negb (is_logout_fromadmin x).

Lemma p710_toadmin : forall t, P710 (CbToAdmin t) = true. Proof. reflexivity. Qed.
Lemma p710_toapp : forall n b, P710 (CbToApp n b) = true. Proof. reflexivity. Qed.
Lemma p710_rs : rs_free P710. Proof. reflexivity. Qed.
Lemma p710_cfg c : cfg_ok P710 c. Proof. left. exact p710_rs. Qed.

Lemma p710_m_ok m : beq_bytes (mi_type m) T_LOGOUT = false -> m_ok P710 m.
Proof.
  intros H. split; [split|left; exact p710_rs].
  - unfold P710, is_logout_fromadmin. rewrite H. reflexivity.
  - intros tg. reflexivity.
Qed.

Lemma ts_all_ok st : TSst st -> all_ok P710 (stash_of_st st).
Proof. intros H k x Hx. apply p710_m_ok, type_ok_not_logout. exact (H k x Hx). Qed.

Definition N710 := Ncb P710.

(* verification that reports an error has not reached the application when the application would accept *)
Lemma verify_select_error_accept s m hi lo s1 r : mi_app m = VAccept ->
  verify_select s m hi lo true = (s1, Some r) -> s1 = s.
Proof.
  intros Ha E. unfold verify_select in E.
  destruct (check_begin_string s m); [inv E; reflexivity|].
  destruct (check_comp_id s m); [inv E; reflexivity|].
  destruct (match s_st s with SResend _ _ _ => None | _ => check_sending_time s m end); [inv E; reflexivity|].
  destruct (if lo then check_target_too_low s m else None); [inv E; reflexivity|].
  destruct (if hi then check_target_too_high s m else None); [inv E; reflexivity|].
  unfold verify_msg_against_app_impl in E. destruct (rej_of_verdict (mi_valid m)); [inv E; reflexivity|].
  rewrite Ha in E. cbn [rej_of_verdict] in E. destruct (is_admin (mi_type m)); discriminate E.
Qed.

Definition reset_done (s1 : sess) (next : sstate) : Prop :=
  next = SLatent /\ s_snd s1 = 1 /\ s_tgt s1 = 1 /\ In CbStoreReset (s_cbs s1).

Lemma handle_logout_cases s0 s m s1 next :
  mi_app m = VAccept -> c_reset_on_logout (s_cfg s) = true -> N710 s0 s ->
  handle_logout s m = (s1, next) -> N710 s0 s1 \/ reset_done s1 next.
Proof.
  intros Ha Hr H E. unfold handle_logout in E.
  destruct (verify_select s m false false true) as [sv [r|]] eqn:Ev.
  - left. pose proof (verify_select_error_accept _ _ _ _ _ _ Ha Ev) as ->.
    eapply (ncb_process_reject P710 p710_toadmin p710_toapp); [exact E | exact H].
  - right.
    assert (Sv : Same s sv) by (eapply fr_verify_select; [exact Ev | apply same_refl]).
    match type of E with context [c_reset_on_logout (s_cfg ?x)] => set (s2 := x) in * end.
    assert (S2 : Same s s2) by (unfold s2; fr_go).
    rewrite (same_cfg _ _ S2), Hr in E. inv E. repeat split. left. reflexivity.
Qed.

Lemma logout_type_handler s m : mi_type m = T_LOGOUT -> in_session_fix_msg_in s m = handle_logout s m.
Proof. intros H. unfold in_session_fix_msg_in. rewrite H. reflexivity. Qed.

Lemma handle_logout_not_resend s m s1 next : handle_logout s m = (s1, next) -> not_resend_st next.
Proof.
  intros E. unfold handle_logout in E. destruct (verify_select s m false false true) as [s' [r|]] eqn:Ev.
  - eapply verify_then_reject_nohi; eassumption.
  - repeat match type of E with context [match ?x with _ => _ end] => destruct x
                           | context [if ?x then _ else _] => destruct x end; inversion E; subst; apply ns_SLatent.
Qed.

Lemma logout_cases : forall st s m s1 next,
  unwrap_pending st = unwrap_pending (s_st s) -> TSst (s_st s) ->
  mi_type m = T_LOGOUT -> mi_app m = VAccept -> c_reset_on_logout (s_cfg s) = true ->
  (is_logged_on st = true \/ st = SLogout) ->
  state_fix_msg_in st s m = (s1, next) -> N710 s s1 \/ reset_done s1 next.
Proof.
  induction st as [| | | | | stash c e | j IH]; intros s m s1 next Hu Hts Hty Ha Hr Hl E; cbn [state_fix_msg_in] in E;
    try (destruct Hl as [Hl|Hl]; discriminate Hl).
  - (* logout state *)
    unfold logout_state_fix_msg_in in E. rewrite (logout_type_handler s m Hty) in E.
    destruct (handle_logout s m) as [x nx] eqn:Eh.
    destruct (handle_logout_cases s s m x nx Ha Hr (ncb_refl P710 s) Eh) as [H|(-> & H)].
    + left. destruct nx; inv E; exact H.
    + right. inv E. split; [reflexivity | exact H].
  - (* in session *)
    rewrite (logout_type_handler s m Hty) in E.
    exact (handle_logout_cases s s m s1 next Ha Hr (ncb_refl P710 s) E).
  - (* recovering *)
    cbn [unwrap_pending] in Hu.
    destruct (in_session_fix_msg_in s m) as [sa na] eqn:Ei.
    pose proof Ei as Eh. rewrite (logout_type_handler s m Hty) in Eh.
    destruct (handle_logout_cases s s m sa na Ha Hr (ncb_refl P710 s) Eh) as [H|(-> & H)].
    + left. eapply (ncb_resend_state_after P710 p710_toadmin p710_toapp eq_refl); [exact Ei | exact H | apply p710_cfg | | exact E].
      pose proof (handle_logout_not_resend _ _ _ _ Eh) as Hnr.
      assert (Ho : all_ok P710 (olist stash)).
      { pose proof (ts_all_ok _ Hts) as Hall. unfold stash_of_st in Hall. rewrite <- Hu in Hall.
        destruct stash as [l0|]; [exact Hall | intros k x []]. }
      destruct stash as [l0|]; [rewrite (shared_stash_not_resend l0 na Hnr); exact Ho | intros k x []].
    + right. unfold resend_state_fix_msg_in in E. rewrite Ei in E. cbn [is_logged_on negb] in E. inv E.
      split; [reflexivity | exact H].
  - (* test request pending *)
    cbn [unwrap_pending] in Hu. apply (IH s m s1 next); try assumption.
    destruct Hl as [Hl|Hl]; [left; exact Hl | discriminate Hl].
Qed.

(* leaving the connected states with nothing buffered keeps both counters at 1 *)
Lemma set_state_keeps_one s next : s_in_buf s = [] -> s_snd s = 1 -> s_tgt s = 1 ->
  s_snd (set_state s next) = 1 /\ s_tgt (set_state s next) = 1.
Proof.
  intros Hb H1 H2. unfold set_state, set_state_with.
  destruct (negb (is_connected next)); [|split; assumption].
  assert (Hhd : s_snd (handle_disconnect_state drain s) = 1 /\ s_tgt (handle_disconnect_state drain s) = 1).
  { rewrite (hd_no_buffer s Hb). unfold disconnect_now. cbv zeta. cbn [upd_chan s_snd s_tgt].
    repeat match goal with |- context [if ?c then _ else _] => destruct c end; cbn; split; first [reflexivity | assumption]. }
  destruct (is_connected (s_st s)).
  - destruct (s_pending_stop _); exact Hhd.
  - destruct (s_pending_stop s); split; assumption.
Qed.

(* clause 710 as a step *)
Lemma step_logout_resets s m :
  TS s -> s_in_buf s = [] -> (is_logged_on (s_st s) = true \/ s_st s = SLogout) ->
  c_reset_on_logout (s_cfg s) = true -> mi_type m = T_LOGOUT -> mi_app m = VAccept ->
  let s' := step s (EIncoming m) in
  (exists x, In x (s_cbs s') /\ is_logout_fromadmin x = true) ->
  s_snd s' = 1 /\ s_tgt s' = 1 /\ In CbStoreReset (s_cbs s').
Proof.
  intros Hts Hbuf Hl Hr Hty Ha s'. unfold s'. clear s'.
  unfold step, step_event, incoming, incoming_with.
  set (c := clear_logs s).
  assert (Hcon : is_connected (s_st c) = true).
  { change (s_st c) with (s_st s). destruct Hl as [Hl|Hl]; [apply logged_on_connected; exact Hl | rewrite Hl; reflexivity]. }
  rewrite Hcon. cbn [negb].
  destruct (state_fix_msg_in (s_st c) c m) as [s1 next] eqn:E. fold (set_state s1 next).
  pose proof (fr_state_fix_msg_in c _ _ _ _ _ E (same_refl c)) as S1.
  assert (Hb1 : s_in_buf s1 = []) by (rewrite (same_buf _ _ S1); exact Hbuf).
  intros (x & Hx & Hp).
  destruct (logout_cases (s_st c) c m s1 next eq_refl Hts Hty Ha Hr Hl E) as [H|(-> & A1 & A2 & A3)].
  - exfalso.
    assert (H' : N710 c (set_state s1 next)).
    { apply (ncb_set_state_nodrain P710 eq_refl); [exact Hb1 | apply p710_cfg | exact H]. }
    destruct (H' x Hx) as [[]|Hpx]. unfold P710 in Hpx. rewrite Hp in Hpx. discriminate Hpx.
  - destruct (set_state_keeps_one s1 SLatent Hb1 A1 A2) as [B1 B2].
    split; [exact B1|]. split; [exact B2|].
    destruct (mo_set_state_with drain SLatent mo_drain s1 s1 (mono_refl s1)) as [_ M]. apply M. exact A3.
Qed.

(* ---------- clause 710, one event ---------- *)
Lemma logged_on_or_logout st :
  sh_logged_on (shape_of st) || match shape_of st with ShLogout => true | _ => false end = true ->
  is_logged_on st = true \/ st = SLogout.
Proof.
  intros H. apply orb_true_iff in H as [H|H].
  - left. rewrite sh_logged_on_shape in H. exact H.
  - right. destruct st; cbn in H; try discriminate. reflexivity.
Qed.

Lemma c07_event_710 : forall i b s e, TS s ->
  free_of [710] (c07_event (s_cfg s) i b (obs_of s) e (obs_of (step s e))) = true.
Proof.
  intros i b s e Hts. unfold c07_event. cbn [c07_scan]. rewrite !app_nil_r.
  destruct e as [| | |m| | |t| | | |]; try (free_rest; fail).
  rewrite !free_of_app. repeat (apply andb_true_iff; split); try (free_rest; fail).
  match goal with |- free_of _ (if ?x then _ else _) = true => destruct x eqn:Ec; [|reflexivity] end.
  apply andb_true_iff in Ec as [Ec E6]. apply andb_true_iff in Ec as [Ec E5]. apply andb_true_iff in Ec as [Ec E4].
  apply andb_true_iff in Ec as [Ec E3]. apply andb_true_iff in Ec as [E1 E2].
  change (ob_st (obs_of s)) with (shape_of (s_st s)) in E4. apply logged_on_or_logout in E4.
  change (ob_inbuf (obs_of s)) with (Z.of_nat (length (s_in_buf s))) in E3. apply len0 in E3.
  apply beq_bytes_true in E1.
  assert (Ha : mi_app m = VAccept) by (destruct (mi_app m); try discriminate; reflexivity).
  assert (Hx : exists x, In x (s_cbs (step s (EIncoming m))) /\ is_logout_fromadmin x = true).
  { apply existsb_exists in E5 as (x & Hx & Hp). exists x. split; [|exact Hp].
    change (ob_cbs (obs_of (step s (EIncoming m)))) with (rev (s_cbs (step s (EIncoming m)))) in Hx. apply in_rev. exact Hx. }
  destruct (step_logout_resets s m Hts E3 E4 E2 E1 Ha Hx) as (A1 & A2 & A3).
  change (ob_snd (obs_of (step s (EIncoming m)))) with (s_snd (step s (EIncoming m))).
  change (ob_tgt (obs_of (step s (EIncoming m)))) with (s_tgt (step s (EIncoming m))).
  rewrite A1, A2, (has_reset_observed _ A3). reflexivity.
Qed.

(* ---------- trace level ---------- *)
Lemma c07_scan_710 : forall es s i b, RI s -> LB s -> TS s ->
  free_of [710] (c07_scan (s_cfg s) i b (obs_of s) (combine es (map obs_of (run_trace es s)))) = true.
Proof.
  induction es as [|e r IH]; intros s i b Hri Hlb Hts; cbn [run_trace map combine]; [reflexivity|].
  rewrite c07_scan_cons, free_of_app. apply andb_true_iff; split.
  - apply c07_event_710; exact Hts.
  - rewrite <- (step_cfg (s_cfg s) s e eq_refl).
    apply IH; [apply step_ri | apply step_lb | apply step_ts]; assumption.
Qed.

(* C07, trace level: clause 710 never fails on any trace of the model *)
Theorem c07_verified_logout_resets : forall c es,
  free_of [710] (c07_check c (combine es (map obs_of (run_trace es (init_sess c))))) = true.
Proof.
  intros c es. unfold c07_check.
  apply (c07_scan_710 es (init_sess c)); [apply init_ri | apply init_lb | apply init_ts].
Qed.

(* ---------- witness: the guard fires in the plain, the recovering and the pending state ---------- *)
Definition lox_cfg : cfg :=
  {| c_role := Acceptor; c_begin := 2; c_sender := B "S"; c_target := B "T"; c_reset_on_logon := false;
     c_reset_on_logout := true; c_reset_on_disconnect := false; c_refresh_on_logon := false; c_chunk := 0; c_hb := 30;
     c_hb_override := false; c_skip_latency := true; c_max_latency := 120; c_disable_persist := false;
     c_last_seq_processed := false; c_in_cap := 1%nat; c_appl_ver := [] |}.
Definition lox_msg (t : bytes) (n : Z) : minput :=
  {| mi_type := t; mi_begin := B "FIX.4.2"; mi_sender := Some (B "T"); mi_target := Some (B "S"); mi_seq := FVal n;
     mi_possdup := FAbsent; mi_stime := FVal 0; mi_otime := FAbsent; mi_gapfill := FAbsent; mi_newseq := FAbsent;
     mi_beginseq := FAbsent; mi_endseq := FAbsent; mi_reset := FAbsent; mi_hbint := FVal 30; mi_testreq := None;
     mi_applver := None; mi_route := []; mi_body := []; mi_app := VAccept; mi_valid := VAccept; mi_refuse := [] |}.
Definition lox_run (es : list event) := combine es (map obs_of (run_trace es (init_sess lox_cfg))).

(* Logon; a Logout numbered 7 (too high: the number is not checked); both counters are 1 afterwards *)
Definition lox_plain : list event := [EConnect; EIncoming (lox_msg T_LOGON 1); EIncoming (lox_msg T_LOGOUT 7)].
(* Logon; application message 5 (gap: recovering); peer timeout (test request pending); Logout numbered 9 *)
Definition lox_pending : list event :=
  [EConnect; EIncoming (lox_msg T_LOGON 1); EIncoming (lox_msg (B "D") 5); ETimeout PeerTimeout; EIncoming (lox_msg T_LOGOUT 9)].
Lemma lox_traces_reset :
  map (fun o => (ob_st (snd o), ob_snd (snd o), ob_tgt (snd o), has_reset (ob_cbs (snd o)))) (lox_run lox_plain)
  = [(ShLogon, 1, 1, false); (ShInSession, 2, 2, false); (ShLatent, 1, 1, true)]
  /\ map (fun o => (sh_is_pending (ob_st (snd o)), sh_is_resend (ob_st (snd o)), ob_snd (snd o), ob_tgt (snd o), has_reset (ob_cbs (snd o))))
         (lox_run lox_pending)
     = [(false, false, 1, 1, false); (false, false, 2, 2, false); (false, true, 3, 2, false); (true, true, 4, 2, false);
        (false, false, 1, 1, true)]
  /\ c07_check lox_cfg (lox_run lox_plain) = [] /\ c07_check lox_cfg (lox_run lox_pending) = [].
Proof. vm_compute. repeat split; reflexivity. Qed.

(* the hypothesis "nothing buffered" of the step (and the guard of the clause) is needed: a Heartbeat numbered 2 is buffered
   when the Logout arrives; the store is reset, then handleDisconnectState handles the buffered Heartbeat in the state the
   session is still in: against the fresh store it is too high, a ResendRequest takes number 1 -- the next sender number is 2 *)
Definition lox_buffered : list event :=
  [EConnect; EIncoming (lox_msg T_LOGON 1); EArrive (lox_msg T_HEARTBEAT 2); EIncoming (lox_msg T_LOGOUT 2)].
Lemma lox_buffered_counters :
  map (fun o => (ob_st (snd o), ob_inbuf (snd o), ob_snd (snd o), ob_tgt (snd o), has_reset (ob_cbs (snd o)), wire_types (ob_wire (snd o))))
      (lox_run lox_buffered)
  = [(ShLogon, 0, 1, 1, false, []); (ShInSession, 0, 2, 2, false, [T_LOGON]); (ShInSession, 1, 2, 2, false, []);
     (ShLatent, 0, 2, 1, true, [T_LOGOUT; T_RESENDREQ])]
  /\ c07_check lox_cfg (lox_run lox_buffered) = [].
Proof. vm_compute. split; reflexivity. Qed.
