(* Session state machine: executable model written function by function after session.go, session_state.go,
   in_session.go, resend_state.go, logon_state.go, logout_state.go, pending_timeout.go, latent_state.go
   (DESIGN 4.4).  Go names in snake_case.  `s_st s` is `session.State` *during* a transition: setState assigns
   the new state only after the handler (and handleDisconnectState) has run. *)
From Coq Require Import String.
From Coq Require Import ZArith List Bool.
Open Scope string_scope.
Open Scope list_scope.
From QF Require Import Base.Bytes Session.Types.
Import ListNotations.
Open Scope Z_scope.

(* ---------- small helpers ---------- *)
Definition T_HEARTBEAT := B "0".
Definition T_TESTREQ := B "1".
Definition T_RESENDREQ := B "2".
Definition T_REJECT := B "3".
Definition T_SEQRESET := B "4".
Definition T_LOGOUT := B "5".
Definition T_LOGON := B "A".
Definition T_BUSREJECT := B "j".

Definition is_admin (t : bytes) : bool :=
  beq_bytes t T_HEARTBEAT || beq_bytes t T_LOGON || beq_bytes t T_TESTREQ || beq_bytes t T_RESENDREQ
  || beq_bytes t T_REJECT || beq_bytes t T_SEQRESET || beq_bytes t T_LOGOUT.

Fixpoint is_logged_on (st : sstate) : bool :=
  match st with
  | SInSession | SResend _ _ _ => true
  | SPending i => is_logged_on i
  | _ => false
  end.
Fixpoint is_connected (st : sstate) : bool :=
  match st with
  | SInSession | SResend _ _ _ | SLogon | SLogout => true
  | SPending i => is_connected i
  | _ => false
  end.

(* rejects as the handlers see them *)
Inductive rej :=
| RTooHigh (recv exp : Z)
| RTooLow (recv exp : Z)
| RBadBegin
| RRejectLogon
| RMsg (reason : Z) (ref_tag : option Z) (business : bool).

Definition R_required_missing (t : Z) := RMsg 1 (Some t) false.
Definition R_no_value (t : Z) := RMsg 4 (Some t) false.
Definition R_bad_format (t : Z) := RMsg 6 (Some t) false.
Definition R_cond_missing (t : Z) := RMsg 8 (Some t) true.     (* ConditionallyRequiredFieldMissing: business reject *)
Definition R_compid := RMsg 9 None false.
Definition R_sending_time := RMsg 10 None false.
Definition R_value_incorrect_notag := RMsg 5 None false.

Definition rej_of_verdict (v : verdict) : option rej :=
  match v with
  | VAccept => None
  | VReject r t b => Some (RMsg r t b)
  | VRejectLogon => Some RRejectLogon
  end.

(* sess updates *)
Definition upd_st (s : sess) (x : sstate) : sess :=
  {| s_cfg := s_cfg s; s_st := x; s_snd := s_snd s; s_tgt := s_tgt s; s_msgs := s_msgs s; s_to_send := s_to_send s;
     s_out_open := s_out_open s; s_in_open := s_in_open s; s_in_buf := s_in_buf s; s_sent_reset := s_sent_reset s;
     s_hb := s_hb s; s_pending_stop := s_pending_stop s; s_stopped := s_stopped s; s_cbs := s_cbs s;
     s_wire := s_wire s; s_closed := s_closed s |}.
Definition upd_store (s : sess) (snd tgt : Z) (msgs : list (Z * omsg)) : sess :=
  {| s_cfg := s_cfg s; s_st := s_st s; s_snd := snd; s_tgt := tgt; s_msgs := msgs; s_to_send := s_to_send s;
     s_out_open := s_out_open s; s_in_open := s_in_open s; s_in_buf := s_in_buf s; s_sent_reset := s_sent_reset s;
     s_hb := s_hb s; s_pending_stop := s_pending_stop s; s_stopped := s_stopped s; s_cbs := s_cbs s;
     s_wire := s_wire s; s_closed := s_closed s |}.
Definition upd_to_send (s : sess) (q : list omsg) : sess :=
  {| s_cfg := s_cfg s; s_st := s_st s; s_snd := s_snd s; s_tgt := s_tgt s; s_msgs := s_msgs s; s_to_send := q;
     s_out_open := s_out_open s; s_in_open := s_in_open s; s_in_buf := s_in_buf s; s_sent_reset := s_sent_reset s;
     s_hb := s_hb s; s_pending_stop := s_pending_stop s; s_stopped := s_stopped s; s_cbs := s_cbs s;
     s_wire := s_wire s; s_closed := s_closed s |}.
Definition upd_chan (s : sess) (out_open in_open : bool) (buf : list (option minput)) (closed : bool) : sess :=
  {| s_cfg := s_cfg s; s_st := s_st s; s_snd := s_snd s; s_tgt := s_tgt s; s_msgs := s_msgs s; s_to_send := s_to_send s;
     s_out_open := out_open; s_in_open := in_open; s_in_buf := buf; s_sent_reset := s_sent_reset s;
     s_hb := s_hb s; s_pending_stop := s_pending_stop s; s_stopped := s_stopped s; s_cbs := s_cbs s;
     s_wire := s_wire s; s_closed := closed |}.
Definition upd_flags (s : sess) (sent_reset : bool) (hb : Z) (pending_stop stopped : bool) : sess :=
  {| s_cfg := s_cfg s; s_st := s_st s; s_snd := s_snd s; s_tgt := s_tgt s; s_msgs := s_msgs s; s_to_send := s_to_send s;
     s_out_open := s_out_open s; s_in_open := s_in_open s; s_in_buf := s_in_buf s; s_sent_reset := sent_reset;
     s_hb := hb; s_pending_stop := pending_stop; s_stopped := stopped; s_cbs := s_cbs s;
     s_wire := s_wire s; s_closed := s_closed s |}.
Definition upd_logs (s : sess) (cbs : list cb) (wire : list omsg) : sess :=
  {| s_cfg := s_cfg s; s_st := s_st s; s_snd := s_snd s; s_tgt := s_tgt s; s_msgs := s_msgs s; s_to_send := s_to_send s;
     s_out_open := s_out_open s; s_in_open := s_in_open s; s_in_buf := s_in_buf s; s_sent_reset := s_sent_reset s;
     s_hb := s_hb s; s_pending_stop := s_pending_stop s; s_stopped := s_stopped s; s_cbs := cbs;
     s_wire := wire; s_closed := s_closed s |}.

Definition log_cb (s : sess) (c : cb) : sess := upd_logs s (c :: s_cbs s) (s_wire s).
Definition set_sent_reset (s : sess) (b : bool) : sess := upd_flags s b (s_hb s) (s_pending_stop s) (s_stopped s).
Definition set_hb (s : sess) (h : Z) : sess := upd_flags s (s_sent_reset s) h (s_pending_stop s) (s_stopped s).

(* memory store *)
Definition store_reset (s : sess) : sess := log_cb (upd_store s 1 1 []) CbStoreReset.
Definition incr_tgt (s : sess) : sess := upd_store s (s_snd s) (s_tgt s + 1) (s_msgs s).
Definition set_tgt (s : sess) (n : Z) : sess := upd_store s (s_snd s) n (s_msgs s).
Fixpoint lookup_msg (n : Z) (l : list (Z * omsg)) : option omsg :=
  match l with
  | [] => None
  | (k, m) :: r => if k =? n then Some m else lookup_msg n r
  end.

Definition cfg_of (s : sess) := s_cfg s.
Definition initiator (s : sess) : bool := match c_role (s_cfg s) with Initiator => true | Acceptor => false end.

(* ---------- send path (session.go) ---------- *)

(* the part of fillDefaultHeader that is observable beyond 8/49/56/52: LastMsgSeqNumProcessed *)
Definition default_hdr (s : sess) (in_reply : option minput) : list (Z * bytes) :=
  if c_last_seq_processed (s_cfg s) then
    match in_reply with
    | Some m => match mi_seq m with FVal n => [(369, itoa n)] | _ => [] end
    | None => [(369, itoa (s_tgt s - 1))]
    end
  else [].

Definition body_has_reset_y (body : list (Z * bytes)) : bool :=
  existsb (fun f => (fst f =? 141) && beq_bytes (snd f) (B "Y")) body.

Definition persist (s : sess) (m : omsg) : sess :=
  if c_disable_persist (s_cfg s) then upd_store s (s_snd s + 1) (s_tgt s) (s_msgs s)
  else upd_store s (s_snd s + 1) (s_tgt s) ((o_seq m, m) :: s_msgs s).

(* prepMessageForSend: returns None when ToApp refuses an application message *)
Definition prep (s : sess) (t : bytes) (hdr body : list (Z * bytes)) (in_reply : option minput) (app_ok : bool)
  : sess * option omsg :=
  let hdr' := hdr ++ default_hdr s in_reply in
  if is_admin t then
    let s1 := log_cb s (CbToAdmin t) in
    let s2 := if beq_bytes t T_LOGON && body_has_reset_y body then set_sent_reset (store_reset s1) true else s1 in
    let m := {| o_type := t; o_seq := s_snd s2; o_hdr := hdr'; o_body := body |} in
    (persist s2 m, Some m)
  else
    let s1 := log_cb s (CbToApp (s_snd s) false) in
    if app_ok then
      let m := {| o_type := t; o_seq := s_snd s1; o_hdr := hdr'; o_body := body |} in
      (persist s1 m, Some m)
    else (s1, None).

(* sendQueued: messageOut is a buffered channel the harness always drains, so a send fails only when it is nil *)
Definition send_queued (s : sess) : sess :=
  if s_out_open s then upd_to_send (upd_logs s (s_cbs s) (rev (s_to_send s) ++ s_wire s)) [] else s.
Definition drop_queued (s : sess) : sess := upd_to_send s [].
Definition enqueue (s : sess) (m : omsg) : sess := upd_to_send s (s_to_send s ++ [m]).

Definition queue_for_send (s : sess) (t : bytes) (hdr body : list (Z * bytes)) (in_reply : option minput) (app_ok : bool) : sess :=
  match prep s t hdr body in_reply app_ok with
  | (s1, Some m) => enqueue s1 m
  | (s1, None) => s1
  end.

Definition send_in_reply_to (s : sess) (t : bytes) (hdr body : list (Z * bytes)) (in_reply : option minput) : sess :=
  if negb (is_logged_on (s_st s)) then queue_for_send s t hdr body None true   (* queueForSend passes inReplyTo = nil *)
  else match prep s t hdr body in_reply true with
       | (s1, Some m) => send_queued (enqueue s1 m)
       | (s1, None) => s1
       end.
Definition send (s : sess) (t : bytes) (body : list (Z * bytes)) : sess := send_in_reply_to s t [] body None.

Definition drop_and_send_in_reply_to (s : sess) (t : bytes) (body : list (Z * bytes)) (in_reply : option minput) : sess :=
  match prep s t [] body in_reply true with
  | (s1, Some m) => send_queued (enqueue (drop_queued s1) m)
  | (s1, None) => s1
  end.

Definition drop_and_reset (s : sess) : sess := store_reset (drop_queued s).

(* EnqueueBytesAndSend: outside a logon what is queued is dropped first, as the run loop does (fix b6d3b39) *)
Definition enqueue_bytes_and_send (s : sess) (m : omsg) : sess :=
  send_queued (enqueue (if is_logged_on (s_st s) then s else drop_queued s) m).

Definition should_send_reset (s : sess) : bool :=
  let c := s_cfg s in
  (1 <=? c_begin c) && (c_reset_on_logon c || c_reset_on_disconnect c || c_reset_on_logout c)
  && (s_tgt s =? 1) && (s_snd s =? 1).

Definition logon_body (s : sess) (set_reset : bool) : list (Z * bytes) :=
  [(98, B "0"); (108, itoa (s_hb s))] ++ (if set_reset then [(141, B "Y")] else [])
  ++ (if Nat.ltb 0 (length (c_appl_ver (s_cfg s))) then [(1137, c_appl_ver (s_cfg s))] else []).

Definition send_logon_in_reply_to (s : sess) (set_reset : bool) (in_reply : option minput) : sess :=
  drop_and_send_in_reply_to s T_LOGON (logon_body s set_reset) in_reply.

Definition send_logout_in_reply_to (s : sess) (in_reply : option minput) : sess :=
  send_in_reply_to s T_LOGOUT [] [] in_reply.
(* initiateLogout: also arms the logout timer (wall clock; C20 `partial`) *)
Definition initiate_logout_in_reply_to (s : sess) (in_reply : option minput) : sess := send_logout_in_reply_to s in_reply.

(* Message.reverseRoute for the optional routing fields (49/56/8 are overwritten by fillDefaultHeader) *)
Definition route_lookup (m : minput) (t : Z) : option bytes :=
  match find (fun f => fst f =? t) (mi_route m) with
  | Some (_, v) => if Nat.eqb (length v) 0 then None else Some v
  | None => None
  end.
Definition reverse_route (m : minput) : list (Z * bytes) :=
  let cp (src dst : Z) := match route_lookup m src with Some v => [(dst, v)] | None => [] end in
  cp 50 57 ++ cp 142 143 ++ cp 57 50 ++ cp 143 142 ++ cp 115 128 ++ cp 116 129 ++ cp 128 115 ++ cp 129 116
  ++ (if beq_bytes (mi_begin m) (B "FIX.4.0") then [] else cp 144 145 ++ cp 145 144).

(* doReject *)
Definition do_reject (s : sess) (m : minput) (r : rej) : sess :=
  let '(reason, ref_tag, business) :=
    match r with
    | RMsg a b c => (a, b, c)
    | _ => (0, None, false)              (* RejectLogon and the sequence errors: RejectReason() = 0, no tag *)
    end in
  let b := c_begin (s_cfg s) in
  let ref_seq := match mi_seq m with FVal n => [(45, itoa n)] | _ => [] end in
  if 2 <=? b then
    if business then
      send_in_reply_to s T_BUSREJECT (reverse_route m) (ref_seq ++ [(372, mi_type m); (380, itoa reason)]) (Some m)
    else
      let r373 := if (11 <? reason) && (b =? 2) then [] else [(373, itoa reason)] in
      let r371 := match ref_tag with Some t => [(371, itoa t)] | None => [] end in
      send_in_reply_to s T_REJECT (reverse_route m) (ref_seq ++ r371 ++ [(372, mi_type m)] ++ r373) (Some m)
  else
    send_in_reply_to s T_REJECT (reverse_route m) ref_seq (Some m).

(* sendResendRequest: returns the resend state it computes (with a fresh, empty messageStash) *)
Definition send_resend_request (s : sess) (begin_seq end_seq : Z) : sess * sstate :=
  let chunk := c_chunk (s_cfg s) in
  let e0 := if chunk =? 0 then end_seq else begin_seq + chunk - 1 in
  let '(e, cur) := if e0 <? end_seq then (e0, e0)
                   else ((if c_begin (s_cfg s) <? 2 then 999999 else 0), 0) in
  let s1 := send s T_RESENDREQ [(7, itoa begin_seq); (16, itoa e)] in
  (s1, SResend (Some []) cur end_seq).   (* the stash map is created with the state (fix 8c52052) *)
Definition do_target_too_high (s : sess) (recv exp : Z) : sess * sstate := send_resend_request s exp (recv - 1).

(* generateSequenceReset (in_session.go) *)
Definition generate_sequence_reset (s : sess) (begin_seq end_seq : Z) (in_reply : minput) : sess :=
  let s1 := log_cb s (CbToAdmin T_SEQRESET) in
  let m := {| o_type := T_SEQRESET; o_seq := begin_seq;
              o_hdr := [(43, B "Y"); (122, B "T")] ++ default_hdr s (Some in_reply);
              o_body := [(36, itoa end_seq); (123, B "Y")] |} in
  enqueue_bytes_and_send s1 m.

(* ---------- verification (session.go) ---------- *)
Definition check_begin_string (s : sess) (m : minput) : option rej :=
  if beq_bytes (mi_begin m) (begin_string (c_begin (s_cfg s))) then None else Some RBadBegin.

Definition check_comp_id (s : sess) (m : minput) : option rej :=
  match mi_sender m, mi_target m with
  | None, _ => Some (R_required_missing 49)
  | _, None => Some (R_required_missing 56)
  | Some snd, Some tgt =>
      if Nat.eqb (length tgt) 0 then Some (R_no_value 56)
      else if Nat.eqb (length snd) 0 then Some (R_no_value 49)
      else if beq_bytes (c_sender (s_cfg s)) tgt && beq_bytes (c_target (s_cfg s)) snd then None
      else Some R_compid
  end.

Definition check_sending_time (s : sess) (m : minput) : option rej :=
  if c_skip_latency (s_cfg s) then None else
  match mi_stime m with
  | FAbsent => Some (R_required_missing 52)
  | FBad => Some (R_bad_format 52)
  | FVal d => let l := c_max_latency (s_cfg s) in
              if (l <=? d) || (d <=? - l) then Some R_sending_time else None
  end.

Definition check_target_too_low (s : sess) (m : minput) : option rej :=
  match mi_seq m with
  | FAbsent => Some (R_required_missing 34)
  | FBad => Some (R_bad_format 34)
  | FVal n => if n <? s_tgt s then Some (RTooLow n (s_tgt s)) else None
  end.
Definition check_target_too_high (s : sess) (m : minput) : option rej :=
  match mi_seq m with
  | FAbsent => Some (R_required_missing 34)
  | FBad => Some (R_bad_format 34)
  | FVal n => if s_tgt s <? n then Some (RTooHigh n (s_tgt s)) else None
  end.

(* verifyMsgAgainstAppImpl: Validator, then FromAdmin / FromApp *)
Definition verify_msg_against_app_impl (s : sess) (m : minput) : sess * option rej :=
  match rej_of_verdict (mi_valid m) with
  | Some r => (s, Some r)
  | None =>
      let s1 := if is_admin (mi_type m) then log_cb s (CbFromAdmin (mi_type m) (mi_seq m) (facts_of m))
                else log_cb s (CbFromApp (mi_seq m) (s_tgt s) (mi_app m) (facts_of m)) in
      (s1, rej_of_verdict (mi_app m))
  end.

Definition verify_select (s : sess) (m : minput) (check_high check_low check_app : bool) : sess * option rej :=
  match check_begin_string s m with Some r => (s, Some r) | None =>
  match check_comp_id s m with Some r => (s, Some r) | None =>
  match (match s_st s with SResend _ _ _ => None | _ => check_sending_time s m end) with Some r => (s, Some r) | None =>
  match (if check_low then check_target_too_low s m else None) with Some r => (s, Some r) | None =>
  match (if check_high then check_target_too_high s m else None) with Some r => (s, Some r) | None =>
  if check_app then verify_msg_against_app_impl s m else (s, None)
  end end end end end.
Definition verify (s : sess) (m : minput) := verify_select s m true true true.

(* ---------- handlers (in_session.go) ---------- *)

(* doTargetTooLow *)
Definition do_target_too_low (s : sess) (m : minput) : sess * sstate :=
  match mi_possdup m with
  | FBad => (do_reject s m (R_bad_format 43), SInSession)
  | FAbsent | FVal false => (initiate_logout_in_reply_to s None, SLogout)
  | FVal true =>
      match mi_otime m with
      | FAbsent => (do_reject s m (R_required_missing 122), SInSession)
      | FBad => (do_reject s m (R_bad_format 122), SInSession)
      | FVal o =>
          match mi_stime m with
          | FAbsent => (incr_tgt (do_reject s m (R_cond_missing 52)), SInSession)     (* processReject default branch *)
          | FBad => (incr_tgt (do_reject s m (R_bad_format 52)), SInSession)
          | FVal _ =>
              if 0 <? o then (initiate_logout_in_reply_to (do_reject s m R_sending_time) None, SLogout)
              else (s, SInSession)
          end
      end
  end.

Fixpoint unwrap_pending (st : sstate) : sstate :=
  match st with SPending i => unwrap_pending i | _ => st end.

Definition stash_insert (k : Z) (m : minput) (l : list (Z * minput)) : list (Z * minput) :=
  (k, m) :: filter (fun e => negb (fst e =? k)) l.

(* processReject *)
Definition process_reject (s : sess) (m : minput) (r : rej) : sess * sstate :=
  match r with
  | RTooHigh recv exp =>
      let '(s1, next) :=
        match unwrap_pending (s_st s) with
        | SResend st c e => (s, SResend st c e)
        | _ => do_target_too_high s recv exp
        end in
      match next with
      | SResend st c e =>
          let st' := match st with Some l => l | None => [] end in
          (s1, SResend (Some (stash_insert recv m st')) c e)
      | other => (s1, other)
      end
  | RTooLow _ _ => do_target_too_low s m
  | RBadBegin => (initiate_logout_in_reply_to s None, SLogout)
  | RMsg reason _ _ =>
      if (reason =? 9) || (reason =? 10)                 (* CompID problem, SendingTime accuracy problem *)
      then (initiate_logout_in_reply_to (do_reject s m r) None, SLogout)
      else (incr_tgt (do_reject s m r), SInSession)
  | RRejectLogon => (incr_tgt (do_reject s m r), SInSession)
  end.

(* session.handleLogon: Some error or success *)
Definition handle_logon (s : sess) (m : minput) : sess * option rej :=
  let c := s_cfg s in
  match (if c_begin c =? 5 then match mi_applver m with None => Some (R_cond_missing 1137) | Some _ => None end else None) with
  | Some r => (s, Some r)
  | None =>
    let reset0 := if initiator s then false else c_reset_on_logon c in
    match verify_msg_against_app_impl s m with
    | (s1, Some r) => (s1, Some r)
    | (s1, None) =>
      let flag := match mi_reset m with FVal true => true | _ => false end in
      let reset_store := reset0 || (flag && negb (s_sent_reset s1)) in
      let s2 := if reset_store then drop_and_reset s1 else s1 in
      match verify_select s2 m false true false with
      | (s3, Some r) => (s3, Some r)
      | (s3, None) =>
        let s4 :=
          if initiator s3 then s3 else
          let s3' := if c_hb_override c then s3 else match mi_hbint m with FVal h => set_hb s3 h | _ => s3 end in
          send_logon_in_reply_to s3' flag (Some m) in
        let s5 := log_cb (set_sent_reset s4 false) CbOnLogon in
        match check_target_too_high s5 m with
        | Some r => (s5, Some r)
        | None => (incr_tgt s5, None)
        end
      end
    end
  end.

(* inSession.handleLogout *)
Definition handle_logout (s : sess) (m : minput) : sess * sstate :=
  match verify_select s m false false true with
  | (s1, Some r) => process_reject s1 m r
  | (s1, None) =>
      let s2 := if is_logged_on (s_st s1) then send_logout_in_reply_to s1 (Some m) else s1 in
      if c_reset_on_logout (s_cfg s2) then (drop_and_reset s2, SLatent)
      else match check_target_too_low s2 m with
           | Some _ => (s2, SLatent)
           | None => match check_target_too_high s2 m with
                     | Some _ => (s2, SLatent)
                     | None => (incr_tgt s2, SLatent)
                     end
           end
  end.

(* inSession.handleTestRequest *)
Definition handle_test_request (s : sess) (m : minput) : sess * sstate :=
  match verify s m with
  | (s1, Some r) => process_reject s1 m r
  | (s1, None) =>
      let s2 := match mi_testreq m with
                | Some id => send_in_reply_to s1 T_HEARTBEAT [] [(112, id)] (Some m)
                | None => s1
                end in
      (incr_tgt s2, SInSession)
  end.

(* inSession.handleSequenceReset *)
Definition handle_sequence_reset (s : sess) (m : minput) : sess * sstate :=
  match mi_gapfill m with
  | FBad => process_reject s m (R_bad_format 123)
  | gf =>
      let g := match gf with FVal true => true | _ => false end in
      match verify_select s m g g true with
      | (s1, Some r) => process_reject s1 m r
      | (s1, None) =>
          match mi_newseq m with
          | FVal n =>
              if s_tgt s1 <? n then (set_tgt s1 n, SInSession)
              else if n <? s_tgt s1 then (do_reject s1 m R_value_incorrect_notag, SInSession)
              else (s1, SInSession)
          | _ => (s1, SInSession)
          end
      end
  end.

(* memoryStore.IterateMessages over [b, e]: stored numbers in range, ascending, each once (latest save wins) *)
Fixpoint insert_sorted (k : Z) (l : list Z) : list Z :=
  match l with
  | [] => [k]
  | x :: r => if k <? x then k :: l else if k =? x then l else x :: insert_sorted k r
  end.
Definition stored_keys_in (b e : Z) (msgs : list (Z * omsg)) : list Z :=
  fold_right (fun km acc => if (b <=? fst km) && (fst km <=? e) then insert_sorted (fst km) acc else acc) [] msgs.

(* inSession.resendMessages: loop state (seq_num, next_seq_num) *)
Fixpoint resend_loop (keys : list Z) (s : sess) (in_reply : minput) (seq_num next_seq : Z) : sess * Z * Z :=
  match keys with
  | [] => (s, seq_num, next_seq)
  | k :: r =>
      match lookup_msg k (s_msgs s) with
      | None => resend_loop r s in_reply seq_num next_seq
      | Some sm =>
          if is_admin (o_type sm) then resend_loop r s in_reply seq_num (k + 1)
          else
            let s1 := log_cb s (CbToApp k true) in                      (* session.resend -> ToApp *)
            if existsb (Z.eqb k) (mi_refuse in_reply) then resend_loop r s1 in_reply seq_num (k + 1)
            else
              let s2 := if seq_num =? k then s1 else generate_sequence_reset s1 seq_num k in_reply in
              let m := {| o_type := o_type sm; o_seq := k;
                          o_hdr := [(43, B "Y"); (122, B "T")] ++ filter (fun f => negb ((fst f =? 43) || (fst f =? 122))) (o_hdr sm);
                          o_body := o_body sm |} in
              resend_loop r (enqueue_bytes_and_send s2 m) in_reply (k + 1) (k + 1)
      end
  end.

Definition resend_messages (s : sess) (b e : Z) (in_reply : minput) : sess :=
  if c_disable_persist (s_cfg s) then (if e <? b then s else generate_sequence_reset s b (e + 1) in_reply)
  else
    let '(s1, seq_num, next_seq) := resend_loop (stored_keys_in b e (s_msgs s)) s in_reply b b in
    if seq_num =? next_seq then s1 else generate_sequence_reset s1 seq_num next_seq in_reply.

(* inSession.handleResendRequest *)
Definition handle_resend_request (s : sess) (m : minput) : sess * sstate :=
  match verify_select s m false false true with
  | (s1, Some r) => process_reject s1 m r
  | (s1, None) =>
      match mi_beginseq m with
      | FVal b =>
          match mi_endseq m with
          | FVal e0 =>
              let bs := c_begin (s_cfg s1) in
              let exp := s_snd s1 in
              let e := if ((2 <=? bs) && (e0 =? 0)) || ((bs <=? 2) && (e0 =? 999999)) || (exp <=? e0) then exp - 1 else e0 in
              let s2 := resend_messages s1 b e m in
              match check_target_too_low s2 m with
              | Some _ => (s2, SInSession)
              | None => match check_target_too_high s2 m with
                        | Some _ => (s2, SInSession)
                        | None => (incr_tgt s2, SInSession)
                        end
              end
          | _ => process_reject s1 m (R_required_missing 16)
          end
      | _ => process_reject s1 m (R_required_missing 7)
      end
  end.

(* inSession.FixMsgIn *)
Definition in_session_fix_msg_in (s : sess) (m : minput) : sess * sstate :=
  let t := mi_type m in
  if beq_bytes t T_LOGON then
    match handle_logon s m with
    | (s1, Some _) => (initiate_logout_in_reply_to s1 (Some m), SLogout)
    | (s1, None) => (s1, SInSession)
    end
  else if beq_bytes t T_LOGOUT then handle_logout s m
  else if beq_bytes t T_RESENDREQ then handle_resend_request s m
  else if beq_bytes t T_SEQRESET then handle_sequence_reset s m
  else if beq_bytes t T_TESTREQ then handle_test_request s m
  else match verify s m with
       | (s1, Some r) => process_reject s1 m r
       | (s1, None) => (incr_tgt s1, SInSession)
       end.

(* logonState.FixMsgIn; shutdownWithReason *)
Definition shutdown_with_reason (s : sess) (m : minput) (incr : bool) : sess * sstate :=
  let s1 := drop_and_send_in_reply_to s T_LOGOUT [] (Some m) in
  ((if incr then incr_tgt s1 else s1), SLatent).

Definition logon_state_fix_msg_in (s : sess) (m : minput) : sess * sstate :=
  if negb (beq_bytes (mi_type m) T_LOGON) then (s, SLatent)
  else match handle_logon s m with
       | (s1, None) => (s1, SInSession)
       | (s1, Some RRejectLogon) => shutdown_with_reason s1 m true
       | (s1, Some (RTooLow _ _)) => shutdown_with_reason s1 m false
       | (s1, Some (RTooHigh recv exp)) => do_target_too_high s1 recv exp
       | (s1, Some _) => (s1, SLatent)
       end.

(* logoutState.FixMsgIn *)
Definition logout_state_fix_msg_in (s : sess) (m : minput) : sess * sstate :=
  match in_session_fix_msg_in s m with
  | (s1, SLatent) => (s1, SLatent)
  | (s1, _) => (s1, SLogout)
  end.

(* resendState.FixMsgIn.  The Go messageStash map is shared between the receiver and the state returned by
   processReject when it is non-nil; when it is nil processReject allocates a new map that the receiver does not see. *)
Definition shared_stash (recv_stash : option (list (Z * minput))) (next : sstate) : option (list (Z * minput)) :=
  match recv_stash with
  | None => None
  | Some l => match next with SResend (Some l') _ _ => Some l' | _ => Some l end
  end.

Fixpoint stash_take (k : Z) (l : list (Z * minput)) : option (minput * list (Z * minput)) :=
  match l with
  | [] => None
  | (k', m) :: r => if k' =? k then Some (m, r)
                    else match stash_take k r with Some (x, r') => Some (x, (k', m) :: r') | None => None end
  end.

(* drain loop: deliver every kept message that is next in sequence *)
Fixpoint resend_drain (fuel : nat) (s : sess) (stash : list (Z * minput)) (next : sstate) : sess * list (Z * minput) * sstate * bool :=
  match fuel with
  | O => (s, stash, next, true)
  | S f =>
      match stash_take (s_tgt s) stash with
      | None => (s, stash, next, true)
      | Some (m, stash') =>
          let '(s1, next1) := in_session_fix_msg_in s m in
          if negb (is_logged_on next1) then (s1, stash', next1, false)
          else resend_drain f s1 stash' next1
      end
  end.

Definition resend_state_fix_msg_in (s : sess) (stash : option (list (Z * minput))) (cur_end range_end : Z) (m : minput) : sess * sstate :=
  let '(s1, next) := in_session_fix_msg_in s m in
  if negb (is_logged_on next) then (s1, next) else
  let st := shared_stash stash next in
  (* deliver the kept messages that are next in sequence first *)
  let l := match st with Some l => l | None => [] end in
  let '(s2, l', next2, still) := resend_drain (S (length l)) s1 l next in
  if negb still then (s2, next2) else
  let st' := match st with Some _ => Some l' | None => None end in
  if negb (cur_end =? 0) && (cur_end <? s_tgt s2) && (s_tgt s2 <=? range_end) then
    match send_resend_request s2 (s_tgt s2) range_end with
    | (s3, SResend _ c e) => (s3, SResend st' c e)
    | (s3, other) => (s3, other)
    end
  else
  match mi_gapfill m with
  | FBad => (s2, SLatent)                                  (* handleStateError *)
  | gf =>
    let g := match gf with FVal true => true | _ => false end in
    if g && negb (cur_end =? 0) && (cur_end =? s_tgt s2) then
      match send_resend_request s2 (s_tgt s2) range_end with
      | (s3, SResend _ c e) => (s3, SResend st' c e)
      | (s3, other) => (s3, other)
      end
    else if s_tgt s2 <=? range_end then (s2, SResend st' cur_end range_end)
    else (s2, next2)
  end.

(* State.FixMsgIn *)
Fixpoint state_fix_msg_in (st : sstate) (s : sess) (m : minput) : sess * sstate :=
  match st with
  | SLatent | SNotSessionTime => (s, st)
  | SLogon => logon_state_fix_msg_in s m
  | SLogout => logout_state_fix_msg_in s m
  | SInSession => in_session_fix_msg_in s m
  | SResend stash c e => resend_state_fix_msg_in s stash c e m
  | SPending i => state_fix_msg_in i s m
  end.

(* State.Timeout *)
Definition in_session_timeout (s : sess) (e : tevent) : sess * sstate :=
  match e with
  | NeedHeartbeat => (send s T_HEARTBEAT [], SInSession)
  | PeerTimeout => (send s T_TESTREQ [(112, B "TEST")], SPending SInSession)
  | _ => (s, SInSession)
  end.
Definition state_timeout (st : sstate) (s : sess) (e : tevent) : sess * sstate :=
  match st with
  | SLatent | SNotSessionTime => (s, st)
  | SLogon => match e with LogonTimeout => (s, SLatent) | _ => (s, SLogon) end
  | SLogout => match e with LogoutTimeout => (s, SLatent) | _ => (s, SLogout) end
  | SInSession => in_session_timeout s e
  | SResend _ _ _ =>
      match in_session_timeout s e with
      | (s1, SInSession) => (s1, st)
      | (s1, SPending _) => (s1, SPending st)
      | (s1, other) => (s1, other)
      end
  | SPending _ => match e with PeerTimeout => (s, SLatent) | _ => (s, st) end
  end.

(* State.Stop *)
Fixpoint state_stop (st : sstate) (s : sess) : sess * sstate :=
  match st with
  | SLatent | SNotSessionTime => (s, st)
  | SLogon => (s, SLatent)
  | SLogout => (s, SLogout)
  | SInSession | SResend _ _ _ => (initiate_logout_in_reply_to s None, SLogout)
  | SPending i => state_stop i s
  end.

(* ---------- stateMachine (session_state.go) ---------- *)

(* handleDisconnectState + onDisconnect, with `dr` = drainMessageIn.  What is buffered in messageIn is handled first, in the
   state the session is still in (fix: drain before notifying); if one of those frames has already disconnected the session,
   nothing more is done. *)
Definition handle_disconnect_state (dr : sess -> sess) (s : sess) : sess :=
  let s0 := dr s in
  if is_connected (s_st s) && negb (is_connected (s_st s0)) then s0 else
  let do_on_logout := is_logged_on (s_st s0)
                      || match s_st s0 with SLogout => true | SLogon => initiator s0 | _ => false end in
  let s1 := if do_on_logout then log_cb s0 CbOnLogout else s0 in
  let s2 := if c_reset_on_disconnect (s_cfg s1) then drop_and_reset s1 else s1 in
  let s3 := if s_out_open s2 then upd_chan s2 false (s_in_open s2) (s_in_buf s2) true else s2 in
  upd_chan s3 (s_out_open s3) false [] (s_closed s3).

Definition set_state_with (dr : sess -> sess) (s : sess) (next : sstate) : sess :=
  if negb (is_connected next) then
    let s1 := if is_connected (s_st s) then handle_disconnect_state dr s else s in
    let s2 := if s_pending_stop s1 then upd_flags s1 (s_sent_reset s1) (s_hb s1) true true else s1 in
    upd_st s2 next
  else upd_st s next.

(* stateMachine.Incoming (None = a frame that does not parse) *)
Definition incoming_with (dr : sess -> sess) (s : sess) (m : option minput) : sess :=
  if negb (is_connected (s_st s)) then s else
  match m with
  | None => s
  | Some mm => let '(s1, next) := state_fix_msg_in (s_st s) s mm in set_state_with dr s1 next
  end.

(* drainMessageIn: every buffered frame goes through Incoming while State still holds the old state *)
Fixpoint drain_message_in (fuel : nat) (s : sess) : sess :=
  match fuel with
  | O => s
  | S f =>
      if negb (s_in_open s) then s else
      match s_in_buf s with
      | [] => s
      | m :: r =>
          let s0 := upd_chan s (s_out_open s) (s_in_open s) r (s_closed s) in
          drain_message_in f (incoming_with (drain_message_in f) s0 m)
      end
  end.

Definition drain (s : sess) : sess := drain_message_in (S (length (s_in_buf s))) s.
Definition set_state (s : sess) (next : sstate) : sess := set_state_with drain s next.
Definition incoming (s : sess) (m : option minput) : sess := incoming_with drain s m.

(* stateMachine.Connect via onAdmin(connect) *)
Definition connect (s : sess) : sess :=
  if is_connected (s_st s) then s else
  let s0 := set_sent_reset (upd_chan s true true [] (s_closed s)) false in
  if negb (initiator s0) then set_state s0 SLogon
  else
    let s1 := if c_reset_on_logon (s_cfg s0) then drop_and_reset s0 else s0 in
    let s2 := send_logon_in_reply_to s1 (should_send_reset s1) None in
    set_state s2 SLogon.

Definition step_event (s : sess) (e : event) : sess :=
  match e with
  | EConnect => connect s
  | EArrive m =>
      if s_in_open s && Nat.ltb (length (s_in_buf s)) (c_in_cap (s_cfg s))
      then upd_chan s (s_out_open s) (s_in_open s) (s_in_buf s ++ [Some m]) (s_closed s) else s
  | EDeliver =>
      if negb (s_in_open s) then s else
      match s_in_buf s with
      | [] => s
      | m :: r => incoming (upd_chan s (s_out_open s) (s_in_open s) r (s_closed s)) m
      end
  | EIncoming m => incoming s (Some m)
  | EGarbage => incoming s None
  | EInClosed => if is_connected (s_st s) then set_state s SLatent else s
  | ETimeout t => let '(s1, next) := state_timeout (s_st s) s t in set_state s1 next
  | EAppSend t body ok => queue_for_send s t [] body None ok
  | EFlush => if is_logged_on (s_st s) then send_queued s else drop_queued s
  | EStop =>
      let s0 := upd_flags s (s_sent_reset s) (s_hb s) true (s_stopped s) in
      let '(s1, next) := state_stop (s_st s0) s0 in set_state s1 next
  | EResetSeqTime => if is_connected (s_st s) then send_logon_in_reply_to s true None else s
  end.

(* one observed step: the logs are cleared first, so `s_cbs`, `s_wire`, `s_closed` of the result belong to this event *)
Definition clear_logs (s : sess) : sess := upd_chan (upd_logs s [] []) (s_out_open s) (s_in_open s) (s_in_buf s) false.
Definition step (s : sess) (e : event) : sess := step_event (clear_logs s) e.

Definition run (es : list event) (s : sess) : sess := fold_left step es s.

(* trace of states visited: s0, step s0 e1, ... *)
Fixpoint run_trace (es : list event) (s : sess) : list sess :=
  match es with
  | [] => []
  | e :: r => let s' := step s e in s' :: run_trace r s'
  end.
