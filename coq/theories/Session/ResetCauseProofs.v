(* C07 clause 705 (Session/SpecCause.v): a store reset never happens without a cause, on every trace of the model.
   Instance P = "not a store reset" of the closure NewCbProofs.v: with no reset option configured, an event that is not a
   cause logs no CbStoreReset -- through every handler, the drain of the kept messages (never a Logon: invariant TS), the
   timers, connect, disconnect and stop, AND through drainMessageIn (section Drain of NewCbProofs.v: the buffered frames are
   handled first, in the state the session is still in) as long as no buffered frame is a Logon carrying 141=Y that the
   validator and the application accept, which the scan tracks (`pend`, invariant BP).  A Logon carrying 141=Y that the
   validator rejects or that FromAdmin refuses is NOT a cause (is_reset_logon requires mi_valid = mi_app = VAccept):
   handleLogon runs verifyMsgAgainstAppImpl before the reset decision (side condition `accepted` of NewCbProofs.v). *)
From Coq Require Import String.
From Coq Require Import ZArith List Bool Lia.
From QF Require Import Base.Bytes Session.Types Session.Model Session.Spec Session.SpecCause Session.C01Proofs Session.LocalProofs
  Session.FrameProofs Session.TraceProofs Session.RecoveryProofs Session.ReactionProofs Session.TgProofs Session.MonoProofs
  Session.ResendInvProofs Session.NoReqProofs Session.ChunkProofs Session.TjProofs Session.KeptProofs Session.ConnectProofs
  Session.LogonProofs Session.StashTypeProofs Session.NewCbProofs.
Import ListNotations.
Open Scope list_scope.
Open Scope Z_scope.

Definition is_store_reset (x : cb) : bool := match x with CbStoreReset => true | _ => false end.
Definition P705 (x : cb) : bool := negb (is_store_reset x).

Lemma p705_toadmin : forall t, P705 (CbToAdmin t) = true. Proof. reflexivity. Qed.
Lemma p705_toapp : forall n b, P705 (CbToApp n b) = true. Proof. reflexivity. Qed.
Lemma p705_msg m : msg_ok P705 m. Proof. split; [reflexivity | intros tg; reflexivity]. Qed.

Lemma p705_m_ok_typed m : type_ok m = true -> m_ok P705 m.
Proof. intros H. split; [apply p705_msg|]. right; left. apply type_ok_not_logon; exact H. Qed.

Lemma ts_all_ok_705 st : TSst st -> all_ok P705 (stash_of_st st).
Proof. intros H k x Hx. apply p705_m_ok_typed. exact (H k x Hx). Qed.

(* a message that is not an accepted Logon carrying 141=Y: processing it resets nothing.  A Logon carrying 141=Y that the
   validator rejects or FromAdmin refuses is in this class: handleLogon decides about the reset after verifyMsgAgainstAppImpl *)
Lemma not_reset_logon_m_ok m : is_reset_logon m = false -> m_ok P705 m.
Proof.
  intros H. split; [apply p705_msg|]. right. unfold is_reset_logon in H. unfold reset_flag, accepted.
  destruct (beq_bytes (mi_type m) T_LOGON); [right | left; reflexivity].
  cbn [andb] in H. rewrite <- andb_assoc in H. exact H.
Qed.

Lemma cause_ev_ok e : reset_cause e = false -> ev_ok P705 e.
Proof.
  destruct e; cbn [reset_cause ev_ok]; intros H; try exact I; try discriminate H.
  - apply not_reset_logon_m_ok. exact H.
  - right. exact H.
Qed.

(* the buffered frames: none is an accepted Logon carrying 141=Y *)
Definition buf_clean (l : list (option minput)) : Prop := forall mm, In (Some mm) l -> is_reset_logon mm = false.

Lemma buf_clean_ok l : buf_clean l -> buf_ok P705 l.
Proof. intros H mm Hm. apply not_reset_logon_m_ok. exact (H mm Hm). Qed.

(* clause 705 as a step: without a reset option, an event that is not a cause resets nothing -- whatever is buffered, as long
   as no buffered frame is a Logon carrying 141=Y (the buffered frames are handled by EDeliver, and by handleDisconnectState
   before it disconnects) *)
Theorem step_no_reset_without_cause s e :
  TS s -> buf_clean (s_in_buf s) -> no_reset_option (s_cfg s) = true -> reset_cause e = false ->
  ~ In CbStoreReset (s_cbs (step s e)).
Proof.
  intros Hts Hb Hn Hc Hin. unfold step in Hin.
  assert (H : Ncb P705 (clear_logs s) (step_event (clear_logs s) e)).
  { apply (ncb_step_event_buffered P705 p705_toadmin p705_toapp eq_refl eq_refl);
      [right; exact Hn | apply ts_all_ok_705; exact Hts | apply buf_clean_ok; exact Hb | apply cause_ev_ok; exact Hc | apply ncb_refl]. }
  destruct (H CbStoreReset Hin) as [Hf|Hp]; [exact Hf | discriminate Hp].
Qed.

Lemma has_reset_in s : has_reset (ob_cbs (obs_of s)) = true -> In CbStoreReset (s_cbs s).
Proof.
  intros H. apply existsb_exists in H as (x & Hx & Hp). destruct x; try discriminate Hp.
  apply in_rev. exact Hx.
Qed.

(* the scan's `pend` is sound: when it is false no Logon carrying 141=Y sits in the buffer *)
Definition BP (s : sess) (pend : bool) : Prop := pend = false -> buf_clean (s_in_buf s).

Definition pend_next (e : event) (o : obs) (pend : bool) : bool := if ob_inbuf o =? 0 then false else pend || arrives_reset e.

Lemma step_bp s e pend : Boundary s -> BP s pend -> BP (step s e) (pend_next e (obs_of (step s e)) pend).
Proof.
  intros Hb Hbp Hp mm Hm. unfold pend_next in Hp.
  change (ob_inbuf (obs_of (step s e))) with (Z.of_nat (length (s_in_buf (step s e)))) in Hp.
  destruct (Z.of_nat (length (s_in_buf (step s e))) =? 0) eqn:E0.
  { apply len0 in E0. rewrite E0 in Hm. destruct Hm. }
  apply orb_false_elim in Hp as [Hp Ha].
  destruct (step_in_buf s e Hb) as [H|[H|[(m & -> & H)|(_ & m & H)]]].
  - rewrite H in Hm. destruct Hm.
  - rewrite H in Hm. exact (Hbp Hp mm Hm).
  - rewrite H in Hm. apply in_app_or in Hm as [Hm|[Hm|[]]]; [exact (Hbp Hp mm Hm)|]. inv Hm. exact Ha.
  - apply (Hbp Hp mm). rewrite H. right. exact Hm.
Qed.

Lemma c07_cause_event : forall i s e pend, TS s -> BP s pend ->
  (if has_reset (ob_cbs (obs_of (step s e))) && no_reset_option (s_cfg s) && negb pend && negb (reset_cause e)
   then [(i, 705)] else []) = ([] : list failure).
Proof.
  intros i s e pend Hts Hbp.
  match goal with |- (if ?x then _ else _) = [] => destruct x eqn:Ec; [|reflexivity] end.
  exfalso.
  apply andb_true_iff in Ec as [Ec E4]. apply andb_true_iff in Ec as [Ec E3]. apply andb_true_iff in Ec as [E1 E2].
  apply negb_true_iff in E3. apply negb_true_iff in E4.
  exact (step_no_reset_without_cause s e Hts (Hbp E3) E2 E4 (has_reset_in _ E1)).
Qed.

Lemma c07_cause_scan_ok : forall es s i pend, Boundary s -> RI s -> LB s -> TS s -> BP s pend ->
  c07_cause_scan (s_cfg s) i pend (combine es (map obs_of (run_trace es s))) = [].
Proof.
  induction es as [|e r IH]; intros s i pend Hb Hri Hlb Hts Hbp; cbn [run_trace map combine c07_cause_scan]; [reflexivity|].
  rewrite (c07_cause_event i s e pend Hts Hbp). cbn [app].
  rewrite <- (step_cfg (s_cfg s) s e eq_refl).
  apply IH; [apply step_boundary | apply step_ri | apply step_lb | apply step_ts | exact (step_bp s e pend Hb Hbp)]; assumption.
Qed.

(* C07, trace level: clause 705 never fails -- on every trace of the model the predicate reports nothing at all *)
Theorem c07_no_reset_without_cause : forall c es,
  c07_cause_check c (combine es (map obs_of (run_trace es (init_sess c)))) = [].
Proof.
  intros c es. unfold c07_cause_check.
  apply (c07_cause_scan_ok es (init_sess c)); [apply init_boundary | apply init_ri | apply init_lb | apply init_ts | intros _ mm []].
Qed.

(* the code is not produced by c07_check either (its scan has no clause 705) *)
Lemma c07_scan_no_705 : forall tr c i b prev, free_of [705] (c07_scan c i b prev tr) = true.
Proof.
  induction tr as [|[e o] r IH]; intros c i b prev; [reflexivity|].
  cbn [c07_scan]. rewrite !free_of_app. repeat (apply andb_true_iff; split); try apply IH; free_rest.
Qed.
Lemma c07_check_no_705 : forall c es,
  free_of [705] (c07_check c (combine es (map obs_of (run_trace es (init_sess c))))) = true.
Proof. intros c es. apply c07_scan_no_705. Qed.

(* ---------- witnesses ---------- *)
Definition rcx_cfg (r : role) : cfg :=
  {| c_role := r; c_begin := 2; c_sender := B "S"; c_target := B "T"; c_reset_on_logon := false;
     c_reset_on_logout := false; c_reset_on_disconnect := false; c_refresh_on_logon := false; c_chunk := 0; c_hb := 30;
     c_hb_override := false; c_skip_latency := true; c_max_latency := 120; c_disable_persist := false;
     c_last_seq_processed := false; c_in_cap := 2%nat; c_appl_ver := [] |}.
Definition rcx_msg (t : bytes) (n : Z) (reset : fres bool) : minput :=
  {| mi_type := t; mi_begin := B "FIX.4.2"; mi_sender := Some (B "T"); mi_target := Some (B "S");
     mi_seq := FVal n; mi_possdup := FAbsent; mi_stime := FVal 0; mi_otime := FAbsent; mi_gapfill := FAbsent;
     mi_newseq := FAbsent; mi_beginseq := FAbsent; mi_endseq := FAbsent; mi_reset := reset; mi_hbint := FVal 30;
     mi_testreq := None; mi_applver := None; mi_route := []; mi_body := []; mi_app := VAccept; mi_valid := VAccept;
     mi_refuse := [] |}.
Definition rcx_run (c : cfg) (es : list event) := combine es (map obs_of (run_trace es (init_sess c))).

(* the guard is exercised: a session without reset options logs on, exchanges messages, loses the connection, reconnects
   (the counters persist: 3 / 3), and is reset exactly in the events that are causes: the peer's Logon carrying 141=Y
   (numbered 3: too high against the fresh store, a ResendRequest takes number 2), the ResetSeqTime crossing, an
   application-sent reset Logon *)
Definition rcx_trace : list event :=
  [EConnect; EIncoming (rcx_msg T_LOGON 1 FAbsent); EIncoming (rcx_msg T_HEARTBEAT 2 FAbsent); ETimeout NeedHeartbeat; EInClosed;
   EConnect; EIncoming (rcx_msg T_LOGON 3 (FVal true)); EResetSeqTime; EAppSend T_LOGON [(141, B "Y")] true].
Lemma rcx_trace_resets :
  map (fun o => (ob_snd (snd o), ob_tgt (snd o), has_reset (ob_cbs (snd o)), reset_cause (fst o))) (rcx_run (rcx_cfg Acceptor) rcx_trace)
  = [(1, 1, false, false); (2, 2, false, false); (2, 3, false, false); (3, 3, false, false); (3, 3, false, false);
     (3, 3, false, false); (3, 1, true, true); (2, 1, true, true); (2, 1, true, true)]
  /\ c07_cause_check (rcx_cfg Acceptor) (rcx_run (rcx_cfg Acceptor) rcx_trace) = [].
Proof. vm_compute. split; reflexivity. Qed.

(* a reset Logon that is refused is not a cause and resets nothing.  On three connections: FromAdmin answers RejectLogon to a
   directly processed Logon carrying 141=Y; the validator rejects one that is delivered from the buffer; FromAdmin refuses
   one that handleDisconnectState finds in the buffer.  reset_cause / arrives_reset are false throughout (`pend` stays
   false: every event is judged), and the store is never reset *)
Definition rcx_refused (n : Z) (app valid : verdict) : minput :=
  {| mi_type := T_LOGON; mi_begin := B "FIX.4.2"; mi_sender := Some (B "T"); mi_target := Some (B "S");
     mi_seq := FVal n; mi_possdup := FAbsent; mi_stime := FVal 0; mi_otime := FAbsent; mi_gapfill := FAbsent;
     mi_newseq := FAbsent; mi_beginseq := FAbsent; mi_endseq := FAbsent; mi_reset := FVal true; mi_hbint := FVal 30;
     mi_testreq := None; mi_applver := None; mi_route := []; mi_body := []; mi_app := app; mi_valid := valid;
     mi_refuse := [] |}.
Definition rcx_refused_trace : list event :=
  [EConnect; EIncoming (rcx_msg T_LOGON 1 FAbsent); EIncoming (rcx_msg T_HEARTBEAT 2 FAbsent); EInClosed;
   EConnect; EArrive (rcx_refused 3 VAccept (VReject 5 (Some 141) false)); EDeliver;
   EConnect; EArrive (rcx_refused 3 VRejectLogon VAccept); EInClosed].
Lemma rcx_refused_trace_keeps :
  map (fun o => (ob_inbuf (snd o), has_reset (ob_cbs (snd o)), reset_cause (fst o), arrives_reset (fst o)))
      (rcx_run (rcx_cfg Acceptor) rcx_refused_trace)
  = [(0, false, false, false); (0, false, false, false); (0, false, false, false); (0, false, false, false);
     (0, false, false, false); (1, false, false, false); (0, false, false, false); (0, false, false, false);
     (1, false, false, false); (0, false, false, false)]
  /\ c07_cause_check (rcx_cfg Acceptor) (rcx_run (rcx_cfg Acceptor) rcx_refused_trace) = [].
Proof. vm_compute. split; reflexivity. Qed.
(* ... directly processed in the logon state as well: RejectLogon from FromAdmin, the store keeps its counters (3 / 3 before,
   the refused Logon consumes number 3) *)
Definition rcx_refused_direct_trace : list event :=
  [EConnect; EIncoming (rcx_msg T_LOGON 1 FAbsent); EIncoming (rcx_msg T_HEARTBEAT 2 FAbsent); ETimeout NeedHeartbeat; EInClosed;
   EConnect; EIncoming (rcx_refused 3 VRejectLogon VAccept)].
Lemma rcx_refused_direct_trace_keeps :
  map (fun o => (ob_snd (snd o), ob_tgt (snd o), has_reset (ob_cbs (snd o)), reset_cause (fst o)))
      (rcx_run (rcx_cfg Acceptor) rcx_refused_direct_trace)
  = [(1, 1, false, false); (2, 2, false, false); (2, 3, false, false); (3, 3, false, false); (3, 3, false, false);
     (3, 3, false, false); (4, 4, false, false)]
  /\ c07_cause_check (rcx_cfg Acceptor) (rcx_run (rcx_cfg Acceptor) rcx_refused_direct_trace) = [].
Proof. vm_compute. split; reflexivity. Qed.

(* buffered frames are covered: two Heartbeats are buffered; one is delivered (EDeliver), the other is handled by
   handleDisconnectState when the connection is lost (EInClosed) -- the predicate looks at both events (pend is false) and
   nothing is reset; the counters persist *)
Definition rcx_drain_trace : list event :=
  [EConnect; EIncoming (rcx_msg T_LOGON 1 FAbsent); EArrive (rcx_msg T_HEARTBEAT 2 FAbsent); EArrive (rcx_msg T_HEARTBEAT 3 FAbsent);
   EDeliver; EInClosed].
Lemma rcx_drain_trace_keeps :
  map (fun o => (ob_inbuf (snd o), ob_snd (snd o), ob_tgt (snd o), has_reset (ob_cbs (snd o)))) (rcx_run (rcx_cfg Acceptor) rcx_drain_trace)
  = [(0, 1, 1, false); (0, 2, 2, false); (1, 2, 2, false); (2, 2, 2, false); (1, 2, 3, false); (0, 2, 4, false)]
  /\ c07_cause_check (rcx_cfg Acceptor) (rcx_run (rcx_cfg Acceptor) rcx_drain_trace) = [].
Proof. vm_compute. split; reflexivity. Qed.

(* `pend` delimits the statement: a Logon carrying 141=Y that sits in the inbound buffer is processed by a later EDeliver
   -- or, since the repair of F17, by handleDisconnectState in the logon state when the connection is lost --, events that
   are not themselves causes; the predicate does not speak about those events (pend is true) *)
Definition rcx_buffered_trace : list event := [EConnect; EArrive (rcx_msg T_LOGON 1 (FVal true)); EDeliver].
Lemma rcx_buffered_trace_resets :
  map (fun o => (ob_inbuf (snd o), has_reset (ob_cbs (snd o)), reset_cause (fst o))) (rcx_run (rcx_cfg Acceptor) rcx_buffered_trace)
  = [(0, false, false); (1, false, false); (0, true, false)]
  /\ c07_cause_check (rcx_cfg Acceptor) (rcx_run (rcx_cfg Acceptor) rcx_buffered_trace) = [].
Proof. vm_compute. split; reflexivity. Qed.
Definition rcx_buffered_closed_trace : list event := [EConnect; EArrive (rcx_msg T_LOGON 1 (FVal true)); EInClosed].
Lemma rcx_buffered_closed_trace_resets :
  map (fun o => (ob_inbuf (snd o), ob_st (snd o), has_reset (ob_cbs (snd o)), reset_cause (fst o)))
      (rcx_run (rcx_cfg Acceptor) rcx_buffered_closed_trace)
  = [(0, ShLogon, false, false); (1, ShLogon, false, false); (0, ShLatent, true, false)]
  /\ c07_cause_check (rcx_cfg Acceptor) (rcx_run (rcx_cfg Acceptor) rcx_buffered_closed_trace) = [].
Proof. vm_compute. split; reflexivity. Qed.
