(* Which states a message handler can return: never the logon state, never "test request pending", never notSessionTime.
   (Used by C07 clause 709: the logon state is entered by a connect only; and by C20 clause 2005: processing any message
   cancels the pending disconnect.) *)
From Coq Require Import String.
From Coq Require Import ZArith List Bool Lia.
From QF Require Import Base.Bytes Session.Types Session.Model Session.Spec Session.FrameProofs.
Import ListNotations.
Open Scope list_scope.
Open Scope Z_scope.

Definition hstate (st : sstate) : bool :=
  match st with SLogon | SPending _ | SNotSessionTime => false | _ => true end.

Lemma hs_send_resend_request s b e s1 st : send_resend_request s b e = (s1, st) -> hstate st = true.
Proof. intros E. unfold send_resend_request in E. cbv zeta in E. brk_in E; inv E; reflexivity. Qed.

Lemma hs_do_target_too_low s m s1 st : do_target_too_low s m = (s1, st) -> hstate st = true.
Proof. intros E. unfold do_target_too_low in E. brk_in E; inv E; reflexivity. Qed.

Lemma hs_process_reject s m r s1 st : process_reject s m r = (s1, st) -> hstate st = true.
Proof.
  intros E. destruct r as [recv ex|recv ex| | |reason tag bus]; cbn [process_reject] in E.
  - destruct (unwrap_pending (s_st s)) as [| | | | | a b c | j].
    6: { inv E. reflexivity. }
    all: destruct (do_target_too_high s recv ex) as [x nx] eqn:Ed; unfold do_target_too_high in Ed;
      pose proof (hs_send_resend_request _ _ _ _ _ Ed) as Hn; destruct nx; inv E; try reflexivity; try discriminate Hn.
  - eapply hs_do_target_too_low; exact E.
  - inv E. reflexivity.
  - inv E. reflexivity.
  - destruct ((reason =? 9) || (reason =? 10)); inv E; reflexivity.
Qed.

Lemma hs_handle_logout s m s1 st : handle_logout s m = (s1, st) -> hstate st = true.
Proof.
  intros E. unfold handle_logout in E.
  destruct (verify_select s m false false true) as [x [r|]]; [eapply hs_process_reject; exact E|].
  brk_in E; inv E; reflexivity.
Qed.
Lemma hs_handle_test_request s m s1 st : handle_test_request s m = (s1, st) -> hstate st = true.
Proof.
  intros E. unfold handle_test_request in E.
  destruct (verify s m) as [x [r|]]; [eapply hs_process_reject; exact E | inv E; reflexivity].
Qed.
Lemma hs_handle_sequence_reset s m s1 st : handle_sequence_reset s m = (s1, st) -> hstate st = true.
Proof.
  intros E. unfold handle_sequence_reset in E.
  destruct (mi_gapfill m) as [| |g]; [| eapply hs_process_reject; exact E |].
  - destruct (verify_select s m false false true) as [x [r|]]; [eapply hs_process_reject; exact E|].
    brk_in E; inv E; reflexivity.
  - match type of E with context [verify_select s m ?a ?b true] => destruct (verify_select s m a b true) as [x [r|]] end;
      [eapply hs_process_reject; exact E|].
    brk_in E; inv E; reflexivity.
Qed.
Lemma hs_handle_resend_request s m s1 st : handle_resend_request s m = (s1, st) -> hstate st = true.
Proof.
  intros E. unfold handle_resend_request in E.
  destruct (verify_select s m false false true) as [x [r|]]; [eapply hs_process_reject; exact E|].
  destruct (mi_beginseq m) as [| |b]; try (eapply hs_process_reject; exact E).
  destruct (mi_endseq m) as [| |e0]; try (eapply hs_process_reject; exact E).
  cbv zeta in E. brk_in E; inv E; reflexivity.
Qed.

Lemma hs_in_session s m s1 st : in_session_fix_msg_in s m = (s1, st) -> hstate st = true.
Proof.
  intros E. unfold in_session_fix_msg_in in E.
  destruct (beq_bytes (mi_type m) T_LOGON).
  { destruct (handle_logon s m) as [x [r|]]; inv E; reflexivity. }
  destruct (beq_bytes (mi_type m) T_LOGOUT); [eapply hs_handle_logout; exact E|].
  destruct (beq_bytes (mi_type m) T_RESENDREQ); [eapply hs_handle_resend_request; exact E|].
  destruct (beq_bytes (mi_type m) T_SEQRESET); [eapply hs_handle_sequence_reset; exact E|].
  destruct (beq_bytes (mi_type m) T_TESTREQ); [eapply hs_handle_test_request; exact E|].
  destruct (verify s m) as [x [r|]]; [eapply hs_process_reject; exact E | inv E; reflexivity].
Qed.

Lemma hs_logon_state s m s1 st : logon_state_fix_msg_in s m = (s1, st) -> hstate st = true.
Proof.
  intros E. unfold logon_state_fix_msg_in in E.
  destruct (negb (beq_bytes (mi_type m) T_LOGON)); [inv E; reflexivity|].
  destruct (handle_logon s m) as [x [r|]]; [|inv E; reflexivity].
  destruct r as [recv ex|recv ex| | |reason tag bus]; try (unfold shutdown_with_reason in E; inv E; reflexivity).
  unfold do_target_too_high in E. eapply hs_send_resend_request; exact E.
Qed.

Lemma hs_logout_state s m s1 st : logout_state_fix_msg_in s m = (s1, st) -> hstate st = true.
Proof.
  intros E. unfold logout_state_fix_msg_in in E. destruct (in_session_fix_msg_in s m) as [x nx].
  destruct nx; inv E; reflexivity.
Qed.

Lemma hs_resend_drain : forall fuel s l next s2 l' next2 still,
  resend_drain fuel s l next = (s2, l', next2, still) -> hstate next = true -> hstate next2 = true.
Proof.
  induction fuel as [|f IH]; intros s l next s2 l' next2 still E Hn; cbn [resend_drain] in E.
  - inv E. exact Hn.
  - destruct (stash_take (s_tgt s) l) as [[m l1]|]; [|inv E; exact Hn].
    destruct (in_session_fix_msg_in s m) as [s1 n1] eqn:Ei.
    pose proof (hs_in_session _ _ _ _ Ei) as H1.
    destruct (negb (is_logged_on n1)); [inv E; exact H1|]. eapply IH; eassumption.
Qed.

Lemma hs_resend_state s stash ce re m s1 st : resend_state_fix_msg_in s stash ce re m = (s1, st) -> hstate st = true.
Proof.
  intros E. unfold resend_state_fix_msg_in in E.
  destruct (in_session_fix_msg_in s m) as [s2 n2] eqn:E2.
  pose proof (hs_in_session _ _ _ _ E2) as H2.
  destruct (negb (is_logged_on n2)); [inv E; exact H2|].
  match type of E with context [resend_drain ?f ?a ?b ?c] => destruct (resend_drain f a b c) as [[[s3 l3] n3] still] eqn:E3 end.
  pose proof (hs_resend_drain _ _ _ _ _ _ _ _ E3 H2) as H3.
  destruct (negb still); [inv E; exact H3|].
  assert (Hreq : forall x b e y ny, (match send_resend_request s3 b e with (s4, SResend _ c0 e0) => (s4, SResend x c0 e0) | (s4, other) => (s4, other) end) = (y, ny) ->
            hstate ny = true).
  { intros x b e y ny Eq. destruct (send_resend_request s3 b e) as [s4 n4] eqn:Er.
    pose proof (hs_send_resend_request _ _ _ _ _ Er) as H4. destruct n4; inv Eq; try reflexivity; try discriminate H4. }
  match type of E with (if ?c then _ else _) = _ => destruct c end; [eapply Hreq; exact E|].
  destruct (mi_gapfill m) as [| |g]; [| inv E; reflexivity |].
  - cbn [andb] in E. destruct (s_tgt s3 <=? re); inv E; [reflexivity | exact H3].
  - match type of E with (if ?c then _ else _) = _ => destruct c end; [eapply Hreq; exact E|].
    destruct (s_tgt s3 <=? re); inv E; [reflexivity | exact H3].
Qed.

(* every handler of a connected state returns a handler state *)
Lemma hs_state_fix_msg_in : forall st s m s1 next,
  is_connected st = true -> state_fix_msg_in st s m = (s1, next) -> hstate next = true.
Proof.
  induction st as [| | | | | stash c e | j IH]; intros s m s1 next Hc E; cbn [state_fix_msg_in] in E; cbn in Hc; try discriminate.
  - eapply hs_logon_state; exact E.
  - eapply hs_logout_state; exact E.
  - eapply hs_in_session; exact E.
  - eapply hs_resend_state; exact E.
  - eapply IH; eassumption.
Qed.

Lemma hstate_not_logon st : hstate st = true -> st <> SLogon.
Proof. intros H ->. discriminate H. Qed.
Lemma hstate_not_pending st : hstate st = true -> forall j, st <> SPending j.
Proof. intros H j ->. discriminate H. Qed.

(* timers and stop never lead into the logon state from another state *)
Lemma state_timeout_logon st s t s1 next : state_timeout st s t = (s1, next) -> next = SLogon -> st = SLogon /\ s1 = s.
Proof.
  intros E ->. unfold state_timeout, in_session_timeout in E.
  destruct st; destruct t; cbv beta iota in E; inv E; split; reflexivity.
Qed.

Lemma state_stop_not_logon : forall st s s1 next, state_stop st s = (s1, next) -> next <> SLogon.
Proof.
  induction st as [| | | | | a b c | j IH]; intros s s1 next E; cbn [state_stop] in E; try (inv E; discriminate).
  eapply IH; exact E.
Qed.

(* a peer timeout is the only way into "test request pending" *)
Lemma state_timeout_pending st s t s1 next j : state_timeout st s t = (s1, next) -> next = SPending j ->
  (exists i, st = SPending i /\ next = st /\ s1 = s)
  \/ (t = PeerTimeout /\ j = st /\ (st = SInSession \/ exists a b c, st = SResend a b c) /\ s1 = send s T_TESTREQ [(112, B "TEST")]).
Proof.
  intros E ->. unfold state_timeout, in_session_timeout in E.
  destruct st as [| | | | | a b c | i].
  - inv E.
  - inv E.
  - destruct t; inv E.
  - destruct t; inv E.
  - destruct t; inv E. right. split; [reflexivity|]. split; [reflexivity|]. split; [left; reflexivity | reflexivity].
  - destruct t; inv E. right. split; [reflexivity|]. split; [reflexivity|]. split; [right; eauto | reflexivity].
  - destruct t; inv E; left; eexists; repeat split; reflexivity.
Qed.

Lemma state_stop_not_pending : forall st s s1 next, state_stop st s = (s1, next) -> forall j, next <> SPending j.
Proof.
  induction st as [| | | | | a b c | i IH]; intros s s1 next E j; cbn [state_stop] in E; try (inv E; discriminate).
  eapply IH; exact E.
Qed.
