(* The expected inbound number is never below 1 (reachable-state invariant; same syntax-directed closure as FrameProofs.v). *)
From Coq Require Import String.
From Coq Require Import ZArith List Bool Lia.
From QF Require Import Base.Bytes Session.Types Session.Model Session.Spec Session.FrameProofs.
Import ListNotations.
Open Scope list_scope.
Open Scope Z_scope.

Definition LB (s : sess) : Prop := 1 <= s_tgt s.
Definition Tg (s0 s : sess) : Prop := LB s0 -> LB s.

Lemma tg_refl s : Tg s s.
Proof. intros H; exact H. Qed.
Lemma tg_trans a b c : Tg a b -> Tg b c -> Tg a c.
Proof. intros H1 H2 H. apply H2, H1, H. Qed.

Section Base.
Variable s0 : sess.
Ltac stept := intros H; eapply tg_trans; [exact H|]; intros C; exact C.
Lemma tg_upd_to_send s q : Tg s0 s -> Tg s0 (upd_to_send s q). Proof. stept. Qed.
Lemma tg_upd_logs s a b : Tg s0 s -> Tg s0 (upd_logs s a b). Proof. stept. Qed.
Lemma tg_log s c : Tg s0 s -> Tg s0 (log_cb s c). Proof. unfold log_cb. apply tg_upd_logs. Qed.
Lemma tg_set_sent_reset s b : Tg s0 s -> Tg s0 (set_sent_reset s b). Proof. stept. Qed.
Lemma tg_set_hb s h : Tg s0 s -> Tg s0 (set_hb s h). Proof. stept. Qed.
Lemma tg_incr s : Tg s0 s -> Tg s0 (incr_tgt s).
Proof. intros H P. specialize (H P). unfold LB, incr_tgt in *. cbn. lia. Qed.
Lemma tg_set_tgt s n : s_tgt s <= n -> Tg s0 s -> Tg s0 (set_tgt s n).
Proof. intros Hn H P. specialize (H P). unfold LB, set_tgt in *. cbn. lia. Qed.
Lemma tg_reset s : Tg s0 s -> Tg s0 (store_reset s).
Proof. intros _ _. unfold LB, store_reset. cbn. lia. Qed.
Lemma tg_persist s m : Tg s0 s -> Tg s0 (persist s m).
Proof. intros H P. specialize (H P). unfold persist. destruct (c_disable_persist _); exact H. Qed.
End Base.

Ltac tg_ext := fail.
Ltac tg_go :=
  lazymatch goal with
  | H : Tg ?a ?b |- Tg ?a ?b => exact H
  | |- Tg ?a ?a => apply tg_refl
  | |- Tg _ (if ?x then _ else _) => destruct x eqn:?; tg_go
  | |- Tg _ (match ?x with _ => _ end) => destruct x eqn:?; tg_go
  | |- Tg _ (upd_to_send _ _) => apply tg_upd_to_send; tg_go
  | |- Tg _ (upd_logs _ _ _) => apply tg_upd_logs; tg_go
  | |- Tg _ (log_cb _ _) => apply tg_log; tg_go
  | |- Tg _ (store_reset _) => apply tg_reset; tg_go
  | |- Tg _ (incr_tgt _) => apply tg_incr; tg_go
  | |- Tg _ (set_tgt _ _) => apply tg_set_tgt; [ repeat match goal with Hq : (_ <? _) = true |- _ => apply Z.ltb_lt in Hq end; lia | tg_go ]
  | |- Tg _ (set_sent_reset _ _) => apply tg_set_sent_reset; tg_go
  | |- Tg _ (set_hb _ _) => apply tg_set_hb; tg_go
  | _ => tg_ext
  end.
Ltac tg_pairlemma E := brk_in E; inv E; brk_hyps; tg_go.

Section L1.
Variable s0 : sess.
Lemma tg_prep s t hdr body ir ok s1 r : prep s t hdr body ir ok = (s1, r) -> Tg s0 s -> Tg s0 s1.
Proof.
  intros E H. unfold prep in E. brk_in E; inv E; try apply tg_persist; tg_go.
Qed.
Lemma tg_send_queued s : Tg s0 s -> Tg s0 (send_queued s).
Proof. intros H. unfold send_queued. tg_go. Qed.
Lemma tg_drop_queued s : Tg s0 s -> Tg s0 (drop_queued s).
Proof. intros H. unfold drop_queued. tg_go. Qed.
Lemma tg_enqueue s m : Tg s0 s -> Tg s0 (enqueue s m).
Proof. intros H. unfold enqueue. tg_go. Qed.
End L1.
Ltac tg_ext1 :=
  lazymatch goal with
  | |- Tg _ (send_queued _) => apply tg_send_queued; tg_go
  | |- Tg _ (drop_queued _) => apply tg_drop_queued; tg_go
  | |- Tg _ (enqueue _ _) => apply tg_enqueue; tg_go
  | |- Tg _ ?v => match goal with E : prep _ _ _ _ _ _ = (v, _) |- _ => eapply tg_prep; [exact E | tg_go] end
  end.
Ltac tg_ext ::= tg_ext1.

Section L2.
Variable s0 : sess.
Lemma tg_queue_for_send s t hdr body ir ok : Tg s0 s -> Tg s0 (queue_for_send s t hdr body ir ok).
Proof. intros H. unfold queue_for_send. tg_go. Qed.
Lemma tg_enqueue_bytes s m : Tg s0 s -> Tg s0 (enqueue_bytes_and_send s m).
Proof. intros H. unfold enqueue_bytes_and_send. tg_go. Qed.
Lemma tg_drop_and_send s t body ir : Tg s0 s -> Tg s0 (drop_and_send_in_reply_to s t body ir).
Proof. intros H. unfold drop_and_send_in_reply_to. tg_go. Qed.
Lemma tg_drop_and_reset s : Tg s0 s -> Tg s0 (drop_and_reset s).
Proof. intros H. unfold drop_and_reset. tg_go. Qed.
End L2.
Ltac tg_ext2 :=
  lazymatch goal with
  | |- Tg _ (queue_for_send _ _ _ _ _ _) => apply tg_queue_for_send; tg_go
  | |- Tg _ (enqueue_bytes_and_send _ _) => apply tg_enqueue_bytes; tg_go
  | |- Tg _ (drop_and_send_in_reply_to _ _ _ _) => apply tg_drop_and_send; tg_go
  | |- Tg _ (drop_and_reset _) => apply tg_drop_and_reset; tg_go
  | _ => tg_ext1
  end.
Ltac tg_ext ::= tg_ext2.

Section L3.
Variable s0 : sess.
Lemma tg_send_in_reply_to s t hdr body ir : Tg s0 s -> Tg s0 (send_in_reply_to s t hdr body ir).
Proof. intros H. unfold send_in_reply_to. tg_go. Qed.
Lemma tg_send_logon s b ir : Tg s0 s -> Tg s0 (send_logon_in_reply_to s b ir).
Proof. intros H. unfold send_logon_in_reply_to. tg_go. Qed.
Lemma tg_generate_sequence_reset s b e ir : Tg s0 s -> Tg s0 (generate_sequence_reset s b e ir).
Proof. intros H. unfold generate_sequence_reset. tg_go. Qed.
End L3.
Ltac tg_ext3 :=
  lazymatch goal with
  | |- Tg _ (send_in_reply_to _ _ _ _ _) => apply tg_send_in_reply_to; tg_go
  | |- Tg _ (send_logon_in_reply_to _ _ _) => apply tg_send_logon; tg_go
  | |- Tg _ (generate_sequence_reset _ _ _ _) => apply tg_generate_sequence_reset; tg_go
  | _ => tg_ext2
  end.
Ltac tg_ext ::= tg_ext3.

Section L4.
Variable s0 : sess.
Lemma tg_send s t body : Tg s0 s -> Tg s0 (send s t body).
Proof. intros H. unfold send. tg_go. Qed.
Lemma tg_send_logout s ir : Tg s0 s -> Tg s0 (send_logout_in_reply_to s ir).
Proof. intros H. unfold send_logout_in_reply_to. tg_go. Qed.
Lemma tg_do_reject s m r : Tg s0 s -> Tg s0 (do_reject s m r).
Proof. intros H. unfold do_reject. tg_go. Qed.
Lemma tg_resend_loop : forall keys s ir a b s1 x y, resend_loop keys s ir a b = (s1, x, y) -> Tg s0 s -> Tg s0 s1.
Proof.
  induction keys as [|k r IH]; intros s ir a b s1 x y E H; cbn [resend_loop] in E.
  - inv E. exact H.
  - brk_in E; eapply IH; try exact E; tg_go.
Qed.
End L4.
Ltac tg_ext4 :=
  lazymatch goal with
  | |- Tg _ (send _ _ _) => apply tg_send; tg_go
  | |- Tg _ (send_logout_in_reply_to _ _) => apply tg_send_logout; tg_go
  | |- Tg _ (initiate_logout_in_reply_to _ _) => unfold initiate_logout_in_reply_to; apply tg_send_logout; tg_go
  | |- Tg _ (do_reject _ _ _) => apply tg_do_reject; tg_go
  | |- Tg _ ?v =>
      match goal with
      | E : prep _ _ _ _ _ _ = (v, _) |- _ => eapply tg_prep; [exact E | tg_go]
      | E : resend_loop _ _ _ _ _ = (v, _, _) |- _ => eapply tg_resend_loop; [exact E | tg_go]
      | _ => tg_ext3
      end
  | _ => tg_ext3
  end.
Ltac tg_ext ::= tg_ext4.

Section L5.
Variable s0 : sess.
Lemma tg_send_resend_request s b e s1 st : send_resend_request s b e = (s1, st) -> Tg s0 s -> Tg s0 s1.
Proof. intros E H. unfold send_resend_request in E. tg_pairlemma E. Qed.
Lemma tg_resend_messages s b e ir : Tg s0 s -> Tg s0 (resend_messages s b e ir).
Proof. intros H. unfold resend_messages. tg_go. Qed.
Lemma tg_do_target_too_low s m s1 st : do_target_too_low s m = (s1, st) -> Tg s0 s -> Tg s0 s1.
Proof. intros E H. unfold do_target_too_low in E. tg_pairlemma E. Qed.
Lemma tg_shutdown_with_reason s m b s1 st : shutdown_with_reason s m b = (s1, st) -> Tg s0 s -> Tg s0 s1.
Proof. intros E H. unfold shutdown_with_reason in E. tg_pairlemma E. Qed.
Lemma tg_verify_app s m s1 r : verify_msg_against_app_impl s m = (s1, r) -> Tg s0 s -> Tg s0 s1.
Proof. intros E H. unfold verify_msg_against_app_impl in E. tg_pairlemma E. Qed.
Lemma tg_in_session_timeout s e s1 st : in_session_timeout s e = (s1, st) -> Tg s0 s -> Tg s0 s1.
Proof. intros E H. unfold in_session_timeout in E. tg_pairlemma E. Qed.
End L5.
Ltac tg_ext5 :=
  lazymatch goal with
  | |- Tg _ (resend_messages _ _ _ _) => apply tg_resend_messages; tg_go
  | |- Tg _ ?v =>
      match goal with
      | E : prep _ _ _ _ _ _ = (v, _) |- _ => eapply tg_prep; [exact E | tg_go]
      | E : resend_loop _ _ _ _ _ = (v, _, _) |- _ => eapply tg_resend_loop; [exact E | tg_go]
      | E : send_resend_request _ _ _ = (v, _) |- _ => eapply tg_send_resend_request; [exact E | tg_go]
      | E : do_target_too_high _ _ _ = (v, _) |- _ => unfold do_target_too_high in E; eapply tg_send_resend_request; [exact E | tg_go]
      | E : do_target_too_low _ _ = (v, _) |- _ => eapply tg_do_target_too_low; [exact E | tg_go]
      | E : shutdown_with_reason _ _ _ = (v, _) |- _ => eapply tg_shutdown_with_reason; [exact E | tg_go]
      | E : verify_msg_against_app_impl _ _ = (v, _) |- _ => eapply tg_verify_app; [exact E | tg_go]
      | E : in_session_timeout _ _ = (v, _) |- _ => eapply tg_in_session_timeout; [exact E | tg_go]
      | _ => tg_ext4
      end
  | _ => tg_ext4
  end.
Ltac tg_ext ::= tg_ext5.

Section L6.
Variable s0 : sess.
Lemma tg_verify_select s m a b c s1 r : verify_select s m a b c = (s1, r) -> Tg s0 s -> Tg s0 s1.
Proof. intros E H. unfold verify_select in E. brk_in E; try (inv E; exact H). all: eapply tg_verify_app; eauto. Qed.
Lemma tg_process_reject s m r s1 st : process_reject s m r = (s1, st) -> Tg s0 s -> Tg s0 s1.
Proof. intros E H. unfold process_reject in E. tg_pairlemma E. Qed.
End L6.
Ltac tg_ext6 :=
  lazymatch goal with
  | |- Tg _ ?v =>
      match goal with
      | E : verify_select _ _ _ _ _ = (v, _) |- _ => eapply tg_verify_select; [exact E | tg_go]
      | E : process_reject _ _ _ = (v, _) |- _ => eapply tg_process_reject; [exact E | tg_go]
      | _ => tg_ext5
      end
  | _ => tg_ext5
  end.
Ltac tg_ext ::= tg_ext6.

Section L7.
Variable s0 : sess.
Lemma tg_handle_logon s m s1 r : handle_logon s m = (s1, r) -> Tg s0 s -> Tg s0 s1.
Proof. intros E H. unfold handle_logon in E. tg_pairlemma E. Qed.
Lemma tg_handle_logout s m s1 st : handle_logout s m = (s1, st) -> Tg s0 s -> Tg s0 s1.
Proof. intros E H. unfold handle_logout in E. tg_pairlemma E. Qed.
Lemma tg_handle_test_request s m s1 st : handle_test_request s m = (s1, st) -> Tg s0 s -> Tg s0 s1.
Proof. intros E H. unfold handle_test_request, verify in E. tg_pairlemma E. Qed.
Lemma tg_handle_sequence_reset s m s1 st : handle_sequence_reset s m = (s1, st) -> Tg s0 s -> Tg s0 s1.
Proof. intros E H. unfold handle_sequence_reset in E. tg_pairlemma E. Qed.
Lemma tg_handle_resend_request s m s1 st : handle_resend_request s m = (s1, st) -> Tg s0 s -> Tg s0 s1.
Proof. intros E H. unfold handle_resend_request in E. tg_pairlemma E. Qed.
End L7.
Ltac tg_ext7 :=
  lazymatch goal with
  | |- Tg _ ?v =>
      match goal with
      | E : handle_logon _ _ = (v, _) |- _ => eapply tg_handle_logon; [exact E | tg_go]
      | E : handle_logout _ _ = (v, _) |- _ => eapply tg_handle_logout; [exact E | tg_go]
      | E : handle_test_request _ _ = (v, _) |- _ => eapply tg_handle_test_request; [exact E | tg_go]
      | E : handle_sequence_reset _ _ = (v, _) |- _ => eapply tg_handle_sequence_reset; [exact E | tg_go]
      | E : handle_resend_request _ _ = (v, _) |- _ => eapply tg_handle_resend_request; [exact E | tg_go]
      | _ => tg_ext6
      end
  | _ => tg_ext6
  end.
Ltac tg_ext ::= tg_ext7.

Section L8.
Variable s0 : sess.
Lemma tg_in_session_fix_msg_in s m s1 st : in_session_fix_msg_in s m = (s1, st) -> Tg s0 s -> Tg s0 s1.
Proof. intros E H. unfold in_session_fix_msg_in, verify in E. tg_pairlemma E. Qed.
Lemma tg_logon_state s m s1 st : logon_state_fix_msg_in s m = (s1, st) -> Tg s0 s -> Tg s0 s1.
Proof. intros E H. unfold logon_state_fix_msg_in in E. tg_pairlemma E. Qed.
End L8.

Section L9.
Variable s0 : sess.
Lemma tg_logout_state s m s1 st : logout_state_fix_msg_in s m = (s1, st) -> Tg s0 s -> Tg s0 s1.
Proof.
  intros E H. unfold logout_state_fix_msg_in in E.
  destruct (in_session_fix_msg_in s m) as [s2 st2] eqn:E2.
  assert (Tg s0 s2) by (eapply tg_in_session_fix_msg_in; eassumption). destruct st2; inv E; assumption.
Qed.
Lemma tg_resend_drain : forall fuel s stash next s1 stash1 next1 still,
  resend_drain fuel s stash next = (s1, stash1, next1, still) -> Tg s0 s -> Tg s0 s1.
Proof.
  induction fuel as [|f IH]; intros s stash next s1 stash1 next1 still E H; cbn [resend_drain] in E.
  - inv E. exact H.
  - destruct (stash_take (s_tgt s) stash) as [[m stash']|]; [|inv E; exact H].
    destruct (in_session_fix_msg_in s m) as [s2 n2] eqn:E2.
    assert (H2 : Tg s0 s2) by (eapply tg_in_session_fix_msg_in; eassumption).
    destruct (negb (is_logged_on n2)); [inv E; exact H2|]. eapply IH; eassumption.
Qed.
Lemma tg_resend_state s stash c e m s1 st : resend_state_fix_msg_in s stash c e m = (s1, st) -> Tg s0 s -> Tg s0 s1.
Proof.
  intros E H. unfold resend_state_fix_msg_in in E.
  destruct (in_session_fix_msg_in s m) as [s2 n2] eqn:E2.
  assert (H2 : Tg s0 s2) by (eapply tg_in_session_fix_msg_in; eassumption).
  destruct (negb (is_logged_on n2)); [inv E; exact H2|].
  match type of E with context [resend_drain ?f ?a ?b ?c] => destruct (resend_drain f a b c) as [[[s3 l3] n3] still] eqn:E3 end.
  assert (H3 : Tg s0 s3) by (eapply tg_resend_drain; eassumption).
  destruct (negb still); [inv E; exact H3|].
  brk_in E; inv E; try exact H3; eapply tg_send_resend_request; eassumption.
Qed.
Lemma tg_state_fix_msg_in : forall st s m s1 st1, state_fix_msg_in st s m = (s1, st1) -> Tg s0 s -> Tg s0 s1.
Proof.
  induction st as [| | | | | stash c e | i IH]; intros s m s1 st1 E H; cbn [state_fix_msg_in] in E.
  - inv E; exact H.
  - inv E; exact H.
  - eapply tg_logon_state; eassumption.
  - eapply tg_logout_state; eassumption.
  - eapply tg_in_session_fix_msg_in; eassumption.
  - eapply tg_resend_state; eassumption.
  - eapply IH; eassumption.
Qed.
Lemma tg_state_timeout st s e s1 st1 : state_timeout st s e = (s1, st1) -> Tg s0 s -> Tg s0 s1.
Proof.
  intros E H. unfold state_timeout in E.
  destruct st; try (brk_in E; inv E; exact H).
  - eapply tg_in_session_timeout; eassumption.
  - destruct (in_session_timeout s e) as [s2 st2] eqn:E2.
    assert (Tg s0 s2) by (eapply tg_in_session_timeout; eassumption). brk_in E; inv E; assumption.
Qed.
Lemma tg_state_stop : forall st s s1 st1, state_stop st s = (s1, st1) -> Tg s0 s -> Tg s0 s1.
Proof.
  induction st as [| | | | | stash c e | i IH]; intros s s1 st1 E H; cbn [state_stop] in E; try (inv E; tg_go).
  eapply IH; eassumption.
Qed.
End L9.

(* ---------- the state machine above the handlers ---------- *)
Section Upper.
Variable s0 : sess.
Ltac stepc := intros H; eapply tg_trans; [exact H|]; intros C; exact C.
Lemma tg_upd_chan s a b c d : Tg s0 s -> Tg s0 (upd_chan s a b c d). Proof. stepc. Qed.
Lemma tg_upd_flags s a b c d : Tg s0 s -> Tg s0 (upd_flags s a b c d). Proof. stepc. Qed.
Lemma tg_upd_st s x : Tg s0 s -> Tg s0 (upd_st s x). Proof. stepc. Qed.
End Upper.

Definition TgF (f : sess -> sess) : Prop := forall s0 s, Tg s0 s -> Tg s0 (f s).

Ltac tg_ext10 :=
  lazymatch goal with
  | |- Tg _ (upd_chan _ _ _ _ _) => apply tg_upd_chan; tg_go
  | |- Tg _ (upd_flags _ _ _ _ _) => apply tg_upd_flags; tg_go
  | |- Tg _ (upd_st _ _) => apply tg_upd_st; tg_go
  | |- Tg _ (?f ?x) => first [match goal with Hdr : TgF f |- _ => apply Hdr; tg_go end | tg_ext7]
  | _ => tg_ext7
  end.
Ltac tg_ext ::= tg_ext10.

Lemma tg_handle_disconnect dr : TgF dr -> TgF (handle_disconnect_state dr).
Proof. intros Hdr s0 s H. unfold handle_disconnect_state. cbv zeta. tg_go. Qed.

Lemma tg_set_state_with dr next : TgF dr -> TgF (fun s => set_state_with dr s next).
Proof.
  intros Hdr s0 s H. pose proof (tg_handle_disconnect dr Hdr) as Hhd. unfold set_state_with.
  destruct (negb (is_connected next)); [|tg_go].
  apply tg_upd_st.
  assert (H1 : Tg s0 (if is_connected (s_st s) then handle_disconnect_state dr s else s)).
  { destruct (is_connected (s_st s)); [apply Hhd; exact H | exact H]. }
  destruct (s_pending_stop _); [apply tg_upd_flags|]; exact H1.
Qed.

Lemma tg_incoming_with dr m : TgF dr -> TgF (fun s => incoming_with dr s m).
Proof.
  intros Hdr s0 s H. unfold incoming_with.
  destruct (negb (is_connected (s_st s))); [exact H|]. destruct m as [mm|]; [|exact H].
  destruct (state_fix_msg_in (s_st s) s mm) as [s1 next] eqn:E.
  apply (tg_set_state_with dr next Hdr). eapply tg_state_fix_msg_in; eassumption.
Qed.

Lemma tg_drain_message_in : forall fuel, TgF (drain_message_in fuel).
Proof.
  induction fuel as [|f IH]; intros s0 s H; cbn [drain_message_in]; [exact H|].
  destruct (negb (s_in_open s)); [exact H|]. destruct (s_in_buf s) as [|m r]; [exact H|].
  apply IH. apply (tg_incoming_with (drain_message_in f) m IH). apply tg_upd_chan. exact H.
Qed.

Lemma tg_drain : TgF drain.
Proof. intros s0 s H. unfold drain. apply tg_drain_message_in. exact H. Qed.
Lemma tg_set_state next : TgF (fun s => set_state s next).
Proof. apply tg_set_state_with. exact tg_drain. Qed.
Lemma tg_incoming m : TgF (fun s => incoming s m).
Proof. apply tg_incoming_with. exact tg_drain. Qed.

Lemma tg_connect : TgF connect.
Proof.
  intros s0 s H. unfold connect. destruct (is_connected (s_st s)); [exact H|].
  destruct (negb (initiator _)); apply (tg_set_state SLogon); tg_go.
Qed.

Lemma tg_step_event e : TgF (fun s => step_event s e).
Proof.
  intros s0 s H. destruct e; cbn [step_event].
  - apply tg_connect; exact H.
  - tg_go.
  - destruct (negb (s_in_open s)); [exact H|]. destruct (s_in_buf s) as [|m r]; [exact H|].
    apply (tg_incoming m). apply tg_upd_chan. exact H.
  - apply (tg_incoming (Some m)); exact H.
  - apply (tg_incoming None); exact H.
  - destruct (is_connected (s_st s)); [apply (tg_set_state SLatent)|]; exact H.
  - destruct (state_timeout (s_st s) s e) as [s1 next] eqn:E.
    apply (tg_set_state next). eapply tg_state_timeout; eassumption.
  - tg_go.
  - tg_go.
  - match goal with |- context [state_stop ?a ?b] => destruct (state_stop a b) as [s1 next] eqn:E end.
    apply (tg_set_state next). eapply tg_state_stop; [exact E|]. apply tg_upd_flags. exact H.
  - tg_go.
Qed.

Lemma tg_step e : TgF (fun s => step s e).
Proof.
  intros s0 s H. unfold step. apply (tg_step_event e). unfold clear_logs. apply tg_upd_chan, tg_upd_logs. exact H.
Qed.

Lemma step_lb s e : LB s -> LB (step s e).
Proof. intros C. exact (tg_step e s s (tg_refl s) C). Qed.

Lemma init_lb c : LB (init_sess c).
Proof. unfold LB, init_sess. cbn. lia. Qed.

Lemma run_trace_lb : forall es s, LB s -> Forall LB (run_trace es s).
Proof.
  induction es as [|e r IH]; intros s H; cbn [run_trace]; [constructor|].
  constructor; [apply step_lb; exact H | apply IH, step_lb, H].
Qed.
