(* Trace-level theorems: parts of the session predicates (Session/Spec.v) proved to hold of EVERY model trace, using the
   reachable-state invariant `Boundary` (FrameProofs.v). *)
From Coq Require Import String.
From Coq Require Import ZArith List Bool Lia.
From QF Require Import Base.Bytes Session.Types Session.Model Session.Spec Session.C01Proofs Session.FrameProofs.
Import ListNotations.
Open Scope list_scope.
Open Scope Z_scope.

Ltac crush_cfg c := destruct c as [role bg sn tg r1 r2 r3 r4 ch h ho sl ml np ls ic av].

(* ---------- timers from an arbitrary connected state ---------- *)
Lemma len0 {A} (l : list A) : (Z.of_nat (length l) =? 0) = true -> l = [].
Proof. destruct l; [reflexivity|]. cbn [length]. intros H. apply Z.eqb_eq in H. lia. Qed.

Lemma heartbeat_timer_general : forall s,
  s_out_open s = true -> s_to_send s = [] -> (s_st s = SInSession \/ exists a b c, s_st s = SResend a b c) ->
  let s' := step s (ETimeout NeedHeartbeat) in
  exists h, rev (s_wire s') = [h] /\ o_type h = T_HEARTBEAT /\ field_of 112 (o_body h) = None /\ s_st s' = s_st s.
Proof.
  intros s Ho Hq Hst.
  destruct s as [c st snd tgt msgs q oo io ib sr hb ps stp cbs w cl]. cbn in Ho, Hq, Hst. subst oo q.
  crush_cfg c.
  destruct Hst as [-> | (a & b & c0 & ->)]; destruct ls, np; vm_compute; eexists; repeat split; reflexivity.
Qed.

Lemma heartbeat_timer_pending : forall s i, s_st s = SPending i -> is_connected i = true ->
  let s' := step s (ETimeout NeedHeartbeat) in s_wire s' = [] /\ s_st s' = SPending i.
Proof.
  intros s i Hst Hc. unfold step, step_event. cbn [clear_logs s_st upd_chan upd_logs]. rewrite Hst.
  cbn [state_timeout]. unfold set_state, set_state_with. cbn [is_connected]. rewrite Hc. cbn. split; reflexivity.
Qed.

Lemma peer_timer_general : forall s,
  s_out_open s = true -> s_to_send s = [] -> (s_st s = SInSession \/ exists a b c, s_st s = SResend a b c) ->
  let s' := step s (ETimeout PeerTimeout) in
  exists h, rev (s_wire s') = [h] /\ o_type h = T_TESTREQ /\ s_st s' = SPending (s_st s).
Proof.
  intros s Ho Hq Hst.
  destruct s as [c st snd tgt msgs q oo io ib sr hb ps stp cbs w cl]. cbn in Ho, Hq, Hst. subst oo q.
  crush_cfg c.
  destruct Hst as [-> | (a & b & c0 & ->)]; destruct ls, np; vm_compute; eexists; repeat split; reflexivity.
Qed.

(* ---------- shapes ---------- *)
Lemma sh_logged_on_shape st : sh_logged_on (shape_of st) = is_logged_on st.
Proof. induction st; cbn; auto. Qed.
Lemma sh_pending_shape st : sh_is_pending (shape_of st) = match st with SPending _ => true | _ => false end.
Proof. destruct st; reflexivity. Qed.
Lemma logged_on_connected st : is_logged_on st = true -> is_connected st = true.
Proof. induction st; cbn; intros H; try discriminate; auto. Qed.

Definition free_of (codes : list Z) (l : list failure) : bool :=
  forallb (fun f => negb (existsb (Z.eqb (snd f)) codes)) l.
Lemma free_of_app codes a b : free_of codes (a ++ b) = free_of codes a && free_of codes b.
Proof. unfold free_of. apply forallb_app. Qed.

(* the contribution of one event to c20_check *)
Definition c20_event (c : cfg) (i : nat) (prev : obs) (e : event) (o : obs) : list failure :=
  match c20_scan c i prev [(e, o)] with l => l end.

Lemma c20_scan_cons c i prev e o r :
  c20_scan c i prev ((e, o) :: r) = c20_event c i prev e o ++ c20_scan c (S i) o r.
Proof. unfold c20_event. cbn [c20_scan]. rewrite app_nil_r. reflexivity. Qed.

(* timer events never produce 2002 / 2003 failures from a boundary state *)
Lemma c20_timer_event_ok : forall c i s t, Boundary s ->
  free_of [2002; 2003] (c20_event c i (obs_of s) (ETimeout t) (obs_of (step s (ETimeout t)))) = true.
Proof.
  intros c i s t Hb. unfold c20_event. cbn [c20_scan]. rewrite app_nil_r.
  change (ob_st (obs_of s)) with (shape_of (s_st s)).
  destruct t; try reflexivity.
  - (* NeedHeartbeat *)
    rewrite sh_logged_on_shape. destruct (is_logged_on (s_st s)) eqn:El; [|reflexivity].
    rewrite sh_pending_shape.
    destruct (s_st s) as [| | | | | a b d | j] eqn:Es; cbn in El; try discriminate.
    + (* in session *)
      change (ob_tosend (obs_of s)) with (Z.of_nat (length (s_to_send s))).
      destruct (Z.of_nat (length (s_to_send s)) =? 0) eqn:Eq; [|reflexivity].
      destruct Hb as [B1 _]. rewrite Es in B1. destruct (B1 eq_refl) as [Ho _].
      destruct (heartbeat_timer_general s Ho (len0 _ Eq) (or_introl Es)) as (h & H1 & H2 & H3 & _).
      change (ob_wire (obs_of (step s (ETimeout NeedHeartbeat)))) with (rev (s_wire (step s (ETimeout NeedHeartbeat)))).
      rewrite H1. unfold is_type. rewrite H2, H3. reflexivity.
    + change (ob_tosend (obs_of s)) with (Z.of_nat (length (s_to_send s))).
      destruct (Z.of_nat (length (s_to_send s)) =? 0) eqn:Eq; [|reflexivity].
      destruct Hb as [B1 _]. rewrite Es in B1. destruct (B1 eq_refl) as [Ho _].
      destruct (heartbeat_timer_general s Ho (len0 _ Eq) (or_intror (ex_intro _ a (ex_intro _ b (ex_intro _ d Es))))) as (h & H1 & H2 & H3 & _).
      change (ob_wire (obs_of (step s (ETimeout NeedHeartbeat)))) with (rev (s_wire (step s (ETimeout NeedHeartbeat)))).
      rewrite H1. unfold is_type. rewrite H2, H3. reflexivity.
    + (* pending: nothing sent *)
      destruct (heartbeat_timer_pending s j Es (logged_on_connected j El)) as [H1 _].
      change (ob_wire (obs_of (step s (ETimeout NeedHeartbeat)))) with (rev (s_wire (step s (ETimeout NeedHeartbeat)))).
      rewrite H1. reflexivity.
  - (* PeerTimeout *)
    rewrite sh_logged_on_shape. destruct (is_logged_on (s_st s)) eqn:El; [|reflexivity].
    rewrite sh_pending_shape.
    destruct (s_st s) as [| | | | | a b d | j] eqn:Es; cbn in El; try discriminate.
    + change (ob_tosend (obs_of s)) with (Z.of_nat (length (s_to_send s))).
      destruct (Z.of_nat (length (s_to_send s)) =? 0) eqn:Eq; [|reflexivity].
      destruct Hb as [B1 _]. rewrite Es in B1. destruct (B1 eq_refl) as [Ho _].
      destruct (peer_timer_general s Ho (len0 _ Eq) (or_introl Es)) as (h & H1 & H2 & H3).
      change (ob_wire (obs_of (step s (ETimeout PeerTimeout)))) with (rev (s_wire (step s (ETimeout PeerTimeout)))).
      change (ob_st (obs_of (step s (ETimeout PeerTimeout)))) with (shape_of (s_st (step s (ETimeout PeerTimeout)))).
      rewrite H1, H3. unfold is_type. rewrite H2. reflexivity.
    + change (ob_tosend (obs_of s)) with (Z.of_nat (length (s_to_send s))).
      destruct (Z.of_nat (length (s_to_send s)) =? 0) eqn:Eq; [|reflexivity].
      destruct Hb as [B1 _]. rewrite Es in B1. destruct (B1 eq_refl) as [Ho _].
      destruct (peer_timer_general s Ho (len0 _ Eq) (or_intror (ex_intro _ a (ex_intro _ b (ex_intro _ d Es))))) as (h & H1 & H2 & H3).
      change (ob_wire (obs_of (step s (ETimeout PeerTimeout)))) with (rev (s_wire (step s (ETimeout PeerTimeout)))).
      change (ob_st (obs_of (step s (ETimeout PeerTimeout)))) with (shape_of (s_st (step s (ETimeout PeerTimeout)))).
      rewrite H1, H3. unfold is_type. rewrite H2. reflexivity.
    + (* second peer timeout: the check may report 2004 only *)
      match goal with |- free_of _ (if ?x then [] else [(i, 2004)]) = true => destruct x; reflexivity end.
Qed.

(* events other than timers contribute only codes 2001, 2005, 2006 *)
Lemma c20_other_event_ok : forall c i prev e o, (forall t, e <> ETimeout t) ->
  free_of [2002; 2003] (c20_event c i prev e o) = true.
Proof.
  intros c i prev e o He. unfold c20_event. cbn [c20_scan]. rewrite app_nil_r.
  destruct e; try reflexivity; try (exfalso; eapply He; reflexivity).
  - (* incoming *)
    repeat match goal with
           | |- free_of _ (_ ++ _) = true => rewrite free_of_app; apply andb_true_iff; split
           | |- free_of _ (match ?x with _ => _ end) = true => destruct x
           end; reflexivity.
  - (* deliver *)
    repeat match goal with
           | |- free_of _ (_ ++ _) = true => rewrite free_of_app; apply andb_true_iff; split
           | |- free_of _ (match ?x with _ => _ end) = true => destruct x
           end; reflexivity.
Qed.

Lemma c20_scan_timers : forall c es s i, Boundary s ->
  free_of [2002; 2003] (c20_scan c i (obs_of s) (combine es (map obs_of (run_trace es s)))) = true.
Proof.
  induction es as [|e r IH]; intros s i Hb; cbn [run_trace map combine]; [reflexivity|].
  rewrite c20_scan_cons, free_of_app. apply andb_true_iff; split.
  - destruct e; try (apply c20_other_event_ok; intros t0 H0; discriminate). apply c20_timer_event_ok; exact Hb.
  - apply IH. apply step_boundary; exact Hb.
Qed.

(* C20, trace level: on every trace of the model the heartbeat-timer and peer-timer clauses of c20_check never fail *)
Lemma c20_timers_never_fail : forall c es,
  free_of [2002; 2003] (c20_check c (combine es (map obs_of (run_trace es (init_sess c))))) = true.
Proof. intros c es. unfold c20_check. apply c20_scan_timers. apply init_boundary. Qed.

(* ---------- C07: the disconnect clauses at trace level ---------- *)
Lemma disconnect_general : forall s,
  s_in_buf s = [] -> is_connected (s_st s) = true ->
  let s' := step s EInClosed in
  (c_reset_on_disconnect (s_cfg s) = false -> s_snd s' = s_snd s /\ s_tgt s' = s_tgt s /\ has_reset (rev (s_cbs s')) = false)
  /\ (c_reset_on_disconnect (s_cfg s) = true -> s_snd s' = 1 /\ s_tgt s' = 1).
Proof.
  intros s Hb Hc.
  unfold step, step_event. change (s_st (clear_logs s)) with (s_st s). rewrite Hc.
  unfold set_state, set_state_with. cbn [is_connected negb]. change (s_st (clear_logs s)) with (s_st s). rewrite Hc.
  rewrite (hd_no_buffer (clear_logs s) Hb). unfold disconnect_now.
  destruct s as [c st snd tgt msgs q oo io ib sr hb ps stp cbs w cl]. cbn in Hb, Hc. subst ib.
  crush_cfg c. cbn [s_cfg c_reset_on_disconnect clear_logs upd_chan upd_logs s_st].
  split; intros ->;
    destruct (is_logged_on st || match st with SLogout => true | SLogon => initiator _ | _ => false end), oo, io, ps; cbn; repeat split; reflexivity.
Qed.

Definition c07_event (c : cfg) (i : nat) (sent141 : bool) (prev : obs) (e : event) (o : obs) : list failure :=
  c07_scan c i sent141 prev [(e, o)].

Lemma c07_disconnect_event_ok : forall i b s, Boundary s ->
  free_of [701; 706] (c07_event (s_cfg s) i b (obs_of s) EInClosed (obs_of (step s EInClosed))) = true.
Proof.
  intros i b s Hb. unfold c07_event. cbn [c07_scan]. rewrite !app_nil_r.
  change (ob_inbuf (obs_of s)) with (Z.of_nat (length (s_in_buf s))).
  change (ob_st (obs_of s)) with (shape_of (s_st s)).
  destruct (Z.of_nat (length (s_in_buf s)) =? 0) eqn:Eb; cbn [andb]; [|rewrite free_of_app; apply andb_true_iff; split; [reflexivity|]].
  2: { match goal with |- free_of _ (if ?x then [] else [(i, 708)]) = true => destruct x; reflexivity end. }
  pose proof (len0 _ Eb) as Hbuf.
  rewrite free_of_app. apply andb_true_iff; split.
  2: { match goal with |- free_of _ (if ?x then [] else [(i, 708)]) = true => destruct x; reflexivity end. }
  destruct (is_connected (s_st s)) eqn:Ec.
  - destruct (disconnect_general s Hbuf Ec) as [H1 H2].
    change (ob_snd (obs_of (step s EInClosed))) with (s_snd (step s EInClosed)).
    change (ob_tgt (obs_of (step s EInClosed))) with (s_tgt (step s EInClosed)).
    change (ob_cbs (obs_of (step s EInClosed))) with (rev (s_cbs (step s EInClosed))).
    change (ob_snd (obs_of s)) with (s_snd s). change (ob_tgt (obs_of s)) with (s_tgt s).
    destruct (c_reset_on_disconnect (s_cfg s)) eqn:Er; cbn [negb andb].
    + destruct (H2 eq_refl) as [A1 A2]. rewrite A1, A2.
      destruct (sh_connected (shape_of (s_st s))); reflexivity.
    + destruct (H1 eq_refl) as (A1 & A2 & A3). rewrite A1, A2, A3, !Z.eqb_refl. reflexivity.
  - (* not connected: EInClosed does nothing *)
    assert (Hs : step s EInClosed = clear_logs s) by (unfold step, step_event; cbn [clear_logs s_st upd_chan upd_logs]; rewrite Ec; reflexivity).
    rewrite Hs. cbn [obs_of clear_logs upd_chan upd_logs ob_snd ob_tgt ob_cbs s_snd s_tgt s_cbs rev has_reset existsb].
    rewrite !Z.eqb_refl. cbn [andb negb].
    assert (Hn : sh_connected (shape_of (s_st s)) = false).
    { clear - Ec. induction (s_st s); cbn in *; try discriminate; auto. }
    rewrite Hn. destruct (c_reset_on_disconnect (s_cfg s)); reflexivity.
Qed.

(* the configuration never changes *)
Section CfgConst.
Variable c0 : cfg.
Definition CfgIs (x : sess) : Prop := s_cfg x = c0.

Lemma cfg_same s s' : Same s s' -> CfgIs s -> CfgIs s'.
Proof. intros (_ & _ & _ & H & _) Hc. unfold CfgIs in *. congruence. Qed.

Lemma hd_cfg dr s : (forall x, CfgIs x -> CfgIs (dr x)) -> CfgIs s -> CfgIs (handle_disconnect_state dr s).
Proof.
  intros Hdr Hs. rewrite hd_unfold. pose proof (Hdr s Hs) as H0.
  destruct (is_connected (s_st s) && negb (is_connected (s_st (dr s)))); [exact H0|].
  unfold disconnect_now, CfgIs. cbn [s_cfg upd_chan].
  repeat match goal with |- s_cfg (if ?x then _ else _) = _ => destruct x end; cbn; try exact H0;
    try (apply (cfg_same (dr s)); [fr_go | exact H0]).
Qed.

Lemma set_state_cfg dr s next : (forall x, CfgIs x -> CfgIs (dr x)) -> CfgIs s -> CfgIs (set_state_with dr s next).
Proof.
  intros Hdr Hs. unfold set_state_with, CfgIs.
  destruct (negb (is_connected next)); [|exact Hs].
  destruct (is_connected (s_st s)).
  - pose proof (hd_cfg dr s Hdr Hs) as H. unfold CfgIs in H. destruct (s_pending_stop _); exact H.
  - destruct (s_pending_stop s); exact Hs.
Qed.

Lemma incoming_cfg dr s m : (forall x, CfgIs x -> CfgIs (dr x)) -> CfgIs s -> CfgIs (incoming_with dr s m).
Proof.
  intros Hdr Hs. unfold incoming_with.
  destruct (negb (is_connected (s_st s))); [exact Hs|]. destruct m as [mm|]; [|exact Hs].
  destruct (state_fix_msg_in (s_st s) s mm) as [s1 next] eqn:E.
  apply set_state_cfg; [exact Hdr|]. apply (cfg_same s); [|exact Hs].
  eapply fr_state_fix_msg_in; [exact E | apply same_refl].
Qed.

Lemma drain_cfg : forall fuel s, CfgIs s -> CfgIs (drain_message_in fuel s).
Proof.
  induction fuel as [|f IH]; intros s Hs; cbn [drain_message_in]; [exact Hs|].
  destruct (negb (s_in_open s)); [exact Hs|]. destruct (s_in_buf s) as [|m r]; [exact Hs|].
  apply IH. apply incoming_cfg; [exact IH | exact Hs].
Qed.

Lemma step_cfg : forall s e, CfgIs s -> CfgIs (step s e).
Proof.
  intros s e Hs0. unfold step. assert (Hs : CfgIs (clear_logs s)) by exact Hs0. set (c := clear_logs s) in *. clearbody c.
  assert (Hss : forall x next, CfgIs x -> CfgIs (set_state x next)).
  { intros x next Hx. apply set_state_cfg; [intros y Hy; apply drain_cfg; exact Hy | exact Hx]. }
  destruct e; cbn [step_event].
  - unfold connect. destruct (is_connected (s_st c)); [exact Hs|].
    match goal with |- context [set_sent_reset ?x false] => set (c1 := set_sent_reset x false) end.
    assert (Hc1 : CfgIs c1) by exact Hs.
    destruct (negb (initiator c1)); apply Hss; [exact Hc1|]. apply (cfg_same c1); [fr_go | exact Hc1].
  - destruct (_ && _); exact Hs.
  - destruct (negb (s_in_open c)); [exact Hs|]. destruct (s_in_buf c); [exact Hs|].
    apply incoming_cfg; [intros y Hy; apply drain_cfg; exact Hy | exact Hs].
  - apply incoming_cfg; [intros y Hy; apply drain_cfg; exact Hy | exact Hs].
  - apply incoming_cfg; [intros y Hy; apply drain_cfg; exact Hy | exact Hs].
  - destruct (is_connected (s_st c)); [apply Hss|]; exact Hs.
  - destruct (state_timeout (s_st c) c e) as [s1 next] eqn:E. apply Hss. apply (cfg_same c); [|exact Hs].
    eapply fr_state_timeout; [exact E | apply same_refl].
  - apply (cfg_same c); [fr_go | exact Hs].
  - apply (cfg_same c); [fr_go | exact Hs].
  - match goal with |- context [state_stop ?a ?b] => destruct (state_stop a b) as [s1 next] eqn:E end.
    apply Hss. eapply cfg_same; [eapply fr_state_stop; [exact E | apply same_refl] | exact Hs].
  - apply (cfg_same c); [fr_go | exact Hs].
Qed.
End CfgConst.

Lemma c07_scan_cons c i b prev e o r :
  c07_scan c i b prev ((e, o) :: r)
  = c07_event c i b prev e o
    ++ c07_scan c (S i)
         (match e with
          | EConnect => if sh_connected (ob_st prev) then b else existsb logon_resets (ob_wire o)
          | _ => b || existsb logon_resets (ob_wire o)
          end) o r.
Proof. unfold c07_event. cbn [c07_scan]. rewrite !app_nil_r, <- !app_assoc. reflexivity. Qed.

Lemma c07_other_event_ok : forall c i b prev e o, e <> EInClosed ->
  free_of [701; 706] (c07_event c i b prev e o) = true.
Proof.
  intros c i b prev e o He. unfold c07_event. cbn [c07_scan]. rewrite !app_nil_r.
  destruct e; try (exfalso; apply He; reflexivity);
    repeat match goal with
           | |- free_of _ (_ ++ _) = true => rewrite free_of_app; apply andb_true_iff; split
           | |- free_of _ (match ?x with _ => _ end) = true => destruct x
           end; reflexivity.
Qed.

Lemma c07_scan_disconnect : forall es s i b, Boundary s ->
  free_of [701; 706] (c07_scan (s_cfg s) i b (obs_of s) (combine es (map obs_of (run_trace es s)))) = true.
Proof.
  induction es as [|e r IH]; intros s i b Hb; cbn [run_trace map combine]; [reflexivity|].
  rewrite c07_scan_cons, free_of_app. apply andb_true_iff; split.
  - destruct e; try (apply c07_other_event_ok; discriminate). apply c07_disconnect_event_ok; exact Hb.
  - rewrite <- (step_cfg (s_cfg s) s e eq_refl). apply IH. apply step_boundary; exact Hb.
Qed.

(* C07, trace level: on every trace the disconnect clauses never fail: without ResetOnDisconnect a lost connection leaves
   both counters and the store alone; with it both counters are 1 afterwards *)
Lemma c07_disconnect_never_fails : forall c es,
  free_of [701; 706] (c07_check c (combine es (map obs_of (run_trace es (init_sess c))))) = true.
Proof. intros c es. unfold c07_check. apply (c07_scan_disconnect es (init_sess c)). apply init_boundary. Qed.
