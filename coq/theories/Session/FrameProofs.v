(* Frame lemmas: the message handlers, timers and the send path never touch the channels, the configuration or the stop
   flags.  Used to establish the reachable-state invariant "connected => both channels open" at event boundaries. *)
From Coq Require Import String.
From Coq Require Import ZArith List Bool Lia.
From QF Require Import Base.Bytes Session.Types Session.Model Session.Spec.
Import ListNotations.
Open Scope list_scope.
Open Scope Z_scope.

Definition Same (s s' : sess) : Prop :=
  s_out_open s' = s_out_open s /\ s_in_open s' = s_in_open s /\ s_in_buf s' = s_in_buf s /\ s_cfg s' = s_cfg s
  /\ s_pending_stop s' = s_pending_stop s /\ s_stopped s' = s_stopped s /\ s_closed s' = s_closed s /\ s_st s' = s_st s.

Lemma same_refl s : Same s s.
Proof. repeat split. Qed.
Lemma same_trans a b c : Same a b -> Same b c -> Same a c.
Proof. intros (A1&A2&A3&A4&A5&A6&A7&A8) (B1&B2&B3&B4&B5&B6&B7&B8). repeat split; congruence. Qed.

Ltac brk_in E :=
  repeat match type of E with
  | context [if ?x then _ else _] => destruct x eqn:?
  | context [match ?x with _ => _ end] => destruct x eqn:?
  end.
Ltac inv E := inversion E; subst; clear E.
Ltac brk_hyps :=
  repeat match goal with
  | Hq : (match ?x with _ => _ end) = (_, _) |- _ => destruct x eqn:?; try (inversion Hq; subst; clear Hq)
  | Hq : (if ?x then _ else _) = (_, _) |- _ => destruct x eqn:?; try (inversion Hq; subst; clear Hq)
  end.

Section Frame.
Variable s0 : sess.
Ltac stepf := intros H; eapply same_trans; [exact H|]; repeat split.

Lemma fr_upd_to_send s q : Same s0 s -> Same s0 (upd_to_send s q). Proof. stepf. Qed.
Lemma fr_upd_store s a b c : Same s0 s -> Same s0 (upd_store s a b c). Proof. stepf. Qed.
Lemma fr_upd_logs s a b : Same s0 s -> Same s0 (upd_logs s a b). Proof. stepf. Qed.
Lemma fr_log s c : Same s0 s -> Same s0 (log_cb s c). Proof. unfold log_cb. apply fr_upd_logs. Qed.
Lemma fr_reset s : Same s0 s -> Same s0 (store_reset s). Proof. intros H. unfold store_reset. apply fr_log, fr_upd_store, H. Qed.
Lemma fr_incr s : Same s0 s -> Same s0 (incr_tgt s). Proof. unfold incr_tgt. apply fr_upd_store. Qed.
Lemma fr_set_tgt s n : Same s0 s -> Same s0 (set_tgt s n). Proof. unfold set_tgt. apply fr_upd_store. Qed.
Lemma fr_set_sent_reset s b : Same s0 s -> Same s0 (set_sent_reset s b). Proof. stepf. Qed.
Lemma fr_set_hb s h : Same s0 s -> Same s0 (set_hb s h). Proof. stepf. Qed.
Lemma fr_persist s m : Same s0 s -> Same s0 (persist s m).
Proof. intros H. unfold persist. destruct (c_disable_persist _); apply fr_upd_store, H. Qed.
End Frame.

(* syntax-directed composition; fr_ext is extended layer by layer *)
Ltac fr_ext := fail.
Ltac fr_go :=
  lazymatch goal with
  | H : Same ?a ?b |- Same ?a ?b => exact H
  | |- Same ?a ?a => apply same_refl
  | |- Same _ (if ?x then _ else _) => destruct x eqn:?; fr_go
  | |- Same _ (match ?x with _ => _ end) => destruct x eqn:?; fr_go
  | |- Same _ (upd_to_send _ _) => apply fr_upd_to_send; fr_go
  | |- Same _ (upd_store _ _ _ _) => apply fr_upd_store; fr_go
  | |- Same _ (upd_logs _ _ _) => apply fr_upd_logs; fr_go
  | |- Same _ (log_cb _ _) => apply fr_log; fr_go
  | |- Same _ (store_reset _) => apply fr_reset; fr_go
  | |- Same _ (incr_tgt _) => apply fr_incr; fr_go
  | |- Same _ (set_tgt _ _) => apply fr_set_tgt; fr_go
  | |- Same _ (set_sent_reset _ _) => apply fr_set_sent_reset; fr_go
  | |- Same _ (set_hb _ _) => apply fr_set_hb; fr_go
  | |- Same _ (persist _ _) => apply fr_persist; fr_go
  | _ => fr_ext
  end.
Ltac fr_pairlemma E := brk_in E; inv E; brk_hyps; fr_go.

Section L1.
Variable s0 : sess.
Lemma fr_prep s t hdr body ir ok s1 r : prep s t hdr body ir ok = (s1, r) -> Same s0 s -> Same s0 s1.
Proof. intros E H. unfold prep in E. fr_pairlemma E. Qed.
Lemma fr_send_queued s : Same s0 s -> Same s0 (send_queued s).
Proof. intros H. unfold send_queued. fr_go. Qed.
Lemma fr_drop_queued s : Same s0 s -> Same s0 (drop_queued s).
Proof. intros H. unfold drop_queued. fr_go. Qed.
Lemma fr_enqueue s m : Same s0 s -> Same s0 (enqueue s m).
Proof. intros H. unfold enqueue. fr_go. Qed.
End L1.
Ltac fr_ext1 :=
  lazymatch goal with
  | |- Same _ (send_queued _) => apply fr_send_queued; fr_go
  | |- Same _ (drop_queued _) => apply fr_drop_queued; fr_go
  | |- Same _ (enqueue _ _) => apply fr_enqueue; fr_go
  | |- Same _ ?v => match goal with E : prep _ _ _ _ _ _ = (v, _) |- _ => eapply fr_prep; [exact E | fr_go] end
  end.
Ltac fr_ext ::= fr_ext1.

Section L2.
Variable s0 : sess.
Lemma fr_queue_for_send s t hdr body ir ok : Same s0 s -> Same s0 (queue_for_send s t hdr body ir ok).
Proof. intros H. unfold queue_for_send. fr_go. Qed.
Lemma fr_enqueue_bytes s m : Same s0 s -> Same s0 (enqueue_bytes_and_send s m).
Proof. intros H. unfold enqueue_bytes_and_send. fr_go. Qed.
Lemma fr_drop_and_send s t body ir : Same s0 s -> Same s0 (drop_and_send_in_reply_to s t body ir).
Proof. intros H. unfold drop_and_send_in_reply_to. fr_go. Qed.
Lemma fr_drop_and_reset s : Same s0 s -> Same s0 (drop_and_reset s).
Proof. intros H. unfold drop_and_reset. fr_go. Qed.
End L2.
Ltac fr_ext2 :=
  lazymatch goal with
  | |- Same _ (queue_for_send _ _ _ _ _ _) => apply fr_queue_for_send; fr_go
  | |- Same _ (enqueue_bytes_and_send _ _) => apply fr_enqueue_bytes; fr_go
  | |- Same _ (drop_and_send_in_reply_to _ _ _ _) => apply fr_drop_and_send; fr_go
  | |- Same _ (drop_and_reset _) => apply fr_drop_and_reset; fr_go
  | _ => fr_ext1
  end.
Ltac fr_ext ::= fr_ext2.

Section L3.
Variable s0 : sess.
Lemma fr_send_in_reply_to s t hdr body ir : Same s0 s -> Same s0 (send_in_reply_to s t hdr body ir).
Proof. intros H. unfold send_in_reply_to. fr_go. Qed.
Lemma fr_send_logon s b ir : Same s0 s -> Same s0 (send_logon_in_reply_to s b ir).
Proof. intros H. unfold send_logon_in_reply_to. fr_go. Qed.
Lemma fr_generate_sequence_reset s b e ir : Same s0 s -> Same s0 (generate_sequence_reset s b e ir).
Proof. intros H. unfold generate_sequence_reset. fr_go. Qed.
End L3.
Ltac fr_ext3 :=
  lazymatch goal with
  | |- Same _ (send_in_reply_to _ _ _ _ _) => apply fr_send_in_reply_to; fr_go
  | |- Same _ (send_logon_in_reply_to _ _ _) => apply fr_send_logon; fr_go
  | |- Same _ (generate_sequence_reset _ _ _ _) => apply fr_generate_sequence_reset; fr_go
  | _ => fr_ext2
  end.
Ltac fr_ext ::= fr_ext3.

Section L4.
Variable s0 : sess.
Lemma fr_send s t body : Same s0 s -> Same s0 (send s t body).
Proof. intros H. unfold send. fr_go. Qed.
Lemma fr_send_logout s ir : Same s0 s -> Same s0 (send_logout_in_reply_to s ir).
Proof. intros H. unfold send_logout_in_reply_to. fr_go. Qed.
Lemma fr_do_reject s m r : Same s0 s -> Same s0 (do_reject s m r).
Proof. intros H. unfold do_reject. fr_go. Qed.
Lemma fr_resend_loop : forall keys s ir a b s1 x y, resend_loop keys s ir a b = (s1, x, y) -> Same s0 s -> Same s0 s1.
Proof.
  induction keys as [|k r IH]; intros s ir a b s1 x y E H; cbn [resend_loop] in E.
  - inv E. exact H.
  - brk_in E; eapply IH; try exact E; fr_go.
Qed.
End L4.
Ltac fr_ext4 :=
  lazymatch goal with
  | |- Same _ (send _ _ _) => apply fr_send; fr_go
  | |- Same _ (send_logout_in_reply_to _ _) => apply fr_send_logout; fr_go
  | |- Same _ (initiate_logout_in_reply_to _ _) => unfold initiate_logout_in_reply_to; apply fr_send_logout; fr_go
  | |- Same _ (do_reject _ _ _) => apply fr_do_reject; fr_go
  | |- Same _ ?v =>
      match goal with
      | E : prep _ _ _ _ _ _ = (v, _) |- _ => eapply fr_prep; [exact E | fr_go]
      | E : resend_loop _ _ _ _ _ = (v, _, _) |- _ => eapply fr_resend_loop; [exact E | fr_go]
      | _ => fr_ext3
      end
  | _ => fr_ext3
  end.
Ltac fr_ext ::= fr_ext4.

Section L5.
Variable s0 : sess.
Lemma fr_send_resend_request s b e s1 st : send_resend_request s b e = (s1, st) -> Same s0 s -> Same s0 s1.
Proof. intros E H. unfold send_resend_request in E. fr_pairlemma E. Qed.
Lemma fr_resend_messages s b e ir : Same s0 s -> Same s0 (resend_messages s b e ir).
Proof. intros H. unfold resend_messages. fr_go. Qed.
Lemma fr_do_target_too_low s m s1 st : do_target_too_low s m = (s1, st) -> Same s0 s -> Same s0 s1.
Proof. intros E H. unfold do_target_too_low in E. fr_pairlemma E. Qed.
Lemma fr_shutdown_with_reason s m b s1 st : shutdown_with_reason s m b = (s1, st) -> Same s0 s -> Same s0 s1.
Proof. intros E H. unfold shutdown_with_reason in E. fr_pairlemma E. Qed.
Lemma fr_verify_app s m s1 r : verify_msg_against_app_impl s m = (s1, r) -> Same s0 s -> Same s0 s1.
Proof. intros E H. unfold verify_msg_against_app_impl in E. fr_pairlemma E. Qed.
Lemma fr_in_session_timeout s e s1 st : in_session_timeout s e = (s1, st) -> Same s0 s -> Same s0 s1.
Proof. intros E H. unfold in_session_timeout in E. fr_pairlemma E. Qed.
End L5.
Ltac fr_ext5 :=
  lazymatch goal with
  | |- Same _ (resend_messages _ _ _ _) => apply fr_resend_messages; fr_go
  | |- Same _ ?v =>
      match goal with
      | E : prep _ _ _ _ _ _ = (v, _) |- _ => eapply fr_prep; [exact E | fr_go]
      | E : resend_loop _ _ _ _ _ = (v, _, _) |- _ => eapply fr_resend_loop; [exact E | fr_go]
      | E : send_resend_request _ _ _ = (v, _) |- _ => eapply fr_send_resend_request; [exact E | fr_go]
      | E : do_target_too_high _ _ _ = (v, _) |- _ => unfold do_target_too_high in E; eapply fr_send_resend_request; [exact E | fr_go]
      | E : do_target_too_low _ _ = (v, _) |- _ => eapply fr_do_target_too_low; [exact E | fr_go]
      | E : shutdown_with_reason _ _ _ = (v, _) |- _ => eapply fr_shutdown_with_reason; [exact E | fr_go]
      | E : verify_msg_against_app_impl _ _ = (v, _) |- _ => eapply fr_verify_app; [exact E | fr_go]
      | E : in_session_timeout _ _ = (v, _) |- _ => eapply fr_in_session_timeout; [exact E | fr_go]
      | _ => fr_ext4
      end
  | _ => fr_ext4
  end.
Ltac fr_ext ::= fr_ext5.

Section L6.
Variable s0 : sess.
Lemma fr_verify_select s m a b c s1 r : verify_select s m a b c = (s1, r) -> Same s0 s -> Same s0 s1.
Proof. intros E H. unfold verify_select in E. brk_in E; try (inv E; exact H). all: eapply fr_verify_app; eauto. Qed.
Lemma fr_process_reject s m r s1 st : process_reject s m r = (s1, st) -> Same s0 s -> Same s0 s1.
Proof. intros E H. unfold process_reject in E. fr_pairlemma E. Qed.
End L6.
Ltac fr_ext6 :=
  lazymatch goal with
  | |- Same _ ?v =>
      match goal with
      | E : verify_select _ _ _ _ _ = (v, _) |- _ => eapply fr_verify_select; [exact E | fr_go]
      | E : process_reject _ _ _ = (v, _) |- _ => eapply fr_process_reject; [exact E | fr_go]
      | _ => fr_ext5
      end
  | _ => fr_ext5
  end.
Ltac fr_ext ::= fr_ext6.

Section L7.
Variable s0 : sess.
Lemma fr_handle_logon s m s1 r : handle_logon s m = (s1, r) -> Same s0 s -> Same s0 s1.
Proof. intros E H. unfold handle_logon in E. fr_pairlemma E. Qed.
Lemma fr_handle_logout s m s1 st : handle_logout s m = (s1, st) -> Same s0 s -> Same s0 s1.
Proof. intros E H. unfold handle_logout in E. fr_pairlemma E. Qed.
Lemma fr_handle_test_request s m s1 st : handle_test_request s m = (s1, st) -> Same s0 s -> Same s0 s1.
Proof. intros E H. unfold handle_test_request, verify in E. fr_pairlemma E. Qed.
Lemma fr_handle_sequence_reset s m s1 st : handle_sequence_reset s m = (s1, st) -> Same s0 s -> Same s0 s1.
Proof. intros E H. unfold handle_sequence_reset in E. fr_pairlemma E. Qed.
Lemma fr_handle_resend_request s m s1 st : handle_resend_request s m = (s1, st) -> Same s0 s -> Same s0 s1.
Proof. intros E H. unfold handle_resend_request in E. fr_pairlemma E. Qed.
End L7.
Ltac fr_ext7 :=
  lazymatch goal with
  | |- Same _ ?v =>
      match goal with
      | E : handle_logon _ _ = (v, _) |- _ => eapply fr_handle_logon; [exact E | fr_go]
      | E : handle_logout _ _ = (v, _) |- _ => eapply fr_handle_logout; [exact E | fr_go]
      | E : handle_test_request _ _ = (v, _) |- _ => eapply fr_handle_test_request; [exact E | fr_go]
      | E : handle_sequence_reset _ _ = (v, _) |- _ => eapply fr_handle_sequence_reset; [exact E | fr_go]
      | E : handle_resend_request _ _ = (v, _) |- _ => eapply fr_handle_resend_request; [exact E | fr_go]
      | _ => fr_ext6
      end
  | _ => fr_ext6
  end.
Ltac fr_ext ::= fr_ext7.

Section L8.
Variable s0 : sess.
Lemma fr_in_session_fix_msg_in s m s1 st : in_session_fix_msg_in s m = (s1, st) -> Same s0 s -> Same s0 s1.
Proof. intros E H. unfold in_session_fix_msg_in, verify in E. fr_pairlemma E. Qed.
Lemma fr_logon_state s m s1 st : logon_state_fix_msg_in s m = (s1, st) -> Same s0 s -> Same s0 s1.
Proof. intros E H. unfold logon_state_fix_msg_in in E. fr_pairlemma E. Qed.
End L8.

Section L9.
Variable s0 : sess.
Lemma fr_logout_state s m s1 st : logout_state_fix_msg_in s m = (s1, st) -> Same s0 s -> Same s0 s1.
Proof.
  intros E H. unfold logout_state_fix_msg_in in E.
  destruct (in_session_fix_msg_in s m) as [s2 st2] eqn:E2.
  assert (Same s0 s2) by (eapply fr_in_session_fix_msg_in; eassumption). destruct st2; inv E; assumption.
Qed.
Lemma fr_resend_drain : forall fuel s stash next s1 stash1 next1 still,
  resend_drain fuel s stash next = (s1, stash1, next1, still) -> Same s0 s -> Same s0 s1.
Proof.
  induction fuel as [|f IH]; intros s stash next s1 stash1 next1 still E H; cbn [resend_drain] in E.
  - inv E. exact H.
  - destruct (stash_take (s_tgt s) stash) as [[m stash']|]; [|inv E; exact H].
    destruct (in_session_fix_msg_in s m) as [s2 n2] eqn:E2.
    assert (H2 : Same s0 s2) by (eapply fr_in_session_fix_msg_in; eassumption).
    destruct (negb (is_logged_on n2)); [inv E; exact H2|]. eapply IH; eassumption.
Qed.
Lemma fr_resend_state s stash c e m s1 st : resend_state_fix_msg_in s stash c e m = (s1, st) -> Same s0 s -> Same s0 s1.
Proof.
  intros E H. unfold resend_state_fix_msg_in in E.
  destruct (in_session_fix_msg_in s m) as [s2 n2] eqn:E2.
  assert (H2 : Same s0 s2) by (eapply fr_in_session_fix_msg_in; eassumption).
  destruct (negb (is_logged_on n2)); [inv E; exact H2|].
  match type of E with context [resend_drain ?f ?a ?b ?c] => destruct (resend_drain f a b c) as [[[s3 l3] n3] still] eqn:E3 end.
  assert (H3 : Same s0 s3) by (eapply fr_resend_drain; eassumption).
  destruct (negb still); [inv E; exact H3|].
  brk_in E; inv E; try exact H3; eapply fr_send_resend_request; eassumption.
Qed.
Lemma fr_state_fix_msg_in : forall st s m s1 st1, state_fix_msg_in st s m = (s1, st1) -> Same s0 s -> Same s0 s1.
Proof.
  induction st as [| | | | | stash c e | i IH]; intros s m s1 st1 E H; cbn [state_fix_msg_in] in E.
  - inv E; exact H.
  - inv E; exact H.
  - eapply fr_logon_state; eassumption.
  - eapply fr_logout_state; eassumption.
  - eapply fr_in_session_fix_msg_in; eassumption.
  - eapply fr_resend_state; eassumption.
  - eapply IH; eassumption.
Qed.
Lemma fr_state_timeout st s e s1 st1 : state_timeout st s e = (s1, st1) -> Same s0 s -> Same s0 s1.
Proof.
  intros E H. unfold state_timeout in E.
  destruct st; try (brk_in E; inv E; exact H).
  - eapply fr_in_session_timeout; eassumption.
  - destruct (in_session_timeout s e) as [s2 st2] eqn:E2.
    assert (Same s0 s2) by (eapply fr_in_session_timeout; eassumption). brk_in E; inv E; assumption.
Qed.
Lemma fr_state_stop : forall st s s1 st1, state_stop st s = (s1, st1) -> Same s0 s -> Same s0 s1.
Proof.
  induction st as [| | | | | stash c e | i IH]; intros s s1 st1 E H; cbn [state_stop] in E; try (inv E; fr_go).
  eapply IH; eassumption.
Qed.
End L9.

(* ---------- a disconnect with nothing buffered ---------- *)
Lemma drain_nil : forall s, s_in_buf s = [] -> drain s = s.
Proof. intros s H. unfold drain. rewrite H. cbn [length drain_message_in]. destruct (negb (s_in_open s)); [reflexivity|]. rewrite H. reflexivity. Qed.

(* what handleDisconnectState does once the buffered frames have been handled *)
Definition disconnect_now (s0 : sess) : sess :=
  let do_on_logout := is_logged_on (s_st s0)
                      || match s_st s0 with SLogout => true | SLogon => initiator s0 | _ => false end in
  let s1 := if do_on_logout then log_cb s0 CbOnLogout else s0 in
  let s2 := if c_reset_on_disconnect (s_cfg s1) then drop_and_reset s1 else s1 in
  let s3 := if s_out_open s2 then upd_chan s2 false (s_in_open s2) (s_in_buf s2) true else s2 in
  upd_chan s3 (s_out_open s3) false [] (s_closed s3).

Lemma hd_unfold dr s : handle_disconnect_state dr s =
  if is_connected (s_st s) && negb (is_connected (s_st (dr s))) then dr s else disconnect_now (dr s).
Proof. reflexivity. Qed.

Lemma hd_no_buffer : forall s, s_in_buf s = [] -> handle_disconnect_state drain s = disconnect_now s.
Proof. intros s H. rewrite hd_unfold, (drain_nil s H). destruct (is_connected (s_st s)); reflexivity. Qed.

(* ---------- the reachable-state invariant at event boundaries ---------- *)
(* a connected session has both channels open; a disconnected one has both closed and nothing buffered *)
Definition Boundary (s : sess) : Prop :=
  (is_connected (s_st s) = true -> s_out_open s = true /\ s_in_open s = true)
  /\ (is_connected (s_st s) = false -> s_out_open s = false /\ s_in_open s = false /\ s_in_buf s = []).

(* while the outbound channel is closed, nothing re-opens it: drainMessageIn and everything it calls *)
Definition OutClosed (s : sess) : Prop := s_out_open s = false.

Lemma hd_out_closed dr s : (forall x, OutClosed x -> OutClosed (dr x)) -> OutClosed s -> OutClosed (handle_disconnect_state dr s).
Proof.
  intros Hdr Hs. unfold handle_disconnect_state, OutClosed. cbv zeta.
  pose proof (Hdr _ Hs) as H0. unfold OutClosed in H0.
  destruct (is_connected (s_st s) && negb (is_connected (s_st (dr s)))); [exact H0|].
  cbn [s_out_open upd_chan].
  match goal with |- s_out_open (if s_out_open ?y then _ else _) = false => destruct (s_out_open y) eqn:E; [reflexivity | exact E] end.
Qed.

Lemma set_state_out_closed dr s next : (forall x, OutClosed x -> OutClosed (dr x)) -> OutClosed s -> OutClosed (set_state_with dr s next).
Proof.
  intros Hdr Hs. unfold set_state_with, OutClosed.
  destruct (negb (is_connected next)); [|exact Hs].
  destruct (is_connected (s_st s)).
  - pose proof (hd_out_closed dr s Hdr Hs) as H. unfold OutClosed in H. destruct (s_pending_stop _); exact H.
  - destruct (s_pending_stop s); exact Hs.
Qed.

Lemma incoming_out_closed dr s m : (forall x, OutClosed x -> OutClosed (dr x)) -> OutClosed s -> OutClosed (incoming_with dr s m).
Proof.
  intros Hdr Hs. unfold incoming_with.
  destruct (negb (is_connected (s_st s))); [exact Hs|]. destruct m as [mm|]; [|exact Hs].
  destruct (state_fix_msg_in (s_st s) s mm) as [s1 next] eqn:E.
  apply set_state_out_closed; [exact Hdr|].
  pose proof (fr_state_fix_msg_in s _ _ _ _ _ E (same_refl s)) as (H1 & _). unfold OutClosed. rewrite H1. exact Hs.
Qed.

Lemma drain_out_closed : forall fuel s, OutClosed s -> OutClosed (drain_message_in fuel s).
Proof.
  induction fuel as [|f IH]; intros s Hs; cbn [drain_message_in]; [exact Hs|].
  destruct (negb (s_in_open s)); [exact Hs|]. destruct (s_in_buf s) as [|m r]; [exact Hs|].
  apply IH. apply incoming_out_closed; [exact IH | exact Hs].
Qed.

(* ---------- Boundary through the drain: what is buffered is handled first, in a state that still satisfies Boundary ---------- *)
Section BoundaryDrain.
Variable dr : sess -> sess.
Hypothesis dr_boundary : forall x, Boundary x -> Boundary (dr x).

(* leaving the connected states closes both channels and empties the buffer *)
Lemma hd_disconnects s : Boundary s -> is_connected (s_st s) = true ->
  let r := handle_disconnect_state dr s in
  s_out_open r = false /\ s_in_open r = false /\ s_in_buf r = [].
Proof.
  intros Hb Hc. unfold handle_disconnect_state. cbv zeta. rewrite Hc. cbn [andb].
  pose proof (dr_boundary s Hb) as [B1 B2].
  destruct (is_connected (s_st (dr s))) eqn:Ec; cbn [negb].
  - cbn [s_out_open s_in_open s_in_buf upd_chan]. repeat split.
    match goal with |- s_out_open (if s_out_open ?y then _ else _) = false => destruct (s_out_open y) eqn:E; [reflexivity | exact E] end.
  - exact (B2 eq_refl).
Qed.

Lemma set_state_with_disconnects s next : is_connected next = false -> Boundary s ->
  let s' := set_state_with dr s next in
  s_st s' = next /\ s_out_open s' = false /\ s_in_open s' = false /\ s_in_buf s' = [].
Proof.
  intros Hn Hb. unfold set_state_with. rewrite Hn. cbn [negb].
  destruct (is_connected (s_st s)) eqn:Ec.
  - destruct (hd_disconnects s Hb Ec) as (A1 & A2 & A3).
    destruct (s_pending_stop _); cbn; repeat split; assumption.
  - destruct Hb as [_ Hd]. destruct (Hd Ec) as (D1 & D2 & D3). destruct (s_pending_stop s); cbn; repeat split; assumption.
Qed.

Lemma set_state_with_boundary s s1 next : Boundary s -> Same s s1 -> is_connected (s_st s) = true -> Boundary (set_state_with dr s1 next).
Proof.
  intros Hb Hs Hc.
  assert (Hb1 : Boundary s1).
  { destruct Hs as (S1 & S2 & S3 & _ & _ & _ & _ & S8). destruct Hb as [B1 B2]. split; intros H; rewrite S8 in H.
    - rewrite S1, S2. apply B1; exact H.
    - rewrite S1, S2, S3. apply B2; exact H. }
  destruct (is_connected next) eqn:En.
  - unfold set_state_with. rewrite En. cbn [negb]. split; cbn; intros H; [|congruence].
    destruct Hs as (S1 & S2 & _). destruct Hb as [B1 _]. rewrite S1, S2. apply B1; exact Hc.
  - destruct (set_state_with_disconnects s1 next En Hb1) as (A1 & A2 & A3 & A4).
    split; intros H; rewrite A1 in H; [congruence|]. repeat split; assumption.
Qed.

Lemma incoming_with_boundary s m : Boundary s -> Boundary (incoming_with dr s m).
Proof.
  intros Hb. unfold incoming_with. destruct (is_connected (s_st s)) eqn:Ec; cbn [negb]; [|exact Hb].
  destruct m as [mm|]; [|exact Hb].
  destruct (state_fix_msg_in (s_st s) s mm) as [s1 next] eqn:E.
  apply (set_state_with_boundary s); [exact Hb | eapply fr_state_fix_msg_in; [exact E | apply same_refl] | exact Ec].
Qed.
End BoundaryDrain.

Lemma drain_boundary : forall fuel s, Boundary s -> Boundary (drain_message_in fuel s).
Proof.
  induction fuel as [|f IH]; intros s Hb; cbn [drain_message_in]; [exact Hb|].
  destruct (negb (s_in_open s)) eqn:Ei; [exact Hb|]. destruct (s_in_buf s) as [|m r] eqn:Eb; [exact Hb|].
  apply IH. apply (incoming_with_boundary (drain_message_in f) IH).
  (* taking one frame off the buffer keeps Boundary: the buffer is non-empty, so the session is connected *)
  destruct Hb as [B1 B2]. split; cbn [s_st upd_chan s_out_open s_in_open s_in_buf]; intros H.
  - apply B1; exact H.
  - destruct (B2 H) as (_ & _ & D3). rewrite D3 in Eb. discriminate.
Qed.

Lemma set_state_disconnects s next : is_connected next = false -> Boundary s ->
  let s' := set_state s next in
  s_st s' = next /\ s_out_open s' = false /\ s_in_open s' = false /\ s_in_buf s' = [].
Proof. intros Hn Hb. unfold set_state. apply set_state_with_disconnects; [intros x Hx; apply drain_boundary; exact Hx | exact Hn | exact Hb]. Qed.

Lemma set_state_boundary s s1 next : Boundary s -> Same s s1 -> is_connected (s_st s) = true -> Boundary (set_state s1 next).
Proof. intros Hb Hs Hc. unfold set_state. apply (set_state_with_boundary drain (fun x Hx => drain_boundary _ x Hx) s); assumption. Qed.

Lemma clear_logs_boundary s : Boundary s -> Boundary (clear_logs s).
Proof. intros H. exact H. Qed.

Lemma step_boundary : forall s e, Boundary s -> Boundary (step s e).
Proof.
  intros s e Hb0. unfold step. pose proof (clear_logs_boundary s Hb0) as Hb. set (c := clear_logs s) in *. clearbody c.
  destruct e; cbn [step_event].
  - (* connect *) unfold connect. destruct (is_connected (s_st c)) eqn:Ec; [exact Hb|].
    match goal with |- context [set_sent_reset ?x false] => set (c0 := set_sent_reset x false) end.
    assert (Hc0 : s_out_open c0 = true /\ s_in_open c0 = true) by (split; reflexivity).
    assert (Hfin : forall x, Same c0 x -> Boundary (set_state x SLogon)).
    { intros x (S1 & S2 & _). unfold set_state, set_state_with. cbn [is_connected negb].
      split; cbn; intros H; [|discriminate]. rewrite S1, S2. exact Hc0. }
    destruct (negb (initiator c0)); apply Hfin; fr_go.
  - (* arrive *) destruct (s_in_open c && Nat.ltb (length (s_in_buf c)) (c_in_cap (s_cfg c))) eqn:Ea; [|exact Hb].
    destruct Hb as [B1 B2]. split; cbn; intros H.
    + apply B1; exact H.
    + destruct (B2 H) as (D1 & D2 & D3). rewrite D2 in Ea. discriminate.
  - (* deliver *) destruct (negb (s_in_open c)) eqn:Ei; [exact Hb|]. destruct (s_in_buf c) as [|m r] eqn:Eb; [exact Hb|].
    unfold incoming, incoming_with. cbn [s_st upd_chan].
    destruct (is_connected (s_st c)) eqn:Ec; cbn [negb].
    + set (c1 := upd_chan c (s_out_open c) (s_in_open c) r (s_closed c)).
      assert (Hb1 : Boundary c1).
      { destruct Hb as [B1 B2]. split; cbn; intros H; [apply B1; exact H | rewrite Ec in H; discriminate]. }
      destruct m as [mm|]; [|exact Hb1].
      destruct (state_fix_msg_in (s_st c) c1 mm) as [s1 next] eqn:E.
      apply (set_state_boundary c1); [exact Hb1 | eapply fr_state_fix_msg_in; [exact E | apply same_refl] | exact Ec].
    + destruct Hb as [_ B2]. destruct (B2 Ec) as (_ & D2 & _). rewrite D2 in Ei. discriminate.
  - (* incoming *) unfold incoming, incoming_with. destruct (is_connected (s_st c)) eqn:Ec; cbn [negb]; [|exact Hb].
    destruct (state_fix_msg_in (s_st c) c m) as [s1 next] eqn:E.
    apply (set_state_boundary c); [exact Hb | eapply fr_state_fix_msg_in; [exact E | apply same_refl] | exact Ec].
  - (* garbage *) unfold incoming, incoming_with. destruct (negb (is_connected (s_st c))); exact Hb.
  - (* inclosed *) destruct (is_connected (s_st c)) eqn:Ec; [|exact Hb].
    apply (set_state_boundary c); [exact Hb | apply same_refl | exact Ec].
  - (* timeout *) destruct (state_timeout (s_st c) c e) as [s1 next] eqn:E.
    destruct (is_connected (s_st c)) eqn:Ec.
    + apply (set_state_boundary c); [exact Hb | eapply fr_state_timeout; [exact E | apply same_refl] | exact Ec].
    + (* not connected: nothing is sent and the state stays disconnected *)
      assert (Hst : s1 = c /\ is_connected next = false).
      { unfold state_timeout in E. destruct (s_st c) eqn:Es; cbn in Ec; try discriminate;
          try (inversion E; subst; split; [reflexivity | cbn; try exact Ec; reflexivity]).
        destruct e; inversion E; subst; split; try reflexivity; cbn; exact Ec. }
      destruct Hst as [-> Hn].
      destruct (set_state_disconnects c next Hn Hb) as (A1 & A2 & A3 & A4).
      split; intros H; rewrite A1 in H; [congruence|]. repeat split; assumption.
  - (* app send *) assert (Hs : Same c (queue_for_send c t [] body None ok)) by fr_go.
    destruct Hs as (S1 & S2 & S3 & _ & _ & _ & _ & S8). destruct Hb as [B1 B2]. split; intros H; rewrite S8 in H.
    + rewrite S1, S2. apply B1; exact H.
    + rewrite S1, S2, S3. apply B2; exact H.
  - (* flush *) assert (Hs : Same c (if is_logged_on (s_st c) then send_queued c else drop_queued c)) by fr_go.
    destruct Hs as (S1 & S2 & S3 & _ & _ & _ & _ & S8). destruct Hb as [B1 B2]. split; intros H; rewrite S8 in H.
    + rewrite S1, S2. apply B1; exact H.
    + rewrite S1, S2, S3. apply B2; exact H.
  - (* stop *)
    set (c0 := upd_flags c (s_sent_reset c) (s_hb c) true (s_stopped c)).
    assert (Hb0' : Boundary c0) by exact Hb.
    destruct (state_stop (s_st c0) c0) as [s1 next] eqn:E.
    destruct (is_connected (s_st c0)) eqn:Ec.
    + apply (set_state_boundary c0); [exact Hb0' | eapply fr_state_stop; [exact E | apply same_refl] | exact Ec].
    + assert (Hst : forall st x y z, is_connected st = false -> state_stop st x = (y, z) -> y = x /\ is_connected z = false).
      { induction st as [| | | | | a b d | i IH]; intros x y z Hc' E'; cbn in Hc', E'; try discriminate;
          try (inversion E'; subst; split; reflexivity). eapply IH; eassumption. }
      destruct (Hst _ _ _ _ Ec E) as [-> Hn].
      destruct (set_state_disconnects c0 next Hn Hb0') as (A1 & A2 & A3 & A4).
      split; intros H; rewrite A1 in H; [congruence|]. repeat split; assumption.
  - (* reset time *)
    assert (Hs : Same c (if is_connected (s_st c) then send_logon_in_reply_to c true None else c)) by fr_go.
    destruct Hs as (S1 & S2 & S3 & _ & _ & _ & _ & S8). destruct Hb as [B1 B2]. split; intros H; rewrite S8 in H.
    + rewrite S1, S2. apply B1; exact H.
    + rewrite S1, S2, S3. apply B2; exact H.
Qed.

Lemma init_boundary c : Boundary (init_sess c).
Proof. split; cbn; intros H; [discriminate | repeat split]. Qed.

Lemma run_trace_boundary : forall es s, Boundary s -> Forall Boundary (run_trace es s).
Proof.
  induction es as [|e r IH]; intros s H; cbn [run_trace]; [constructor|].
  constructor; [apply step_boundary; exact H | apply IH, step_boundary, H].
Qed.

Lemma trace_boundary : forall c es, Forall Boundary (run_trace es (init_sess c)).
Proof. intros c es. apply run_trace_boundary. apply init_boundary. Qed.
