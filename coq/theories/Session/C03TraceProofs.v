(* C03 at trace level: on every trace of the model, the reply to every verified ResendRequest processed by a logged-on,
   non-recovering session with nothing queued or buffered is accepted by c03_reply_check (c03_check = []). *)
From Coq Require Import String.
From Coq Require Import ZArith List Bool Lia.
From QF Require Import Base.Bytes Session.Types Session.Model Session.Spec Session.C01Proofs Session.LocalProofs
  Session.FrameProofs Session.TraceProofs Session.RecoveryProofs Session.ReactionProofs Session.KeepAliveProofs
  Session.ResendProofs Session.StoreProofs.
Import ListNotations.
Open Scope list_scope.
Open Scope Z_scope.

Lemma recovering_shape st : sh_is_resend (shape_of st) = c03_recovering st.
Proof. induction st; cbn; auto. Qed.

Lemma replay_not_request msgs w : replay_ok msgs w -> is_type T_RESENDREQ w = false.
Proof.
  intros [_ [(Ht & _)|(sm & _ & Ha & Ht & _)]]; unfold is_type; rewrite Ht; [reflexivity|].
  unfold is_admin in Ha. repeat (apply orb_false_elim in Ha as [Ha ?]). assumption.
Qed.

Lemma filter_all {A} (f : A -> bool) l : Forall (fun x => f x = true) l -> filter f l = l.
Proof. induction 1 as [|x r Hx _ IH]; cbn; [reflexivity|]. rewrite Hx, IH. reflexivity. Qed.

Lemma len_nil {A} (l : list A) : Nat.eqb (length l) 0 = true -> l = [].
Proof. destruct l; [reflexivity | discriminate]. Qed.

(* one verified ResendRequest *)
Lemma resend_request_step : forall s m,
  Boundary s -> Complete s -> beq_bytes (mi_type m) T_RESENDREQ = true -> c03_ok_ctx s m = true ->
  c03_reply_check (s_cfg s) (s_msgs s) (s_snd s) m
    (filter (fun w => negb (is_type T_RESENDREQ w)) (ob_wire (obs_of (step s (EIncoming m))))) = [].
Proof.
  intros s m Hb Hc Hty Hctx.
  destruct (mi_beginseq m) as [| |b] eqn:Ebs; try (unfold c03_reply_check; rewrite Ebs; reflexivity).
  destruct (mi_endseq m) as [| |e0] eqn:Ees; try (unfold c03_reply_check; rewrite Ebs, Ees; reflexivity).
  destruct (Z.ltb_spec b 1) as [Hb1|Hb1]; [unfold c03_reply_check; rewrite Ebs, Ees; replace (b <? 1) with true by (symmetry; apply Z.ltb_lt; lia); reflexivity|].
  unfold c03_ok_ctx in Hctx. repeat (apply andb_true_iff in Hctx as [Hctx ?]).
  rename Hctx into Hl.
  match goal with H : negb (c03_recovering _) = true |- _ => apply negb_true_iff in H; rename H into Hnr end.
  assert (Hq : s_to_send s = []) by (apply len_nil; assumption).
  assert (Ho : s_out_open s = true).
  { destruct Hb as [B1 _]. exact (proj1 (B1 (logged_on_connected _ Hl))). }
  assert (Hbeg : check_begin_string s m = None /\ check_comp_id s m = None).
  { destruct (check_begin_string s m); [discriminate|]. destruct (check_comp_id s m); [discriminate|]. auto. }
  destruct Hbeg as [Hbeg Hcid].
  assert (Htime : check_sending_time s m = None) by (destruct (check_sending_time s m); [discriminate | reflexivity]).
  assert (Hva : mi_valid m = VAccept /\ mi_app m = VAccept) by (destruct (mi_valid m), (mi_app m); try discriminate; auto).
  destruct Hva as [Hv Ha].
  assert (Hty' : mi_type m = T_RESENDREQ) by (apply beq_bytes_true; exact Hty).
  set (c := clear_logs s).
  set (s1 := log_cb c (CbFromAdmin (mi_type m) (mi_seq m) (facts_of m))).
  (* verification passes and logs FromAdmin *)
  assert (Hver : verify_select c m false false true = (s1, None)).
  { unfold verify_select. change (check_begin_string c m) with (check_begin_string s m). rewrite Hbeg.
    change (check_comp_id c m) with (check_comp_id s m). rewrite Hcid.
    change (s_st c) with (s_st s). change (check_sending_time c m) with (check_sending_time s m).
    replace (match s_st s with SResend _ _ _ => None | _ => check_sending_time s m end) with (@None rej)
      by (destruct (s_st s); try (symmetry; exact Htime); reflexivity).
    unfold verify_msg_against_app_impl. rewrite Hv. cbn [rej_of_verdict]. rewrite Hty'.
    change (is_admin T_RESENDREQ) with true. cbn iota. rewrite Ha. fold s1. rewrite <- Hty'. reflexivity. }
  (* the step *)
  assert (Hs1 : Complete s1 /\ flushing s1 /\ s_cfg s1 = s_cfg s /\ s_msgs s1 = s_msgs s /\ s_snd s1 = s_snd s /\ s_wire s1 = []).
  { split; [exact Hc|]. split; [split; [exact Ho | exact Hq]|]. repeat split. }
  destruct Hs1 as (Hc1 & Hf1 & Ecfg & Emsgs & Esnd & Ewire).
  destruct (complete_reply_exact s1 m b e0 Hc1 Hf1 Ebs Ees Hb1) as (new & Hw & Hchk).
  (* nothing the reply contains is a ResendRequest *)
  set (e := clip_end (s_cfg s1) (s_snd s1) e0) in *.
  assert (Hnorr : Forall (fun w => negb (is_type T_RESENDREQ w) = true) (rev new)).
  { apply Forall_rev. destruct (c_disable_persist (s_cfg s1)) eqn:Hp.
    - unfold resend_messages in Hw. rewrite Hp in Hw. destruct (e <? b).
      + change (s_wire s1) with ([] ++ s_wire s1) in Hw at 1. apply app_inv_tail in Hw. subst new. constructor.
      + rewrite (gen_seq_reset_wire s1 b (e + 1) m Hf1) in Hw.
        match type of Hw with ?w :: _ = _ => change (w :: s_wire s1) with ([w] ++ s_wire s1) in Hw end.
        apply app_inv_tail in Hw. subst new. constructor; [reflexivity | constructor].
    - destruct (resend_messages_replays s1 b e m Hf1 Hp) as (_ & _ & new' & Hw' & Hall).
      rewrite Hw in Hw'. apply app_inv_tail in Hw'. subst new'.
      eapply Forall_impl; [|exact Hall]. intros w Hr. rewrite (replay_not_request _ _ Hr). reflexivity. }
  (* the event *)
  assert (Hstep : ob_wire (obs_of (step s (EIncoming m))) = rev new).
  { unfold step, step_event, incoming, incoming_with. fold c. change (s_st c) with (s_st s).
    rewrite (logged_on_connected _ Hl). cbn [negb].
    rewrite (plain_logged_on_handler (s_st s) c m Hl) by (rewrite recovering_shape; exact Hnr).
    unfold in_session_fix_msg_in. rewrite Hty'.
    change (beq_bytes T_RESENDREQ T_LOGON) with false. change (beq_bytes T_RESENDREQ T_LOGOUT) with false.
    change (beq_bytes T_RESENDREQ T_RESENDREQ) with true. cbn iota.
    unfold handle_resend_request. rewrite Hver, Ebs, Ees. cbv zeta.
    change (if (2 <=? c_begin (s_cfg s1)) && (e0 =? 0) || (c_begin (s_cfg s1) <=? 2) && (e0 =? 999999) || (s_snd s1 <=? e0)
            then s_snd s1 - 1 else e0) with e.
    set (s2 := resend_messages s1 b e m) in *.
    assert (Hfin : forall x, s_wire x = s_wire s2 -> ob_wire (obs_of (set_state x SInSession)) = rev new).
    { intros x Hx. rewrite (set_state_connected x SInSession eq_refl).
      change (ob_wire (obs_of (upd_st x SInSession))) with (rev (s_wire x)). rewrite Hx, Hw, Ewire, app_nil_r. reflexivity. }
    destruct (check_target_too_low s2 m); [apply Hfin; reflexivity|].
    destruct (check_target_too_high s2 m); apply Hfin; reflexivity. }
  rewrite Hstep, (filter_all _ _ Hnorr). rewrite <- Ecfg, <- Emsgs, <- Esnd. exact Hchk.
Qed.

Lemma c03_scan_ok : forall es s i, Boundary s -> Complete s ->
  c03_scan i s (combine es (map obs_of (run_trace es s))) = [].
Proof.
  induction es as [|e r IH]; intros s i Hb Hc; cbn [run_trace map combine c03_scan]; [reflexivity|].
  rewrite (IH (step s e) (S i) (step_boundary s e Hb) (step_complete s e Hc)), app_nil_r.
  destruct e; try reflexivity.
  destruct (beq_bytes (mi_type m) T_RESENDREQ && c03_ok_ctx s m) eqn:Eg; [|reflexivity].
  apply andb_true_iff in Eg as [E1 E2]. rewrite (resend_request_step s m Hb Hc E1 E2). reflexivity.
Qed.

(* C03, trace level: for every configuration and every event list the trace predicate of C03 finds nothing on the model *)
Theorem c03_model_ok : forall c es, c03_check c (combine es (map obs_of (run_trace es (init_sess c)))) = [].
Proof. intros c es. unfold c03_check. apply c03_scan_ok; [apply init_boundary | apply init_complete]. Qed.
