(* C20 at trace level: the dead-peer clause (2004) of c20_check never fails on a model trace. *)
From Coq Require Import String.
From Coq Require Import ZArith List Bool Lia.
From QF Require Import Base.Bytes Session.Types Session.Model Session.Spec Session.C01Proofs Session.FrameProofs Session.TraceProofs
  Session.RecoveryProofs Session.MonoProofs.
Import ListNotations.
Open Scope list_scope.
Open Scope Z_scope.

Lemma pending_shape st : sh_is_pending (shape_of st) = true -> exists i, st = SPending i.
Proof. destruct st; cbn; intros H; try discriminate. eexists; reflexivity. Qed.

Lemma c20_event_dead_peer : forall c i s e, Boundary s ->
  free_of [2004] (c20_event c i (obs_of s) e (obs_of (step s e))) = true.
Proof.
  intros c i s e Hb. unfold c20_event. cbn [c20_scan]. rewrite app_nil_r.
  destruct e as [| | | | | |t| | | |]; try reflexivity; try (free_rest; fail).
  destruct t; try reflexivity; try (free_rest; fail).
  change (ob_st (obs_of s)) with (shape_of (s_st s)).
  rewrite sh_logged_on_shape. destruct (is_logged_on (s_st s)) eqn:El; [|reflexivity].
  destruct (sh_is_pending (shape_of (s_st s))) eqn:Ep; [|free_rest].
  destruct (pending_shape _ Ep) as [j Hst].
  assert (Hlj : is_logged_on j = true) by (rewrite Hst in El; exact El).
  assert (Ho : s_out_open s = true).
  { destruct Hb as [B1 _]. exact (proj1 (B1 (logged_on_connected _ El))). }
  destruct (dead_peer_general s j Hst Hlj Ho) as (D1 & D2 & D3).
  change (ob_st (obs_of (step s (ETimeout PeerTimeout)))) with (shape_of (s_st (step s (ETimeout PeerTimeout)))).
  change (ob_cbs (obs_of (step s (ETimeout PeerTimeout)))) with (rev (s_cbs (step s (ETimeout PeerTimeout)))).
  change (ob_closed (obs_of (step s (ETimeout PeerTimeout)))) with (s_closed (step s (ETimeout PeerTimeout))).
  rewrite D1, D3. cbn [shape_of sh_connected negb andb].
  replace (existsb _ _) with true; [reflexivity|].
  symmetry. apply existsb_exists. exists CbOnLogout. split; [apply in_rev; rewrite rev_involutive; exact D2 | reflexivity].
Qed.

Lemma c20_scan_dead_peer : forall c es s i, Boundary s ->
  free_of [2004] (c20_scan c i (obs_of s) (combine es (map obs_of (run_trace es s)))) = true.
Proof.
  induction es as [|e r IH]; intros s i Hb; cbn [run_trace map combine]; [reflexivity|].
  rewrite c20_scan_cons, free_of_app. apply andb_true_iff; split.
  - apply c20_event_dead_peer; exact Hb.
  - apply IH. apply step_boundary; exact Hb.
Qed.

(* C20, trace level: on every trace of the model, a peer timeout while a TestRequest is outstanding disconnects the
   session, notifies the application (OnLogout) and closes the channel *)
Lemma c20_dead_peer_never_fails : forall c es,
  free_of [2004] (c20_check c (combine es (map obs_of (run_trace es (init_sess c))))) = true.
Proof. intros c es. unfold c20_check. apply c20_scan_dead_peer. apply init_boundary. Qed.

(* ---------- 2001: a TestRequest in sequence is echoed by exactly one Heartbeat carrying its id ---------- *)
From QF Require Import Session.LocalProofs Session.ReactionProofs.


Lemma plain_logged_on_handler : forall st s m, is_logged_on st = true -> sh_is_resend (shape_of st) = false ->
  state_fix_msg_in st s m = in_session_fix_msg_in s m.
Proof.
  induction st as [| | | | | a b d | j IH]; intros s m Hl Hr; cbn in Hl, Hr; try discriminate; [reflexivity|].
  cbn [state_fix_msg_in]. apply IH; assumption.
Qed.

Lemma c20_event_echo : forall c i s e, Boundary s -> s_cfg s = c ->
  free_of [2001] (c20_event c i (obs_of s) e (obs_of (step s e))) = true.
Proof.
  intros c0 i s e Hb Hcfg. subst c0. unfold c20_event. cbn [c20_scan]. rewrite app_nil_r.
  destruct e as [| | |m| | |t| | | |]; try reflexivity; try (free_rest; fail).
  rewrite !free_of_app. repeat (apply andb_true_iff; split); try (free_rest; fail).
  match goal with |- free_of _ (if ?x then _ else _) = true => destruct x eqn:Ec; [|reflexivity] end.
  destruct (mi_testreq m) as [id|] eqn:Eid; [|reflexivity].
  repeat (apply andb_true_iff in Ec as [Ec ?]).
  change (ob_st (obs_of s)) with (shape_of (s_st s)) in *. change (ob_tgt (obs_of s)) with (s_tgt s) in *.
  rewrite sh_logged_on_shape in *.
  match goal with H : negb (sh_is_resend _) = true |- _ => apply negb_true_iff in H; rename H into Hnr end.
  match goal with H : is_logged_on (s_st s) = true |- _ => rename H into Hl end.
  assert (Hq : s_to_send s = []) by (apply len0; assumption).
  assert (Ho : s_out_open s = true).
  { destruct Hb as [B1 _]. exact (proj1 (B1 (logged_on_connected _ Hl))). }
  match goal with H : msg_passes_header _ _ _ = true |- _ => pose proof (passes_hdr_ok _ _ _ H) as Hh end.
  assert (Hseq : mi_seq m = FVal (s_tgt s)).
  { destruct (mi_seq m) as [| |n]; try discriminate.
    match goal with H : (n =? s_tgt s) = true |- _ => apply Z.eqb_eq in H; rewrite H; reflexivity end. }
  assert (Hva : mi_valid m = VAccept /\ mi_app m = VAccept).
  { destruct (mi_valid m), (mi_app m); try discriminate; auto. }
  destruct Hva as [Hv Ha].
  assert (Hty : mi_type m = T_TESTREQ) by (apply beq_bytes_true; assumption).
  (* the step *)
  set (c := clear_logs s).
  assert (Estep : step s (EIncoming m) = set_state (fst (handle_test_request c m)) (snd (handle_test_request c m))).
  { unfold step, step_event, incoming, incoming_with. fold c. change (s_st c) with (s_st s).
    rewrite (logged_on_connected _ Hl). cbn [negb].
    rewrite (plain_logged_on_handler (s_st s) c m Hl Hnr).
    unfold in_session_fix_msg_in. rewrite Hty. cbn [beq_bytes]. change (beq_bytes T_TESTREQ T_LOGON) with false.
    change (beq_bytes T_TESTREQ T_LOGOUT) with false. change (beq_bytes T_TESTREQ T_RESENDREQ) with false.
    change (beq_bytes T_TESTREQ T_SEQRESET) with false. change (beq_bytes T_TESTREQ T_TESTREQ) with true. cbn iota.
    destruct (handle_test_request c m); reflexivity. }
  assert (Hadm : is_admin (mi_type m) = true) by (rewrite Hty; reflexivity).
  destruct (test_request_echoed c m id Hl Ho Hq Hh Hseq Hv Ha Hadm Eid) as (W1 & W2 & _ & W4).
  rewrite Estep, W4, (set_state_connected _ SInSession eq_refl).
  cbn [obs_of ob_wire ob_tgt upd_st s_wire s_tgt]. rewrite W1, W2. change (s_wire c) with (@nil omsg). change (s_tgt c) with (s_tgt s).
  cbn [rev app]. rewrite Z.eqb_refl.
  match goal with |- context [heartbeats [?h]] =>
    replace (heartbeats [h]) with [h] by reflexivity; replace (field_of 112 (o_body h)) with (Some id) by reflexivity end.
  cbn [opt_beq]. rewrite beq_bytes_refl. reflexivity.
Qed.

Lemma c20_scan_echo : forall es s i, Boundary s ->
  free_of [2001] (c20_scan (s_cfg s) i (obs_of s) (combine es (map obs_of (run_trace es s)))) = true.
Proof.
  induction es as [|e r IH]; intros s i Hb; cbn [run_trace map combine]; [reflexivity|].
  rewrite c20_scan_cons, free_of_app. apply andb_true_iff; split.
  - apply c20_event_echo; [exact Hb | reflexivity].
  - rewrite <- (step_cfg (s_cfg s) s e eq_refl). apply IH. apply step_boundary; exact Hb.
Qed.

(* C20, trace level: on every trace of the model a TestRequest received in sequence by a logged-on, non-recovering session
   (nothing queued or buffered) is answered by exactly one Heartbeat carrying its TestReqID and consumes its number *)
Lemma c20_echo_never_fails : forall c es,
  free_of [2001] (c20_check c (combine es (map obs_of (run_trace es (init_sess c))))) = true.
Proof. intros c es. unfold c20_check. apply (c20_scan_echo es (init_sess c)). apply init_boundary. Qed.
