(* C20 at trace level: the dead-peer clause (2004) of c20_check never fails on a model trace. *)
From Coq Require Import String.
From Coq Require Import ZArith List Bool Lia.
From QF Require Import Base.Bytes Session.Types Session.Model Session.Spec Session.C01Proofs Session.FrameProofs Session.TraceProofs
  Session.RecoveryProofs Session.MonoProofs Session.NextStateProofs.
Import ListNotations.
Open Scope list_scope.
Open Scope Z_scope.

Lemma pending_shape st : sh_is_pending (shape_of st) = true -> exists i, st = SPending i.
Proof. destruct st; cbn; intros H; try discriminate. eexists; reflexivity. Qed.

(* ---------- C20: the second peer timeout (nothing heard since the TestRequest) ---------- *)
(* With the drain before the notification (repair of F17) the frames still buffered at the timeout are handled first, in
   the state the session is in.  Invariant through that drain: the session is either still connected and logged on (or
   waiting for the peer's Logout), or it has been disconnected WITH the logout notification and the close. *)
Definition LQ (x : sess) : Prop :=
  (is_connected (s_st x) = true /\ (is_logged_on (s_st x) = true \/ s_st x = SLogout))
  \/ (is_connected (s_st x) = false /\ In CbOnLogout (s_cbs x) /\ s_closed x = true).

Lemma same_boundary s s1 : Boundary s -> Same s s1 -> Boundary s1.
Proof.
  intros [B1 B2] (S1 & S2 & S3 & _ & _ & _ & _ & S8). split; intros H; rewrite S8 in H.
  - rewrite S1, S2. apply B1; exact H.
  - rewrite S1, S2, S3. apply B2; exact H.
Qed.

(* disconnecting a connected, logged-on (or logging-out) session whose channel is open notifies and closes *)
Lemma disconnect_now_notifies x : s_out_open x = true -> (is_logged_on (s_st x) = true \/ s_st x = SLogout) ->
  In CbOnLogout (s_cbs (disconnect_now x)) /\ s_closed (disconnect_now x) = true.
Proof.
  intros Ho Hl. unfold disconnect_now. cbv zeta.
  assert (Hd : is_logged_on (s_st x) || match s_st x with SLogout => true | SLogon => initiator x | _ => false end = true).
  { destruct Hl as [Hl | Hl]; rewrite Hl; [reflexivity | apply orb_true_r]. }
  rewrite Hd.
  set (s1 := log_cb x CbOnLogout).
  assert (H2 : forall y, y = (if c_reset_on_disconnect (s_cfg s1) then drop_and_reset s1 else s1) ->
                s_out_open y = true /\ In CbOnLogout (s_cbs y)).
  { intros y ->. destruct (c_reset_on_disconnect (s_cfg s1)).
    - split; [exact Ho | right; left; reflexivity].
    - split; [exact Ho | left; reflexivity]. }
  specialize (H2 _ eq_refl). revert H2.
  generalize (if c_reset_on_disconnect (s_cfg s1) then drop_and_reset s1 else s1). intros s2 [H2o H2c].
  rewrite H2o. cbn [s_cbs s_closed upd_chan]. split; [exact H2c | reflexivity].
Qed.

Lemma lq_leave y next : is_connected next = false -> In CbOnLogout (s_cbs y) -> s_closed y = true ->
  LQ (upd_st (if s_pending_stop y then upd_flags y (s_sent_reset y) (s_hb y) true true else y) next).
Proof. intros Hn H1 H2. right. destruct (s_pending_stop y); cbn; auto. Qed.

Section LQDrain.
Variable dr : sess -> sess.
Hypothesis dr_boundary : forall x, Boundary x -> Boundary (dr x).
Hypothesis dr_lq : forall x, Boundary x -> LQ x -> LQ (dr x).

Lemma lq_set_state_with s1 next : Boundary s1 -> is_connected (s_st s1) = true ->
  (is_logged_on (s_st s1) = true \/ s_st s1 = SLogout) -> hstate next = true -> LQ (set_state_with dr s1 next).
Proof.
  intros Hb Hc Hl Hn. unfold set_state_with.
  destruct (is_connected next) eqn:En; cbn [negb].
  - left. cbn [s_st upd_st]. split; [exact En|].
    destruct next; cbn in En, Hn; try discriminate; [right; reflexivity | left; reflexivity | left; reflexivity].
  - rewrite Hc, hd_unfold, Hc. cbn [andb].
    pose proof (dr_boundary s1 Hb) as Hb0.
    pose proof (dr_lq s1 Hb (or_introl (conj Hc Hl))) as Hq0.
    destruct (is_connected (s_st (dr s1))) eqn:Ec0; cbn [negb].
    + destruct Hq0 as [[_ Hl0] | [C _]]; [|rewrite C in Ec0; discriminate].
      destruct Hb0 as [B1 _]. destruct (B1 Ec0) as [Ho0 _].
      destruct (disconnect_now_notifies (dr s1) Ho0 Hl0) as [D1 D2].
      apply lq_leave; assumption.
    + destruct Hq0 as [[C _] | (_ & D1 & D2)]; [rewrite C in Ec0; discriminate|].
      apply lq_leave; assumption.
Qed.

Lemma lq_incoming_with x m : Boundary x -> LQ x -> LQ (incoming_with dr x m).
Proof.
  intros Hb Hq. unfold incoming_with. destruct (is_connected (s_st x)) eqn:Ec; cbn [negb]; [|exact Hq].
  destruct m as [mm|]; [|exact Hq].
  destruct (state_fix_msg_in (s_st x) x mm) as [s1 next] eqn:E.
  pose proof (fr_state_fix_msg_in x _ _ _ _ _ E (same_refl x)) as Hs.
  pose proof (same_boundary x s1 Hb Hs) as Hb1.
  assert (Hst : s_st s1 = s_st x) by (destruct Hs as (_ & _ & _ & _ & _ & _ & _ & S8); exact S8).
  destruct Hq as [[_ Hl] | [C _]]; [|rewrite C in Ec; discriminate].
  apply lq_set_state_with; [exact Hb1 | rewrite Hst; exact Ec | rewrite Hst; exact Hl |].
  eapply hs_state_fix_msg_in; [exact Ec | exact E].
Qed.
End LQDrain.

Lemma lq_drain : forall fuel x, Boundary x -> LQ x -> LQ (drain_message_in fuel x).
Proof.
  induction fuel as [|f IH]; intros x Hb Hq; cbn [drain_message_in]; [exact Hq|].
  destruct (negb (s_in_open x)) eqn:Ei; [exact Hq|]. destruct (s_in_buf x) as [|m r] eqn:Eb; [exact Hq|].
  set (x0 := upd_chan x (s_out_open x) (s_in_open x) r (s_closed x)).
  assert (Hb0 : Boundary x0).
  { destruct Hb as [B1 B2]. split; cbn [x0 s_st upd_chan s_out_open s_in_open s_in_buf]; intros H.
    - apply B1; exact H.
    - destruct (B2 H) as (_ & _ & D3). rewrite D3 in Eb. discriminate. }
  assert (Hq0 : LQ x0) by exact Hq.
  apply IH.
  - apply (incoming_with_boundary (drain_message_in f) (drain_boundary f)). exact Hb0.
  - apply (lq_incoming_with (drain_message_in f) (drain_boundary f) IH); assumption.
Qed.

Lemma dead_peer_general : forall s i, Boundary s ->
  s_st s = SPending i -> is_logged_on i = true ->
  let s' := step s (ETimeout PeerTimeout) in
  s_st s' = SLatent /\ In CbOnLogout (s_cbs s') /\ s_closed s' = true.
Proof.
  intros s i Hb Hst Hl. unfold step, step_event.
  set (c := clear_logs s).
  assert (Hbc : Boundary c) by exact Hb.
  assert (Hc : s_st c = SPending i) by exact Hst.
  rewrite Hc. cbn [state_timeout].
  assert (Hconn : is_connected (s_st c) = true).
  { rewrite Hc. cbn. clear - Hl. induction i; cbn in *; try discriminate; auto. }
  assert (Hlc : is_logged_on (s_st c) = true) by (rewrite Hc; exact Hl).
  assert (Hq : LQ (set_state c SLatent)).
  { unfold set_state. apply (lq_set_state_with drain (fun x Hx => drain_boundary _ x Hx) (fun x Hx Hy => lq_drain _ x Hx Hy)); [exact Hbc | exact Hconn | left; exact Hlc | reflexivity]. }
  assert (Hs : s_st (set_state c SLatent) = SLatent).
  { unfold set_state, set_state_with. cbn [is_connected negb]. reflexivity. }
  split; [exact Hs|].
  destruct Hq as [[C _] | (_ & D1 & D2)]; [rewrite Hs in C; discriminate|]. split; assumption.
Qed.

Lemma c20_event_dead_peer : forall c i s e, Boundary s ->
  free_of [2004] (c20_event c i (obs_of s) e (obs_of (step s e))) = true.
Proof.
  intros c i s e Hb. unfold c20_event. cbn [c20_scan]. rewrite app_nil_r.
  destruct e as [| | | | | |t| | | |]; try reflexivity; try (free_rest; fail).
  destruct t; try reflexivity; try (free_rest; fail).
  change (ob_st (obs_of s)) with (shape_of (s_st s)).
  rewrite sh_logged_on_shape. destruct (is_logged_on (s_st s)) eqn:El; [|reflexivity].
  destruct (sh_is_pending (shape_of (s_st s))) eqn:Ep; [|free_rest].
  destruct (pending_shape _ Ep) as [j Hst].
  assert (Hlj : is_logged_on j = true) by (rewrite Hst in El; exact El).
  destruct (dead_peer_general s j Hb Hst Hlj) as (D1 & D2 & D3).
  change (ob_st (obs_of (step s (ETimeout PeerTimeout)))) with (shape_of (s_st (step s (ETimeout PeerTimeout)))).
  change (ob_cbs (obs_of (step s (ETimeout PeerTimeout)))) with (rev (s_cbs (step s (ETimeout PeerTimeout)))).
  change (ob_closed (obs_of (step s (ETimeout PeerTimeout)))) with (s_closed (step s (ETimeout PeerTimeout))).
  rewrite D1, D3. cbn [shape_of sh_connected negb andb].
  replace (existsb _ _) with true; [reflexivity|].
  symmetry. apply existsb_exists. exists CbOnLogout. split; [apply in_rev; rewrite rev_involutive; exact D2 | reflexivity].
Qed.

Lemma c20_scan_dead_peer : forall c es s i, Boundary s ->
  free_of [2004] (c20_scan c i (obs_of s) (combine es (map obs_of (run_trace es s)))) = true.
Proof.
  induction es as [|e r IH]; intros s i Hb; cbn [run_trace map combine]; [reflexivity|].
  rewrite c20_scan_cons, free_of_app. apply andb_true_iff; split.
  - apply c20_event_dead_peer; exact Hb.
  - apply IH. apply step_boundary; exact Hb.
Qed.

(* C20, trace level: on every trace of the model, a peer timeout while a TestRequest is outstanding disconnects the
   session, notifies the application (OnLogout) and closes the channel *)
Lemma c20_dead_peer_never_fails : forall c es,
  free_of [2004] (c20_check c (combine es (map obs_of (run_trace es (init_sess c))))) = true.
Proof. intros c es. unfold c20_check. apply c20_scan_dead_peer. apply init_boundary. Qed.

(* ---------- 2001: a TestRequest in sequence is echoed by exactly one Heartbeat carrying its id ---------- *)
From QF Require Import Session.LocalProofs Session.ReactionProofs.


Lemma plain_logged_on_handler : forall st s m, is_logged_on st = true -> sh_is_resend (shape_of st) = false ->
  state_fix_msg_in st s m = in_session_fix_msg_in s m.
Proof.
  induction st as [| | | | | a b d | j IH]; intros s m Hl Hr; cbn in Hl, Hr; try discriminate; [reflexivity|].
  cbn [state_fix_msg_in]. apply IH; assumption.
Qed.

Lemma c20_event_echo : forall c i s e, Boundary s -> s_cfg s = c ->
  free_of [2001] (c20_event c i (obs_of s) e (obs_of (step s e))) = true.
Proof.
  intros c0 i s e Hb Hcfg. subst c0. unfold c20_event. cbn [c20_scan]. rewrite app_nil_r.
  destruct e as [| | |m| | |t| | | |]; try reflexivity; try (free_rest; fail).
  rewrite !free_of_app. repeat (apply andb_true_iff; split); try (free_rest; fail).
  match goal with |- free_of _ (if ?x then _ else _) = true => destruct x eqn:Ec; [|reflexivity] end.
  destruct (mi_testreq m) as [id|] eqn:Eid; [|reflexivity].
  repeat (apply andb_true_iff in Ec as [Ec ?]).
  change (ob_st (obs_of s)) with (shape_of (s_st s)) in *. change (ob_tgt (obs_of s)) with (s_tgt s) in *.
  rewrite sh_logged_on_shape in *.
  match goal with H : negb (sh_is_resend _) = true |- _ => apply negb_true_iff in H; rename H into Hnr end.
  match goal with H : is_logged_on (s_st s) = true |- _ => rename H into Hl end.
  assert (Hq : s_to_send s = []) by (apply len0; assumption).
  assert (Ho : s_out_open s = true).
  { destruct Hb as [B1 _]. exact (proj1 (B1 (logged_on_connected _ Hl))). }
  match goal with H : msg_passes_header _ _ _ = true |- _ => pose proof (passes_hdr_ok _ _ _ H) as Hh end.
  assert (Hseq : mi_seq m = FVal (s_tgt s)).
  { destruct (mi_seq m) as [| |n]; try discriminate.
    match goal with H : (n =? s_tgt s) = true |- _ => apply Z.eqb_eq in H; rewrite H; reflexivity end. }
  assert (Hva : mi_valid m = VAccept /\ mi_app m = VAccept).
  { destruct (mi_valid m), (mi_app m); try discriminate; auto. }
  destruct Hva as [Hv Ha].
  assert (Hty : mi_type m = T_TESTREQ) by (apply beq_bytes_true; assumption).
  (* the step *)
  set (c := clear_logs s).
  assert (Estep : step s (EIncoming m) = set_state (fst (handle_test_request c m)) (snd (handle_test_request c m))).
  { unfold step, step_event, incoming, incoming_with. fold c. change (s_st c) with (s_st s).
    rewrite (logged_on_connected _ Hl). cbn [negb].
    rewrite (plain_logged_on_handler (s_st s) c m Hl Hnr).
    unfold in_session_fix_msg_in. rewrite Hty. cbn [beq_bytes]. change (beq_bytes T_TESTREQ T_LOGON) with false.
    change (beq_bytes T_TESTREQ T_LOGOUT) with false. change (beq_bytes T_TESTREQ T_RESENDREQ) with false.
    change (beq_bytes T_TESTREQ T_SEQRESET) with false. change (beq_bytes T_TESTREQ T_TESTREQ) with true. cbn iota.
    destruct (handle_test_request c m); reflexivity. }
  assert (Hadm : is_admin (mi_type m) = true) by (rewrite Hty; reflexivity).
  destruct (test_request_echoed c m id Hl Ho Hq Hh Hseq Hv Ha Hadm Eid) as (W1 & W2 & _ & W4).
  rewrite Estep, W4, (set_state_connected _ SInSession eq_refl).
  cbn [obs_of ob_wire ob_tgt upd_st s_wire s_tgt]. rewrite W1, W2. change (s_wire c) with (@nil omsg). change (s_tgt c) with (s_tgt s).
  cbn [rev app]. rewrite Z.eqb_refl.
  match goal with |- context [heartbeats [?h]] =>
    replace (heartbeats [h]) with [h] by reflexivity; replace (field_of 112 (o_body h)) with (Some id) by reflexivity end.
  cbn [opt_beq]. rewrite beq_bytes_refl. reflexivity.
Qed.

Lemma c20_scan_echo : forall es s i, Boundary s ->
  free_of [2001] (c20_scan (s_cfg s) i (obs_of s) (combine es (map obs_of (run_trace es s)))) = true.
Proof.
  induction es as [|e r IH]; intros s i Hb; cbn [run_trace map combine]; [reflexivity|].
  rewrite c20_scan_cons, free_of_app. apply andb_true_iff; split.
  - apply c20_event_echo; [exact Hb | reflexivity].
  - rewrite <- (step_cfg (s_cfg s) s e eq_refl). apply IH. apply step_boundary; exact Hb.
Qed.

(* C20, trace level: on every trace of the model a TestRequest received in sequence by a logged-on, non-recovering session
   (nothing queued or buffered) is answered by exactly one Heartbeat carrying its TestReqID and consumes its number *)
Lemma c20_echo_never_fails : forall c es,
  free_of [2001] (c20_check c (combine es (map obs_of (run_trace es (init_sess c))))) = true.
Proof. intros c es. unfold c20_check. apply (c20_scan_echo es (init_sess c)). apply init_boundary. Qed.
