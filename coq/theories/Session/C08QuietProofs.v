(* C08 at trace level, the delivery / notification clauses (803, 804, 806) on traces in which no frame is ever buffered in
   the inbound channel (no EArrive event, or InChanCapacity = 0).  These clauses are FALSE on arbitrary traces
   (C08TraceProofs.v: c08_803_refuted, c08_804_refuted, c08_806_refuted - the recorded finding drain-after-disconnect:
   drainMessageIn processes buffered frames after the close, in the old state).  Here: they hold whenever nothing is
   buffered, so the buffered-frame drain is the ONLY way the model violates them. *)
From Coq Require Import String.
From Coq Require Import ZArith List Bool Lia.
From QF Require Import Base.Bytes Session.Types Session.Model Session.Spec Session.C01Proofs Session.LocalProofs
  Session.FrameProofs Session.TraceProofs Session.RecoveryProofs Session.ReactionProofs Session.TgProofs
  Session.ResendInvProofs Session.C08WireProofs Session.C08CbProofs Session.C08TraceProofs.
Import ListNotations.
Open Scope list_scope.
Open Scope Z_scope.

(* ---------- setState when nothing is buffered ---------- *)
Lemma drain_quiet s : s_in_buf s = [] -> drain s = s.
Proof.
  intros H. unfold drain. rewrite H. cbn [length drain_message_in].
  destruct (negb (s_in_open s)); [reflexivity|]. rewrite H. reflexivity.
Qed.

(* handleDisconnectState notifies the application iff the session was logged on, had sent its Logout, or is an
   initiator whose Logon was never answered *)
Definition dol (s : sess) : bool :=
  is_logged_on (s_st s) || match s_st s with SLogout => true | SLogon => initiator s | _ => false end.

Lemma set_state_quiet s1 next : s_in_buf s1 = [] ->
  let s' := set_state s1 next in
  s_st s' = next /\ s_in_buf s' = []
  /\ (is_connected next = true -> s_cbs s' = s_cbs s1 /\ s_closed s' = s_closed s1)
  /\ (is_connected next = false -> is_connected (s_st s1) = false -> s_cbs s' = s_cbs s1 /\ s_closed s' = s_closed s1)
  /\ (is_connected next = false -> is_connected (s_st s1) = true ->
      exists rd : bool, s_cbs s' = (if rd then [CbStoreReset] else []) ++ (if dol s1 then [CbOnLogout] else []) ++ s_cbs s1).
Proof.
  intros Hb s'. unfold s', set_state. split; [apply s_st_set_state_with|].
  unfold set_state_with. destruct (is_connected next) eqn:En; cbn [negb].
  - split; [exact Hb|]. split; [intros _; split; reflexivity|]. split; intros X; discriminate X.
  - destruct (is_connected (s_st s1)) eqn:Ec.
    + unfold handle_disconnect_state. cbv zeta. fold (dol s1).
      match goal with |- context [drain ?x] => assert (Hx : s_in_buf x = []) by
        (repeat match goal with |- context [if ?b then _ else _] => destruct b end; exact Hb);
        rewrite (drain_quiet x Hx) end.
      split; [destruct (s_pending_stop _); reflexivity|].
      split; [intros X; discriminate X|]. split; [intros _ X; discriminate X|]. intros _ _.
      exists (c_reset_on_disconnect (s_cfg s1)).
      destruct (dol s1); cbn [s_cfg log_cb upd_logs]; destruct (c_reset_on_disconnect (s_cfg s1));
        repeat match goal with |- context [if ?b then _ else _] => destruct b end; reflexivity.
    + split; [destruct (s_pending_stop s1); exact Hb|].
      split; [intros X; discriminate X|]. split; [intros _ _; destruct (s_pending_stop s1); split; reflexivity|].
      intros _ X; discriminate X.
Qed.

(* ---------- the callbacks of logonState.FixMsgIn ---------- *)
Definition CbP (P : cb -> Prop) (s0 s : sess) : Prop := exists new, s_cbs s = new ++ s_cbs s0 /\ Forall P new.
Lemma cbp_refl P s : CbP P s s.
Proof. exists []. split; [reflexivity | constructor]. Qed.
Lemma cbp_trans P a b c : CbP P a b -> CbP P b c -> CbP P a c.
Proof.
  intros (n1 & A1 & A2) (n2 & B1 & B2). exists (n2 ++ n1). split; [rewrite B1, A1, app_assoc; reflexivity|].
  apply Forall_app; split; assumption.
Qed.
Lemma cbp_of_cbr l (P : cb -> Prop) a b : (forall c, cb_ok l c -> P c) -> CbR l a b -> CbP P a b.
Proof. intros H (n & A1 & A2). exists n. split; [exact A1|]. eapply Forall_impl; [|exact A2]. exact H. Qed.

(* before the handshake completes: ToAdmin, ToApp, StoreReset, FromAdmin *)
Definition pre_cb (c : cb) : Prop :=
  match c with CbToAdmin _ | CbToApp _ _ | CbStoreReset | CbFromAdmin _ _ _ => True | _ => False end.
(* what logonState may log: anything but FromApp and OnLogout *)
Definition logon_cb (c : cb) : Prop := match c with CbFromApp _ _ _ _ | CbOnLogout => False | _ => True end.
Lemma boring_pre c : cb_ok Lboring c -> pre_cb c.
Proof. destruct c; cbn; auto. Qed.
Lemma pre_logon c : pre_cb c -> logon_cb c.
Proof. destruct c; cbn; auto. Qed.
Lemma boring_logon c : cb_ok Lboring c -> logon_cb c.
Proof. intros H. apply pre_logon, boring_pre, H. Qed.
Lemma pre_no_onlogon l : Forall pre_cb l -> ~ In CbOnLogon l.
Proof. intros H Hi. rewrite Forall_forall in H. exact (H _ Hi). Qed.
Lemma boring_no_onlogon l : Forall (cb_ok Lboring) l -> ~ In CbOnLogon l.
Proof. intros H Hi. rewrite Forall_forall in H. exact (H _ Hi). Qed.

Lemma logon_is_admin t : beq_bytes t T_LOGON = true -> is_admin t = true.
Proof. intros H. unfold is_admin. rewrite H. rewrite orb_true_r. reflexivity. Qed.

Lemma verify_app_admin s m x r : verify_msg_against_app_impl s m = (x, r) -> is_admin (mi_type m) = true ->
  CbP pre_cb s x /\ (forall a b, r <> Some (RTooHigh a b)).
Proof.
  intros E Ha. unfold verify_msg_against_app_impl in E. rewrite Ha in E.
  destruct (mi_valid m); cbn [rej_of_verdict] in E.
  - inversion E; subst. split.
    + exists [CbFromAdmin (mi_type m) (mi_seq m) (facts_of m)]. split; [reflexivity | constructor; [exact I | constructor]].
    + intros a b. destruct (mi_app m); cbn [rej_of_verdict]; intro X; discriminate X.
  - inversion E; subst. split; [apply cbp_refl | intros a b X; discriminate X].
  - inversion E; subst. split; [apply cbp_refl | intros a b X; discriminate X].
Qed.

Lemma verify_select_noapp s m hi lo s1 r : verify_select s m hi lo false = (s1, r) -> s1 = s.
Proof. intros E. unfold verify_select in E. brk_in E; inversion E; reflexivity. Qed.

Lemma verify_select_low_ok s m hi app s1 : verify_select s m hi true app = (s1, None) -> exists n, mi_seq m = FVal n.
Proof.
  intros E. unfold verify_select in E.
  destruct (check_begin_string s m); [inversion E|]. destruct (check_comp_id s m); [inversion E|].
  destruct (match s_st s with SResend _ _ _ => None | _ => check_sending_time s m end); [inversion E|].
  unfold check_target_too_low in E. destruct (mi_seq m) as [| |n]; try (inversion E; fail). exists n. reflexivity.
Qed.

Lemma handle_logon_cbs : forall s m s1 r, handle_logon s m = (s1, r) -> is_admin (mi_type m) = true ->
  exists new, s_cbs s1 = new ++ s_cbs s /\ Forall logon_cb new
    /\ ((r = None \/ exists a b, r = Some (RTooHigh a b)) -> In CbOnLogon new)
    /\ (In CbOnLogon new -> r = None \/ exists a b, r = Some (RTooHigh a b)).
Proof.
  intros s m s1 r E Ha. unfold handle_logon in E.
  destruct (if c_begin (s_cfg s) =? 5 then match mi_applver m with None => Some (R_cond_missing 1137) | Some _ => None end else None) as [r0|] eqn:E0.
  { destruct (c_begin (s_cfg s) =? 5); [|discriminate]. destruct (mi_applver m); inversion E0; subst. inversion E; subst.
    exists []. split; [reflexivity|]. split; [constructor|]. split.
    - intros [Hr|(a & b & Hr)]; discriminate Hr.
    - intros []. }
  destruct (verify_msg_against_app_impl s m) as [x [r1|]] eqn:Ea.
  { destruct (verify_app_admin s m x _ Ea Ha) as ((new & A1 & A2) & A3). inversion E; subst.
    exists new. split; [exact A1|]. split; [eapply Forall_impl; [|exact A2]; exact pre_logon|]. split.
    - intros [Hr|(a & b & Hr)]; [discriminate Hr | exfalso; exact (A3 a b Hr)].
    - intros Hi. exfalso. exact (pre_no_onlogon new A2 Hi). }
  destruct (verify_app_admin s m x _ Ea Ha) as (Px & _).
  cbv zeta in E.
  match type of E with context [verify_select ?a m false true false] =>
    assert (Pa : CbP pre_cb s a) by
      (eapply cbp_trans; [exact Px|]; apply (cbp_of_cbr Lboring); [exact boring_pre|]; cb_go);
    destruct (verify_select a m false true false) as [y [r1|]] eqn:Ev;
    pose proof (verify_select_noapp _ _ _ _ _ _ Ev) as Ey; subst y; set (a0 := a) in * end.
  { inversion E; subst. destruct Pa as (new & A1 & A2).
    exists new. split; [exact A1|]. split; [eapply Forall_impl; [|exact A2]; exact pre_logon|]. split.
    - intros [Hr|(a & b & Hr)]; [discriminate Hr|]. inversion Hr; subst.
      pose proof (verify_select_too_high_hi _ _ _ _ _ _ _ _ Ev). discriminate.
    - intros Hi. exfalso. exact (pre_no_onlogon new A2 Hi). }
  destruct (verify_select_low_ok _ _ _ _ _ Ev) as (n & Hn).
  match type of E with context [log_cb (set_sent_reset ?s4 false) CbOnLogon] =>
    assert (P4 : CbP pre_cb s s4) by
      (eapply cbp_trans; [exact Pa|]; apply (cbp_of_cbr Lboring); [exact boring_pre|]; cb_go);
    set (s4' := s4) in * end.
  destruct P4 as (new & A1 & A2).
  assert (Hres : r = None \/ exists a b, r = Some (RTooHigh a b)).
  { unfold check_target_too_high in E. rewrite Hn in E. destruct (_ <? n); inversion E; subst; eauto. }
  exists (CbOnLogon :: new). split.
  { unfold check_target_too_high in E. rewrite Hn in E. destruct (_ <? n); inversion E; subst; cbn; rewrite A1; reflexivity. }
  split; [constructor; [exact I | eapply Forall_impl; [|exact A2]; exact pre_logon]|].
  split; [intros _; left; reflexivity | intros _; exact Hres].
Qed.

Lemma logon_state_cbs : forall s m s1 next, logon_state_fix_msg_in s m = (s1, next) ->
  exists new, s_cbs s1 = new ++ s_cbs s /\ Forall logon_cb new
    /\ (is_connected next = true -> In CbOnLogon new /\ is_logged_on next = true)
    /\ (is_connected next = false -> ~ In CbOnLogon new).
Proof.
  intros s m s1 next E. unfold logon_state_fix_msg_in in E.
  destruct (beq_bytes (mi_type m) T_LOGON) eqn:Et; cbn [negb] in E.
  2: { inversion E; subst. exists []. split; [reflexivity|]. split; [constructor|]. split; [intros X; discriminate X | intros _ []]. }
  pose proof (logon_is_admin _ Et) as Ha.
  destruct (handle_logon s m) as [x r] eqn:Eh.
  destruct (handle_logon_cbs s m x r Eh Ha) as (new & A1 & A2 & A3 & A4).
  assert (Hlow : forall y st, CbR Lboring x y -> s1 = y -> next = st -> is_connected st = false ->
                  ~ (r = None \/ exists a b, r = Some (RTooHigh a b)) ->
                  exists new0, s_cbs s1 = new0 ++ s_cbs s /\ Forall logon_cb new0
                    /\ (is_connected next = true -> In CbOnLogon new0 /\ is_logged_on next = true)
                    /\ (is_connected next = false -> ~ In CbOnLogon new0)).
  { intros y st (nb & B1 & B2) -> -> Hc Hr. exists (nb ++ new). split; [rewrite B1, A1, app_assoc; reflexivity|].
    split; [apply Forall_app; split; [eapply Forall_impl; [|exact B2]; exact boring_logon | exact A2]|].
    split; [intros X; rewrite Hc in X; discriminate X|]. intros _ Hi. apply in_app_or in Hi as [Hi|Hi].
    - exact (boring_no_onlogon nb B2 Hi).
    - exact (Hr (A4 Hi)). }
  destruct r as [r|].
  - destruct r as [recv exp|recv exp| | |reason tag bus].
    + (* too high: the resend request is queued, the session is logged on *)
      unfold do_target_too_high in E. destruct (send_resend_request_next _ _ _ _ _ E) as (c0 & en & ->).
      assert (Hb : CbR Lboring x s1) by (eapply cb_send_resend_request; [exact E | apply cbr_refl]).
      destruct Hb as (nb & B1 & B2). exists (nb ++ new). split; [rewrite B1, A1, app_assoc; reflexivity|].
      split; [apply Forall_app; split; [eapply Forall_impl; [|exact B2]; exact boring_logon | exact A2]|].
      split; [|intros X; discriminate X]. intros _. split; [|reflexivity]. apply in_or_app. right. apply A3. right. eauto.
    + unfold shutdown_with_reason in E.
      eapply (Hlow _ SLatent); [| inversion E; reflexivity | inversion E; reflexivity | reflexivity |].
      * cb_go.
      * intros [Hr|(a & b & Hr)]; discriminate Hr.
    + inversion E; subst. eapply (Hlow _ SLatent); [apply cbr_refl | reflexivity | reflexivity | reflexivity |].
      intros [Hr|(a & b & Hr)]; discriminate Hr.
    + unfold shutdown_with_reason in E.
      eapply (Hlow _ SLatent); [| inversion E; reflexivity | inversion E; reflexivity | reflexivity |].
      * cb_go.
      * intros [Hr|(a & b & Hr)]; discriminate Hr.
    + inversion E; subst. eapply (Hlow _ SLatent); [apply cbr_refl | reflexivity | reflexivity | reflexivity |].
      intros [Hr|(a & b & Hr)]; discriminate Hr.
  - inversion E; subst. exists new. split; [exact A1|]. split; [exact A2|]. split; [|intros X; discriminate X].
    intros _. split; [apply A3; left; reflexivity | reflexivity].
Qed.

(* ---------- the callback part of the automaton of c08_check ---------- *)
Definition no_fromapp (c : cb) : Prop := match c with CbFromApp _ _ _ _ => False | _ => True end.
(* what handleDisconnectState logs, in order: the logout notification (dol), the store reset of ResetOnDisconnect (rd) *)
Definition dcs (dol rd : bool) : list cb := (if dol then [CbOnLogout] else []) ++ (if rd then [CbStoreReset] else []).

Lemma fold_steps_app {A} (f : c08_st -> A -> c08_st * list Z) : forall l1 l2 k,
  fst (fold_steps f k (l1 ++ l2)) = fst (fold_steps f (fst (fold_steps f k l1)) l2)
  /\ snd (fold_steps f k (l1 ++ l2)) = snd (fold_steps f k l1) ++ snd (fold_steps f (fst (fold_steps f k l1)) l2).
Proof.
  induction l1 as [|x r IH]; intros l2 k; cbn [app fold_steps fst snd]; [split; reflexivity|].
  destruct (f k x) as [k1 e1]. destruct (IH l2 k1) as [A1 A2].
  destruct (fold_steps f k1 (r ++ l2)) as [k2 e2]. destruct (fold_steps f k1 r) as [k3 e3]. cbn [fst snd] in *.
  split; [exact A1|]. rewrite A2, app_assoc. reflexivity.
Qed.

Lemma cb_fold_handler : forall hc k, Forall (cb_ok Lnologout) hc -> (k_logged k = false -> Forall no_fromapp hc) ->
  snd (fold_steps c08_cb_step k hc) = [] /\ k_logged (fst (fold_steps c08_cb_step k hc)) = k_logged k || has_onlogon hc.
Proof.
  induction hc as [|c r IH]; intros k H1 H2; cbn [fold_steps fst snd has_onlogon existsb]; [rewrite orb_false_r; split; reflexivity|].
  inversion H1 as [|c' r' Hc Hr]; subst.
  assert (Hstep : exists k1, c08_cb_step k c = (k1, [])
                   /\ k_logged k1 = (k_logged k || match c with CbOnLogon => true | _ => false end)
                   /\ (k_logged k1 = false -> k_logged k = false)).
  { destruct c; cbn [c08_cb_step]; try (eexists; split; [reflexivity|]; split; [rewrite orb_false_r; reflexivity | auto]).
    - destruct (k_logged k) eqn:El.
      + eexists; split; [reflexivity|]. split; [rewrite El; reflexivity | intros X; rewrite El in X; discriminate X].
      + exfalso. specialize (H2 eq_refl). inversion H2 as [|c' r' Hf _]; subst. exact Hf.
    - eexists; split; [reflexivity|]. cbn [k_logged]. split; [rewrite orb_true_r; reflexivity | intros X; discriminate X].
    - exfalso. apply Hc. reflexivity. }
  destruct Hstep as (k1 & E1 & L1 & L2). rewrite E1.
  destruct (IH k1 Hr) as [A1 A2].
  { intros X. specialize (H2 (L2 X)). inversion H2; assumption. }
  destruct (fold_steps c08_cb_step k1 r) as [k2 e2]. cbn [fst snd] in *.
  split; [rewrite A1; reflexivity|]. rewrite A2, L1. fold (has_onlogon r). rewrite orb_assoc. reflexivity.
Qed.

Lemma cb_fold_disconnect k dol rd :
  snd (fold_steps c08_cb_step k (dcs dol rd)) = []
  /\ k_logged (fst (fold_steps c08_cb_step k (dcs dol rd))) = (if dol then false else k_logged k).
Proof. destruct dol, rd; cbn; try destruct (_ || _); split; reflexivity. Qed.

Lemma faL_handler : forall hc dc, Forall (cb_ok Lnologout) hc ->
  fromapp_after_logout false (hc ++ dc) = fromapp_after_logout false dc.
Proof.
  induction hc as [|c r IH]; intros dc H; cbn [app]; [reflexivity|].
  inversion H as [|c' r' Hc Hr]; subst. destruct c; cbn [fromapp_after_logout orb]; try (apply IH; exact Hr).
  exfalso. apply Hc. reflexivity.
Qed.

Lemma count_onlogout_handler : forall hc, Forall (cb_ok Lnologout) hc -> count_onlogout hc = 0%nat.
Proof.
  induction hc as [|c r IH]; intros H; [reflexivity|]. inversion H as [|c' r' Hc Hr]; subst.
  unfold count_onlogout in *. cbn [filter]. destruct c; try (apply IH; exact Hr). exfalso. apply Hc. reflexivity.
Qed.

Lemma has_onlogon_app a b : has_onlogon (a ++ b) = has_onlogon a || has_onlogon b.
Proof. unfold has_onlogon. apply existsb_app. Qed.
Lemma has_onlogon_in a : has_onlogon a = true <-> In CbOnLogon a.
Proof.
  unfold has_onlogon. rewrite existsb_exists. split.
  - intros (x & H1 & H2). destruct x; try discriminate H2. exact H1.
  - intros H. exists CbOnLogon. split; [exact H | reflexivity].
Qed.
Lemma has_onlogon_rev a : has_onlogon (rev a) = has_onlogon a.
Proof.
  destruct (has_onlogon a) eqn:E.
  - apply has_onlogon_in. rewrite <- in_rev. apply has_onlogon_in. exact E.
  - destruct (has_onlogon (rev a)) eqn:E2; [|reflexivity].
    apply has_onlogon_in in E2. rewrite <- in_rev in E2. apply has_onlogon_in in E2. congruence.
Qed.

Lemma wire_fold_codes_any : forall w k x, In x (snd (fold_steps c08_wire_step k w)) -> x = 801 \/ x = 802 \/ x = 805.
Proof.
  induction w as [|m r IH]; intros k x Hx; cbn [fold_steps] in Hx; [destruct Hx|].
  destruct (c08_wire_step k m) as [k1 e1] eqn:E1. destruct (fold_steps c08_wire_step k1 r) as [k2 e2] eqn:E2.
  cbn [snd] in Hx. apply in_app_or in Hx as [Hx|Hx].
  - unfold c08_wire_step in E1. inversion E1 as [[Hk1 He1]]. clear E1. rewrite <- He1 in Hx.
    apply in_app_or in Hx as [Hx|Hx]; [destruct (k_connected k); [destruct Hx | destruct Hx as [Hx|[]]; auto]|].
    apply in_app_or in Hx as [Hx|Hx].
    + destruct (k_first_sent k); [destruct Hx|]. destruct (_ || _); [destruct Hx | destruct Hx as [Hx|[]]; auto].
    + destruct (_ && _); [destruct Hx as [Hx|[]]; auto | destruct Hx].
  - apply (IH k1). rewrite E2. exact Hx.
Qed.

(* one event of c08_scan whose callbacks are "handler part, then disconnect part" *)
Lemma event_codes_quiet k e o hc dol rd :
  ob_cbs o = hc ++ dcs dol rd -> Forall (cb_ok Lnologout) hc ->
  (k_logged (c08_k0 k e) = false -> Forall no_fromapp hc) ->
  (ob_closed o = true -> dol = true \/ (k_logged (c08_k0 k e) = false /\ has_onlogon hc = false)) ->
  (forall x, In x (c08_event_codes k e o) -> ~ In x [803; 804; 806])
  /\ k_logged (c08_next k e o) = (if dol then false else k_logged (c08_k0 k e) || has_onlogon hc).
Proof.
  intros Hcbs Hh Hf Hcl.
  destruct (fold_steps_app c08_cb_step hc (dcs dol rd) (c08_k0 k e)) as [F1 F2].
  destruct (cb_fold_handler hc (c08_k0 k e) Hh Hf) as [G1 G2].
  destruct (cb_fold_disconnect (fst (fold_steps c08_cb_step (c08_k0 k e) hc)) dol rd) as [D1 D2].
  assert (Hk1 : k_logged (fst (fold_steps c08_cb_step (c08_k0 k e) (ob_cbs o)))
                = (if dol then false else k_logged (c08_k0 k e) || has_onlogon hc)).
  { rewrite Hcbs, F1, D2, G2. reflexivity. }
  assert (He1 : snd (fold_steps c08_cb_step (c08_k0 k e) (ob_cbs o)) = []).
  { rewrite Hcbs, F2, G1, D1. reflexivity. }
  split; [|unfold c08_next; cbv zeta; cbn [k_logged]; exact Hk1].
  intros x Hx. unfold c08_event_codes in Hx. cbv zeta in Hx. rewrite He1, Hk1 in Hx.
  assert (Hfa : fromapp_after_logout false (ob_cbs o) = false).
  { rewrite Hcbs, faL_handler by exact Hh. destruct dol, rd; reflexivity. }
  rewrite Hfa in Hx. cbn [app] in Hx.
  apply in_app_or in Hx as [Hx|Hx].
  { apply wire_fold_codes_any in Hx. intros [H|[H|[H|[]]]]; subst x; destruct Hx as [Hx|[Hx|Hx]]; discriminate Hx. }
  exfalso. apply in_app_or in Hx as [Hx|Hx].
  - (* 804 *)
    assert (Hc : Nat.ltb 1 (count_onlogout (ob_cbs o)) = false).
    { rewrite Hcbs. unfold count_onlogout. rewrite filter_app, app_length.
      fold (count_onlogout hc). rewrite (count_onlogout_handler hc Hh). destruct dol, rd; reflexivity. }
    rewrite Hc in Hx. destruct Hx.
  - (* 806 *)
    destruct (ob_closed o) eqn:Ec; [|destruct Hx]. cbn [andb] in Hx.
    destruct (Hcl eq_refl) as [-> | [A1 A2]]; [destruct Hx|].
    rewrite A1, A2 in Hx. destruct dol; destruct Hx.
Qed.

(* ---------- the model side: one event when nothing is buffered ---------- *)
(* "inside a logon" as the automaton counts it: logged on, or the engine's Logout sent and the connection still up *)
Definition gl (st : sstate) : bool := is_logged_on st || match st with SLogout => true | _ => false end.

Lemma gl_connected st : gl st = true -> is_connected st = true.
Proof.
  unfold gl. intros H. apply orb_true_iff in H as [H|H]; [apply logged_on_connected; exact H|].
  destruct st; try discriminate H. reflexivity.
Qed.
Lemma notconn_gl st : is_connected st = false -> gl st = false.
Proof. intros H. destruct (gl st) eqn:E; [|reflexivity]. apply gl_connected in E. congruence. Qed.
Lemma gst_conn_gl st : gst st = true -> is_connected st = true -> gl st = true.
Proof. unfold gl. destruct st; cbn; intros H1 H2; try discriminate; try reflexivity. rewrite H1. reflexivity. Qed.
Lemma gl_gst st : gl st = true -> gst st = true.
Proof.
  unfold gl. intros H. apply orb_true_iff in H as [H|H]; [apply gst_logged_on; exact H|]. destruct st; try discriminate H. reflexivity.
Qed.
Lemma gl_dol s : gl (s_st s) = true -> dol s = true.
Proof.
  unfold gl, dol. intros H. apply orb_true_iff in H as [H|H]; [rewrite H; reflexivity|].
  destruct (s_st s); try discriminate H. rewrite orb_true_r. reflexivity.
Qed.
Lemma ws_cases st : gst st = true \/ st = SLogon -> st = SLatent \/ st = SLogon \/ gl st = true.
Proof.
  intros [H|H]; [|auto]. destruct st; cbn in H; try discriminate H; auto; right; right; unfold gl; cbn; try reflexivity.
  rewrite H. reflexivity.
Qed.
Lemma boring_has_onlogon l : Forall (cb_ok Lboring) l -> has_onlogon l = false.
Proof.
  intros H. destruct (has_onlogon l) eqn:E; [|reflexivity]. apply has_onlogon_in in E. exfalso. exact (boring_no_onlogon l H E).
Qed.
Lemma boring_no_fromapp c : cb_ok Lboring c -> no_fromapp c.
Proof. destruct c; cbn; auto. Qed.

Definition QStep (st : sstate) (s' : sess) : Prop :=
  exists hc dl rd,
    rev (s_cbs s') = hc ++ dcs dl rd /\ Forall (cb_ok Lnologout) hc
    /\ (gl st = false -> Forall no_fromapp hc)
    /\ (s_closed s' = true -> dl = true \/ (gl st = false /\ has_onlogon hc = false))
    /\ gl (s_st s') = (if dl then false else gl st || has_onlogon hc)
    /\ s_in_buf s' = [] /\ (gst (s_st s') = true \/ s_st s' = SLogon).

(* a handler result: frame, callbacks added, next state *)
Definition HOK (c s1 : sess) (next : sstate) : Prop :=
  Same c s1 /\ exists new, s_cbs s1 = new ++ s_cbs c /\ Forall (cb_ok Lnologout) new
    /\ (gl (s_st c) = false -> Forall no_fromapp new)
    /\ (is_connected next = true -> gl next = gl (s_st c) || has_onlogon new)
    /\ (is_connected next = false -> gl (s_st c) = false -> has_onlogon new = false)
    /\ (gst next = true \/ next = SLogon).

Lemma hok_finish c s1 next : s_cbs c = [] -> s_closed c = false -> s_in_buf c = [] ->
  HOK c s1 next -> QStep (s_st c) (set_state s1 next).
Proof.
  intros Hcb Hcl Hib ((S1 & S2 & S3 & S4 & S5 & S6 & S7 & S8) & new & A1 & A2 & A3 & A4 & A5 & A6).
  rewrite Hcb, app_nil_r in A1.
  assert (Hib1 : s_in_buf s1 = []) by congruence.
  destruct (set_state_quiet s1 next Hib1) as (Q1 & Q2 & Q3 & Q4 & Q5).
  unfold QStep. rewrite Q1.
  destruct (is_connected next) eqn:En.
  - destruct (Q3 eq_refl) as [C1 C2]. exists (rev new), false, false.
    split; [rewrite C1, A1; cbn [dcs app]; rewrite app_nil_r; reflexivity|].
    split; [apply Forall_rev; exact A2|].
    split; [intros X; apply Forall_rev; exact (A3 X)|].
    split; [rewrite C2, S7, Hcl; intros X; discriminate X|].
    split; [rewrite has_onlogon_rev; exact (A4 eq_refl)|]. split; [exact Q2 | exact A6].
  - destruct (is_connected (s_st s1)) eqn:Ec.
    + destruct (Q5 eq_refl eq_refl) as (rd & C1). exists (rev new), (dol s1), rd.
      split. { rewrite C1, A1. unfold dcs. destruct (dol s1), rd; cbn [app rev]; rewrite ?app_nil_r, <- ?app_assoc; reflexivity. }
      split; [apply Forall_rev; exact A2|].
      split; [intros X; apply Forall_rev; exact (A3 X)|].
      rewrite has_onlogon_rev.
      split.
      { intros _. destruct (gl (s_st c)) eqn:Eg.
        - left. apply gl_dol. rewrite S8. exact Eg.
        - right. split; [reflexivity | exact (A5 eq_refl eq_refl)]. }
      split.
      { rewrite (notconn_gl next En). destruct (dol s1) eqn:Ed; [reflexivity|].
        destruct (gl (s_st c)) eqn:Eg.
        - rewrite <- S8 in Eg. apply gl_dol in Eg. congruence.
        - rewrite (A5 eq_refl eq_refl). reflexivity. }
      split; [exact Q2 | exact A6].
    + destruct (Q4 eq_refl eq_refl) as [C1 C2]. exists (rev new), false, false.
      assert (Eg : gl (s_st c) = false) by (apply notconn_gl; rewrite <- S8; exact Ec).
      split; [rewrite C1, A1; cbn [dcs app]; rewrite app_nil_r; reflexivity|].
      split; [apply Forall_rev; exact A2|].
      split; [intros X; apply Forall_rev; exact (A3 X)|].
      split; [rewrite C2, S7, Hcl; intros X; discriminate X|].
      split; [rewrite has_onlogon_rev, (notconn_gl next En), Eg, (A5 eq_refl Eg); reflexivity|].
      split; [exact Q2 | exact A6].
Qed.

Lemma plain_finish st s' : Forall (cb_ok Lboring) (s_cbs s') -> s_closed s' = false -> s_in_buf s' = [] ->
  gl (s_st s') = gl st -> (gst (s_st s') = true \/ s_st s' = SLogon) -> QStep st s'.
Proof.
  intros Hb Hc Hi Hg Hw. exists (rev (s_cbs s')), false, false.
  split; [cbn [dcs app]; rewrite app_nil_r; reflexivity|].
  split; [apply Forall_rev; eapply Forall_impl; [|exact Hb]; exact cb_ok_weaken|].
  split; [intros _; apply Forall_rev; eapply Forall_impl; [|exact Hb]; exact boring_no_fromapp|].
  split; [rewrite Hc; intros X; discriminate X|].
  split; [rewrite has_onlogon_rev, (boring_has_onlogon _ Hb), orb_false_r; exact Hg|].
  split; assumption.
Qed.

Lemma logon_cb_nologout c : logon_cb c -> cb_ok Lnologout c.
Proof. destruct c; cbn; intros H; try contradiction; intro X; discriminate X. Qed.
Lemma logon_cb_no_fromapp c : logon_cb c -> no_fromapp c.
Proof. destruct c; cbn; auto. Qed.

(* State.FixMsgIn from a connected, well-shaped state *)
Lemma hok_state_fix c m s1 next : is_connected (s_st c) = true -> (gst (s_st c) = true \/ s_st c = SLogon) ->
  state_fix_msg_in (s_st c) c m = (s1, next) -> HOK c s1 next.
Proof.
  intros Hc Hw E. split; [eapply fr_state_fix_msg_in; [exact E | apply same_refl]|].
  pose proof (state_fix_next _ _ _ _ _ Hw E) as Hn.
  destruct Hw as [Hw|Hw].
  - (* logged on, or logout sent *)
    pose proof (gst_conn_gl _ Hw Hc) as Hg.
    destruct (cb_state_fix_msg_in c _ _ _ _ _ E (cbr_refl Lnologout c)) as (new & A1 & A2).
    exists new. split; [exact A1|]. split; [exact A2|]. rewrite Hg.
    split; [intros X; discriminate X|]. split; [intros X; cbn [orb]; apply gst_conn_gl; assumption|].
    split; [intros _ X; discriminate X | left; exact Hn].
  - (* logonState *)
    rewrite Hw in E. cbn [state_fix_msg_in] in E.
    destruct (logon_state_cbs c m s1 next E) as (new & A1 & A2 & A3 & A4).
    exists new. split; [exact A1|]. split; [eapply Forall_impl; [|exact A2]; exact logon_cb_nologout|].
    rewrite Hw. change (gl SLogon) with false. cbn [orb].
    split; [intros _; eapply Forall_impl; [|exact A2]; exact logon_cb_no_fromapp|].
    split.
    { intros X. destruct (A3 X) as [B1 B2]. unfold gl. rewrite B2. cbn [orb]. symmetry. apply has_onlogon_in. exact B1. }
    split; [|left; exact Hn].
    intros X _. destruct (has_onlogon new) eqn:Eh; [|reflexivity]. apply has_onlogon_in in Eh. exfalso. exact (A4 X Eh).
Qed.

Lemma hok_unchanged c next : (is_connected next = true -> gl next = gl (s_st c)) ->
  (gst next = true \/ next = SLogon) -> HOK c c next.
Proof.
  intros H1 H2. split; [apply same_refl|]. exists []. split; [reflexivity|]. split; [constructor|].
  split; [intros _; constructor|]. split; [intros X; rewrite (H1 X); cbn; rewrite orb_false_r; reflexivity|].
  split; [intros _ _; reflexivity | exact H2].
Qed.

Lemma hok_state_timeout c t s1 next : (gst (s_st c) = true \/ s_st c = SLogon) ->
  state_timeout (s_st c) c t = (s1, next) -> HOK c s1 next.
Proof.
  intros Hw E. destruct (ws_cases _ Hw) as [Hs|[Hs|Hg]].
  - rewrite Hs in E. cbn [state_timeout] in E. inversion E; subst. apply hok_unchanged; [intros X; discriminate X | left; reflexivity].
  - rewrite Hs in E. cbn [state_timeout] in E.
    destruct t; inversion E; subst; apply hok_unchanged; try (intros X; rewrite Hs; reflexivity); try (intros X; discriminate X); auto.
  - split; [eapply fr_state_timeout; [exact E | apply same_refl]|].
    destruct (cb_state_timeout c _ _ _ _ _ E (cbr_refl Lnologout c)) as (new & A1 & A2).
    assert (Hn : gst next = true).
    { destruct (state_timeout_next _ _ _ _ _ Hw E) as [H|[_ H]]; [exact H|]. rewrite H in Hg. discriminate Hg. }
    exists new. split; [exact A1|]. split; [exact A2|]. rewrite Hg.
    split; [intros X; discriminate X|]. split; [intros X; cbn [orb]; apply gst_conn_gl; assumption|].
    split; [intros _ X; discriminate X | left; exact Hn].
Qed.

Lemma hok_state_stop c s1 next : (gst (s_st c) = true \/ s_st c = SLogon) ->
  state_stop (s_st c) c = (s1, next) -> HOK c s1 next.
Proof.
  intros Hw E. destruct (ws_cases _ Hw) as [Hs|[Hs|Hg]].
  - rewrite Hs in E. cbn [state_stop] in E. inversion E; subst. apply hok_unchanged; [intros X; discriminate X | left; reflexivity].
  - rewrite Hs in E. cbn [state_stop] in E. inversion E; subst. apply hok_unchanged; [intros X; discriminate X | left; reflexivity].
  - split; [eapply fr_state_stop; [exact E | apply same_refl]|].
    destruct (cb_state_stop c _ _ _ _ E (cbr_refl Lnologout c)) as (new & A1 & A2).
    pose proof (state_stop_next _ _ _ _ Hw E) as Hn.
    exists new. split; [exact A1|]. split; [exact A2|]. rewrite Hg.
    split; [intros X; discriminate X|]. split; [intros X; cbn [orb]; apply gst_conn_gl; assumption|].
    split; [intros _ X; discriminate X | left; exact Hn].
Qed.

Lemma plain_same c x : s_cbs c = [] -> s_closed c = false -> s_in_buf c = [] ->
  (gst (s_st c) = true \/ s_st c = SLogon) -> Same c x -> CbR Lboring c x -> QStep (s_st c) x.
Proof.
  intros Hcb Hcl Hib Hw (S1 & S2 & S3 & S4 & S5 & S6 & S7 & S8) (new & A1 & A2).
  rewrite Hcb, app_nil_r in A1. apply plain_finish.
  - rewrite A1. exact A2.
  - congruence.
  - congruence.
  - rewrite S8. reflexivity.
  - rewrite S8. exact Hw.
Qed.

(* an event that buffers nothing: every event but an arrival into a channel with room *)
Definition quiet_ev (c : cfg) (e : event) : Prop := match e with EArrive _ => c_in_cap c = 0%nat | _ => True end.

Lemma quiet_step : forall s e, s_in_buf s = [] -> (gst (s_st s) = true \/ s_st s = SLogon) -> quiet_ev (s_cfg s) e ->
  QStep (s_st s) (step s e).
Proof.
  intros s e Hib0 Hw0 Hq0. unfold step.
  change (s_st s) with (s_st (clear_logs s)). change (s_st s) with (s_st (clear_logs s)) in Hw0.
  change (s_cfg s) with (s_cfg (clear_logs s)) in Hq0.
  assert (Hcb : s_cbs (clear_logs s) = []) by reflexivity.
  assert (Hcl : s_closed (clear_logs s) = false) by reflexivity.
  assert (Hib : s_in_buf (clear_logs s) = []) by exact Hib0.
  set (c := clear_logs s) in *. clearbody c. clear Hib0.
  assert (Hplain : QStep (s_st c) c) by (apply plain_same; try assumption; [apply same_refl | apply cbr_refl]).
  destruct e; cbn [step_event].
  - (* connect *)
    unfold connect. destruct (is_connected (s_st c)) eqn:Ec; [exact Hplain|].
    match goal with |- context [set_sent_reset ?x false] => set (c0 := set_sent_reset x false) end.
    assert (Hfin : forall x, Same c0 x -> CbR Lboring c0 x -> QStep (s_st c) (set_state x SLogon)).
    { intros x (S1 & S2 & S3 & S4 & S5 & S6 & S7 & S8) (new & A1 & A2).
      change (set_state x SLogon) with (upd_st x SLogon). apply plain_finish.
      - cbn [s_cbs upd_st]. rewrite A1. change (s_cbs c0) with (s_cbs c). rewrite Hcb, app_nil_r. exact A2.
      - cbn [s_closed upd_st]. rewrite S7. exact Hcl.
      - cbn [s_in_buf upd_st]. rewrite S3. reflexivity.
      - cbn [s_st upd_st]. rewrite (notconn_gl _ Ec). reflexivity.
      - right. reflexivity. }
    destruct (negb (initiator c0)); apply Hfin; first [fr_go | cb_go].
  - (* arrive *)
    cbn [quiet_ev] in Hq0. rewrite Hq0.
    replace (Nat.ltb (length (s_in_buf c)) 0) with false by (destruct (length (s_in_buf c)); reflexivity).
    rewrite andb_false_r. exact Hplain.
  - (* deliver *)
    destruct (negb (s_in_open c)); [exact Hplain|]. rewrite Hib. exact Hplain.
  - (* incoming *)
    unfold incoming, incoming_with. destruct (is_connected (s_st c)) eqn:Ec; cbn [negb]; [|exact Hplain].
    destruct (state_fix_msg_in (s_st c) c m) as [s1 next] eqn:E.
    apply (hok_finish c s1 next Hcb Hcl Hib). apply (hok_state_fix c m); assumption.
  - (* garbage *)
    unfold incoming, incoming_with. destruct (negb (is_connected (s_st c))); exact Hplain.
  - (* inclosed *)
    destruct (is_connected (s_st c)) eqn:Ec; [|exact Hplain].
    apply (hok_finish c c SLatent Hcb Hcl Hib). apply hok_unchanged; [intros X; discriminate X | left; reflexivity].
  - (* timeout *)
    destruct (state_timeout (s_st c) c e) as [s1 next] eqn:E.
    apply (hok_finish c s1 next Hcb Hcl Hib). apply (hok_state_timeout c e); assumption.
  - (* app send *)
    apply plain_same; try assumption; [fr_go | cb_go].
  - (* flush *)
    apply plain_same; try assumption; [fr_go | cb_go].
  - (* stop *)
    set (c0 := upd_flags c (s_sent_reset c) (s_hb c) true (s_stopped c)).
    change (s_st c) with (s_st c0).
    destruct (state_stop (s_st c0) c0) as [s1 next] eqn:E.
    apply (hok_finish c0 s1 next); try assumption. apply hok_state_stop; assumption.
  - (* reset time *)
    apply plain_same; try assumption; [fr_go | cb_go].
Qed.

(* ---------- the invariant and the trace theorem ---------- *)
Definition C08Quiet (k : c08_st) (s : sess) : Prop :=
  C08Inv k s /\ s_in_buf s = [] /\ (gst (s_st s) = true \/ s_st s = SLogon) /\ k_logged k = gl (s_st s).

Lemma c08_quiet_step : forall k s e, C08Quiet k s -> quiet_ev (s_cfg s) e ->
  (forall x, In x (c08_event_codes k e (obs_of (step s e))) -> ~ In x [803; 804; 806])
  /\ C08Quiet (c08_next k e (obs_of (step s e))) (step s e).
Proof.
  intros k s e (Hinv & Hib & Hw & Hl) Hq.
  destruct (quiet_step s e Hib Hw Hq) as (hc & dl & rd & Q1 & Q2 & Q3 & Q4 & Q5 & Q6 & Q7).
  assert (Hk0 : k_logged (c08_k0 k e) = gl (s_st s)).
  { destruct e; cbn [c08_k0]; try exact Hl. destruct (k_connected k) eqn:Ek; [exact Hl|]. cbn [k_logged].
    destruct Hinv as (Hb & Hk & _). symmetry. apply notconn_gl. rewrite <- (boundary_open_connected s Hb), <- Hk. exact Ek. }
  destruct (event_codes_quiet k e (obs_of (step s e)) hc dl rd Q1 Q2) as [E1 E2].
  { rewrite Hk0. exact Q3. }
  { rewrite Hk0. exact Q4. }
  split; [exact E1|].
  destruct (c08_step_inv k s e Hinv) as [_ Hinv'].
  split; [exact Hinv'|]. split; [exact Q6|]. split; [exact Q7|]. rewrite E2, Hk0, Q5. reflexivity.
Qed.

Lemma init_c08quiet c : C08Quiet c08_init (init_sess c).
Proof. split; [apply init_c08inv|]. split; [reflexivity|]. split; [left; reflexivity | reflexivity]. Qed.

Lemma c08_scan_quiet : forall es s i k, C08Quiet k s -> Forall (quiet_ev (s_cfg s)) es ->
  free_of [803; 804; 806] (c08_scan i k (combine es (map obs_of (run_trace es s)))) = true.
Proof.
  induction es as [|e r IH]; intros s i k Hinv Hq; cbn [run_trace map combine]; [reflexivity|].
  inversion Hq as [|e' r' Hq1 Hq2]; subst.
  rewrite c08_scan_cons, free_of_app. destruct (c08_quiet_step k s e Hinv Hq1) as [H1 H2].
  apply andb_true_iff; split; [apply free_of_map; exact H1|]. apply IH; [exact H2|].
  rewrite (step_cfg (s_cfg s) s e eq_refl). exact Hq2.
Qed.

Definition no_arrive (es : list event) : bool := forallb (fun e => match e with EArrive _ => false | _ => true end) es.

(* C08, trace level, traces on which no frame is ever buffered in messageIn (every frame is processed as it arrives):
   803  FromApp only between the logon and the logout notification,
   804  never two logout notifications for one logged-on period,
   806  a logged-on period never ends (channel closed) without the logout notification. *)
Lemma c08_notifications_when_nothing_buffered : forall c es, Forall (quiet_ev c) es ->
  free_of [803; 804; 806] (c08_check (combine es (map obs_of (run_trace es (init_sess c))))) = true.
Proof. intros c es Hq. unfold c08_check. apply c08_scan_quiet; [apply init_c08quiet | exact Hq]. Qed.

Lemma c08_notifications_without_arrivals : forall c es, no_arrive es = true ->
  free_of [803; 804; 806] (c08_check (combine es (map obs_of (run_trace es (init_sess c))))) = true.
Proof.
  intros c es H. apply c08_notifications_when_nothing_buffered. apply Forall_forall. intros e He.
  unfold no_arrive in H. rewrite forallb_forall in H. specialize (H e He). destruct e; try exact I. discriminate H.
Qed.

Lemma c08_notifications_unbuffered_channel : forall c es, c_in_cap c = 0%nat ->
  free_of [803; 804; 806] (c08_check (combine es (map obs_of (run_trace es (init_sess c))))) = true.
Proof.
  intros c es H. apply c08_notifications_when_nothing_buffered. apply Forall_forall. intros e _. destruct e; try exact I. exact H.
Qed.

(* the hypothesis is satisfiable on a trace that does something: logon, an application message handed over, logout *)
Definition c08_ex_quiet : list event :=
  [EConnect; EIncoming (c08_ex_msg T_LOGON 1); EIncoming (c08_ex_msg (B "D") 2); EAppSend (B "D") [] true; EFlush;
   EIncoming (c08_ex_msg T_LOGOUT 3)].
Lemma c08_ex_quiet_ok :
  no_arrive c08_ex_quiet = true /\ c08_trace_check (c08_ex_cfg Acceptor) c08_ex_quiet = []
  /\ map (fun s => length (s_cbs s)) (run_trace c08_ex_quiet (init_sess (c08_ex_cfg Acceptor))) = [0; 3; 1; 1; 0; 3]%nat.
Proof. vm_compute. repeat split; reflexivity. Qed.
(* clause 802 cannot join them: its witness buffers nothing *)
Lemma c08_ex_802_quiet : no_arrive c08_ex_802 = true.
Proof. reflexivity. Qed.

Lemma handlers_never_notify_logout : forall st s m s1 next, state_fix_msg_in st s m = (s1, next) ->
  exists new, s_cbs s1 = new ++ s_cbs s /\ Forall (fun c => c <> CbOnLogout) new.
Proof. intros st s m s1 next E. exact (cb_state_fix_msg_in s st s m s1 next E (cbr_refl Lnologout s)). Qed.
