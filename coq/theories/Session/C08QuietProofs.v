(* C08 at trace level, the delivery / notification clauses of c08_check on EVERY trace of the model:
     803  FromApp only between the logon notification and the logout notification,
     804  never two logout notifications for one logged-on period,
     806  a logged-on period never ends (channel closed) without the logout notification.
   They were false of the model (and the code) as long as handleDisconnectState notified and closed BEFORE it drained
   messageIn (finding drain-after-disconnect, F17).  With the repair - drain first, in the state the session is still in,
   channel open; notify and close once, at the innermost level - they hold for every configuration and every event list,
   buffered frames included.  Proof: the invariant RI (below) is kept by every "handler, then setState" round
   (C08WireProofs.Rounds), hence by drainMessageIn, setState and every event. *)
From Coq Require Import String.
From Coq Require Import ZArith List Bool Lia.
From QF Require Import Base.Bytes Session.Types Session.Model Session.Spec Session.C01Proofs Session.LocalProofs
  Session.FrameProofs Session.TraceProofs Session.RecoveryProofs Session.ReactionProofs Session.TgProofs
  Session.ResendInvProofs Session.C08WireProofs Session.C08CbProofs Session.C08TraceProofs.
Import ListNotations.
Open Scope list_scope.
Open Scope Z_scope.

(* handleDisconnectState notifies the application iff the session is logged on, has sent its Logout, or is an
   initiator whose Logon was never answered *)
Definition dol (s : sess) : bool :=
  is_logged_on (s_st s) || match s_st s with SLogout => true | SLogon => initiator s | _ => false end.


(* ---------- the callbacks of logonState.FixMsgIn ---------- *)
Definition CbP (P : cb -> Prop) (s0 s : sess) : Prop := exists new, s_cbs s = new ++ s_cbs s0 /\ Forall P new.
Lemma cbp_refl P s : CbP P s s.
Proof. exists []. split; [reflexivity | constructor]. Qed.
Lemma cbp_trans P a b c : CbP P a b -> CbP P b c -> CbP P a c.
Proof.
  intros (n1 & A1 & A2) (n2 & B1 & B2). exists (n2 ++ n1). split; [rewrite B1, A1, app_assoc; reflexivity|].
  apply Forall_app; split; assumption.
Qed.
Lemma cbp_of_cbr l (P : cb -> Prop) a b : (forall c, cb_ok l c -> P c) -> CbR l a b -> CbP P a b.
Proof. intros H (n & A1 & A2). exists n. split; [exact A1|]. eapply Forall_impl; [|exact A2]. exact H. Qed.

(* before the handshake completes: ToAdmin, ToApp, StoreReset, FromAdmin *)
Definition pre_cb (c : cb) : Prop :=
  match c with CbToAdmin _ | CbToApp _ _ | CbStoreReset | CbFromAdmin _ _ _ => True | _ => False end.
(* what logonState may log: anything but FromApp and OnLogout *)
Definition logon_cb (c : cb) : Prop := match c with CbFromApp _ _ _ _ | CbOnLogout => False | _ => True end.
Lemma boring_pre c : cb_ok Lboring c -> pre_cb c.
Proof. destruct c; cbn; auto. Qed.
Lemma pre_logon c : pre_cb c -> logon_cb c.
Proof. destruct c; cbn; auto. Qed.
Lemma boring_logon c : cb_ok Lboring c -> logon_cb c.
Proof. intros H. apply pre_logon, boring_pre, H. Qed.
Lemma pre_no_onlogon l : Forall pre_cb l -> ~ In CbOnLogon l.
Proof. intros H Hi. rewrite Forall_forall in H. exact (H _ Hi). Qed.
Lemma boring_no_onlogon l : Forall (cb_ok Lboring) l -> ~ In CbOnLogon l.
Proof. intros H Hi. rewrite Forall_forall in H. exact (H _ Hi). Qed.

Lemma logon_is_admin t : beq_bytes t T_LOGON = true -> is_admin t = true.
Proof. intros H. unfold is_admin. rewrite H. rewrite orb_true_r. reflexivity. Qed.

Lemma verify_app_admin s m x r : verify_msg_against_app_impl s m = (x, r) -> is_admin (mi_type m) = true ->
  CbP pre_cb s x /\ (forall a b, r <> Some (RTooHigh a b)).
Proof.
  intros E Ha. unfold verify_msg_against_app_impl in E. rewrite Ha in E.
  destruct (mi_valid m); cbn [rej_of_verdict] in E.
  - inversion E; subst. split.
    + exists [CbFromAdmin (mi_type m) (mi_seq m) (facts_of m)]. split; [reflexivity | constructor; [exact I | constructor]].
    + intros a b. destruct (mi_app m); cbn [rej_of_verdict]; intro X; discriminate X.
  - inversion E; subst. split; [apply cbp_refl | intros a b X; discriminate X].
  - inversion E; subst. split; [apply cbp_refl | intros a b X; discriminate X].
Qed.

Lemma verify_select_noapp s m hi lo s1 r : verify_select s m hi lo false = (s1, r) -> s1 = s.
Proof. intros E. unfold verify_select in E. brk_in E; inversion E; reflexivity. Qed.

Lemma verify_select_low_ok s m hi app s1 : verify_select s m hi true app = (s1, None) -> exists n, mi_seq m = FVal n.
Proof.
  intros E. unfold verify_select in E.
  destruct (check_begin_string s m); [inversion E|]. destruct (check_comp_id s m); [inversion E|].
  destruct (match s_st s with SResend _ _ _ => None | _ => check_sending_time s m end); [inversion E|].
  unfold check_target_too_low in E. destruct (mi_seq m) as [| |n]; try (inversion E; fail). exists n. reflexivity.
Qed.

Lemma handle_logon_cbs : forall s m s1 r, handle_logon s m = (s1, r) -> is_admin (mi_type m) = true ->
  exists new, s_cbs s1 = new ++ s_cbs s /\ Forall logon_cb new
    /\ ((r = None \/ exists a b, r = Some (RTooHigh a b)) -> In CbOnLogon new)
    /\ (In CbOnLogon new -> r = None \/ exists a b, r = Some (RTooHigh a b)).
Proof.
  intros s m s1 r E Ha. unfold handle_logon in E.
  destruct (if c_begin (s_cfg s) =? 5 then match mi_applver m with None => Some (R_cond_missing 1137) | Some _ => None end else None) as [r0|] eqn:E0.
  { destruct (c_begin (s_cfg s) =? 5); [|discriminate]. destruct (mi_applver m); inversion E0; subst. inversion E; subst.
    exists []. split; [reflexivity|]. split; [constructor|]. split.
    - intros [Hr|(a & b & Hr)]; discriminate Hr.
    - intros []. }
  destruct (verify_msg_against_app_impl s m) as [x [r1|]] eqn:Ea.
  { destruct (verify_app_admin s m x _ Ea Ha) as ((new & A1 & A2) & A3). inversion E; subst.
    exists new. split; [exact A1|]. split; [eapply Forall_impl; [|exact A2]; exact pre_logon|]. split.
    - intros [Hr|(a & b & Hr)]; [discriminate Hr | exfalso; exact (A3 a b Hr)].
    - intros Hi. exfalso. exact (pre_no_onlogon new A2 Hi). }
  destruct (verify_app_admin s m x _ Ea Ha) as (Px & _).
  cbv zeta in E.
  match type of E with context [verify_select ?a m false true false] =>
    assert (Pa : CbP pre_cb s a) by
      (eapply cbp_trans; [exact Px|]; apply (cbp_of_cbr Lboring); [exact boring_pre|]; cb_go);
    destruct (verify_select a m false true false) as [y [r1|]] eqn:Ev;
    pose proof (verify_select_noapp _ _ _ _ _ _ Ev) as Ey; subst y; set (a0 := a) in * end.
  { inversion E; subst. destruct Pa as (new & A1 & A2).
    exists new. split; [exact A1|]. split; [eapply Forall_impl; [|exact A2]; exact pre_logon|]. split.
    - intros [Hr|(a & b & Hr)]; [discriminate Hr|]. inversion Hr; subst.
      pose proof (verify_select_too_high_hi _ _ _ _ _ _ _ _ Ev). discriminate.
    - intros Hi. exfalso. exact (pre_no_onlogon new A2 Hi). }
  destruct (verify_select_low_ok _ _ _ _ _ Ev) as (n & Hn).
  match type of E with context [log_cb (set_sent_reset ?s4 false) CbOnLogon] =>
    assert (P4 : CbP pre_cb s s4) by
      (eapply cbp_trans; [exact Pa|]; apply (cbp_of_cbr Lboring); [exact boring_pre|]; cb_go);
    set (s4' := s4) in * end.
  destruct P4 as (new & A1 & A2).
  assert (Hres : r = None \/ exists a b, r = Some (RTooHigh a b)).
  { unfold check_target_too_high in E. rewrite Hn in E. destruct (_ <? n); inversion E; subst; eauto. }
  exists (CbOnLogon :: new). split.
  { unfold check_target_too_high in E. rewrite Hn in E. destruct (_ <? n); inversion E; subst; cbn; rewrite A1; reflexivity. }
  split; [constructor; [exact I | eapply Forall_impl; [|exact A2]; exact pre_logon]|].
  split; [intros _; left; reflexivity | intros _; exact Hres].
Qed.

Lemma logon_state_cbs : forall s m s1 next, logon_state_fix_msg_in s m = (s1, next) ->
  exists new, s_cbs s1 = new ++ s_cbs s /\ Forall logon_cb new
    /\ (is_connected next = true -> In CbOnLogon new /\ is_logged_on next = true)
    /\ (is_connected next = false -> ~ In CbOnLogon new).
Proof.
  intros s m s1 next E. unfold logon_state_fix_msg_in in E.
  destruct (beq_bytes (mi_type m) T_LOGON) eqn:Et; cbn [negb] in E.
  2: { inversion E; subst. exists []. split; [reflexivity|]. split; [constructor|]. split; [intros X; discriminate X | intros _ []]. }
  pose proof (logon_is_admin _ Et) as Ha.
  destruct (handle_logon s m) as [x r] eqn:Eh.
  destruct (handle_logon_cbs s m x r Eh Ha) as (new & A1 & A2 & A3 & A4).
  assert (Hlow : forall y st, CbR Lboring x y -> s1 = y -> next = st -> is_connected st = false ->
                  ~ (r = None \/ exists a b, r = Some (RTooHigh a b)) ->
                  exists new0, s_cbs s1 = new0 ++ s_cbs s /\ Forall logon_cb new0
                    /\ (is_connected next = true -> In CbOnLogon new0 /\ is_logged_on next = true)
                    /\ (is_connected next = false -> ~ In CbOnLogon new0)).
  { intros y st (nb & B1 & B2) -> -> Hc Hr. exists (nb ++ new). split; [rewrite B1, A1, app_assoc; reflexivity|].
    split; [apply Forall_app; split; [eapply Forall_impl; [|exact B2]; exact boring_logon | exact A2]|].
    split; [intros X; rewrite Hc in X; discriminate X|]. intros _ Hi. apply in_app_or in Hi as [Hi|Hi].
    - exact (boring_no_onlogon nb B2 Hi).
    - exact (Hr (A4 Hi)). }
  destruct r as [r|].
  - destruct r as [recv exp|recv exp| | |reason tag bus].
    + (* too high: the resend request is queued, the session is logged on *)
      unfold do_target_too_high in E. destruct (send_resend_request_next _ _ _ _ _ E) as (c0 & en & ->).
      assert (Hb : CbR Lboring x s1) by (eapply cb_send_resend_request; [exact E | apply cbr_refl]).
      destruct Hb as (nb & B1 & B2). exists (nb ++ new). split; [rewrite B1, A1, app_assoc; reflexivity|].
      split; [apply Forall_app; split; [eapply Forall_impl; [|exact B2]; exact boring_logon | exact A2]|].
      split; [|intros X; discriminate X]. intros _. split; [|reflexivity]. apply in_or_app. right. apply A3. right. eauto.
    + unfold shutdown_with_reason in E.
      eapply (Hlow _ SLatent); [| inversion E; reflexivity | inversion E; reflexivity | reflexivity |].
      * cb_go.
      * intros [Hr|(a & b & Hr)]; discriminate Hr.
    + inversion E; subst. eapply (Hlow _ SLatent); [apply cbr_refl | reflexivity | reflexivity | reflexivity |].
      intros [Hr|(a & b & Hr)]; discriminate Hr.
    + unfold shutdown_with_reason in E.
      eapply (Hlow _ SLatent); [| inversion E; reflexivity | inversion E; reflexivity | reflexivity |].
      * cb_go.
      * intros [Hr|(a & b & Hr)]; discriminate Hr.
    + inversion E; subst. eapply (Hlow _ SLatent); [apply cbr_refl | reflexivity | reflexivity | reflexivity |].
      intros [Hr|(a & b & Hr)]; discriminate Hr.
  - inversion E; subst. exists new. split; [exact A1|]. split; [exact A2|]. split; [|intros X; discriminate X].
    intros _. split; [apply A3; left; reflexivity | reflexivity].
Qed.

(* ---------- the callback part of the automaton of c08_check ---------- *)
Definition no_fromapp (c : cb) : Prop := match c with CbFromApp _ _ _ _ => False | _ => True end.
(* what handleDisconnectState logs, in order: the logout notification (dol), the store reset of ResetOnDisconnect (rd) *)
Definition dcs (dol rd : bool) : list cb := (if dol then [CbOnLogout] else []) ++ (if rd then [CbStoreReset] else []).

Lemma fold_steps_app {A} (f : c08_st -> A -> c08_st * list Z) : forall l1 l2 k,
  fst (fold_steps f k (l1 ++ l2)) = fst (fold_steps f (fst (fold_steps f k l1)) l2)
  /\ snd (fold_steps f k (l1 ++ l2)) = snd (fold_steps f k l1) ++ snd (fold_steps f (fst (fold_steps f k l1)) l2).
Proof.
  induction l1 as [|x r IH]; intros l2 k; cbn [app fold_steps fst snd]; [split; reflexivity|].
  destruct (f k x) as [k1 e1]. destruct (IH l2 k1) as [A1 A2].
  destruct (fold_steps f k1 (r ++ l2)) as [k2 e2]. destruct (fold_steps f k1 r) as [k3 e3]. cbn [fst snd] in *.
  split; [exact A1|]. rewrite A2, app_assoc. reflexivity.
Qed.

Lemma cb_fold_handler : forall hc k, Forall (cb_ok Lnologout) hc -> (k_logged k = false -> Forall no_fromapp hc) ->
  snd (fold_steps c08_cb_step k hc) = [] /\ k_logged (fst (fold_steps c08_cb_step k hc)) = k_logged k || has_onlogon hc.
Proof.
  induction hc as [|c r IH]; intros k H1 H2; cbn [fold_steps fst snd has_onlogon existsb]; [rewrite orb_false_r; split; reflexivity|].
  inversion H1 as [|c' r' Hc Hr]; subst.
  assert (Hstep : exists k1, c08_cb_step k c = (k1, [])
                   /\ k_logged k1 = (k_logged k || match c with CbOnLogon => true | _ => false end)
                   /\ (k_logged k1 = false -> k_logged k = false)).
  { destruct c; cbn [c08_cb_step]; try (eexists; split; [reflexivity|]; split; [rewrite orb_false_r; reflexivity | auto]).
    - destruct (k_logged k) eqn:El.
      + eexists; split; [reflexivity|]. split; [rewrite El; reflexivity | intros X; rewrite El in X; discriminate X].
      + exfalso. specialize (H2 eq_refl). inversion H2 as [|c' r' Hf _]; subst. exact Hf.
    - eexists; split; [reflexivity|]. cbn [k_logged]. split; [rewrite orb_true_r; reflexivity | intros X; discriminate X].
    - exfalso. apply Hc. reflexivity. }
  destruct Hstep as (k1 & E1 & L1 & L2). rewrite E1.
  destruct (IH k1 Hr) as [A1 A2].
  { intros X. specialize (H2 (L2 X)). inversion H2; assumption. }
  destruct (fold_steps c08_cb_step k1 r) as [k2 e2]. cbn [fst snd] in *.
  split; [rewrite A1; reflexivity|]. rewrite A2, L1. fold (has_onlogon r). rewrite orb_assoc. reflexivity.
Qed.

Lemma cb_fold_disconnect k dol rd :
  snd (fold_steps c08_cb_step k (dcs dol rd)) = []
  /\ k_logged (fst (fold_steps c08_cb_step k (dcs dol rd))) = (if dol then false else k_logged k).
Proof. destruct dol, rd; cbn; try destruct (_ || _); split; reflexivity. Qed.

Lemma faL_handler : forall hc dc, Forall (cb_ok Lnologout) hc ->
  fromapp_after_logout false (hc ++ dc) = fromapp_after_logout false dc.
Proof.
  induction hc as [|c r IH]; intros dc H; cbn [app]; [reflexivity|].
  inversion H as [|c' r' Hc Hr]; subst. destruct c; cbn [fromapp_after_logout orb]; try (apply IH; exact Hr).
  exfalso. apply Hc. reflexivity.
Qed.

Lemma count_onlogout_handler : forall hc, Forall (cb_ok Lnologout) hc -> count_onlogout hc = 0%nat.
Proof.
  induction hc as [|c r IH]; intros H; [reflexivity|]. inversion H as [|c' r' Hc Hr]; subst.
  unfold count_onlogout in *. cbn [filter]. destruct c; try (apply IH; exact Hr). exfalso. apply Hc. reflexivity.
Qed.

Lemma has_onlogon_app a b : has_onlogon (a ++ b) = has_onlogon a || has_onlogon b.
Proof. unfold has_onlogon. apply existsb_app. Qed.
Lemma has_onlogon_in a : has_onlogon a = true <-> In CbOnLogon a.
Proof.
  unfold has_onlogon. rewrite existsb_exists. split.
  - intros (x & H1 & H2). destruct x; try discriminate H2. exact H1.
  - intros H. exists CbOnLogon. split; [exact H | reflexivity].
Qed.
Lemma has_onlogon_rev a : has_onlogon (rev a) = has_onlogon a.
Proof.
  destruct (has_onlogon a) eqn:E.
  - apply has_onlogon_in. rewrite <- in_rev. apply has_onlogon_in. exact E.
  - destruct (has_onlogon (rev a)) eqn:E2; [|reflexivity].
    apply has_onlogon_in in E2. rewrite <- in_rev in E2. apply has_onlogon_in in E2. congruence.
Qed.

Lemma wire_fold_codes_any : forall w k x, In x (snd (fold_steps c08_wire_step k w)) -> x = 801 \/ x = 802 \/ x = 805.
Proof.
  induction w as [|m r IH]; intros k x Hx; cbn [fold_steps] in Hx; [destruct Hx|].
  destruct (c08_wire_step k m) as [k1 e1] eqn:E1. destruct (fold_steps c08_wire_step k1 r) as [k2 e2] eqn:E2.
  cbn [snd] in Hx. apply in_app_or in Hx as [Hx|Hx].
  - unfold c08_wire_step in E1. inversion E1 as [[Hk1 He1]]. clear E1. rewrite <- He1 in Hx.
    apply in_app_or in Hx as [Hx|Hx]; [destruct (k_connected k); [destruct Hx | destruct Hx as [Hx|[]]; auto]|].
    apply in_app_or in Hx as [Hx|Hx].
    + destruct (k_first_sent k); [destruct Hx|]. destruct (_ || _); [destruct Hx | destruct Hx as [Hx|[]]; auto].
    + destruct (_ && _); [destruct Hx as [Hx|[]]; auto | destruct Hx].
  - apply (IH k1). rewrite E2. exact Hx.
Qed.

(* one event of c08_scan whose callbacks are "handler part, then disconnect part" *)
(* ---------- the model side: one event when nothing is buffered ---------- *)
(* "inside a logon" as the automaton counts it: logged on, or the engine's Logout sent and the connection still up *)
Definition gl (st : sstate) : bool := is_logged_on st || match st with SLogout => true | _ => false end.

Lemma gl_connected st : gl st = true -> is_connected st = true.
Proof.
  unfold gl. intros H. apply orb_true_iff in H as [H|H]; [apply logged_on_connected; exact H|].
  destruct st; try discriminate H. reflexivity.
Qed.
Lemma notconn_gl st : is_connected st = false -> gl st = false.
Proof. intros H. destruct (gl st) eqn:E; [|reflexivity]. apply gl_connected in E. congruence. Qed.
Lemma gst_conn_gl st : gst st = true -> is_connected st = true -> gl st = true.
Proof. unfold gl. destruct st; cbn; intros H1 H2; try discriminate; try reflexivity. rewrite H1. reflexivity. Qed.
Lemma gl_gst st : gl st = true -> gst st = true.
Proof.
  unfold gl. intros H. apply orb_true_iff in H as [H|H]; [apply gst_logged_on; exact H|]. destruct st; try discriminate H. reflexivity.
Qed.
Lemma gl_dol s : gl (s_st s) = true -> dol s = true.
Proof.
  unfold gl, dol. intros H. apply orb_true_iff in H as [H|H]; [rewrite H; reflexivity|].
  destruct (s_st s); try discriminate H. rewrite orb_true_r. reflexivity.
Qed.
Lemma ws_cases st : gst st = true \/ st = SLogon -> st = SLatent \/ st = SLogon \/ gl st = true.
Proof.
  intros [H|H]; [|auto]. destruct st; cbn in H; try discriminate H; auto; right; right; unfold gl; cbn; try reflexivity.
  rewrite H. reflexivity.
Qed.
Lemma boring_has_onlogon l : Forall (cb_ok Lboring) l -> has_onlogon l = false.
Proof.
  intros H. destruct (has_onlogon l) eqn:E; [|reflexivity]. apply has_onlogon_in in E. exfalso. exact (boring_no_onlogon l H E).
Qed.
Lemma boring_no_fromapp c : cb_ok Lboring c -> no_fromapp c.
Proof. destruct c; cbn; auto. Qed.

Definition HOK (c s1 : sess) (next : sstate) : Prop :=
  Same c s1 /\ exists new, s_cbs s1 = new ++ s_cbs c /\ Forall (cb_ok Lnologout) new
    /\ (gl (s_st c) = false -> Forall no_fromapp new)
    /\ (is_connected next = true -> gl next = gl (s_st c) || has_onlogon new)
    /\ (is_connected next = false -> gl (s_st c) = false -> has_onlogon new = false)
    /\ (gst next = true \/ next = SLogon).


Lemma logon_cb_nologout c : logon_cb c -> cb_ok Lnologout c.
Proof. destruct c; cbn; intros H; try contradiction; intro X; discriminate X. Qed.
Lemma logon_cb_no_fromapp c : logon_cb c -> no_fromapp c.
Proof. destruct c; cbn; auto. Qed.

(* State.FixMsgIn from a connected, well-shaped state *)
Lemma hok_state_fix c m s1 next : is_connected (s_st c) = true -> (gst (s_st c) = true \/ s_st c = SLogon) ->
  state_fix_msg_in (s_st c) c m = (s1, next) -> HOK c s1 next.
Proof.
  intros Hc Hw E. split; [eapply fr_state_fix_msg_in; [exact E | apply same_refl]|].
  pose proof (state_fix_next _ _ _ _ _ Hw E) as Hn.
  destruct Hw as [Hw|Hw].
  - (* logged on, or logout sent *)
    pose proof (gst_conn_gl _ Hw Hc) as Hg.
    destruct (cb_state_fix_msg_in c _ _ _ _ _ E (cbr_refl Lnologout c)) as (new & A1 & A2).
    exists new. split; [exact A1|]. split; [exact A2|]. rewrite Hg.
    split; [intros X; discriminate X|]. split; [intros X; cbn [orb]; apply gst_conn_gl; assumption|].
    split; [intros _ X; discriminate X | left; exact Hn].
  - (* logonState *)
    rewrite Hw in E. cbn [state_fix_msg_in] in E.
    destruct (logon_state_cbs c m s1 next E) as (new & A1 & A2 & A3 & A4).
    exists new. split; [exact A1|]. split; [eapply Forall_impl; [|exact A2]; exact logon_cb_nologout|].
    rewrite Hw. change (gl SLogon) with false. cbn [orb].
    split; [intros _; eapply Forall_impl; [|exact A2]; exact logon_cb_no_fromapp|].
    split.
    { intros X. destruct (A3 X) as [B1 B2]. unfold gl. rewrite B2. cbn [orb]. symmetry. apply has_onlogon_in. exact B1. }
    split; [|left; exact Hn].
    intros X _. destruct (has_onlogon new) eqn:Eh; [|reflexivity]. apply has_onlogon_in in Eh. exfalso. exact (A4 X Eh).
Qed.

Lemma hok_unchanged c next : (is_connected next = true -> gl next = gl (s_st c)) ->
  (gst next = true \/ next = SLogon) -> HOK c c next.
Proof.
  intros H1 H2. split; [apply same_refl|]. exists []. split; [reflexivity|]. split; [constructor|].
  split; [intros _; constructor|]. split; [intros X; rewrite (H1 X); cbn; rewrite orb_false_r; reflexivity|].
  split; [intros _ _; reflexivity | exact H2].
Qed.

Lemma hok_state_timeout c t s1 next : (gst (s_st c) = true \/ s_st c = SLogon) ->
  state_timeout (s_st c) c t = (s1, next) -> HOK c s1 next.
Proof.
  intros Hw E. destruct (ws_cases _ Hw) as [Hs|[Hs|Hg]].
  - rewrite Hs in E. cbn [state_timeout] in E. inversion E; subst. apply hok_unchanged; [intros X; discriminate X | left; reflexivity].
  - rewrite Hs in E. cbn [state_timeout] in E.
    destruct t; inversion E; subst; apply hok_unchanged; try (intros X; rewrite Hs; reflexivity); try (intros X; discriminate X); auto.
  - split; [eapply fr_state_timeout; [exact E | apply same_refl]|].
    destruct (cb_state_timeout c _ _ _ _ _ E (cbr_refl Lnologout c)) as (new & A1 & A2).
    assert (Hn : gst next = true).
    { destruct (state_timeout_next _ _ _ _ _ Hw E) as [H|[_ H]]; [exact H|]. rewrite H in Hg. discriminate Hg. }
    exists new. split; [exact A1|]. split; [exact A2|]. rewrite Hg.
    split; [intros X; discriminate X|]. split; [intros X; cbn [orb]; apply gst_conn_gl; assumption|].
    split; [intros _ X; discriminate X | left; exact Hn].
Qed.

Lemma hok_state_stop c s1 next : (gst (s_st c) = true \/ s_st c = SLogon) ->
  state_stop (s_st c) c = (s1, next) -> HOK c s1 next.
Proof.
  intros Hw E. destruct (ws_cases _ Hw) as [Hs|[Hs|Hg]].
  - rewrite Hs in E. cbn [state_stop] in E. inversion E; subst. apply hok_unchanged; [intros X; discriminate X | left; reflexivity].
  - rewrite Hs in E. cbn [state_stop] in E. inversion E; subst. apply hok_unchanged; [intros X; discriminate X | left; reflexivity].
  - split; [eapply fr_state_stop; [exact E | apply same_refl]|].
    destruct (cb_state_stop c _ _ _ _ E (cbr_refl Lnologout c)) as (new & A1 & A2).
    pose proof (state_stop_next _ _ _ _ Hw E) as Hn.
    exists new. split; [exact A1|]. split; [exact A2|]. rewrite Hg.
    split; [intros X; discriminate X|]. split; [intros X; cbn [orb]; apply gst_conn_gl; assumption|].
    split; [intros _ X; discriminate X | left; exact Hn].
Qed.


(* ---------- the invariant of one event, kept through the drain ---------- *)
(* k0 = the automaton of c08_check at the start of the event (after its Connect adjustment).  At every round boundary of
   the event: the callbacks so far raise no 803; what the automaton believes ("logged") is what the session state says;
   while the session is connected no logout notification has been issued and the channel has not been closed; there is
   at most one logout notification. *)
Definition WSt (st : sstate) : Prop := gst st = true \/ st = SLogon.
Definition RI (k0 : c08_st) (x : sess) : Prop :=
  Boundary x /\ WSt (s_st x)
  /\ snd (fold_steps c08_cb_step k0 (rev (s_cbs x))) = []
  /\ fromapp_after_logout false (rev (s_cbs x)) = false
  /\ k_logged (fst (fold_steps c08_cb_step k0 (rev (s_cbs x)))) = gl (s_st x)
  /\ (is_connected (s_st x) = true -> s_closed x = false /\ Forall (cb_ok Lnologout) (s_cbs x))
  /\ (count_onlogout (rev (s_cbs x)) <= 1)%nat.

Lemma count_onlogout_app a b : count_onlogout (a ++ b) = (count_onlogout a + count_onlogout b)%nat.
Proof. unfold count_onlogout. rewrite filter_app, app_length. reflexivity. Qed.

Lemma faL_nil_r hc : Forall (cb_ok Lnologout) hc -> fromapp_after_logout false hc = false.
Proof. intros H. rewrite <- (app_nil_r hc), faL_handler by exact H. reflexivity. Qed.

(* callbacks are added while the session is connected: no OnLogout among them, no FromApp unless inside a logon *)
Lemma ri_extend k0 x y new : RI k0 x -> is_connected (s_st x) = true ->
  s_cbs y = new ++ s_cbs x -> Forall (cb_ok Lnologout) new -> (gl (s_st x) = false -> Forall no_fromapp new) ->
  s_closed y = s_closed x -> Boundary y -> WSt (s_st y) -> gl (s_st y) = gl (s_st x) || has_onlogon new ->
  RI k0 y.
Proof.
  intros (Hb & Hw & R1 & R2 & R3 & R4 & R5) Hc Hcb Hn Hf Hcl Hby Hwy Hg.
  destruct (R4 Hc) as [C1 C2].
  assert (Hold : Forall (cb_ok Lnologout) (rev (s_cbs x))) by (apply Forall_rev; exact C2).
  assert (Hnew : Forall (cb_ok Lnologout) (rev new)) by (apply Forall_rev; exact Hn).
  destruct (fold_steps_app c08_cb_step (rev (s_cbs x)) (rev new) k0) as [F1 F2].
  destruct (cb_fold_handler (rev new) (fst (fold_steps c08_cb_step k0 (rev (s_cbs x)))) Hnew) as [G1 G2].
  { rewrite R3. intros X. apply Forall_rev. exact (Hf X). }
  split; [exact Hby|]. split; [exact Hwy|]. rewrite Hcb, rev_app_distr.
  split; [rewrite F2, R1, G1; reflexivity|].
  split; [rewrite faL_handler by exact Hold; apply faL_nil_r; exact Hnew|].
  split; [rewrite F1, G2, R3, has_onlogon_rev; symmetry; exact Hg|].
  split.
  - intros _. split; [rewrite Hcl; exact C1|]. rewrite <- rev_app_distr, <- Hcb in *.
    rewrite Hcb. apply Forall_app; split; assumption.
  - rewrite count_onlogout_app, (count_onlogout_handler _ Hold), (count_onlogout_handler _ Hnew). auto.
Qed.

Lemma cbs_fin s next : s_cbs (fin s next) = s_cbs s.
Proof. unfold fin. destruct (s_pending_stop s); reflexivity. Qed.
Lemma closed_fin s next : s_closed (fin s next) = s_closed s.
Proof. unfold fin. destruct (s_pending_stop s); reflexivity. Qed.
Lemma cbs_disconnect_now s : exists rd : bool,
  s_cbs (disconnect_now s) = (if rd then [CbStoreReset] else []) ++ (if dol s then [CbOnLogout] else []) ++ s_cbs s.
Proof.
  exists (c_reset_on_disconnect (s_cfg s)). unfold disconnect_now. cbv zeta. fold (dol s).
  destruct (dol s); cbn [s_cfg log_cb upd_logs]; destruct (c_reset_on_disconnect (s_cfg s));
    repeat match goal with |- context [if ?b then _ else _] => destruct b end; reflexivity.
Qed.

(* the disconnect itself: at most the one logout notification, due exactly when the automaton is "logged" *)
Lemma ri_disc k0 s0 next : RI k0 s0 -> is_connected (s_st s0) = true -> is_connected next = false -> WSt next ->
  RI k0 (fin (disconnect_now s0) next).
Proof.
  intros (Hb & Hw & R1 & R2 & R3 & R4 & R5) Hc Hn Hwn.
  destruct (R4 Hc) as [C1 C2].
  assert (Hold : Forall (cb_ok Lnologout) (rev (s_cbs s0))) by (apply Forall_rev; exact C2).
  destruct (cbs_disconnect_now s0) as (rd & Hcb).
  assert (Hrev : rev (s_cbs (fin (disconnect_now s0) next)) = rev (s_cbs s0) ++ dcs (dol s0) rd).
  { rewrite cbs_fin, Hcb. unfold dcs. destruct (dol s0), rd; cbn [app rev]; rewrite ?app_nil_r, <- ?app_assoc; reflexivity. }
  destruct (fold_steps_app c08_cb_step (rev (s_cbs s0)) (dcs (dol s0) rd) k0) as [F1 F2].
  destruct (cb_fold_disconnect (fst (fold_steps c08_cb_step k0 (rev (s_cbs s0)))) (dol s0) rd) as [D1 D2].
  split; [apply boundary_fin_disconnect; exact Hn|]. split; [exact Hwn|]. rewrite Hrev.
  split; [rewrite F2, R1, D1; reflexivity|].
  split; [rewrite faL_handler by exact Hold; destruct (dol s0), rd; reflexivity|].
  split.
  { rewrite F1, D2, R3. cbn [s_st fin upd_st]. rewrite (notconn_gl next Hn).
    destruct (dol s0) eqn:Ed; [reflexivity|]. destruct (gl (s_st s0)) eqn:Eg; [|reflexivity].
    apply gl_dol in Eg. congruence. }
  split; [cbn [s_st fin upd_st]; intros X; congruence|].
  rewrite count_onlogout_app, (count_onlogout_handler _ Hold). destruct (dol s0), rd; cbn; auto.
Qed.

Lemma ri_dead k0 s0 next : RI k0 s0 -> is_connected (s_st s0) = false -> is_connected next = false -> WSt next ->
  RI k0 (fin s0 next).
Proof.
  intros (Hb & Hw & R1 & R2 & R3 & R4 & R5) Hc Hn Hwn.
  split; [apply boundary_fin_dead; assumption|]. split; [exact Hwn|]. rewrite cbs_fin.
  split; [exact R1|]. split; [exact R2|].
  split; [rewrite R3; cbn [s_st fin upd_st]; rewrite (notconn_gl _ Hc), (notconn_gl _ Hn); reflexivity|].
  split; [cbn [s_st fin upd_st]; intros X; congruence | exact R5].
Qed.

Lemma ri_pop k0 x m r : RI k0 x -> s_in_buf x = m :: r -> RI k0 (upd_chan x (s_out_open x) (s_in_open x) r (s_closed x)).
Proof.
  intros (Hb & Hrest) Eb. split; [eapply boundary_pop; eassumption | exact Hrest].
Qed.

(* one handler round *)
Lemma ri_hok k0 x s1 next : RI k0 x -> is_connected (s_st x) = true -> HOK x s1 next ->
  (is_connected next = true -> RI k0 (upd_st s1 next)) /\ (is_connected next = false -> RI k0 s1 /\ WSt next).
Proof.
  intros Hri Hc (Hs & new & A1 & A2 & A3 & A4 & A5 & A6).
  pose proof Hri as (Hb & Hw & _).
  pose proof Hs as (S1 & S2 & S3 & S4 & S5 & S6 & S7 & S8).
  split; intros Hn.
  - apply (ri_extend k0 x (upd_st s1 next) new Hri Hc); try assumption.
    + eapply boundary_upd_st_connected; eassumption.
    + cbn [s_st upd_st]. exact (A4 Hn).
  - split; [|exact A6]. apply (ri_extend k0 x s1 new Hri Hc); try assumption.
    + eapply boundary_same; eassumption.
    + rewrite S8. exact Hw.
    + rewrite S8. destruct (gl (s_st x)) eqn:Eg; [reflexivity|]. rewrite (A5 Hn eq_refl). reflexivity.
Qed.

Lemma ri_msg k0 x m s1 next : RI k0 x -> is_connected (s_st x) = true -> state_fix_msg_in (s_st x) x m = (s1, next) ->
  (is_connected next = true -> RI k0 (upd_st s1 next)) /\ (is_connected next = false -> RI k0 s1 /\ WSt next).
Proof.
  intros Hri Hc E. apply (ri_hok k0 x); [exact Hri | exact Hc|]. destruct Hri as (_ & Hw & _). apply (hok_state_fix x m); assumption.
Qed.

Lemma ri_set_state k0 c s1 next : RI k0 c -> is_connected (s_st c) = true -> HOK c s1 next -> RI k0 (set_state s1 next).
Proof.
  intros Hri Hc Hh. destruct (ri_hok k0 c s1 next Hri Hc Hh) as [H1 H2].
  apply (rounds_set_state (RI k0) WSt).
  - exact (ri_pop k0).
  - intros x m s2 n Hp Hx E Hn. exact (proj1 (ri_msg k0 x m s2 n Hp Hx E) Hn).
  - intros x m s2 n Hp Hx E Hn. exact (proj2 (ri_msg k0 x m s2 n Hp Hx E) Hn).
  - exact (ri_dead k0).
  - exact (ri_disc k0).
  - destruct Hh as ((_ & _ & _ & _ & _ & _ & _ & S8) & _). rewrite S8. exact Hc.
  - exact H1.
  - exact H2.
Qed.

Lemma ri_incoming k0 x m : RI k0 x -> RI k0 (incoming x m).
Proof.
  intros Hp. apply (rounds_incoming (RI k0) WSt); try assumption.
  - exact (ri_pop k0).
  - intros y mm s2 n Hy Hx E Hn. exact (proj1 (ri_msg k0 y mm s2 n Hy Hx E) Hn).
  - intros y mm s2 n Hy Hx E Hn. exact (proj2 (ri_msg k0 y mm s2 n Hy Hx E) Hn).
  - exact (ri_dead k0).
  - exact (ri_disc k0).
Qed.

(* a state whose callbacks of this event are all ToAdmin / ToApp / StoreReset *)
Lemma ri_boring k0 y : Boundary y -> WSt (s_st y) -> Forall (cb_ok Lboring) (s_cbs y) -> s_closed y = false ->
  k_logged k0 = gl (s_st y) -> RI k0 y.
Proof.
  intros Hb Hw Hbo Hcl Hk.
  assert (Hn : Forall (cb_ok Lnologout) (s_cbs y)) by (eapply Forall_impl; [|exact Hbo]; exact cb_ok_weaken).
  assert (Hnr : Forall (cb_ok Lnologout) (rev (s_cbs y))) by (apply Forall_rev; exact Hn).
  destruct (cb_fold_handler (rev (s_cbs y)) k0 Hnr) as [G1 G2].
  { intros _. apply Forall_rev. eapply Forall_impl; [|exact Hbo]. exact boring_no_fromapp. }
  split; [exact Hb|]. split; [exact Hw|]. split; [exact G1|]. split; [apply faL_nil_r; exact Hnr|].
  split; [rewrite G2, has_onlogon_rev, (boring_has_onlogon _ Hbo), orb_false_r; exact Hk|].
  split; [intros _; split; assumption|]. rewrite (count_onlogout_handler _ Hnr). auto.
Qed.

Lemma notconn_latent st : WSt st -> is_connected st = false -> st = SLatent.
Proof. intros [H|H] Hc; [|subst; discriminate Hc]. destruct st; cbn in *; try discriminate; try reflexivity. apply logged_on_connected in H. congruence. Qed.

(* ---------- one event ---------- *)
Lemma ri_step : forall k0 s e, Boundary s -> WSt (s_st s) -> k_logged k0 = gl (s_st s) -> RI k0 (step s e).
Proof.
  intros k0 s e Hb0 Hw0 Hk0.
  pose proof (step_boundary s e Hb0) as Hb'. unfold step in *.
  assert (Hb : Boundary (clear_logs s)) by exact Hb0.
  assert (Hw : WSt (s_st (clear_logs s))) by exact Hw0.
  assert (Hk : k_logged k0 = gl (s_st (clear_logs s))) by exact Hk0.
  assert (Hcb : s_cbs (clear_logs s) = []) by reflexivity.
  assert (Hcl : s_closed (clear_logs s) = false) by reflexivity.
  set (c := clear_logs s) in *. clearbody c. clear Hb0 Hw0 Hk0.
  assert (Hri : RI k0 c) by (apply ri_boring; try assumption; rewrite Hcb; constructor).
  (* an event that only logs ToAdmin / ToApp / StoreReset and leaves state and closed mark alone *)
  assert (Hplain : forall y, Boundary y -> Same c y -> CbR Lboring c y -> RI k0 y).
  { intros y Hby (S1 & S2 & S3 & S4 & S5 & S6 & S7 & S8) (new & A1 & A2). rewrite Hcb, app_nil_r in A1.
    apply ri_boring; [exact Hby | rewrite S8; exact Hw | rewrite A1; exact A2 | congruence | rewrite S8; exact Hk]. }
  destruct e; cbn [step_event] in *.
  - (* connect *)
    unfold connect in *. destruct (is_connected (s_st c)) eqn:Ec; [exact Hri|].
    match goal with |- context [set_sent_reset ?x false] => set (c0 := set_sent_reset x false) in * end.
    assert (Hfin : forall x, Boundary (set_state x SLogon) -> Same c0 x -> CbR Lboring c0 x -> RI k0 (set_state x SLogon)).
    { intros x Hbx (S1 & S2 & S3 & S4 & S5 & S6 & S7 & S8) (new & A1 & A2).
      change (set_state x SLogon) with (upd_st x SLogon) in *. apply ri_boring.
      - exact Hbx.
      - right. reflexivity.
      - cbn [s_cbs upd_st]. rewrite A1. change (s_cbs c0) with (s_cbs c). rewrite Hcb, app_nil_r. exact A2.
      - cbn [s_closed upd_st]. rewrite S7. exact Hcl.
      - cbn [s_st upd_st]. rewrite Hk, (notconn_gl _ Ec). reflexivity. }
    destruct (negb (initiator c0)); apply Hfin; first [exact Hb' | fr_go | cb_go].
  - (* arrive *)
    destruct (_ && _); [|exact Hri].
    apply ri_boring; [exact Hb' | exact Hw | cbn [s_cbs upd_chan]; rewrite Hcb; constructor | exact Hcl | exact Hk].
  - (* deliver *)
    destruct (negb (s_in_open c)); [exact Hri|]. destruct (s_in_buf c) as [|m r] eqn:Eb; [exact Hri|].
    apply ri_incoming. exact (ri_pop k0 c m r Hri Eb).
  - apply ri_incoming. exact Hri.
  - apply ri_incoming. exact Hri.
  - (* inclosed *)
    destruct (is_connected (s_st c)) eqn:Ec; [|exact Hri].
    apply (ri_set_state k0 c c SLatent Hri Ec). apply hok_unchanged; [intros X; discriminate X | left; reflexivity].
  - (* timeout *)
    destruct (state_timeout (s_st c) c e) as [s1 next] eqn:E.
    destruct (is_connected (s_st c)) eqn:Ec.
    + apply (ri_set_state k0 c s1 next Hri Ec). apply (hok_state_timeout c e); assumption.
    + pose proof (notconn_latent _ Hw Ec) as Hs. rewrite Hs in E. cbn [state_timeout] in E. inversion E; subst s1 next.
      rewrite set_state_not_connected in * by (try exact Ec; reflexivity).
      apply (ri_dead k0 c SLatent Hri Ec eq_refl). left; reflexivity.
  - (* app send *) apply Hplain; [exact Hb' | fr_go | cb_go].
  - (* flush *) apply Hplain; [exact Hb' | fr_go | cb_go].
  - (* stop *)
    set (c0 := upd_flags c (s_sent_reset c) (s_hb c) true (s_stopped c)) in *.
    assert (Hri0 : RI k0 c0) by exact Hri.
    destruct (state_stop (s_st c0) c0) as [s1 next] eqn:E.
    destruct (is_connected (s_st c0)) eqn:Ec.
    + apply (ri_set_state k0 c0 s1 next Hri0 Ec). apply hok_state_stop; assumption.
    + pose proof (notconn_latent _ Hw Ec) as Hs. change (s_st c0) with (s_st c) in E. rewrite Hs in E.
      cbn [state_stop] in E. inversion E; subst s1 next.
      rewrite set_state_not_connected in * by (try exact Ec; reflexivity).
      apply (ri_dead k0 c0 SLatent Hri0 Ec eq_refl). left; reflexivity.
  - (* reset time *) apply Hplain; [exact Hb' | fr_go | cb_go].
Qed.

(* what the invariant says about the event's codes and the automaton's next state *)
Lemma event_codes_ri k e s' : RI (c08_k0 k e) s' ->
  (forall x, In x (c08_event_codes k e (obs_of s')) -> ~ In x [803; 804; 806])
  /\ k_logged (c08_next k e (obs_of s')) = gl (s_st s').
Proof.
  intros (Hb & Hw & R1 & R2 & R3 & R4 & R5).
  change (rev (s_cbs s')) with (ob_cbs (obs_of s')) in *.
  split; [|unfold c08_next; cbv zeta; cbn [k_logged]; exact R3].
  intros x Hx. unfold c08_event_codes in Hx. cbv zeta in Hx. rewrite R1, R2, R3 in Hx. cbn [app] in Hx.
  apply in_app_or in Hx as [Hx|Hx].
  { apply wire_fold_codes_any in Hx. intros [H|[H|[H|[]]]]; subst x; destruct Hx as [Hx|[Hx|Hx]]; discriminate Hx. }
  exfalso. apply in_app_or in Hx as [Hx|Hx].
  - assert (Hc : Nat.ltb 1 (count_onlogout (ob_cbs (obs_of s'))) = false) by (apply Nat.ltb_ge; exact R5).
    rewrite Hc in Hx. destruct Hx.
  - change (ob_closed (obs_of s')) with (s_closed s') in Hx.
    destruct (is_connected (s_st s')) eqn:Ec.
    + destruct (R4 eq_refl) as [C1 _]. rewrite C1 in Hx. destruct Hx.
    + rewrite (notconn_gl _ Ec), andb_false_r in Hx. destruct Hx.
Qed.

(* ---------- the invariant at event boundaries and the trace theorem ---------- *)
Definition C08Full (k : c08_st) (s : sess) : Prop := C08Inv k s /\ WSt (s_st s) /\ k_logged k = gl (s_st s).

Lemma c08_full_step : forall k s e, C08Full k s ->
  (forall x, In x (c08_event_codes k e (obs_of (step s e))) -> ~ In x [803; 804; 806])
  /\ C08Full (c08_next k e (obs_of (step s e))) (step s e).
Proof.
  intros k s e (Hinv & Hw & Hl).
  assert (Hk0 : k_logged (c08_k0 k e) = gl (s_st s)).
  { destruct e; cbn [c08_k0]; try exact Hl. destruct (k_connected k) eqn:Ek; [exact Hl|]. cbn [k_logged].
    destruct Hinv as (Hb & Hk & _). symmetry. apply notconn_gl. rewrite <- (boundary_open_connected s Hb), <- Hk. exact Ek. }
  pose proof Hinv as (Hb & _).
  pose proof (ri_step (c08_k0 k e) s e Hb Hw Hk0) as Hri.
  destruct (event_codes_ri k e (step s e) Hri) as [E1 E2].
  split; [exact E1|].
  destruct (c08_step_inv k s e Hinv) as [_ Hinv'].
  split; [exact Hinv'|]. destruct Hri as (_ & Hw' & _). split; [exact Hw' | exact E2].
Qed.

Lemma init_c08full c : C08Full c08_init (init_sess c).
Proof. split; [apply init_c08inv|]. split; [left; reflexivity | reflexivity]. Qed.

Lemma c08_scan_full : forall es s i k, C08Full k s ->
  free_of [803; 804; 806] (c08_scan i k (combine es (map obs_of (run_trace es s)))) = true.
Proof.
  induction es as [|e r IH]; intros s i k Hinv; cbn [run_trace map combine]; [reflexivity|].
  rewrite c08_scan_cons, free_of_app. destruct (c08_full_step k s e Hinv) as [H1 H2].
  apply andb_true_iff; split; [apply free_of_map; exact H1 | apply IH; exact H2].
Qed.

(* C08, trace level, EVERY trace of the model (every configuration, both roles, every event list, frames buffered in
   messageIn included):
   803  FromApp only between the logon notification and the logout notification,
   804  never two logout notifications for one logged-on period,
   806  a logged-on period never ends (channel closed) without the logout notification. *)
Lemma c08_notifications_on_every_trace : forall c es,
  free_of [803; 804; 806] (c08_check (combine es (map obs_of (run_trace es (init_sess c))))) = true.
Proof. intros c es. unfold c08_check. apply c08_scan_full. apply init_c08full. Qed.

Lemma free_of_both a b l : free_of a l = true -> free_of b l = true -> free_of (a ++ b) l = true.
Proof.
  unfold free_of. intros Ha Hb. apply forallb_forall. intros f Hf.
  rewrite forallb_forall in Ha, Hb. specialize (Ha f Hf). specialize (Hb f Hf).
  rewrite existsb_app, negb_orb, Ha, Hb. reflexivity.
Qed.

(* all the clauses of c08_check but 802 *)
Lemma c08_all_but_802 : forall c es,
  free_of [801; 805; 803; 804; 806] (c08_check (combine es (map obs_of (run_trace es (init_sess c))))) = true.
Proof.
  intros c es. apply (free_of_both [801; 805] [803; 804; 806]);
    [apply c08_first_message_and_silence_after_close | apply c08_notifications_on_every_trace].
Qed.

(* the automaton's "logged" flag follows the session state at every event boundary of every trace *)
Lemma c08_full_general : forall es s k, C08Full k s ->
  Forall2 C08Full (c08_states k (combine es (map obs_of (run_trace es s)))) (run_trace es s).
Proof.
  induction es as [|e r IH]; intros s k Hinv; cbn [run_trace map combine c08_states]; [constructor|].
  destruct (c08_full_step k s e Hinv) as [_ H2]. constructor; [exact H2 | apply IH; exact H2].
Qed.
Lemma c08_logged_coupling : forall c es,
  Forall2 (fun k s => k_logged k = gl (s_st s))
          (c08_states c08_init (combine es (map obs_of (run_trace es (init_sess c))))) (run_trace es (init_sess c)).
Proof.
  intros c es. eapply Forall2_imp; [|exact (c08_full_general es (init_sess c) c08_init (init_c08full c))].
  intros k s (_ & _ & H). exact H.
Qed.

(* examples: a trace with buffered frames at a self-initiated disconnect (the former witness), and a plain one *)
Definition c08_ex_quiet : list event :=
  [EConnect; EIncoming (c08_ex_msg T_LOGON 1); EIncoming (c08_ex_msg (B "D") 2); EAppSend (B "D") [] true; EFlush;
   EIncoming (c08_ex_msg T_LOGOUT 3)].
Lemma c08_ex_quiet_ok :
  c08_trace_check (c08_ex_cfg Acceptor) c08_ex_quiet = []
  /\ map (fun s => length (s_cbs s)) (run_trace c08_ex_quiet (init_sess (c08_ex_cfg Acceptor))) = [0; 3; 1; 1; 0; 3]%nat.
Proof. vm_compute. repeat split; reflexivity. Qed.

Lemma handlers_never_notify_logout : forall st s m s1 next, state_fix_msg_in st s m = (s1, next) ->
  exists new, s_cbs s1 = new ++ s_cbs s /\ Forall (fun c => c <> CbOnLogout) new.
Proof. intros st s m s1 next E. exact (cb_state_fix_msg_in s st s m s1 next E (cbr_refl Lnologout s)). Qed.

