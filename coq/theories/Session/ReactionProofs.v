(* C06: the reaction table.  For a logged-on, non-recovering session with nothing queued, a sequence-gated message with a
   header defect of the table gets exactly the mandated reaction (clause 602 of c06_check), for every message. *)
From Coq Require Import String.
From Coq Require Import ZArith List Bool Lia.
From QF Require Import Base.Bytes Session.Types Session.Model Session.Spec Session.C01Proofs Session.LocalProofs
  Session.FrameProofs Session.TraceProofs Session.RecoveryProofs.
Import ListNotations.
Open Scope list_scope.
Open Scope Z_scope.

Lemma gated_failed_verify : forall s m r,
  gated_type (mi_type m) = true -> verify s m = (s, Some r) -> in_session_fix_msg_in s m = process_reject s m r.
Proof.
  intros s m r Hg Hv. unfold gated_type in Hg. apply negb_true_iff in Hg.
  repeat (apply orb_false_elim in Hg as [Hg ?]).
  unfold in_session_fix_msg_in.
  repeat match goal with H : beq_bytes (mi_type m) _ = false |- _ => rewrite H; clear H end.
  destruct (beq_bytes (mi_type m) T_TESTREQ); [unfold handle_test_request|]; rewrite Hv; reflexivity.
Qed.

(* which verification error each defect of the table produces *)
Definition defect_rej (tgt : Z) (m : minput) (re : reaction) (r : rej) : Prop :=
  match re with
  | ReLogout => r = RBadBegin \/ exists n, r = RTooLow n tgt /\ (mi_possdup m = FAbsent \/ mi_possdup m = FVal false)
  | ReRejectLogout reason => (reason = 9 \/ reason = 10) /\ r = RMsg reason None false
  | ReReject reason tag => (reason = 1 \/ reason = 4 \/ reason = 6) /\ r = RMsg reason (Some tag) false
  end.

Lemma defect_verify : forall s m re,
  (forall a b c, s_st s <> SResend a b c) ->
  header_defect (s_cfg s) (s_tgt s) m = Some re ->
  exists r, verify s m = (s, Some r) /\ defect_rej (s_tgt s) m re r.
Proof.
  intros s m re Hnr Hd. unfold header_defect in Hd. unfold verify, verify_select.
  unfold check_begin_string. unfold hdr_begin_ok in Hd.
  destruct (beq_bytes (mi_begin m) (begin_string (c_begin (s_cfg s)))); cbn [negb] in Hd.
  2: { inversion Hd; subst. eexists; split; [reflexivity|]. left; reflexivity. }
  unfold check_comp_id.
  destruct (mi_sender m) as [sd|]; [|inversion Hd; subst; eexists; split; [reflexivity|]; split; [auto | reflexivity]].
  destruct (mi_target m) as [tg|]; [|inversion Hd; subst; eexists; split; [reflexivity|]; split; [auto | reflexivity]].
  destruct (Nat.eqb (length tg) 0); [inversion Hd; subst; eexists; split; [reflexivity|]; split; [auto | reflexivity]|].
  destruct (Nat.eqb (length sd) 0); [inversion Hd; subst; eexists; split; [reflexivity|]; split; [auto | reflexivity]|].
  destruct (beq_bytes (c_sender (s_cfg s)) tg && beq_bytes (c_target (s_cfg s)) sd); cbn [negb] in Hd.
  2: { inversion Hd; subst. eexists; split; [reflexivity|]. split; [auto | reflexivity]. }
  replace (match s_st s with SResend _ _ _ => None | _ => check_sending_time s m end) with (check_sending_time s m)
    by (destruct (s_st s) eqn:Es; try reflexivity; exfalso; eapply Hnr; reflexivity).
  unfold check_sending_time.
  destruct (c_skip_latency (s_cfg s)).
  - unfold check_target_too_low. destruct (mi_seq m) as [| |n];
      try (inversion Hd; subst; eexists; split; [reflexivity|]; split; [auto | reflexivity]).
    destruct (n <? s_tgt s); [|discriminate].
    destruct (mi_possdup m) as [| |[|]] eqn:Ep; inversion Hd; subst; eexists; (split; [reflexivity|]); right; exists n; auto.
  - destruct (mi_stime m) as [| |d]; try (inversion Hd; subst; eexists; split; [reflexivity|]; split; [auto | reflexivity]).
    destruct ((c_max_latency (s_cfg s) <=? d) || (d <=? - c_max_latency (s_cfg s))).
    + inversion Hd; subst. eexists; split; [reflexivity|]. split; [auto | reflexivity].
    + unfold check_target_too_low. destruct (mi_seq m) as [| |n];
        try (inversion Hd; subst; eexists; split; [reflexivity|]; split; [auto | reflexivity]).
      destruct (n <? s_tgt s); [|discriminate].
      destruct (mi_possdup m) as [| |[|]] eqn:Ep; inversion Hd; subst; eexists; (split; [reflexivity|]); right; exists n; auto.
Qed.

(* ---------- what the reactions send ---------- *)
Definition logout_msg (s : sess) : omsg :=
  {| o_type := T_LOGOUT; o_seq := s_snd s; o_hdr := [] ++ default_hdr s None; o_body := [] |}.

Section Ready.
Variable s : sess.
Hypothesis Hl : is_logged_on (s_st s) = true.
Hypothesis Ho : s_out_open s = true.
Hypothesis Hq : s_to_send s = [].

Lemma initiate_logout_sent : initiate_logout_in_reply_to s None = sent s (logout_msg s).
Proof.
  unfold initiate_logout_in_reply_to, send_logout_in_reply_to.
  apply (send_in_reply_to_logged_on s T_LOGOUT [] [] None Hl Ho Hq eq_refl eq_refl).
Qed.

Definition reject_body (c : cfg) (m : minput) (reason : Z) (tag : option Z) : list (Z * bytes) :=
  let ref_seq := match mi_seq m with FVal n => [(45, itoa n)] | _ => [] end in
  if 2 <=? c_begin c then
    ref_seq ++ (match tag with Some t => [(371, itoa t)] | None => [] end) ++ [(372, mi_type m)]
            ++ (if (11 <? reason) && (c_begin c =? 2) then [] else [(373, itoa reason)])
  else ref_seq.
Definition reject_msg (m : minput) (reason : Z) (tag : option Z) : omsg :=
  {| o_type := T_REJECT; o_seq := s_snd s; o_hdr := reverse_route m ++ default_hdr s (Some m);
     o_body := reject_body (s_cfg s) m reason tag |}.

Lemma do_reject_sent : forall m reason tag, do_reject s m (RMsg reason tag false) = sent s (reject_msg m reason tag).
Proof.
  intros m reason tag. unfold do_reject, reject_msg, reject_body. cbn iota beta.
  destruct (2 <=? c_begin (s_cfg s));
    apply (send_in_reply_to_logged_on s T_REJECT _ _ (Some m) Hl Ho Hq eq_refl eq_refl).
Qed.
End Ready.

Lemma sent_ready s m : is_logged_on (s_st s) = true -> s_out_open s = true -> s_to_send s = [] ->
  is_logged_on (s_st (sent s m)) = true /\ s_out_open (sent s m) = true /\ s_to_send (sent s m) = [].
Proof.
  intros Hl Ho Hq. destruct (sent_facts s m) as (_ & _ & _ & F4 & F5 & _ & F7 & _).
  rewrite F5, F7, F4. auto.
Qed.

Lemma step_incoming_in_session : forall s m, s_st s = SInSession ->
  step s (EIncoming m) = (let '(s1, next) := in_session_fix_msg_in (clear_logs s) m in set_state s1 next).
Proof.
  intros s m Hst. unfold step, step_event, incoming, incoming_with.
  change (s_st (clear_logs s)) with (s_st s). rewrite Hst. reflexivity.
Qed.

Lemma set_state_connected : forall s next, is_connected next = true -> set_state s next = upd_st s next.
Proof. intros s next H. unfold set_state, set_state_with. rewrite H. reflexivity. Qed.

Lemma field_373_reject_body : forall c m reason tag, 2 <=? c_begin c = true -> reason <= 11 ->
  field_of 373 (reject_body c m reason tag) = Some (itoa reason).
Proof.
  intros c m reason tag Hb Hr. unfold reject_body. rewrite Hb.
  replace (11 <? reason) with false by (symmetry; apply Z.ltb_ge; lia). cbn [andb].
  destruct (mi_seq m), tag; reflexivity.
Qed.
Lemma field_371_reject_body : forall c m reason tag, 2 <=? c_begin c = true ->
  field_of 371 (reject_body c m reason (Some tag)) = Some (itoa tag).
Proof. intros c m reason tag Hb. unfold reject_body. rewrite Hb. destruct (mi_seq m); reflexivity. Qed.

Theorem reaction_step : forall s m re,
  s_st s = SInSession -> s_out_open s = true -> s_to_send s = [] ->
  gated_type (mi_type m) = true -> header_defect (s_cfg s) (s_tgt s) m = Some re ->
  c06_reaction_ok (s_cfg s) (obs_of s) (obs_of (step s (EIncoming m))) m re = true.
Proof.
  intros s m re Hst Ho Hq Hg Hd.
  set (c := clear_logs s).
  assert (Hl : is_logged_on (s_st c) = true) by (change (s_st c) with (s_st s); rewrite Hst; reflexivity).
  assert (Hoc : s_out_open c = true) by exact Ho.
  assert (Hqc : s_to_send c = []) by exact Hq.
  assert (Hnr : forall a b d, s_st c <> SResend a b d) by (intros a b d; change (s_st c) with (s_st s); rewrite Hst; discriminate).
  destruct (defect_verify c m re Hnr Hd) as (r & Hv & Hr).
  rewrite (step_incoming_in_session s m Hst). fold c. rewrite (gated_failed_verify c m r Hg Hv).
  assert (Hlogout : forall x, is_logged_on (s_st x) = true -> s_out_open x = true -> s_to_send x = [] ->
            s_wire x = [] \/ (exists w, s_wire x = [w] /\ o_type w = T_REJECT) -> s_tgt x = s_tgt s ->
            let o := obs_of (set_state (initiate_logout_in_reply_to x None) SLogout) in
            ob_tgt o = s_tgt s /\ ob_st o = ShLogout /\ ob_wire o = rev (s_wire x) ++ [logout_msg x]).
  { intros x H1 H2 H3 _ H5. rewrite (initiate_logout_sent x H1 H2 H3), (set_state_connected _ SLogout eq_refl).
    destruct (sent_facts x (logout_msg x)) as (F1 & F2 & _). cbn [obs_of ob_tgt ob_st ob_wire upd_st s_tgt s_st s_wire shape_of].
    rewrite F1, F2. cbn [rev]. auto. }
  destruct re as [|reason|reason tag]; cbn [defect_rej] in Hr; unfold c06_reaction_ok.
  - (* Logout only *)
    assert (E : process_reject c m r = (initiate_logout_in_reply_to c None, SLogout)).
    { destruct Hr as [->|(n & -> & Hp)]; [reflexivity|]. cbn [process_reject]. unfold do_target_too_low.
      destruct Hp as [->| ->]; reflexivity. }
    rewrite E. destruct (Hlogout c Hl Hoc Hqc (or_introl eq_refl) eq_refl) as (A1 & A2 & A3).
    rewrite A1, A2, A3. change (ob_tgt (obs_of s)) with (s_tgt s). rewrite Z.eqb_refl. reflexivity.
  - (* Reject then Logout *)
    destruct Hr as [Hreason ->]. cbn [process_reject].
    replace ((reason =? 9) || (reason =? 10)) with true by (destruct Hreason as [-> | ->]; reflexivity).
    rewrite (do_reject_sent c Hl Hoc Hqc).
    set (rj := reject_msg c m reason None).
    destruct (sent_ready c rj Hl Hoc Hqc) as (R1 & R2 & R3).
    destruct (sent_facts c rj) as (F1 & F2 & _).
    assert (Hw : s_wire (sent c rj) = [rj]) by (rewrite F1; reflexivity).
    destruct (Hlogout (sent c rj) R1 R2 R3 (or_intror (ex_intro _ rj (conj Hw eq_refl))) F2) as (A1 & A2 & A3).
    rewrite A1, A2, A3, Hw. change (ob_tgt (obs_of s)) with (s_tgt s). rewrite Z.eqb_refl.
    change (beq_types (wire_types (rev [rj] ++ [logout_msg (sent c rj)])) [T_REJECT; T_LOGOUT]) with true.
    cbn [andb rev app].
    destruct (2 <=? c_begin (s_cfg s)) eqn:Eb; [|reflexivity].
    change (o_body rj) with (reject_body (s_cfg s) m reason None).
    rewrite (field_373_reject_body (s_cfg s) m reason None Eb) by (destruct Hreason; lia).
    unfold opt_beq. apply beq_bytes_refl.
  - (* plain Reject, expected number + 1 *)
    destruct Hr as [Hreason ->]. cbn [process_reject].
    replace ((reason =? 9) || (reason =? 10)) with false by (destruct Hreason as [-> | [-> | ->]]; reflexivity).
    rewrite (do_reject_sent c Hl Hoc Hqc), (set_state_connected _ SInSession eq_refl).
    set (rj := reject_msg c m reason (Some tag)).
    destruct (sent_facts c rj) as (F1 & F2 & _).
    cbn [obs_of ob_tgt ob_st ob_wire upd_st incr_tgt upd_store s_tgt s_st s_wire].
    rewrite F1, F2. change (s_wire c) with (@nil omsg). cbn [rev app].
    change (beq_types (wire_types [rj]) [T_REJECT]) with true. change (s_tgt c) with (s_tgt s).
    change (ob_tgt (obs_of s)) with (s_tgt s). rewrite Z.eqb_refl. cbn [andb].
    destruct (2 <=? c_begin (s_cfg s)) eqn:Eb; [|reflexivity].
    change (o_body rj) with (reject_body (s_cfg s) m reason (Some tag)).
    rewrite (field_373_reject_body (s_cfg s) m reason (Some tag) Eb) by (destruct Hreason as [-> | [-> | ->]]; lia).
    rewrite (field_371_reject_body (s_cfg s) m reason tag Eb).
    unfold opt_beq. rewrite !beq_bytes_refl. reflexivity.
Qed.

(* ---------- trace level ---------- *)
Lemma plain_in_session st :
  sh_logged_on (shape_of st) && negb (sh_is_resend (shape_of st)) && negb (sh_is_pending (shape_of st)) = true -> st = SInSession.
Proof. destruct st; cbn; intros H; try reflexivity; try discriminate; rewrite ?andb_false_r in H; discriminate. Qed.

Lemma c06_scan_reaction : forall es s i, Boundary s ->
  free_of [602] (c06_scan (s_cfg s) i (obs_of s) (combine es (map obs_of (run_trace es s)))) = true.
Proof.
  induction es as [|e r IH]; intros s i Hb; cbn [run_trace map combine]; [reflexivity|].
  cbn [c06_scan]. rewrite !free_of_app. repeat (apply andb_true_iff; split).
  - free_rest.
  - free_rest.
  - destruct e; try reflexivity.
    match goal with |- free_of _ (if ?x then _ else _) = true => destruct x eqn:Ec; [|reflexivity] end.
    rewrite free_of_app. apply andb_true_iff; split; [|free_rest].
    repeat (apply andb_true_iff in Ec as [Ec ?]).
    change (ob_st (obs_of s)) with (shape_of (s_st s)) in *.
    assert (Hst : s_st s = SInSession).
    { apply plain_in_session. repeat (apply andb_true_iff; split); assumption. }
    assert (Hq : s_to_send s = []) by (apply len0; assumption).
    assert (Ho : s_out_open s = true).
    { destruct Hb as [B1 _]. rewrite Hst in B1. exact (proj1 (B1 eq_refl)). }
    change (ob_tgt (obs_of s)) with (s_tgt s).
    destruct (header_defect (s_cfg s) (s_tgt s) m) as [re|] eqn:Hd; [|reflexivity].
    rewrite (reaction_step s m re Hst Ho Hq) by assumption. reflexivity.
  - rewrite <- (step_cfg (s_cfg s) s e eq_refl). apply IH. apply step_boundary; exact Hb.
Qed.

(* C06, trace level: on every trace of the model, whenever a sequence-gated message with a header defect of the table is
   processed by a logged-on, non-recovering session with nothing queued or buffered, the reaction is the mandated one *)
Lemma c06_reactions_never_fail : forall c es,
  free_of [602] (c06_check c (combine es (map obs_of (run_trace es (init_sess c))))) = true.
Proof. intros c es. unfold c06_check. apply (c06_scan_reaction es (init_sess c)). apply init_boundary. Qed.

Lemma passes_hdr_ok : forall c tgt m, msg_passes_header c tgt m = true -> hdr_ok c m.
Proof.
  intros c tgt m H. unfold msg_passes_header, header_defect in H. unfold hdr_ok, hdr_compid_ok, hdr_time_ok.
  destruct (hdr_begin_ok c m); cbn [negb] in H; [|discriminate].
  destruct (mi_sender m) as [sd|]; [|discriminate]. destruct (mi_target m) as [tg|]; [|discriminate].
  destruct tg as [|t0 tg]; [discriminate|]. destruct sd as [|s0 sd]; [discriminate|]. cbn [length Nat.eqb] in H.
  destruct (beq_bytes (c_sender c) (t0 :: tg) && beq_bytes (c_target c) (s0 :: sd)); cbn [negb] in H; [|discriminate].
  split; [reflexivity|]. split; [reflexivity|]. split.
  - destruct (c_skip_latency c); [reflexivity|]. cbn [orb].
    destruct (mi_stime m) as [| |d]; try discriminate.
    destruct (Z.leb_spec (c_max_latency c) d); cbn [orb] in H; [discriminate|].
    destruct (Z.leb_spec d (- c_max_latency c)); [discriminate|].
    apply andb_true_iff. split; apply Z.ltb_lt; lia.
  - split; intros x Hx; inversion Hx; discriminate.
Qed.

(* ---------- C04 clause 401 at trace level: a gap in normal operation ---------- *)
Lemma gap_step : forall s m n,
  s_st s = SInSession -> s_out_open s = true -> s_to_send s = [] ->
  gated_type (mi_type m) = true -> msg_passes_header (s_cfg s) (s_tgt s) m = true -> mi_seq m = FVal n -> s_tgt s < n ->
  let o := obs_of (step s (EIncoming m)) in
  (match resend_requests (ob_wire o) with [rq] => rr_is rq (s_tgt s) (end_marker (s_cfg s) (s_tgt s) n) | _ => false end) = true
  /\ ob_tgt o = s_tgt s
  /\ match ob_st o with ShResend _ keys _ re => existsb (Z.eqb n) keys && (re =? n - 1) | _ => false end = true.
Proof.
  intros s m n Hst Ho Hq Hg Hp Hseq Hn.
  set (c := clear_logs s).
  assert (Hl : is_logged_on (s_st c) = true) by (change (s_st c) with (s_st s); rewrite Hst; reflexivity).
  assert (Hnr : forall a b d, unwrap_pending (s_st c) <> SResend a b d) by (intros a b d; change (s_st c) with (s_st s); rewrite Hst; discriminate).
  pose proof (passes_hdr_ok _ _ _ Hp) as Hh.
  assert (Hv : verify c m = (c, Some (RTooHigh n (s_tgt c)))).
  { apply (verify_select_too_high c m true true n); [exact Hh | exact Hseq | exact Hn]. }
  rewrite (step_incoming_in_session s m Hst). fold c. rewrite (gated_failed_verify c m _ Hg Hv).
  destruct (gap_detected_not_recovering c m n Hl Hnr Ho Hq) as (W1 & W2 & _ & _ & W5).
  destruct (process_reject c m (RTooHigh n (s_tgt c))) as [s1 next]. cbn [fst snd] in W1, W2, W5. subst next.
  match goal with |- context [set_state s1 ?nx] => rewrite (set_state_connected s1 nx eq_refl) end.
  cbn [obs_of ob_wire ob_tgt ob_st upd_st s_wire s_tgt s_st shape_of map fst]. rewrite W1, W2.
  change (s_wire c) with (@nil omsg). cbn [rev app].
  split; [|split; [reflexivity|]].
  - match goal with |- context [resend_requests [?h]] => replace (resend_requests [h]) with [h] by reflexivity end.
    unfold rr_is. cbn [o_body]. replace (field_of 7 _) with (Some (itoa (s_tgt c))) by reflexivity.
    replace (field_of 16 _) with (Some (itoa (end_marker (s_cfg c) (s_tgt c) n))) by reflexivity.
    cbn [opt_beq]. rewrite !beq_bytes_refl. reflexivity.
  - cbn [existsb]. rewrite !Z.eqb_refl. reflexivity.
Qed.

Lemma shape_in_session st : shape_of st = ShInSession -> st = SInSession.
Proof. destruct st; cbn; intros H; try discriminate; reflexivity. Qed.

Lemma c04_scan_gap : forall es s i kept, Boundary s ->
  free_of [401] (c04_scan (s_cfg s) i kept (obs_of s) (combine es (map obs_of (run_trace es s)))) = true.
Proof.
  induction es as [|e r IH]; intros s i kept Hb; cbn [run_trace map combine]; [reflexivity|].
  cbn [c04_scan]. rewrite !free_of_app. repeat (apply andb_true_iff; split).
  - destruct e as [| | |m| | | | | | |]; try reflexivity.
    destruct (mi_seq m) as [| |n] eqn:Eseq; try reflexivity.
    match goal with |- free_of _ (if ?x then _ else _) = true => destruct x eqn:Ec; [|reflexivity] end.
    change (ob_st (obs_of s)) with (shape_of (s_st s)).
    destruct (shape_of (s_st s)) eqn:Esh; try reflexivity.
    pose proof (shape_in_session _ Esh) as Hst.
    repeat (apply andb_true_iff in Ec as [Ec ?]).
    change (ob_tgt (obs_of s)) with (s_tgt s) in *.
    assert (Hq : s_to_send s = []) by (apply len0; assumption).
    assert (Ho : s_out_open s = true).
    { destruct Hb as [B1 _]. rewrite Hst in B1. exact (proj1 (B1 eq_refl)). }
    assert (Hn : s_tgt s < n) by (apply Z.ltb_lt; assumption).
    destruct (gap_step s m n Hst Ho Hq) as (G1 & G2 & G3); try assumption.
    rewrite G1, G2, G3, Z.eqb_refl. reflexivity.
  - free_rest.
  - free_rest.
  - free_rest.
  - free_rest.
  - free_rest.
  - free_rest.
  - rewrite <- (step_cfg (s_cfg s) s e eq_refl). apply IH. apply step_boundary; exact Hb.
Qed.

(* C04, trace level: on every trace of the model a message above the expected number, arriving in normal operation with
   nothing queued or buffered, is answered by exactly one ResendRequest [expected, end marker], is kept under its number, and
   leaves the expected number unchanged *)
Lemma c04_gap_never_fails : forall c es,
  free_of [401] (c04_check c (combine es (map obs_of (run_trace es (init_sess c))))) = true.
Proof. intros c es. unfold c04_check. apply (c04_scan_gap es (init_sess c)). apply init_boundary. Qed.
