(* handleLogon's success path, and what follows from it at trace level:
   C20 clause 2006 (an acceptor without HeartBtInt override adopts the interval announced in the Logon it accepts) and
   C07 clause 707 (the reply to an accepted Logon carrying ResetSeqNumFlag=Y echoes the flag as number 1; next sender number 2,
   or 3 when the received Logon is itself numbered above 1).
   OnLogon is logged, and the heartbeat interval assigned, in handle_logon only: the closure `Quiet` (same syntax-directed
   pattern as FrameProofs.v, sections L1-L5) shows that the send path, the store operations, verification against the
   application, shutdownWithReason and doTargetTooHigh neither log OnLogon nor touch the interval. *)
From Coq Require Import String.
From Coq Require Import ZArith List Bool Lia.
From QF Require Import Base.Bytes Session.Types Session.Model Session.Spec Session.C01Proofs Session.FrameProofs Session.TraceProofs
  Session.ConnectProofs.
Import ListNotations.
Open Scope list_scope.
Open Scope Z_scope.

(* ---------- the closure: interval and configuration kept, no OnLogon logged ---------- *)
Definition Quiet (s s' : sess) : Prop :=
  s_hb s' = s_hb s /\ s_cfg s' = s_cfg s /\ (In CbOnLogon (s_cbs s') -> In CbOnLogon (s_cbs s)).

Lemma qt_refl s : Quiet s s.
Proof. repeat split. intros H; exact H. Qed.
Lemma qt_trans a b c : Quiet a b -> Quiet b c -> Quiet a c.
Proof. intros (A1 & A2 & A3) (B1 & B2 & B3). repeat split; try congruence. intros H. apply A3, B3, H. Qed.

Section QBase.
Variable s0 : sess.
Ltac stepq := intros H; eapply qt_trans; [exact H|]; repeat split; intros C; exact C.
Lemma qt_upd_to_send s q : Quiet s0 s -> Quiet s0 (upd_to_send s q). Proof. stepq. Qed.
Lemma qt_upd_store s a b c : Quiet s0 s -> Quiet s0 (upd_store s a b c). Proof. stepq. Qed.
Lemma qt_upd_wire s w : Quiet s0 s -> Quiet s0 (upd_logs s (s_cbs s) w). Proof. stepq. Qed.
Lemma qt_upd_chan s a b c d : Quiet s0 s -> Quiet s0 (upd_chan s a b c d). Proof. stepq. Qed.
Lemma qt_upd_st s x : Quiet s0 s -> Quiet s0 (upd_st s x). Proof. stepq. Qed.
Lemma qt_set_sent_reset s b : Quiet s0 s -> Quiet s0 (set_sent_reset s b). Proof. stepq. Qed.
Lemma qt_log s c : c <> CbOnLogon -> Quiet s0 s -> Quiet s0 (log_cb s c).
Proof.
  intros Hc H. eapply qt_trans; [exact H|]. repeat split. cbn [log_cb upd_logs s_cbs].
  intros [C | C]; [exfalso; exact (Hc C) | exact C].
Qed.
Lemma qt_reset s : Quiet s0 s -> Quiet s0 (store_reset s).
Proof. intros H. unfold store_reset. apply qt_log; [discriminate|]. apply qt_upd_store, H. Qed.
Lemma qt_incr s : Quiet s0 s -> Quiet s0 (incr_tgt s). Proof. unfold incr_tgt. apply qt_upd_store. Qed.
Lemma qt_set_tgt s n : Quiet s0 s -> Quiet s0 (set_tgt s n). Proof. unfold set_tgt. apply qt_upd_store. Qed.
Lemma qt_persist s m : Quiet s0 s -> Quiet s0 (persist s m).
Proof. intros H. unfold persist. destruct (c_disable_persist _); apply qt_upd_store, H. Qed.
End QBase.

Ltac qt_ext := fail.
Ltac qt_go :=
  lazymatch goal with
  | H : Quiet ?a ?b |- Quiet ?a ?b => exact H
  | |- Quiet ?a ?a => apply qt_refl
  | |- Quiet _ (if ?x then _ else _) => destruct x eqn:?; qt_go
  | |- Quiet _ (match ?x with _ => _ end) => destruct x eqn:?; qt_go
  | |- Quiet _ (upd_to_send _ _) => apply qt_upd_to_send; qt_go
  | |- Quiet _ (upd_store _ _ _ _) => apply qt_upd_store; qt_go
  | |- Quiet _ (upd_logs ?s (s_cbs ?s) _) => apply qt_upd_wire; qt_go
  | |- Quiet _ (upd_chan _ _ _ _ _) => apply qt_upd_chan; qt_go
  | |- Quiet _ (upd_st _ _) => apply qt_upd_st; qt_go
  | |- Quiet _ (log_cb _ _) => apply qt_log; [discriminate | qt_go]
  | |- Quiet _ (store_reset _) => apply qt_reset; qt_go
  | |- Quiet _ (incr_tgt _) => apply qt_incr; qt_go
  | |- Quiet _ (set_tgt _ _) => apply qt_set_tgt; qt_go
  | |- Quiet _ (set_sent_reset _ _) => apply qt_set_sent_reset; qt_go
  | |- Quiet _ (persist _ _) => apply qt_persist; qt_go
  | _ => qt_ext
  end.
Ltac qt_pairlemma E := brk_in E; inv E; brk_hyps; qt_go.

Section Q1.
Variable s0 : sess.
Lemma qt_prep s t hdr body ir ok s1 r : prep s t hdr body ir ok = (s1, r) -> Quiet s0 s -> Quiet s0 s1.
Proof. intros E H. unfold prep in E. qt_pairlemma E. Qed.
Lemma qt_send_queued s : Quiet s0 s -> Quiet s0 (send_queued s).
Proof. intros H. unfold send_queued. qt_go. Qed.
Lemma qt_drop_queued s : Quiet s0 s -> Quiet s0 (drop_queued s).
Proof. intros H. unfold drop_queued. qt_go. Qed.
Lemma qt_enqueue s m : Quiet s0 s -> Quiet s0 (enqueue s m).
Proof. intros H. unfold enqueue. qt_go. Qed.
End Q1.
Ltac qt_ext1 :=
  lazymatch goal with
  | |- Quiet _ (send_queued _) => apply qt_send_queued; qt_go
  | |- Quiet _ (drop_queued _) => apply qt_drop_queued; qt_go
  | |- Quiet _ (enqueue _ _) => apply qt_enqueue; qt_go
  | |- Quiet _ ?v => match goal with E : prep _ _ _ _ _ _ = (v, _) |- _ => eapply qt_prep; [exact E | qt_go] end
  end.
Ltac qt_ext ::= qt_ext1.

Section Q2.
Variable s0 : sess.
Lemma qt_queue_for_send s t hdr body ir ok : Quiet s0 s -> Quiet s0 (queue_for_send s t hdr body ir ok).
Proof. intros H. unfold queue_for_send. qt_go. Qed.
Lemma qt_enqueue_bytes s m : Quiet s0 s -> Quiet s0 (enqueue_bytes_and_send s m).
Proof. intros H. unfold enqueue_bytes_and_send. qt_go. Qed.
Lemma qt_drop_and_send s t body ir : Quiet s0 s -> Quiet s0 (drop_and_send_in_reply_to s t body ir).
Proof. intros H. unfold drop_and_send_in_reply_to. qt_go. Qed.
Lemma qt_drop_and_reset s : Quiet s0 s -> Quiet s0 (drop_and_reset s).
Proof. intros H. unfold drop_and_reset. qt_go. Qed.
End Q2.
Ltac qt_ext2 :=
  lazymatch goal with
  | |- Quiet _ (queue_for_send _ _ _ _ _ _) => apply qt_queue_for_send; qt_go
  | |- Quiet _ (enqueue_bytes_and_send _ _) => apply qt_enqueue_bytes; qt_go
  | |- Quiet _ (drop_and_send_in_reply_to _ _ _ _) => apply qt_drop_and_send; qt_go
  | |- Quiet _ (drop_and_reset _) => apply qt_drop_and_reset; qt_go
  | _ => qt_ext1
  end.
Ltac qt_ext ::= qt_ext2.

Section Q3.
Variable s0 : sess.
Lemma qt_send_in_reply_to s t hdr body ir : Quiet s0 s -> Quiet s0 (send_in_reply_to s t hdr body ir).
Proof. intros H. unfold send_in_reply_to. qt_go. Qed.
Lemma qt_send_logon s b ir : Quiet s0 s -> Quiet s0 (send_logon_in_reply_to s b ir).
Proof. intros H. unfold send_logon_in_reply_to. qt_go. Qed.
Lemma qt_generate_sequence_reset s b e ir : Quiet s0 s -> Quiet s0 (generate_sequence_reset s b e ir).
Proof. intros H. unfold generate_sequence_reset. qt_go. Qed.
End Q3.
Ltac qt_ext3 :=
  lazymatch goal with
  | |- Quiet _ (send_in_reply_to _ _ _ _ _) => apply qt_send_in_reply_to; qt_go
  | |- Quiet _ (send_logon_in_reply_to _ _ _) => apply qt_send_logon; qt_go
  | |- Quiet _ (generate_sequence_reset _ _ _ _) => apply qt_generate_sequence_reset; qt_go
  | _ => qt_ext2
  end.
Ltac qt_ext ::= qt_ext3.

Section Q4.
Variable s0 : sess.
Lemma qt_send s t body : Quiet s0 s -> Quiet s0 (send s t body).
Proof. intros H. unfold send. qt_go. Qed.
Lemma qt_send_logout s ir : Quiet s0 s -> Quiet s0 (send_logout_in_reply_to s ir).
Proof. intros H. unfold send_logout_in_reply_to. qt_go. Qed.
Lemma qt_do_reject s m r : Quiet s0 s -> Quiet s0 (do_reject s m r).
Proof. intros H. unfold do_reject. qt_go. Qed.
End Q4.
Ltac qt_ext4 :=
  lazymatch goal with
  | |- Quiet _ (send _ _ _) => apply qt_send; qt_go
  | |- Quiet _ (send_logout_in_reply_to _ _) => apply qt_send_logout; qt_go
  | |- Quiet _ (initiate_logout_in_reply_to _ _) => unfold initiate_logout_in_reply_to; apply qt_send_logout; qt_go
  | |- Quiet _ (do_reject _ _ _) => apply qt_do_reject; qt_go
  | |- Quiet _ ?v =>
      match goal with
      | E : prep _ _ _ _ _ _ = (v, _) |- _ => eapply qt_prep; [exact E | qt_go]
      | _ => qt_ext3
      end
  | _ => qt_ext3
  end.
Ltac qt_ext ::= qt_ext4.

Section Q5.
Variable s0 : sess.
Lemma qt_send_resend_request s b e s1 st : send_resend_request s b e = (s1, st) -> Quiet s0 s -> Quiet s0 s1.
Proof. intros E H. unfold send_resend_request in E. qt_pairlemma E. Qed.
Lemma qt_do_target_too_high s a b s1 st : do_target_too_high s a b = (s1, st) -> Quiet s0 s -> Quiet s0 s1.
Proof. unfold do_target_too_high. apply qt_send_resend_request. Qed.
Lemma qt_do_target_too_low s m s1 st : do_target_too_low s m = (s1, st) -> Quiet s0 s -> Quiet s0 s1.
Proof. intros E H. unfold do_target_too_low in E. qt_pairlemma E. Qed.
Lemma qt_shutdown_with_reason s m b s1 st : shutdown_with_reason s m b = (s1, st) -> Quiet s0 s -> Quiet s0 s1.
Proof. intros E H. unfold shutdown_with_reason in E. qt_pairlemma E. Qed.
Lemma qt_verify_app s m s1 r : verify_msg_against_app_impl s m = (s1, r) -> Quiet s0 s -> Quiet s0 s1.
Proof. intros E H. unfold verify_msg_against_app_impl in E. qt_pairlemma E. Qed.
End Q5.

(* ---------- handle_logon: the checks, then the acceptance tail ---------- *)
(* what handle_logon does once every check before the reply has passed (`c` is the configuration read at entry) *)
Definition logon_accept (c : cfg) (s3 : sess) (m : minput) (flag : bool) : sess * option rej :=
  let s4 :=
    if initiator s3 then s3 else
    let s3' := if c_hb_override c then s3 else match mi_hbint m with FVal h => set_hb s3 h | _ => s3 end in
    send_logon_in_reply_to s3' flag (Some m) in
  let s5 := log_cb (set_sent_reset s4 false) CbOnLogon in
  match check_target_too_high s5 m with
  | Some r => (s5, Some r)
  | None => (incr_tgt s5, None)
  end.

Definition reset_flag (m : minput) : bool := match mi_reset m with FVal true => true | _ => false end.

Lemma handle_logon_unfold s m :
  handle_logon s m =
  match (if c_begin (s_cfg s) =? 5 then match mi_applver m with None => Some (R_cond_missing 1137) | Some _ => None end else None) with
  | Some r => (s, Some r)
  | None =>
    match verify_msg_against_app_impl s m with
    | (s1, Some r) => (s1, Some r)
    | (s1, None) =>
      let s2 := if (if initiator s then false else c_reset_on_logon (s_cfg s)) || (reset_flag m && negb (s_sent_reset s1))
                then drop_and_reset s1 else s1 in
      match verify_select s2 m false true false with
      | (s3, Some r) => (s3, Some r)
      | (s3, None) => logon_accept (s_cfg s) s3 m (reset_flag m)
      end
    end
  end.
Proof. reflexivity. Qed.

(* verification without the application check returns the state it was given; with the low check passing the number reads *)
Lemma verify_select_noapp s m hi lo s1 r : verify_select s m hi lo false = (s1, r) -> s1 = s.
Proof. intros E. unfold verify_select in E. brk_in E; inv E; reflexivity. Qed.

Lemma verify_select_low_passes s m s1 : verify_select s m false true false = (s1, None) ->
  s1 = s /\ exists n, mi_seq m = FVal n /\ s_tgt s <= n.
Proof.
  intros E. split; [exact (verify_select_noapp _ _ _ _ _ _ E)|].
  unfold verify_select in E.
  destruct (check_begin_string s m); [discriminate|]. destruct (check_comp_id s m); [discriminate|].
  destruct (match s_st s with SResend _ _ _ => None | _ => check_sending_time s m end); [discriminate|].
  unfold check_target_too_low in E. destruct (mi_seq m) as [| |n]; try discriminate.
  exists n. split; [reflexivity|]. destruct (n <? s_tgt s) eqn:El; [discriminate|]. apply Z.ltb_ge in El. exact El.
Qed.

(* Either handle_logon fails before the reply (nothing but quiet operations ran), or it reached the acceptance tail from
   a state that differs from the entry state by quiet operations only. *)
Lemma handle_logon_cases s m s1 r : handle_logon s m = (s1, r) ->
  (Quiet s s1 /\ Same s s1 /\ r <> None)
  \/ (exists s3, Quiet s s3 /\ Same s s3 /\ (exists n, mi_seq m = FVal n /\ s_tgt s3 <= n)
                 /\ (reset_flag m = true -> s_sent_reset s3 = true \/ (s_snd s3 = 1 /\ s_tgt s3 = 1))
                 /\ s_wire s3 = s_wire s
                 /\ logon_accept (s_cfg s) s3 m (reset_flag m) = (s1, r)).
Proof.
  intros E. rewrite handle_logon_unfold in E.
  destruct (if c_begin (s_cfg s) =? 5 then match mi_applver m with None => Some (R_cond_missing 1137) | Some _ => None end else None).
  { inv E. left. split; [apply qt_refl|]. split; [apply same_refl | discriminate]. }
  destruct (verify_msg_against_app_impl s m) as [sa ra] eqn:Ev.
  assert (Qa : Quiet s sa) by (eapply qt_verify_app; [exact Ev | apply qt_refl]).
  assert (Sa : Same s sa) by (eapply fr_verify_app; [exact Ev | apply same_refl]).
  assert (Wa : s_wire sa = s_wire s).
  { unfold verify_msg_against_app_impl in Ev. destruct (rej_of_verdict (mi_valid m)); [inv Ev; reflexivity|].
    destruct (is_admin (mi_type m)); inv Ev; reflexivity. }
  destruct ra as [ra|].
  { inv E. left. split; [exact Qa|]. split; [exact Sa | discriminate]. }
  cbv zeta in E.
  match type of E with context [verify_select ?x m false true false] => set (s2 := x) in * end.
  assert (Q2 : Quiet s s2) by (unfold s2; qt_go).
  assert (S2 : Same s s2) by (unfold s2; fr_go).
  destruct (verify_select s2 m false true false) as [s3 r3] eqn:Evs.
  destruct r3 as [r3|].
  { pose proof (verify_select_noapp _ _ _ _ _ _ Evs) as ->. inv E. left. split; [exact Q2|]. split; [exact S2 | discriminate]. }
  destruct (verify_select_low_passes _ _ _ Evs) as (-> & n & Hn & Hle).
  right. exists s2. split; [exact Q2|]. split; [exact S2|]. split; [exists n; split; assumption|].
  split; [|split; [unfold s2; rewrite <- Wa; match goal with |- context [if ?x then _ else _] => destruct x end; reflexivity | exact E]].
  intros Hf. unfold s2. rewrite Hf. cbn [andb].
  destruct (s_sent_reset sa) eqn:Esr; cbn [negb].
  - destruct (if initiator s then false else c_reset_on_logon (s_cfg s)); cbn [orb]; [right; split; reflexivity | left; exact Esr].
  - rewrite orb_true_r. right; split; reflexivity.
Qed.

(* ---------- the acceptance tail ---------- *)
Lemma logon_accept_logs c s3 m flag s1 r : logon_accept c s3 m flag = (s1, r) ->
  In CbOnLogon (s_cbs s1) /\ Same s3 s1 /\ s_cfg s1 = s_cfg s3
  /\ (initiator s3 = false -> c_hb_override c = false -> forall h, mi_hbint m = FVal h -> s_hb s1 = h).
Proof.
  intros E. unfold logon_accept in E. cbv zeta in E.
  match type of E with context [log_cb (set_sent_reset ?x false) CbOnLogon] => set (s4 := x) in * end.
  set (s5 := log_cb (set_sent_reset s4 false) CbOnLogon) in *.
  assert (S4 : Same s3 s4) by (unfold s4; fr_go).
  assert (S5 : Same s3 s5) by (unfold s5; fr_go).
  assert (Hin : In CbOnLogon (s_cbs s5)) by (left; reflexivity).
  assert (Hhb : initiator s3 = false -> c_hb_override c = false -> forall h, mi_hbint m = FVal h -> s_hb s5 = h).
  { intros Hi Ho h Hh. change (s_hb s5) with (s_hb s4). unfold s4. rewrite Hi, Ho, Hh.
    match goal with |- s_hb ?x = _ => assert (Q : Quiet (set_hb s3 h) x) by qt_go end.
    destruct Q as (Q1 & _). rewrite Q1. reflexivity. }
  assert (Hc : s_cfg s5 = s_cfg s3) by (destruct S5 as (_ & _ & _ & H & _); exact H).
  destruct (check_target_too_high s5 m); inv E.
  - split; [exact Hin|]. split; [exact S5|]. split; [exact Hc | exact Hhb].
  - split; [exact Hin|]. split; [fr_go|]. split; [exact Hc | exact Hhb].
Qed.

(* the reply to a Logon that carries ResetSeqNumFlag=Y: the store is reset before the number is taken *)
Lemma logon_body_has_reset s : body_has_reset_y (logon_body s true) = true.
Proof. unfold logon_body, body_has_reset_y. reflexivity. Qed.
Lemma logon_body_field_141 s : field_of 141 (logon_body s true) = Some (B "Y").
Proof. unfold logon_body, field_of. reflexivity. Qed.

Lemma persist_facts s m :
  s_snd (persist s m) = s_snd s + 1 /\ s_tgt (persist s m) = s_tgt s /\ s_to_send (persist s m) = s_to_send s
  /\ s_wire (persist s m) = s_wire s /\ s_out_open (persist s m) = s_out_open s /\ s_st (persist s m) = s_st s.
Proof. unfold persist. destruct (c_disable_persist (s_cfg s)); repeat split; reflexivity. Qed.

Lemma drop_enqueue_send_facts p m : s_out_open p = true ->
  let x := send_queued (enqueue (drop_queued p) m) in
  s_wire x = m :: s_wire p /\ s_to_send x = [] /\ s_snd x = s_snd p /\ s_tgt x = s_tgt p.
Proof.
  intros Ho x. unfold x, send_queued.
  change (s_out_open (enqueue (drop_queued p) m)) with (s_out_open p). rewrite Ho.
  repeat split; reflexivity.
Qed.

Lemma reset_logon_sent : forall s body ir, body_has_reset_y body = true -> s_out_open s = true ->
  let s' := drop_and_send_in_reply_to s T_LOGON body ir in
  exists lg, s_wire s' = lg :: s_wire s /\ o_type lg = T_LOGON /\ o_seq lg = 1 /\ o_body lg = body
             /\ s_snd s' = 2 /\ s_tgt s' = 1 /\ s_to_send s' = [].
Proof.
  intros s body ir Hb Ho. unfold drop_and_send_in_reply_to, prep.
  change (is_admin T_LOGON) with true. change (beq_bytes T_LOGON T_LOGON) with true. rewrite Hb. cbn [andb].
  cbv iota beta zeta.
  set (s2 := set_sent_reset (store_reset (log_cb s (CbToAdmin T_LOGON))) true).
  change (s_snd s2) with 1.
  set (lg := {| o_type := T_LOGON; o_seq := 1; o_hdr := [] ++ default_hdr s ir; o_body := body |}).
  destruct (persist_facts s2 lg) as (P1 & P2 & P3 & P4 & P5 & _).
  assert (Hop : s_out_open (persist s2 lg) = true) by (rewrite P5; exact Ho).
  destruct (drop_enqueue_send_facts (persist s2 lg) lg Hop) as (D1 & D2 & D3 & D4).
  exists lg. rewrite D1, D2, D3, D4, P1, P2, P4.
  repeat split; reflexivity.
Qed.

Lemma same_initiator s s' : Same s s' -> initiator s' = initiator s.
Proof. intros (_ & _ & _ & H & _). unfold initiator. rewrite H. reflexivity. Qed.

Lemma onlogon_proj x :
  let y := log_cb (set_sent_reset x false) CbOnLogon in
  s_wire y = s_wire x /\ s_snd y = s_snd x /\ s_to_send y = s_to_send x /\ s_tgt y = s_tgt x.
Proof. repeat split. Qed.
Lemma incr_proj y :
  s_wire (incr_tgt y) = s_wire y /\ s_snd (incr_tgt y) = s_snd y /\ s_to_send (incr_tgt y) = s_to_send y
  /\ s_tgt (incr_tgt y) = s_tgt y + 1.
Proof. repeat split. Qed.

Definition accept_tail (s4 : sess) (m : minput) : sess * option rej :=
  let s5 := log_cb (set_sent_reset s4 false) CbOnLogon in
  match check_target_too_high s5 m with
  | Some r => (s5, Some r)
  | None => (incr_tgt s5, None)
  end.

Lemma logon_accept_acceptor c s3 m flag : initiator s3 = false ->
  logon_accept c s3 m flag =
  accept_tail (send_logon_in_reply_to (if c_hb_override c then s3 else match mi_hbint m with FVal h => set_hb s3 h | _ => s3 end) flag (Some m)) m.
Proof. intros H. unfold logon_accept. rewrite H. reflexivity. Qed.

Lemma accept_tail_facts s4 m n : mi_seq m = FVal n -> s_tgt s4 = 1 ->
  forall s1 r, accept_tail s4 m = (s1, r) ->
  s_wire s1 = s_wire s4 /\ s_snd s1 = s_snd s4 /\ s_to_send s1 = s_to_send s4
  /\ r = (if 1 <? n then Some (RTooHigh n 1) else None) /\ s_tgt s1 = (if 1 <? n then 1 else 2).
Proof.
  intros Hn Ht s1 r E. unfold accept_tail, check_target_too_high in E. cbv zeta in E. rewrite Hn in E.
  cbn [log_cb set_sent_reset upd_flags upd_logs s_tgt] in E. rewrite Ht in E.
  destruct (1 <? n); inv E; repeat split; try reflexivity; cbn [incr_tgt upd_store log_cb set_sent_reset upd_flags upd_logs s_tgt]; rewrite Ht; reflexivity.
Qed.


Lemma reset_logon_reply s ir : s_out_open s = true ->
  let s' := send_logon_in_reply_to s true ir in
  exists lg, s_wire s' = lg :: s_wire s /\ logon_resets lg = true /\ o_seq lg = 1
             /\ s_snd s' = 2 /\ s_tgt s' = 1 /\ s_to_send s' = [].
Proof.
  intros Ho. unfold send_logon_in_reply_to.
  destruct (reset_logon_sent s (logon_body s true) ir (logon_body_has_reset s) Ho) as (lg & W & Ty & Sq & Bd & Sn & Tg & Qu).
  exists lg. repeat split; try assumption.
  unfold logon_resets, is_type. rewrite Ty, Bd, logon_body_field_141. reflexivity.
Qed.

Lemma logon_accept_reset c s3 m n s1 r :
  initiator s3 = false -> s_out_open s3 = true -> mi_seq m = FVal n ->
  logon_accept c s3 m true = (s1, r) ->
  exists lg, s_wire s1 = lg :: s_wire s3 /\ logon_resets lg = true /\ o_seq lg = 1 /\ s_snd s1 = 2 /\ s_to_send s1 = []
             /\ r = (if 1 <? n then Some (RTooHigh n 1) else None) /\ s_tgt s1 = (if 1 <? n then 1 else 2).
Proof.
  intros Hi Ho Hn E. rewrite (logon_accept_acceptor c s3 m true Hi) in E.
  assert (H' : forall x, x = (if c_hb_override c then s3 else match mi_hbint m with FVal h => set_hb s3 h | _ => s3 end) ->
               s_out_open x = true /\ s_wire x = s_wire s3).
  { intros x ->. destruct (c_hb_override c); [split; [exact Ho | reflexivity]|]. destruct (mi_hbint m); split; try exact Ho; reflexivity. }
  specialize (H' _ eq_refl).
  revert E H'. generalize (if c_hb_override c then s3 else match mi_hbint m with FVal h => set_hb s3 h | _ => s3 end).
  intros s3' E [Ho' Hw'].
  pose proof (reset_logon_reply s3' (Some m) Ho') as F. cbv zeta in F.
  revert E F. generalize (send_logon_in_reply_to s3' true (Some m)).
  intros s4 E (lg & W & Hlr & Sq & Sn & Tg & Qu).
  destruct (accept_tail_facts s4 m n Hn Tg s1 r E) as (A1 & A2 & A3 & A4 & A5).
  exists lg. rewrite A1, A2, A3, W, Hw', Sn, Qu. repeat split; assumption.
Qed.
(* an administrative message other than a Logon sent while not logged on is numbered and queued, not written *)
Lemma send_not_logged_on s t body : is_logged_on (s_st s) = false -> is_admin t = true -> beq_bytes t T_LOGON = false ->
  let s' := send s t body in
  s_wire s' = s_wire s /\ s_snd s' = s_snd s + 1 /\ s_tgt s' = s_tgt s
  /\ exists q, s_to_send s' = s_to_send s ++ [q] /\ o_type q = t /\ o_seq q = s_snd s.
Proof.
  intros Hl Ha Hn. unfold send, send_in_reply_to. rewrite Hl. cbn [negb]. unfold queue_for_send, prep.
  rewrite Ha, Hn. cbn [andb]. cbv iota beta zeta.
  set (s1 := log_cb s (CbToAdmin t)). change (s_snd s1) with (s_snd s).
  match goal with |- context [persist s1 ?mm] => set (q := mm); destruct (persist_facts s1 q) as (P1 & P2 & P3 & P4 & _) end.
  unfold enqueue. cbn [upd_to_send s_wire s_snd s_tgt s_to_send]. rewrite P1, P2, P3, P4.
  repeat split. exists q. repeat split.
Qed.

Lemma resend_request_not_logged_on s b e s1 st : send_resend_request s b e = (s1, st) -> is_logged_on (s_st s) = false ->
  s_wire s1 = s_wire s /\ s_snd s1 = s_snd s + 1 /\ s_tgt s1 = s_tgt s /\ is_connected st = true
  /\ exists q, s_to_send s1 = s_to_send s ++ [q] /\ o_type q = T_RESENDREQ /\ o_seq q = s_snd s.
Proof.
  intros E Hl. unfold send_resend_request in E. cbv zeta in E.
  match type of E with (let '(e1, cur1) := ?X in _) = _ => destruct X as [e9 cur9] end.
  inv E.
  match goal with |- context [send s T_RESENDREQ ?bd] => destruct (send_not_logged_on s T_RESENDREQ bd Hl eq_refl eq_refl) as (F1 & F2 & F3 & F4) end.
  repeat split; try assumption.
Qed.

(* ---------- logonState.FixMsgIn around handle_logon ---------- *)
Lemma logon_state_after_handle s m s1 next : logon_state_fix_msg_in s m = (s1, next) ->
  (s1 = s /\ beq_bytes (mi_type m) T_LOGON = false)
  \/ (beq_bytes (mi_type m) T_LOGON = true /\ exists s2 r, handle_logon s m = (s2, r) /\ Quiet s2 s1).
Proof.
  intros E. unfold logon_state_fix_msg_in in E.
  destruct (beq_bytes (mi_type m) T_LOGON); cbn [negb] in E; [right | left; inv E; split; reflexivity].
  split; [reflexivity|].
  destruct (handle_logon s m) as [s2 r] eqn:Eh. exists s2, r. split; [reflexivity|].
  destruct r as [r|]; [|inv E; apply qt_refl].
  destruct r; try (inv E; apply qt_refl).
  - eapply qt_do_target_too_high; [exact E | apply qt_refl].
  - eapply qt_shutdown_with_reason; [exact E | apply qt_refl].
  - eapply qt_shutdown_with_reason; [exact E | apply qt_refl].
Qed.

(* OnLogon in the log after logonState.FixMsgIn: handle_logon reached its acceptance tail *)
Lemma logon_state_accepted s m s1 next : logon_state_fix_msg_in s m = (s1, next) ->
  ~ In CbOnLogon (s_cbs s) -> In CbOnLogon (s_cbs s1) ->
  beq_bytes (mi_type m) T_LOGON = true /\
  exists s3 s2 r, Quiet s s3 /\ Same s s3 /\ (exists n, mi_seq m = FVal n /\ s_tgt s3 <= n) /\ s_wire s3 = s_wire s
                  /\ logon_accept (s_cfg s) s3 m (reset_flag m) = (s2, r) /\ handle_logon s m = (s2, r) /\ Quiet s2 s1.
Proof.
  intros E Hno Hin.
  destruct (logon_state_after_handle _ _ _ _ E) as [[-> _] | (Hty & s2 & r & Eh & Q21)]; [contradiction|].
  split; [exact Hty|].
  destruct (handle_logon_cases _ _ _ _ Eh) as [(Q & _ & _) | (s3 & Q3 & S3 & Hn & _ & W3 & Ea)].
  - exfalso. apply Hno. destruct Q as (_ & _ & Q). apply Q. destruct Q21 as (_ & _ & Q21). apply Q21. exact Hin.
  - exists s3, s2, r. split; [exact Q3|]. split; [exact S3|]. split; [exact Hn|]. split; [exact W3|]. split; [exact Ea|]. split; [exact Eh | exact Q21].
Qed.

Lemma logon_state_adopts_hb s m s1 next h :
  initiator s = false -> c_hb_override (s_cfg s) = false -> ~ In CbOnLogon (s_cbs s) -> mi_hbint m = FVal h ->
  logon_state_fix_msg_in s m = (s1, next) -> In CbOnLogon (s_cbs s1) -> s_hb s1 = h.
Proof.
  intros Hi Ho Hno Hh E Hin.
  destruct (logon_state_accepted _ _ _ _ E Hno Hin) as (_ & s3 & s2 & r & _ & S3 & _ & _ & Ea & _ & Q21).
  destruct (logon_accept_logs _ _ _ _ _ _ Ea) as (_ & _ & _ & Hhb).
  destruct Q21 as (Q1 & _). rewrite Q1. apply Hhb; [rewrite (same_initiator _ _ S3); exact Hi | exact Ho | exact Hh].
Qed.

(* ---------- leaving the connected states with nothing buffered ---------- *)
(* (with nothing buffered the drain that now precedes the disconnect does nothing: FrameProofs.hd_no_buffer) *)
Lemma hd_quiet s : s_in_buf s = [] -> Quiet s (handle_disconnect_state drain s).
Proof. intros Hb. rewrite (hd_no_buffer s Hb). unfold disconnect_now. cbv zeta. qt_go. Qed.

Lemma set_state_quiet s next : s_in_buf s = [] -> Quiet s (set_state s next).
Proof.
  intros Hb. unfold set_state, set_state_with.
  destruct (negb (is_connected next)); [|qt_go].
  apply qt_upd_st.
  destruct (is_connected (s_st s)).
  - pose proof (hd_quiet s Hb) as Q. destruct (s_pending_stop (handle_disconnect_state drain s)); [|exact Q].
    eapply qt_trans; [exact Q|]. repeat split. intros C; exact C.
  - destruct (s_pending_stop s); [|apply qt_refl]. repeat split. intros C; exact C.
Qed.

(* ---------- the step: a Logon processed directly in the logon state ---------- *)
Lemma step_logon_state s m : s_st s = SLogon ->
  step s (EIncoming m) = (let '(s1, next) := logon_state_fix_msg_in (clear_logs s) m in set_state s1 next).
Proof.
  intros Hst. unfold step, step_event, incoming, incoming_with.
  change (s_st (clear_logs s)) with (s_st s). rewrite Hst. reflexivity.
Qed.

(* C20 clause 2006 as a step: an acceptor without HeartBtInt override that accepts a Logon (OnLogon logged) in the logon
   state with nothing buffered takes the HeartBtInt announced in that Logon *)
Lemma step_logon_adopts_hb s m h :
  s_st s = SLogon -> s_in_buf s = [] -> initiator s = false -> c_hb_override (s_cfg s) = false -> mi_hbint m = FVal h ->
  In CbOnLogon (s_cbs (step s (EIncoming m))) -> s_hb (step s (EIncoming m)) = h.
Proof.
  intros Hst Hbuf Hi Ho Hh. rewrite (step_logon_state s m Hst).
  set (c := clear_logs s).
  destruct (logon_state_fix_msg_in c m) as [s1 next] eqn:E. intros Hin.
  assert (S1 : Same c s1) by (eapply fr_logon_state; [exact E | apply same_refl]).
  assert (Hb1 : s_in_buf s1 = []) by (destruct S1 as (_ & _ & S1 & _); rewrite S1; exact Hbuf).
  destruct (set_state_quiet s1 next Hb1) as (Q1 & _ & Q3).
  rewrite Q1. apply (logon_state_adopts_hb c m s1 next h); try assumption.
  - intros C; exact C.
  - apply Q3; exact Hin.
Qed.

Lemma set_state_conn s next : is_connected next = true -> set_state s next = upd_st s next.
Proof. intros H. unfold set_state, set_state_with. rewrite H. reflexivity. Qed.

(* C07 clause 707 as a step, with the exact counters: the reply to an accepted Logon carrying ResetSeqNumFlag=Y is the only
   message written, it carries the flag and number 1; the next sender number is 2 -- unless the Logon's own number is above 1:
   then a ResendRequest [1, n-1] is numbered 2 and queued behind it (doTargetTooHigh in the logon state), the next sender number
   is 3 and the expected number stays 1 *)
Lemma step_logon_reset_echo s m :
  s_st s = SLogon -> s_out_open s = true -> s_in_buf s = [] -> initiator s = false -> reset_flag m = true ->
  let s' := step s (EIncoming m) in
  In CbOnLogon (s_cbs s') ->
  exists lg n, rev (s_wire s') = [lg] /\ logon_resets lg = true /\ o_seq lg = 1 /\ mi_seq m = FVal n
    /\ (if 1 <? n
        then s_snd s' = 3 /\ s_tgt s' = 1 /\ (exists q, s_to_send s' = [q] /\ o_type q = T_RESENDREQ /\ o_seq q = 2)
             /\ (exists a b d, s_st s' = SResend a b d)
        else s_snd s' = 2 /\ s_tgt s' = 2 /\ s_to_send s' = [] /\ s_st s' = SInSession).
Proof.
  intros Hst Hout Hbuf Hi Hf s'. unfold s'. clear s'. rewrite (step_logon_state s m Hst).
  set (c := clear_logs s).
  destruct (logon_state_fix_msg_in c m) as [s1 next] eqn:E. intros Hin.
  assert (S1 : Same c s1) by (eapply fr_logon_state; [exact E | apply same_refl]).
  assert (Hb1 : s_in_buf s1 = []) by (destruct S1 as (_ & _ & S1 & _); rewrite S1; exact Hbuf).
  destruct (set_state_quiet s1 next Hb1) as (_ & _ & Q3). specialize (Q3 Hin).
  assert (Hno : ~ In CbOnLogon (s_cbs c)) by (intros C; exact C).
  destruct (logon_state_accepted c m s1 next E Hno Q3) as (Hty & s3 & s2 & r & _ & S3 & (n & Hn & _) & W3 & Ea & Eh & _).
  rewrite Hf in Ea.
  assert (Hi3 : initiator s3 = false) by (rewrite (same_initiator _ _ S3); exact Hi).
  assert (Ho3 : s_out_open s3 = true) by (destruct S3 as (S3 & _); rewrite S3; exact Hout).
  destruct (logon_accept_reset _ _ _ _ _ _ Hi3 Ho3 Hn Ea) as (lg & W & Hlr & Sq & Sn & Qu & Hr & Tg).
  destruct (logon_accept_logs _ _ _ _ _ _ Ea) as (_ & S32 & _).
  assert (Hst2 : s_st s2 = SLogon).
  { destruct S32 as (_ & _ & _ & _ & _ & _ & _ & A). destruct S3 as (_ & _ & _ & _ & _ & _ & _ & A'). rewrite A, A'. exact Hst. }
  rewrite W3 in W. change (s_wire c) with (@nil omsg) in W.
  unfold logon_state_fix_msg_in in E. rewrite Hty, Eh in E. cbn [negb] in E.
  exists lg, n.
  destruct (1 <? n); subst r.
  - unfold do_target_too_high in E.
    assert (Hl2 : is_logged_on (s_st s2) = false) by (rewrite Hst2; reflexivity).
    destruct (resend_request_not_logged_on _ _ _ _ _ E Hl2) as (R1 & R2 & R3 & R4 & q & R5 & R6 & R7).
    rewrite (set_state_conn s1 next R4).
    change (s_wire (upd_st s1 next)) with (s_wire s1). change (s_snd (upd_st s1 next)) with (s_snd s1).
    change (s_tgt (upd_st s1 next)) with (s_tgt s1). change (s_to_send (upd_st s1 next)) with (s_to_send s1).
    change (s_st (upd_st s1 next)) with next.
    rewrite R1, R2, R3, R5, W, Sn, Tg, Qu. cbn [rev app].
    split; [reflexivity|]. split; [exact Hlr|]. split; [exact Sq|]. split; [exact Hn|].
    split; [reflexivity|]. split; [reflexivity|]. split.
    + exists q. split; [reflexivity|]. split; [exact R6|]. rewrite R7. exact Sn.
    + unfold send_resend_request in E. cbv zeta in E.
      match type of E with (let '(e1, cur1) := ?X in _) = _ => destruct X as [e9 cur9] end.
      inv E. eexists _, _, _. reflexivity.
  - inv E. rewrite (set_state_conn s1 SInSession eq_refl).
    change (s_wire (upd_st s1 SInSession)) with (s_wire s1). change (s_snd (upd_st s1 SInSession)) with (s_snd s1).
    change (s_tgt (upd_st s1 SInSession)) with (s_tgt s1). change (s_to_send (upd_st s1 SInSession)) with (s_to_send s1).
    change (s_st (upd_st s1 SInSession)) with SInSession.
    rewrite W, Sn, Tg, Qu. cbn [rev app]. repeat split; try assumption; reflexivity.
Qed.

(* ---------- reading the guards of the two clauses ---------- *)
Lemma shape_logon st : match shape_of st with ShLogon => true | _ => false end = true -> st = SLogon.
Proof. destruct st; cbn; intros H; try discriminate; reflexivity. Qed.

Lemma onlogon_observed s : existsb (fun x => match x with CbOnLogon => true | _ => false end) (ob_cbs (obs_of s)) = true ->
  In CbOnLogon (s_cbs s).
Proof.
  intros H. apply existsb_exists in H as (x & Hx & Hm). destruct x; try discriminate.
  apply in_rev. exact Hx.
Qed.

(* C20 clause 2006, one event *)
Lemma c20_event_adopt : forall i s e,
  free_of [2006] (c20_event (s_cfg s) i (obs_of s) e (obs_of (step s e))) = true.
Proof.
  intros i s e. unfold c20_event. cbn [c20_scan]. rewrite app_nil_r.
  destruct e as [| | |m| | |t| | | |]; try reflexivity; try (free_rest; fail).
  rewrite !free_of_app. apply andb_true_iff; split; [free_rest|]. apply andb_true_iff; split; [free_rest|].
  match goal with |- free_of _ (if ?x then _ else _) = true => destruct x eqn:Ec; [|reflexivity] end.
  destruct (mi_hbint m) as [| |h] eqn:Eh; try reflexivity.
  apply andb_true_iff in Ec as [Ec E6]. apply andb_true_iff in Ec as [Ec E5]. apply andb_true_iff in Ec as [Ec E4].
  apply andb_true_iff in Ec as [Ec E3]. apply andb_true_iff in Ec as [E1 E2].
  change (is_initiator (s_cfg s)) with (initiator s) in E2. apply negb_true_iff in E2. apply negb_true_iff in E3.
  change (ob_st (obs_of s)) with (shape_of (s_st s)) in E4. apply shape_logon in E4.
  change (ob_inbuf (obs_of s)) with (Z.of_nat (length (s_in_buf s))) in E5. apply len0 in E5.
  apply onlogon_observed in E6.
  change (ob_hb (obs_of (step s (EIncoming m)))) with (s_hb (step s (EIncoming m))).
  rewrite (step_logon_adopts_hb s m h E4 E5 E2 E3 Eh E6), Z.eqb_refl. reflexivity.
Qed.

Lemma c20_scan_adopt : forall es s i,
  free_of [2006] (c20_scan (s_cfg s) i (obs_of s) (combine es (map obs_of (run_trace es s)))) = true.
Proof.
  induction es as [|e r IH]; intros s i; cbn [run_trace map combine]; [reflexivity|].
  rewrite c20_scan_cons, free_of_app. apply andb_true_iff; split.
  - apply c20_event_adopt.
  - rewrite <- (step_cfg (s_cfg s) s e eq_refl). apply IH.
Qed.

(* C20, trace level: on every trace of the model an acceptor without HeartBtInt override that accepts a Logon in the logon
   state (nothing buffered) uses the interval announced in that Logon from then on *)
Lemma c20_adopt_never_fails : forall c es,
  free_of [2006] (c20_check c (combine es (map obs_of (run_trace es (init_sess c))))) = true.
Proof. intros c es. unfold c20_check. apply (c20_scan_adopt es (init_sess c)). Qed.

(* ---------- C07 clause 707 ---------- *)
(* the guard of clause 707 *)
Definition echo_guard (c : cfg) (prev o : obs) (m : minput) : bool :=
  beq_bytes (mi_type m) T_LOGON && match mi_reset m with FVal true => true | _ => false end
  && (ob_inbuf prev =? 0) && match ob_st prev with ShLogon => true | _ => false end
  && negb (is_initiator c) && existsb (fun x => match x with CbOnLogon => true | _ => false end) (ob_cbs o).

Lemma echo_guard_step s m : Boundary s ->
  echo_guard (s_cfg s) (obs_of s) (obs_of (step s (EIncoming m))) m = true ->
  exists lg n, ob_wire (obs_of (step s (EIncoming m))) = [lg] /\ logon_resets lg = true /\ o_seq lg = 1 /\ mi_seq m = FVal n
               /\ ob_snd (obs_of (step s (EIncoming m))) = (if 1 <? n then 3 else 2)
               /\ beq_bytes (mi_type m) T_LOGON = true /\ reset_flag m = true.
Proof.
  intros Hb Ec. unfold echo_guard in Ec.
  apply andb_true_iff in Ec as [Ec E6]. apply andb_true_iff in Ec as [Ec E5]. apply andb_true_iff in Ec as [Ec E4].
  apply andb_true_iff in Ec as [Ec E3]. apply andb_true_iff in Ec as [E1 E2].
  change (is_initiator (s_cfg s)) with (initiator s) in E5. apply negb_true_iff in E5.
  change (ob_st (obs_of s)) with (shape_of (s_st s)) in E4. apply shape_logon in E4.
  change (ob_inbuf (obs_of s)) with (Z.of_nat (length (s_in_buf s))) in E3. apply len0 in E3.
  apply onlogon_observed in E6.
  assert (Ho : s_out_open s = true).
  { destruct Hb as [B1 _]. rewrite E4 in B1. exact (proj1 (B1 eq_refl)). }
  destruct (step_logon_reset_echo s m E4 Ho E3 E5 E2 E6) as (lg & n & W & Hlr & Sq & Hn & Hcnt).
  exists lg, n. change (ob_wire (obs_of (step s (EIncoming m)))) with (rev (s_wire (step s (EIncoming m)))).
  change (ob_snd (obs_of (step s (EIncoming m)))) with (s_snd (step s (EIncoming m))).
  split; [exact W|]. split; [exact Hlr|]. split; [exact Sq|]. split; [exact Hn|]. split; [|split; [exact E1 | exact E2]].
  destruct (1 <? n); destruct Hcnt as (A & _); exact A.
Qed.

Lemma logon_resets_type lg : logon_resets lg = true -> is_type T_LOGON lg = true.
Proof. unfold logon_resets. intros H. apply andb_true_iff in H as [H _]. exact H. Qed.

(* clause 707, one event, from any reachable state *)
Lemma c07_event_echo : forall i b s e, Boundary s ->
  free_of [707] (c07_event (s_cfg s) i b (obs_of s) e (obs_of (step s e))) = true.
Proof.
  intros i b s e Hb. unfold c07_event. cbn [c07_scan]. rewrite !app_nil_r.
  destruct e as [| | |m| | |t| | | |]; try (free_rest; fail).
  rewrite !free_of_app. repeat (apply andb_true_iff; split); try (free_rest; fail).
  match goal with |- free_of _ (if ?x then _ else _) = true => destruct x eqn:Ec; [|reflexivity] end.
  destruct (echo_guard_step s m Hb Ec) as (lg & n & W & Hlr & Sq & Hn & Sn & _ & _).
  rewrite W. cbn [filter]. rewrite (logon_resets_type lg Hlr), Hlr, Sq, Sn, Hn, !Z.eqb_refl. reflexivity.
Qed.

Lemma c07_scan_echo : forall es s i b, Boundary s ->
  free_of [707] (c07_scan (s_cfg s) i b (obs_of s) (combine es (map obs_of (run_trace es s)))) = true.
Proof.
  induction es as [|e r IH]; intros s i b Hb; cbn [run_trace map combine]; [reflexivity|].
  rewrite c07_scan_cons, free_of_app. apply andb_true_iff; split.
  - apply c07_event_echo; exact Hb.
  - rewrite <- (step_cfg (s_cfg s) s e eq_refl). apply IH. apply step_boundary; exact Hb.
Qed.

(* C07, trace level: on every trace of the model clause 707 never fails: whenever an acceptor in the logon state (nothing
   buffered) accepts a Logon carrying ResetSeqNumFlag=Y, the first Logon it writes carries the flag and number 1, and the
   next sender number is 2 -- or 3 when the received Logon is itself numbered above 1 (the ResendRequest queued by
   doTargetTooHigh took number 2) *)
Lemma c07_reset_echo_never_fails : forall c es,
  free_of [707] (c07_check c (combine es (map obs_of (run_trace es (init_sess c))))) = true.
Proof. intros c es. unfold c07_check. apply (c07_scan_echo es (init_sess c)). apply init_boundary. Qed.

(* ---------- witnesses: non-vacuity ---------- *)
Definition lgp_cfg : cfg :=
  {| c_role := Acceptor; c_begin := 2; c_sender := B "S"; c_target := B "T"; c_reset_on_logon := false;
     c_reset_on_logout := false; c_reset_on_disconnect := false; c_refresh_on_logon := false; c_chunk := 0; c_hb := 30;
     c_hb_override := false; c_skip_latency := true; c_max_latency := 120; c_disable_persist := false;
     c_last_seq_processed := false; c_in_cap := 1%nat; c_appl_ver := [] |}.
(* the peer's Logon: MsgSeqNum n, HeartBtInt h, ResetSeqNumFlag=Y *)
Definition lgp_logon (n h : Z) : minput :=
  {| mi_type := T_LOGON; mi_begin := B "FIX.4.2"; mi_sender := Some (B "T"); mi_target := Some (B "S");
     mi_seq := FVal n; mi_possdup := FAbsent; mi_stime := FVal 0; mi_otime := FAbsent; mi_gapfill := FAbsent;
     mi_newseq := FAbsent; mi_beginseq := FAbsent; mi_endseq := FAbsent; mi_reset := FVal true; mi_hbint := FVal h;
     mi_testreq := None; mi_applver := None; mi_route := []; mi_body := []; mi_app := VAccept; mi_valid := VAccept;
     mi_refuse := [] |}.
Definition lgp_Y : bytes := B "Y".
Definition lgp_trace (es : list event) : list (event * obs) := combine es (map obs_of (run_trace es (init_sess lgp_cfg))).

(* an acceptor configured with 30 s accepts a Logon announcing 7 s: the guards of clauses 2006 and 707 hold in the second
   event (Logon in the logon state, OnLogon called), the interval becomes 7, the reply is Logon number 1 with 141=Y and the
   next sender number is 2 *)
(* an acceptor configured with 30 s accepts a Logon (number 1, 141=Y) announcing 7 s: the guards of clauses 2006 and 707
   hold in the second event (Logon in the logon state, OnLogon called), the interval becomes 7, the reply is Logon number 1
   with 141=Y and the next sender number is 2; neither predicate reports anything *)
Lemma lgp_accept_example :
  let es := [EConnect; EIncoming (lgp_logon 1 7)] in
  map (fun o => (ob_st o, ob_hb o, ob_snd o, ob_tgt o, existsb (fun x => match x with CbOnLogon => true | _ => false end) (ob_cbs o),
                 map (fun w => (o_type w, o_seq w, field_of 141 (o_body w))) (ob_wire o)))
      (map obs_of (run_trace es (init_sess lgp_cfg)))
  = [(ShLogon, 30, 1, 1, false, []); (ShInSession, 7, 2, 2, true, [(T_LOGON, 1, Some lgp_Y)])]
  /\ c07_check lgp_cfg (lgp_trace es) = [] /\ c20_check lgp_cfg (lgp_trace es) = [].
Proof. vm_compute. repeat split; reflexivity. Qed.

(* the peer's reset Logon is numbered 5: the guard of clause 707 holds again, the reply is still Logon number 1 with 141=Y,
   doTargetTooHigh numbers a ResendRequest 2 and queues it, so the next sender number is 3, the expected number stays 1 and
   the session is recovering; the predicate reports nothing *)
Lemma lgp_ahead_example :
  let es := [EConnect; EIncoming (lgp_logon 5 7)] in
  map (fun o => (sh_is_resend (ob_st o), ob_hb o, ob_snd o, ob_tgt o, ob_tosend o,
                 existsb (fun x => match x with CbOnLogon => true | _ => false end) (ob_cbs o),
                 map (fun w => (o_type w, o_seq w, field_of 141 (o_body w))) (ob_wire o)))
      (map obs_of (run_trace es (init_sess lgp_cfg)))
  = [(false, 30, 1, 1, 0, false, []); (true, 7, 3, 1, 1, true, [(T_LOGON, 1, Some lgp_Y)])]
  /\ c07_check lgp_cfg (lgp_trace es) = [].
Proof. vm_compute. repeat split; reflexivity. Qed.

(* The hypothesis `s_in_buf s = []` of the two step lemmas (it is part of the guards of clauses 2006 and 707) cannot be
   dropped, before or after the repair of F17: a Logon that FAILS (here: wrong SenderCompID, announcing 7 s) ends the
   connection, the frames still buffered are handled first, in the logon state, and a buffered valid Logon (announcing 9 s)
   is accepted there: OnLogon is called in this event and the interval is 9, not 7. *)
Definition lgp_buffered_state : sess :=
  {| s_cfg := lgp_cfg; s_st := SLogon; s_snd := 1; s_tgt := 1; s_msgs := []; s_to_send := []; s_out_open := true;
     s_in_open := true; s_in_buf := [Some (lgp_logon 1 9)]; s_sent_reset := false; s_hb := 30; s_pending_stop := false;
     s_stopped := false; s_cbs := []; s_wire := []; s_closed := false |}.
Definition lgp_bad_logon : minput :=
  {| mi_type := T_LOGON; mi_begin := B "FIX.4.2"; mi_sender := Some (B "X"); mi_target := Some (B "S");
     mi_seq := FVal 1; mi_possdup := FAbsent; mi_stime := FVal 0; mi_otime := FAbsent; mi_gapfill := FAbsent;
     mi_newseq := FAbsent; mi_beginseq := FAbsent; mi_endseq := FAbsent; mi_reset := FVal true; mi_hbint := FVal 7;
     mi_testreq := None; mi_applver := None; mi_route := []; mi_body := []; mi_app := VAccept; mi_valid := VAccept;
     mi_refuse := [] |}.
Lemma step_logon_adopts_hb_needs_empty_buffer :
  let s := lgp_buffered_state in let m := lgp_bad_logon in
  Boundary s /\ s_st s = SLogon /\ initiator s = false /\ c_hb_override (s_cfg s) = false /\ mi_hbint m = FVal 7
  /\ In CbOnLogon (s_cbs (step s (EIncoming m))) /\ s_hb (step s (EIncoming m)) = 9.
Proof.
  cbv zeta. split; [split; cbn; intros H; [split; reflexivity | discriminate]|].
  vm_compute. repeat split; auto 10.
Qed.
