(* Which callbacks one event can log.  A closure in the style of FrameProofs.v / MonoProofs.v, generic in a class P of
   callbacks: `Ncb P s0 s` says that every callback logged in s was already logged in s0 or belongs to P.
   P always contains ToAdmin, ToApp, OnLogon, OnLogout; FromAdmin / FromApp for a message m are logged only when m is
   processed (side condition msg_ok m); a store reset (CbStoreReset) is logged only by
     - prepMessageForSend for a Logon carrying 141=Y (side condition rs_ok t body at the callers that take the type from outside),
     - handleLogon for a Logon carrying 141=Y that the validator and the application accept (verifyMsgAgainstAppImpl runs
       before the reset decision: side condition `accepted`), or under ResetOnLogon (acceptor),
     - handleLogout under ResetOnLogout, handleDisconnectState under ResetOnDisconnect, connect under ResetOnLogon.
   Instances: P = "not FromAdmin for a Logout" (C07 clause 710), P = "not a store reset" (C07 clause 705). *)
From Coq Require Import String.
From Coq Require Import ZArith List Bool Lia.
From QF Require Import Base.Bytes Session.Types Session.Model Session.Spec Session.C01Proofs Session.LocalProofs
  Session.FrameProofs Session.TraceProofs Session.RecoveryProofs Session.ReactionProofs Session.TgProofs Session.MonoProofs
  Session.ResendInvProofs Session.NoReqProofs Session.ChunkProofs Session.TjProofs Session.KeptProofs Session.ConnectProofs
  Session.LogonProofs.
Import ListNotations.
Open Scope list_scope.
Open Scope Z_scope.

Lemma logon_body_plain s : body_has_reset_y (logon_body s false) = false.
Proof. unfold logon_body, body_has_reset_y. destruct (Nat.ltb 0 (length (c_appl_ver (s_cfg s)))); reflexivity. Qed.

(* the validator and the application (FromAdmin / FromApp) accept the message *)
Definition accepted (m : minput) : bool :=
  match mi_valid m with VAccept => true | _ => false end && match mi_app m with VAccept => true | _ => false end.

Lemma verify_app_passes_accepted s m s1 : verify_msg_against_app_impl s m = (s1, None) -> accepted m = true.
Proof.
  unfold verify_msg_against_app_impl, accepted. intros E.
  destruct (mi_valid m); cbn [rej_of_verdict] in E; try discriminate E.
  destruct (mi_app m); cbn [rej_of_verdict] in E; try discriminate E. reflexivity.
Qed.

Section NewCb.
Variable P : cb -> bool.
Hypothesis P_toadmin : forall t, P (CbToAdmin t) = true.
Hypothesis P_toapp : forall n b, P (CbToApp n b) = true.
Hypothesis P_onlogon : P CbOnLogon = true.
Hypothesis P_onlogout : P CbOnLogout = true.

Definition Ncb (s0 s : sess) : Prop := forall x, In x (s_cbs s) -> In x (s_cbs s0) \/ P x = true.

Lemma ncb_refl s : Ncb s s.
Proof. intros x H. left; exact H. Qed.
Lemma ncb_trans a b c : Ncb a b -> Ncb b c -> Ncb a c.
Proof. intros Ha Hb x H. destruct (Hb x H) as [H1|H1]; [apply Ha; exact H1 | right; exact H1]. Qed.

(* side conditions *)
Definition rs_free : Prop := P CbStoreReset = true.
Definition rs_ok (t : bytes) (body : list (Z * bytes)) : Prop :=
  rs_free \/ (beq_bytes t T_LOGON && body_has_reset_y body) = false.
Definition lg_ok (flag : bool) : Prop := rs_free \/ flag = false.
Definition cfg_ok (c : cfg) : Prop := rs_free \/ no_reset_option c = true.
Definition msg_ok (m : minput) : Prop :=
  P (CbFromAdmin (mi_type m) (mi_seq m) (facts_of m)) = true
  /\ forall tg, P (CbFromApp (mi_seq m) tg (mi_app m) (facts_of m)) = true.
Definition m_ok (m : minput) : Prop :=
  msg_ok m /\ (rs_free \/ beq_bytes (mi_type m) T_LOGON = false \/ (reset_flag m && accepted m) = false).

Ltac ncb_side :=
  first [ assumption | reflexivity | apply P_toadmin | apply P_toapp | exact P_onlogon | exact P_onlogout ].
Ltac ncb_rs :=
  first [ assumption | (right; reflexivity) | (left; assumption) ].

Section Base.
Variable s0 : sess.
Ltac stepncb := intros H y Hy; apply H; exact Hy.
Lemma ncb_upd_to_send s q : Ncb s0 s -> Ncb s0 (upd_to_send s q). Proof. stepncb. Qed.
Lemma ncb_upd_store s a b c : Ncb s0 s -> Ncb s0 (upd_store s a b c). Proof. stepncb. Qed.
Lemma ncb_upd_wire s w : Ncb s0 s -> Ncb s0 (upd_logs s (s_cbs s) w). Proof. stepncb. Qed.
Lemma ncb_upd_chan s a b c d : Ncb s0 s -> Ncb s0 (upd_chan s a b c d). Proof. stepncb. Qed.
Lemma ncb_upd_flags s a b c d : Ncb s0 s -> Ncb s0 (upd_flags s a b c d). Proof. stepncb. Qed.
Lemma ncb_upd_st s x : Ncb s0 s -> Ncb s0 (upd_st s x). Proof. stepncb. Qed.
Lemma ncb_set_sent_reset s b : Ncb s0 s -> Ncb s0 (set_sent_reset s b). Proof. stepncb. Qed.
Lemma ncb_set_hb s h : Ncb s0 s -> Ncb s0 (set_hb s h). Proof. stepncb. Qed.
Lemma ncb_log s c : P c = true -> Ncb s0 s -> Ncb s0 (log_cb s c).
Proof. intros Hc H y [Hy|Hy]; [right; subst y; exact Hc | apply H; exact Hy]. Qed.
Lemma ncb_reset s : rs_free -> Ncb s0 s -> Ncb s0 (store_reset s).
Proof. intros Hp H. unfold store_reset. apply ncb_log; [exact Hp | apply ncb_upd_store, H]. Qed.
Lemma ncb_incr s : Ncb s0 s -> Ncb s0 (incr_tgt s). Proof. unfold incr_tgt. apply ncb_upd_store. Qed.
Lemma ncb_set_tgt s n : Ncb s0 s -> Ncb s0 (set_tgt s n). Proof. unfold set_tgt. apply ncb_upd_store. Qed.
Lemma ncb_persist s m : Ncb s0 s -> Ncb s0 (persist s m).
Proof. intros H. unfold persist. destruct (c_disable_persist _); apply ncb_upd_store, H. Qed.
End Base.

Ltac ncb_ext := fail.
Ltac ncb_go :=
  lazymatch goal with
  | H : Ncb ?a ?b |- Ncb ?a ?b => exact H
  | |- Ncb ?a ?a => apply ncb_refl
  | |- Ncb _ (if ?x then _ else _) => destruct x eqn:?; ncb_go
  | |- Ncb _ (match ?x with _ => _ end) => destruct x eqn:?; ncb_go
  | |- Ncb _ (upd_to_send _ _) => apply ncb_upd_to_send; ncb_go
  | |- Ncb _ (upd_store _ _ _ _) => apply ncb_upd_store; ncb_go
  | |- Ncb _ (upd_logs ?x (s_cbs ?x) _) => apply ncb_upd_wire; ncb_go
  | |- Ncb _ (upd_chan _ _ _ _ _) => apply ncb_upd_chan; ncb_go
  | |- Ncb _ (upd_flags _ _ _ _ _) => apply ncb_upd_flags; ncb_go
  | |- Ncb _ (upd_st _ _) => apply ncb_upd_st; ncb_go
  | |- Ncb _ (log_cb _ _) => apply ncb_log; [ncb_side | ncb_go]
  | |- Ncb _ (store_reset _) => apply ncb_reset; [ncb_side | ncb_go]
  | |- Ncb _ (incr_tgt _) => apply ncb_incr; ncb_go
  | |- Ncb _ (set_tgt _ _) => apply ncb_set_tgt; ncb_go
  | |- Ncb _ (set_sent_reset _ _) => apply ncb_set_sent_reset; ncb_go
  | |- Ncb _ (set_hb _ _) => apply ncb_set_hb; ncb_go
  | |- Ncb _ (persist _ _) => apply ncb_persist; ncb_go
  | _ => ncb_ext
  end.
Ltac ncb_pairlemma E := brk_in E; inv E; brk_hyps; ncb_go.

Section L1.
Variable s0 : sess.
Lemma ncb_prep s t hdr body ir ok s1 r : prep s t hdr body ir ok = (s1, r) -> rs_ok t body -> Ncb s0 s -> Ncb s0 s1.
Proof.
  intros E Hrs H. unfold prep in E. destruct Hrs as [Hp|Hn]; [unfold rs_free in Hp | rewrite Hn in E]; ncb_pairlemma E.
Qed.
Lemma ncb_send_queued s : Ncb s0 s -> Ncb s0 (send_queued s).
Proof. intros H. unfold send_queued. ncb_go. Qed.
Lemma ncb_drop_queued s : Ncb s0 s -> Ncb s0 (drop_queued s).
Proof. intros H. unfold drop_queued. ncb_go. Qed.
Lemma ncb_enqueue s m : Ncb s0 s -> Ncb s0 (enqueue s m).
Proof. intros H. unfold enqueue. ncb_go. Qed.
End L1.
Ltac ncb_ext1 :=
  lazymatch goal with
  | |- Ncb _ (send_queued _) => apply ncb_send_queued; ncb_go
  | |- Ncb _ (drop_queued _) => apply ncb_drop_queued; ncb_go
  | |- Ncb _ (enqueue _ _) => apply ncb_enqueue; ncb_go
  | |- Ncb _ ?v => match goal with E : prep _ _ _ _ _ _ = (v, _) |- _ => eapply ncb_prep; [exact E | ncb_rs | ncb_go] end
  end.
Ltac ncb_ext ::= ncb_ext1.

Section L2.
Variable s0 : sess.
Lemma ncb_queue_for_send s t hdr body ir ok : rs_ok t body -> Ncb s0 s -> Ncb s0 (queue_for_send s t hdr body ir ok).
Proof. intros Hrs H. unfold queue_for_send. ncb_go. Qed.
Lemma ncb_enqueue_bytes s m : Ncb s0 s -> Ncb s0 (enqueue_bytes_and_send s m).
Proof. intros H. unfold enqueue_bytes_and_send. ncb_go. Qed.
Lemma ncb_drop_and_send s t body ir : rs_ok t body -> Ncb s0 s -> Ncb s0 (drop_and_send_in_reply_to s t body ir).
Proof. intros Hrs H. unfold drop_and_send_in_reply_to. ncb_go. Qed.
Lemma ncb_drop_and_reset s : rs_free -> Ncb s0 s -> Ncb s0 (drop_and_reset s).
Proof. intros Hp H. unfold drop_and_reset. unfold rs_free in Hp. ncb_go. Qed.
End L2.
Ltac ncb_ext2 :=
  lazymatch goal with
  | |- Ncb _ (queue_for_send _ _ _ _ _ _) => apply ncb_queue_for_send; [ncb_rs | ncb_go]
  | |- Ncb _ (enqueue_bytes_and_send _ _) => apply ncb_enqueue_bytes; ncb_go
  | |- Ncb _ (drop_and_send_in_reply_to _ _ _ _) => apply ncb_drop_and_send; [ncb_rs | ncb_go]
  | |- Ncb _ (drop_and_reset _) => apply ncb_drop_and_reset; [ncb_rs | ncb_go]
  | _ => ncb_ext1
  end.
Ltac ncb_ext ::= ncb_ext2.

Section L3.
Variable s0 : sess.
Lemma ncb_send_in_reply_to s t hdr body ir : rs_ok t body -> Ncb s0 s -> Ncb s0 (send_in_reply_to s t hdr body ir).
Proof. intros Hrs H. unfold send_in_reply_to. ncb_go. Qed.
Lemma ncb_send_logon s b ir : lg_ok b -> Ncb s0 s -> Ncb s0 (send_logon_in_reply_to s b ir).
Proof.
  intros Hl H. unfold send_logon_in_reply_to. apply ncb_drop_and_send; [|exact H].
  destruct Hl as [Hp| ->]; [left; exact Hp | right]. rewrite logon_body_plain. reflexivity.
Qed.
Lemma ncb_generate_sequence_reset s b e ir : Ncb s0 s -> Ncb s0 (generate_sequence_reset s b e ir).
Proof. intros H. unfold generate_sequence_reset. ncb_go. Qed.
End L3.
Ltac ncb_ext3 :=
  lazymatch goal with
  | |- Ncb _ (send_in_reply_to _ _ _ _ _) => apply ncb_send_in_reply_to; [ncb_rs | ncb_go]
  | |- Ncb _ (send_logon_in_reply_to _ _ _) => apply ncb_send_logon; [ncb_rs | ncb_go]
  | |- Ncb _ (generate_sequence_reset _ _ _ _) => apply ncb_generate_sequence_reset; ncb_go
  | _ => ncb_ext2
  end.
Ltac ncb_ext ::= ncb_ext3.

Section L4.
Variable s0 : sess.
Lemma ncb_send s t body : rs_ok t body -> Ncb s0 s -> Ncb s0 (send s t body).
Proof. intros Hrs H. unfold send. ncb_go. Qed.
Lemma ncb_send_logout s ir : Ncb s0 s -> Ncb s0 (send_logout_in_reply_to s ir).
Proof. intros H. unfold send_logout_in_reply_to. ncb_go. Qed.
Lemma ncb_do_reject s m r : Ncb s0 s -> Ncb s0 (do_reject s m r).
Proof. intros H. unfold do_reject. ncb_go. Qed.
Lemma ncb_resend_loop : forall keys s ir a b s1 x y, resend_loop keys s ir a b = (s1, x, y) -> Ncb s0 s -> Ncb s0 s1.
Proof.
  induction keys as [|k r IH]; intros s ir a b s1 x y E H; cbn [resend_loop] in E.
  - inv E. exact H.
  - brk_in E; eapply IH; try exact E; ncb_go.
Qed.
End L4.
Ltac ncb_ext4 :=
  lazymatch goal with
  | |- Ncb _ (send _ _ _) => apply ncb_send; [ncb_rs | ncb_go]
  | |- Ncb _ (send_logout_in_reply_to _ _) => apply ncb_send_logout; ncb_go
  | |- Ncb _ (initiate_logout_in_reply_to _ _) => unfold initiate_logout_in_reply_to; apply ncb_send_logout; ncb_go
  | |- Ncb _ (do_reject _ _ _) => apply ncb_do_reject; ncb_go
  | |- Ncb _ ?v =>
      match goal with
      | E : prep _ _ _ _ _ _ = (v, _) |- _ => eapply ncb_prep; [exact E | ncb_rs | ncb_go]
      | E : resend_loop _ _ _ _ _ = (v, _, _) |- _ => eapply ncb_resend_loop; [exact E | ncb_go]
      | _ => ncb_ext3
      end
  | _ => ncb_ext3
  end.
Ltac ncb_ext ::= ncb_ext4.

Section L5.
Variable s0 : sess.
Lemma ncb_send_resend_request s b e s1 st : send_resend_request s b e = (s1, st) -> Ncb s0 s -> Ncb s0 s1.
Proof. intros E H. unfold send_resend_request in E. ncb_pairlemma E. Qed.
Lemma ncb_resend_messages s b e ir : Ncb s0 s -> Ncb s0 (resend_messages s b e ir).
Proof. intros H. unfold resend_messages. ncb_go. Qed.
Lemma ncb_do_target_too_low s m s1 st : do_target_too_low s m = (s1, st) -> Ncb s0 s -> Ncb s0 s1.
Proof. intros E H. unfold do_target_too_low in E. ncb_pairlemma E. Qed.
Lemma ncb_shutdown_with_reason s m b s1 st : shutdown_with_reason s m b = (s1, st) -> Ncb s0 s -> Ncb s0 s1.
Proof. intros E H. unfold shutdown_with_reason in E. ncb_pairlemma E. Qed.
Lemma ncb_verify_app s m s1 r : verify_msg_against_app_impl s m = (s1, r) -> msg_ok m -> Ncb s0 s -> Ncb s0 s1.
Proof.
  intros E [Hm1 Hm2] H. unfold verify_msg_against_app_impl in E.
  destruct (rej_of_verdict (mi_valid m)); [inv E; exact H|].
  destruct (is_admin (mi_type m)); inv E; (apply ncb_log; [|exact H]); [exact Hm1 | apply Hm2].
Qed.
Lemma ncb_in_session_timeout s e s1 st : in_session_timeout s e = (s1, st) -> Ncb s0 s -> Ncb s0 s1.
Proof. intros E H. unfold in_session_timeout in E. ncb_pairlemma E. Qed.
End L5.
Ltac ncb_ext5 :=
  lazymatch goal with
  | |- Ncb _ (resend_messages _ _ _ _) => apply ncb_resend_messages; ncb_go
  | |- Ncb _ ?v =>
      match goal with
      | E : prep _ _ _ _ _ _ = (v, _) |- _ => eapply ncb_prep; [exact E | ncb_rs | ncb_go]
      | E : resend_loop _ _ _ _ _ = (v, _, _) |- _ => eapply ncb_resend_loop; [exact E | ncb_go]
      | E : send_resend_request _ _ _ = (v, _) |- _ => eapply ncb_send_resend_request; [exact E | ncb_go]
      | E : do_target_too_high _ _ _ = (v, _) |- _ => unfold do_target_too_high in E; eapply ncb_send_resend_request; [exact E | ncb_go]
      | E : do_target_too_low _ _ = (v, _) |- _ => eapply ncb_do_target_too_low; [exact E | ncb_go]
      | E : shutdown_with_reason _ _ _ = (v, _) |- _ => eapply ncb_shutdown_with_reason; [exact E | ncb_go]
      | E : verify_msg_against_app_impl _ _ = (v, _) |- _ => eapply ncb_verify_app; [exact E | assumption | ncb_go]
      | E : in_session_timeout _ _ = (v, _) |- _ => eapply ncb_in_session_timeout; [exact E | ncb_go]
      | _ => ncb_ext4
      end
  | _ => ncb_ext4
  end.
Ltac ncb_ext ::= ncb_ext5.

Section L6.
Variable s0 : sess.
Lemma ncb_verify_select s m a b c s1 r : verify_select s m a b c = (s1, r) -> msg_ok m -> Ncb s0 s -> Ncb s0 s1.
Proof. intros E Hm H. unfold verify_select in E. brk_in E; try (inv E; exact H). all: eapply ncb_verify_app; eauto. Qed.
Lemma ncb_process_reject s m r s1 st : process_reject s m r = (s1, st) -> Ncb s0 s -> Ncb s0 s1.
Proof. intros E H. unfold process_reject in E. ncb_pairlemma E. Qed.
End L6.
Ltac ncb_ext6 :=
  lazymatch goal with
  | |- Ncb _ ?v =>
      match goal with
      | E : verify_select _ _ _ _ _ = (v, _) |- _ => eapply ncb_verify_select; [exact E | assumption | ncb_go]
      | E : process_reject _ _ _ = (v, _) |- _ => eapply ncb_process_reject; [exact E | ncb_go]
      | _ => ncb_ext5
      end
  | _ => ncb_ext5
  end.
Ltac ncb_ext ::= ncb_ext6.

(* ---------- the handlers ---------- *)
Lemma cfg_ok_logon c : cfg_ok c -> rs_free \/ c_reset_on_logon c = false.
Proof.
  intros [H|H]; [left; exact H | right]. unfold no_reset_option in H. apply negb_true_iff in H.
  apply orb_false_elim in H as [H _]. apply orb_false_elim in H as [H _]. exact H.
Qed.
Lemma cfg_ok_logout c : cfg_ok c -> rs_free \/ c_reset_on_logout c = false.
Proof.
  intros [H|H]; [left; exact H | right]. unfold no_reset_option in H. apply negb_true_iff in H.
  apply orb_false_elim in H as [H _]. apply orb_false_elim in H as [_ H]. exact H.
Qed.
Lemma cfg_ok_disconnect c : cfg_ok c -> rs_free \/ c_reset_on_disconnect c = false.
Proof.
  intros [H|H]; [left; exact H | right]. unfold no_reset_option in H. apply negb_true_iff in H.
  apply orb_false_elim in H as [_ H]. exact H.
Qed.

Section L7.
Variable s0 : sess.

Lemma ncb_logon_accept c s3 m flag s1 r : logon_accept c s3 m flag = (s1, r) -> lg_ok flag -> Ncb s0 s3 -> Ncb s0 s1.
Proof.
  intros E Hl H. unfold logon_accept in E. cbv zeta in E.
  destruct (check_target_too_high _ m); inv E; ncb_go.
Qed.

Lemma ncb_handle_logon s m s1 r : handle_logon s m = (s1, r) ->
  msg_ok m -> lg_ok (reset_flag m && accepted m) -> cfg_ok (s_cfg s) -> Ncb s0 s -> Ncb s0 s1.
Proof.
  intros E Hm Hl0 Hc H. rewrite handle_logon_unfold in E.
  destruct (if c_begin (s_cfg s) =? 5 then match mi_applver m with None => Some (R_cond_missing 1137) | Some _ => None end else None).
  { inv E. exact H. }
  destruct (verify_msg_against_app_impl s m) as [sa ra] eqn:Ev.
  assert (Ha : Ncb s0 sa) by (eapply ncb_verify_app; eassumption).
  destruct ra as [ra|]; [inv E; exact Ha|].
  (* the reset decision comes after verifyMsgAgainstAppImpl: the Logon has been accepted *)
  assert (Hl : lg_ok (reset_flag m)).
  { rewrite (verify_app_passes_accepted _ _ _ Ev), andb_true_r in Hl0. exact Hl0. }
  cbv zeta in E.
  match type of E with context [verify_select ?x m false true false] => set (s2 := x) in * end.
  assert (H2 : Ncb s0 s2).
  { unfold s2. match goal with |- Ncb _ (if ?x then _ else _) => destruct x eqn:Ex end; [|exact Ha].
    apply ncb_drop_and_reset; [|exact Ha].
    destruct Hl as [Hp|Hf]; [exact Hp|]. rewrite Hf in Ex. cbn [andb] in Ex. rewrite orb_false_r in Ex.
    destruct (cfg_ok_logon _ Hc) as [Hp|Hn]; [exact Hp|]. rewrite Hn in Ex. destruct (initiator s); discriminate Ex. }
  destruct (verify_select s2 m false true false) as [s3 r3] eqn:Evs.
  pose proof (LogonProofs.verify_select_noapp _ _ _ _ _ _ Evs) as ->.
  destruct r3 as [r3|]; [inv E; exact H2|].
  eapply ncb_logon_accept; eassumption.
Qed.

Lemma ncb_handle_logout s m s1 st : handle_logout s m = (s1, st) ->
  msg_ok m -> cfg_ok (s_cfg s) -> Ncb s0 s -> Ncb s0 s1.
Proof.
  intros E Hm Hc H. unfold handle_logout in E.
  destruct (verify_select s m false false true) as [sv [r|]] eqn:Ev.
  { eapply ncb_process_reject; [exact E|]. eapply ncb_verify_select; eassumption. }
  assert (Hv : Ncb s0 sv) by (eapply ncb_verify_select; eassumption).
  assert (Sv : Same s sv) by (eapply fr_verify_select; [exact Ev | apply same_refl]).
  match type of E with context [c_reset_on_logout (s_cfg ?x)] => set (s2 := x) in * end.
  assert (H2 : Ncb s0 s2) by (unfold s2; ncb_go).
  assert (S2 : Same s s2) by (unfold s2; fr_go).
  rewrite (same_cfg _ _ S2) in E.
  destruct (cfg_ok_logout _ Hc) as [Hp|Hn].
  - unfold rs_free in Hp. brk_in E; inv E; ncb_go.
  - rewrite Hn in E. brk_in E; inv E; ncb_go.
Qed.

Lemma ncb_handle_test_request s m s1 st : handle_test_request s m = (s1, st) -> msg_ok m -> Ncb s0 s -> Ncb s0 s1.
Proof. intros E Hm H. unfold handle_test_request, verify in E. ncb_pairlemma E. Qed.
Lemma ncb_handle_sequence_reset s m s1 st : handle_sequence_reset s m = (s1, st) -> msg_ok m -> Ncb s0 s -> Ncb s0 s1.
Proof. intros E Hm H. unfold handle_sequence_reset in E. ncb_pairlemma E. Qed.
Lemma ncb_handle_resend_request s m s1 st : handle_resend_request s m = (s1, st) -> msg_ok m -> Ncb s0 s -> Ncb s0 s1.
Proof. intros E Hm H. unfold handle_resend_request in E. ncb_pairlemma E. Qed.
End L7.

Lemma m_ok_lg m : m_ok m -> beq_bytes (mi_type m) T_LOGON = true -> lg_ok (reset_flag m && accepted m).
Proof. intros [_ [H|[H|H]]] Ht; [left; exact H | congruence | right; exact H]. Qed.

Section L8.
Variable s0 : sess.
Lemma ncb_in_session_fix_msg_in s m s1 st : in_session_fix_msg_in s m = (s1, st) ->
  m_ok m -> cfg_ok (s_cfg s) -> Ncb s0 s -> Ncb s0 s1.
Proof.
  intros E Hm Hc H. pose proof (proj1 Hm) as Hmsg. unfold in_session_fix_msg_in in E.
  destruct (beq_bytes (mi_type m) T_LOGON) eqn:T1.
  { destruct (handle_logon s m) as [x r] eqn:Eh.
    assert (Hx : Ncb s0 x) by (eapply ncb_handle_logon; [exact Eh | exact Hmsg | exact (m_ok_lg m Hm T1) | exact Hc | exact H]).
    destruct r; inv E; ncb_go. }
  destruct (beq_bytes (mi_type m) T_LOGOUT); [eapply ncb_handle_logout; eassumption|].
  destruct (beq_bytes (mi_type m) T_RESENDREQ); [eapply ncb_handle_resend_request; eassumption|].
  destruct (beq_bytes (mi_type m) T_SEQRESET); [eapply ncb_handle_sequence_reset; eassumption|].
  destruct (beq_bytes (mi_type m) T_TESTREQ); [eapply ncb_handle_test_request; eassumption|].
  unfold verify in E. ncb_pairlemma E.
Qed.

Lemma ncb_logon_state s m s1 st : logon_state_fix_msg_in s m = (s1, st) ->
  m_ok m -> cfg_ok (s_cfg s) -> Ncb s0 s -> Ncb s0 s1.
Proof.
  intros E Hm Hc H. pose proof (proj1 Hm) as Hmsg. unfold logon_state_fix_msg_in in E.
  destruct (beq_bytes (mi_type m) T_LOGON) eqn:T1; cbn [negb] in E; [|inv E; exact H].
  destruct (handle_logon s m) as [x r] eqn:Eh.
  assert (Hx : Ncb s0 x) by (eapply ncb_handle_logon; [exact Eh | exact Hmsg | exact (m_ok_lg m Hm T1) | exact Hc | exact H]).
  ncb_pairlemma E.
Qed.
End L8.

Definition all_ok (l : list (Z * minput)) : Prop := forall k x, In (k, x) l -> m_ok x.

Section L9.
Variable s0 : sess.
Lemma ncb_logout_state s m s1 st : logout_state_fix_msg_in s m = (s1, st) ->
  m_ok m -> cfg_ok (s_cfg s) -> Ncb s0 s -> Ncb s0 s1.
Proof.
  intros E Hm Hc H. unfold logout_state_fix_msg_in in E.
  destruct (in_session_fix_msg_in s m) as [s2 st2] eqn:E2.
  assert (Ncb s0 s2) by (eapply ncb_in_session_fix_msg_in; eassumption). destruct st2; inv E; assumption.
Qed.

Lemma ncb_resend_drain : forall fuel s stash next s1 stash1 next1 still,
  resend_drain fuel s stash next = (s1, stash1, next1, still) ->
  all_ok stash -> cfg_ok (s_cfg s) -> Ncb s0 s -> Ncb s0 s1.
Proof.
  induction fuel as [|f IH]; intros s stash next s1 stash1 next1 still E Ha Hc H; cbn [resend_drain] in E.
  - inv E. exact H.
  - destruct (stash_take (s_tgt s) stash) as [[m stash']|] eqn:Et; [|inv E; exact H].
    destruct (stash_take_some _ _ _ _ Et) as (Hin & Hsub & _).
    destruct (in_session_fix_msg_in s m) as [s2 n2] eqn:E2.
    assert (H2 : Ncb s0 s2) by (eapply ncb_in_session_fix_msg_in; [exact E2 | exact (Ha _ _ Hin) | exact Hc | exact H]).
    pose proof (fr_in_session_fix_msg_in s s m s2 n2 E2 (same_refl s)) as S2.
    destruct (negb (is_logged_on n2)); [inv E; exact H2|].
    eapply IH; [exact E | intros k x Hx; apply (Ha k x), Hsub, Hx | rewrite (same_cfg _ _ S2); exact Hc | exact H2].
Qed.

(* resendState.FixMsgIn after its first call of inSession.FixMsgIn *)
Lemma ncb_resend_state_after s stash ce re m s1 next s' next' :
  in_session_fix_msg_in s m = (s1, next) -> Ncb s0 s1 -> cfg_ok (s_cfg s) ->
  all_ok (olist (shared_stash stash next)) ->
  resend_state_fix_msg_in s stash ce re m = (s', next') -> Ncb s0 s'.
Proof.
  intros Ei H1 Hc Ha E. unfold resend_state_fix_msg_in in E. rewrite Ei in E.
  pose proof (fr_in_session_fix_msg_in s s m s1 next Ei (same_refl s)) as S1.
  destruct (negb (is_logged_on next)); [inv E; exact H1|].
  fold (olist (shared_stash stash next)) in E.
  match type of E with context [resend_drain ?f ?a ?b ?c] => destruct (resend_drain f a b c) as [[[s3 l3] n3] still] eqn:E3 end.
  assert (H3 : Ncb s0 s3).
  { eapply ncb_resend_drain; [exact E3 | exact Ha | rewrite (same_cfg _ _ S1); exact Hc | exact H1]. }
  destruct (negb still); [inv E; exact H3|].
  brk_in E; inv E; try exact H3; eapply ncb_send_resend_request; eassumption.
Qed.

Lemma shared_stash_ok s stash ce re m s1 next :
  unwrap_pending (s_st s) = SResend stash ce re -> in_session_fix_msg_in s m = (s1, next) ->
  all_ok (olist stash) -> m_ok m -> all_ok (olist (shared_stash stash next)).
Proof.
  intros Hu Ei Ha Hm.
  destruct (in_session_char s m s1 next Ei) as [Hnr|(recv & Hsq & Hgt & Ep)].
  - destruct stash as [l0|]; [rewrite (shared_stash_not_resend l0 next Hnr); exact Ha | intros k x []].
  - cbn [process_reject] in Ep. rewrite Hu in Ep. inv Ep.
    destruct stash as [l0|]; [|intros k x []]. cbn [shared_stash olist].
    intros k x Hx. apply stash_insert_in in Hx as [Hx|[Hx _]]; [inv Hx; exact Hm | exact (Ha k x Hx)].
Qed.

Lemma ncb_resend_state s stash ce re m s' next' :
  unwrap_pending (s_st s) = SResend stash ce re ->
  resend_state_fix_msg_in s stash ce re m = (s', next') ->
  all_ok (olist stash) -> m_ok m -> cfg_ok (s_cfg s) -> Ncb s0 s -> Ncb s0 s'.
Proof.
  intros Hu E Ha Hm Hc H.
  destruct (in_session_fix_msg_in s m) as [s1 next] eqn:Ei.
  eapply ncb_resend_state_after; [exact Ei | eapply ncb_in_session_fix_msg_in; eassumption | exact Hc | | exact E].
  eapply shared_stash_ok; eassumption.
Qed.

Lemma ncb_state_fix_msg_in : forall st s m s1 st1,
  unwrap_pending st = unwrap_pending (s_st s) ->
  state_fix_msg_in st s m = (s1, st1) ->
  all_ok (stash_of_st (s_st s)) -> m_ok m -> cfg_ok (s_cfg s) -> Ncb s0 s -> Ncb s0 s1.
Proof.
  induction st as [| | | | | stash c e | i IH]; intros s m s1 st1 Hu E Ha Hm Hc H; cbn [state_fix_msg_in] in E.
  - inv E; exact H.
  - inv E; exact H.
  - eapply ncb_logon_state; eassumption.
  - eapply ncb_logout_state; eassumption.
  - eapply ncb_in_session_fix_msg_in; eassumption.
  - cbn [unwrap_pending] in Hu.
    eapply ncb_resend_state; [symmetry; exact Hu | exact E | | exact Hm | exact Hc | exact H].
    unfold stash_of_st in Ha. rewrite <- Hu in Ha. destruct stash as [l0|]; [exact Ha | intros k x []].
  - eapply IH; [exact Hu | eassumption..].
Qed.

Lemma ncb_state_timeout st s e s1 st1 : state_timeout st s e = (s1, st1) -> Ncb s0 s -> Ncb s0 s1.
Proof.
  intros E H. unfold state_timeout in E.
  destruct st; try (brk_in E; inv E; exact H).
  - eapply ncb_in_session_timeout; eassumption.
  - destruct (in_session_timeout s e) as [s2 st2] eqn:E2.
    assert (Ncb s0 s2) by (eapply ncb_in_session_timeout; eassumption). brk_in E; inv E; assumption.
Qed.
Lemma ncb_state_stop : forall st s s1 st1, state_stop st s = (s1, st1) -> Ncb s0 s -> Ncb s0 s1.
Proof.
  induction st as [| | | | | stash c e | i IH]; intros s s1 st1 E H; cbn [state_stop] in E; try (inv E; ncb_go).
  eapply IH; eassumption.
Qed.
End L9.

(* ---------- the state machine above the handlers, with nothing buffered inbound (drainMessageIn is the identity) ---------- *)
Section Upper.
Variable s0 : sess.

Lemma ncb_disconnect_now s : cfg_ok (s_cfg s) -> Ncb s0 s -> Ncb s0 (disconnect_now s).
Proof.
  intros Hc H. unfold disconnect_now. cbv zeta. apply ncb_upd_chan.
  match goal with |- context [if ?d then log_cb s CbOnLogout else s] => destruct d end;
    cbn [s_cfg log_cb upd_logs];
    (destruct (cfg_ok_disconnect _ Hc) as [Hp|Hn]; [unfold rs_free in Hp | rewrite Hn]; ncb_go).
Qed.

Lemma ncb_handle_disconnect_nodrain s : s_in_buf s = [] -> cfg_ok (s_cfg s) -> Ncb s0 s ->
  Ncb s0 (handle_disconnect_state drain s).
Proof. intros Hb Hc H. rewrite (hd_no_buffer s Hb). apply ncb_disconnect_now; assumption. Qed.

Lemma ncb_set_state_nodrain s next : s_in_buf s = [] -> cfg_ok (s_cfg s) -> Ncb s0 s -> Ncb s0 (set_state s next).
Proof.
  intros Hb Hc H. unfold set_state, set_state_with.
  destruct (negb (is_connected next)); [|ncb_go].
  apply ncb_upd_st.
  assert (H1 : Ncb s0 (if is_connected (s_st s) then handle_disconnect_state drain s else s)).
  { destruct (is_connected (s_st s)); [apply ncb_handle_disconnect_nodrain; assumption | exact H]. }
  destruct (s_pending_stop _); [apply ncb_upd_flags|]; exact H1.
Qed.

Lemma ncb_incoming_nodrain s m : s_in_buf s = [] -> cfg_ok (s_cfg s) -> all_ok (stash_of_st (s_st s)) ->
  (forall mm, m = Some mm -> m_ok mm) -> Ncb s0 s -> Ncb s0 (incoming s m).
Proof.
  intros Hb Hc Ha Hm H. unfold incoming, incoming_with.
  destruct (negb (is_connected (s_st s))); [exact H|]. destruct m as [mm|]; [|exact H].
  destruct (state_fix_msg_in (s_st s) s mm) as [s1 next] eqn:E.
  pose proof (fr_state_fix_msg_in s _ _ _ _ _ E (same_refl s)) as S1.
  apply ncb_set_state_nodrain; [rewrite (same_buf _ _ S1); exact Hb | rewrite (same_cfg _ _ S1); exact Hc |].
  eapply ncb_state_fix_msg_in; [reflexivity | exact E | exact Ha | exact (Hm mm eq_refl) | exact Hc | exact H].
Qed.

Lemma should_send_reset_no_option s : no_reset_option (s_cfg s) = true -> should_send_reset s = false.
Proof.
  unfold no_reset_option, should_send_reset. intros H.
  destruct (c_reset_on_logon (s_cfg s)), (c_reset_on_logout (s_cfg s)), (c_reset_on_disconnect (s_cfg s)); try discriminate H.
  cbn [orb]. rewrite andb_false_r. reflexivity.
Qed.

Lemma ncb_connect s : cfg_ok (s_cfg s) -> Ncb s0 s -> Ncb s0 (connect s).
Proof.
  intros Hc H. unfold connect. destruct (is_connected (s_st s)); [exact H|].
  match goal with |- context [set_sent_reset ?x false] => set (c0 := set_sent_reset x false) end.
  assert (H0 : Ncb s0 c0) by (unfold c0; ncb_go).
  assert (Hc0 : cfg_ok (s_cfg c0)) by exact Hc.
  destruct (negb (initiator c0)).
  - rewrite (set_state_connected c0 SLogon eq_refl). ncb_go.
  - rewrite (set_state_connected _ SLogon eq_refl). apply ncb_upd_st.
    match goal with |- Ncb _ (send_logon_in_reply_to ?x _ None) => set (s1 := x) end.
    assert (Hs1 : s_cfg s1 = s_cfg s) by (unfold s1; destruct (c_reset_on_logon _); reflexivity).
    destruct Hc as [Hp|Hn].
    + assert (Hp' : P CbStoreReset = true) by exact Hp. apply ncb_send_logon; [left; exact Hp|]. unfold s1. ncb_go.
    + apply ncb_send_logon.
      * right. apply should_send_reset_no_option. rewrite Hs1. exact Hn.
      * unfold s1. destruct (cfg_ok_logon _ (or_intror Hn : cfg_ok (s_cfg c0))) as [Hp|Hr]; [unfold rs_free in Hp | rewrite Hr]; ncb_go.
Qed.

(* one event, nothing buffered *)
Definition ev_ok (e : event) : Prop :=
  match e with
  | EIncoming m => m_ok m
  | EAppSend t body _ => rs_ok t body
  | EResetSeqTime => rs_free
  | _ => True
  end.

Lemma ncb_step_event s e : s_in_buf s = [] -> cfg_ok (s_cfg s) -> all_ok (stash_of_st (s_st s)) -> ev_ok e ->
  Ncb s0 s -> Ncb s0 (step_event s e).
Proof.
  intros Hb Hc Ha He H. destruct e; cbn [step_event ev_ok] in *.
  - apply ncb_connect; assumption.
  - destruct (_ && _); ncb_go.
  - destruct (negb (s_in_open s)); [exact H|]. rewrite Hb. exact H.
  - apply ncb_incoming_nodrain; try assumption. intros mm Hmm. inv Hmm. exact He.
  - apply ncb_incoming_nodrain; try assumption. intros mm Hmm. discriminate Hmm.
  - destruct (is_connected (s_st s)); [|exact H]. apply ncb_set_state_nodrain; assumption.
  - destruct (state_timeout (s_st s) s e) as [s1 next] eqn:E.
    pose proof (fr_state_timeout s _ _ _ _ _ E (same_refl s)) as S1.
    apply ncb_set_state_nodrain; [rewrite (same_buf _ _ S1); exact Hb | rewrite (same_cfg _ _ S1); exact Hc |].
    eapply ncb_state_timeout; eassumption.
  - apply ncb_queue_for_send; assumption.
  - ncb_go.
  - match goal with |- context [state_stop ?a ?b] => destruct (state_stop a b) as [s1 next] eqn:E end.
    match type of E with state_stop _ ?c0 = _ => pose proof (fr_state_stop c0 _ _ _ _ E (same_refl c0)) as S1 end.
    apply ncb_set_state_nodrain; [rewrite (same_buf _ _ S1); exact Hb | rewrite (same_cfg _ _ S1); exact Hc |].
    eapply ncb_state_stop; [exact E | ncb_go].
  - destruct (is_connected (s_st s)); [|exact H]. apply ncb_send_logon; [left; exact He | exact H].
Qed.
End Upper.

(* ---------- the same through drainMessageIn: what is buffered is handled first, in the state the session is still in ---------- *)
(* The kept messages stay in the class m_ok through every handler (no recovery invariant needed: a handler only ever adds the
   message it processes to the stash). *)
Lemma olist_stash_of st c e : olist st = stash_of_st (SResend st c e).
Proof. reflexivity. Qed.

Lemma process_reject_all_ok s m r s1 next : process_reject s m r = (s1, next) ->
  all_ok (stash_of_st (s_st s)) -> m_ok m -> all_ok (stash_of_st next).
Proof.
  intros E Ha Hm.
  destruct r as [recv ex|recv ex| | |reason tag bus];
    try (rewrite (stash_of_not_resend next); [intros k x []|]; eapply process_reject_other; [|exact E]; intros; discriminate).
  cbn [process_reject] in E. unfold stash_of_st in Ha.
  destruct (unwrap_pending (s_st s)) as [| | | | | st c e | j] eqn:Eu.
  6: { inv E. rewrite stash_of_resend. cbn [olist]. intros k x Hx.
       apply stash_insert_in in Hx as [Hx|[Hx _]]; [inv Hx; exact Hm|]. destruct st as [l|]; [exact (Ha k x Hx) | destruct Hx]. }
  all: destruct (do_target_too_high s recv ex) as [y ny] eqn:Ed; unfold do_target_too_high in Ed;
    destruct (send_resend_request_shape _ _ _ _ _ Ed) as (_ & c0 & -> & _); inv E;
    rewrite stash_of_resend; cbn [olist]; intros k x Hx;
    apply stash_insert_in in Hx as [Hx|[[] _]]; inv Hx; exact Hm.
Qed.

Lemma in_session_all_ok s m s1 next : in_session_fix_msg_in s m = (s1, next) ->
  all_ok (stash_of_st (s_st s)) -> m_ok m -> all_ok (stash_of_st next).
Proof.
  intros E Ha Hm. destruct (in_session_char s m s1 next E) as [Hnr|(recv & _ & _ & Ep)].
  - rewrite (stash_of_not_resend next Hnr). intros k x [].
  - eapply process_reject_all_ok; eassumption.
Qed.

Lemma drain_all_ok : forall fuel s l next s2 l' next2 still,
  resend_drain fuel s l next = (s2, l', next2, still) ->
  all_ok l -> all_ok (stash_of_st (s_st s)) -> all_ok (stash_of_st next) ->
  all_ok l' /\ all_ok (stash_of_st next2).
Proof.
  induction fuel as [|f IH]; intros s l next s2 l' next2 still E Hl Hs Hn; cbn [resend_drain] in E.
  - inv E. split; assumption.
  - destruct (stash_take (s_tgt s) l) as [[m l1]|] eqn:Et; [|inv E; split; assumption].
    destruct (stash_take_some _ _ _ _ Et) as (Hin & Hsub & _).
    destruct (in_session_fix_msg_in s m) as [s1 n1] eqn:Ei.
    pose proof (in_session_all_ok s m s1 n1 Ei Hs (Hl _ _ Hin)) as H1.
    pose proof (fr_in_session_fix_msg_in s s m s1 n1 Ei (same_refl s)) as S1.
    assert (Hl1 : all_ok l1) by (intros k x Hx; apply (Hl k x), Hsub, Hx).
    destruct (negb (is_logged_on n1)); [inv E; split; assumption|].
    eapply IH; [exact E | exact Hl1 | rewrite (same_st _ _ S1); exact Hs | exact H1].
Qed.

Lemma resend_state_all_ok s stash ce re m s' next' :
  unwrap_pending (s_st s) = SResend stash ce re -> resend_state_fix_msg_in s stash ce re m = (s', next') ->
  all_ok (stash_of_st (s_st s)) -> m_ok m -> all_ok (stash_of_st next').
Proof.
  intros Hu E Ha Hm.
  assert (Ho : all_ok (olist stash)).
  { unfold stash_of_st in Ha. rewrite Hu in Ha. destruct stash as [l0|]; [exact Ha | intros k x []]. }
  unfold resend_state_fix_msg_in in E.
  destruct (in_session_fix_msg_in s m) as [s1 next] eqn:Ei.
  pose proof (in_session_all_ok s m s1 next Ei Ha Hm) as H1.
  pose proof (fr_in_session_fix_msg_in s s m s1 next Ei (same_refl s)) as S1.
  pose proof (shared_stash_ok s stash ce re m s1 next Hu Ei Ho Hm) as Hsh.
  destruct (negb (is_logged_on next)); [inv E; exact H1|].
  fold (olist (shared_stash stash next)) in E.
  match type of E with context [resend_drain ?f ?a ?b ?c] => destruct (resend_drain f a b c) as [[[s2 l'] next2] still] eqn:Ed end.
  assert (Hs1 : all_ok (stash_of_st (s_st s1))) by (rewrite (same_st _ _ S1); exact Ha).
  destruct (drain_all_ok _ _ _ _ _ _ _ _ Ed Hsh Hs1 H1) as [D1 D2].
  destruct (negb still); [inv E; exact D2|].
  assert (Hst' : forall c e, all_ok (stash_of_st (SResend (match shared_stash stash next with Some _ => Some l' | None => None end) c e))).
  { intros c e. rewrite stash_of_resend. destruct (shared_stash stash next); [exact D1 | intros k x []]. }
  assert (Hreq : forall b e y ny,
            (match send_resend_request s2 b e with
             | (s3, SResend _ c0 e0) => (s3, SResend (match shared_stash stash next with Some _ => Some l' | None => None end) c0 e0)
             | (s3, other) => (s3, other) end) = (y, ny) -> all_ok (stash_of_st ny)).
  { intros b e y ny Eq. destruct (send_resend_request s2 b e) as [s3 n3] eqn:Er.
    destruct (send_resend_request_shape _ _ _ _ _ Er) as (_ & c3 & -> & _). inv Eq. apply Hst'. }
  match type of E with (if ?c then _ else _) = _ => destruct c end; [eapply Hreq; exact E|].
  destruct (mi_gapfill m) as [| |g]; [| inv E; intros k x [] |].
  - cbn [andb] in E. destruct (s_tgt s2 <=? re); inv E; [apply Hst' | exact D2].
  - match type of E with (if ?c then _ else _) = _ => destruct c end; [eapply Hreq; exact E|].
    destruct (s_tgt s2 <=? re); inv E; [apply Hst' | exact D2].
Qed.

Lemma state_fix_all_ok : forall st s m s1 next,
  unwrap_pending st = unwrap_pending (s_st s) -> state_fix_msg_in st s m = (s1, next) ->
  all_ok (stash_of_st (s_st s)) -> m_ok m -> all_ok (stash_of_st next).
Proof.
  induction st as [| | | | | stash c e | j IH]; intros s m s1 next Hu E Ha Hm; cbn [state_fix_msg_in] in E.
  - inv E. intros k x [].
  - inv E. intros k x [].
  - assert (Hemp : stash_of_st next = []).
    { unfold logon_state_fix_msg_in in E.
      destruct (negb (beq_bytes (mi_type m) T_LOGON)); [inv E; reflexivity|].
      destruct (handle_logon s m) as [x [r|]] eqn:Eh; [|inv E; reflexivity].
      destruct r as [recv ex| | | |]; try (unfold shutdown_with_reason in E; inv E; reflexivity).
      unfold do_target_too_high in E. destruct (send_resend_request_shape _ _ _ _ _ E) as (_ & c0 & -> & _). reflexivity. }
    rewrite Hemp. intros k x [].
  - assert (Hemp : stash_of_st next = []).
    { unfold logout_state_fix_msg_in in E. destruct (in_session_fix_msg_in s m) as [x nx]. destruct nx; inv E; reflexivity. }
    rewrite Hemp. intros k x [].
  - eapply in_session_all_ok; eassumption.
  - cbn [unwrap_pending] in Hu. eapply resend_state_all_ok; [symmetry; exact Hu | eassumption..].
  - eapply IH; [exact Hu | eassumption..].
Qed.

Definition buf_ok (l : list (option minput)) : Prop := forall mm, In (Some mm) l -> m_ok mm.

Section Drain.
Variable s0 : sess.
(* what is carried through the drain: the configuration and the kept / buffered messages allow no callback outside P *)
Definition Dn (x : sess) : Prop :=
  cfg_ok (s_cfg x) /\ all_ok (stash_of_st (s_st x)) /\ buf_ok (s_in_buf x) /\ Ncb s0 x.

Lemma dn_not_connected_stash next : is_connected next = false -> all_ok (stash_of_st next).
Proof. intros H. rewrite (stash_of_not_resend next (not_connected_not_resend next H)). intros k x []. Qed.

Lemma dn_disconnect_now x : Dn x -> Dn (disconnect_now x).
Proof.
  intros (Hc & Ha & Hb & H). split; [|split; [|split]].
  - unfold disconnect_now. cbv zeta. cbn [upd_chan s_cfg].
    repeat match goal with |- context [if ?c then _ else _] => destruct c end; exact Hc.
  - unfold disconnect_now. cbv zeta. cbn [upd_chan s_st].
    repeat match goal with |- context [if ?c then _ else _] => destruct c end; exact Ha.
  - intros mm [].
  - apply ncb_disconnect_now; assumption.
Qed.

Lemma dn_set_state_with dr s1 next : (forall y, Dn y -> Dn (dr y)) -> Dn s1 -> all_ok (stash_of_st next) ->
  Dn (set_state_with dr s1 next).
Proof.
  intros Hdr H1 Hn. unfold set_state_with.
  assert (Hfin : forall y, Dn y -> Dn (upd_st (if s_pending_stop y then upd_flags y (s_sent_reset y) (s_hb y) true true else y) next)).
  { intros y (Hc & _ & Hb & H). destruct (s_pending_stop y); (split; [exact Hc | split; [exact Hn | split; [exact Hb | exact H]]]). }
  destruct (negb (is_connected next)).
  - apply Hfin. destruct (is_connected (s_st s1)) eqn:Ec; [|exact H1].
    rewrite hd_unfold, Ec. cbn [andb]. pose proof (Hdr s1 H1) as H0.
    destruct (negb (is_connected (s_st (dr s1)))); [exact H0 | apply dn_disconnect_now; exact H0].
  - destruct H1 as (Hc & _ & Hb & H). split; [exact Hc | split; [exact Hn | split; [exact Hb | exact H]]].
Qed.

Lemma dn_incoming_with dr x m : (forall y, Dn y -> Dn (dr y)) -> Dn x -> (forall mm, m = Some mm -> m_ok mm) ->
  Dn (incoming_with dr x m).
Proof.
  intros Hdr Hx Hm. unfold incoming_with.
  destruct (negb (is_connected (s_st x))); [exact Hx|]. destruct m as [mm|]; [|exact Hx].
  destruct (state_fix_msg_in (s_st x) x mm) as [s1 next] eqn:E.
  pose proof (fr_state_fix_msg_in x _ _ _ _ _ E (same_refl x)) as S1.
  destruct Hx as (Hc & Ha & Hb & H).
  apply dn_set_state_with; [exact Hdr | |].
  - split; [rewrite (same_cfg _ _ S1); exact Hc|]. split; [rewrite (same_st _ _ S1); exact Ha|].
    split; [rewrite (same_buf _ _ S1); exact Hb|].
    eapply ncb_state_fix_msg_in; [reflexivity | exact E | exact Ha | exact (Hm mm eq_refl) | exact Hc | exact H].
  - eapply state_fix_all_ok; [reflexivity | exact E | exact Ha | exact (Hm mm eq_refl)].
Qed.

Lemma dn_drain_message_in : forall fuel x, Dn x -> Dn (drain_message_in fuel x).
Proof.
  induction fuel as [|f IH]; intros x Hx; cbn [drain_message_in]; [exact Hx|].
  destruct (negb (s_in_open x)); [exact Hx|]. destruct (s_in_buf x) as [|m r] eqn:Eb; [exact Hx|].
  destruct Hx as (Hc & Ha & Hb & H). rewrite Eb in Hb.
  apply IH. apply dn_incoming_with; [exact IH | |].
  - split; [exact Hc | split; [exact Ha | split; [|exact H]]]. intros mm Hmm. apply Hb. right. exact Hmm.
  - intros mm ->. apply Hb. left. reflexivity.
Qed.

Lemma dn_drain x : Dn x -> Dn (drain x).
Proof. intros H. unfold drain. apply dn_drain_message_in. exact H. Qed.

Lemma dn_set_state s1 next : Dn s1 -> all_ok (stash_of_st next) -> Dn (set_state s1 next).
Proof. intros H Hn. unfold set_state. apply dn_set_state_with; [exact dn_drain | exact H | exact Hn]. Qed.

Lemma dn_incoming x m : Dn x -> (forall mm, m = Some mm -> m_ok mm) -> Dn (incoming x m).
Proof. intros H Hm. unfold incoming. apply dn_incoming_with; [exact dn_drain | exact H | exact Hm]. Qed.

Lemma dn_same x y : Same x y -> Ncb s0 y -> Dn x -> Dn y.
Proof.
  intros S Hy (Hc & Ha & Hb & _). split; [rewrite (same_cfg _ _ S); exact Hc|]. split; [rewrite (same_st _ _ S); exact Ha|].
  split; [rewrite (same_buf _ _ S); exact Hb | exact Hy].
Qed.

(* one event, whatever is buffered: every buffered frame is in the class m_ok *)
Lemma ncb_step_event_buffered s e : cfg_ok (s_cfg s) -> all_ok (stash_of_st (s_st s)) -> buf_ok (s_in_buf s) -> ev_ok e ->
  Ncb s0 s -> Ncb s0 (step_event s e).
Proof.
  intros Hc Ha Hb He H.
  assert (Hd : Dn s) by (split; [exact Hc | split; [exact Ha | split; [exact Hb | exact H]]]).
  assert (Hout : forall y, Dn y -> Ncb s0 y) by (intros y (_ & _ & _ & Hy); exact Hy).
  destruct e; cbn [step_event ev_ok] in *.
  - apply ncb_connect; assumption.
  - destruct (_ && _); ncb_go.
  - destruct (negb (s_in_open s)); [exact H|]. destruct (s_in_buf s) as [|m r] eqn:Eb; [exact H|].
    apply Hout. apply dn_incoming.
    + split; [exact Hc | split; [exact Ha | split; [|exact H]]]. intros mm Hmm. apply Hb. right. exact Hmm.
    + intros mm ->. apply Hb. left. reflexivity.
  - apply Hout. apply dn_incoming; [exact Hd|]. intros mm Hmm. inv Hmm. exact He.
  - apply Hout. apply dn_incoming; [exact Hd|]. intros mm Hmm. discriminate Hmm.
  - destruct (is_connected (s_st s)); [|exact H]. apply Hout. apply dn_set_state; [exact Hd | intros k x []].
  - destruct (state_timeout (s_st s) s e) as [s1 next] eqn:E.
    pose proof (fr_state_timeout s _ _ _ _ _ E (same_refl s)) as S1.
    apply Hout. apply dn_set_state.
    + apply (dn_same s s1 S1); [eapply ncb_state_timeout; eassumption | exact Hd].
    + destruct (timeout_stash _ _ _ _ _ E) as [Hs|Hs]; rewrite Hs; [exact Ha | intros k x []].
  - apply ncb_queue_for_send; assumption.
  - ncb_go.
  - match goal with |- context [state_stop ?a ?b] => destruct (state_stop a b) as [s1 next] eqn:E end.
    match type of E with state_stop _ ?c0 = _ =>
      pose proof (fr_state_stop c0 _ _ _ _ E (same_refl c0)) as S1;
      assert (Hd0 : Dn c0) by (split; [exact Hc | split; [exact Ha | split; [exact Hb | ncb_go]]]) end.
    apply Hout. apply dn_set_state.
    + eapply (dn_same _ s1 S1); [eapply ncb_state_stop; [exact E | ncb_go] | exact Hd0].
    + rewrite (stash_of_not_resend next (state_stop_not_resend _ _ _ _ E)). intros k x [].
  - destruct (is_connected (s_st s)); [|exact H]. apply ncb_send_logon; [left; exact He | exact H].
Qed.
End Drain.

End NewCb.
