(* C04, "including gaps detected on the Logon itself": clause 409 (Session/SpecLogonGap.v) at trace level.
   Step lemma (logon_gap_step): in the logon state a directly processed Logon that reaches handle_logon's acceptance tail
   (OnLogon logged) and is numbered n: either n is consumed (expected number afterwards n' > n), or the too-high verdict goes
   through logonState.FixMsgIn to doTargetTooHigh -> sendResendRequest -> send; the state read by `send` is still the logon
   state (setState assigns afterwards), so the ResendRequest is numbered, persisted and QUEUED (queueForSend): exactly one
   ToAdmin "2" is logged in the step, the wire of the step holds at most the Logon reply (no ResendRequest), the queue is
   not empty, the expected number is unchanged and the next state is the resend state with range end n - 1.
   No reachable-state invariant is needed: the step lemma holds from every state whose State is the logon state. *)
From Coq Require Import String.
From Coq Require Import ZArith List Bool Lia.
From QF Require Import Base.Bytes Session.Types Session.Model Session.Spec Session.SpecLogonGap Session.C01Proofs
  Session.FrameProofs Session.TraceProofs Session.ConnectProofs Session.LogonProofs Session.NoReqProofs Session.ChunkProofs.
Import ListNotations.
Open Scope list_scope.
Open Scope Z_scope.

(* what the step lemma tracks through handle_logon: State untouched, no ToAdmin "2" logged, no ResendRequest written *)
Definition NoRq (s : sess) : Prop := rrf (s_cbs s) = [] /\ resend_requests (s_wire s) = [].

(* the Logon reply of an acceptor: drops the queue, logs ToAdmin "A" (and a store reset), writes at most the Logon *)
Lemma send_logon_facts s flag ir : NoRq s ->
  let s' := send_logon_in_reply_to s flag ir in
  NoRq s' /\ s_st s' = s_st s.
Proof.
  intros (N1 & N2). unfold send_logon_in_reply_to, drop_and_send_in_reply_to, prep.
  change (is_admin T_LOGON) with true. cbv iota beta zeta. change (beq_bytes T_LOGON T_LOGON) with true. cbn [andb].
  unfold NoRq, send_queued, enqueue, drop_queued, persist, store_reset, set_sent_reset, log_cb.
  destruct (body_has_reset_y (logon_body s flag));
    cbn [upd_flags upd_logs upd_store upd_to_send s_cfg s_cbs s_wire s_st s_to_send s_out_open s_snd s_tgt s_msgs];
    destruct (c_disable_persist (s_cfg s));
    cbn [upd_flags upd_logs upd_store upd_to_send s_cfg s_cbs s_wire s_st s_to_send s_out_open s_snd s_tgt s_msgs];
    destruct (s_out_open s);
    cbn [upd_flags upd_logs upd_store upd_to_send s_cfg s_cbs s_wire s_st s_to_send s_out_open s_snd s_tgt s_msgs app rev];
    (split; [split|reflexivity]);
    try exact N1; try exact N2.
Qed.

(* handle_logon from a state with empty logs: when OnLogon is logged, no ResendRequest has been created or written, State is
   untouched, the Logon is numbered, and the verdict is "accepted" with the number consumed or "too high" with the expected
   number unchanged *)
Lemma handle_logon_gap x m s1 r :
  handle_logon x m = (s1, r) -> s_cbs x = [] -> s_wire x = [] -> In CbOnLogon (s_cbs s1) ->
  NoRq s1 /\ s_st s1 = s_st x
  /\ exists n, mi_seq m = FVal n /\ ((r = None /\ n < s_tgt s1) \/ (r = Some (RTooHigh n (s_tgt s1)) /\ s_tgt s1 < n)).
Proof.
  intros E Hc Hw Hin. rewrite handle_logon_unfold in E.
  destruct (if c_begin (s_cfg x) =? 5 then match mi_applver m with None => Some (R_cond_missing 1137) | Some _ => None end else None).
  { inv E. rewrite Hc in Hin. destruct Hin. }
  destruct (verify_msg_against_app_impl x m) as [sa ra] eqn:Ev.
  assert (Ha : NoRq sa /\ s_st sa = s_st x /\ ~ In CbOnLogon (s_cbs sa)).
  { unfold verify_msg_against_app_impl in Ev. destruct (rej_of_verdict (mi_valid m)).
    - inv Ev. unfold NoRq. rewrite Hc, Hw. split; [split; reflexivity|]. split; [reflexivity|]. intros [].
    - unfold NoRq. destruct (is_admin (mi_type m)); inv Ev; cbn [log_cb upd_logs s_cbs s_wire s_st]; rewrite Hc, Hw;
        (split; [split; reflexivity|]); (split; [reflexivity|]); intros [C|[]]; discriminate. }
  destruct Ha as (Na & Sa & Oa).
  destruct ra as [ra|].
  { inv E. contradiction. }
  cbv zeta in E.
  match type of E with context [verify_select ?y m false true false] => set (s2 := y) in * end.
  assert (H2 : NoRq s2 /\ s_st s2 = s_st x /\ ~ In CbOnLogon (s_cbs s2)).
  { unfold s2. match goal with |- context [if ?g then _ else _] => destruct g end; [|tauto].
    unfold drop_and_reset, store_reset, drop_queued, NoRq, log_cb.
    cbn [upd_logs upd_store upd_to_send s_cbs s_wire s_st]. destruct Na as (Na1 & Na2).
    split; [split; [exact Na1 | exact Na2]|]. split; [exact Sa|]. intros [C|C]; [discriminate | exact (Oa C)]. }
  destruct H2 as (N2 & S2 & O2).
  destruct (verify_select s2 m false true false) as [s3 r3] eqn:Evs.
  pose proof (verify_select_noapp _ _ _ _ _ _ Evs) as E3. subst s3.
  destruct r3 as [r3|].
  { inv E. contradiction. }
  destruct (verify_select_low_passes _ _ _ Evs) as (_ & n & Hn & _).
  unfold logon_accept in E. cbv zeta in E.
  match type of E with context [log_cb (set_sent_reset ?y false) CbOnLogon] => set (s4 := y) in * end.
  assert (H4 : NoRq s4 /\ s_st s4 = s_st x).
  { unfold s4. destruct (initiator s2); [tauto|].
    match goal with |- context [send_logon_in_reply_to ?y _ _] =>
      assert (Hy : NoRq y /\ s_st y = s_st x) by
        (destruct (c_hb_override (s_cfg x)); [tauto|]; destruct (mi_hbint m); first [tauto | split; [exact N2 | exact S2]]);
      destruct Hy as (Ny & Sy); destruct (send_logon_facts y (reset_flag m) (Some m) Ny) as (F1 & F2)
    end.
    split; [exact F1 | rewrite F2; exact Sy]. }
  destruct H4 as (N4 & S4).
  set (s5 := log_cb (set_sent_reset s4 false) CbOnLogon) in *.
  assert (N5 : NoRq s5) by exact N4.
  assert (S5 : s_st s5 = s_st x) by exact S4.
  unfold check_target_too_high in E. rewrite Hn in E.
  destruct (s_tgt s5 <? n) eqn:Elt; inv E.
  - split; [exact N5|]. split; [exact S5|]. exists n. split; [exact Hn|]. right. split; [reflexivity|].
    apply Z.ltb_lt. exact Elt.
  - split; [exact N5|]. split; [exact S5|]. exists n. split; [exact Hn|]. left. split; [reflexivity|].
    apply Z.ltb_ge in Elt. change (s_tgt (incr_tgt s5)) with (s_tgt s5 + 1). lia.
Qed.

(* sendResendRequest while not logged on: numbered, persisted and queued *)
Lemma resend_request_queued s b e s1 st : send_resend_request s b e = (s1, st) -> is_logged_on (s_st s) = false ->
  rrf (s_cbs s1) = CbToAdmin T_RESENDREQ :: rrf (s_cbs s) /\ s_wire s1 = s_wire s /\ s_tgt s1 = s_tgt s
  /\ s_to_send s1 <> [] /\ exists cur, st = SResend (Some []) cur e.
Proof.
  intros E Hl. unfold send_resend_request in E. cbv zeta in E.
  match type of E with (let '(e1, cur1) := ?X in _) = _ => destruct X as [e9 cur9] end.
  inv E. unfold send, send_in_reply_to. rewrite Hl. cbn [negb]. unfold queue_for_send, prep.
  change (is_admin T_RESENDREQ) with true. change (beq_bytes T_RESENDREQ T_LOGON) with false. cbn [andb]. cbv iota beta zeta.
  unfold enqueue, persist, log_cb.
  destruct (c_disable_persist _);
    cbn [upd_logs upd_store upd_to_send s_cfg s_cbs s_wire s_st s_to_send s_snd s_tgt s_msgs];
    (split; [reflexivity|]); (split; [reflexivity|]); (split; [reflexivity|]);
    (split; [intros C; apply app_eq_nil in C as [_ C]; discriminate | exists cur9; reflexivity]).
Qed.

(* ---------- the step ---------- *)
Lemma logon_gap_step s m n :
  s_st s = SLogon -> s_in_buf s = [] -> mi_seq m = FVal n ->
  let s' := step s (EIncoming m) in
  In CbOnLogon (s_cbs s') -> s_tgt s' <= n ->
  rrf (s_cbs s') = [CbToAdmin T_RESENDREQ] /\ resend_requests (s_wire s') = [] /\ s_to_send s' <> []
  /\ exists st cur, s_st s' = SResend st cur (n - 1).
Proof.
  intros Hst Hbuf Hn s'. unfold s'. clear s'. rewrite (step_logon_state s m Hst).
  set (c := clear_logs s).
  destruct (logon_state_fix_msg_in c m) as [s1 next] eqn:E. intros Hin Hle.
  assert (S1 : Same c s1) by (eapply fr_logon_state; [exact E | apply same_refl]).
  assert (Hb1 : s_in_buf s1 = []) by (destruct S1 as (_ & _ & S1 & _); rewrite S1; exact Hbuf).
  destruct (LogonProofs.set_state_quiet s1 next Hb1) as (_ & _ & Q3). specialize (Q3 Hin).
  destruct (logon_state_after_handle _ _ _ _ E) as [[-> _] | (Hty & s2 & r & Eh & (_ & _ & Q21))]; [destruct Q3|].
  specialize (Q21 Q3).
  destruct (handle_logon_gap c m s2 r Eh eq_refl eq_refl Q21) as ((N1 & N2) & S2 & n' & Hn' & Hr).
  rewrite Hn in Hn'. injection Hn' as Hn'. subst n'.
  change (s_st c) with (s_st s) in S2. rewrite Hst in S2.
  unfold logon_state_fix_msg_in in E. rewrite Hty, Eh in E. cbn [negb] in E.
  destruct Hr as [(-> & Hlt) | (-> & Hlt)].
  - (* the number was consumed: the premise fails *)
    inv E. rewrite (set_state_conn s1 SInSession eq_refl) in Hle. change (s_tgt (upd_st s1 SInSession)) with (s_tgt s1) in Hle. lia.
  - unfold do_target_too_high in E.
    assert (Hl2 : is_logged_on (s_st s2) = false) by (rewrite S2; reflexivity).
    destruct (resend_request_queued _ _ _ _ _ E Hl2) as (R1 & R2 & R3 & R4 & cur & ->).
    rewrite (set_state_conn s1 (SResend (Some []) cur (n - 1)) eq_refl).
    cbn [upd_st s_cbs s_wire s_to_send s_st]. rewrite R1, R2, N1, N2.
    split; [reflexivity|]. split; [reflexivity|]. split; [exact R4|]. exists (Some []), cur. reflexivity.
Qed.

(* ---------- trace level ---------- *)
(* the contribution of one event to c04_logon_gap_check is empty, whatever the state before it *)
Lemma c04_logon_gap_event : forall s e i,
  c04_logon_gap_scan (s_cfg s) i (obs_of s) [(e, obs_of (step s e))] = [].
Proof.
  intros s e i. cbn [c04_logon_gap_scan]. rewrite app_nil_r.
  destruct e as [| | |m| | | | | | |]; try reflexivity.
  set (s' := step s (EIncoming m)).
  match goal with |- (if ?g then _ else _) = [] => destruct g eqn:Ec; [|reflexivity] end.
  destruct (mi_seq m) as [| |n] eqn:Hseq; try reflexivity.
  destruct (ob_tgt (obs_of s') <=? n) eqn:Hle; [|reflexivity].
  apply andb_true_iff in Ec as [Ec E4]. apply andb_true_iff in Ec as [Ec E3]. apply andb_true_iff in Ec as [E1 E2].
  change (ob_st (obs_of s)) with (shape_of (s_st s)) in E4. apply shape_logon in E4.
  change (ob_inbuf (obs_of s)) with (Z.of_nat (length (s_in_buf s))) in E2. apply len0 in E2.
  apply onlogon_observed in E3. apply Z.leb_le in Hle. change (ob_tgt (obs_of s')) with (s_tgt s') in Hle.
  destruct (logon_gap_step s m n E4 E2 Hseq E3 Hle) as (G1 & G2 & G3 & st & cur & G4). fold s' in G1, G2, G3, G4.
  assert (C1 : Nat.eqb (length (filter (fun x => match x with CbToAdmin t => beq_bytes t T_RESENDREQ | _ => false end)
                                       (ob_cbs (obs_of s')))) 1 = true).
  { change (Nat.eqb (length (filter is_rr_cb (rev (s_cbs s')))) 1 = true). rewrite filter_rev, rev_length.
    fold (rrf (s_cbs s')). rewrite G1. reflexivity. }
  assert (C2 : resend_requests (ob_wire (obs_of s')) = []).
  { change (filter (is_type T_RESENDREQ) (rev (s_wire s')) = []). rewrite filter_rev.
    fold (resend_requests (s_wire s')). rewrite G2. reflexivity. }
  assert (C3 : (1 <=? ob_tosend (obs_of s')) = true).
  { change (ob_tosend (obs_of s')) with (Z.of_nat (length (s_to_send s'))). destruct (s_to_send s'); [contradiction|].
    cbn [length]. apply Z.leb_le. lia. }
  assert (C4 : match sh_unwrap (ob_st (obs_of s')) with ShResend _ _ _ re => re =? n - 1 | _ => false end = true).
  { change (ob_st (obs_of s')) with (shape_of (s_st s')). rewrite G4. cbn [shape_of sh_unwrap]. apply Z.eqb_refl. }
  rewrite C1, C2, C3, C4. reflexivity.
Qed.

Lemma c04_logon_gap_scan_cons c i prev e o r :
  c04_logon_gap_scan c i prev ((e, o) :: r) = c04_logon_gap_scan c i prev [(e, o)] ++ c04_logon_gap_scan c (S i) o r.
Proof. cbn [c04_logon_gap_scan]. rewrite app_nil_r. reflexivity. Qed.

Lemma c04_logon_gap_scan_nil : forall es s i,
  c04_logon_gap_scan (s_cfg s) i (obs_of s) (combine es (map obs_of (run_trace es s))) = [].
Proof.
  induction es as [|e r IH]; intros s i; cbn [run_trace map combine]; [reflexivity|].
  rewrite c04_logon_gap_scan_cons, c04_logon_gap_event. cbn [app].
  rewrite <- (step_cfg (s_cfg s) s e eq_refl). apply IH.
Qed.

(* C04 clause 409, trace level: on every trace of the model a Logon accepted in the logon state (processed directly, nothing
   buffered) whose own number is not consumed by the step — it is above the expected number, after any reset the Logon
   caused — creates exactly one ResendRequest in that step, which joins the outbound queue (the session is not yet logged on
   when `send` runs) — the step writes no ResendRequest — and leaves the session recovering with range end n - 1 *)
Theorem c04_logon_gap_never_fails : forall c es,
  c04_logon_gap_check c (combine es (map obs_of (run_trace es (init_sess c)))) = [].
Proof. intros c es. unfold c04_logon_gap_check. apply (c04_logon_gap_scan_nil es (init_sess c)). Qed.

(* ---------- non-vacuity ---------- *)
(* an acceptor (FIX.4.2, chunk size 2) receives Logon 5 while expecting 1: OnLogon, one ToAdmin "2", the step writes the
   Logon reply only, the ResendRequest [1, 2] (first chunk) is queued, state recovering with chunk end 2 and range end 4;
   the premise of clause 409 holds at event 1 and the check reports nothing *)
Definition c04x_logon_gap_trace : list event := [EConnect; EIncoming (c04x_msg T_LOGON 5)].
Lemma c04x_logon_gap_trace_premise_and_reaction :
  map (fun o => (ob_st (snd o), ob_tgt (snd o), has_onlogon (ob_cbs (snd o)), filter is_rr_cb (ob_cbs (snd o)),
                 wire_types (ob_wire (snd o)), ob_tosend (snd o)))
      (c04x_run (c04x_cfg 2) c04x_logon_gap_trace)
  = [(ShLogon, 1, false, [], [], 0);
     (ShResend true [] 2 4, 1, true, [CbToAdmin T_RESENDREQ], [T_LOGON], 1)]
  /\ c04_logon_gap_check (c04x_cfg 2) (c04x_run (c04x_cfg 2) c04x_logon_gap_trace) = [].
Proof. vm_compute. split; reflexivity. Qed.

(* the predicate is not trivially empty: it reports the same trace when the observed state after the Logon is replaced by
   "in session" (what a session that ignored the gap would show) *)
Lemma c04x_logon_gap_check_detects :
  c04_logon_gap_check (c04x_cfg 2)
    (map (fun eo => (fst eo, match ob_st (snd eo) with
                             | ShResend _ _ _ _ =>
                                 {| ob_cbs := ob_cbs (snd eo); ob_wire := ob_wire (snd eo); ob_closed := ob_closed (snd eo);
                                    ob_snd := ob_snd (snd eo); ob_tgt := ob_tgt (snd eo); ob_st := ShInSession;
                                    ob_tosend := ob_tosend (snd eo); ob_stopped := ob_stopped (snd eo); ob_hb := ob_hb (snd eo);
                                    ob_inbuf := ob_inbuf (snd eo) |}
                             | _ => snd eo
                             end))
         (c04x_run (c04x_cfg 2) c04x_logon_gap_trace))
  = [(1%nat, 409)].
Proof. vm_compute. reflexivity. Qed.
