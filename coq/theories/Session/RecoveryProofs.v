(* C04 at trace level: timer events never change the recovery bookkeeping (clause 406 of c04_check). *)
From Coq Require Import String.
From Coq Require Import ZArith List Bool Lia.
From QF Require Import Base.Bytes Session.Types Session.Model Session.Spec Session.C01Proofs Session.FrameProofs Session.TraceProofs.
Import ListNotations.
Open Scope list_scope.
Open Scope Z_scope.

Lemma s_st_set_state : forall s next, s_st (set_state s next) = next.
Proof. intros s next. unfold set_state, set_state_with. destruct (negb (is_connected next)); reflexivity. Qed.

Lemma zlist_beq_refl : forall l, zlist_beq l l = true.
Proof. induction l as [|x r IH]; cbn; [reflexivity|]. rewrite Z.eqb_refl. exact IH. Qed.
Lemma sh_beq_refl : forall a, sh_beq a a = true.
Proof.
  induction a as [| | | | | m k c e | i IH]; cbn; try reflexivity; [|exact IH].
  rewrite eqb_reflx, zlist_beq_refl, !Z.eqb_refl. reflexivity.
Qed.

Lemma timer_next_state : forall st s t s1 next,
  state_timeout st s t = (s1, next) -> sh_is_resend (shape_of st) = true -> is_logged_on next = true ->
  sh_unwrap (shape_of next) = sh_unwrap (shape_of st).
Proof.
  intros st s t s1 next E Hr Hl. unfold state_timeout in E.
  destruct st as [| | | | | a b d | j]; cbn in Hr; try discriminate.
  - unfold in_session_timeout in E. destruct t; inversion E; subst; reflexivity.
  - destruct t; inversion E; subst; try reflexivity. cbn in Hl. discriminate.
Qed.

Lemma timer_keeps_recovery : forall s t,
  sh_is_resend (shape_of (s_st s)) = true -> is_logged_on (s_st (step s (ETimeout t))) = true ->
  sh_unwrap (shape_of (s_st (step s (ETimeout t)))) = sh_unwrap (shape_of (s_st s)).
Proof.
  intros s t Hr Hl. unfold step, step_event in *.
  change (s_st (clear_logs s)) with (s_st s) in *.
  destruct (state_timeout (s_st s) (clear_logs s) t) as [s1 next] eqn:E.
  rewrite s_st_set_state in *. eapply timer_next_state; eassumption.
Qed.

Lemma free_of_flat_map {A} codes (f : A -> list failure) l :
  (forall x, free_of codes (f x) = true) -> free_of codes (flat_map f l) = true.
Proof.
  intros H. induction l as [|x r IH]; cbn [flat_map]; [reflexivity|]. rewrite free_of_app, H, IH. reflexivity.
Qed.

Ltac free_rest :=
  repeat match goal with
         | |- free_of _ (_ ++ _) = true => rewrite free_of_app; apply andb_true_iff; split
         | |- free_of _ (flat_map _ _) = true => apply free_of_flat_map; intros
         | |- free_of _ (match ?x with _ => _ end) = true => destruct x
         | |- free_of _ (if ?x then _ else _) = true => destruct x
         end; try reflexivity.

Lemma c04_scan_timers : forall es s i kept,
  free_of [406] (c04_scan (s_cfg s) i kept (obs_of s) (combine es (map obs_of (run_trace es s)))) = true.
Proof.
  induction es as [|e r IH]; intros s i kept; cbn [run_trace map combine]; [reflexivity|].
  cbn [c04_scan]. rewrite !free_of_app. repeat (apply andb_true_iff; split).
  - free_rest.
  - free_rest.
  - destruct e; try reflexivity.
    change (ob_st (obs_of s)) with (shape_of (s_st s)).
    change (ob_st (obs_of (step s (ETimeout e)))) with (shape_of (s_st (step s (ETimeout e)))).
    rewrite !sh_logged_on_shape.
    destruct (sh_is_resend (shape_of (s_st s))) eqn:Hr; [|reflexivity].
    destruct (is_logged_on (s_st s)); [|reflexivity].
    destruct (is_logged_on (s_st (step s (ETimeout e)))) eqn:Hl; [|reflexivity].
    rewrite (timer_keeps_recovery s e Hr Hl), sh_beq_refl. reflexivity.
  - free_rest.
  - free_rest.
  - free_rest.
  - free_rest.
  - rewrite <- (step_cfg (s_cfg s) s e eq_refl). apply IH.
Qed.

(* C04, trace level: on every trace of the model a timer event leaves the recovery state (kept messages, chunk end, range
   end) exactly as it was while the session stays logged on *)
Lemma c04_timers_never_disturb_recovery : forall c es,
  free_of [406] (c04_check c (combine es (map obs_of (run_trace es (init_sess c))))) = true.
Proof. intros c es. unfold c04_check. apply (c04_scan_timers es (init_sess c)). Qed.
