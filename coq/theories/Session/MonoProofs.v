(* Log monotonicity: within one event the callback log only grows and the "channel closed" mark, once set, stays.
   Same syntax-directed closure as the frame lemmas (FrameProofs.v).  Used for the dead-peer clause of C20 (2004). *)
From Coq Require Import String.
From Coq Require Import ZArith List Bool Lia.
From QF Require Import Base.Bytes Session.Types Session.Model Session.Spec Session.FrameProofs.
Import ListNotations.
Open Scope list_scope.
Open Scope Z_scope.

Definition Mono (s0 s : sess) : Prop :=
  (s_closed s0 = true -> s_closed s = true) /\ (forall c, In c (s_cbs s0) -> In c (s_cbs s)).

Lemma mono_refl s : Mono s s.
Proof. split; auto. Qed.
Lemma mono_trans a b c : Mono a b -> Mono b c -> Mono a c.
Proof. intros [A1 A2] [B1 B2]. split; auto. Qed.

Section Base.
Variable s0 : sess.
Ltac stepm := intros H; eapply mono_trans; [exact H|]; split; [intros C; exact C | intros x0 C; exact C].
Lemma mo_upd_to_send s q : Mono s0 s -> Mono s0 (upd_to_send s q). Proof. stepm. Qed.
Lemma mo_upd_store s a b c : Mono s0 s -> Mono s0 (upd_store s a b c). Proof. stepm. Qed.
Lemma mo_upd_wire s w : Mono s0 s -> Mono s0 (upd_logs s (s_cbs s) w). Proof. stepm. Qed.
Lemma mo_log s c : Mono s0 s -> Mono s0 (log_cb s c).
Proof. intros H. eapply mono_trans; [exact H|]. split; [intros C; exact C | intros x C; right; exact C]. Qed.
Lemma mo_reset s : Mono s0 s -> Mono s0 (store_reset s). Proof. intros H. unfold store_reset. apply mo_log, mo_upd_store, H. Qed.
Lemma mo_incr s : Mono s0 s -> Mono s0 (incr_tgt s). Proof. unfold incr_tgt. apply mo_upd_store. Qed.
Lemma mo_set_tgt s n : Mono s0 s -> Mono s0 (set_tgt s n). Proof. unfold set_tgt. apply mo_upd_store. Qed.
Lemma mo_set_sent_reset s b : Mono s0 s -> Mono s0 (set_sent_reset s b). Proof. stepm. Qed.
Lemma mo_set_hb s h : Mono s0 s -> Mono s0 (set_hb s h). Proof. stepm. Qed.
Lemma mo_persist s m : Mono s0 s -> Mono s0 (persist s m).
Proof. intros H. unfold persist. destruct (c_disable_persist _); apply mo_upd_store, H. Qed.
End Base.

Ltac mo_ext := fail.
Ltac mo_go :=
  lazymatch goal with
  | H : Mono ?a ?b |- Mono ?a ?b => exact H
  | |- Mono ?a ?a => apply mono_refl
  | |- Mono _ (if ?x then _ else _) => destruct x eqn:?; mo_go
  | |- Mono _ (match ?x with _ => _ end) => destruct x eqn:?; mo_go
  | |- Mono _ (upd_to_send _ _) => apply mo_upd_to_send; mo_go
  | |- Mono _ (upd_store _ _ _ _) => apply mo_upd_store; mo_go
  | |- Mono _ (upd_logs ?x (s_cbs ?x) _) => apply mo_upd_wire; mo_go
  | |- Mono _ (log_cb _ _) => apply mo_log; mo_go
  | |- Mono _ (store_reset _) => apply mo_reset; mo_go
  | |- Mono _ (incr_tgt _) => apply mo_incr; mo_go
  | |- Mono _ (set_tgt _ _) => apply mo_set_tgt; mo_go
  | |- Mono _ (set_sent_reset _ _) => apply mo_set_sent_reset; mo_go
  | |- Mono _ (set_hb _ _) => apply mo_set_hb; mo_go
  | |- Mono _ (persist _ _) => apply mo_persist; mo_go
  | _ => mo_ext
  end.
Ltac mo_pairlemma E := brk_in E; inv E; brk_hyps; mo_go.

Section L1.
Variable s0 : sess.
Lemma mo_prep s t hdr body ir ok s1 r : prep s t hdr body ir ok = (s1, r) -> Mono s0 s -> Mono s0 s1.
Proof. intros E H. unfold prep in E. mo_pairlemma E. Qed.
Lemma mo_send_queued s : Mono s0 s -> Mono s0 (send_queued s).
Proof. intros H. unfold send_queued. mo_go. Qed.
Lemma mo_drop_queued s : Mono s0 s -> Mono s0 (drop_queued s).
Proof. intros H. unfold drop_queued. mo_go. Qed.
Lemma mo_enqueue s m : Mono s0 s -> Mono s0 (enqueue s m).
Proof. intros H. unfold enqueue. mo_go. Qed.
End L1.
Ltac mo_ext1 :=
  lazymatch goal with
  | |- Mono _ (send_queued _) => apply mo_send_queued; mo_go
  | |- Mono _ (drop_queued _) => apply mo_drop_queued; mo_go
  | |- Mono _ (enqueue _ _) => apply mo_enqueue; mo_go
  | |- Mono _ ?v => match goal with E : prep _ _ _ _ _ _ = (v, _) |- _ => eapply mo_prep; [exact E | mo_go] end
  end.
Ltac mo_ext ::= mo_ext1.

Section L2.
Variable s0 : sess.
Lemma mo_queue_for_send s t hdr body ir ok : Mono s0 s -> Mono s0 (queue_for_send s t hdr body ir ok).
Proof. intros H. unfold queue_for_send. mo_go. Qed.
Lemma mo_enqueue_bytes s m : Mono s0 s -> Mono s0 (enqueue_bytes_and_send s m).
Proof. intros H. unfold enqueue_bytes_and_send. mo_go. Qed.
Lemma mo_drop_and_send s t body ir : Mono s0 s -> Mono s0 (drop_and_send_in_reply_to s t body ir).
Proof. intros H. unfold drop_and_send_in_reply_to. mo_go. Qed.
Lemma mo_drop_and_reset s : Mono s0 s -> Mono s0 (drop_and_reset s).
Proof. intros H. unfold drop_and_reset. mo_go. Qed.
End L2.
Ltac mo_ext2 :=
  lazymatch goal with
  | |- Mono _ (queue_for_send _ _ _ _ _ _) => apply mo_queue_for_send; mo_go
  | |- Mono _ (enqueue_bytes_and_send _ _) => apply mo_enqueue_bytes; mo_go
  | |- Mono _ (drop_and_send_in_reply_to _ _ _ _) => apply mo_drop_and_send; mo_go
  | |- Mono _ (drop_and_reset _) => apply mo_drop_and_reset; mo_go
  | _ => mo_ext1
  end.
Ltac mo_ext ::= mo_ext2.

Section L3.
Variable s0 : sess.
Lemma mo_send_in_reply_to s t hdr body ir : Mono s0 s -> Mono s0 (send_in_reply_to s t hdr body ir).
Proof. intros H. unfold send_in_reply_to. mo_go. Qed.
Lemma mo_send_logon s b ir : Mono s0 s -> Mono s0 (send_logon_in_reply_to s b ir).
Proof. intros H. unfold send_logon_in_reply_to. mo_go. Qed.
Lemma mo_generate_sequence_reset s b e ir : Mono s0 s -> Mono s0 (generate_sequence_reset s b e ir).
Proof. intros H. unfold generate_sequence_reset. mo_go. Qed.
End L3.
Ltac mo_ext3 :=
  lazymatch goal with
  | |- Mono _ (send_in_reply_to _ _ _ _ _) => apply mo_send_in_reply_to; mo_go
  | |- Mono _ (send_logon_in_reply_to _ _ _) => apply mo_send_logon; mo_go
  | |- Mono _ (generate_sequence_reset _ _ _ _) => apply mo_generate_sequence_reset; mo_go
  | _ => mo_ext2
  end.
Ltac mo_ext ::= mo_ext3.

Section L4.
Variable s0 : sess.
Lemma mo_send s t body : Mono s0 s -> Mono s0 (send s t body).
Proof. intros H. unfold send. mo_go. Qed.
Lemma mo_send_logout s ir : Mono s0 s -> Mono s0 (send_logout_in_reply_to s ir).
Proof. intros H. unfold send_logout_in_reply_to. mo_go. Qed.
Lemma mo_do_reject s m r : Mono s0 s -> Mono s0 (do_reject s m r).
Proof. intros H. unfold do_reject. mo_go. Qed.
Lemma mo_resend_loop : forall keys s ir a b s1 x y, resend_loop keys s ir a b = (s1, x, y) -> Mono s0 s -> Mono s0 s1.
Proof.
  induction keys as [|k r IH]; intros s ir a b s1 x y E H; cbn [resend_loop] in E.
  - inv E. exact H.
  - brk_in E; eapply IH; try exact E; mo_go.
Qed.
End L4.
Ltac mo_ext4 :=
  lazymatch goal with
  | |- Mono _ (send _ _ _) => apply mo_send; mo_go
  | |- Mono _ (send_logout_in_reply_to _ _) => apply mo_send_logout; mo_go
  | |- Mono _ (initiate_logout_in_reply_to _ _) => unfold initiate_logout_in_reply_to; apply mo_send_logout; mo_go
  | |- Mono _ (do_reject _ _ _) => apply mo_do_reject; mo_go
  | |- Mono _ ?v =>
      match goal with
      | E : prep _ _ _ _ _ _ = (v, _) |- _ => eapply mo_prep; [exact E | mo_go]
      | E : resend_loop _ _ _ _ _ = (v, _, _) |- _ => eapply mo_resend_loop; [exact E | mo_go]
      | _ => mo_ext3
      end
  | _ => mo_ext3
  end.
Ltac mo_ext ::= mo_ext4.

Section L5.
Variable s0 : sess.
Lemma mo_send_resend_request s b e s1 st : send_resend_request s b e = (s1, st) -> Mono s0 s -> Mono s0 s1.
Proof. intros E H. unfold send_resend_request in E. mo_pairlemma E. Qed.
Lemma mo_resend_messages s b e ir : Mono s0 s -> Mono s0 (resend_messages s b e ir).
Proof. intros H. unfold resend_messages. mo_go. Qed.
Lemma mo_do_target_too_low s m s1 st : do_target_too_low s m = (s1, st) -> Mono s0 s -> Mono s0 s1.
Proof. intros E H. unfold do_target_too_low in E. mo_pairlemma E. Qed.
Lemma mo_shutdown_with_reason s m b s1 st : shutdown_with_reason s m b = (s1, st) -> Mono s0 s -> Mono s0 s1.
Proof. intros E H. unfold shutdown_with_reason in E. mo_pairlemma E. Qed.
Lemma mo_verify_app s m s1 r : verify_msg_against_app_impl s m = (s1, r) -> Mono s0 s -> Mono s0 s1.
Proof. intros E H. unfold verify_msg_against_app_impl in E. mo_pairlemma E. Qed.
Lemma mo_in_session_timeout s e s1 st : in_session_timeout s e = (s1, st) -> Mono s0 s -> Mono s0 s1.
Proof. intros E H. unfold in_session_timeout in E. mo_pairlemma E. Qed.
End L5.
Ltac mo_ext5 :=
  lazymatch goal with
  | |- Mono _ (resend_messages _ _ _ _) => apply mo_resend_messages; mo_go
  | |- Mono _ ?v =>
      match goal with
      | E : prep _ _ _ _ _ _ = (v, _) |- _ => eapply mo_prep; [exact E | mo_go]
      | E : resend_loop _ _ _ _ _ = (v, _, _) |- _ => eapply mo_resend_loop; [exact E | mo_go]
      | E : send_resend_request _ _ _ = (v, _) |- _ => eapply mo_send_resend_request; [exact E | mo_go]
      | E : do_target_too_high _ _ _ = (v, _) |- _ => unfold do_target_too_high in E; eapply mo_send_resend_request; [exact E | mo_go]
      | E : do_target_too_low _ _ = (v, _) |- _ => eapply mo_do_target_too_low; [exact E | mo_go]
      | E : shutdown_with_reason _ _ _ = (v, _) |- _ => eapply mo_shutdown_with_reason; [exact E | mo_go]
      | E : verify_msg_against_app_impl _ _ = (v, _) |- _ => eapply mo_verify_app; [exact E | mo_go]
      | E : in_session_timeout _ _ = (v, _) |- _ => eapply mo_in_session_timeout; [exact E | mo_go]
      | _ => mo_ext4
      end
  | _ => mo_ext4
  end.
Ltac mo_ext ::= mo_ext5.

Section L6.
Variable s0 : sess.
Lemma mo_verify_select s m a b c s1 r : verify_select s m a b c = (s1, r) -> Mono s0 s -> Mono s0 s1.
Proof. intros E H. unfold verify_select in E. brk_in E; try (inv E; exact H). all: eapply mo_verify_app; eauto. Qed.
Lemma mo_process_reject s m r s1 st : process_reject s m r = (s1, st) -> Mono s0 s -> Mono s0 s1.
Proof. intros E H. unfold process_reject in E. mo_pairlemma E. Qed.
End L6.
Ltac mo_ext6 :=
  lazymatch goal with
  | |- Mono _ ?v =>
      match goal with
      | E : verify_select _ _ _ _ _ = (v, _) |- _ => eapply mo_verify_select; [exact E | mo_go]
      | E : process_reject _ _ _ = (v, _) |- _ => eapply mo_process_reject; [exact E | mo_go]
      | _ => mo_ext5
      end
  | _ => mo_ext5
  end.
Ltac mo_ext ::= mo_ext6.

Section L7.
Variable s0 : sess.
Lemma mo_handle_logon s m s1 r : handle_logon s m = (s1, r) -> Mono s0 s -> Mono s0 s1.
Proof. intros E H. unfold handle_logon in E. mo_pairlemma E. Qed.
Lemma mo_handle_logout s m s1 st : handle_logout s m = (s1, st) -> Mono s0 s -> Mono s0 s1.
Proof. intros E H. unfold handle_logout in E. mo_pairlemma E. Qed.
Lemma mo_handle_test_request s m s1 st : handle_test_request s m = (s1, st) -> Mono s0 s -> Mono s0 s1.
Proof. intros E H. unfold handle_test_request, verify in E. mo_pairlemma E. Qed.
Lemma mo_handle_sequence_reset s m s1 st : handle_sequence_reset s m = (s1, st) -> Mono s0 s -> Mono s0 s1.
Proof. intros E H. unfold handle_sequence_reset in E. mo_pairlemma E. Qed.
Lemma mo_handle_resend_request s m s1 st : handle_resend_request s m = (s1, st) -> Mono s0 s -> Mono s0 s1.
Proof. intros E H. unfold handle_resend_request in E. mo_pairlemma E. Qed.
End L7.
Ltac mo_ext7 :=
  lazymatch goal with
  | |- Mono _ ?v =>
      match goal with
      | E : handle_logon _ _ = (v, _) |- _ => eapply mo_handle_logon; [exact E | mo_go]
      | E : handle_logout _ _ = (v, _) |- _ => eapply mo_handle_logout; [exact E | mo_go]
      | E : handle_test_request _ _ = (v, _) |- _ => eapply mo_handle_test_request; [exact E | mo_go]
      | E : handle_sequence_reset _ _ = (v, _) |- _ => eapply mo_handle_sequence_reset; [exact E | mo_go]
      | E : handle_resend_request _ _ = (v, _) |- _ => eapply mo_handle_resend_request; [exact E | mo_go]
      | _ => mo_ext6
      end
  | _ => mo_ext6
  end.
Ltac mo_ext ::= mo_ext7.

Section L8.
Variable s0 : sess.
Lemma mo_in_session_fix_msg_in s m s1 st : in_session_fix_msg_in s m = (s1, st) -> Mono s0 s -> Mono s0 s1.
Proof. intros E H. unfold in_session_fix_msg_in, verify in E. mo_pairlemma E. Qed.
Lemma mo_logon_state s m s1 st : logon_state_fix_msg_in s m = (s1, st) -> Mono s0 s -> Mono s0 s1.
Proof. intros E H. unfold logon_state_fix_msg_in in E. mo_pairlemma E. Qed.
End L8.

Section L9.
Variable s0 : sess.
Lemma mo_logout_state s m s1 st : logout_state_fix_msg_in s m = (s1, st) -> Mono s0 s -> Mono s0 s1.
Proof.
  intros E H. unfold logout_state_fix_msg_in in E.
  destruct (in_session_fix_msg_in s m) as [s2 st2] eqn:E2.
  assert (Mono s0 s2) by (eapply mo_in_session_fix_msg_in; eassumption). destruct st2; inv E; assumption.
Qed.
Lemma mo_resend_drain : forall fuel s stash next s1 stash1 next1 still,
  resend_drain fuel s stash next = (s1, stash1, next1, still) -> Mono s0 s -> Mono s0 s1.
Proof.
  induction fuel as [|f IH]; intros s stash next s1 stash1 next1 still E H; cbn [resend_drain] in E.
  - inv E. exact H.
  - destruct (stash_take (s_tgt s) stash) as [[m stash']|]; [|inv E; exact H].
    destruct (in_session_fix_msg_in s m) as [s2 n2] eqn:E2.
    assert (H2 : Mono s0 s2) by (eapply mo_in_session_fix_msg_in; eassumption).
    destruct (negb (is_logged_on n2)); [inv E; exact H2|]. eapply IH; eassumption.
Qed.
Lemma mo_resend_state s stash c e m s1 st : resend_state_fix_msg_in s stash c e m = (s1, st) -> Mono s0 s -> Mono s0 s1.
Proof.
  intros E H. unfold resend_state_fix_msg_in in E.
  destruct (in_session_fix_msg_in s m) as [s2 n2] eqn:E2.
  assert (H2 : Mono s0 s2) by (eapply mo_in_session_fix_msg_in; eassumption).
  destruct (negb (is_logged_on n2)); [inv E; exact H2|].
  match type of E with context [resend_drain ?f ?a ?b ?c] => destruct (resend_drain f a b c) as [[[s3 l3] n3] still] eqn:E3 end.
  assert (H3 : Mono s0 s3) by (eapply mo_resend_drain; eassumption).
  destruct (negb still); [inv E; exact H3|].
  brk_in E; inv E; try exact H3; eapply mo_send_resend_request; eassumption.
Qed.
Lemma mo_state_fix_msg_in : forall st s m s1 st1, state_fix_msg_in st s m = (s1, st1) -> Mono s0 s -> Mono s0 s1.
Proof.
  induction st as [| | | | | stash c e | i IH]; intros s m s1 st1 E H; cbn [state_fix_msg_in] in E.
  - inv E; exact H.
  - inv E; exact H.
  - eapply mo_logon_state; eassumption.
  - eapply mo_logout_state; eassumption.
  - eapply mo_in_session_fix_msg_in; eassumption.
  - eapply mo_resend_state; eassumption.
  - eapply IH; eassumption.
Qed.
Lemma mo_state_timeout st s e s1 st1 : state_timeout st s e = (s1, st1) -> Mono s0 s -> Mono s0 s1.
Proof.
  intros E H. unfold state_timeout in E.
  destruct st; try (brk_in E; inv E; exact H).
  - eapply mo_in_session_timeout; eassumption.
  - destruct (in_session_timeout s e) as [s2 st2] eqn:E2.
    assert (Mono s0 s2) by (eapply mo_in_session_timeout; eassumption). brk_in E; inv E; assumption.
Qed.
Lemma mo_state_stop : forall st s s1 st1, state_stop st s = (s1, st1) -> Mono s0 s -> Mono s0 s1.
Proof.
  induction st as [| | | | | stash c e | i IH]; intros s s1 st1 E H; cbn [state_stop] in E; try (inv E; mo_go).
  eapply IH; eassumption.
Qed.
End L9.

(* ---------- the state machine above the handlers ---------- *)
Section Upper.
Variable s0 : sess.
Lemma mo_upd_chan s a b c d : (s_closed s = true -> d = true) -> Mono s0 s -> Mono s0 (upd_chan s a b c d).
Proof. intros Hd [H1 H2]. split; [intros C; apply Hd, H1, C | exact H2]. Qed.
Lemma mo_upd_flags s a b c d : Mono s0 s -> Mono s0 (upd_flags s a b c d).
Proof. intros [H1 H2]. split; assumption. Qed.
Lemma mo_upd_st s x : Mono s0 s -> Mono s0 (upd_st s x).
Proof. intros [H1 H2]. split; assumption. Qed.
End Upper.

Definition MonoF (f : sess -> sess) : Prop := forall s0 s, Mono s0 s -> Mono s0 (f s).

Ltac mo_ext10 :=
  lazymatch goal with
  | |- Mono _ (upd_chan _ _ _ _ true) => apply mo_upd_chan; [reflexivity | mo_go]
  | |- Mono _ (upd_chan ?x _ _ _ (s_closed ?x)) => apply mo_upd_chan; [intros C; exact C | mo_go]
  | |- Mono _ (upd_flags _ _ _ _ _) => apply mo_upd_flags; mo_go
  | |- Mono _ (upd_st _ _) => apply mo_upd_st; mo_go
  | |- Mono _ (?f ?x) => first [match goal with Hdr : MonoF f |- _ => apply Hdr; mo_go end | mo_ext7]
  | _ => mo_ext7
  end.
Ltac mo_ext ::= mo_ext10.

Lemma mo_handle_disconnect dr : MonoF dr -> MonoF (handle_disconnect_state dr).
Proof. intros Hdr s0 s H. unfold handle_disconnect_state. cbv zeta. mo_go. Qed.

Lemma mo_set_state_with dr next : MonoF dr -> MonoF (fun s => set_state_with dr s next).
Proof.
  intros Hdr s0 s H. pose proof (mo_handle_disconnect dr Hdr) as Hhd. unfold set_state_with.
  destruct (negb (is_connected next)); [|mo_go].
  apply mo_upd_st.
  assert (H1 : Mono s0 (if is_connected (s_st s) then handle_disconnect_state dr s else s)).
  { destruct (is_connected (s_st s)); [apply Hhd; exact H | exact H]. }
  destruct (s_pending_stop _); [apply mo_upd_flags|]; exact H1.
Qed.

Lemma mo_incoming_with dr m : MonoF dr -> MonoF (fun s => incoming_with dr s m).
Proof.
  intros Hdr s0 s H. unfold incoming_with.
  destruct (negb (is_connected (s_st s))); [exact H|]. destruct m as [mm|]; [|exact H].
  destruct (state_fix_msg_in (s_st s) s mm) as [s1 next] eqn:E.
  apply (mo_set_state_with dr next Hdr). eapply mo_state_fix_msg_in; eassumption.
Qed.

Lemma mo_drain_message_in : forall fuel, MonoF (drain_message_in fuel).
Proof.
  induction fuel as [|f IH]; intros s0 s H; cbn [drain_message_in]; [exact H|].
  destruct (negb (s_in_open s)); [exact H|]. destruct (s_in_buf s) as [|m r]; [exact H|].
  apply IH. apply (mo_incoming_with (drain_message_in f) m IH). apply mo_upd_chan; [intros C; exact C | exact H].
Qed.

Lemma mo_drain : MonoF drain.
Proof. intros s0 s H. unfold drain. apply mo_drain_message_in. exact H. Qed.

