(* The run loop's two keep-alive timers, as a timed wrapper around the untimed session model (C20, "on the real run loop
   with real timers").  Read off session.go / session_state.go / in_session.go / pending_timeout.go:

     stateTimer (NeedHeartbeat) is a ONE-SHOT timer.  It is armed to fire HeartBtInt later by every successful sendBytes
       (every message written to messageOut) — and, since the repairs e8ed431 and da7518d, also when it fires while a test
       request is pending (pending_timeout.go) or during the logon handshake (logon_state.go).  When it fires the event goes
       to State.Timeout; nothing else arms it.
     peerTimer (PeerTimeout) is a one-shot timer armed to fire 1.2 HeartBtInt later at the end of every Incoming (every
       inbound frame, parsed or not), by handleLogon, and by inSession.Timeout when it sends the TestRequest.

   Time is in milliseconds.  A timed state carries the untimed state, the two deadlines (None = not armed) and the clock.
   `tstep` advances the clock to the time of an external event, firing the deadlines that fall due on the way (earliest
   first; the state timer first on a tie), then applies the event.  `rearm` says whether a NeedHeartbeat ignored in
   pendingTimeout or logonState re-arms the timer: true is the repaired code, false the code before the two repairs. *)
From Coq Require Import ZArith List Bool.
From QF Require Import Base.Bytes Session.Types Session.Model.
Import ListNotations.
Open Scope Z_scope.

Record tsess := {
  ts_s : sess;
  ts_sd : option Z;          (* stateTimer deadline *)
  ts_pd : option Z;          (* peerTimer deadline *)
  ts_now : Z;
  ts_out : list (Z * omsg);  (* everything written so far with its time, newest first *)
  ts_closed : list Z         (* times at which messageOut was closed, newest first *)
}.

Definition hb_ms (s : sess) : Z := 1000 * s_hb s.
Definition peer_ms (s : sess) : Z := 12 * hb_ms s / 10.
Definition is_pending (st : sstate) : bool := match st with SPending _ => true | _ => false end.
Definition is_logon_state (st : sstate) : bool := match st with SLogon => true | _ => false end.
Definition wrote_any (s : sess) : bool := match s_wire s with [] => false | _ => true end.

Inductive tkind := KInbound | KState | KPeer | KOther.

Definition kind_of (e : event) : tkind :=
  match e with
  | EIncoming _ | EDeliver | EGarbage => KInbound
  | ETimeout NeedHeartbeat => KState
  | ETimeout PeerTimeout => KPeer
  | _ => KOther
  end.

(* one event of the untimed model at the current time, with the arming rules *)
Definition apply_at (rearm : bool) (ts : tsess) (e : event) : tsess :=
  let s := ts_s ts in
  let s' := step s e in
  let now := ts_now ts in
  let sd := if wrote_any s' then Some (now + hb_ms s')
            else match kind_of e with
                 | KState => if rearm && (is_pending (s_st s) || is_logon_state (s_st s)) then Some (now + hb_ms s') else None
                 | _ => ts_sd ts
                 end in
  let pd := match kind_of e with
            | KInbound => Some (now + peer_ms s')
            | KPeer => if is_pending (s_st s') && wrote_any s' then Some (now + peer_ms s') else None
            | _ => ts_pd ts
            end in
  {| ts_s := s'; ts_sd := sd; ts_pd := pd; ts_now := now;
     ts_out := map (fun m => (now, m)) (s_wire s') ++ ts_out ts;
     ts_closed := if s_closed s' then now :: ts_closed ts else ts_closed ts |}.

(* the deadline that fires next, if one falls due at or before `upto` *)
Definition next_due (ts : tsess) (upto : Z) : option (Z * tevent) :=
  let sd := match ts_sd ts with Some d => if d <=? upto then Some d else None | None => None end in
  let pd := match ts_pd ts with Some d => if d <=? upto then Some d else None | None => None end in
  match sd, pd with
  | Some a, Some b => if a <=? b then Some (a, NeedHeartbeat) else Some (b, PeerTimeout)
  | Some a, None => Some (a, NeedHeartbeat)
  | None, Some b => Some (b, PeerTimeout)
  | None, None => None
  end.

Definition set_now (ts : tsess) (t : Z) : tsess :=
  {| ts_s := ts_s ts; ts_sd := ts_sd ts; ts_pd := ts_pd ts; ts_now := t; ts_out := ts_out ts; ts_closed := ts_closed ts |}.

(* a timer that fires is disarmed before its event is handled (it is one-shot) *)
Definition disarm (ts : tsess) (k : tevent) : tsess :=
  {| ts_s := ts_s ts; ts_sd := match k with NeedHeartbeat => None | _ => ts_sd ts end;
     ts_pd := match k with PeerTimeout => None | _ => ts_pd ts end;
     ts_now := ts_now ts; ts_out := ts_out ts; ts_closed := ts_closed ts |}.

Fixpoint fire_until (rearm : bool) (fuel : nat) (ts : tsess) (upto : Z) : tsess :=
  match fuel with
  | O => set_now ts upto
  | S f =>
      match next_due ts upto with
      | None => set_now ts (Z.max (ts_now ts) upto)
      | Some (d, k) => fire_until rearm f (apply_at rearm (disarm (set_now ts (Z.max (ts_now ts) d)) k) (ETimeout k)) upto
      end
  end.

(* an external event (anything but a timer expiry) at absolute time t *)
Definition tstep (rearm : bool) (fuel : nat) (ts : tsess) (t : Z) (e : event) : tsess :=
  apply_at rearm (fire_until rearm fuel ts t) e.

Definition tinit (c : cfg) : tsess :=
  {| ts_s := init_sess c; ts_sd := None; ts_pd := None; ts_now := 0; ts_out := []; ts_closed := [] |}.

Fixpoint trun (rearm : bool) (fuel : nat) (ts : tsess) (es : list (Z * event)) : tsess :=
  match es with
  | [] => ts
  | (t, e) :: r => trun rearm fuel (tstep rearm fuel ts t e) r
  end.

(* what the keep-alive property needs of the timers: while the session is logged on and can write, the heartbeat timer is
   armed (otherwise "nothing sent for the heartbeat interval -> a Heartbeat" cannot happen) *)
Definition armed (ts : tsess) : bool :=
  negb (is_logged_on (s_st (ts_s ts)) && s_out_open (ts_s ts)) || match ts_sd ts with Some _ => true | None => false end.

(* the outputs as (time, MsgType), oldest first *)
Definition tout (ts : tsess) : list (Z * bytes) := map (fun x => (fst x, o_type (snd x))) (rev (ts_out ts)).
