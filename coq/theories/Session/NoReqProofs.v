(* C04, clause 402: the ToAdmin callback for a ResendRequest (CbToAdmin "2") is logged only by sendResendRequest.
   `Nq s0 s`: the session state is the one of s0 and the ResendRequest callbacks logged so far are those of s0.
   Same syntax-directed closure as the frame lemmas (FrameProofs.v); every send carries the side condition "the message
   type is not ResendRequest".  While the session is recovering (`recovering (s_st s0)`), processReject's too-high branch
   sends nothing, so inSession.FixMsgIn and the stash drain of resendState.FixMsgIn log no such callback. *)
From Coq Require Import String.
From Coq Require Import ZArith List Bool Lia.
From QF Require Import Base.Bytes Session.Types Session.Model Session.Spec Session.FrameProofs.
Import ListNotations.
Open Scope list_scope.
Open Scope Z_scope.

Definition is_rr_cb (x : cb) : bool := match x with CbToAdmin t => beq_bytes t T_RESENDREQ | _ => false end.
Definition rrf (l : list cb) : list cb := filter is_rr_cb l.
Definition recovering (st : sstate) : Prop := exists a b c, unwrap_pending st = SResend a b c.

Definition Nq (s0 s : sess) : Prop := s_st s = s_st s0 /\ rrf (s_cbs s) = rrf (s_cbs s0).

Lemma nq_refl s : Nq s s.
Proof. split; reflexivity. Qed.
Lemma nq_trans a b c : Nq a b -> Nq b c -> Nq a c.
Proof. intros [A1 A2] [B1 B2]. split; congruence. Qed.

Ltac nq_side := first [reflexivity | assumption | (cbn [is_rr_cb]; assumption)].

Section Base.
Variable s0 : sess.
Ltac stepn := intros H; eapply nq_trans; [exact H|]; split; reflexivity.
Lemma nq_upd_to_send s q : Nq s0 s -> Nq s0 (upd_to_send s q). Proof. stepn. Qed.
Lemma nq_upd_store s a b c : Nq s0 s -> Nq s0 (upd_store s a b c). Proof. stepn. Qed.
Lemma nq_upd_wire s w : Nq s0 s -> Nq s0 (upd_logs s (s_cbs s) w). Proof. stepn. Qed.
Lemma nq_log s c : is_rr_cb c = false -> Nq s0 s -> Nq s0 (log_cb s c).
Proof.
  intros Hc H. eapply nq_trans; [exact H|]. split; [reflexivity|].
  unfold log_cb, rrf. cbn [s_cbs upd_logs filter]. rewrite Hc. reflexivity.
Qed.
Lemma nq_reset s : Nq s0 s -> Nq s0 (store_reset s).
Proof. intros H. unfold store_reset. apply nq_log; [reflexivity|]. apply nq_upd_store, H. Qed.
Lemma nq_incr s : Nq s0 s -> Nq s0 (incr_tgt s). Proof. unfold incr_tgt. apply nq_upd_store. Qed.
Lemma nq_set_tgt s n : Nq s0 s -> Nq s0 (set_tgt s n). Proof. unfold set_tgt. apply nq_upd_store. Qed.
Lemma nq_set_sent_reset s b : Nq s0 s -> Nq s0 (set_sent_reset s b). Proof. stepn. Qed.
Lemma nq_set_hb s h : Nq s0 s -> Nq s0 (set_hb s h). Proof. stepn. Qed.
Lemma nq_persist s m : Nq s0 s -> Nq s0 (persist s m).
Proof. intros H. unfold persist. destruct (c_disable_persist _); apply nq_upd_store, H. Qed.
End Base.

Ltac nq_ext := fail.
Ltac nq_go :=
  lazymatch goal with
  | H : Nq ?a ?b |- Nq ?a ?b => exact H
  | |- Nq ?a ?a => apply nq_refl
  | |- Nq _ (if ?x then _ else _) => destruct x eqn:?; nq_go
  | |- Nq _ (match ?x with _ => _ end) => destruct x eqn:?; nq_go
  | |- Nq _ (upd_to_send _ _) => apply nq_upd_to_send; nq_go
  | |- Nq _ (upd_store _ _ _ _) => apply nq_upd_store; nq_go
  | |- Nq _ (upd_logs ?x (s_cbs ?x) _) => apply nq_upd_wire; nq_go
  | |- Nq _ (log_cb _ _) => apply nq_log; [nq_side | nq_go]
  | |- Nq _ (store_reset _) => apply nq_reset; nq_go
  | |- Nq _ (incr_tgt _) => apply nq_incr; nq_go
  | |- Nq _ (set_tgt _ _) => apply nq_set_tgt; nq_go
  | |- Nq _ (set_sent_reset _ _) => apply nq_set_sent_reset; nq_go
  | |- Nq _ (set_hb _ _) => apply nq_set_hb; nq_go
  | |- Nq _ (persist _ _) => apply nq_persist; nq_go
  | _ => nq_ext
  end.
Ltac nq_pairlemma E := brk_in E; inv E; brk_hyps; nq_go.

Section L1.
Variable s0 : sess.
Lemma nq_prep s t hdr body ir ok s1 r : beq_bytes t T_RESENDREQ = false ->
  prep s t hdr body ir ok = (s1, r) -> Nq s0 s -> Nq s0 s1.
Proof. intros Ht E H. unfold prep in E. nq_pairlemma E. Qed.
Lemma nq_send_queued s : Nq s0 s -> Nq s0 (send_queued s).
Proof. intros H. unfold send_queued. nq_go. Qed.
Lemma nq_drop_queued s : Nq s0 s -> Nq s0 (drop_queued s).
Proof. intros H. unfold drop_queued. nq_go. Qed.
Lemma nq_enqueue s m : Nq s0 s -> Nq s0 (enqueue s m).
Proof. intros H. unfold enqueue. nq_go. Qed.
End L1.
Ltac nq_ext1 :=
  lazymatch goal with
  | |- Nq _ (send_queued _) => apply nq_send_queued; nq_go
  | |- Nq _ (drop_queued _) => apply nq_drop_queued; nq_go
  | |- Nq _ (enqueue _ _) => apply nq_enqueue; nq_go
  | |- Nq _ ?v => match goal with E : prep _ _ _ _ _ _ = (v, _) |- _ => eapply nq_prep; [ | exact E | nq_go]; nq_side end
  end.
Ltac nq_ext ::= nq_ext1.

Section L2.
Variable s0 : sess.
Lemma nq_queue_for_send s t hdr body ir ok : beq_bytes t T_RESENDREQ = false -> Nq s0 s -> Nq s0 (queue_for_send s t hdr body ir ok).
Proof. intros Ht H. unfold queue_for_send. nq_go. Qed.
Lemma nq_enqueue_bytes s m : Nq s0 s -> Nq s0 (enqueue_bytes_and_send s m).
Proof. intros H. unfold enqueue_bytes_and_send. nq_go. Qed.
Lemma nq_drop_and_send s t body ir : beq_bytes t T_RESENDREQ = false -> Nq s0 s -> Nq s0 (drop_and_send_in_reply_to s t body ir).
Proof. intros Ht H. unfold drop_and_send_in_reply_to. nq_go. Qed.
Lemma nq_drop_and_reset s : Nq s0 s -> Nq s0 (drop_and_reset s).
Proof. intros H. unfold drop_and_reset. nq_go. Qed.
End L2.
Ltac nq_ext2 :=
  lazymatch goal with
  | |- Nq _ (queue_for_send _ _ _ _ _ _) => apply nq_queue_for_send; [nq_side | nq_go]
  | |- Nq _ (enqueue_bytes_and_send _ _) => apply nq_enqueue_bytes; nq_go
  | |- Nq _ (drop_and_send_in_reply_to _ _ _ _) => apply nq_drop_and_send; [nq_side | nq_go]
  | |- Nq _ (drop_and_reset _) => apply nq_drop_and_reset; nq_go
  | _ => nq_ext1
  end.
Ltac nq_ext ::= nq_ext2.

Section L3.
Variable s0 : sess.
Lemma nq_send_in_reply_to s t hdr body ir : beq_bytes t T_RESENDREQ = false -> Nq s0 s -> Nq s0 (send_in_reply_to s t hdr body ir).
Proof. intros Ht H. unfold send_in_reply_to. nq_go. Qed.
Lemma nq_send_logon s b ir : Nq s0 s -> Nq s0 (send_logon_in_reply_to s b ir).
Proof. intros H. unfold send_logon_in_reply_to. nq_go. Qed.
Lemma nq_generate_sequence_reset s b e ir : Nq s0 s -> Nq s0 (generate_sequence_reset s b e ir).
Proof. intros H. unfold generate_sequence_reset. nq_go. Qed.
End L3.
Ltac nq_ext3 :=
  lazymatch goal with
  | |- Nq _ (send_in_reply_to _ _ _ _ _) => apply nq_send_in_reply_to; [nq_side | nq_go]
  | |- Nq _ (send_logon_in_reply_to _ _ _) => apply nq_send_logon; nq_go
  | |- Nq _ (generate_sequence_reset _ _ _ _) => apply nq_generate_sequence_reset; nq_go
  | _ => nq_ext2
  end.
Ltac nq_ext ::= nq_ext3.

Section L4.
Variable s0 : sess.
Lemma nq_send s t body : beq_bytes t T_RESENDREQ = false -> Nq s0 s -> Nq s0 (send s t body).
Proof. intros Ht H. unfold send. nq_go. Qed.
Lemma nq_send_logout s ir : Nq s0 s -> Nq s0 (send_logout_in_reply_to s ir).
Proof. intros H. unfold send_logout_in_reply_to. nq_go. Qed.
Lemma nq_do_reject s m r : Nq s0 s -> Nq s0 (do_reject s m r).
Proof. intros H. unfold do_reject. nq_go. Qed.
Lemma nq_resend_loop : forall keys s ir a b s1 x y, resend_loop keys s ir a b = (s1, x, y) -> Nq s0 s -> Nq s0 s1.
Proof.
  induction keys as [|k r IH]; intros s ir a b s1 x y E H; cbn [resend_loop] in E.
  - inv E. exact H.
  - brk_in E; eapply IH; try exact E; nq_go.
Qed.
End L4.
Ltac nq_ext4 :=
  lazymatch goal with
  | |- Nq _ (send _ _ _) => apply nq_send; [nq_side | nq_go]
  | |- Nq _ (send_logout_in_reply_to _ _) => apply nq_send_logout; nq_go
  | |- Nq _ (initiate_logout_in_reply_to _ _) => unfold initiate_logout_in_reply_to; apply nq_send_logout; nq_go
  | |- Nq _ (do_reject _ _ _) => apply nq_do_reject; nq_go
  | |- Nq _ ?v =>
      match goal with
      | E : prep _ _ _ _ _ _ = (v, _) |- _ => eapply nq_prep; [ | exact E | nq_go]; nq_side
      | E : resend_loop _ _ _ _ _ = (v, _, _) |- _ => eapply nq_resend_loop; [exact E | nq_go]
      | _ => nq_ext3
      end
  | _ => nq_ext3
  end.
Ltac nq_ext ::= nq_ext4.

Section L5.
Variable s0 : sess.
Lemma nq_resend_messages s b e ir : Nq s0 s -> Nq s0 (resend_messages s b e ir).
Proof. intros H. unfold resend_messages. nq_go. Qed.
Lemma nq_do_target_too_low s m s1 st : do_target_too_low s m = (s1, st) -> Nq s0 s -> Nq s0 s1.
Proof. intros E H. unfold do_target_too_low in E. nq_pairlemma E. Qed.
Lemma nq_verify_app s m s1 r : verify_msg_against_app_impl s m = (s1, r) -> Nq s0 s -> Nq s0 s1.
Proof. intros E H. unfold verify_msg_against_app_impl in E. nq_pairlemma E. Qed.
Lemma nq_in_session_timeout s e s1 st : in_session_timeout s e = (s1, st) -> Nq s0 s -> Nq s0 s1.
Proof. intros E H. unfold in_session_timeout in E. nq_pairlemma E. Qed.
End L5.
Ltac nq_ext5 :=
  lazymatch goal with
  | |- Nq _ (resend_messages _ _ _ _) => apply nq_resend_messages; nq_go
  | |- Nq _ ?v =>
      match goal with
      | E : prep _ _ _ _ _ _ = (v, _) |- _ => eapply nq_prep; [ | exact E | nq_go]; nq_side
      | E : resend_loop _ _ _ _ _ = (v, _, _) |- _ => eapply nq_resend_loop; [exact E | nq_go]
      | E : do_target_too_low _ _ = (v, _) |- _ => eapply nq_do_target_too_low; [exact E | nq_go]
      | E : verify_msg_against_app_impl _ _ = (v, _) |- _ => eapply nq_verify_app; [exact E | nq_go]
      | E : in_session_timeout _ _ = (v, _) |- _ => eapply nq_in_session_timeout; [exact E | nq_go]
      | _ => nq_ext4
      end
  | _ => nq_ext4
  end.
Ltac nq_ext ::= nq_ext5.

Section L6a.
Variable s0 : sess.
Lemma nq_verify_select s m a b c s1 r : verify_select s m a b c = (s1, r) -> Nq s0 s -> Nq s0 s1.
Proof. intros E H. unfold verify_select in E. brk_in E; try (inv E; exact H). all: eapply nq_verify_app; eauto. Qed.
End L6a.

Section L6.
Variable s0 : sess.
Hypothesis Hrec : recovering (s_st s0).
(* while recovering, processReject sends no ResendRequest: the too-high branch only keeps the message *)
Lemma nq_process_reject s m r s1 st : process_reject s m r = (s1, st) -> Nq s0 s -> Nq s0 s1.
Proof using Hrec.
  intros E H. destruct r as [recv ex|recv ex| | |reason tag bus].
  - destruct Hrec as (a & b & c & Hu). destruct H as [Hst Hcb]. cbn [process_reject] in E.
    rewrite Hst, Hu in E. inv E. split; assumption.
  - cbn [process_reject] in E. eapply nq_do_target_too_low; eassumption.
  - cbn [process_reject] in E. inv E. nq_go.
  - cbn [process_reject] in E. inv E. nq_go.
  - cbn [process_reject] in E. nq_pairlemma E.
Qed.
End L6.
Ltac nq_ext6 :=
  lazymatch goal with
  | |- Nq _ ?v =>
      match goal with
      | E : verify_select _ _ _ _ _ = (v, _) |- _ => eapply nq_verify_select; [exact E | nq_go]
      | E : process_reject _ _ _ = (v, _) |- _ => eapply nq_process_reject; [eassumption | exact E | nq_go]
      | _ => nq_ext5
      end
  | _ => nq_ext5
  end.
Ltac nq_ext ::= nq_ext6.

Section L7a.
Variable s0 : sess.
Lemma nq_handle_logon s m s1 r : handle_logon s m = (s1, r) -> Nq s0 s -> Nq s0 s1.
Proof. intros E H. unfold handle_logon in E. nq_pairlemma E. Qed.
End L7a.

Section L7.
Variable s0 : sess.
Hypothesis Hrec : recovering (s_st s0).
Lemma nq_handle_logout s m s1 st : handle_logout s m = (s1, st) -> Nq s0 s -> Nq s0 s1.
Proof using Hrec. intros E H. unfold handle_logout in E. nq_pairlemma E. Qed.
Lemma nq_handle_test_request s m s1 st : handle_test_request s m = (s1, st) -> Nq s0 s -> Nq s0 s1.
Proof using Hrec. intros E H. unfold handle_test_request, verify in E. nq_pairlemma E. Qed.
Lemma nq_handle_sequence_reset s m s1 st : handle_sequence_reset s m = (s1, st) -> Nq s0 s -> Nq s0 s1.
Proof using Hrec. intros E H. unfold handle_sequence_reset in E. nq_pairlemma E. Qed.
Lemma nq_handle_resend_request s m s1 st : handle_resend_request s m = (s1, st) -> Nq s0 s -> Nq s0 s1.
Proof using Hrec. intros E H. unfold handle_resend_request in E. nq_pairlemma E. Qed.
End L7.
Ltac nq_ext7 :=
  lazymatch goal with
  | |- Nq _ ?v =>
      match goal with
      | E : handle_logon _ _ = (v, _) |- _ => eapply nq_handle_logon; [exact E | nq_go]
      | E : handle_logout _ _ = (v, _) |- _ => eapply nq_handle_logout; [eassumption | exact E | nq_go]
      | E : handle_test_request _ _ = (v, _) |- _ => eapply nq_handle_test_request; [eassumption | exact E | nq_go]
      | E : handle_sequence_reset _ _ = (v, _) |- _ => eapply nq_handle_sequence_reset; [eassumption | exact E | nq_go]
      | E : handle_resend_request _ _ = (v, _) |- _ => eapply nq_handle_resend_request; [eassumption | exact E | nq_go]
      | _ => nq_ext6
      end
  | _ => nq_ext6
  end.
Ltac nq_ext ::= nq_ext7.

Section L8.
Variable s0 : sess.
Hypothesis Hrec : recovering (s_st s0).
Lemma nq_in_session_fix_msg_in s m s1 st : in_session_fix_msg_in s m = (s1, st) -> Nq s0 s -> Nq s0 s1.
Proof using Hrec. intros E H. unfold in_session_fix_msg_in, verify in E. nq_pairlemma E. Qed.

Lemma nq_resend_drain : forall fuel s stash next s1 stash1 next1 still,
  resend_drain fuel s stash next = (s1, stash1, next1, still) -> Nq s0 s -> Nq s0 s1.
Proof using Hrec.
  induction fuel as [|f IH]; intros s stash next s1 stash1 next1 still E H; cbn [resend_drain] in E.
  - inv E. exact H.
  - destruct (stash_take (s_tgt s) stash) as [[m stash']|]; [|inv E; exact H].
    destruct (in_session_fix_msg_in s m) as [s2 n2] eqn:E2.
    assert (H2 : Nq s0 s2) by (eapply nq_in_session_fix_msg_in; eassumption).
    destruct (negb (is_logged_on n2)); [inv E; exact H2|]. eapply IH; eassumption.
Qed.
End L8.

(* timers, Stop: no ResendRequest in any state *)
Section L9.
Variable s0 : sess.
Lemma nq_state_timeout st s e s1 st1 : state_timeout st s e = (s1, st1) -> Nq s0 s -> Nq s0 s1.
Proof.
  intros E H. unfold state_timeout in E.
  destruct st; try (brk_in E; inv E; exact H).
  - eapply nq_in_session_timeout; eassumption.
  - destruct (in_session_timeout s e) as [s2 st2] eqn:E2.
    assert (Nq s0 s2) by (eapply nq_in_session_timeout; eassumption). brk_in E; inv E; assumption.
Qed.
Lemma nq_state_stop : forall st s s1 st1, state_stop st s = (s1, st1) -> Nq s0 s -> Nq s0 s1.
Proof.
  induction st as [| | | | | stash c e | i IH]; intros s s1 st1 E H; cbn [state_stop] in E; try (inv E; nq_go).
  eapply IH; eassumption.
Qed.
End L9.
