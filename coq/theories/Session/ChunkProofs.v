(* C04, clause 402 of c04_check at trace level: while the session is recovering, a ResendRequest is created only as the
   next chunk — chunk size configured, current chunk end non-zero and <= the expected number <= range end, exactly one
   request, beginning at the expected number.
   Ingredients: the closure NoReqProofs.v (only sendResendRequest logs ToAdmin "2"; while recovering it is reached only
   from the two chunk exits of resendState.FixMsgIn), a new reachable-state invariant CI (a non-zero chunk end implies a
   configured chunk size), the recovery invariant RI (chunk end within the range) and Boundary (outbound channel open).
   Two classes of events are outside the statement, both exhibited as `_refuted` examples below:
   an application that itself sends a ResendRequest through SendToTarget (EAppSend "2"), and events that start with
   frames buffered and end disconnected (handleDisconnectState first handles what is buffered — since the repair of F17 in
   the state the session is still in, channel open — so that several chunk requests can be created in the one event).
   c04_402_only_at_unquiet_events: on EVERY trace clause 402 can fail only at such events. *)
From Coq Require Import String.
From Coq Require Import ZArith List Bool Lia.
From QF Require Import Base.Bytes Session.Types Session.Model Session.Spec Session.C01Proofs Session.LocalProofs
  Session.FrameProofs Session.TraceProofs Session.RecoveryProofs Session.ReactionProofs Session.TgProofs
  Session.ResendInvProofs Session.NoReqProofs.
Import ListNotations.
Open Scope list_scope.
Open Scope Z_scope.

(* ---------- the invariant CI: a non-zero current chunk end implies a configured chunk size ---------- *)
Definition CIst (c : cfg) (st : sstate) : Prop :=
  match unwrap_pending st with SResend _ cur _ => cur <> 0 -> c_chunk c <> 0 | _ => True end.
Definition CI (s : sess) : Prop := CIst (s_cfg s) (s_st s).

Lemma CIst_not_resend c st : not_resend_st st -> CIst c st.
Proof. intros H. unfold CIst. destruct (unwrap_pending st) eqn:E; try exact I. exfalso. eapply H. exact E. Qed.

Lemma same_cfg s s1 : Same s s1 -> s_cfg s1 = s_cfg s.
Proof. intros (_ & _ & _ & H & _). exact H. Qed.
Lemma same_st s s1 : Same s s1 -> s_st s1 = s_st s.
Proof. intros (_ & _ & _ & _ & _ & _ & _ & H). exact H. Qed.
Lemma same_ci s s1 : Same s s1 -> CI s -> CI s1.
Proof. intros H Hc. unfold CI. rewrite (same_cfg _ _ H), (same_st _ _ H). exact Hc. Qed.

Lemma srr_chunk s b e s1 st : send_resend_request s b e = (s1, st) ->
  exists c, st = SResend (Some []) c e /\ (c = 0 \/ c_chunk (s_cfg s) <> 0).
Proof.
  intros H. unfold send_resend_request in H. cbv zeta in H.
  destruct (Z.eqb_spec (c_chunk (s_cfg s)) 0) as [Hc|Hc].
  - rewrite Z.ltb_irrefl in H. inversion H; subst. eexists; split; [reflexivity | left; reflexivity].
  - match type of H with context [if ?x <? e then _ else _] => destruct (x <? e) end;
      inversion H; subst; eexists; split; try reflexivity; auto.
Qed.

Lemma too_high_ci : forall s m recv ex s1 next,
  CI s -> process_reject s m (RTooHigh recv ex) = (s1, next) -> CIst (s_cfg s) next.
Proof.
  intros s m recv ex s1 next Hci E. cbn [process_reject] in E. unfold CI, CIst in Hci.
  destruct (unwrap_pending (s_st s)) as [| | | | | st c e | j] eqn:Eu.
  6: { inversion E; subst. unfold CIst. cbn [unwrap_pending]. exact Hci. }
  all: unfold do_target_too_high in E;
    destruct (send_resend_request s ex (recv - 1)) as [x st0] eqn:Er;
    destruct (srr_chunk _ _ _ _ _ Er) as (c0 & -> & Hc);
    inversion E; subst; unfold CIst; cbn [unwrap_pending]; intros Hn; destruct Hc as [Hc|Hc]; [contradiction | exact Hc].
Qed.

Lemma in_session_ci : forall s m s1 next,
  CI s -> in_session_fix_msg_in s m = (s1, next) -> CIst (s_cfg s) next.
Proof.
  intros s m s1 next Hci E. destruct (in_session_char s m s1 next E) as [H|(recv & Hs & Hlt & Ep)].
  - apply CIst_not_resend; exact H.
  - eapply too_high_ci; eassumption.
Qed.

Lemma drain_ci : forall fuel s l next s2 l' next2 still,
  CI s -> CIst (s_cfg s) next -> resend_drain fuel s l next = (s2, l', next2, still) -> CIst (s_cfg s) next2.
Proof.
  induction fuel as [|f IH]; intros s l next s2 l' next2 still Hci Hn E; cbn [resend_drain] in E.
  - inversion E; subst. exact Hn.
  - destruct (stash_take (s_tgt s) l) as [[m l1]|]; [|inversion E; subst; exact Hn].
    destruct (in_session_fix_msg_in s m) as [s1 next1] eqn:Ei.
    pose proof (in_session_ci s m s1 next1 Hci Ei) as H1.
    pose proof (fr_in_session_fix_msg_in s s m s1 next1 Ei (same_refl s)) as Hs.
    destruct (negb (is_logged_on next1)); [inversion E; subst; exact H1|].
    rewrite <- (same_cfg _ _ Hs). eapply IH; [eapply same_ci; eassumption | rewrite (same_cfg _ _ Hs); exact H1 | exact E].
Qed.

Lemma resend_state_ci : forall s stash ce re m s' next',
  unwrap_pending (s_st s) = SResend stash ce re -> CI s ->
  resend_state_fix_msg_in s stash ce re m = (s', next') -> CIst (s_cfg s) next'.
Proof.
  intros s stash ce re m s' next' Hu Hci E. unfold resend_state_fix_msg_in in E.
  destruct (in_session_fix_msg_in s m) as [s1 next] eqn:Ei.
  pose proof (in_session_ci s m s1 next Hci Ei) as R1.
  pose proof (fr_in_session_fix_msg_in s s m s1 next Ei (same_refl s)) as Hs1.
  destruct (negb (is_logged_on next)); [inversion E; subst; exact R1|].
  match type of E with context [resend_drain ?f ?a ?b ?c] => destruct (resend_drain f a b c) as [[[s2 l'] next2] still] eqn:Ed end.
  assert (R2 : CIst (s_cfg s) next2).
  { rewrite <- (same_cfg _ _ Hs1). eapply drain_ci; [eapply same_ci; eassumption | rewrite (same_cfg _ _ Hs1); exact R1 | exact Ed]. }
  pose proof (fr_resend_drain s _ _ _ _ _ _ _ _ Ed Hs1) as Hs2.
  destruct (negb still); [inversion E; subst; exact R2|].
  assert (Hold : forall x, CIst (s_cfg s) (SResend x ce re)).
  { intros x. unfold CI, CIst in Hci. rewrite Hu in Hci. unfold CIst. cbn [unwrap_pending]. exact Hci. }
  assert (Hreq : forall x s3 st3, send_resend_request s2 (s_tgt s2) re = (s3, st3) ->
            CIst (s_cfg s) (snd (match st3 with SResend _ c e => (s3, SResend x c e) | other => (s3, other) end))).
  { intros x s3 st3 Er. destruct (srr_chunk _ _ _ _ _ Er) as (c3 & -> & Hc3). cbn [snd].
    unfold CIst. cbn [unwrap_pending]. intros Hn. destruct Hc3 as [Hc3|Hc3]; [contradiction|].
    rewrite <- (same_cfg _ _ Hs2). exact Hc3. }
  destruct (negb (ce =? 0) && (ce <? s_tgt s2) && (s_tgt s2 <=? re)).
  { destruct (send_resend_request s2 (s_tgt s2) re) as [s3 st3] eqn:Er.
    pose proof (Hreq (match shared_stash stash next with Some _ => Some l' | None => None end) s3 st3 eq_refl) as Hr.
    destruct st3; inversion E; subst; exact Hr. }
  assert (Hfinal : forall g : bool,
    (if g && negb (ce =? 0) && (ce =? s_tgt s2)
     then match send_resend_request s2 (s_tgt s2) re with (s3, SResend _ c e) => (s3, SResend (match shared_stash stash next with Some _ => Some l' | None => None end) c e) | (s3, other) => (s3, other) end
     else if s_tgt s2 <=? re then (s2, SResend (match shared_stash stash next with Some _ => Some l' | None => None end) ce re) else (s2, next2)) = (s', next') ->
    CIst (s_cfg s) next').
  { intros g Eg. destruct (g && negb (ce =? 0) && (ce =? s_tgt s2)).
    - destruct (send_resend_request s2 (s_tgt s2) re) as [s3 st3] eqn:Er.
      pose proof (Hreq (match shared_stash stash next with Some _ => Some l' | None => None end) s3 st3 eq_refl) as Hr.
      destruct st3; inversion Eg; subst; exact Hr.
    - destruct (s_tgt s2 <=? re); inversion Eg; subst; [apply Hold | exact R2]. }
  destruct (mi_gapfill m) as [| |g]; [apply (Hfinal false); exact E | inversion E; subst; apply CIst_not_resend, ns_SLatent | ].
  apply (Hfinal (match FVal g with FVal true => true | _ => false end)). exact E.
Qed.

Lemma state_fix_ci : forall st s m s1 next,
  unwrap_pending st = unwrap_pending (s_st s) -> CI s ->
  state_fix_msg_in st s m = (s1, next) -> CIst (s_cfg s) next.
Proof.
  induction st as [| | | | | stash c e | j IH]; intros s m s1 next Hu Hci E; cbn [state_fix_msg_in] in E.
  - inversion E; subst. apply CIst_not_resend, ns_SLatent.
  - inversion E; subst. apply CIst_not_resend. intros a b c H; discriminate H.
  - unfold logon_state_fix_msg_in in E.
    destruct (negb (beq_bytes (mi_type m) T_LOGON)); [inversion E; subst; apply CIst_not_resend, ns_SLatent|].
    destruct (handle_logon s m) as [x [r|]] eqn:Eh; [|inversion E; subst; apply CIst_not_resend, ns_SInSession].
    pose proof (fr_handle_logon s s m x _ Eh (same_refl s)) as Hs.
    destruct r as [recv ex| | | |]; try (unfold shutdown_with_reason in E; inversion E; subst; apply CIst_not_resend, ns_SLatent).
    unfold do_target_too_high in E. destruct (srr_chunk _ _ _ _ _ E) as (c0 & -> & Hc).
    unfold CIst. cbn [unwrap_pending]. intros Hn. destruct Hc as [Hc|Hc]; [contradiction|].
    rewrite <- (same_cfg _ _ Hs). exact Hc.
  - unfold logout_state_fix_msg_in in E. destruct (in_session_fix_msg_in s m) as [x nx].
    destruct nx; inversion E; subst; apply CIst_not_resend; first [apply ns_SLatent | apply ns_SLogout].
  - apply (in_session_ci s m s1); assumption.
  - cbn [unwrap_pending] in Hu. apply (resend_state_ci s stash c e m s1); [symmetry; exact Hu | assumption..].
  - apply (IH s m s1); [exact Hu | assumption..].
Qed.

Lemma incoming_with_ci : forall dr s m, CI s -> CIst (s_cfg s) (s_st (incoming_with dr s m)).
Proof.
  intros dr s m Hci. unfold incoming_with.
  destruct (negb (is_connected (s_st s))); [exact Hci|]. destruct m as [mm|]; [|exact Hci].
  destruct (state_fix_msg_in (s_st s) s mm) as [s1 next] eqn:E.
  rewrite s_st_set_state_with. eapply state_fix_ci; [reflexivity | exact Hci | exact E].
Qed.

Lemma state_timeout_ci : forall s t s1 next, CI s -> state_timeout (s_st s) s t = (s1, next) -> CIst (s_cfg s) next.
Proof.
  intros s t s1 next Hci E. unfold CI in Hci. unfold state_timeout in E.
  destruct (s_st s) as [| | | | | a b d | j] eqn:Es.
  - inversion E; subst. apply CIst_not_resend, ns_SLatent.
  - inversion E; subst. apply CIst_not_resend. intros x y z H; discriminate H.
  - destruct t; inversion E; subst; apply CIst_not_resend; first [apply ns_SLatent | apply ns_SLogon].
  - destruct t; inversion E; subst; apply CIst_not_resend; first [apply ns_SLatent | apply ns_SLogout].
  - unfold in_session_timeout in E. destruct t; inversion E; subst; apply CIst_not_resend;
      first [apply ns_SInSession | intros x y z H; discriminate H].
  - unfold in_session_timeout in E. destruct t; inversion E; subst; exact Hci.
  - destruct t; inversion E; subst; try exact Hci. apply CIst_not_resend, ns_SLatent.
Qed.

Lemma step_st_ci : forall s e, CI s -> CIst (s_cfg s) (s_st (step s e)).
Proof.
  intros s e Hci0. unfold step.
  assert (Hci : CI (clear_logs s)) by exact Hci0. change (s_cfg s) with (s_cfg (clear_logs s)).
  set (c := clear_logs s) in *. clearbody c. clear Hci0.
  destruct e; cbn [step_event].
  - unfold connect. destruct (is_connected (s_st c)); [exact Hci|].
    destruct (negb (initiator _)); unfold set_state; rewrite s_st_set_state_with; apply CIst_not_resend, ns_SLogon.
  - destruct (_ && _); exact Hci.
  - destruct (negb (s_in_open c)); [exact Hci|]. destruct (s_in_buf c) as [|m r]; [exact Hci|].
    unfold incoming.
    exact (incoming_with_ci drain (upd_chan c (s_out_open c) (s_in_open c) r (s_closed c)) m Hci).
  - apply incoming_with_ci; exact Hci.
  - apply incoming_with_ci; exact Hci.
  - destruct (is_connected (s_st c)); [|exact Hci].
    unfold set_state. rewrite s_st_set_state_with. apply CIst_not_resend, ns_SLatent.
  - destruct (state_timeout (s_st c) c e) as [s1 next] eqn:E. unfold set_state. rewrite s_st_set_state_with.
    eapply state_timeout_ci; eassumption.
  - assert (H : Same c (queue_for_send c t [] body None ok)) by fr_go. rewrite (same_st _ _ H). exact Hci.
  - destruct (is_logged_on (s_st c)); [unfold send_queued; destruct (s_out_open c)|]; exact Hci.
  - match goal with |- context [state_stop ?a ?b] => destruct (state_stop a b) as [s1 next] eqn:E end.
    unfold set_state. rewrite s_st_set_state_with. apply CIst_not_resend. eapply state_stop_not_resend; exact E.
  - destruct (is_connected (s_st c)); [|exact Hci].
    assert (H : Same c (send_logon_in_reply_to c true None)) by fr_go. rewrite (same_st _ _ H). exact Hci.
Qed.

Lemma step_ci : forall s e, CI s -> CI (step s e).
Proof. intros s e H. unfold CI. rewrite (step_cfg (s_cfg s) s e eq_refl). apply step_st_ci. exact H. Qed.

Lemma init_ci c : CI (init_sess c).
Proof. unfold CI, CIst, init_sess. cbn. exact I. Qed.

(* ---------- what sendResendRequest does while logged on with the outbound channel open ---------- *)
Lemma recovering_logged_on st : recovering st -> is_logged_on st = true.
Proof. intros (a & b & c & H). induction st; cbn in *; try discriminate; auto. Qed.

Lemma send_rr_facts s body : is_logged_on (s_st s) = true -> s_out_open s = true ->
  s_cbs (send s T_RESENDREQ body) = CbToAdmin T_RESENDREQ :: s_cbs s /\ s_tgt (send s T_RESENDREQ body) = s_tgt s
  /\ exists rr rest, s_wire (send s T_RESENDREQ body) = rr :: rest /\ o_type rr = T_RESENDREQ /\ o_body rr = body.
Proof.
  intros Hl Ho.
  unfold send, send_in_reply_to. rewrite Hl. cbn [negb]. unfold prep.
  change (is_admin T_RESENDREQ) with true. change (beq_bytes T_RESENDREQ T_LOGON) with false. cbn [andb].
  unfold send_queued, enqueue, persist.
  destruct (c_disable_persist (s_cfg (log_cb s (CbToAdmin T_RESENDREQ))));
    cbn [s_out_open upd_to_send upd_store log_cb upd_logs s_cbs s_tgt s_wire s_to_send]; rewrite Ho;
    cbn [s_out_open upd_to_send upd_store log_cb upd_logs s_cbs s_tgt s_wire s_to_send];
    (split; [reflexivity|]; split; [reflexivity|]); rewrite rev_app_distr; cbn [rev app];
    eexists; eexists; (split; [reflexivity|]); split; reflexivity.
Qed.

Lemma srr_facts s b e s1 st : is_logged_on (s_st s) = true -> s_out_open s = true ->
  send_resend_request s b e = (s1, st) ->
  s_cbs s1 = CbToAdmin T_RESENDREQ :: s_cbs s /\ s_tgt s1 = s_tgt s
  /\ exists rr rest, s_wire s1 = rr :: rest /\ o_type rr = T_RESENDREQ /\ field_of 7 (o_body rr) = Some (itoa b).
Proof.
  intros Hl Ho H. unfold send_resend_request in H. cbv zeta in H.
  match type of H with context [if ?x <? e then _ else _] => destruct (x <? e) end;
  cbv beta iota in H; inversion H; subst; clear H;
  match goal with |- context [send s T_RESENDREQ ?bd] =>
    destruct (send_rr_facts s bd Hl Ho) as (F1 & F2 & rr & rest & F3 & F4 & F5) end;
  (split; [exact F1|]; split; [exact F2|]; exists rr, rest; split; [exact F3|]; split; [exact F4|]; rewrite F5; reflexivity).
Qed.

(* ---------- resendState.FixMsgIn: a request is created only at the two chunk exits ---------- *)
Definition req_ok (s s' : sess) (ce re : Z) : Prop :=
  rrf (s_cbs s') = []
  \/ (rrf (s_cbs s') = [CbToAdmin T_RESENDREQ] /\ c_chunk (s_cfg s) <> 0 /\ ce <> 0 /\ ce <= s_tgt s' /\ s_tgt s' <= re
      /\ exists rr rest, s_wire s' = rr :: rest /\ o_type rr = T_RESENDREQ /\ field_of 7 (o_body rr) = Some (itoa (s_tgt s'))).

Lemma rs_402 : forall s stash ce re m s' next',
  unwrap_pending (s_st s) = SResend stash ce re -> RI s -> CI s -> s_out_open s = true -> rrf (s_cbs s) = [] ->
  resend_state_fix_msg_in s stash ce re m = (s', next') ->
  rrf (s_cbs s') = [] \/ (is_connected next' = true /\ req_ok s s' ce re).
Proof.
  intros s stash ce re m s' next' Hu Hri Hci Ho Hcb E.
  assert (Hrec : recovering (s_st s)) by (exists stash, ce, re; exact Hu).
  unfold resend_state_fix_msg_in in E.
  destruct (in_session_fix_msg_in s m) as [s1 next] eqn:Ei.
  pose proof (nq_in_session_fix_msg_in s Hrec s m s1 next Ei (nq_refl s)) as Hn1.
  pose proof (fr_in_session_fix_msg_in s s m s1 next Ei (same_refl s)) as Hs1.
  destruct (negb (is_logged_on next)); [inversion E; subst; left; rewrite (proj2 Hn1); exact Hcb|].
  match type of E with context [resend_drain ?f ?a ?b ?c] => destruct (resend_drain f a b c) as [[[s2 l'] next2] still] eqn:Ed end.
  pose proof (nq_resend_drain s Hrec _ _ _ _ _ _ _ _ Ed Hn1) as Hn2.
  pose proof (fr_resend_drain s _ _ _ _ _ _ _ _ Ed Hs1) as Hs2.
  assert (Hcb2 : rrf (s_cbs s2) = []) by (rewrite (proj2 Hn2); exact Hcb).
  destruct (negb still); [inversion E; subst; left; exact Hcb2|].
  assert (Hl2 : is_logged_on (s_st s2) = true) by (rewrite (same_st _ _ Hs2); apply recovering_logged_on; exact Hrec).
  assert (Ho2 : s_out_open s2 = true) by (destruct Hs2 as (A & _); rewrite A; exact Ho).
  unfold RI, RIst in Hri. rewrite Hu in Hri. destruct Hri as (_ & Hce & _).
  unfold CI, CIst in Hci. rewrite Hu in Hci.
  assert (Hreq : forall x s3 st3, send_resend_request s2 (s_tgt s2) re = (s3, st3) ->
            ce <> 0 -> ce <= s_tgt s2 -> s_tgt s2 <= re ->
            match st3 with SResend _ c e => (s3, SResend x c e) | other => (s3, other) end = (s', next') ->
            is_connected next' = true /\ req_ok s s' ce re).
  { intros x s3 st3 Er Hne Hle1 Hle2 Eq.
    destruct (srr_chunk _ _ _ _ _ Er) as (c3 & -> & _). inversion Eq; subst. split; [reflexivity|].
    destruct (srr_facts _ _ _ _ _ Hl2 Ho2 Er) as (F1 & F2 & rr & rest & F3 & F4 & F5).
    right. split; [unfold rrf in *; rewrite F1; cbn [filter is_rr_cb]; change (beq_bytes T_RESENDREQ T_RESENDREQ) with true; rewrite Hcb2; reflexivity|].
    split; [apply Hci; exact Hne|]. split; [exact Hne|]. rewrite F2. split; [exact Hle1|]. split; [exact Hle2|].
    exists rr, rest. auto. }
  destruct (negb (ce =? 0) && (ce <? s_tgt s2) && (s_tgt s2 <=? re)) eqn:Ec.
  { apply andb_true_iff in Ec as [Ec Hle]. apply andb_true_iff in Ec as [Hne Hlt].
    apply Z.leb_le in Hle. apply Z.ltb_lt in Hlt. apply negb_true_iff in Hne. apply Z.eqb_neq in Hne.
    destruct (send_resend_request s2 (s_tgt s2) re) as [s3 st3] eqn:Er.
    right. eapply Hreq; [reflexivity | exact Hne | lia | exact Hle | exact E]. }
  assert (Hfinal : forall g : bool,
    (if g && negb (ce =? 0) && (ce =? s_tgt s2)
     then match send_resend_request s2 (s_tgt s2) re with (s3, SResend _ c e) => (s3, SResend (match shared_stash stash next with Some _ => Some l' | None => None end) c e) | (s3, other) => (s3, other) end
     else if s_tgt s2 <=? re then (s2, SResend (match shared_stash stash next with Some _ => Some l' | None => None end) ce re) else (s2, next2)) = (s', next') ->
    rrf (s_cbs s') = [] \/ (is_connected next' = true /\ req_ok s s' ce re)).
  { intros g Eg. destruct (g && negb (ce =? 0) && (ce =? s_tgt s2)) eqn:Eg1.
    - apply andb_true_iff in Eg1 as [Eg1 Heq]. apply andb_true_iff in Eg1 as [_ Hne].
      apply Z.eqb_eq in Heq. apply negb_true_iff in Hne. apply Z.eqb_neq in Hne.
      destruct (send_resend_request s2 (s_tgt s2) re) as [s3 st3] eqn:Er.
      right. eapply Hreq; [reflexivity | exact Hne | lia | destruct Hce; lia |].
      destruct st3; exact Eg.
    - destruct (s_tgt s2 <=? re); inversion Eg; subst; left; exact Hcb2. }
  destruct (mi_gapfill m) as [| |g]; [apply (Hfinal false); exact E | inversion E; subst; left; exact Hcb2 | ].
  apply (Hfinal (match FVal g with FVal true => true | _ => false end)). exact E.
Qed.

(* ---------- the state machine above the handler ---------- *)
Lemma state_fix_recovering : forall st s m a b c, unwrap_pending st = SResend a b c ->
  state_fix_msg_in st s m = resend_state_fix_msg_in s a b c m.
Proof.
  induction st as [| | | | | x y z | j IH]; intros s m a b c H; cbn [unwrap_pending] in H; try discriminate.
  - inversion H; subst. reflexivity.
  - cbn [state_fix_msg_in]. apply IH. exact H.
Qed.

Lemma drain_empty x : s_in_buf x = [] -> drain x = x.
Proof. intros H. unfold drain. rewrite H. cbn [length drain_message_in]. destruct (negb (s_in_open x)); [reflexivity|]. rewrite H. reflexivity. Qed.

Lemma hd_quiet s : s_in_buf s = [] -> rrf (s_cbs (handle_disconnect_state drain s)) = rrf (s_cbs s).
Proof.
  intros H. unfold handle_disconnect_state. cbv zeta.
  repeat match goal with |- context [if ?b then _ else _] => destruct b end;
    rewrite drain_empty by (cbn; exact H); cbn; reflexivity.
Qed.

Lemma set_state_quiet s next : (is_connected next = true \/ s_in_buf s = []) ->
  rrf (s_cbs (set_state s next)) = rrf (s_cbs s).
Proof.
  intros H. unfold set_state, set_state_with. destruct (is_connected next) eqn:En; cbn [negb]; [reflexivity|].
  destruct H as [H|H]; [discriminate|].
  destruct (is_connected (s_st s)).
  - pose proof (hd_quiet s H) as Hq. destruct (s_pending_stop _); exact Hq.
  - destruct (s_pending_stop s); reflexivity.
Qed.

Lemma recovering_connected st : recovering st -> is_connected st = true.
Proof. intros H. apply logged_on_connected, recovering_logged_on, H. Qed.

Lemma incoming_req : forall c m stash ce re,
  unwrap_pending (s_st c) = SResend stash ce re -> RI c -> CI c -> s_out_open c = true -> rrf (s_cbs c) = [] ->
  (s_in_buf c = [] \/ is_connected (s_st (incoming c (Some m))) = true) ->
  req_ok c (incoming c (Some m)) ce re.
Proof.
  intros c m stash ce re Hu Hri Hci Ho Hcb Hq. unfold incoming, incoming_with in *.
  assert (Hrec : recovering (s_st c)) by (exists stash, ce, re; exact Hu).
  rewrite (recovering_connected _ Hrec) in *. cbn [negb] in *.
  rewrite (state_fix_recovering _ c m _ _ _ Hu) in *.
  destruct (resend_state_fix_msg_in c stash ce re m) as [s1 next] eqn:E.
  pose proof (fr_resend_state c _ _ _ _ _ _ _ E (same_refl c)) as Hs.
  assert (Hq' : is_connected next = true \/ s_in_buf s1 = []).
  { destruct Hq as [Hq|Hq]; [right; destruct Hs as (_ & _ & A & _); rewrite A; exact Hq | left].
    rewrite s_st_set_state_with in Hq. exact Hq. }
  fold (set_state s1 next).
  destruct (rs_402 _ _ _ _ _ _ _ Hu Hri Hci Ho Hcb E) as [Hl|[Hc Hr]].
  - left. rewrite (set_state_quiet s1 next Hq'). exact Hl.
  - rewrite (set_state_connected s1 next Hc). exact Hr.
Qed.

Definition c04_quiet (s : sess) (e : event) : Prop :=
  (s_in_buf s = [] \/ is_connected (s_st (step s e)) = true)
  /\ match e with EAppSend t _ _ => beq_bytes t T_RESENDREQ = false | _ => True end.

Lemma step_req : forall s e stash ce re,
  Boundary s -> RI s -> CI s -> unwrap_pending (s_st s) = SResend stash ce re -> c04_quiet s e ->
  req_ok s (step s e) ce re.
Proof.
  intros s e stash ce re Hb0 Hri0 Hci0 Hu0 [Hq Ht]. unfold step in *.
  assert (Hb : Boundary (clear_logs s)) by exact Hb0. assert (Hri : RI (clear_logs s)) by exact Hri0.
  assert (Hci : CI (clear_logs s)) by exact Hci0.
  assert (Hu : unwrap_pending (s_st (clear_logs s)) = SResend stash ce re) by exact Hu0.
  assert (Hcb : rrf (s_cbs (clear_logs s)) = []) by reflexivity.
  change (s_in_buf s) with (s_in_buf (clear_logs s)) in Hq.
  unfold req_ok. change (s_cfg s) with (s_cfg (clear_logs s)). fold (req_ok (clear_logs s) (step_event (clear_logs s) e) ce re).
  set (c := clear_logs s) in *. clearbody c. clear Hb0 Hri0 Hci0 Hu0.
  assert (Hrec : recovering (s_st c)) by (exists stash, ce, re; exact Hu).
  pose proof (recovering_connected _ Hrec) as Hcon.
  assert (Ho : s_out_open c = true) by (destruct Hb as [B1 _]; exact (proj1 (B1 Hcon))).
  assert (Hnq : forall x, Nq c x -> req_ok c x ce re) by (intros x [_ Hx]; left; rewrite Hx; exact Hcb).
  destruct e; cbn [step_event] in *.
  - unfold connect. rewrite Hcon. left; exact Hcb.
  - destruct (_ && _); left; exact Hcb.
  - destruct (negb (s_in_open c)); [left; exact Hcb|]. destruct (s_in_buf c) as [|m r] eqn:Eb; [left; exact Hcb|].
    destruct Hq as [Hq|Hq]; [discriminate|].
    destruct m as [mm|].
    + set (c1 := upd_chan c (s_out_open c) (s_in_open c) r (s_closed c)) in *.
      change (req_ok c1 (incoming c1 (Some mm)) ce re).
      apply (incoming_req c1 mm stash ce re); [exact Hu | exact Hri | exact Hci | exact Ho | exact Hcb | right; exact Hq].
    + unfold incoming, incoming_with. cbn [s_st upd_chan]. rewrite Hcon. cbn [negb]. left; exact Hcb.
  - apply (incoming_req c m stash ce re); assumption.
  - unfold incoming, incoming_with. rewrite Hcon. cbn [negb]. left; exact Hcb.
  - rewrite Hcon in *. left. rewrite set_state_quiet; [exact Hcb|].
    destruct Hq as [Hq|Hq]; [right; exact Hq | left]. rewrite s_st_set_state in Hq. exact Hq.
  - destruct (state_timeout (s_st c) c e) as [s1 next] eqn:E.
    pose proof (nq_state_timeout c _ _ _ _ _ E (nq_refl c)) as Hn.
    pose proof (fr_state_timeout c _ _ _ _ _ E (same_refl c)) as Hs.
    left. rewrite set_state_quiet; [rewrite (proj2 Hn); exact Hcb|].
    destruct Hq as [Hq|Hq]; [right; destruct Hs as (_ & _ & A & _); rewrite A; exact Hq | left].
    rewrite s_st_set_state in Hq. exact Hq.
  - apply Hnq. apply nq_queue_for_send; [exact Ht | apply nq_refl].
  - apply Hnq. nq_go.
  - match goal with |- context [state_stop ?a ?b] => destruct (state_stop a b) as [s1 next] eqn:E end.
    match type of E with state_stop _ ?c0 = _ =>
      pose proof (nq_state_stop c0 _ _ _ _ E (nq_refl c0)) as Hn;
      pose proof (fr_state_stop c0 _ _ _ _ E (same_refl c0)) as Hs end.
    left. rewrite set_state_quiet; [rewrite (proj2 Hn); exact Hcb|].
    destruct Hq as [Hq|Hq]; [right; destruct Hs as (_ & _ & A & _); rewrite A; exact Hq | left].
    rewrite s_st_set_state in Hq. exact Hq.
  - rewrite Hcon. apply Hnq. nq_go.
Qed.

(* ---------- clause 402 for one event ---------- *)
Lemma filter_rev {A} (f : A -> bool) (l : list A) : filter f (rev l) = rev (filter f l).
Proof.
  induction l as [|x r IH]; [reflexivity|]. cbn [rev filter]. rewrite filter_app, IH. cbn [filter].
  destruct (f x); cbn [rev]; [reflexivity | rewrite app_nil_r; reflexivity].
Qed.

Definition c04_no_app_rr (e : event) : Prop :=
  match e with EAppSend t _ _ => beq_bytes t T_RESENDREQ = false | _ => True end.

Lemma sh_connected_is st : sh_connected (shape_of st) = is_connected st.
Proof. induction st; cbn; auto. Qed.

(* the gate of clause 402 (nothing buffered before the event, or still connected after it) is the drain half of c04_quiet *)
Lemma clause_402 : forall i s e, Boundary s -> RI s -> CI s -> c04_no_app_rr e ->
  let c := s_cfg s in let prev := obs_of s in let o := obs_of (step s e) in
  free_of [402]
    (if sh_is_resend (ob_st prev) && sh_logged_on (ob_st prev) && ((ob_inbuf prev =? 0) || sh_connected (ob_st o)) then
       match sh_unwrap (ob_st prev) with
       | ShResend _ _ cur rend =>
           let created := length (filter (fun x => match x with CbToAdmin t => beq_bytes t T_RESENDREQ | _ => false end) (ob_cbs o)) in
           if Nat.eqb created 0 then []
           else if negb (c_chunk c =? 0) && negb (cur =? 0) && (cur <=? ob_tgt o) && (ob_tgt o <=? rend) && Nat.eqb created 1
                   && match rev (resend_requests (ob_wire o)) with
                      | rq :: _ => opt_beq (field_of 7 (o_body rq)) (itoa (ob_tgt o))
                      | [] => true
                      end
           then [] else [(i, 402)]
       | _ => []
       end
     else []) = true.
Proof.
  intros i s e Hb Hri Hci Hna c prev o. unfold c, prev, o. clear c prev o.
  change (ob_st (obs_of s)) with (shape_of (s_st s)).
  change (ob_st (obs_of (step s e))) with (shape_of (s_st (step s e))).
  change (ob_inbuf (obs_of s)) with (Z.of_nat (length (s_in_buf s))).
  destruct (sh_is_resend (shape_of (s_st s)) && sh_logged_on (shape_of (s_st s))
            && ((Z.of_nat (length (s_in_buf s)) =? 0) || sh_connected (shape_of (s_st (step s e))))) eqn:Hgate; [|reflexivity].
  apply andb_true_iff in Hgate as [_ Hgate].
  assert (Hq : c04_quiet s e).
  { split; [|exact Hna]. apply orb_true_iff in Hgate as [Hg|Hg]; [left; apply len0; exact Hg | right; rewrite <- sh_connected_is; exact Hg]. }
  rewrite shape_unwrap.
  destruct (unwrap_pending (s_st s)) as [| | | | | stash ce re | j] eqn:Eu; try reflexivity.
  cbn [shape_of]. cbv zeta.
  change (ob_cbs (obs_of (step s e))) with (rev (s_cbs (step s e))).
  change (ob_tgt (obs_of (step s e))) with (s_tgt (step s e)).
  change (ob_wire (obs_of (step s e))) with (rev (s_wire (step s e))).
  change (filter (fun x => match x with CbToAdmin t => beq_bytes t T_RESENDREQ | _ => false end) (rev (s_cbs (step s e))))
    with (rrf (rev (s_cbs (step s e)))).
  unfold rrf at 1 2. rewrite filter_rev, rev_length. fold (rrf (s_cbs (step s e))).
  unfold resend_requests. rewrite filter_rev, rev_involutive.
  destruct (step_req s e stash ce re Hb Hri Hci Eu Hq) as [H0|(H1 & Hch & Hne & Hle1 & Hle2 & rr & rest & W1 & W2 & W3)].
  - rewrite H0. reflexivity.
  - rewrite H1. cbn [length Nat.eqb].
    replace (c_chunk (s_cfg s) =? 0) with false by (symmetry; apply Z.eqb_neq; exact Hch).
    replace (ce =? 0) with false by (symmetry; apply Z.eqb_neq; exact Hne).
    replace (ce <=? s_tgt (step s e)) with true by (symmetry; apply Z.leb_le; exact Hle1).
    replace (s_tgt (step s e) <=? re) with true by (symmetry; apply Z.leb_le; exact Hle2).
    rewrite W1. cbn [filter]. unfold is_type at 1. rewrite W2, beq_bytes_refl, W3. cbn [opt_beq negb andb].
    rewrite beq_bytes_refl. reflexivity.
Qed.

(* ---------- trace level ---------- *)
Lemma c04_scan_402 : forall es s i kept, Boundary s -> RI s -> LB s -> CI s -> Forall c04_no_app_rr es ->
  free_of [402] (c04_scan (s_cfg s) i kept (obs_of s) (combine es (map obs_of (run_trace es s)))) = true.
Proof.
  induction es as [|e r IH]; intros s i kept Hb Hri Hlb Hci Hq; cbn [run_trace map combine]; [reflexivity|].
  inversion Hq as [|? ? Hq1 Hqr]; subst.
  cbn [c04_scan]. rewrite !free_of_app. repeat (apply andb_true_iff; split).
  - free_rest.
  - apply (clause_402 i s e); assumption.
  - free_rest.
  - free_rest.
  - free_rest.
  - free_rest.
  - free_rest.
  - rewrite <- (step_cfg (s_cfg s) s e eq_refl).
    apply IH; [apply step_boundary | apply step_ri | apply step_lb | apply step_ci | ]; assumption.
Qed.

Theorem c04_only_chunk_requests_while_recovering : forall c es,
  Forall c04_no_app_rr es ->
  free_of [402] (c04_check c (combine es (map obs_of (run_trace es (init_sess c))))) = true.
Proof.
  intros c es Hq. unfold c04_check.
  apply (c04_scan_402 es (init_sess c)); [apply init_boundary | apply init_ri | apply init_lb | apply init_ci | exact Hq].
Qed.

(* ---------- while nothing is buffered, events other than EArrive leave the inbound buffer empty (used by other files) ---------- *)
Definition c04_plain_event (e : event) : Prop :=
  match e with EArrive _ => False | EAppSend t _ _ => beq_bytes t T_RESENDREQ = false | _ => True end.

Lemma set_state_buf s next : s_in_buf s = [] -> s_in_buf (set_state s next) = [].
Proof.
  intros H. unfold set_state, set_state_with. destruct (negb (is_connected next)); [|exact H].
  destruct (is_connected (s_st s)).
  - rewrite (hd_no_buffer s H). destruct (s_pending_stop _); reflexivity.
  - destruct (s_pending_stop s); exact H.
Qed.

Lemma same_buf s s1 : Same s s1 -> s_in_buf s1 = s_in_buf s.
Proof. intros (_ & _ & H & _). exact H. Qed.

Lemma incoming_buf s m : s_in_buf s = [] -> s_in_buf (incoming s m) = [].
Proof.
  intros H. unfold incoming, incoming_with. destruct (negb (is_connected (s_st s))); [exact H|].
  destruct m as [mm|]; [|exact H].
  destruct (state_fix_msg_in (s_st s) s mm) as [s1 next] eqn:E.
  apply set_state_buf. rewrite (same_buf _ _ (fr_state_fix_msg_in s _ _ _ _ _ E (same_refl s))). exact H.
Qed.

Lemma step_buf_empty s e : s_in_buf s = [] -> c04_plain_event e -> s_in_buf (step s e) = [].
Proof.
  intros H0 Hp. unfold step. assert (H : s_in_buf (clear_logs s) = []) by exact H0.
  set (c := clear_logs s) in *. clearbody c. clear H0.
  destruct e; cbn [step_event]; cbn [c04_plain_event] in Hp.
  - unfold connect. destruct (is_connected (s_st c)); [exact H|].
    match goal with |- context [set_sent_reset ?x false] => set (c0 := set_sent_reset x false) end.
    assert (H1 : s_in_buf c0 = []) by reflexivity.
    assert (Hfin : forall x, Same c0 x -> s_in_buf (set_state x SLogon) = []).
    { intros x Hx. apply set_state_buf. rewrite (same_buf _ _ Hx). exact H1. }
    destruct (negb (initiator c0)); apply Hfin; fr_go.
  - contradiction.
  - destruct (negb (s_in_open c)); [exact H|]. rewrite H. exact H.
  - apply incoming_buf; exact H.
  - apply incoming_buf; exact H.
  - destruct (is_connected (s_st c)); [apply set_state_buf|]; exact H.
  - destruct (state_timeout (s_st c) c e) as [s1 next] eqn:E. apply set_state_buf.
    rewrite (same_buf _ _ (fr_state_timeout c _ _ _ _ _ E (same_refl c))). exact H.
  - assert (Hs : Same c (queue_for_send c t [] body None ok)) by fr_go. rewrite (same_buf _ _ Hs). exact H.
  - assert (Hs : Same c (if is_logged_on (s_st c) then send_queued c else drop_queued c)) by fr_go.
    rewrite (same_buf _ _ Hs). exact H.
  - match goal with |- context [state_stop ?a ?b] => destruct (state_stop a b) as [s1 next] eqn:E end.
    apply set_state_buf.
    match type of E with state_stop _ ?c0 = _ => rewrite (same_buf _ _ (fr_state_stop c0 _ _ _ _ E (same_refl c0))) end.
    exact H.
  - assert (Hs : Same c (if is_connected (s_st c) then send_logon_in_reply_to c true None else c)) by fr_go.
    rewrite (same_buf _ _ Hs). exact H.
Qed.

(* ---------- concrete instances: the hypotheses are satisfiable, and they are needed ---------- *)
Definition c04x_cfg (chunk : Z) : cfg :=
  {| c_role := Acceptor; c_begin := 2; c_sender := B "S"; c_target := B "T"; c_reset_on_logon := false;
     c_reset_on_logout := false; c_reset_on_disconnect := false; c_refresh_on_logon := false; c_chunk := chunk; c_hb := 30;
     c_hb_override := false; c_skip_latency := true; c_max_latency := 120; c_disable_persist := false;
     c_last_seq_processed := false; c_in_cap := 8%nat; c_appl_ver := [] |}.
Definition c04x_msg (t : bytes) (n : Z) : minput :=
  {| mi_type := t; mi_begin := B "FIX.4.2"; mi_sender := Some (B "T"); mi_target := Some (B "S"); mi_seq := FVal n;
     mi_possdup := FAbsent; mi_stime := FVal 0; mi_otime := FAbsent; mi_gapfill := FAbsent; mi_newseq := FAbsent;
     mi_beginseq := FAbsent; mi_endseq := FAbsent; mi_reset := FAbsent; mi_hbint := FVal 30; mi_testreq := None;
     mi_applver := None; mi_route := []; mi_body := []; mi_app := VAccept; mi_valid := VAccept; mi_refuse := [] |}.

(* Logon, then application message 10 (gap 2..9, chunk size 2: request [2,3]), then Heartbeats 2 and 3 arrive:
   after 3 the next chunk [4,5] is requested *)
Definition c04x_chunk_trace : list event :=
  [EConnect; EIncoming (c04x_msg T_LOGON 1); EIncoming (c04x_msg (B "D") 10);
   EIncoming (c04x_msg T_HEARTBEAT 2); EIncoming (c04x_msg T_HEARTBEAT 3)].
Definition c04x_run (c : cfg) (es : list event) := combine es (map obs_of (run_trace es (init_sess c))).

(* the hypothesis holds, and the trace does create a chunk request while recovering *)
Lemma c04x_chunk_trace_no_app_rr : Forall c04_no_app_rr c04x_chunk_trace.
Proof. repeat constructor. Qed.
Lemma c04x_chunk_trace_requests :
  map (fun o => (ob_st (snd o), map (fun w => (o_type w, o_body w)) (ob_wire (snd o)))) (c04x_run (c04x_cfg 2) c04x_chunk_trace)
  = [(ShLogon, []);
     (ShInSession, [(T_LOGON, [(98, B "0"); (108, itoa 30)])]);
     (ShResend true [10] 3 9, [(T_RESENDREQ, [(7, itoa 2); (16, itoa 3)])]);
     (ShResend true [10] 3 9, []);
     (ShResend true [10] 5 9, [(T_RESENDREQ, [(7, itoa 4); (16, itoa 5)])])].
Proof. vm_compute. reflexivity. Qed.

(* buffered frames delivered one by one *)
Definition c04x_buffered_trace : list event :=
  [EConnect; EIncoming (c04x_msg T_LOGON 1); EIncoming (c04x_msg (B "D") 10);
   EArrive (c04x_msg T_HEARTBEAT 2); EArrive (c04x_msg T_HEARTBEAT 3); EDeliver; EDeliver].
Lemma c04x_buffered_trace_no_app_rr : Forall c04_no_app_rr c04x_buffered_trace.
Proof. repeat constructor. Qed.
Lemma c04x_buffered_trace_requests :
  map (fun o => ob_st (snd o)) (c04x_run (c04x_cfg 2) c04x_buffered_trace)
  = [ShLogon; ShInSession; ShResend true [10] 3 9; ShResend true [10] 3 9; ShResend true [10] 3 9; ShResend true [10] 3 9;
     ShResend true [10] 5 9].
Proof. vm_compute. reflexivity. Qed.

(* REFUTED without the hypothesis.  The application itself sends a ResendRequest through SendToTarget while the session is
   recovering (nothing is buffered in this trace): ToAdmin "2" is logged by queueForSend, clause 402 fails at event 3. *)
Definition c04x_app_rr_trace : list event :=
  [EConnect; EIncoming (c04x_msg T_LOGON 1); EIncoming (c04x_msg (B "D") 10); EAppSend T_RESENDREQ [] true].
Lemma c04_402_app_resend_request_refuted :
  exists c es, Forall (fun e => match e with EArrive _ => False | _ => True end) es
    /\ c04_check c (combine es (map obs_of (run_trace es (init_sess c)))) = [(3%nat, 402)].
Proof. exists (c04x_cfg 0), c04x_app_rr_trace. split; [repeat constructor | vm_compute; reflexivity]. Qed.

(* Regression: several buffered frames handled in one disconnecting event.  Four Heartbeats 2..5 are buffered while the session
   recovers 2..9 in chunks of 2; the connection is lost.  handleDisconnectState first handles what is buffered (since the repair
   of F17: in the resend state, channel open): Heartbeat 3 completes chunk [2,3] and ResendRequest [4,5] is written, Heartbeat 5
   completes chunk [4,5] and ResendRequest [6,7] is written; then OnLogout.  Each request is the next chunk at the number
   expected at that moment.  Clause 402 used to count them (`created = 1`) and fail at event 7; it is now evaluated only on
   events that handle at most one frame, and the trace is clean. *)
Definition c04x_drain_trace : list event :=
  [EConnect; EIncoming (c04x_msg T_LOGON 1); EIncoming (c04x_msg (B "D") 10);
   EArrive (c04x_msg T_HEARTBEAT 2); EArrive (c04x_msg T_HEARTBEAT 3); EArrive (c04x_msg T_HEARTBEAT 4); EArrive (c04x_msg T_HEARTBEAT 5);
   EInClosed].
Lemma c04x_drain_trace_clean :
  Forall c04_no_app_rr c04x_drain_trace /\ c04_check (c04x_cfg 2) (c04x_run (c04x_cfg 2) c04x_drain_trace) = [].
Proof. split; [repeat constructor | vm_compute; reflexivity]. Qed.
Lemma c04x_drain_trace_event_7 :
  match nth_error (c04x_run (c04x_cfg 2) c04x_drain_trace) 7 with
  | Some (_, o) => (ob_st o, ob_tgt o, filter is_rr_cb (ob_cbs o), map (fun w => (o_type w, o_body w)) (ob_wire o),
                    existsb (fun x => match x with CbOnLogout => true | _ => false end) (ob_cbs o))
                   = (ShLatent, 6, [CbToAdmin T_RESENDREQ; CbToAdmin T_RESENDREQ],
                      [(T_RESENDREQ, [(7, itoa 4); (16, itoa 5)]); (T_RESENDREQ, [(7, itoa 6); (16, itoa 7)])], true)
  | None => False
  end.
Proof. vm_compute. reflexivity. Qed.

(* ---------- UNCONDITIONAL form: clause 402 can only fail at an application-sent ResendRequest ---------- *)
Lemma free_of_not_in codes l i c : free_of codes l = true -> In c codes -> ~ In (i, c) l.
Proof.
  unfold free_of. intros H Hc Hi. rewrite forallb_forall in H. specialize (H _ Hi). cbn [snd] in H.
  apply negb_true_iff in H.
  assert (Hx : existsb (Z.eqb c) codes = true) by (apply existsb_exists; exists c; split; [exact Hc | apply Z.eqb_refl]).
  congruence.
Qed.

Definition is_app_rr (e : event) : Prop :=
  exists t body ok, e = EAppSend t body ok /\ beq_bytes t T_RESENDREQ = true.

Lemma not_no_app_rr e : ~ c04_no_app_rr e -> is_app_rr e.
Proof.
  intros H. destruct e; try (exfalso; apply H; exact I).
  cbn [c04_no_app_rr] in H. destruct (beq_bytes t T_RESENDREQ) eqn:E; [|exfalso; apply H; reflexivity].
  exists t, body, ok. split; [reflexivity | exact E].
Qed.

Lemma c04_scan_402_loc : forall es s i kept j, Boundary s -> RI s -> LB s -> CI s ->
  In (j, 402) (c04_scan (s_cfg s) i kept (obs_of s) (combine es (map obs_of (run_trace es s)))) ->
  exists k e, j = (i + k)%nat /\ nth_error es k = Some e /\ is_app_rr e.
Proof.
  induction es as [|e r IH]; intros s i kept j Hb Hri Hlb Hci H; cbn [run_trace map combine] in H; [destruct H|].
  cbn [c04_scan] in H.
  assert (Hno : forall l, free_of [402] l = true -> ~ In (j, 402) l)
    by (intros l Hl; apply (free_of_not_in [402] l j 402 Hl); left; reflexivity).
  apply in_app_or in H as [H|H]; [exfalso; revert H; apply Hno; free_rest|].
  apply in_app_or in H as [H|H].
  { exists O, e. split; [|split; [reflexivity|]].
    - rewrite Nat.add_0_r. cbv zeta in H.
      repeat match type of H with
             | context [if ?x then _ else _] => destruct x
             | context [match ?x with _ => _ end] => destruct x
             end; cbn [In] in H; try contradiction; destruct H as [H|[]]; inversion H; reflexivity.
    - apply not_no_app_rr. intros Hq. revert H. apply Hno. apply (clause_402 i s e); assumption. }
  apply in_app_or in H as [H|H]; [exfalso; revert H; apply Hno; free_rest|].
  apply in_app_or in H as [H|H]; [exfalso; revert H; apply Hno; free_rest|].
  apply in_app_or in H as [H|H]; [exfalso; revert H; apply Hno; free_rest|].
  apply in_app_or in H as [H|H]; [exfalso; revert H; apply Hno; free_rest|].
  apply in_app_or in H as [H|H]; [exfalso; revert H; apply Hno; free_rest|].
  rewrite <- (step_cfg (s_cfg s) s e eq_refl) in H.
  destruct (IH (step s e) (S i) _ j (step_boundary _ _ Hb) (step_ri _ _ Hri Hlb) (step_lb _ _ Hlb) (step_ci _ _ Hci) H)
    as (k & e' & Hj & Hn & Hq).
  exists (S k), e'. split; [rewrite Hj; apply plus_n_Sm | split; [exact Hn | exact Hq]].
Qed.

(* Every failure of clause 402 on a model trace — every configuration, every event list — sits at an event in which the
   application itself sends a ResendRequest. *)
Theorem c04_402_only_at_app_resend_requests : forall c es j,
  In (j, 402) (c04_check c (combine es (map obs_of (run_trace es (init_sess c))))) ->
  exists t body ok, nth_error es j = Some (EAppSend t body ok) /\ beq_bytes t T_RESENDREQ = true.
Proof.
  intros c es j H. unfold c04_check in H.
  destruct (c04_scan_402_loc es (init_sess c) O [] j (init_boundary c) (init_ri c) (init_lb c) (init_ci c) H)
    as (k & e & Hj & Hn & (t & body & ok & -> & Ht)).
  cbn [Nat.add] in Hj. subst k. exists t, body, ok. split; assumption.
Qed.

Lemma run_trace_ci : forall es s, CI s -> Forall CI (run_trace es s).
Proof.
  induction es as [|e r IH]; intros s H; cbn [run_trace]; [constructor|].
  constructor; [apply step_ci; exact H | apply IH, step_ci, H].
Qed.
Theorem trace_ci : forall c es, Forall CI (run_trace es (init_sess c)).
Proof. intros c es. apply run_trace_ci, init_ci. Qed.
