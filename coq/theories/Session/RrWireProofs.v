(* Where a ResendRequest on the wire comes from.  `Rq s0 s`: the ToAdmin "2" callbacks logged in s extend those of s0 by `new`,
   and if nothing was added (new = []) and neither the wire log nor the outbound queue of s0 holds a message of type "2",
   the same is true of s.  Every message that enters the queue comes from prepMessageForSend (which logs ToAdmin with the
   message type for an administrative type) or is a replay / gap fill; so a ResendRequest can reach the wire only from the
   queue or together with its callback.  Same syntax-directed closure as FrameProofs.v / MonoProofs.v, no side conditions.
   Used by C20 clause 2005. *)
From Coq Require Import String.
From Coq Require Import ZArith List Bool Lia.
From QF Require Import Base.Bytes Session.Types Session.Model Session.Spec Session.C01Proofs Session.FrameProofs Session.NoReqProofs.
Import ListNotations.
Open Scope list_scope.
Open Scope Z_scope.

Definition notrr (w : omsg) : bool := negb (is_type T_RESENDREQ w).
Definition norr (l : list omsg) : bool := forallb notrr l.
Definition Wq (s : sess) : Prop := norr (s_wire s) = true /\ norr (s_to_send s) = true.

Definition Rq (s0 s : sess) : Prop :=
  exists new, rrf (s_cbs s) = new ++ rrf (s_cbs s0) /\ (new = [] -> Wq s0 -> Wq s).

Lemma rq_refl s : Rq s s.
Proof. exists []. split; [reflexivity | intros _ H; exact H]. Qed.
Lemma rq_trans a b c : Rq a b -> Rq b c -> Rq a c.
Proof.
  intros (n1 & A1 & A2) (n2 & B1 & B2). exists (n2 ++ n1). split.
  - rewrite B1, A1, app_assoc. reflexivity.
  - intros Hn Hw. apply app_eq_nil in Hn as [Hn2 Hn1]. apply B2; [exact Hn2|]. apply A2; assumption.
Qed.

Lemma norr_app a b : norr (a ++ b) = norr a && norr b.
Proof. unfold norr. apply forallb_app. Qed.
Lemma norr_rev l : norr (rev l) = norr l.
Proof.
  induction l as [|x r IH]; [reflexivity|]. cbn [rev]. rewrite norr_app, IH. cbn [norr forallb]. rewrite andb_true_r. apply andb_comm.
Qed.

(* a step that leaves the callbacks alone and keeps Wq *)
Lemma rq_keep s0 s x : s_cbs x = s_cbs s -> (Wq s -> Wq x) -> Rq s0 s -> Rq s0 x.
Proof.
  intros Hc Hw (new & H1 & H2). exists new. rewrite Hc. split; [exact H1|]. intros Hn H0. apply Hw, H2; assumption.
Qed.

Section Base.
Variable s0 : sess.
Lemma rq_upd_store s a b c : Rq s0 s -> Rq s0 (upd_store s a b c).
Proof. apply rq_keep; [reflexivity | intros H; exact H]. Qed.
Lemma rq_set_sent_reset s b : Rq s0 s -> Rq s0 (set_sent_reset s b).
Proof. apply rq_keep; [reflexivity | intros H; exact H]. Qed.
Lemma rq_set_hb s h : Rq s0 s -> Rq s0 (set_hb s h).
Proof. apply rq_keep; [reflexivity | intros H; exact H]. Qed.
Lemma rq_log s c : Rq s0 s -> Rq s0 (log_cb s c).
Proof.
  intros (new & H1 & H2). destruct (is_rr_cb c) eqn:Ec.
  - exists (c :: new). split.
    + unfold rrf in *. cbn [log_cb upd_logs s_cbs filter]. rewrite Ec, H1. reflexivity.
    + intros Hn. discriminate Hn.
  - exists new. split.
    + unfold rrf in *. cbn [log_cb upd_logs s_cbs filter]. rewrite Ec. exact H1.
    + exact H2.
Qed.
Lemma rq_reset s : Rq s0 s -> Rq s0 (store_reset s).
Proof. intros H. unfold store_reset. apply rq_log, rq_upd_store, H. Qed.
Lemma rq_incr s : Rq s0 s -> Rq s0 (incr_tgt s). Proof. unfold incr_tgt. apply rq_upd_store. Qed.
Lemma rq_set_tgt s n : Rq s0 s -> Rq s0 (set_tgt s n). Proof. unfold set_tgt. apply rq_upd_store. Qed.
Lemma rq_persist s m : Rq s0 s -> Rq s0 (persist s m).
Proof. intros H. unfold persist. destruct (c_disable_persist _); apply rq_upd_store, H. Qed.

Lemma rq_send_queued s : Rq s0 s -> Rq s0 (send_queued s).
Proof.
  unfold send_queued. destruct (s_out_open s); [|intros H; exact H].
  apply rq_keep; [reflexivity|]. intros [W1 W2]. split; cbn [s_wire s_to_send upd_to_send upd_logs]; [|reflexivity].
  rewrite norr_app, norr_rev, W1, W2. reflexivity.
Qed.
Lemma rq_drop_queued s : Rq s0 s -> Rq s0 (drop_queued s).
Proof. apply rq_keep; [reflexivity|]. intros [W1 W2]. split; [exact W1 | reflexivity]. Qed.
Lemma rq_enqueue s m : notrr m = true -> Rq s0 s -> Rq s0 (enqueue s m).
Proof.
  intros Hm. apply rq_keep; [reflexivity|]. intros [W1 W2]. split; [exact W1|].
  cbn [enqueue upd_to_send s_to_send]. rewrite norr_app, W2. cbn [norr forallb]. rewrite Hm. reflexivity.
Qed.
End Base.

Ltac rq_ext := fail.
Ltac rq_mside := first [reflexivity | assumption].
Ltac rq_go :=
  lazymatch goal with
  | H : Rq ?a ?b |- Rq ?a ?b => exact H
  | |- Rq ?a ?a => apply rq_refl
  | |- Rq _ (if ?x then _ else _) => destruct x eqn:?; rq_go
  | |- Rq _ (match ?x with _ => _ end) => destruct x eqn:?; rq_go
  | |- Rq _ (upd_store _ _ _ _) => apply rq_upd_store; rq_go
  | |- Rq _ (log_cb _ _) => apply rq_log; rq_go
  | |- Rq _ (store_reset _) => apply rq_reset; rq_go
  | |- Rq _ (incr_tgt _) => apply rq_incr; rq_go
  | |- Rq _ (set_tgt _ _) => apply rq_set_tgt; rq_go
  | |- Rq _ (set_sent_reset _ _) => apply rq_set_sent_reset; rq_go
  | |- Rq _ (set_hb _ _) => apply rq_set_hb; rq_go
  | |- Rq _ (persist _ _) => apply rq_persist; rq_go
  | |- Rq _ (send_queued _) => apply rq_send_queued; rq_go
  | |- Rq _ (drop_queued _) => apply rq_drop_queued; rq_go
  | _ => rq_ext
  end.
Ltac rq_pairlemma E := brk_in E; inv E; brk_hyps; rq_go.

(* prepMessageForSend: the message it returns is of type "2" only together with its ToAdmin callback *)
Lemma is_admin_rr t : beq_bytes t T_RESENDREQ = true -> is_admin t = true.
Proof. intros H. unfold is_admin. rewrite H. rewrite !orb_true_r. reflexivity. Qed.

Lemma beq_bytes_rr_not_logon t : beq_bytes t T_RESENDREQ = true -> beq_bytes t T_LOGON = false.
Proof. intros H. apply beq_bytes_true in H. subst t. reflexivity. Qed.
Lemma not_admin_notrr t : is_admin t = false -> beq_bytes t T_RESENDREQ = false.
Proof. intros H. destruct (beq_bytes t T_RESENDREQ) eqn:E; [|reflexivity]. rewrite (is_admin_rr t E) in H. discriminate H. Qed.

Section L1.
Variable s0 : sess.
Lemma rq_prep s t hdr body ir ok s1 r : prep s t hdr body ir ok = (s1, r) -> Rq s0 s -> Rq s0 s1.
Proof. intros E H. unfold prep in E. rq_pairlemma E. Qed.

Lemma prep_proj s t hdr body ir ok s1 r : prep s t hdr body ir ok = (s1, r) ->
  s_wire s1 = s_wire s /\ s_to_send s1 = s_to_send s /\ forall m, r = Some m -> o_type m = t.
Proof.
  intros E. unfold prep in E.
  destruct (is_admin t); [|destruct ok]; inv E; unfold persist; try destruct (c_disable_persist _);
    try destruct (beq_bytes t T_LOGON && body_has_reset_y body); repeat split; try reflexivity;
    intros m0 Hm; inv Hm; reflexivity.
Qed.

(* enqueueing what prep returned, possibly after dropping the queue *)
Lemma rq_enqueue_prepped s t hdr body ir ok s1 m x : prep s t hdr body ir ok = (s1, Some m) -> Rq s0 s ->
  (x = s1 \/ x = drop_queued s1) -> Rq s0 (enqueue x m).
Proof.
  intros E H Hx.
  destruct (prep_proj _ _ _ _ _ _ _ _ E) as (P1 & P2 & P3). specialize (P3 m eq_refl).
  destruct (beq_bytes t T_RESENDREQ) eqn:Et.
  - (* a ResendRequest: its callback was logged by prep *)
    assert (Hcb : s_cbs s1 = CbToAdmin t :: s_cbs s).
    { unfold prep in E. rewrite (is_admin_rr t Et) in E.
      assert (Hl : beq_bytes t T_LOGON = false) by (apply beq_bytes_rr_not_logon; exact Et).
      rewrite Hl in E. cbn [andb] in E. inv E. unfold persist. destruct (c_disable_persist _); reflexivity. }
    destruct H as (new & H1 & H2). exists (CbToAdmin t :: new). split; [|intros Hn; discriminate Hn].
    assert (Hc : s_cbs (enqueue x m) = s_cbs s1) by (destruct Hx as [-> | ->]; reflexivity).
    rewrite Hc, Hcb. unfold rrf in *. cbn [filter is_rr_cb]. rewrite Et, H1. reflexivity.
  - assert (Hm : notrr m = true) by (unfold notrr, is_type; rewrite P3, Et; reflexivity).
    assert (H1 : Rq s0 s1) by (eapply rq_prep; eassumption).
    apply rq_enqueue; [exact Hm|]. destruct Hx as [-> | ->]; [exact H1 | apply rq_drop_queued; exact H1].
Qed.
End L1.
Ltac rq_ext1 :=
  lazymatch goal with
  | |- Rq _ (enqueue ?x ?m) =>
      first [ match goal with E : prep _ _ _ _ _ _ = (_, Some m) |- _ =>
                eapply rq_enqueue_prepped; [exact E | rq_go | first [left; reflexivity | right; reflexivity]] end
            | apply rq_enqueue; [rq_mside | rq_go] ]
  | |- Rq _ ?v => match goal with E : prep _ _ _ _ _ _ = (v, _) |- _ => eapply rq_prep; [exact E | rq_go] end
  end.
Ltac rq_ext ::= rq_ext1.

Section L2.
Variable s0 : sess.
Lemma rq_queue_for_send s t hdr body ir ok : Rq s0 s -> Rq s0 (queue_for_send s t hdr body ir ok).
Proof. intros H. unfold queue_for_send. rq_go. Qed.
Lemma rq_enqueue_bytes s m : notrr m = true -> Rq s0 s -> Rq s0 (enqueue_bytes_and_send s m).
Proof. intros Hm H. unfold enqueue_bytes_and_send. rq_go. Qed.
Lemma rq_drop_and_send s t body ir : Rq s0 s -> Rq s0 (drop_and_send_in_reply_to s t body ir).
Proof. intros H. unfold drop_and_send_in_reply_to. rq_go. Qed.
Lemma rq_drop_and_reset s : Rq s0 s -> Rq s0 (drop_and_reset s).
Proof. intros H. unfold drop_and_reset. rq_go. Qed.
End L2.
Ltac rq_ext2 :=
  lazymatch goal with
  | |- Rq _ (queue_for_send _ _ _ _ _ _) => apply rq_queue_for_send; rq_go
  | |- Rq _ (enqueue_bytes_and_send _ _) => apply rq_enqueue_bytes; [rq_mside | rq_go]
  | |- Rq _ (drop_and_send_in_reply_to _ _ _ _) => apply rq_drop_and_send; rq_go
  | |- Rq _ (drop_and_reset _) => apply rq_drop_and_reset; rq_go
  | _ => rq_ext1
  end.
Ltac rq_ext ::= rq_ext2.

Section L3.
Variable s0 : sess.
Lemma rq_send_in_reply_to s t hdr body ir : Rq s0 s -> Rq s0 (send_in_reply_to s t hdr body ir).
Proof. intros H. unfold send_in_reply_to. rq_go. Qed.
Lemma rq_send_logon s b ir : Rq s0 s -> Rq s0 (send_logon_in_reply_to s b ir).
Proof. intros H. unfold send_logon_in_reply_to. rq_go. Qed.
Lemma rq_generate_sequence_reset s b e ir : Rq s0 s -> Rq s0 (generate_sequence_reset s b e ir).
Proof. intros H. unfold generate_sequence_reset. rq_go. Qed.
End L3.
Ltac rq_ext3 :=
  lazymatch goal with
  | |- Rq _ (send_in_reply_to _ _ _ _ _) => apply rq_send_in_reply_to; rq_go
  | |- Rq _ (send_logon_in_reply_to _ _ _) => apply rq_send_logon; rq_go
  | |- Rq _ (generate_sequence_reset _ _ _ _) => apply rq_generate_sequence_reset; rq_go
  | _ => rq_ext2
  end.
Ltac rq_ext ::= rq_ext3.

Section L4.
Variable s0 : sess.
Lemma rq_send s t body : Rq s0 s -> Rq s0 (send s t body).
Proof. intros H. unfold send. rq_go. Qed.
Lemma rq_send_logout s ir : Rq s0 s -> Rq s0 (send_logout_in_reply_to s ir).
Proof. intros H. unfold send_logout_in_reply_to. rq_go. Qed.
Lemma rq_do_reject s m r : Rq s0 s -> Rq s0 (do_reject s m r).
Proof. intros H. unfold do_reject. rq_go. Qed.
Lemma rq_resend_loop : forall keys s ir a b s1 x y, resend_loop keys s ir a b = (s1, x, y) -> Rq s0 s -> Rq s0 s1.
Proof.
  induction keys as [|k r IH]; intros s ir a b s1 x y E H; cbn [resend_loop] in E.
  - inv E. exact H.
  - destruct (lookup_msg k (s_msgs s)) as [sm|]; [|eapply IH; eassumption].
    destruct (is_admin (o_type sm)) eqn:Ea; [eapply IH; eassumption|].
    pose proof (not_admin_notrr _ Ea) as Hn.
    destruct (existsb (Z.eqb k) (mi_refuse ir)); [eapply IH; [exact E | rq_go]|].
    eapply IH; [exact E|]. apply rq_enqueue_bytes; [unfold notrr, is_type; cbn [o_type]; rewrite Hn; reflexivity|].
    destruct (a =? k); rq_go.
Qed.
End L4.
Ltac rq_ext4 :=
  lazymatch goal with
  | |- Rq _ (send _ _ _) => apply rq_send; rq_go
  | |- Rq _ (send_logout_in_reply_to _ _) => apply rq_send_logout; rq_go
  | |- Rq _ (initiate_logout_in_reply_to _ _) => unfold initiate_logout_in_reply_to; apply rq_send_logout; rq_go
  | |- Rq _ (do_reject _ _ _) => apply rq_do_reject; rq_go
  | |- Rq _ ?v =>
      match goal with
      | E : prep _ _ _ _ _ _ = (v, _) |- _ => eapply rq_prep; [exact E | rq_go]
      | E : resend_loop _ _ _ _ _ = (v, _, _) |- _ => eapply rq_resend_loop; [exact E | rq_go]
      | _ => rq_ext3
      end
  | _ => rq_ext3
  end.
Ltac rq_ext ::= rq_ext4.

Section L5.
Variable s0 : sess.
Lemma rq_send_resend_request s b e s1 st : send_resend_request s b e = (s1, st) -> Rq s0 s -> Rq s0 s1.
Proof. intros E H. unfold send_resend_request in E. rq_pairlemma E. Qed.
Lemma rq_resend_messages s b e ir : Rq s0 s -> Rq s0 (resend_messages s b e ir).
Proof. intros H. unfold resend_messages. rq_go. Qed.
Lemma rq_do_target_too_low s m s1 st : do_target_too_low s m = (s1, st) -> Rq s0 s -> Rq s0 s1.
Proof. intros E H. unfold do_target_too_low in E. rq_pairlemma E. Qed.
Lemma rq_shutdown_with_reason s m b s1 st : shutdown_with_reason s m b = (s1, st) -> Rq s0 s -> Rq s0 s1.
Proof. intros E H. unfold shutdown_with_reason in E. rq_pairlemma E. Qed.
Lemma rq_verify_app s m s1 r : verify_msg_against_app_impl s m = (s1, r) -> Rq s0 s -> Rq s0 s1.
Proof. intros E H. unfold verify_msg_against_app_impl in E. rq_pairlemma E. Qed.
Lemma rq_in_session_timeout s e s1 st : in_session_timeout s e = (s1, st) -> Rq s0 s -> Rq s0 s1.
Proof. intros E H. unfold in_session_timeout in E. rq_pairlemma E. Qed.
End L5.
Ltac rq_ext5 :=
  lazymatch goal with
  | |- Rq _ (resend_messages _ _ _ _) => apply rq_resend_messages; rq_go
  | |- Rq _ ?v =>
      match goal with
      | E : prep _ _ _ _ _ _ = (v, _) |- _ => eapply rq_prep; [exact E | rq_go]
      | E : resend_loop _ _ _ _ _ = (v, _, _) |- _ => eapply rq_resend_loop; [exact E | rq_go]
      | E : send_resend_request _ _ _ = (v, _) |- _ => eapply rq_send_resend_request; [exact E | rq_go]
      | E : do_target_too_high _ _ _ = (v, _) |- _ => unfold do_target_too_high in E; eapply rq_send_resend_request; [exact E | rq_go]
      | E : do_target_too_low _ _ = (v, _) |- _ => eapply rq_do_target_too_low; [exact E | rq_go]
      | E : shutdown_with_reason _ _ _ = (v, _) |- _ => eapply rq_shutdown_with_reason; [exact E | rq_go]
      | E : verify_msg_against_app_impl _ _ = (v, _) |- _ => eapply rq_verify_app; [exact E | rq_go]
      | E : in_session_timeout _ _ = (v, _) |- _ => eapply rq_in_session_timeout; [exact E | rq_go]
      | _ => rq_ext4
      end
  | _ => rq_ext4
  end.
Ltac rq_ext ::= rq_ext5.

Section L6.
Variable s0 : sess.
Lemma rq_verify_select s m a b c s1 r : verify_select s m a b c = (s1, r) -> Rq s0 s -> Rq s0 s1.
Proof. intros E H. unfold verify_select in E. brk_in E; try (inv E; exact H). all: eapply rq_verify_app; eauto. Qed.
Lemma rq_process_reject s m r s1 st : process_reject s m r = (s1, st) -> Rq s0 s -> Rq s0 s1.
Proof. intros E H. unfold process_reject in E. rq_pairlemma E. Qed.
End L6.
Ltac rq_ext6 :=
  lazymatch goal with
  | |- Rq _ ?v =>
      match goal with
      | E : verify_select _ _ _ _ _ = (v, _) |- _ => eapply rq_verify_select; [exact E | rq_go]
      | E : process_reject _ _ _ = (v, _) |- _ => eapply rq_process_reject; [exact E | rq_go]
      | _ => rq_ext5
      end
  | _ => rq_ext5
  end.
Ltac rq_ext ::= rq_ext6.

Section L7.
Variable s0 : sess.
Lemma rq_handle_logon s m s1 r : handle_logon s m = (s1, r) -> Rq s0 s -> Rq s0 s1.
Proof. intros E H. unfold handle_logon in E. rq_pairlemma E. Qed.
Lemma rq_handle_logout s m s1 st : handle_logout s m = (s1, st) -> Rq s0 s -> Rq s0 s1.
Proof. intros E H. unfold handle_logout in E. rq_pairlemma E. Qed.
Lemma rq_handle_test_request s m s1 st : handle_test_request s m = (s1, st) -> Rq s0 s -> Rq s0 s1.
Proof. intros E H. unfold handle_test_request, verify in E. rq_pairlemma E. Qed.
Lemma rq_handle_sequence_reset s m s1 st : handle_sequence_reset s m = (s1, st) -> Rq s0 s -> Rq s0 s1.
Proof. intros E H. unfold handle_sequence_reset in E. rq_pairlemma E. Qed.
Lemma rq_handle_resend_request s m s1 st : handle_resend_request s m = (s1, st) -> Rq s0 s -> Rq s0 s1.
Proof. intros E H. unfold handle_resend_request in E. rq_pairlemma E. Qed.
End L7.
Ltac rq_ext7 :=
  lazymatch goal with
  | |- Rq _ ?v =>
      match goal with
      | E : handle_logon _ _ = (v, _) |- _ => eapply rq_handle_logon; [exact E | rq_go]
      | E : handle_logout _ _ = (v, _) |- _ => eapply rq_handle_logout; [exact E | rq_go]
      | E : handle_test_request _ _ = (v, _) |- _ => eapply rq_handle_test_request; [exact E | rq_go]
      | E : handle_sequence_reset _ _ = (v, _) |- _ => eapply rq_handle_sequence_reset; [exact E | rq_go]
      | E : handle_resend_request _ _ = (v, _) |- _ => eapply rq_handle_resend_request; [exact E | rq_go]
      | _ => rq_ext6
      end
  | _ => rq_ext6
  end.
Ltac rq_ext ::= rq_ext7.

Section L8.
Variable s0 : sess.
Lemma rq_in_session_fix_msg_in s m s1 st : in_session_fix_msg_in s m = (s1, st) -> Rq s0 s -> Rq s0 s1.
Proof. intros E H. unfold in_session_fix_msg_in, verify in E. rq_pairlemma E. Qed.
Lemma rq_logon_state s m s1 st : logon_state_fix_msg_in s m = (s1, st) -> Rq s0 s -> Rq s0 s1.
Proof. intros E H. unfold logon_state_fix_msg_in in E. rq_pairlemma E. Qed.
End L8.

Section L9.
Variable s0 : sess.
Lemma rq_logout_state s m s1 st : logout_state_fix_msg_in s m = (s1, st) -> Rq s0 s -> Rq s0 s1.
Proof.
  intros E H. unfold logout_state_fix_msg_in in E.
  destruct (in_session_fix_msg_in s m) as [s2 st2] eqn:E2.
  assert (Rq s0 s2) by (eapply rq_in_session_fix_msg_in; eassumption). destruct st2; inv E; assumption.
Qed.
Lemma rq_resend_drain : forall fuel s stash next s1 stash1 next1 still,
  resend_drain fuel s stash next = (s1, stash1, next1, still) -> Rq s0 s -> Rq s0 s1.
Proof.
  induction fuel as [|f IH]; intros s stash next s1 stash1 next1 still E H; cbn [resend_drain] in E.
  - inv E. exact H.
  - destruct (stash_take (s_tgt s) stash) as [[m stash']|]; [|inv E; exact H].
    destruct (in_session_fix_msg_in s m) as [s2 n2] eqn:E2.
    assert (H2 : Rq s0 s2) by (eapply rq_in_session_fix_msg_in; eassumption).
    destruct (negb (is_logged_on n2)); [inv E; exact H2|]. eapply IH; eassumption.
Qed.
Lemma rq_resend_state s stash c e m s1 st : resend_state_fix_msg_in s stash c e m = (s1, st) -> Rq s0 s -> Rq s0 s1.
Proof.
  intros E H. unfold resend_state_fix_msg_in in E.
  destruct (in_session_fix_msg_in s m) as [s2 n2] eqn:E2.
  assert (H2 : Rq s0 s2) by (eapply rq_in_session_fix_msg_in; eassumption).
  destruct (negb (is_logged_on n2)); [inv E; exact H2|].
  match type of E with context [resend_drain ?f ?a ?b ?c] => destruct (resend_drain f a b c) as [[[s3 l3] n3] still] eqn:E3 end.
  assert (H3 : Rq s0 s3) by (eapply rq_resend_drain; eassumption).
  destruct (negb still); [inv E; exact H3|].
  brk_in E; inv E; try exact H3; eapply rq_send_resend_request; eassumption.
Qed.
Lemma rq_state_fix_msg_in : forall st s m s1 st1, state_fix_msg_in st s m = (s1, st1) -> Rq s0 s -> Rq s0 s1.
Proof.
  induction st as [| | | | | stash c e | i IH]; intros s m s1 st1 E H; cbn [state_fix_msg_in] in E.
  - inv E; exact H.
  - inv E; exact H.
  - eapply rq_logon_state; eassumption.
  - eapply rq_logout_state; eassumption.
  - eapply rq_in_session_fix_msg_in; eassumption.
  - eapply rq_resend_state; eassumption.
  - eapply IH; eassumption.
Qed.
Lemma rq_state_timeout st s e s1 st1 : state_timeout st s e = (s1, st1) -> Rq s0 s -> Rq s0 s1.
Proof.
  intros E H. unfold state_timeout in E.
  destruct st; try (brk_in E; inv E; exact H).
  - eapply rq_in_session_timeout; eassumption.
  - destruct (in_session_timeout s e) as [s2 st2] eqn:E2.
    assert (Rq s0 s2) by (eapply rq_in_session_timeout; eassumption). brk_in E; inv E; assumption.
Qed.
Lemma rq_state_stop : forall st s s1 st1, state_stop st s = (s1, st1) -> Rq s0 s -> Rq s0 s1.
Proof.
  induction st as [| | | | | stash c e | i IH]; intros s s1 st1 E H; cbn [state_stop] in E; try (inv E; rq_go).
  eapply IH; eassumption.
Qed.
End L9.
