(* C20 clause 2005: an inbound message processed while a TestRequest is pending cancels the pending disconnect and does not
   disturb a recovery in progress:
     (a) after the message the state is no longer "pending" (every handler returns a handler state: NextStateProofs.v),
         also when the message comes out of the inbound buffer (every buffered frame parses: invariant BS);
     (b1) every kept message whose number is above the new expected number is still kept (the drain removes a kept message
          only when its number IS the expected number, and the expected number never decreases while kept messages -- never a
          Logon or a Logout: invariant TS -- are processed);
     (b2) a ResendRequest is written only as the next chunk: the current chunk end is non-zero and at most the new expected
          number.  A ResendRequest reaches the wire either with its ToAdmin callback (then ChunkProofs.incoming_req applies) or
          out of the outbound queue (closure RrWireProofs.v); while a TestRequest is pending the queue holds no ResendRequest
          (invariant PQ) -- unless the APPLICATION sends one through SendToTarget in that state, which is the hypothesis of the
          theorem and the `_refuted` witness. *)
From Coq Require Import String.
From Coq Require Import ZArith List Bool Lia.
From QF Require Import Base.Bytes Session.Types Session.Model Session.Spec Session.C01Proofs Session.LocalProofs
  Session.FrameProofs Session.TraceProofs Session.RecoveryProofs Session.ReactionProofs Session.TgProofs Session.MonoProofs
  Session.ResendInvProofs Session.NoReqProofs Session.ChunkProofs Session.TjProofs Session.KeptProofs Session.ConnectProofs
  Session.LogonProofs Session.NextStateProofs Session.StashTypeProofs Session.RrWireProofs.
Import ListNotations.
Open Scope list_scope.
Open Scope Z_scope.

Definition is_pending (st : sstate) : bool := match st with SPending _ => true | _ => false end.

(* ---------- the expected number never decreases while a kept message is processed ---------- *)
Lemma verify_app_tgt s m s1 r : verify_msg_against_app_impl s m = (s1, r) -> s_tgt s1 = s_tgt s.
Proof.
  intros E. unfold verify_msg_against_app_impl in E. destruct (rej_of_verdict (mi_valid m)); [inv E; reflexivity|].
  destruct (is_admin (mi_type m)); inv E; reflexivity.
Qed.
Lemma verify_select_tgt s m a b c s1 r : verify_select s m a b c = (s1, r) -> s_tgt s1 = s_tgt s.
Proof.
  intros E. unfold verify_select in E. brk_in E; try (inv E; reflexivity). all: eapply verify_app_tgt; eassumption.
Qed.
Lemma do_reject_tgt s m r : s_tgt (do_reject s m r) = s_tgt s.
Proof.
  unfold do_reject. destruct r as [a b|a b| | |reason tag bus]; cbv beta iota;
    repeat match goal with |- context [if ?x then _ else _] => destruct x end; apply send_keeps_tgt; reflexivity.
Qed.
Lemma logout_tgt s ir : s_tgt (initiate_logout_in_reply_to s ir) = s_tgt s.
Proof. unfold initiate_logout_in_reply_to, send_logout_in_reply_to. apply send_keeps_tgt. reflexivity. Qed.

Lemma do_target_too_low_mono s m s1 st : do_target_too_low s m = (s1, st) -> s_tgt s <= s_tgt s1.
Proof.
  intros E. unfold do_target_too_low in E.
  brk_in E; inv E; cbn [incr_tgt upd_store s_tgt]; rewrite ?logout_tgt, ?do_reject_tgt; lia.
Qed.

Lemma process_reject_mono s m r s1 st : process_reject s m r = (s1, st) -> s_tgt s <= s_tgt s1.
Proof.
  intros E. destruct r as [recv ex|recv ex| | |reason tag bus]; cbn [process_reject] in E.
  - destruct (unwrap_pending (s_st s)) as [| | | | | a b c | j].
    6: { inv E. lia. }
    all: destruct (do_target_too_high s recv ex) as [x nx] eqn:Ed; unfold do_target_too_high in Ed;
      destruct (send_resend_request_shape _ _ _ _ _ Ed) as (Hx & _); destruct nx; inv E; lia.
  - eapply do_target_too_low_mono; exact E.
  - inv E. rewrite logout_tgt. lia.
  - inv E. cbn [incr_tgt upd_store s_tgt]. rewrite do_reject_tgt. lia.
  - destruct ((reason =? 9) || (reason =? 10)); inv E; cbn [incr_tgt upd_store s_tgt]; rewrite ?logout_tgt, ?do_reject_tgt; lia.
Qed.

Lemma in_session_mono s m s1 st : type_ok m = true -> in_session_fix_msg_in s m = (s1, st) -> s_tgt s <= s_tgt s1.
Proof.
  intros Ht E. unfold in_session_fix_msg_in in E.
  rewrite (type_ok_not_logon m Ht), (type_ok_not_logout m Ht), (type_ok_not_resendreq m Ht) in E.
  destruct (beq_bytes (mi_type m) T_SEQRESET) eqn:T4.
  { unfold handle_sequence_reset in E.
    destruct (mi_gapfill m) as [| |g].
    - destruct (verify_select s m false false true) as [sv [r|]] eqn:Ev; pose proof (verify_select_tgt _ _ _ _ _ _ _ Ev) as Hv.
      + apply process_reject_mono in E. lia.
      + destruct (mi_newseq m) as [| |n]; try (inv E; lia).
        destruct (Z.ltb_spec (s_tgt sv) n); [inv E; cbn [set_tgt upd_store s_tgt]; lia|].
        destruct (n <? s_tgt sv); inv E; rewrite ?do_reject_tgt; lia.
    - apply process_reject_mono in E. exact E.
    - match type of E with context [verify_select s m ?a ?b true] => destruct (verify_select s m a b true) as [sv [r|]] eqn:Ev end;
        pose proof (verify_select_tgt _ _ _ _ _ _ _ Ev) as Hv.
      + apply process_reject_mono in E. lia.
      + destruct (mi_newseq m) as [| |n]; try (inv E; lia).
        destruct (Z.ltb_spec (s_tgt sv) n); [inv E; cbn [set_tgt upd_store s_tgt]; lia|].
        destruct (n <? s_tgt sv); inv E; rewrite ?do_reject_tgt; lia. }
  destruct (beq_bytes (mi_type m) T_TESTREQ).
  { unfold handle_test_request, verify in E.
    destruct (verify_select s m true true true) as [sv [r|]] eqn:Ev; pose proof (verify_select_tgt _ _ _ _ _ _ _ Ev) as Hv.
    - apply process_reject_mono in E. lia.
    - inv E. cbn [incr_tgt upd_store s_tgt]. destruct (mi_testreq m); [rewrite send_keeps_tgt by reflexivity|]; lia. }
  unfold verify in E.
  destruct (verify_select s m true true true) as [sv [r|]] eqn:Ev; pose proof (verify_select_tgt _ _ _ _ _ _ _ Ev) as Hv.
  - apply process_reject_mono in E. lia.
  - inv E. cbn [incr_tgt upd_store s_tgt]. lia.
Qed.

(* ---------- the drain loop keeps every message above the expected number it ends with ---------- *)
Lemma stash_take_other : forall k0 l m l1, stash_take k0 l = Some (m, l1) ->
  forall k, In k (keys l) -> k <> k0 -> In k (keys l1).
Proof.
  induction l as [|[k' m0] r IH]; intros m l1 H k Hk Hne; cbn [stash_take] in H; [discriminate|].
  cbn [keys map fst In] in Hk. fold (keys r) in Hk.
  destruct (Z.eqb_spec k' k0) as [->|Hn].
  - inv H. destruct Hk as [Hk|Hk]; [congruence | exact Hk].
  - destruct (stash_take k0 r) as [[x r']|] eqn:E; [|discriminate]. inv H.
    cbn [keys map fst In]. destruct Hk as [Hk|Hk]; [left; exact Hk | right; exact (IH _ _ eq_refl k Hk Hne)].
Qed.

Definition typed (l : list (Z * minput)) : Prop := forall n x, In (n, x) l -> type_ok x = true.

Lemma drain_keeps_high : forall fuel s l next s2 l' next2 still,
  resend_drain fuel s l next = (s2, l', next2, still) -> typed l ->
  s_tgt s <= s_tgt s2 /\ forall k, In k (keys l) -> s_tgt s2 < k -> In k (keys l').
Proof.
  induction fuel as [|f IH]; intros s l next s2 l' next2 still E Ht; cbn [resend_drain] in E.
  - inv E. split; [lia | intros k Hk _; exact Hk].
  - destruct (stash_take (s_tgt s) l) as [[m l1]|] eqn:Et; [|inv E; split; [lia | intros k Hk _; exact Hk]].
    destruct (stash_take_some _ _ _ _ Et) as (Hin & Hsub & _).
    destruct (in_session_fix_msg_in s m) as [s1 n1] eqn:Ei.
    pose proof (in_session_mono s m s1 n1 (Ht _ _ Hin) Ei) as Hm.
    destruct (negb (is_logged_on n1)).
    + inv E. split; [exact Hm|]. intros k Hk Hlt. apply (stash_take_other _ _ _ _ Et k Hk). lia.
    + assert (Ht1 : typed l1) by (intros n x Hx; apply (Ht n x), Hsub, Hx).
      destruct (IH _ _ _ _ _ _ _ E Ht1) as [A1 A2]. split; [lia|].
      intros k Hk Hlt. apply A2; [|exact Hlt]. apply (stash_take_other _ _ _ _ Et k Hk). lia.
Qed.

(* resendState.FixMsgIn: the kept messages above the new expected number survive *)
Lemma rs_keeps_high : forall s l ce re m s' next',
  unwrap_pending (s_st s) = SResend (Some l) ce re -> RI s -> LB s -> typed l ->
  resend_state_fix_msg_in s (Some l) ce re m = (s', next') ->
  forall st' c' e', unwrap_pending next' = SResend st' c' e' ->
  forall k, In k (keys l) -> s_tgt s' < k -> In k (keys (olist st')).
Proof.
  intros s l ce re m s' next' Hu Hri Hlb Hty E st' c' e' Hu' k Hk Hlt.
  pose proof Hri as Hri0. unfold RI, RIst in Hri. rewrite Hu in Hri. destruct Hri as (_ & _ & Hnk & Hwk).
  unfold resend_state_fix_msg_in in E.
  destruct (in_session_fix_msg_in s m) as [s1 next] eqn:Ei.
  destruct (negb (is_logged_on next)) eqn:El.
  { inv E. apply negb_true_iff in El. exfalso. eapply (not_logged_on_not_resend _ El). exact Hu'. }
  fold (olist (shared_stash (Some l) next)) in E.
  (* the list the drain runs over holds every old key, is typed and well-keyed *)
  assert (Hsh : (not_resend_st next /\ shared_stash (Some l) next = Some l)
                \/ (exists recv, s1 = s /\ next = SResend (Some (stash_insert recv m l)) ce re
                                 /\ shared_stash (Some l) next = Some (stash_insert recv m l)
                                 /\ type_ok m = true /\ mi_seq m = FVal recv /\ s_tgt s < recv)).
  { destruct (in_session_char2 s m s1 next Ei) as [Hnr|(Hty2 & recv & Hsq & Hgt & Ep)].
    - left. split; [exact Hnr | apply shared_stash_not_resend; exact Hnr].
    - right. cbn [process_reject] in Ep. rewrite Hu in Ep. inv Ep. exists recv. repeat split; assumption. }
  set (lsh := olist (shared_stash (Some l) next)) in *.
  assert (Hkeys : forall k0, In k0 (keys l) -> In k0 (keys lsh)).
  { intros k0 Hk0. unfold lsh. destruct Hsh as [[_ ->]|(recv & _ & _ & -> & _)]; [exact Hk0|]. cbn [olist].
    apply keys_in in Hk0 as [x Hx]. apply keys_in.
    destruct (Z.eq_dec k0 recv) as [->|Hne].
    - exists m. apply stash_insert_in. left; reflexivity.
    - exists x. apply stash_insert_in. right. split; [exact Hx | exact Hne]. }
  assert (Htl : typed lsh).
  { unfold lsh. destruct Hsh as [[_ ->]|(recv & _ & _ & -> & Hty2 & _)]; [exact Hty|]. cbn [olist].
    intros n x Hx. apply stash_insert_in in Hx as [Hx|[Hx _]]; [inv Hx; exact Hty2 | exact (Hty n x Hx)]. }
  assert (Hwl : wk lsh).
  { unfold lsh. destruct Hsh as [[_ ->]|(recv & _ & _ & -> & _ & Hsq & Hgt)]; [exact Hwk|]. cbn [olist].
    unfold LB in Hlb. apply wk_insert; [exact Hsq | lia | exact Hwk]. }
  destruct (resend_drain (S (length lsh)) s1 lsh next) as [[[s2 l'] next2] still] eqn:Ed.
  destruct (drain_keeps_high _ _ _ _ _ _ _ _ Ed Htl) as [D1 D2].
  destruct (resend_drain_spec _ _ _ _ _ _ _ _ Hwl (Nat.lt_succ_diag_r _) Ed) as (_ & A2 & A3).
  destruct still; cbn [negb] in E.
  2: { inv E. exfalso. eapply (A3 eq_refl). exact Hu'. }
  destruct (A2 eq_refl) as [_ B2].
  assert (Hst' : match shared_stash (Some l) next with Some _ => Some l' | None => None end = Some l').
  { destruct Hsh as [[_ ->]|(recv & _ & _ & -> & _)]; reflexivity. }
  rewrite Hst' in E.
  (* every exit that stays in the resend state carries l' and the expected number of s2 *)
  assert (Hfin : forall x c e, s_tgt x = s_tgt s2 -> (x, SResend (Some l') c e) = (s', next') -> In k (keys (olist st'))).
  { intros x c e Hx Eq. inv Eq. cbn [unwrap_pending] in Hu'. inv Hu'. cbn [olist]. apply D2; [apply Hkeys; exact Hk | lia]. }
  assert (Hreq : forall s3 st3, send_resend_request s2 (s_tgt s2) re = (s3, st3) ->
            match st3 with SResend _ c e => (s3, SResend (Some l') c e) | other => (s3, other) end = (s', next') ->
            In k (keys (olist st'))).
  { intros s3 st3 Er Eq. destruct (send_resend_request_shape _ _ _ _ _ Er) as (Hx & c3 & -> & _).
    eapply Hfin; [exact Hx | exact Eq]. }
  assert (Hnext2 : (s2, next2) = (s', next') -> In k (keys (olist st'))).
  { intros Eq. inv Eq. destruct B2 as [[-> ->]|B2]; [|exfalso; eapply B2; exact Hu'].
    destruct Hsh as [[Hnr _]|(recv & -> & -> & Hs & _)]; [exfalso; eapply Hnr; exact Hu'|].
    cbn [unwrap_pending] in Hu'. inv Hu'. cbn [olist]. unfold lsh in Hkeys. rewrite Hs in Hkeys. apply Hkeys. exact Hk. }
  match type of E with (if ?c then _ else _) = _ => destruct c end.
  { destruct (send_resend_request s2 (s_tgt s2) re) as [s3 st3] eqn:Er. eapply Hreq; [reflexivity | exact E]. }
  destruct (mi_gapfill m) as [| |g].
  - cbn [andb] in E. destruct (s_tgt s2 <=? re); [eapply Hfin; [reflexivity | exact E] | exact (Hnext2 E)].
  - inv E. cbn [unwrap_pending] in Hu'. discriminate Hu'.
  - match type of E with (if ?c then _ else _) = _ => destruct c end.
    + destruct (send_resend_request s2 (s_tgt s2) re) as [s3 st3] eqn:Er. eapply Hreq; [reflexivity | exact E].
    + destruct (s_tgt s2 <=? re); [eapply Hfin; [reflexivity | exact E] | exact (Hnext2 E)].
Qed.

Lemma ts_typed s l ce re : TS s -> unwrap_pending (s_st s) = SResend (Some l) ce re -> typed l.
Proof. intros Hts Hu n x Hx. apply (Hts n x). unfold stash_of_st. rewrite Hu. exact Hx. Qed.

(* (b1) as a step *)
Lemma step_keeps_high s m l ce re :
  unwrap_pending (s_st s) = SResend (Some l) ce re -> RI s -> LB s -> TS s ->
  let s' := step s (EIncoming m) in
  is_logged_on (s_st s') = true ->
  forall st' c' e', unwrap_pending (s_st s') = SResend st' c' e' ->
  forall k, In k (keys l) -> s_tgt s' < k -> In k (keys (olist st')).
Proof.
  intros Hu Hri Hlb Hts s'. unfold s'. clear s'. unfold step, step_event, incoming, incoming_with.
  set (c := clear_logs s).
  assert (Huc : unwrap_pending (s_st c) = SResend (Some l) ce re) by exact Hu.
  assert (Hrec : recovering (s_st c)) by (exists (Some l), ce, re; exact Hu).
  rewrite (recovering_connected _ Hrec). cbn [negb].
  rewrite (state_fix_recovering _ c m _ _ _ Huc).
  destruct (resend_state_fix_msg_in c (Some l) ce re m) as [s1 next] eqn:E.
  rewrite s_st_set_state_with. intros Hl. fold (set_state s1 next).
  rewrite (set_state_connected s1 next (logged_on_connected _ Hl)). cbn [upd_st s_tgt].
  intros st' c' e' Hu' k Hk Hlt.
  exact (rs_keeps_high c l ce re m s1 next Hu Hri Hlb (ts_typed s l ce re Hts Hu) E st' c' e' Hu' k Hk Hlt).
Qed.

(* ---------- (a): the pending disconnect is cancelled ---------- *)
Lemma hstate_not_is_pending st : hstate st = true -> is_pending st = false.
Proof. destruct st; cbn; intros H; try reflexivity; discriminate H. Qed.

Lemma pending_logged_on_connected st : is_logged_on st = true -> is_connected st = true.
Proof. apply logged_on_connected. Qed.

Lemma incoming_cancels x mm : is_logged_on (s_st (incoming x (Some mm))) = true -> is_pending (s_st (incoming x (Some mm))) = false.
Proof.
  unfold incoming, incoming_with. destruct (is_connected (s_st x)) eqn:Ec; cbn [negb].
  - destruct (state_fix_msg_in (s_st x) x mm) as [s1 next] eqn:E. rewrite s_st_set_state_with. intros _.
    apply hstate_not_is_pending. exact (hs_state_fix_msg_in _ _ _ _ _ Ec E).
  - intros Hl. rewrite (logged_on_connected _ Hl) in Ec. discriminate Ec.
Qed.

Lemma incoming_pending x m : is_pending (s_st (incoming x m)) = true -> incoming x m = x.
Proof.
  unfold incoming, incoming_with. destruct (negb (is_connected (s_st x))) eqn:Ec; [reflexivity|].
  destruct m as [mm|]; [|reflexivity].
  destruct (state_fix_msg_in (s_st x) x mm) as [s1 next] eqn:E. rewrite s_st_set_state_with. intros Hp.
  apply negb_false_iff in Ec. rewrite (hstate_not_is_pending _ (hs_state_fix_msg_in _ _ _ _ _ Ec E)) in Hp. discriminate Hp.
Qed.

Lemma deliver_cancels s : BS s -> length (s_in_buf s) = 1%nat -> length (s_in_buf (step s EDeliver)) = 0%nat ->
  is_logged_on (s_st (step s EDeliver)) = true -> is_pending (s_st (step s EDeliver)) = false.
Proof.
  intros Hbs H1 H0. unfold step, step_event in *.
  change (s_in_buf (clear_logs s)) with (s_in_buf s) in *. change (s_in_open (clear_logs s)) with (s_in_open s) in *.
  destruct (negb (s_in_open s)).
  { change (s_in_buf (clear_logs s)) with (s_in_buf s) in H0. rewrite H1 in H0. discriminate H0. }
  destruct (s_in_buf s) as [|x r] eqn:Eb; [discriminate H1|].
  assert (Hx : x <> None) by (apply Hbs; rewrite Eb; left; reflexivity).
  destruct x as [mm|]; [|exfalso; apply Hx; reflexivity].
  apply incoming_cancels.
Qed.

(* ---------- the invariant PQ: while a TestRequest is pending the outbound queue holds no ResendRequest ---------- *)
Definition PQ (s : sess) : Prop := is_pending (s_st s) = true -> norr (s_to_send s) = true.

Definition no_app_rr (s : sess) (e : event) : Prop :=
  match e with EAppSend t _ _ => is_pending (s_st s) = true -> beq_bytes t T_RESENDREQ = false | _ => True end.

Lemma send_flushes s t body : is_logged_on (s_st s) = true -> s_out_open s = true -> s_to_send (send s t body) = [].
Proof.
  intros Hl Ho. unfold send, send_in_reply_to. rewrite Hl. cbn [negb].
  destruct (prep s t [] body None true) as [s1 [m|]] eqn:E.
  - destruct (prep_proj _ _ _ _ _ _ _ _ E) as (_ & _ & _).
    assert (Ho1 : s_out_open s1 = true).
    { pose proof (fr_prep s _ _ _ _ _ _ _ _ E (same_refl s)) as (S1 & _). rewrite S1. exact Ho. }
    unfold send_queued. change (s_out_open (enqueue s1 m)) with (s_out_open s1). rewrite Ho1. reflexivity.
  - unfold prep in E. destruct (is_admin t); inv E.
Qed.

Lemma queue_for_send_norr s t hdr body ir ok : beq_bytes t T_RESENDREQ = false -> norr (s_to_send s) = true ->
  norr (s_to_send (queue_for_send s t hdr body ir ok)) = true.
Proof.
  intros Ht Hq. unfold queue_for_send. destruct (prep s t hdr body ir ok) as [s1 [m|]] eqn:E;
    destruct (prep_proj _ _ _ _ _ _ _ _ E) as (_ & P2 & P3).
  - cbn [enqueue upd_to_send s_to_send]. rewrite P2, norr_app, Hq. cbn [norr forallb].
    unfold notrr, is_type. rewrite (P3 m eq_refl), Ht. reflexivity.
  - rewrite P2. exact Hq.
Qed.

Lemma set_state_same_to_send s : s_to_send (set_state s (s_st s)) = s_to_send s.
Proof.
  unfold set_state, set_state_with. destruct (is_connected (s_st s)) eqn:Ec; cbn [negb]; [reflexivity|].
  destruct (s_pending_stop s); reflexivity.
Qed.

Lemma is_pending_ex st : is_pending st = true -> exists j, st = SPending j.
Proof. destruct st; cbn; intros H; try discriminate H. eexists; reflexivity. Qed.

Lemma step_pq : forall s e, Boundary s -> PQ s -> no_app_rr s e -> PQ (step s e).
Proof.
  intros s e Hb0 Hpq0 Hok0. unfold PQ. intros Hp. unfold step in *.
  assert (Hpq : PQ (clear_logs s)) by exact Hpq0.
  assert (Hb : Boundary (clear_logs s)) by exact Hb0.
  assert (Hok : no_app_rr (clear_logs s) e) by exact Hok0.
  set (c := clear_logs s) in *. clearbody c. clear Hpq0 Hb0 Hok0.
  assert (Hkeep : forall x, step_event c e = x -> s_st x = s_st c -> s_to_send x = s_to_send c ->
            norr (s_to_send (step_event c e)) = true).
  { intros x Hx H1 H2. rewrite Hx in Hp |- *. rewrite H1 in Hp. rewrite H2. exact (Hpq Hp). }
  destruct e; cbn [step_event] in *.
  - (* connect *)
    unfold connect in *. destruct (is_connected (s_st c)) eqn:Ec; [exact (Hpq Hp)|].
    destruct (negb (initiator _)); rewrite s_st_set_state in Hp; discriminate Hp.
  - destruct (_ && _); eapply Hkeep; reflexivity.
  - destruct (negb (s_in_open c)); [eapply Hkeep; reflexivity|].
    destruct (s_in_buf c) as [|m r]; [eapply Hkeep; reflexivity|].
    eapply Hkeep; [exact (incoming_pending _ _ Hp) | reflexivity | reflexivity].
  - eapply Hkeep; [exact (incoming_pending _ _ Hp) | reflexivity | reflexivity].
  - eapply Hkeep; [exact (incoming_pending _ _ Hp) | reflexivity | reflexivity].
  - destruct (is_connected (s_st c)); [|eapply Hkeep; reflexivity].
    rewrite s_st_set_state in Hp. discriminate Hp.
  - (* timeout *)
    destruct (state_timeout (s_st c) c e) as [s1 next] eqn:E. rewrite s_st_set_state in Hp.
    destruct (is_pending_ex _ Hp) as [j Hj].
    destruct (state_timeout_pending _ _ _ _ _ j E Hj) as [(i & H1 & H2 & ->)|(-> & -> & Hst & ->)].
    + rewrite H2. rewrite set_state_same_to_send. apply Hpq. rewrite H1. reflexivity.
    + assert (Hl : is_logged_on (s_st c) = true) by (destruct Hst as [->|(a & b0 & d & ->)]; reflexivity).
      assert (Ho : s_out_open c = true) by (destruct Hb as [B1 _]; exact (proj1 (B1 (logged_on_connected _ Hl)))).
      subst next. rewrite (set_state_connected _ (SPending (s_st c)) (logged_on_connected _ Hl)).
      cbn [upd_st s_to_send]. rewrite (send_flushes c _ _ Hl Ho). reflexivity.
  - (* app send *)
    assert (Hs : Same c (queue_for_send c t [] body None ok)) by fr_go.
    rewrite (same_st _ _ Hs) in Hp.
    apply queue_for_send_norr; [exact (Hok Hp) | exact (Hpq Hp)].
  - (* flush *)
    destruct (is_logged_on (s_st c)); [|reflexivity].
    unfold send_queued in *. destruct (s_out_open c); [reflexivity | exact (Hpq Hp)].
  - (* stop *)
    match type of Hp with context [state_stop ?a ?b0] => destruct (state_stop a b0) as [s1 next] eqn:E end.
    rewrite s_st_set_state in Hp. destruct (is_pending_ex _ Hp) as [j Hj].
    exfalso. exact (state_stop_not_pending _ _ _ _ E j Hj).
  - (* reset time *)
    destruct (is_connected (s_st c)) eqn:Ec; [|eapply Hkeep; reflexivity].
    assert (Ho : s_out_open c = true) by (destruct Hb as [B1 _]; exact (proj1 (B1 Ec))).
    destruct (reset_logon_reply c None Ho) as (lg & _ & _ & _ & _ & _ & Hq). rewrite Hq. reflexivity.
Qed.

Lemma init_pq c : PQ (init_sess c).
Proof. intros H. discriminate H. Qed.

(* ---------- (b2): a ResendRequest on the wire is the next chunk ---------- *)
Lemma norr_no_request l rq : norr l = true -> In rq (resend_requests (rev l)) -> False.
Proof.
  intros Hn Hi. unfold resend_requests in Hi. apply filter_In in Hi as [Hi Ht]. apply in_rev in Hi.
  unfold norr in Hn. rewrite forallb_forall in Hn. specialize (Hn rq Hi). unfold notrr in Hn. rewrite Ht in Hn. discriminate Hn.
Qed.

Lemma step_request_is_chunk s m l ce re :
  Boundary s -> RI s -> CI s -> PQ s -> is_pending (s_st s) = true ->
  unwrap_pending (s_st s) = SResend (Some l) ce re ->
  let s' := step s (EIncoming m) in
  is_logged_on (s_st s') = true ->
  forall rq, In rq (resend_requests (rev (s_wire s'))) -> ce <> 0 /\ ce <= s_tgt s'.
Proof.
  intros Hb Hri Hci Hpq Hp Hu s'. unfold s'. clear s'.
  set (c := clear_logs s).
  assert (Hst : step s (EIncoming m) = incoming c (Some m)) by reflexivity. rewrite Hst.
  assert (Hrec : recovering (s_st c)) by (exists (Some l), ce, re; exact Hu).
  assert (Ho : s_out_open c = true) by (destruct Hb as [B1 _]; exact (proj1 (B1 (recovering_connected _ Hrec)))).
  intros Hl rq Hrq.
  destruct (incoming_req c m (Some l) ce re Hu Hri Hci Ho eq_refl (or_intror (logged_on_connected _ Hl))) as [H0|(_ & _ & Hne & Hle & _)];
    [|split; assumption].
  exfalso.
  (* nothing created: the request would have to come out of the queue *)
  unfold incoming, incoming_with in *. rewrite (recovering_connected _ Hrec) in *. cbn [negb] in *.
  destruct (state_fix_msg_in (s_st c) c m) as [s1 next] eqn:E.
  rewrite s_st_set_state_with in Hl. fold (set_state s1 next) in *.
  rewrite (set_state_connected s1 next (logged_on_connected _ Hl)) in *.
  cbn [upd_st s_cbs s_wire] in *.
  destruct (rq_state_fix_msg_in c _ _ _ _ _ E (rq_refl c)) as (new & N1 & N2).
  change (rrf (s_cbs c)) with (@nil cb) in N1. rewrite app_nil_r in N1. rewrite H0 in N1.
  assert (Hw : Wq c) by (split; [reflexivity | exact (Hpq Hp)]).
  destruct (N2 (eq_sym N1) Hw) as [W1 _].
  exact (norr_no_request _ _ W1 Hrq).
Qed.

(* ---------- clause 2005, one event ---------- *)
Lemma shape_resend_some st keys0 cur r :
  shape_of (unwrap_pending st) = ShResend true keys0 cur r ->
  exists l, unwrap_pending st = SResend (Some l) cur r /\ keys0 = keys l.
Proof.
  destruct (unwrap_pending st) as [| | | | | [l|] c e | j]; cbn [shape_of]; intros H; try discriminate H.
  inv H. exists l. split; reflexivity.
Qed.

Lemma sh_pending_is st : sh_is_pending (shape_of st) = is_pending st.
Proof. destruct st; reflexivity. Qed.

Lemma c20_event_2005 : forall i s e, Boundary s -> RI s -> LB s -> CI s -> TS s -> BS s -> PQ s ->
  free_of [2005] (c20_event (s_cfg s) i (obs_of s) e (obs_of (step s e))) = true.
Proof.
  intros i s e Hb Hri Hlb Hci Hts Hbs Hpq. unfold c20_event. cbn [c20_scan]. rewrite app_nil_r.
  destruct e as [| | |m| | |t| | | |]; try reflexivity.
  - (* deliver *)
    match goal with |- free_of _ (if ?x then _ else _) = true => destruct x eqn:Ec; [|reflexivity] end.
    exfalso.
    apply andb_true_iff in Ec as [Ec _]. apply andb_true_iff in Ec as [Ec E5]. apply andb_true_iff in Ec as [Ec E4].
    apply andb_true_iff in Ec as [Ec E3]. apply andb_true_iff in Ec as [E1 E2].
    change (ob_st (obs_of (step s EDeliver))) with (shape_of (s_st (step s EDeliver))) in E4, E5.
    rewrite sh_logged_on_shape in E4. rewrite sh_pending_is in E5.
    change (ob_inbuf (obs_of s)) with (Z.of_nat (length (s_in_buf s))) in E2.
    change (ob_inbuf (obs_of (step s EDeliver))) with (Z.of_nat (length (s_in_buf (step s EDeliver)))) in E3.
    apply Z.eqb_eq in E2. apply Z.eqb_eq in E3.
    rewrite (deliver_cancels s Hbs ltac:(lia) ltac:(lia) E4) in E5. discriminate E5.
  - (* incoming *)
    rewrite !free_of_app. apply andb_true_iff; split; [free_rest|]. apply andb_true_iff; split; [|free_rest].
    match goal with |- free_of _ (if ?x then _ else _) = true => destruct x eqn:Ec; [|reflexivity] end.
    apply andb_true_iff in Ec as [Ec E3]. apply andb_true_iff in Ec as [E1 E2].
    change (ob_st (obs_of s)) with (shape_of (s_st s)) in *.
    change (ob_st (obs_of (step s (EIncoming m)))) with (shape_of (s_st (step s (EIncoming m)))) in *.
    rewrite sh_logged_on_shape in E3. rewrite sh_pending_is in E1.
    change (ob_inbuf (obs_of s)) with (Z.of_nat (length (s_in_buf s))) in E2. apply len0 in E2.
    rewrite free_of_app. apply andb_true_iff; split.
    + (* (a) *)
      rewrite sh_pending_is.
      assert (Hc : is_pending (s_st (step s (EIncoming m))) = false) by (apply (incoming_cancels (clear_logs s) m); exact E3).
      rewrite Hc. reflexivity.
    + (* (b) *)
      rewrite !shape_unwrap.
      destruct (shape_of (unwrap_pending (s_st s))) as [| | | | |hm keys0 cur r0|j0] eqn:Esh; try reflexivity.
      destruct hm; [|reflexivity].
      destruct (shape_resend_some _ _ _ _ Esh) as (l & Hu & ->).
      destruct (unwrap_pending (s_st (step s (EIncoming m)))) as [| | | | | st' c' e' | j'] eqn:Hu'; cbn [shape_of]; try reflexivity.
      match goal with |- free_of _ (if ?x then _ else _) = true => replace x with true; [reflexivity|] end.
      symmetry. apply andb_true_iff. split.
      * unfold subset_keys. apply forallb_forall. intros k Hk. apply filter_In in Hk as [Hk Hlt]. apply Z.ltb_lt in Hlt.
        change (ob_tgt (obs_of (step s (EIncoming m)))) with (s_tgt (step s (EIncoming m))) in Hlt.
        apply existsb_eqb_in.
        pose proof (step_keeps_high s m l cur r0 Hu Hri Hlb Hts E3 st' c' e' Hu' k Hk Hlt) as Hin.
        destruct st' as [l2|]; exact Hin.
      * apply forallb_forall. intros rq Hrq.
        change (ob_wire (obs_of (step s (EIncoming m)))) with (rev (s_wire (step s (EIncoming m)))) in Hrq.
        change (ob_tgt (obs_of (step s (EIncoming m)))) with (s_tgt (step s (EIncoming m))).
        destruct (step_request_is_chunk s m l cur r0 Hb Hri Hci Hpq E1 Hu E3 rq Hrq) as [Hne Hle].
        apply andb_true_iff. split; [apply negb_true_iff, Z.eqb_neq; exact Hne | apply Z.leb_le; exact Hle].
  - free_rest.
Qed.

(* ---------- trace level ---------- *)
Fixpoint pending_clean (es : list event) (s : sess) : Prop :=
  match es with
  | [] => True
  | e :: r => no_app_rr s e /\ pending_clean r (step s e)
  end.

Lemma c20_scan_2005 : forall es s i, Boundary s -> RI s -> LB s -> CI s -> TS s -> BS s -> PQ s -> pending_clean es s ->
  free_of [2005] (c20_scan (s_cfg s) i (obs_of s) (combine es (map obs_of (run_trace es s)))) = true.
Proof.
  induction es as [|e r IH]; intros s i Hb Hri Hlb Hci Hts Hbs Hpq Hq; cbn [run_trace map combine]; [reflexivity|].
  destruct Hq as [Hq Hqr].
  rewrite c20_scan_cons, free_of_app. apply andb_true_iff; split.
  - apply c20_event_2005; assumption.
  - rewrite <- (step_cfg (s_cfg s) s e eq_refl).
    apply IH; [apply step_boundary | apply step_ri | apply step_lb | apply step_ci | apply step_ts | apply step_bs | apply step_pq | ]; assumption.
Qed.

(* C20, trace level: clause 2005 never fails on a trace in which the application sends no ResendRequest of its own while a
   TestRequest is pending *)
Theorem c20_inbound_cancels_pending : forall c es, pending_clean es (init_sess c) ->
  free_of [2005] (c20_check c (combine es (map obs_of (run_trace es (init_sess c))))) = true.
Proof.
  intros c es Hq. unfold c20_check.
  apply (c20_scan_2005 es (init_sess c));
    [apply init_boundary | apply init_ri | apply init_lb | apply init_ci | apply init_ts | apply init_bs | apply init_pq | exact Hq].
Qed.

(* a syntactic sufficient condition: the application never sends a ResendRequest through SendToTarget *)
Definition no_app_resend_request (e : event) : Prop :=
  match e with EAppSend t _ _ => beq_bytes t T_RESENDREQ = false | _ => True end.

Lemma no_app_resend_request_clean : forall es s, Forall no_app_resend_request es -> pending_clean es s.
Proof.
  induction es as [|e r IH]; intros s Hf; cbn [pending_clean]; [exact I|].
  inversion Hf as [|? ? Hp Hr]; subst. split; [|apply IH; exact Hr].
  destruct e; try exact I. intros _. exact Hp.
Qed.

Theorem c20_inbound_cancels_pending_plain : forall c es, Forall no_app_resend_request es ->
  free_of [2005] (c20_check c (combine es (map obs_of (run_trace es (init_sess c))))) = true.
Proof. intros c es Hf. apply c20_inbound_cancels_pending. apply no_app_resend_request_clean. exact Hf. Qed.

(* ---------- witnesses ---------- *)
Definition pdx_testreq (n : Z) (id : bytes) : minput :=
  {| mi_type := T_TESTREQ; mi_begin := B "FIX.4.2"; mi_sender := Some (B "T"); mi_target := Some (B "S"); mi_seq := FVal n;
     mi_possdup := FAbsent; mi_stime := FVal 0; mi_otime := FAbsent; mi_gapfill := FAbsent; mi_newseq := FAbsent;
     mi_beginseq := FAbsent; mi_endseq := FAbsent; mi_reset := FAbsent; mi_hbint := FVal 30; mi_testreq := Some id;
     mi_applver := None; mi_route := []; mi_body := []; mi_app := VAccept; mi_valid := VAccept; mi_refuse := [] |}.

(* the guards fire and the hypothesis holds: chunk size 2.  Logon; application message 6 (gap 2..5: request [2,3], kept 6);
   peer timeout (TestRequest, pending); Heartbeat 2 (pending cancelled, recovery undisturbed); application message 8 (kept);
   peer timeout again; Heartbeat 3: the pending disconnect is cancelled, 6 and 8 are still kept, and the one ResendRequest
   written is the next chunk (the chunk end 3 is below the new expected number 4) *)
Definition pdx_trace : list event :=
  [EConnect; EIncoming (c04x_msg T_LOGON 1); EIncoming (c04x_msg (B "D") 6); ETimeout PeerTimeout;
   EIncoming (c04x_msg T_HEARTBEAT 2); EIncoming (c04x_msg (B "D") 8); ETimeout PeerTimeout; EIncoming (c04x_msg T_HEARTBEAT 3)].
Lemma pdx_trace_plain : Forall no_app_resend_request pdx_trace.
Proof. repeat constructor. Qed.
Lemma pdx_trace_recovers :
  map (fun o => (ob_st (snd o), ob_tgt (snd o), wire_types (ob_wire (snd o)))) (c04x_run (c04x_cfg 2) pdx_trace)
  = [(ShLogon, 1, []); (ShInSession, 2, [T_LOGON]); (ShResend true [6] 3 5, 2, [T_RESENDREQ]);
     (ShPending (ShResend true [6] 3 5), 2, [T_TESTREQ]); (ShResend true [6] 3 5, 3, []);
     (ShResend true [8; 6] 3 5, 3, []); (ShPending (ShResend true [8; 6] 3 5), 3, [T_TESTREQ]);
     (ShResend true [8; 6] 0 5, 4, [T_RESENDREQ])]
  /\ c20_check (c04x_cfg 2) (c04x_run (c04x_cfg 2) pdx_trace) = [].
Proof. vm_compute. split; reflexivity. Qed.

(* REFUTED without the hypothesis (no chunking: the chunk end is 0).  While the TestRequest is pending the application sends
   a ResendRequest of its own through SendToTarget: it is queued.  The peer's TestRequest 2 is then answered by a Heartbeat,
   and sending it flushes the queue: a ResendRequest is written that is not a chunk of the recovery.  Clause 2005 fails at
   event 5. *)
Definition pdx_app_rr_trace : list event :=
  [EConnect; EIncoming (c04x_msg T_LOGON 1); EIncoming (c04x_msg (B "D") 5); ETimeout PeerTimeout;
   EAppSend T_RESENDREQ [] true; EIncoming (pdx_testreq 2 (B "X"))].
Lemma c20_2005_app_resend_request_refuted :
  exists c es, c20_check c (combine es (map obs_of (run_trace es (init_sess c)))) = [(5%nat, 2005)].
Proof. exists (c04x_cfg 0), pdx_app_rr_trace. vm_compute. reflexivity. Qed.
