(* C03: the reply written by resendMessages is an exact, contiguous cover of the requested range.
   Hypothesis `range_stored`: every number of the range is in the store (what persisting every assigned number gives). *)
From Coq Require Import String.
From Coq Require Import ZArith List Bool Lia.
From QF Require Import Base.Bytes Session.Types Session.Model Session.Spec Session.C01Proofs Session.LocalProofs.
Import ListNotations.
Open Scope list_scope.
Open Scope Z_scope.

Lemma chain_app : forall hist refuse l1 l2 pos,
  c03_chain hist refuse pos (l1 ++ l2)
  = match c03_chain hist refuse pos l1 with inl p => c03_chain hist refuse p l2 | inr c => inr c end.
Proof.
  induction l1 as [|m r IH]; intros l2 pos; cbn [app c03_chain]; [reflexivity|].
  repeat match goal with
         | |- context [if ?x then _ else _] => destruct x
         | |- context [match field_of ?a ?b with _ => _ end] => destruct (field_of a b)
         | |- context [match lookup_msg ?a ?b with _ => _ end] => destruct (lookup_msg a b)
         end; try reflexivity; apply IH.
Qed.

Lemma body_eq_refl : forall b, body_eq b b = true.
Proof.
  induction b as [|[t v] r IH]; cbn; [reflexivity|]. rewrite Z.eqb_refl, beq_bytes_refl. exact IH.
Qed.

Lemma zrange_in : forall n from k, In k (zrange from n) <-> from <= k < from + Z.of_nat n.
Proof.
  induction n as [|n IH]; intros from k; cbn [zrange In].
  - split; [contradiction | lia].
  - rewrite IH. lia.
Qed.

Lemma no_replayable_range hist refuse pos t :
  (forall k, pos <= k < t -> replayable hist refuse k = false) ->
  existsb (replayable hist refuse) (zrange pos (Z.to_nat (t - pos))) = false.
Proof.
  intros H. destruct (existsb _ _) eqn:E; [|reflexivity].
  apply existsb_exists in E as [k [Hk Hr]]. apply zrange_in in Hk.
  rewrite H in Hr; [discriminate | lia].
Qed.

(* one gap fill [from, to) extends a chain ending at `from` when nothing replayable lies in it *)
Lemma chain_gapfill : forall s from to ir hist refuse,
  from < to -> (forall k, from <= k < to -> replayable hist refuse k = false) ->
  let w := {| o_type := T_SEQRESET; o_seq := from;
              o_hdr := [(43, B "Y"); (122, B "T")] ++ default_hdr s (Some ir);
              o_body := [(36, itoa to); (123, B "Y")] |} in
  dec_z (itoa to) = to ->
  c03_chain hist refuse from [w] = inl to.
Proof.
  intros s from to ir hist refuse Hlt Hno w Hdec. cbn [c03_chain].
  change (is_possdup w) with true. cbn [negb]. change (o_seq w) with from. rewrite Z.eqb_refl. cbn [negb].
  change (is_type T_SEQRESET w) with true. cbn iota.
  change (field_of 36 (o_body w)) with (Some (itoa to)). change (field_of 123 (o_body w)) with (Some (B "Y")).
  change (beq_bytes (B "Y") (B "Y")) with true. cbn [negb]. rewrite Hdec.
  replace (to <=? from) with false by (symmetry; apply Z.leb_gt; lia).
  rewrite (no_replayable_range hist refuse from to Hno). rewrite andb_false_r. reflexivity.
Qed.
