(* C03: the reply written by resendMessages is an exact, contiguous cover of the requested range.
   Hypothesis `range_stored`: every number of the range is in the store (what persisting every assigned number gives). *)
From Coq Require Import String.
From Coq Require Import ZArith List Bool Lia.
From QF Require Import Base.Bytes Session.Types Session.Model Session.Spec Session.C01Proofs Session.LocalProofs.
Import ListNotations.
Open Scope list_scope.
Open Scope Z_scope.

Lemma chain_app : forall hist refuse l1 l2 pos,
  c03_chain hist refuse pos (l1 ++ l2)
  = match c03_chain hist refuse pos l1 with inl p => c03_chain hist refuse p l2 | inr c => inr c end.
Proof.
  induction l1 as [|m r IH]; intros l2 pos; cbn [app c03_chain]; [reflexivity|].
  repeat match goal with
         | |- context [if ?x then _ else _] => destruct x
         | |- context [match field_of ?a ?b with _ => _ end] => destruct (field_of a b)
         | |- context [match lookup_msg ?a ?b with _ => _ end] => destruct (lookup_msg a b)
         end; try reflexivity; apply IH.
Qed.

Lemma body_eq_refl : forall b, body_eq b b = true.
Proof.
  induction b as [|[t v] r IH]; cbn; [reflexivity|]. rewrite Z.eqb_refl, beq_bytes_refl. exact IH.
Qed.

Lemma zrange_in : forall n from k, In k (zrange from n) <-> from <= k < from + Z.of_nat n.
Proof.
  induction n as [|n IH]; intros from k; cbn [zrange In].
  - split; [contradiction | lia].
  - rewrite IH. lia.
Qed.

Lemma no_replayable_range hist refuse pos t :
  (forall k, pos <= k < t -> replayable hist refuse k = false) ->
  existsb (replayable hist refuse) (zrange pos (Z.to_nat (t - pos))) = false.
Proof.
  intros H. destruct (existsb _ _) eqn:E; [|reflexivity].
  apply existsb_exists in E as [k [Hk Hr]]. apply zrange_in in Hk.
  rewrite H in Hr; [discriminate | lia].
Qed.

(* one gap fill [from, to) extends a chain ending at `from` when nothing replayable lies in it *)
Lemma chain_gapfill : forall s from to ir hist refuse,
  from < to -> (forall k, from <= k < to -> replayable hist refuse k = false) ->
  let w := {| o_type := T_SEQRESET; o_seq := from;
              o_hdr := [(43, B "Y"); (122, B "T")] ++ default_hdr s (Some ir);
              o_body := [(36, itoa to); (123, B "Y")] |} in
  dec_z (itoa to) = to ->
  c03_chain hist refuse from [w] = inl to.
Proof.
  intros s from to ir hist refuse Hlt Hno w Hdec. cbn [c03_chain].
  change (is_possdup w) with true. cbn [negb]. change (o_seq w) with from. rewrite Z.eqb_refl. cbn [negb].
  change (is_type T_SEQRESET w) with true. cbn iota.
  change (field_of 36 (o_body w)) with (Some (itoa to)). change (field_of 123 (o_body w)) with (Some (B "Y")).
  change (beq_bytes (B "Y") (B "Y")) with true. cbn [negb]. rewrite Hdec.
  replace (to <=? from) with false by (symmetry; apply Z.leb_gt; lia).
  rewrite (no_replayable_range hist refuse from to Hno). rewrite andb_false_r. reflexivity.
Qed.

(* ---------- the decimal text of a number reads back as that number ---------- *)
From QF Require Codec.FixInt Codec.FixIntSpec Codec.FixIntProofs.

Lemma dec_digits_value : forall d n, dec_digits d n = Codec.FixInt.dec_value d n.
Proof. induction d as [|c r IH]; intros n; cbn; [reflexivity | apply IH]. Qed.

Lemma dec_z_cons : forall c r, dec_z (c :: r) = if c =? 45 then - dec_digits r 0 else dec_digits (c :: r) 0.
Proof.
  intros c r. destruct (Z.eqb_spec c 45) as [->|Hn]; [reflexivity|].
  unfold dec_z. destruct c as [|p|p]; try reflexivity.
  do 6 (try (destruct p as [p|p|]; try reflexivity)). exfalso; apply Hn; reflexivity.
Qed.

Lemma dec_z_itoa : forall z, dec_z (itoa z) = z.
Proof.
  intros z. rewrite <- (Codec.FixIntProofs.int_value_itoa z) at 2.
  destruct (itoa z) as [|c r]; [reflexivity|].
  rewrite dec_z_cons. unfold Codec.FixIntSpec.int_value. change MINUS with 45.
  destruct (c =? 45); rewrite dec_digits_value; reflexivity.
Qed.

(* ---------- the keys IterateMessages visits: the stored numbers of [b, e], ascending, each once ---------- *)
Definition lt_all (k : Z) (l : list Z) : Prop := forall x, In x l -> k < x.
Inductive inc : list Z -> Prop :=
| inc_nil : inc []
| inc_cons : forall k l, lt_all k l -> inc l -> inc (k :: l).

Lemma insert_sorted_in : forall k l x, In x (insert_sorted k l) <-> x = k \/ In x l.
Proof.
  induction l as [|y r IH]; intros x; cbn [insert_sorted In].
  - intuition.
  - destruct (k <? y); [cbn [In]; intuition|].
    destruct (Z.eqb_spec k y) as [->|Hn]; cbn [In]; [intuition|]. rewrite IH. intuition.
Qed.

Lemma insert_sorted_inc : forall k l, inc l -> inc (insert_sorted k l).
Proof.
  induction l as [|y r IH]; intros Hi; cbn [insert_sorted].
  - constructor; [intros x []|constructor].
  - inversion Hi as [|y' r' Hlt Hr]; subst.
    destruct (Z.ltb_spec k y) as [Hk|Hk].
    + constructor; [|exact Hi]. intros x [->|Hx]; [exact Hk | specialize (Hlt x Hx); lia].
    + destruct (Z.eqb_spec k y) as [->|Hn]; [exact Hi|].
      constructor; [|apply IH; exact Hr].
      intros x Hx. apply insert_sorted_in in Hx as [->|Hx]; [lia | apply Hlt; exact Hx].
Qed.

Lemma lookup_none_iff : forall x msgs, lookup_msg x msgs <> None <-> In x (map fst msgs).
Proof.
  induction msgs as [|[k m] r IH]; cbn [lookup_msg map In fst].
  - intuition.
  - destruct (Z.eqb_spec k x) as [->|Hn]; [intuition congruence|]. rewrite IH. intuition.
Qed.

Lemma stored_keys_in_spec : forall b e msgs,
  inc (stored_keys_in b e msgs)
  /\ forall x, In x (stored_keys_in b e msgs) <-> (b <= x <= e /\ lookup_msg x msgs <> None).
Proof.
  intros b e msgs. unfold stored_keys_in.
  induction msgs as [|[k m] r [IH1 IH2]]; cbn [fold_right fst].
  - split; [constructor|]. intros x; cbn. intuition.
  - destruct (Z.leb_spec b k) as [Hb|Hb]; destruct (Z.leb_spec k e) as [He|He]; cbn [andb];
      (split; [try apply insert_sorted_inc; exact IH1|]); intros x; rewrite ?insert_sorted_in, IH2, !lookup_none_iff; cbn [map In fst];
      intuition; try lia.
Qed.

(* ---------- one step of the reply: a replayed message extends the chain by one ---------- *)
Lemma chain_replay : forall msgs refuse k sm hdr,
  lookup_msg k msgs = Some sm -> is_admin (o_type sm) = false -> existsb (Z.eqb k) refuse = false ->
  c03_chain msgs refuse k [{| o_type := o_type sm; o_seq := k; o_hdr := [(43, B "Y"); (122, B "T")] ++ hdr; o_body := o_body sm |}]
  = inl (k + 1).
Proof.
  intros msgs refuse k sm hdr Hl Ha Hr. cbn [c03_chain].
  match goal with |- context [is_possdup ?m] => change (is_possdup m) with true; change (o_seq m) with k;
     change (is_type T_SEQRESET m) with (beq_bytes (o_type sm) T_SEQRESET); change (o_type m) with (o_type sm);
     change (o_body m) with (o_body sm); change (field_of 122 (o_hdr m)) with (Some (B "T")) end.
  rewrite Z.eqb_refl. cbn [negb].
  assert (Hs : beq_bytes (o_type sm) T_SEQRESET = false).
  { unfold is_admin in Ha. repeat (apply orb_false_elim in Ha as [Ha ?]). assumption. }
  rewrite Hs, Hl. unfold replayable. rewrite Hl, Ha, Hr. cbn [negb andb].
  rewrite beq_bytes_refl, body_eq_refl. cbn [negb andb]. change (opt_beq (Some (B "T")) (B "T")) with true. reflexivity.
Qed.

Lemma gen_seq_reset_wire s b e ir : flushing s ->
  s_wire (generate_sequence_reset s b e ir)
  = {| o_type := T_SEQRESET; o_seq := b; o_hdr := [(43, B "Y"); (122, B "T")] ++ default_hdr s (Some ir);
       o_body := [(36, itoa e); (123, B "Y")] |} :: s_wire s.
Proof.
  intros Hf. unfold generate_sequence_reset.
  match goal with |- context [enqueue_bytes_and_send ?x ?m] =>
    assert (Hx : flushing x) by exact Hf; destruct (enqueue_bytes_flushing x m Hx) as (_ & F2 & _) end.
  exact F2.
Qed.

(* ---------- the loop of resendMessages ---------- *)
Definition nrep (msgs : list (Z * omsg)) (refuse : list Z) (a b : Z) : Prop :=
  forall k, a <= k < b -> replayable msgs refuse k = false.

Lemma resend_loop_chain : forall msgs ir e keys s a nx s1 x y,
  resend_loop keys s ir a nx = (s1, x, y) ->
  flushing s -> s_msgs s = msgs ->
  inc keys -> (forall k, In k keys -> nx <= k <= e /\ lookup_msg k msgs <> None) ->
  (forall k, nx <= k <= e -> ~ In k keys -> lookup_msg k msgs = None) ->
  a <= nx -> nrep msgs (mi_refuse ir) a nx ->
  exists new, s_wire s1 = new ++ s_wire s /\ s_msgs s1 = msgs /\ flushing s1
    /\ x <= y /\ nrep msgs (mi_refuse ir) x y /\ nx <= y /\ (forall k, In k keys -> k < y) /\ (y = nx \/ In (y - 1) keys)
    /\ c03_chain msgs (mi_refuse ir) a (rev new) = inl x.
Proof.
  intros msgs ir e. induction keys as [|k r IH]; intros s a nx s1 x y E Hf Hm Hinc Hkeys Hnon Han Hnr; cbn [resend_loop] in E.
  - inversion E; subst s1 x y. exists []. cbn [app rev c03_chain].
    split; [reflexivity|]. split; [exact Hm|]. split; [exact Hf|]. split; [exact Han|]. split; [exact Hnr|]. split; [lia|].
    split; [intros k []|]. split; [left; reflexivity | reflexivity].
  - subst msgs. inversion Hinc as [|k' r' Hlt Hr]; subst k' r'.
    destruct (Hkeys k (or_introl eq_refl)) as [Hk Hst].
    assert (Hkeys' : forall k0, In k0 r -> k + 1 <= k0 <= e /\ lookup_msg k0 (s_msgs s) <> None).
    { intros k0 H0. specialize (Hlt k0 H0). destruct (Hkeys k0 (or_intror H0)). split; [lia | assumption]. }
    assert (Hnon' : forall k0, k + 1 <= k0 <= e -> ~ In k0 r -> lookup_msg k0 (s_msgs s) = None).
    { intros k0 H0 H1. apply Hnon; [lia|]. intros [->|H2]; [lia | exact (H1 H2)]. }
    assert (Hbelow : forall j, nx <= j < k -> replayable (s_msgs s) (mi_refuse ir) j = false).
    { intros j Hj. unfold replayable. rewrite Hnon; [reflexivity | lia |].
      intros [->|H2]; [lia | specialize (Hlt j H2); lia]. }
    destruct (lookup_msg k (s_msgs s)) as [sm|] eqn:El; [|exfalso; apply Hst; reflexivity].
    assert (finish : forall s2 a2, resend_loop r s2 ir a2 (k + 1) = (s1, x, y) -> flushing s2 -> s_msgs s2 = s_msgs s -> a2 <= k + 1 ->
              nrep (s_msgs s) (mi_refuse ir) a2 (k + 1) ->
              exists new, s_wire s1 = new ++ s_wire s2 /\ s_msgs s1 = s_msgs s /\ flushing s1
                /\ x <= y /\ nrep (s_msgs s) (mi_refuse ir) x y /\ nx <= y /\ (forall k0, In k0 (k :: r) -> k0 < y)
                /\ (y = nx \/ In (y - 1) (k :: r)) /\ c03_chain (s_msgs s) (mi_refuse ir) a2 (rev new) = inl x).
    { intros s2 a2 E2 Hf2 Hm2 Ha2 Hn2.
      destruct (IH s2 a2 (k + 1) s1 x y E2 Hf2 Hm2 Hr Hkeys' Hnon' Ha2 Hn2) as (new & G1 & G2 & G3 & G4 & G5 & G6 & G7 & G8 & G9).
      exists new. split; [exact G1|]. split; [exact G2|]. split; [exact G3|]. split; [exact G4|]. split; [exact G5|]. split; [lia|].
      split; [|split; [|exact G9]].
      - intros k0 [->|H0]; [lia | apply G7; exact H0].
      - right. destruct G8 as [->|G8]; [left; lia | right; exact G8]. }
    destruct (is_admin (o_type sm)) eqn:Ea.
    { (* administrative: skipped, the pending gap grows *)
      apply (finish s a) in E; try assumption; try reflexivity; try lia.
      intros j Hj. destruct (Z.eq_dec j k) as [->|Hne].
      - unfold replayable. rewrite El, Ea. reflexivity.
      - destruct (Z.lt_ge_cases j nx); [apply Hnr; lia | apply Hbelow; lia]. }
    set (s2 := log_cb s (CbToApp k true)) in E.
    assert (Hf2 : flushing s2) by exact Hf.
    destruct (existsb (Z.eqb k) (mi_refuse ir)) eqn:Eref.
    { (* refused by ToApp: skipped as well *)
      apply (finish s2 a) in E; try assumption; try reflexivity; try lia.
      intros j Hj. destruct (Z.eq_dec j k) as [->|Hne].
      - unfold replayable. rewrite El, Eref, andb_false_r. reflexivity.
      - destruct (Z.lt_ge_cases j nx); [apply Hnr; lia | apply Hbelow; lia]. }
    (* replayed, after a gap fill over [a, k) when a < k *)
    assert (Hgf : exists s3 pre, (if a =? k then s2 else generate_sequence_reset s2 a k ir) = s3 /\ flushing s3 /\ s_msgs s3 = s_msgs s
                    /\ s_wire s3 = pre ++ s_wire s /\ c03_chain (s_msgs s) (mi_refuse ir) a (rev pre) = inl k).
    { destruct (Z.eqb_spec a k) as [->|Hne].
      - exists s2, []. split; [reflexivity|]. split; [exact Hf2|]. split; [reflexivity|]. split; reflexivity.
      - destruct (gen_seq_reset_flushing s2 a k ir Hf2) as (G1 & _ & G4).
        eexists; eexists (cons _ nil). split; [reflexivity|]. split; [exact G1|]. split; [exact G4|].
        rewrite (gen_seq_reset_wire s2 a k ir Hf2). split; [reflexivity|].
        cbn [rev app]. apply chain_gapfill; [lia | | apply dec_z_itoa].
        intros j Hj. destruct (Z.lt_ge_cases j nx); [apply Hnr; lia | apply Hbelow; lia]. }
    destruct Hgf as (s3 & pre & E3 & Hf3 & Hm3 & Hw3 & Hc3). rewrite E3 in E.
    match type of E with resend_loop r (enqueue_bytes_and_send s3 ?m) _ _ _ = _ =>
      destruct (enqueue_bytes_flushing s3 m Hf3) as (F1 & F2 & F3);
      apply (finish _ (k + 1)) in E; [| exact F1 | rewrite F3; exact Hm3 | lia | intros j Hj; lia];
      destruct E as (new & G1 & G2 & G3 & G4 & G5 & G6 & G7 & G8 & G9);
      exists (new ++ m :: pre)
    end.
    split; [rewrite G1, F2, Hw3, <- app_assoc; reflexivity|].
    split; [exact G2|]. split; [exact G3|]. split; [exact G4|]. split; [exact G5|]. split; [exact G6|]. split; [exact G7|]. split; [exact G8|].
    rewrite rev_app_distr. cbn [rev]. rewrite <- app_assoc, chain_app, Hc3, chain_app.
    rewrite (chain_replay _ _ _ _ _ El Ea Eref). exact G9.
Qed.

(* ---------- resendMessages: the reply is a contiguous cover of [b, e] ---------- *)
Theorem resend_messages_chain : forall s b e ir,
  flushing s -> c_disable_persist (s_cfg s) = false ->
  b <= e -> lookup_msg e (s_msgs s) <> None ->
  exists new, s_wire (resend_messages s b e ir) = new ++ s_wire s
    /\ c03_chain (s_msgs s) (mi_refuse ir) b (rev new) = inl (e + 1).
Proof.
  intros s b e ir Hf Hp Hbe He. unfold resend_messages. rewrite Hp.
  destruct (stored_keys_in_spec b e (s_msgs s)) as [Hinc Hin].
  destruct (resend_loop (stored_keys_in b e (s_msgs s)) s ir b b) as [[s1 x] y] eqn:E.
  destruct (resend_loop_chain (s_msgs s) ir e _ s b b s1 x y E Hf eq_refl Hinc) as (new & G1 & G2 & G3 & G4 & G5 & G6 & G7 & G8 & G9).
  - intros k Hk. apply Hin in Hk. exact Hk.
  - intros k Hk Hn. destruct (lookup_msg k (s_msgs s)) eqn:El; [|reflexivity].
    exfalso. apply Hn. apply Hin. split; [exact Hk | rewrite El; discriminate].
  - lia.
  - intros k Hk. lia.
  - assert (Hy : y = e + 1).
    { assert (e < y) by (apply G7, Hin; split; [lia | exact He]).
      destruct G8 as [->|G8]; [lia|]. apply Hin in G8. lia. }
    subst y. destruct (Z.eqb_spec x (e + 1)) as [->|Hne].
    + exists new. split; assumption.
    + rewrite (gen_seq_reset_wire s1 x (e + 1) ir G3), G1.
      eexists (_ :: new). split; [reflexivity|].
      cbn [rev]. rewrite chain_app, G9. apply chain_gapfill; [lia | exact G5 | apply dec_z_itoa].
Qed.

(* nothing is written for an empty range *)
Theorem resend_messages_empty_range : forall s b e ir,
  c_disable_persist (s_cfg s) = false -> e < b -> resend_messages s b e ir = s.
Proof.
  intros s b e ir Hp Heb. unfold resend_messages. rewrite Hp.
  destruct (stored_keys_in_spec b e (s_msgs s)) as [_ Hin].
  destruct (stored_keys_in b e (s_msgs s)) as [|k r].
  - cbn [resend_loop]. rewrite Z.eqb_refl. reflexivity.
  - exfalso. destruct (proj1 (Hin k) (or_introl eq_refl)). lia.
Qed.

(* without persistence: one gap fill over the whole range *)
Theorem resend_messages_chain_no_persist : forall s b e ir,
  flushing s -> c_disable_persist (s_cfg s) = true -> s_msgs s = [] -> b <= e ->
  exists new, s_wire (resend_messages s b e ir) = new ++ s_wire s
    /\ c03_chain (s_msgs s) (mi_refuse ir) b (rev new) = inl (e + 1).
Proof.
  intros s b e ir Hf Hp Hm Hbe. unfold resend_messages. rewrite Hp.
  replace (e <? b) with false by (symmetry; apply Z.ltb_ge; lia).
  rewrite (gen_seq_reset_wire s b (e + 1) ir Hf). eexists (_ :: nil). split; [reflexivity|].
  cbn [rev app]. apply chain_gapfill; [lia | | apply dec_z_itoa].
  intros k _. unfold replayable. rewrite Hm. reflexivity.
Qed.

(* the spec predicate the driver evaluates on every observed reply holds of what the model writes *)
Theorem c03_reply_check_model : forall s m b e0,
  flushing s -> mi_beginseq m = FVal b -> mi_endseq m = FVal e0 -> 1 <= b ->
  let e := clip_end (s_cfg s) (s_snd s) e0 in
  (if c_disable_persist (s_cfg s) then s_msgs s = [] else b <= e -> lookup_msg e (s_msgs s) <> None) ->
  exists new, s_wire (resend_messages s b e m) = new ++ s_wire s
    /\ c03_reply_check (s_cfg s) (s_msgs s) (s_snd s) m (rev new) = [].
Proof.
  intros s m b e0 Hf Hb He0 H1 e Hst. unfold c03_reply_check. rewrite Hb, He0. fold e.
  replace (b <? 1) with false by (symmetry; apply Z.ltb_ge; lia).
  destruct (Z.ltb_spec e b) as [Hlt|Hge].
  - exists []. split; [|reflexivity]. destruct (c_disable_persist (s_cfg s)) eqn:Hp.
    + unfold resend_messages. rewrite Hp. replace (e <? b) with true by (symmetry; apply Z.ltb_lt; lia). reflexivity.
    + rewrite (resend_messages_empty_range s b e m Hp Hlt). reflexivity.
  - destruct (c_disable_persist (s_cfg s)) eqn:Hp.
    + destruct (resend_messages_chain_no_persist s b e m Hf Hp Hst Hge) as (new & G1 & G2).
      exists new. split; [exact G1|]. rewrite G2, Z.eqb_refl. reflexivity.
    + destruct (resend_messages_chain s b e m Hf Hp Hge (Hst Hge)) as (new & G1 & G2).
      exists new. split; [exact G1|]. rewrite G2, Z.eqb_refl. reflexivity.
Qed.
