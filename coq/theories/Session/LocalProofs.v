(* Step-level theorems of the session model, proved by symbolic evaluation of `step` on a state of a given shape
   (any configuration, counters, store content, heartbeat interval).  Used by Props/C04, C06, C07, C20. *)
From Coq Require Import String.
From Coq Require Import ZArith List Bool Lia.
From QF Require Import Base.Bytes Session.Types Session.Model Session.Spec Session.C01Proofs.
Import ListNotations.
Open Scope list_scope.
Open Scope Z_scope.

(* a connected session at an event boundary: both channels open, nothing buffered inbound, logs cleared *)
Definition mk (c : cfg) (st : sstate) (snd tgt : Z) (msgs : list (Z * omsg)) (q : list omsg) (hb : Z) (sr : bool) : sess :=
  {| s_cfg := c; s_st := st; s_snd := snd; s_tgt := tgt; s_msgs := msgs; s_to_send := q; s_out_open := true; s_in_open := true;
     s_in_buf := []; s_sent_reset := sr; s_hb := hb; s_pending_stop := false; s_stopped := false; s_cbs := []; s_wire := [];
     s_closed := false |}.

Definition hdr369 (c : cfg) (v : Z) : list (Z * bytes) := if c_last_seq_processed c then [(369, itoa v)] else [].

(* the model's header checks agree with the specification's reading of them *)
Lemma check_begin_ok s m : hdr_begin_ok (s_cfg s) m = true -> check_begin_string s m = None.
Proof. unfold hdr_begin_ok, check_begin_string. intros ->. reflexivity. Qed.
Lemma check_compid_ok s m : hdr_compid_ok (s_cfg s) m = true -> (forall x, mi_sender m = Some x -> x <> []) ->
  (forall x, mi_target m = Some x -> x <> []) -> check_comp_id s m = None.
Proof.
  unfold hdr_compid_ok, check_comp_id. intros H Hs Ht.
  destruct (mi_sender m) as [a|]; [|discriminate]. destruct (mi_target m) as [b|]; [|discriminate].
  destruct b as [|b0 b]; [exfalso; exact (Ht [] eq_refl eq_refl)|].
  destruct a as [|a0 a]; [exfalso; exact (Hs [] eq_refl eq_refl)|].
  cbn [length Nat.eqb]. rewrite H. reflexivity.
Qed.
Lemma check_time_ok s m : hdr_time_ok (s_cfg s) (mi_stime m) = true -> check_sending_time s m = None.
Proof.
  unfold hdr_time_ok, check_sending_time. destruct (c_skip_latency (s_cfg s)); [reflexivity|]. cbn [orb].
  destruct (mi_stime m) as [| |d]; try discriminate. intros H. apply andb_true_iff in H as [H1 H2].
  apply Z.ltb_lt in H1. apply Z.ltb_lt in H2.
  replace ((c_max_latency (s_cfg s) <=? d) || (d <=? - c_max_latency (s_cfg s))) with false; [reflexivity|].
  symmetry. apply orb_false_iff. split; apply Z.leb_gt; lia.
Qed.

(* a message whose identity/time header fields pass *)
Definition hdr_ok (c : cfg) (m : minput) : Prop :=
  hdr_begin_ok c m = true /\ hdr_compid_ok c m = true /\ hdr_time_ok c (mi_stime m) = true
  /\ (forall x, mi_sender m = Some x -> x <> []) /\ (forall x, mi_target m = Some x -> x <> []).

Definition heartbeat_msg (c : cfg) (snd tgt : Z) : omsg := {| o_type := T_HEARTBEAT; o_seq := snd; o_hdr := hdr369 c (tgt - 1); o_body := [] |}.
Definition testreq_msg (c : cfg) (snd tgt : Z) : omsg := {| o_type := T_TESTREQ; o_seq := snd; o_hdr := hdr369 c (tgt - 1); o_body := [(112, B "TEST")] |}.

Ltac crush_cfg c := destruct c as [role bg sn tg r1 r2 r3 r4 ch h ho sl ml np ls ic av].

(* NeedHeartbeat while logged on and no test request pending: exactly one Heartbeat without TestReqID, state kept *)
Lemma timer_heartbeat_in_session : forall c snd tgt msgs hb sr,
  let s' := step (mk c SInSession snd tgt msgs [] hb sr) (ETimeout NeedHeartbeat) in
  rev (s_wire s') = [heartbeat_msg c snd tgt] /\ s_st s' = SInSession /\ s_snd s' = snd + 1 /\ s_tgt s' = tgt.
Proof. intros c. crush_cfg c. intros. destruct ls, np; vm_compute; repeat split; reflexivity. Qed.

Lemma timer_heartbeat_resend : forall c snd tgt msgs hb sr stash ce re,
  let s' := step (mk c (SResend stash ce re) snd tgt msgs [] hb sr) (ETimeout NeedHeartbeat) in
  rev (s_wire s') = [heartbeat_msg c snd tgt] /\ s_st s' = SResend stash ce re /\ s_snd s' = snd + 1 /\ s_tgt s' = tgt.
Proof. intros c. crush_cfg c. intros. destruct ls, np; vm_compute; repeat split; reflexivity. Qed.

(* ... and none while a test request is pending *)
Lemma timer_heartbeat_pending : forall c snd tgt msgs hb sr i q,
  is_connected i = true ->
  let s' := step (mk c (SPending i) snd tgt msgs q hb sr) (ETimeout NeedHeartbeat) in
  s_wire s' = [] /\ s_st s' = SPending i /\ s_snd s' = snd /\ s_to_send s' = q.
Proof. intros c snd tgt msgs hb sr i q Hi. unfold step, clear_logs, mk, step_event, set_state, set_state_with. cbn [state_timeout s_st upd_chan upd_logs is_connected negb]. rewrite Hi. cbn. auto. Qed.

(* PeerTimeout while logged on: a TestRequest is sent and the state becomes pending around the current state *)
Lemma timer_peer_in_session : forall c snd tgt msgs hb sr,
  let s' := step (mk c SInSession snd tgt msgs [] hb sr) (ETimeout PeerTimeout) in
  rev (s_wire s') = [testreq_msg c snd tgt] /\ s_st s' = SPending SInSession /\ s_snd s' = snd + 1.
Proof. intros c. crush_cfg c. intros. destruct ls, np; vm_compute; repeat split; reflexivity. Qed.

Lemma timer_peer_resend : forall c snd tgt msgs hb sr stash ce re,
  let s' := step (mk c (SResend stash ce re) snd tgt msgs [] hb sr) (ETimeout PeerTimeout) in
  rev (s_wire s') = [testreq_msg c snd tgt] /\ s_st s' = SPending (SResend stash ce re) /\ s_snd s' = snd + 1.
Proof. intros c. crush_cfg c. intros. destruct ls, np; vm_compute; repeat split; reflexivity. Qed.

(* a second PeerTimeout with nothing received in between: disconnect, logout notification, channel closed *)
Lemma timer_dead_peer : forall c snd tgt msgs hb sr i q,
  is_logged_on i = true -> is_connected i = true ->
  let s' := step (mk c (SPending i) snd tgt msgs q hb sr) (ETimeout PeerTimeout) in
  s_st s' = SLatent /\ In CbOnLogout (s_cbs s') /\ s_closed s' = true /\ s_out_open s' = false /\ s_wire s' = [].
Proof.
  intros c. crush_cfg c. intros snd tgt msgs hb sr i q Hl Hc.
  unfold step, clear_logs, mk, step_event, set_state, set_state_with, handle_disconnect_state, drain.
  cbn [state_timeout s_st upd_chan upd_logs is_connected is_logged_on negb s_in_buf length drain_message_in s_in_open].
  rewrite Hc, Hl. cbn [andb negb]. destruct r3; cbn; auto 10.
Qed.

(* ---------- verification outcomes ---------- *)
Lemma beq_bytes_refl : forall a, beq_bytes a a = true.
Proof. induction a as [|x a IH]; cbn; [reflexivity|]. rewrite Z.eqb_refl, IH. reflexivity. Qed.

Definition not_resend (st : sstate) : bool := match st with SResend _ _ _ => false | _ => true end.

(* header passes and the number is the expected one: verification goes on to the validator and the application *)
Lemma verify_select_in_sequence : forall s m hi lo app,
  hdr_ok (s_cfg s) m -> mi_seq m = FVal (s_tgt s) ->
  verify_select s m hi lo app = if app then verify_msg_against_app_impl s m else (s, None).
Proof.
  intros s m hi lo app (Hb & Hc & Ht & Hs & Hg) Hseq. unfold verify_select.
  rewrite (check_begin_ok s m Hb), (check_compid_ok s m Hc Hs Hg).
  replace (match s_st s with SResend _ _ _ => None | _ => check_sending_time s m end) with (@None rej)
    by (destruct (s_st s); try reflexivity; symmetry; apply check_time_ok; exact Ht).
  unfold check_target_too_low, check_target_too_high. rewrite Hseq, Z.ltb_irrefl.
  destruct lo, hi; reflexivity.
Qed.

(* header passes and the number is above the expected one: MsgSeqNum too high *)
Lemma verify_select_too_high : forall s m lo app n,
  hdr_ok (s_cfg s) m -> mi_seq m = FVal n -> s_tgt s < n ->
  verify_select s m true lo app = (s, Some (RTooHigh n (s_tgt s))).
Proof.
  intros s m lo app n (Hb & Hc & Ht & Hs & Hg) Hseq Hn. unfold verify_select.
  rewrite (check_begin_ok s m Hb), (check_compid_ok s m Hc Hs Hg).
  replace (match s_st s with SResend _ _ _ => None | _ => check_sending_time s m end) with (@None rej)
    by (destruct (s_st s); try reflexivity; symmetry; apply check_time_ok; exact Ht).
  unfold check_target_too_low, check_target_too_high. rewrite Hseq.
  replace (n <? s_tgt s) with false by (symmetry; apply Z.ltb_ge; lia).
  replace (s_tgt s <? n) with true by (symmetry; apply Z.ltb_lt; lia).
  destruct lo; reflexivity.
Qed.

(* C06 gate, local form: if verification with the application check reports no error or an application verdict after a
   callback, every earlier check passed.  `cb_added` says a callback was logged by this call. *)
Lemma verify_select_gate : forall s m hi lo s1 r,
  verify_select s m hi lo true = (s1, r) -> s_cbs s1 <> s_cbs s ->
  check_begin_string s m = None /\ check_comp_id s m = None
  /\ (not_resend (s_st s) = true -> check_sending_time s m = None)
  /\ (lo = true -> check_target_too_low s m = None) /\ (hi = true -> check_target_too_high s m = None)
  /\ mi_valid m = VAccept.
Proof.
  intros s m hi lo s1 r E Hcb. unfold verify_select in E.
  destruct (check_begin_string s m); [inversion E; subst; contradiction|].
  destruct (check_comp_id s m); [inversion E; subst; contradiction|].
  destruct (match s_st s with SResend _ _ _ => None | _ => check_sending_time s m end) eqn:Et; [inversion E; subst; contradiction|].
  destruct (if lo then check_target_too_low s m else None) eqn:El; [inversion E; subst; contradiction|].
  destruct (if hi then check_target_too_high s m else None) eqn:Eh; [inversion E; subst; contradiction|].
  unfold verify_msg_against_app_impl in E.
  destruct (mi_valid m) eqn:Ev; cbn [rej_of_verdict] in E; try (inversion E; subst; contradiction).
  repeat split; try reflexivity.
  - intros Hn. destruct (s_st s); cbn in Hn; try discriminate; exact Et.
  - intros ->. exact El.
  - intros ->. exact Eh.
Qed.

(* ---------- C04: gap detection in normal operation ---------- *)
Definition resend_request_msg (c : cfg) (snd tgt : Z) (e : Z) : omsg :=
  {| o_type := T_RESENDREQ; o_seq := snd; o_hdr := hdr369 c (tgt - 1); o_body := [(7, itoa tgt); (16, itoa e)] |}.

(* sending one administrative message (not a Logon) while logged on, channel open, nothing queued *)
Definition sent (s : sess) (m : omsg) : sess :=
  let s1 := log_cb s (CbToAdmin (o_type m)) in
  let s2 := persist s1 m in
  upd_to_send (upd_logs s2 (s_cbs s2) (m :: s_wire s2)) [].

Lemma send_in_reply_to_logged_on : forall s t hdr body ir,
  is_logged_on (s_st s) = true -> s_out_open s = true -> s_to_send s = [] ->
  is_admin t = true -> beq_bytes t T_LOGON = false ->
  send_in_reply_to s t hdr body ir
  = sent s {| o_type := t; o_seq := s_snd s; o_hdr := hdr ++ default_hdr s ir; o_body := body |}.
Proof.
  intros s t hdr body ir Hl Ho Hq Ha Hn. unfold send_in_reply_to. rewrite Hl. cbn [negb].
  unfold prep. rewrite Ha, Hn. cbn [andb]. unfold sent. cbn [o_type].
  set (s1 := log_cb s (CbToAdmin t)).
  assert (E1 : s_snd s1 = s_snd s) by reflexivity. rewrite E1.
  set (m := {| o_type := t; o_seq := s_snd s; o_hdr := hdr ++ default_hdr s ir; o_body := body |}).
  unfold send_queued, enqueue.
  assert (E2 : s_out_open (upd_to_send (persist s1 m) (s_to_send (persist s1 m) ++ [m])) = true).
  { unfold persist, upd_to_send, upd_store. destruct (c_disable_persist (s_cfg s1)); exact Ho. }
  rewrite E2.
  assert (E3 : s_to_send (persist s1 m) = []).
  { unfold persist, upd_store. destruct (c_disable_persist (s_cfg s1)); exact Hq. }
  unfold upd_to_send at 2 3 4. cbn [s_to_send s_cbs s_wire]. rewrite E3. cbn [app rev].
  unfold persist, upd_store, upd_logs, upd_to_send. destruct (c_disable_persist (s_cfg s1)); reflexivity.
Qed.

Lemma sent_facts s m :
  s_wire (sent s m) = m :: s_wire s /\ s_tgt (sent s m) = s_tgt s /\ s_snd (sent s m) = s_snd s + 1
  /\ s_to_send (sent s m) = [] /\ s_st (sent s m) = s_st s /\ s_cbs (sent s m) = CbToAdmin (o_type m) :: s_cbs s
  /\ s_out_open (sent s m) = s_out_open s /\ s_cfg (sent s m) = s_cfg s.
Proof. unfold sent, persist, log_cb, upd_logs, upd_store, upd_to_send. destruct (c_disable_persist _); repeat split; reflexivity. Qed.

(* C04: the reaction (processReject) to MsgSeqNum too high while NOT recovering: exactly one ResendRequest
   [expected, end marker], the message kept under its number, expected number unchanged *)
Lemma gap_detected_not_recovering : forall s m n,
  is_logged_on (s_st s) = true -> (forall a b c0, unwrap_pending (s_st s) <> SResend a b c0) ->
  s_out_open s = true -> s_to_send s = [] ->
  let c := s_cfg s in
  let r := process_reject s m (RTooHigh n (s_tgt s)) in
  s_wire (fst r) = {| o_type := T_RESENDREQ; o_seq := s_snd s; o_hdr := default_hdr s None;
                      o_body := [(7, itoa (s_tgt s)); (16, itoa (end_marker c (s_tgt s) n))] |} :: s_wire s
  /\ s_tgt (fst r) = s_tgt s /\ s_snd (fst r) = s_snd s + 1 /\ s_to_send (fst r) = []
  /\ snd r = SResend (Some [(n, m)])
                     (if negb (c_chunk c =? 0) && (s_tgt s + c_chunk c - 1 <? n - 1) then s_tgt s + c_chunk c - 1 else 0) (n - 1).
Proof.
  intros s m n Hl Hnr Ho Hq c r. unfold r, process_reject.
  assert (E : forall (A : Type) (f : option (list (Z * minput)) -> Z -> Z -> A) (d : A),
             match unwrap_pending (s_st s) with SResend st c0 e => f st c0 e | _ => d end = d).
  { intros A f d. destruct (unwrap_pending (s_st s)) eqn:Eu; try reflexivity. exfalso; eapply Hnr; reflexivity. }
  rewrite E. unfold do_target_too_high, send_resend_request, send.
  set (e0 := if c_chunk (s_cfg s) =? 0 then n - 1 else s_tgt s + c_chunk (s_cfg s) - 1).
  assert (Hem : (if e0 <? n - 1 then (e0, e0) else (if c_begin (s_cfg s) <? 2 then 999999 else 0, 0))
                = (end_marker c (s_tgt s) n,
                   if negb (c_chunk c =? 0) && (s_tgt s + c_chunk c - 1 <? n - 1) then s_tgt s + c_chunk c - 1 else 0)).
  { unfold e0, end_marker, c. destruct (c_chunk (s_cfg s) =? 0); cbn [negb andb].
    - rewrite Z.ltb_irrefl. reflexivity.
    - destruct (s_tgt s + c_chunk (s_cfg s) - 1 <? n - 1); reflexivity. }
  rewrite Hem.
  rewrite (send_in_reply_to_logged_on s T_RESENDREQ [] _ None Hl Ho Hq eq_refl eq_refl).
  match goal with |- context [sent s ?mm] => destruct (sent_facts s mm) as (F1 & F2 & F3 & F4 & _) end.
  cbn [fst snd stash_insert filter]. rewrite F1, F2, F3, F4. repeat split; reflexivity.
Qed.

(* C20: a TestRequest received in sequence is answered by one Heartbeat carrying the same TestReqID *)
Lemma test_request_echoed : forall s m id,
  is_logged_on (s_st s) = true -> s_out_open s = true -> s_to_send s = [] ->
  hdr_ok (s_cfg s) m -> mi_seq m = FVal (s_tgt s) -> mi_valid m = VAccept -> mi_app m = VAccept ->
  is_admin (mi_type m) = true -> mi_testreq m = Some id ->
  let r := handle_test_request s m in
  s_wire (fst r) = {| o_type := T_HEARTBEAT; o_seq := s_snd s; o_hdr := default_hdr s (Some m); o_body := [(112, id)] |} :: s_wire s
  /\ s_tgt (fst r) = s_tgt s + 1 /\ s_snd (fst r) = s_snd s + 1 /\ snd r = SInSession.
Proof.
  intros s m id Hl Ho Hq Hh Hseq Hv Ha Hadm Hid r. unfold r, handle_test_request, verify.
  rewrite (verify_select_in_sequence s m true true true Hh Hseq).
  unfold verify_msg_against_app_impl. rewrite Hv, Hadm, Ha, Hid. cbn [rej_of_verdict].
  set (s1 := log_cb s (CbFromAdmin (mi_type m) (mi_seq m) (facts_of m))).
  rewrite (send_in_reply_to_logged_on s1 T_HEARTBEAT [] [(112, id)] (Some m) Hl Ho Hq eq_refl eq_refl).
  match goal with |- context [sent s1 ?mm] => destruct (sent_facts s1 mm) as (F1 & F2 & F3 & _) end.
  cbn [fst snd]. unfold incr_tgt, upd_store. cbn [s_wire s_tgt s_snd]. rewrite F1, F2, F3.
  repeat split; reflexivity.
Qed.

(* C20: an inbound message in the "test request pending" state is handled exactly as in the wrapped state; the result is
   whatever that handler returns, so the pending disconnect is cancelled and the recovery bookkeeping is the wrapped one *)
Lemma pending_handles_as_inner : forall i s m, state_fix_msg_in (SPending i) s m = state_fix_msg_in i s m.
Proof. reflexivity. Qed.

(* with F12 repaired: an early message while pending-in-recovery is kept in the same stash and no ResendRequest is sent *)
Lemma pending_recovery_undisturbed : forall s m n stash ce re,
  s_st s = SPending (SResend (Some stash) ce re) ->
  let r := process_reject s m (RTooHigh n (s_tgt s)) in
  fst r = s /\ snd r = SResend (Some (stash_insert n m stash)) ce re.
Proof. intros s m n stash ce re Hst. unfold process_reject. rewrite Hst. cbn. split; reflexivity. Qed.

(* ---------- C07: frames ---------- *)
(* losing the connection (inbound channel closed) without ResetOnDisconnect leaves counters and stored messages alone *)
Lemma disconnect_keeps_store : forall c st snd tgt msgs q hb sr,
  is_connected st = true -> c_reset_on_disconnect c = false ->
  let s' := step (mk c st snd tgt msgs q hb sr) EInClosed in
  s_snd s' = snd /\ s_tgt s' = tgt /\ s_msgs s' = msgs /\ s_st s' = SLatent /\ ~ In CbStoreReset (s_cbs s').
Proof.
  intros c. crush_cfg c. intros st snd tgt msgs q hb sr Hc Hr. cbn in Hr. subst r3.
  unfold step, clear_logs, mk, step_event, set_state, set_state_with, handle_disconnect_state, drain.
  cbn [s_st upd_chan upd_logs is_connected negb s_in_buf length drain_message_in s_in_open]. rewrite Hc. cbn [negb is_connected andb].
  destruct (is_logged_on st || match st with SLogout => true | SLogon => initiator _ | _ => false end); cbn;
    repeat split; try reflexivity; intro H; cbn in H; intuition congruence.
Qed.

(* ... and with ResetOnDisconnect both counters return to 1 and the store is emptied at that step *)
Lemma disconnect_resets_store : forall c st snd tgt msgs q hb sr,
  is_connected st = true -> c_reset_on_disconnect c = true ->
  let s' := step (mk c st snd tgt msgs q hb sr) EInClosed in
  s_snd s' = 1 /\ s_tgt s' = 1 /\ s_msgs s' = [] /\ In CbStoreReset (s_cbs s').
Proof.
  intros c. crush_cfg c. intros st snd tgt msgs q hb sr Hc Hr. cbn in Hr. subst r3.
  unfold step, clear_logs, mk, step_event, set_state, set_state_with, handle_disconnect_state, drain.
  cbn [s_st upd_chan upd_logs is_connected negb s_in_buf length drain_message_in s_in_open]. rewrite Hc. cbn [negb is_connected andb].
  destruct (is_logged_on st || match st with SLogout => true | SLogon => initiator _ | _ => false end); cbn; auto 8.
Qed.

(* an acceptor's connect changes nothing in the store *)
Lemma acceptor_connect_keeps_store : forall c st snd tgt msgs q hb sr,
  is_connected st = false -> c_role c = Acceptor ->
  let s := {| s_cfg := c; s_st := st; s_snd := snd; s_tgt := tgt; s_msgs := msgs; s_to_send := q; s_out_open := false; s_in_open := false;
              s_in_buf := []; s_sent_reset := sr; s_hb := hb; s_pending_stop := false; s_stopped := false; s_cbs := []; s_wire := [];
              s_closed := false |} in
  let s' := step s EConnect in
  s_snd s' = snd /\ s_tgt s' = tgt /\ s_msgs s' = msgs /\ s_st s' = SLogon /\ s_wire s' = [].
Proof.
  intros c. crush_cfg c. intros st snd tgt msgs q hb sr Hc Hr. cbn in Hr. subst role.
  unfold step, clear_logs, step_event, connect. cbn [s_st upd_chan upd_logs]. rewrite Hc. cbn. auto.
Qed.


(* ---------- C03: what resendMessages writes ---------- *)
(* every message of the reply: PossDupFlag=Y and either a SequenceReset-GapFill or a stored application message replayed
   under its original number with its original type and body and an OrigSendingTime *)
Definition replay_ok (msgs : list (Z * omsg)) (w : omsg) : Prop :=
  is_possdup w = true /\
  ((o_type w = T_SEQRESET /\ field_of 123 (o_body w) = Some (B "Y") /\ exists n, field_of 36 (o_body w) = Some (itoa n))
   \/ (exists sm, lookup_msg (o_seq w) msgs = Some sm /\ is_admin (o_type sm) = false
                  /\ o_type w = o_type sm /\ o_body w = o_body sm /\ field_of 122 (o_hdr w) = Some (B "T"))).

Definition flushing (s : sess) : Prop := s_out_open s = true /\ s_to_send s = [].

Lemma enqueue_bytes_flushing s m : flushing s ->
  flushing (enqueue_bytes_and_send s m) /\ s_wire (enqueue_bytes_and_send s m) = m :: s_wire s
  /\ s_msgs (enqueue_bytes_and_send s m) = s_msgs s.
Proof.
  intros [Ho Hq]. unfold enqueue_bytes_and_send, send_queued, enqueue, drop_queued, upd_to_send.
  destruct (is_logged_on (s_st s)); cbn [s_out_open s_to_send]; rewrite Ho, ?Hq; cbn; repeat split; try reflexivity; exact Ho.
Qed.

Lemma gen_seq_reset_flushing s b e ir : flushing s ->
  let s' := generate_sequence_reset s b e ir in
  flushing s' /\ (exists w, s_wire s' = w :: s_wire s /\ replay_ok (s_msgs s) w /\ o_seq w = b) /\ s_msgs s' = s_msgs s.
Proof.
  intros Hf s'. unfold s', generate_sequence_reset.
  match goal with |- context [enqueue_bytes_and_send ?x ?m] =>
    assert (Hx : flushing x) by exact Hf; destruct (enqueue_bytes_flushing x m Hx) as (F1 & F2 & F3) end.
  split; [exact F1|]. split; [|exact F3].
  eexists. split; [exact F2|]. split; [|reflexivity].
  split; [reflexivity|]. left. repeat split; try reflexivity. exists e. reflexivity.
Qed.

Lemma resend_loop_replays : forall keys s ir a b s1 x y,
  resend_loop keys s ir a b = (s1, x, y) -> flushing s ->
  flushing s1 /\ s_msgs s1 = s_msgs s /\ exists new, s_wire s1 = new ++ s_wire s /\ Forall (replay_ok (s_msgs s)) new.
Proof.
  induction keys as [|k r IH]; intros s ir a b s1 x y E Hf; cbn [resend_loop] in E.
  - inversion E; subst. split; [exact Hf|]. split; [reflexivity|]. exists []. split; [reflexivity | constructor].
  - destruct (lookup_msg k (s_msgs s)) as [sm|] eqn:El; [|eapply IH; eassumption].
    destruct (is_admin (o_type sm)) eqn:Ea; [eapply IH; eassumption|].
    set (s2 := log_cb s (CbToApp k true)) in E.
    assert (Hf2 : flushing s2) by exact Hf.
    destruct (existsb (Z.eqb k) (mi_refuse ir)).
    { destruct (IH _ _ _ _ _ _ _ E Hf2) as (G1 & G2 & new & G3 & G4). split; [exact G1|]. split; [exact G2|]. exists new. split; assumption. }
    (* replayed: possibly a gap fill first *)
    assert (Hgf : exists s3, (if a =? k then s2 else generate_sequence_reset s2 a k ir) = s3 /\ flushing s3 /\ s_msgs s3 = s_msgs s
                    /\ exists pre, s_wire s3 = pre ++ s_wire s /\ Forall (replay_ok (s_msgs s)) pre).
    { destruct (a =? k).
      - exists s2. split; [reflexivity|]. split; [exact Hf2|]. split; [reflexivity|]. exists []. split; [reflexivity | constructor].
      - destruct (gen_seq_reset_flushing s2 a k ir Hf2) as (G1 & (w & G2 & G3 & _) & G4).
        eexists. split; [reflexivity|]. split; [exact G1|]. split; [exact G4|]. exists [w]. split; [exact G2|]. constructor; [exact G3 | constructor]. }
    destruct Hgf as (s3 & E3 & Hf3 & Hm3 & pre & Hw3 & Hpre). rewrite E3 in E.
    match type of E with resend_loop r (enqueue_bytes_and_send s3 ?m) _ _ _ = _ =>
      destruct (enqueue_bytes_flushing s3 m Hf3) as (F1 & F2 & F3);
      destruct (IH _ _ _ _ _ _ _ E F1) as (G1 & G2 & new & G3 & G4);
      assert (Hm : replay_ok (s_msgs s) m)
    end.
    { split; [reflexivity|]. right. exists sm. cbn [o_seq o_type o_body o_hdr]. repeat split; try assumption; reflexivity. }
    split; [exact G1|]. split; [rewrite G2, F3; exact Hm3|].
    match type of F2 with _ = ?mm :: _ => exists (new ++ mm :: pre) end. split.
    + rewrite G3, F2, Hw3. rewrite <- app_assoc. reflexivity.
    + rewrite F3, Hm3 in G4. apply Forall_app; split; [exact G4|]. constructor; [exact Hm | exact Hpre].
Qed.

Lemma resend_messages_replays : forall s b e ir,
  flushing s -> c_disable_persist (s_cfg s) = false ->
  let s' := resend_messages s b e ir in
  flushing s' /\ s_msgs s' = s_msgs s /\ exists new, s_wire s' = new ++ s_wire s /\ Forall (replay_ok (s_msgs s)) new.
Proof.
  intros s b e ir Hf Hp s'. unfold s', resend_messages. rewrite Hp.
  destruct (resend_loop (stored_keys_in b e (s_msgs s)) s ir b b) as [[s1 x] y] eqn:E.
  destruct (resend_loop_replays _ _ _ _ _ _ _ _ E Hf) as (G1 & G2 & new & G3 & G4).
  destruct (x =? y).
  - split; [exact G1|]. split; [exact G2|]. exists new. split; assumption.
  - destruct (gen_seq_reset_flushing s1 x y ir G1) as (F1 & (w & F2 & F3 & _) & F4).
    split; [exact F1|]. split; [rewrite F4; exact G2|]. exists (w :: new). split.
    + rewrite F2, G3. reflexivity.
    + constructor; [rewrite <- G2; exact F3 | exact G4].
Qed.

(* ---------- C08 ---------- *)
Lemma logon_state_rejects_non_logon : forall s m, beq_bytes (mi_type m) T_LOGON = false -> logon_state_fix_msg_in s m = (s, SLatent).
Proof. intros s m H. unfold logon_state_fix_msg_in. rewrite H. reflexivity. Qed.

Lemma latent_ignores : forall s m, state_fix_msg_in SLatent s m = (s, SLatent).
Proof. reflexivity. Qed.

Lemma flush_not_logged_on_drops : forall s, is_logged_on (s_st (clear_logs s)) = false ->
  s_to_send (step s EFlush) = [] /\ s_wire (step s EFlush) = [].
Proof. intros s H. unfold step, step_event. rewrite H. split; reflexivity. Qed.

Lemma app_send_writes_nothing : forall s t body ok, s_wire (step s (EAppSend t body ok)) = [].
Proof.
  intros s t body ok. unfold step, step_event, queue_for_send, prep.
  destruct (is_admin t); [destruct (beq_bytes t T_LOGON && body_has_reset_y body)|destruct ok];
    unfold enqueue, persist, upd_to_send, upd_store; try destruct (c_disable_persist _); reflexivity.
Qed.

Lemma closed_channel_writes_nothing : forall s, s_out_open s = false -> send_queued s = s.
Proof. intros s H. unfold send_queued. rewrite H. reflexivity. Qed.

(* ---------- C09: the session survives garbage ---------- *)
(* a frame that does not parse leaves the session exactly as it was (apart from the per-event logs being cleared) *)
Lemma garbage_harmless : forall s, step s EGarbage = clear_logs s.
Proof.
  intros s. unfold step, step_event, incoming, incoming_with.
  destruct (negb (is_connected (s_st (clear_logs s)))); reflexivity.
Qed.
