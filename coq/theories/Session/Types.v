(* Session layer: data types of the executable model (DESIGN 4.4).
   Messages are abstract views: the Go harness builds the real bytes from the same description, the
   codec models/theorems (C10, C11) cover the bytes. *)
From Coq Require Import String.
From Coq Require Import ZArith List Bool.
Open Scope string_scope.
Open Scope list_scope.
From QF Require Import Base.Bytes.
Import ListNotations.
Open Scope Z_scope.

(* what a typed accessor sees for one header/body field *)
Inductive fres (A : Type) : Type :=
| FAbsent            (* tag not in the message *)
| FBad               (* present, value does not read as the type (includes the empty value for int/bool/time) *)
| FVal (a : A).
Arguments FAbsent {A}.
Arguments FBad {A}.
Arguments FVal {A} a.

(* verdict of an application callback (FromApp / FromAdmin) *)
Inductive verdict :=
| VAccept
| VReject (reason : Z) (ref_tag : option Z) (business : bool)   (* a MessageRejectError *)
| VRejectLogon.                                                   (* quickfix.RejectLogon *)

(* inbound message as the session reads it *)
Record minput := {
  mi_type : bytes;                 (* 35 *)
  mi_begin : bytes;                (* 8 (always present in a parsed message) *)
  mi_sender : option bytes;        (* 49 *)
  mi_target : option bytes;        (* 56 *)
  mi_seq : fres Z;                 (* 34 *)
  mi_possdup : fres bool;          (* 43 *)
  mi_stime : fres Z;               (* 52: seconds relative to "now" (the harness stamps now+delta) *)
  mi_otime : fres Z;               (* 122: seconds relative to the value of 52 *)
  mi_gapfill : fres bool;          (* 123 *)
  mi_newseq : fres Z;              (* 36 *)
  mi_beginseq : fres Z;            (* 7 *)
  mi_endseq : fres Z;              (* 16 *)
  mi_reset : fres bool;            (* 141 *)
  mi_hbint : fres Z;               (* 108 *)
  mi_testreq : option bytes;       (* 112 *)
  mi_applver : option bytes;       (* 1137 *)
  mi_route : list (Z * bytes);     (* the optional routing header fields present: 50,57,142,143,115,128,116,129,144,145 *)
  mi_body : list (Z * bytes);      (* further body fields (application payload), ascending tags *)
  mi_app : verdict;                (* what the application callback answers for this message *)
  mi_valid : verdict;              (* what the configured Validator answers (VAccept when none) *)
  mi_refuse : list Z               (* for a ResendRequest: numbers the application declines to resend (ToApp error) *)
}.

(* outbound message *)
Record omsg := {
  o_type : bytes;
  o_seq : Z;
  o_hdr : list (Z * bytes);        (* header fields other than 8, 35, 49, 56, 34, 52 *)
  o_body : list (Z * bytes)        (* body in wire order; Text (58) of engine-generated messages omitted *)
}.

Inductive role := Acceptor | Initiator.

Record cfg := {
  c_role : role;
  c_begin : Z;                     (* 0 FIX.4.0, 1 FIX.4.1, 2 FIX.4.2, 3 FIX.4.3, 4 FIX.4.4, 5 FIXT.1.1 (string order) *)
  c_sender : bytes;                (* our SenderCompID *)
  c_target : bytes;                (* our TargetCompID *)
  c_reset_on_logon : bool;
  c_reset_on_logout : bool;
  c_reset_on_disconnect : bool;
  c_refresh_on_logon : bool;       (* Refresh is the identity on a single-writer store *)
  c_chunk : Z;                     (* ResendRequestChunkSize *)
  c_hb : Z;                        (* configured HeartBtInt, seconds *)
  c_hb_override : bool;
  c_skip_latency : bool;
  c_max_latency : Z;               (* seconds *)
  c_disable_persist : bool;
  c_last_seq_processed : bool;     (* EnableLastMsgSeqNumProcessed *)
  c_in_cap : nat;                  (* capacity of the buffered messageIn channel *)
  c_appl_ver : bytes               (* DefaultApplVerID (FIXT.1.1) *)
}.

Definition begin_string (b : Z) : bytes :=
  if b =? 0 then B "FIX.4.0" else if b =? 1 then B "FIX.4.1" else if b =? 2 then B "FIX.4.2"
  else if b =? 3 then B "FIX.4.3" else if b =? 4 then B "FIX.4.4" else B "FIXT.1.1".

Inductive sstate :=
| SLatent
| SNotSessionTime
| SLogon
| SLogout
| SInSession
| SResend (stash : option (list (Z * minput))) (cur_end range_end : Z)   (* None: the Go map is nil *)
| SPending (inner : sstate).

Inductive tevent := NeedHeartbeat | PeerTimeout | LogonTimeout | LogoutTimeout.

Inductive event :=
| EConnect
| EArrive (m : minput)             (* the read loop puts a frame into the buffered messageIn channel *)
| EDeliver                         (* the run loop takes the head of messageIn and processes it *)
| EIncoming (m : minput)           (* a frame processed directly (channel empty) *)
| EGarbage                         (* a frame that does not parse *)
| EInClosed                        (* messageIn closed: stateMachine.Disconnected *)
| ETimeout (e : tevent)
| EAppSend (t : bytes) (body : list (Z * bytes)) (ok : bool)   (* SendToTarget -> queueForSend; ok = ToApp verdict *)
| EFlush                           (* messageEvent -> SendAppMessages *)
| EStop
| EResetSeqTime.                  (* CheckResetTime crossed the configured ResetSeqTime while connected: sendLogonInReplyTo(true, nil) *)

(* what the application can see of the header of the message it is handed (used by the C06 gate statement) *)
Record mfacts := { mf_begin : bytes; mf_sender : option bytes; mf_target : option bytes; mf_stime : fres Z; mf_valid : verdict;
                   mf_id : option bytes (* ClOrdID (11) of the body, if any: identifies the payload in the two-engine runs *) }.
Definition facts_of (m : minput) : mfacts :=
  {| mf_begin := mi_begin m; mf_sender := mi_sender m; mf_target := mi_target m; mf_stime := mi_stime m; mf_valid := mi_valid m;
     mf_id := match find (fun f => fst f =? 11) (mi_body m) with Some (_, v) => Some v | None => None end |}.

(* callbacks and store events, in the order they happen *)
Inductive cb :=
| CbFromApp (seq : fres Z) (tgt_at_call : Z) (answer : verdict) (f : mfacts)   (* answer: what the application returned *)
| CbFromAdmin (t : bytes) (seq : fres Z) (f : mfacts)
| CbToApp (seq : Z) (possdup : bool)
| CbToAdmin (t : bytes)
| CbOnLogon
| CbOnLogout
| CbStoreReset.

Record sess := {
  s_cfg : cfg;
  s_st : sstate;
  s_snd : Z;                        (* store: next sender number *)
  s_tgt : Z;                        (* store: next target number *)
  s_msgs : list (Z * omsg);         (* store: saved messages, latest save first *)
  s_to_send : list omsg;
  s_out_open : bool;                (* messageOut != nil *)
  s_in_open : bool;                 (* messageIn != nil *)
  s_in_buf : list (option minput);   (* None: a frame that does not parse *)
  s_sent_reset : bool;
  s_hb : Z;                         (* current HeartBtInt, seconds *)
  s_pending_stop : bool;
  s_stopped : bool;
  s_cbs : list cb;                  (* log of this event, newest first *)
  s_wire : list omsg;               (* sent on messageOut in this event, newest first *)
  s_closed : bool                   (* messageOut was closed in this event *)
}.

Definition init_sess (c : cfg) : sess :=
  {| s_cfg := c; s_st := SLatent; s_snd := 1; s_tgt := 1; s_msgs := []; s_to_send := [];
     s_out_open := false; s_in_open := false; s_in_buf := []; s_sent_reset := false; s_hb := c_hb c;
     s_pending_stop := false; s_stopped := false; s_cbs := []; s_wire := []; s_closed := false |}.
