(* C07 clause 705, as a trace predicate of its own (Session/Spec.v lists the code but c07_scan has no clause for it):
   a store reset never happens without a cause.  With no reset option configured (ResetOnLogon / ResetOnLogout /
   ResetOnDisconnect all off), an event in which the store is reset is one of
     - a directly processed Logon carrying ResetSeqNumFlag=Y that the validator and the application (FromAdmin) accept
       (a reset the peer asks for, or the echo of ours),
     - the ResetSeqTime crossing (the engine sends a Logon carrying 141=Y),
     - the application itself sending a Logon carrying 141=Y through SendToTarget,
   or an event that handles buffered frames while a Logon carrying 141=Y may sit in the inbound buffer (`pend`: such a Logon
   has arrived and the buffer has not been seen empty since).  Buffered frames that are not such a Logon do not excuse a
   reset, whether they are delivered one by one or handled by handleDisconnectState before it disconnects. *)
From Coq Require Import String.
From Coq Require Import ZArith List Bool.
From QF Require Import Base.Bytes Session.Types Session.Model Session.Spec.
Import ListNotations.
Open Scope list_scope.
Open Scope Z_scope.

(* a Logon carrying ResetSeqNumFlag=Y that the validator and the application accept: a Logon that FromAdmin refuses
   (RejectLogon or a reject) or that the validator rejects negotiates nothing *)
Definition is_reset_logon (m : minput) : bool :=
  beq_bytes (mi_type m) T_LOGON && match mi_reset m with FVal true => true | _ => false end
  && match mi_valid m with VAccept => true | _ => false end && match mi_app m with VAccept => true | _ => false end.

Definition reset_cause (e : event) : bool :=
  match e with
  | EResetSeqTime => true
  | EAppSend t body _ => beq_bytes t T_LOGON && body_has_reset_y body
  | EIncoming m => is_reset_logon m
  | _ => false
  end.
Definition arrives_reset (e : event) : bool := match e with EArrive m => is_reset_logon m | _ => false end.

(* code 705: a reset without any cause *)
Fixpoint c07_cause_scan (c : cfg) (i : nat) (pend : bool) (tr : list (event * obs)) : list failure :=
  match tr with
  | [] => []
  | (e, o) :: r =>
      (if has_reset (ob_cbs o) && no_reset_option c && negb pend && negb (reset_cause e) then [(i, 705)] else [])
      ++ c07_cause_scan c (S i) (if ob_inbuf o =? 0 then false else pend || arrives_reset e) r
  end.
Definition c07_cause_check (c : cfg) (tr : list (event * obs)) : list failure := c07_cause_scan c O false tr.
