(* C07 clause 705, as a trace predicate of its own (Session/Spec.v lists the code but c07_scan has no clause for it):
   a store reset never happens without a cause.  With no reset option configured (ResetOnLogon / ResetOnLogout /
   ResetOnDisconnect all off) and nothing buffered inbound, an event in which the store is reset is one of
     - a directly processed Logon carrying ResetSeqNumFlag=Y (a reset the peer asks for, or the echo of ours),
     - the ResetSeqTime crossing (the engine sends a Logon carrying 141=Y),
     - the application itself sending a Logon carrying 141=Y through SendToTarget. *)
From Coq Require Import String.
From Coq Require Import ZArith List Bool.
From QF Require Import Base.Bytes Session.Types Session.Model Session.Spec.
Import ListNotations.
Open Scope list_scope.
Open Scope Z_scope.

Definition reset_cause (e : event) : bool :=
  match e with
  | EResetSeqTime => true
  | EAppSend t body _ => beq_bytes t T_LOGON && body_has_reset_y body
  | EIncoming m => beq_bytes (mi_type m) T_LOGON && match mi_reset m with FVal true => true | _ => false end
  | _ => false
  end.

(* code 705: a reset without any cause *)
Fixpoint c07_cause_scan (c : cfg) (i : nat) (prev : obs) (tr : list (event * obs)) : list failure :=
  match tr with
  | [] => []
  | (e, o) :: r =>
      (if has_reset (ob_cbs o) && no_reset_option c && (ob_inbuf prev =? 0) && negb (reset_cause e) then [(i, 705)] else [])
      ++ c07_cause_scan c (S i) o r
  end.
Definition c07_cause_check (c : cfg) (tr : list (event * obs)) : list failure := c07_cause_scan c O (init_obs c) tr.
