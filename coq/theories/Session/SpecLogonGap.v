(* C04, "including gaps detected on the Logon itself", as a trace predicate of its own (code 409; Session/Spec.v's c04_scan
   judges gaps detected in session).  When a directly processed Logon is accepted during the handshake (the session was in its logon state; a Logon received
   in session that is numbered too high is answered with a Logout instead) in a step (OnLogon is among the step's
   callbacks) and its own MsgSeqNum n has not been consumed — the expected number after the step, which already reflects
   any reset the Logon caused, is still <= n: the Logon was numbered too high — then exactly one ResendRequest is created
   in that step (one ToAdmin for MsgType 2) — it is on the wire with BeginSeqNo = the expected number after the step and
   EndSeqNo = the chunk end or the "infinity" marker of the FIX version, or, the session not having been logged on when it
   was created, it has joined the outbound queue — and the session is recovering with range end n - 1. *)
From Coq Require Import ZArith List Bool.
From QF Require Import Base.Bytes Session.Types Session.Model Session.Spec.
Import ListNotations.
Open Scope list_scope.
Open Scope Z_scope.

Definition has_onlogon (l : list cb) : bool := existsb (fun c => match c with CbOnLogon => true | _ => false end) l.

Fixpoint c04_logon_gap_scan (c : cfg) (i : nat) (prev : obs) (tr : list (event * obs)) : list failure :=
  match tr with
  | [] => []
  | (e, o) :: r =>
      (match e with
       | EIncoming m =>
           if beq_bytes (mi_type m) T_LOGON && (ob_inbuf prev =? 0) && has_onlogon (ob_cbs o)
              && match ob_st prev with ShLogon => true | _ => false end then
             match mi_seq m with
             | FVal n =>
                 if ob_tgt o <=? n then
                   if Nat.eqb (length (filter (fun x => match x with CbToAdmin t => beq_bytes t T_RESENDREQ | _ => false end) (ob_cbs o))) 1
                      && (match resend_requests (ob_wire o) with
                          | [] => 1 <=? ob_tosend o     (* still queued: the session was not logged on when it was created (the Logon reply drops what was queued before) *)
                          | [rq] => rr_is rq (ob_tgt o) (end_marker c (ob_tgt o) n)
                          | _ => false
                          end)
                      && match sh_unwrap (ob_st o) with ShResend _ _ _ re => re =? n - 1 | _ => false end
                   then [] else [(i, 409)]
                 else []
             | _ => []
             end
           else []
       | _ => []
       end)
      ++ c04_logon_gap_scan c (S i) o r
  end.
Definition c04_logon_gap_check (c : cfg) (tr : list (event * obs)) : list failure := c04_logon_gap_scan c O (init_obs c) tr.
