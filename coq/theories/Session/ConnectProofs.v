(* C07 at trace level: what a connect does to the store (clauses 702 / 703 of c07_check), for every reachable state. *)
From Coq Require Import String.
From Coq Require Import ZArith List Bool Lia.
From QF Require Import Base.Bytes Session.Types Session.Model Session.Spec Session.C01Proofs Session.FrameProofs Session.TraceProofs.
Import ListNotations.
Open Scope list_scope.
Open Scope Z_scope.

Lemma connect_when_connected : forall s, is_connected (s_st s) = true -> step s EConnect = clear_logs s.
Proof. intros s Hc. unfold step, step_event, connect. cbn [clear_logs s_st upd_chan upd_logs]. rewrite Hc. reflexivity. Qed.

Lemma acceptor_connect_general : forall s, is_connected (s_st s) = false -> c_role (s_cfg s) = Acceptor ->
  let s' := step s EConnect in
  s_snd s' = s_snd s /\ s_tgt s' = s_tgt s /\ s_cbs s' = [] /\ s_wire s' = [].
Proof.
  intros s Hc Hr.
  destruct s as [c st snd tgt msgs q oo io ib sr hb ps stp cbs w cl]. cbn in Hc, Hr. crush_cfg c. cbn in Hr. subst role.
  unfold step, clear_logs, step_event, connect. cbn [s_st upd_chan upd_logs]. rewrite Hc. cbn. auto.
Qed.

Lemma initiator_connect_general : forall s, is_connected (s_st s) = false -> c_role (s_cfg s) = Initiator ->
  let s' := step s EConnect in
  exists lg, rev (s_wire s') = [lg] /\ o_type lg = T_LOGON /\
    if logon_resets lg || c_reset_on_logon (s_cfg s)
    then o_seq lg = 1 /\ s_snd s' = 2 /\ s_tgt s' = 1
    else o_seq lg = s_snd s /\ s_snd s' = s_snd s + 1 /\ s_tgt s' = s_tgt s /\ has_reset (rev (s_cbs s')) = false.
Proof.
  intros s Hc Hr.
  destruct s as [c st snd tgt msgs q oo io ib sr hb ps stp cbs w cl]. cbn in Hc, Hr. crush_cfg c. cbn in Hr. subst role.
  unfold step, clear_logs, step_event, connect. cbn [s_st upd_chan upd_logs]. rewrite Hc.
  cbn [negb initiator s_cfg c_role set_sent_reset upd_flags upd_chan upd_logs s_cfg c_reset_on_logon].
  match goal with |- context [should_send_reset ?x] => generalize (should_send_reset x) end.
  intros rs. destruct rs, r1, ls, np, av; vm_compute; eexists; repeat split; reflexivity.
Qed.

Lemma sh_connected_shape st : sh_connected (shape_of st) = is_connected st.
Proof. induction st; cbn; auto. Qed.

Ltac free_rest :=
  repeat match goal with
         | |- free_of _ (_ ++ _) = true => rewrite free_of_app; apply andb_true_iff; split
         | |- free_of _ (match ?x with _ => _ end) = true => destruct x
         | |- free_of _ (if ?x then _ else _) = true => destruct x
         end; try reflexivity.

Lemma c07_connect_event_ok : forall i b s,
  free_of [702; 703] (c07_event (s_cfg s) i b (obs_of s) EConnect (obs_of (step s EConnect))) = true.
Proof.
  intros i b s. unfold c07_event. cbn [c07_scan]. rewrite !app_nil_r.
  rewrite free_of_app. apply andb_true_iff; split; [|free_rest].
  change (ob_st (obs_of s)) with (shape_of (s_st s)). rewrite sh_connected_shape.
  change (ob_snd (obs_of (step s EConnect))) with (s_snd (step s EConnect)).
  change (ob_tgt (obs_of (step s EConnect))) with (s_tgt (step s EConnect)).
  change (ob_cbs (obs_of (step s EConnect))) with (rev (s_cbs (step s EConnect))).
  change (ob_wire (obs_of (step s EConnect))) with (rev (s_wire (step s EConnect))).
  change (ob_snd (obs_of s)) with (s_snd s). change (ob_tgt (obs_of s)) with (s_tgt s).
  destruct (is_connected (s_st s)) eqn:Ec.
  - rewrite (connect_when_connected s Ec). cbn [clear_logs upd_chan upd_logs s_snd s_tgt s_cbs rev has_reset existsb].
    rewrite !Z.eqb_refl. reflexivity.
  - unfold is_initiator. destruct (c_role (s_cfg s)) eqn:Er; cbn [negb].
    + destruct (acceptor_connect_general s Ec Er) as (A1 & A2 & A3 & _). rewrite A1, A2, A3, !Z.eqb_refl. reflexivity.
    + destruct (initiator_connect_general s Ec Er) as (lg & H1 & _ & H3). rewrite H1.
      destruct (logon_resets lg); cbn [orb] in H3.
      * destruct H3 as (A1 & A2 & A3). rewrite A1, A2, A3. reflexivity.
      * destruct (c_reset_on_logon (s_cfg s)).
        -- destruct H3 as (A1 & A2 & A3). rewrite A1, A2, A3. reflexivity.
        -- destruct H3 as (A1 & A2 & A3 & A4). rewrite A1, A2, A3, A4, !Z.eqb_refl. reflexivity.
Qed.

Lemma c07_other_event_ok2 : forall c i b prev e o, e <> EConnect ->
  free_of [702; 703] (c07_event c i b prev e o) = true.
Proof.
  intros c i b prev e o He. unfold c07_event. cbn [c07_scan]. rewrite !app_nil_r.
  destruct e; try (exfalso; apply He; reflexivity); free_rest.
Qed.

Lemma c07_scan_connect : forall es s i b,
  free_of [702; 703] (c07_scan (s_cfg s) i b (obs_of s) (combine es (map obs_of (run_trace es s)))) = true.
Proof.
  induction es as [|e r IH]; intros s i b; cbn [run_trace map combine]; [reflexivity|].
  rewrite c07_scan_cons, free_of_app. apply andb_true_iff; split.
  - destruct e; try (apply c07_other_event_ok2; discriminate). apply c07_connect_event_ok.
  - rewrite <- (step_cfg (s_cfg s) s e eq_refl). apply IH.
Qed.

(* C07, trace level: on every trace a connect leaves the store alone except for the Logon an initiator sends, and a Logon
   that resets (ResetOnLogon, or 141=Y on a fresh session) is number 1 with the counters at 2 / 1 *)
Lemma c07_connect_never_fails : forall c es,
  free_of [702; 703] (c07_check c (combine es (map obs_of (run_trace es (init_sess c))))) = true.
Proof. intros c es. unfold c07_check. apply (c07_scan_connect es (init_sess c)). Qed.
