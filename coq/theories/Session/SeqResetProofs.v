(* C07 clause 704 at trace level: a SequenceReset whose NewSeqNo is below the expected number, processed directly by a plain
   in-session state (nothing queued, nothing buffered), leaves the expected number unchanged and is answered by exactly one
   Reject -- with or without GapFillFlag. *)
From Coq Require Import String.
From Coq Require Import ZArith List Bool Lia.
From QF Require Import Base.Bytes Session.Types Session.Model Session.Spec Session.C01Proofs Session.LocalProofs
  Session.FrameProofs Session.TraceProofs Session.RecoveryProofs Session.ReactionProofs.
Import ListNotations.
Open Scope list_scope.
Open Scope Z_scope.

(* header passes: verification without the sequence checks goes on to the validator and the application *)
Lemma verify_select_nochecks : forall s m app,
  hdr_ok (s_cfg s) m ->
  verify_select s m false false app = if app then verify_msg_against_app_impl s m else (s, None).
Proof.
  intros s m app (Hb & Hc & Ht & Hs & Hg). unfold verify_select.
  rewrite (check_begin_ok s m Hb), (check_compid_ok s m Hc Hs Hg).
  replace (match s_st s with SResend _ _ _ => None | _ => check_sending_time s m end) with (@None rej)
    by (destruct (s_st s); try reflexivity; symmetry; apply check_time_ok; exact Ht).
  reflexivity.
Qed.

(* inSession.handleSequenceReset on an accepted SequenceReset whose NewSeqNo is below the expected number *)
Lemma sequence_reset_low : forall s m n,
  is_logged_on (s_st s) = true -> s_out_open s = true -> s_to_send s = [] ->
  mi_type m = T_SEQRESET -> mi_newseq m = FVal n -> n < s_tgt s -> mi_gapfill m <> FBad ->
  hdr_ok (s_cfg s) m -> mi_valid m = VAccept -> mi_app m = VAccept ->
  (is_gapfill m = true -> mi_seq m = FVal (s_tgt s)) ->
  exists rj, handle_sequence_reset s m = (sent (log_cb s (CbFromAdmin (mi_type m) (mi_seq m) (facts_of m))) rj, SInSession)
             /\ o_type rj = T_REJECT.
Proof.
  intros s m n Hl Ho Hq Hty Hn Hlt Hg Hh Hv Ha Hseq.
  set (s1 := log_cb s (CbFromAdmin (mi_type m) (mi_seq m) (facts_of m))).
  assert (Hva : verify_msg_against_app_impl s m = (s1, None)).
  { unfold verify_msg_against_app_impl. rewrite Hv. cbn [rej_of_verdict]. rewrite Hty. change (is_admin T_SEQRESET) with true.
    cbv iota. rewrite Ha. unfold s1. rewrite Hty. reflexivity. }
  assert (Hvs : verify_select s m (is_gapfill m) (is_gapfill m) true = (s1, None)).
  { destruct (is_gapfill m) eqn:Eg.
    - rewrite (verify_select_in_sequence s m true true true Hh (Hseq eq_refl)). exact Hva.
    - rewrite (verify_select_nochecks s m true Hh). exact Hva. }
  assert (Hl1 : is_logged_on (s_st s1) = true) by exact Hl.
  assert (Ho1 : s_out_open s1 = true) by exact Ho.
  assert (Hq1 : s_to_send s1 = []) by exact Hq.
  exists (reject_msg s1 m 5 None). split; [|reflexivity].
  unfold handle_sequence_reset. unfold is_gapfill in Hvs.
  destruct (mi_gapfill m) as [| |g] eqn:Egf; [| exfalso; apply Hg; reflexivity |].
  - rewrite Hvs, Hn. change (s_tgt s1) with (s_tgt s).
    replace (s_tgt s <? n) with false by (symmetry; apply Z.ltb_ge; lia).
    replace (n <? s_tgt s) with true by (symmetry; apply Z.ltb_lt; lia).
    unfold R_value_incorrect_notag. rewrite (do_reject_sent s1 Hl1 Ho1 Hq1). reflexivity.
  - rewrite Hvs, Hn. change (s_tgt s1) with (s_tgt s).
    replace (s_tgt s <? n) with false by (symmetry; apply Z.ltb_ge; lia).
    replace (n <? s_tgt s) with true by (symmetry; apply Z.ltb_lt; lia).
    unfold R_value_incorrect_notag. rewrite (do_reject_sent s1 Hl1 Ho1 Hq1). reflexivity.
Qed.

(* C07 clause 704 as a step *)
Lemma step_sequence_reset_low : forall s m n,
  s_st s = SInSession -> s_out_open s = true -> s_to_send s = [] ->
  mi_type m = T_SEQRESET -> mi_newseq m = FVal n -> n < s_tgt s -> mi_gapfill m <> FBad ->
  hdr_ok (s_cfg s) m -> mi_valid m = VAccept -> mi_app m = VAccept ->
  (is_gapfill m = true -> mi_seq m = FVal (s_tgt s)) ->
  let s' := step s (EIncoming m) in
  s_tgt s' = s_tgt s /\ s_st s' = SInSession /\ s_snd s' = s_snd s + 1
  /\ exists rj, rev (s_wire s') = [rj] /\ o_type rj = T_REJECT.
Proof.
  intros s m n Hst Ho Hq Hty Hn Hlt Hg Hh Hv Ha Hseq s'. unfold s'. clear s'.
  set (c := clear_logs s).
  assert (Hl : is_logged_on (s_st c) = true) by (change (s_st c) with (s_st s); rewrite Hst; reflexivity).
  destruct (sequence_reset_low c m n Hl Ho Hq Hty Hn Hlt Hg Hh Hv Ha Hseq) as (rj & E & Trj).
  rewrite (step_incoming_in_session s m Hst). fold c.
  assert (Ei : in_session_fix_msg_in c m = handle_sequence_reset c m).
  { unfold in_session_fix_msg_in. rewrite Hty. reflexivity. }
  rewrite Ei, E, (set_state_connected _ SInSession eq_refl).
  match goal with |- context [sent ?x rj] => destruct (sent_facts x rj) as (F1 & F2 & F3 & _) end.
  cbn [upd_st s_tgt s_st s_snd s_wire]. rewrite F1, F2, F3.
  split; [reflexivity|]. split; [reflexivity|]. split; [reflexivity|].
  exists rj. split; [reflexivity | exact Trj].
Qed.

(* ---------- trace level ---------- *)
Lemma c07_event_seqreset : forall i b s e, Boundary s ->
  free_of [704] (c07_event (s_cfg s) i b (obs_of s) e (obs_of (step s e))) = true.
Proof.
  intros i b s e Hb. unfold c07_event. cbn [c07_scan]. rewrite !app_nil_r.
  destruct e as [| | |m| | |t| | | |]; try (free_rest; fail).
  rewrite !free_of_app. repeat (apply andb_true_iff; split); try (free_rest; fail).
  match goal with |- free_of _ (if ?x then _ else _) = true => destruct x eqn:Ec; [|reflexivity] end.
  destruct (mi_newseq m) as [| |n] eqn:En; try reflexivity.
  assert (Hmain : mi_gapfill m <> FBad ->
    free_of [704]
      (if (n <? ob_tgt (obs_of s)) && msg_passes_header (s_cfg s) (if is_gapfill m then ob_tgt (obs_of s) else -1) m
          && match mi_valid m, mi_app m with VAccept, VAccept => true | _, _ => false end
          && (if is_gapfill m then match mi_seq m with FVal q => q =? ob_tgt (obs_of s) | _ => false end else true)
       then if (ob_tgt (obs_of (step s (EIncoming m))) =? ob_tgt (obs_of s))
               && beq_types (wire_types (ob_wire (obs_of (step s (EIncoming m))))) [T_REJECT] then [] else [(i, 704)]
       else []) = true).
  { intros Hg.
    match goal with |- free_of _ (if ?x then _ else _) = true => destruct x eqn:Eg; [|reflexivity] end.
    repeat (apply andb_true_iff in Ec as [Ec ?]).
    apply andb_true_iff in Eg as [Eg E4]. apply andb_true_iff in Eg as [Eg E3]. apply andb_true_iff in Eg as [E1 E2].
    change (ob_st (obs_of s)) with (shape_of (s_st s)) in *. change (ob_tgt (obs_of s)) with (s_tgt s) in *.
    assert (Hst : s_st s = SInSession).
    { apply plain_in_session. repeat (apply andb_true_iff; split); assumption. }
    assert (Hq : s_to_send s = []) by (apply len0; assumption).
    assert (Ho : s_out_open s = true).
    { destruct Hb as [B1 _]. rewrite Hst in B1. exact (proj1 (B1 eq_refl)). }
    assert (Hty : mi_type m = T_SEQRESET) by (apply beq_bytes_true; assumption).
    pose proof (passes_hdr_ok _ _ _ E2) as Hh.
    assert (Hva : mi_valid m = VAccept /\ mi_app m = VAccept).
    { destruct (mi_valid m), (mi_app m); try discriminate; auto. }
    destruct Hva as [Hv Ha].
    apply Z.ltb_lt in E1.
    assert (Hseq : is_gapfill m = true -> mi_seq m = FVal (s_tgt s)).
    { intros G. rewrite G in E4. destruct (mi_seq m) as [| |q]; try discriminate. apply Z.eqb_eq in E4. rewrite E4. reflexivity. }
    destruct (step_sequence_reset_low s m n Hst Ho Hq Hty En E1 Hg Hh Hv Ha Hseq) as (T1 & _ & _ & rj & W & Trj).
    change (ob_tgt (obs_of (step s (EIncoming m)))) with (s_tgt (step s (EIncoming m))).
    change (ob_wire (obs_of (step s (EIncoming m)))) with (rev (s_wire (step s (EIncoming m)))).
    rewrite T1, W, Z.eqb_refl. cbn [wire_types map beq_types andb]. rewrite Trj. reflexivity. }
  destruct (mi_gapfill m) as [| |g] eqn:Egf; try reflexivity.
  - apply Hmain. discriminate.
  - apply Hmain. discriminate.
Qed.

Lemma c07_scan_seqreset : forall es s i b, Boundary s ->
  free_of [704] (c07_scan (s_cfg s) i b (obs_of s) (combine es (map obs_of (run_trace es s)))) = true.
Proof.
  induction es as [|e r IH]; intros s i b Hb; cbn [run_trace map combine]; [reflexivity|].
  rewrite c07_scan_cons, free_of_app. apply andb_true_iff; split.
  - apply c07_event_seqreset; exact Hb.
  - rewrite <- (step_cfg (s_cfg s) s e eq_refl). apply IH. apply step_boundary; exact Hb.
Qed.

(* C07, trace level: on every trace of the model clause 704 never fails *)
Lemma c07_low_sequence_reset_never_fails : forall c es,
  free_of [704] (c07_check c (combine es (map obs_of (run_trace es (init_sess c))))) = true.
Proof. intros c es. unfold c07_check. apply (c07_scan_seqreset es (init_sess c)). apply init_boundary. Qed.

(* ---------- witness: the guard fires, with and without GapFillFlag ---------- *)
Definition srx_cfg : cfg :=
  {| c_role := Acceptor; c_begin := 2; c_sender := B "S"; c_target := B "T"; c_reset_on_logon := false;
     c_reset_on_logout := false; c_reset_on_disconnect := false; c_refresh_on_logon := false; c_chunk := 0; c_hb := 30;
     c_hb_override := false; c_skip_latency := true; c_max_latency := 120; c_disable_persist := false;
     c_last_seq_processed := false; c_in_cap := 1%nat; c_appl_ver := [] |}.
Definition srx_msg (t : bytes) (n : Z) (g : fres bool) (newseq : fres Z) : minput :=
  {| mi_type := t; mi_begin := B "FIX.4.2"; mi_sender := Some (B "T"); mi_target := Some (B "S"); mi_seq := FVal n;
     mi_possdup := FAbsent; mi_stime := FVal 0; mi_otime := FAbsent; mi_gapfill := g; mi_newseq := newseq;
     mi_beginseq := FAbsent; mi_endseq := FAbsent; mi_reset := FAbsent; mi_hbint := FVal 30; mi_testreq := None;
     mi_applver := None; mi_route := []; mi_body := []; mi_app := VAccept; mi_valid := VAccept; mi_refuse := [] |}.

(* Logon (1), Heartbeat (2), Heartbeat (3): expected number 4.  A SequenceReset-Reset (no GapFillFlag, any MsgSeqNum) with
   NewSeqNo 2, then a GapFill numbered 4 with NewSeqNo 3: each is answered by one Reject, the expected number stays 4. *)
Definition srx_trace : list event :=
  [EConnect; EIncoming (srx_msg T_LOGON 1 FAbsent FAbsent); EIncoming (srx_msg T_HEARTBEAT 2 FAbsent FAbsent);
   EIncoming (srx_msg T_HEARTBEAT 3 FAbsent FAbsent);
   EIncoming (srx_msg T_SEQRESET 9 FAbsent (FVal 2)); EIncoming (srx_msg T_SEQRESET 4 (FVal true) (FVal 3))].
Lemma srx_trace_rejects :
  map (fun o => (ob_st o, ob_tgt o, wire_types (ob_wire o))) (map obs_of (run_trace srx_trace (init_sess srx_cfg)))
  = [(ShLogon, 1, []); (ShInSession, 2, [T_LOGON]); (ShInSession, 3, []); (ShInSession, 4, []);
     (ShInSession, 4, [T_REJECT]); (ShInSession, 4, [T_REJECT])]
  /\ c07_check srx_cfg (combine srx_trace (map obs_of (run_trace srx_trace (init_sess srx_cfg)))) = [].
Proof. vm_compute. split; reflexivity. Qed.
