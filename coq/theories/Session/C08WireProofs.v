(* C08, clause 805 ("after a disconnect nothing more is written to that connection"): two closures over the model.
   (1) NWr: the wire log of an event only grows, and while the outbound channel is closed (messageOut = nil) it does not
       grow and nothing re-opens the channel - for every handler, the send path, handleDisconnectState, drainMessageIn and every event except Connect.
       Same syntax-directed closure as FrameProofs.v / WireProofs.v (sections L1-L9 cloned, base lemmas by hand).
   (2) Cl: within one event (other than Connect) the channel is either untouched or closed with the "closed" mark set.
   (3) Rounds: a predicate kept by every "handler, then setState" round is kept by drainMessageIn, setState and Incoming -
       the induction principle for invariants that must hold THROUGH the drain handleDisconnectState performs before it
       notifies and closes (used for clause 801 in C08TraceProofs.v and for 803 / 804 / 806 in C08QuietProofs.v). *)
From Coq Require Import String.
From Coq Require Import ZArith List Bool Lia.
From QF Require Import Base.Bytes Session.Types Session.Model Session.Spec Session.FrameProofs.
Import ListNotations.
Open Scope list_scope.
Open Scope Z_scope.

(* the wire log of an event only grows; while messageOut is closed it does not grow and the channel stays closed *)
Definition NWr (s0 s : sess) : Prop :=
  exists new, s_wire s = new ++ s_wire s0 /\ (s_out_open s0 = false -> s_out_open s = false /\ new = []).

Lemma nw_refl s : NWr s s.
Proof. exists []. split; [reflexivity | intros H; split; [exact H | reflexivity]]. Qed.
Lemma nw_trans a b c : NWr a b -> NWr b c -> NWr a c.
Proof.
  intros (n1 & A1 & A2) (n2 & B1 & B2). exists (n2 ++ n1). split; [rewrite B1, A1, app_assoc; reflexivity|].
  intros C. destruct (A2 C) as [A3 ->]. destruct (B2 A3) as [B3 ->]. split; [exact B3 | reflexivity].
Qed.

Section Base.
Variable s0 : sess.
Ltac stepnw := intros H; eapply nw_trans; [exact H|]; exists []; split; [reflexivity | intros C; split; [exact C | reflexivity]].
Lemma nw_upd_to_send s q : NWr s0 s -> NWr s0 (upd_to_send s q). Proof. stepnw. Qed.
Lemma nw_upd_store s a b c : NWr s0 s -> NWr s0 (upd_store s a b c). Proof. stepnw. Qed.
Lemma nw_log s c : NWr s0 s -> NWr s0 (log_cb s c). Proof. stepnw. Qed.
Lemma nw_reset s : NWr s0 s -> NWr s0 (store_reset s). Proof. stepnw. Qed.
Lemma nw_incr s : NWr s0 s -> NWr s0 (incr_tgt s). Proof. stepnw. Qed.
Lemma nw_set_tgt s n : NWr s0 s -> NWr s0 (set_tgt s n). Proof. stepnw. Qed.
Lemma nw_set_sent_reset s b : NWr s0 s -> NWr s0 (set_sent_reset s b). Proof. stepnw. Qed.
Lemma nw_set_hb s h : NWr s0 s -> NWr s0 (set_hb s h). Proof. stepnw. Qed.
Lemma nw_persist s m : NWr s0 s -> NWr s0 (persist s m).
Proof. intros H. unfold persist. destruct (c_disable_persist _); apply nw_upd_store, H. Qed.
End Base.

Ltac nw_ext := fail.
Ltac nw_go :=
  lazymatch goal with
  | H : NWr ?a ?b |- NWr ?a ?b => exact H
  | |- NWr ?a ?a => apply nw_refl
  | |- NWr _ (if ?x then _ else _) => destruct x eqn:?; nw_go
  | |- NWr _ (match ?x with _ => _ end) => destruct x eqn:?; nw_go
  | |- NWr _ (upd_to_send _ _) => apply nw_upd_to_send; nw_go
  | |- NWr _ (upd_store _ _ _ _) => apply nw_upd_store; nw_go
  | |- NWr _ (log_cb _ _) => apply nw_log; nw_go
  | |- NWr _ (store_reset _) => apply nw_reset; nw_go
  | |- NWr _ (incr_tgt _) => apply nw_incr; nw_go
  | |- NWr _ (set_tgt _ _) => apply nw_set_tgt; nw_go
  | |- NWr _ (set_sent_reset _ _) => apply nw_set_sent_reset; nw_go
  | |- NWr _ (set_hb _ _) => apply nw_set_hb; nw_go
  | |- NWr _ (persist _ _) => apply nw_persist; nw_go
  | _ => nw_ext
  end.
Ltac nw_pairlemma E := brk_in E; inv E; brk_hyps; nw_go.

Section L1.
Variable s0 : sess.
Lemma nw_prep s t hdr body ir ok s1 r : prep s t hdr body ir ok = (s1, r) -> NWr s0 s -> NWr s0 s1.
Proof. intros E H. unfold prep in E. nw_pairlemma E. Qed.
Lemma nw_send_queued s : NWr s0 s -> NWr s0 (send_queued s).
Proof.
  intros H. unfold send_queued. destruct (s_out_open s) eqn:Eo; [|exact H].
  eapply nw_trans; [exact H|]. exists (rev (s_to_send s)). split; [reflexivity|]. intros C. rewrite Eo in C. discriminate C.
Qed.
Lemma nw_drop_queued s : NWr s0 s -> NWr s0 (drop_queued s).
Proof. intros H. unfold drop_queued. apply nw_upd_to_send, H. Qed.
Lemma nw_enqueue s m : NWr s0 s -> NWr s0 (enqueue s m).
Proof. intros H. unfold enqueue. apply nw_upd_to_send, H. Qed.
End L1.
Ltac nw_ext1 :=
  lazymatch goal with
  | |- NWr _ (send_queued _) => apply nw_send_queued; nw_go
  | |- NWr _ (drop_queued _) => apply nw_drop_queued; nw_go
  | |- NWr _ (enqueue _ _) => apply nw_enqueue; nw_go
  | |- NWr _ ?v => match goal with E : prep _ _ _ _ _ _ = (v, _) |- _ => eapply nw_prep; [exact E | nw_go] end
  end.
Ltac nw_ext ::= nw_ext1.

Section L2.
Variable s0 : sess.
Lemma nw_queue_for_send s t hdr body ir ok : NWr s0 s -> NWr s0 (queue_for_send s t hdr body ir ok).
Proof. intros H. unfold queue_for_send. nw_go. Qed.
Lemma nw_enqueue_bytes s m : NWr s0 s -> NWr s0 (enqueue_bytes_and_send s m).
Proof. intros H. unfold enqueue_bytes_and_send. apply nw_send_queued, nw_enqueue. destruct (is_logged_on (s_st s)); [assumption | apply nw_drop_queued; assumption]. Qed.
Lemma nw_drop_and_send s t body ir : NWr s0 s -> NWr s0 (drop_and_send_in_reply_to s t body ir).
Proof. intros H. unfold drop_and_send_in_reply_to. nw_go. Qed.
Lemma nw_drop_and_reset s : NWr s0 s -> NWr s0 (drop_and_reset s).
Proof. intros H. unfold drop_and_reset. nw_go. Qed.
End L2.
Ltac nw_ext2 :=
  lazymatch goal with
  | |- NWr _ (queue_for_send _ _ _ _ _ _) => apply nw_queue_for_send; nw_go
  | |- NWr _ (enqueue_bytes_and_send _ _) => apply nw_enqueue_bytes; nw_go
  | |- NWr _ (drop_and_send_in_reply_to _ _ _ _) => apply nw_drop_and_send; nw_go
  | |- NWr _ (drop_and_reset _) => apply nw_drop_and_reset; nw_go
  | _ => nw_ext1
  end.
Ltac nw_ext ::= nw_ext2.

Section L3.
Variable s0 : sess.
Lemma nw_send_in_reply_to s t hdr body ir : NWr s0 s -> NWr s0 (send_in_reply_to s t hdr body ir).
Proof. intros H. unfold send_in_reply_to. nw_go. Qed.
Lemma nw_send_logon s b ir : NWr s0 s -> NWr s0 (send_logon_in_reply_to s b ir).
Proof. intros H. unfold send_logon_in_reply_to. nw_go. Qed.
Lemma nw_generate_sequence_reset s b e ir : NWr s0 s -> NWr s0 (generate_sequence_reset s b e ir).
Proof. intros H. unfold generate_sequence_reset. nw_go. Qed.
End L3.
Ltac nw_ext3 :=
  lazymatch goal with
  | |- NWr _ (send_in_reply_to _ _ _ _ _) => apply nw_send_in_reply_to; nw_go
  | |- NWr _ (send_logon_in_reply_to _ _ _) => apply nw_send_logon; nw_go
  | |- NWr _ (generate_sequence_reset _ _ _ _) => apply nw_generate_sequence_reset; nw_go
  | _ => nw_ext2
  end.
Ltac nw_ext ::= nw_ext3.

Section L4.
Variable s0 : sess.
Lemma nw_send s t body : NWr s0 s -> NWr s0 (send s t body).
Proof. intros H. unfold send. nw_go. Qed.
Lemma nw_send_logout s ir : NWr s0 s -> NWr s0 (send_logout_in_reply_to s ir).
Proof. intros H. unfold send_logout_in_reply_to. nw_go. Qed.
Lemma nw_do_reject s m r : NWr s0 s -> NWr s0 (do_reject s m r).
Proof. intros H. unfold do_reject. nw_go. Qed.
Lemma nw_resend_loop : forall keys s ir a b s1 x y, resend_loop keys s ir a b = (s1, x, y) -> NWr s0 s -> NWr s0 s1.
Proof.
  induction keys as [|k r IH]; intros s ir a b s1 x y E H; cbn [resend_loop] in E.
  - inv E. exact H.
  - brk_in E; eapply IH; try exact E; nw_go.
Qed.
End L4.
Ltac nw_ext4 :=
  lazymatch goal with
  | |- NWr _ (send _ _ _) => apply nw_send; nw_go
  | |- NWr _ (send_logout_in_reply_to _ _) => apply nw_send_logout; nw_go
  | |- NWr _ (initiate_logout_in_reply_to _ _) => unfold initiate_logout_in_reply_to; apply nw_send_logout; nw_go
  | |- NWr _ (do_reject _ _ _) => apply nw_do_reject; nw_go
  | |- NWr _ ?v =>
      match goal with
      | E : prep _ _ _ _ _ _ = (v, _) |- _ => eapply nw_prep; [exact E | nw_go]
      | E : resend_loop _ _ _ _ _ = (v, _, _) |- _ => eapply nw_resend_loop; [exact E | nw_go]
      | _ => nw_ext3
      end
  | _ => nw_ext3
  end.
Ltac nw_ext ::= nw_ext4.

Section L5.
Variable s0 : sess.
Lemma nw_send_resend_request s b e s1 st : send_resend_request s b e = (s1, st) -> NWr s0 s -> NWr s0 s1.
Proof. intros E H. unfold send_resend_request in E. nw_pairlemma E. Qed.
Lemma nw_resend_messages s b e ir : NWr s0 s -> NWr s0 (resend_messages s b e ir).
Proof. intros H. unfold resend_messages. nw_go. Qed.
Lemma nw_do_target_too_low s m s1 st : do_target_too_low s m = (s1, st) -> NWr s0 s -> NWr s0 s1.
Proof. intros E H. unfold do_target_too_low in E. nw_pairlemma E. Qed.
Lemma nw_shutdown_with_reason s m b s1 st : shutdown_with_reason s m b = (s1, st) -> NWr s0 s -> NWr s0 s1.
Proof. intros E H. unfold shutdown_with_reason in E. nw_pairlemma E. Qed.
Lemma nw_verify_app s m s1 r : verify_msg_against_app_impl s m = (s1, r) -> NWr s0 s -> NWr s0 s1.
Proof. intros E H. unfold verify_msg_against_app_impl in E. nw_pairlemma E. Qed.
Lemma nw_in_session_timeout s e s1 st : in_session_timeout s e = (s1, st) -> NWr s0 s -> NWr s0 s1.
Proof. intros E H. unfold in_session_timeout in E. nw_pairlemma E. Qed.
End L5.
Ltac nw_ext5 :=
  lazymatch goal with
  | |- NWr _ (resend_messages _ _ _ _) => apply nw_resend_messages; nw_go
  | |- NWr _ ?v =>
      match goal with
      | E : prep _ _ _ _ _ _ = (v, _) |- _ => eapply nw_prep; [exact E | nw_go]
      | E : resend_loop _ _ _ _ _ = (v, _, _) |- _ => eapply nw_resend_loop; [exact E | nw_go]
      | E : send_resend_request _ _ _ = (v, _) |- _ => eapply nw_send_resend_request; [exact E | nw_go]
      | E : do_target_too_high _ _ _ = (v, _) |- _ => unfold do_target_too_high in E; eapply nw_send_resend_request; [exact E | nw_go]
      | E : do_target_too_low _ _ = (v, _) |- _ => eapply nw_do_target_too_low; [exact E | nw_go]
      | E : shutdown_with_reason _ _ _ = (v, _) |- _ => eapply nw_shutdown_with_reason; [exact E | nw_go]
      | E : verify_msg_against_app_impl _ _ = (v, _) |- _ => eapply nw_verify_app; [exact E | nw_go]
      | E : in_session_timeout _ _ = (v, _) |- _ => eapply nw_in_session_timeout; [exact E | nw_go]
      | _ => nw_ext4
      end
  | _ => nw_ext4
  end.
Ltac nw_ext ::= nw_ext5.

Section L6.
Variable s0 : sess.
Lemma nw_verify_select s m a b c s1 r : verify_select s m a b c = (s1, r) -> NWr s0 s -> NWr s0 s1.
Proof. intros E H. unfold verify_select in E. brk_in E; try (inv E; exact H). all: eapply nw_verify_app; eauto. Qed.
Lemma nw_process_reject s m r s1 st : process_reject s m r = (s1, st) -> NWr s0 s -> NWr s0 s1.
Proof. intros E H. unfold process_reject in E. nw_pairlemma E. Qed.
End L6.
Ltac nw_ext6 :=
  lazymatch goal with
  | |- NWr _ ?v =>
      match goal with
      | E : verify_select _ _ _ _ _ = (v, _) |- _ => eapply nw_verify_select; [exact E | nw_go]
      | E : process_reject _ _ _ = (v, _) |- _ => eapply nw_process_reject; [exact E | nw_go]
      | _ => nw_ext5
      end
  | _ => nw_ext5
  end.
Ltac nw_ext ::= nw_ext6.

Section L7.
Variable s0 : sess.
Lemma nw_handle_logon s m s1 r : handle_logon s m = (s1, r) -> NWr s0 s -> NWr s0 s1.
Proof. intros E H. unfold handle_logon in E. nw_pairlemma E. Qed.
Lemma nw_handle_logout s m s1 st : handle_logout s m = (s1, st) -> NWr s0 s -> NWr s0 s1.
Proof. intros E H. unfold handle_logout in E. nw_pairlemma E. Qed.
Lemma nw_handle_test_request s m s1 st : handle_test_request s m = (s1, st) -> NWr s0 s -> NWr s0 s1.
Proof. intros E H. unfold handle_test_request, verify in E. nw_pairlemma E. Qed.
Lemma nw_handle_sequence_reset s m s1 st : handle_sequence_reset s m = (s1, st) -> NWr s0 s -> NWr s0 s1.
Proof. intros E H. unfold handle_sequence_reset in E. nw_pairlemma E. Qed.
Lemma nw_handle_resend_request s m s1 st : handle_resend_request s m = (s1, st) -> NWr s0 s -> NWr s0 s1.
Proof. intros E H. unfold handle_resend_request in E. nw_pairlemma E. Qed.
End L7.
Ltac nw_ext7 :=
  lazymatch goal with
  | |- NWr _ ?v =>
      match goal with
      | E : handle_logon _ _ = (v, _) |- _ => eapply nw_handle_logon; [exact E | nw_go]
      | E : handle_logout _ _ = (v, _) |- _ => eapply nw_handle_logout; [exact E | nw_go]
      | E : handle_test_request _ _ = (v, _) |- _ => eapply nw_handle_test_request; [exact E | nw_go]
      | E : handle_sequence_reset _ _ = (v, _) |- _ => eapply nw_handle_sequence_reset; [exact E | nw_go]
      | E : handle_resend_request _ _ = (v, _) |- _ => eapply nw_handle_resend_request; [exact E | nw_go]
      | _ => nw_ext6
      end
  | _ => nw_ext6
  end.
Ltac nw_ext ::= nw_ext7.

Section L8.
Variable s0 : sess.
Lemma nw_in_session_fix_msg_in s m s1 st : in_session_fix_msg_in s m = (s1, st) -> NWr s0 s -> NWr s0 s1.
Proof. intros E H. unfold in_session_fix_msg_in, verify in E. nw_pairlemma E. Qed.
Lemma nw_logon_state s m s1 st : logon_state_fix_msg_in s m = (s1, st) -> NWr s0 s -> NWr s0 s1.
Proof. intros E H. unfold logon_state_fix_msg_in in E. nw_pairlemma E. Qed.
End L8.

Section L9.
Variable s0 : sess.
Lemma nw_logout_state s m s1 st : logout_state_fix_msg_in s m = (s1, st) -> NWr s0 s -> NWr s0 s1.
Proof.
  intros E H. unfold logout_state_fix_msg_in in E.
  destruct (in_session_fix_msg_in s m) as [s2 st2] eqn:E2.
  assert (NWr s0 s2) by (eapply nw_in_session_fix_msg_in; eassumption). destruct st2; inv E; assumption.
Qed.
Lemma nw_resend_drain : forall fuel s stash next s1 stash1 next1 still,
  resend_drain fuel s stash next = (s1, stash1, next1, still) -> NWr s0 s -> NWr s0 s1.
Proof.
  induction fuel as [|f IH]; intros s stash next s1 stash1 next1 still E H; cbn [resend_drain] in E.
  - inv E. exact H.
  - destruct (stash_take (s_tgt s) stash) as [[m stash']|]; [|inv E; exact H].
    destruct (in_session_fix_msg_in s m) as [s2 n2] eqn:E2.
    assert (H2 : NWr s0 s2) by (eapply nw_in_session_fix_msg_in; eassumption).
    destruct (negb (is_logged_on n2)); [inv E; exact H2|]. eapply IH; eassumption.
Qed.
Lemma nw_resend_state s stash c e m s1 st : resend_state_fix_msg_in s stash c e m = (s1, st) -> NWr s0 s -> NWr s0 s1.
Proof.
  intros E H. unfold resend_state_fix_msg_in in E.
  destruct (in_session_fix_msg_in s m) as [s2 n2] eqn:E2.
  assert (H2 : NWr s0 s2) by (eapply nw_in_session_fix_msg_in; eassumption).
  destruct (negb (is_logged_on n2)); [inv E; exact H2|].
  match type of E with context [resend_drain ?f ?a ?b ?c] => destruct (resend_drain f a b c) as [[[s3 l3] n3] still] eqn:E3 end.
  assert (H3 : NWr s0 s3) by (eapply nw_resend_drain; eassumption).
  destruct (negb still); [inv E; exact H3|].
  brk_in E; inv E; try exact H3; eapply nw_send_resend_request; eassumption.
Qed.
Lemma nw_state_fix_msg_in : forall st s m s1 st1, state_fix_msg_in st s m = (s1, st1) -> NWr s0 s -> NWr s0 s1.
Proof.
  induction st as [| | | | | stash c e | i IH]; intros s m s1 st1 E H; cbn [state_fix_msg_in] in E.
  - inv E; exact H.
  - inv E; exact H.
  - eapply nw_logon_state; eassumption.
  - eapply nw_logout_state; eassumption.
  - eapply nw_in_session_fix_msg_in; eassumption.
  - eapply nw_resend_state; eassumption.
  - eapply IH; eassumption.
Qed.
Lemma nw_state_timeout st s e s1 st1 : state_timeout st s e = (s1, st1) -> NWr s0 s -> NWr s0 s1.
Proof.
  intros E H. unfold state_timeout in E.
  destruct st; try (brk_in E; inv E; exact H).
  - eapply nw_in_session_timeout; eassumption.
  - destruct (in_session_timeout s e) as [s2 st2] eqn:E2.
    assert (NWr s0 s2) by (eapply nw_in_session_timeout; eassumption). brk_in E; inv E; assumption.
Qed.
Lemma nw_state_stop : forall st s s1 st1, state_stop st s = (s1, st1) -> NWr s0 s -> NWr s0 s1.
Proof.
  induction st as [| | | | | stash c e | i IH]; intros s s1 st1 E H; cbn [state_stop] in E; try (inv E; nw_go).
  eapply IH; eassumption.
Qed.
End L9.

(* ---------- the state machine above the handlers ---------- *)
Section Upper.
Variable s0 : sess.
Lemma nw_upd_chan_closed s b c d : NWr s0 s -> NWr s0 (upd_chan s false b c d).
Proof. intros H. eapply nw_trans; [exact H|]. exists []. split; [reflexivity | intros C; split; reflexivity]. Qed.
Lemma nw_upd_chan_same s b c d : NWr s0 s -> NWr s0 (upd_chan s (s_out_open s) b c d).
Proof. intros H. exact H. Qed.
Lemma nw_upd_flags s a b c d : NWr s0 s -> NWr s0 (upd_flags s a b c d).
Proof. intros H. exact H. Qed.
Lemma nw_upd_st s x : NWr s0 s -> NWr s0 (upd_st s x).
Proof. intros H. exact H. Qed.
End Upper.

Definition NWF (f : sess -> sess) : Prop := forall s0 s, NWr s0 s -> NWr s0 (f s).

Ltac nw_ext10 :=
  lazymatch goal with
  | |- NWr _ (upd_chan _ false _ _ _) => apply nw_upd_chan_closed; nw_go
  | |- NWr _ (upd_chan ?x (s_out_open ?x) _ _ _) => apply nw_upd_chan_same; nw_go
  | |- NWr _ (upd_flags _ _ _ _ _) => apply nw_upd_flags; nw_go
  | |- NWr _ (upd_st _ _) => apply nw_upd_st; nw_go
  | |- NWr _ (?f ?x) => first [match goal with Hdr : NWF f |- _ => apply Hdr; nw_go end | nw_ext7]
  | _ => nw_ext7
  end.
Ltac nw_ext ::= nw_ext10.

Lemma nw_disconnect_now : NWF disconnect_now.
Proof. intros s0 s H. unfold disconnect_now. cbv zeta. nw_go. Qed.
Lemma nw_handle_disconnect dr : NWF dr -> NWF (handle_disconnect_state dr).
Proof.
  intros Hdr s0 s H. rewrite hd_unfold. destruct (_ && _); [apply Hdr; exact H | apply nw_disconnect_now, Hdr, H].
Qed.

Lemma nw_set_state_with dr next : NWF dr -> NWF (fun s => set_state_with dr s next).
Proof.
  intros Hdr s0 s H. pose proof (nw_handle_disconnect dr Hdr) as Hhd. unfold set_state_with.
  destruct (negb (is_connected next)); [|nw_go].
  apply nw_upd_st.
  assert (H1 : NWr s0 (if is_connected (s_st s) then handle_disconnect_state dr s else s)).
  { destruct (is_connected (s_st s)); [apply Hhd; exact H | exact H]. }
  destruct (s_pending_stop _); [apply nw_upd_flags|]; exact H1.
Qed.

Lemma nw_incoming_with dr m : NWF dr -> NWF (fun s => incoming_with dr s m).
Proof.
  intros Hdr s0 s H. unfold incoming_with.
  destruct (negb (is_connected (s_st s))); [exact H|]. destruct m as [mm|]; [|exact H].
  destruct (state_fix_msg_in (s_st s) s mm) as [s1 next] eqn:E.
  apply (nw_set_state_with dr next Hdr). eapply nw_state_fix_msg_in; eassumption.
Qed.

Lemma nw_drain_message_in : forall fuel, NWF (drain_message_in fuel).
Proof.
  induction fuel as [|f IH]; intros s0 s H; cbn [drain_message_in]; [exact H|].
  destruct (negb (s_in_open s)); [exact H|]. destruct (s_in_buf s) as [|m r]; [exact H|].
  apply IH. apply (nw_incoming_with (drain_message_in f) m IH). apply nw_upd_chan_same; exact H.
Qed.

Lemma nw_drain : NWF drain.
Proof. intros s0 s H. unfold drain. apply nw_drain_message_in. exact H. Qed.


Lemma nw_set_state next : NWF (fun s => set_state s next).
Proof. apply nw_set_state_with. exact nw_drain. Qed.
Lemma nw_incoming m : NWF (fun s => incoming s m).
Proof. apply nw_incoming_with. exact nw_drain. Qed.

Lemma nw_step_event e : e <> EConnect -> NWF (fun s => step_event s e).
Proof.
  intros Hne s0 s H. destruct e; cbn [step_event].
  - exfalso. apply Hne. reflexivity.
  - nw_go.
  - destruct (negb (s_in_open s)); [exact H|]. destruct (s_in_buf s) as [|m r]; [exact H|].
    apply (nw_incoming m). apply nw_upd_chan_same. exact H.
  - apply (nw_incoming (Some m)); exact H.
  - apply (nw_incoming None); exact H.
  - destruct (is_connected (s_st s)); [apply (nw_set_state SLatent)|]; exact H.
  - destruct (state_timeout (s_st s) s e) as [s1 next] eqn:E.
    apply (nw_set_state next). eapply nw_state_timeout; eassumption.
  - nw_go.
  - nw_go.
  - match goal with |- context [state_stop ?a ?b] => destruct (state_stop a b) as [s1 next] eqn:E end.
    apply (nw_set_state next). eapply nw_state_stop; [exact E|]. apply nw_upd_flags. exact H.
  - nw_go.
Qed.

(* while the channel is closed an event other than Connect writes nothing *)
Lemma step_closed_writes_nothing : forall s e, e <> EConnect -> s_out_open s = false ->
  s_wire (step s e) = [] /\ s_out_open (step s e) = false.
Proof.
  intros s e Hne Ho. unfold step.
  destruct (nw_step_event e Hne (clear_logs s) (clear_logs s) (nw_refl _)) as (new & A1 & A2).
  destruct (A2 Ho) as [B1 ->]. split; [rewrite A1; reflexivity | exact B1].
Qed.

(* ---------- (2) the channel and the "closed" mark ---------- *)
Definition Cl (s0 s : sess) : Prop :=
  (s_out_open s = s_out_open s0 /\ s_closed s = s_closed s0) \/ (s_out_open s = false /\ s_closed s = true).

Lemma cl_refl s : Cl s s.
Proof. left; split; reflexivity. Qed.
Lemma cl_same s0 s s' : Cl s0 s -> Same s s' -> Cl s0 s'.
Proof.
  intros H (S1 & _ & _ & _ & _ & _ & S7 & _).
  destruct H as [[A1 A2]|[A1 A2]]; [left | right]; split; congruence.
Qed.
Definition ClF (f : sess -> sess) : Prop := forall s0 s, Cl s0 s -> Cl s0 (f s).

Lemma cl_handle_disconnect dr : ClF dr -> ClF (handle_disconnect_state dr).
Proof.
  intros Hdr s0 s H. rewrite hd_unfold. pose proof (Hdr s0 s H) as Hd.
  destruct (_ && _); [exact Hd|]. unfold disconnect_now. cbv zeta.
  match goal with |- Cl _ (upd_chan ?x _ _ _ _) => assert (Hx : Cl s0 x) end.
  { match goal with |- Cl _ (if s_out_open ?y then _ else _) => assert (Hy : Cl s0 y) by (apply (cl_same s0 (dr s)); [exact Hd | fr_go]);
      destruct (s_out_open y) eqn:E end.
    - right. split; reflexivity.
    - exact Hy. }
  destruct Hx as [[A1 A2]|[A1 A2]]; [left | right]; split; assumption.
Qed.

Lemma cl_set_state_with dr next : ClF dr -> ClF (fun s => set_state_with dr s next).
Proof.
  intros Hdr s0 s H. pose proof (cl_handle_disconnect dr Hdr) as Hhd. unfold set_state_with.
  destruct (negb (is_connected next)); [|exact H].
  assert (H1 : Cl s0 (if is_connected (s_st s) then handle_disconnect_state dr s else s)).
  { destruct (is_connected (s_st s)); [apply Hhd; exact H | exact H]. }
  destruct (s_pending_stop _); exact H1.
Qed.

Lemma cl_incoming_with dr m : ClF dr -> ClF (fun s => incoming_with dr s m).
Proof.
  intros Hdr s0 s H. unfold incoming_with.
  destruct (negb (is_connected (s_st s))); [exact H|]. destruct m as [mm|]; [|exact H].
  destruct (state_fix_msg_in (s_st s) s mm) as [s1 next] eqn:E.
  apply (cl_set_state_with dr next Hdr). apply (cl_same s0 s); [exact H|].
  eapply fr_state_fix_msg_in; [exact E | apply same_refl].
Qed.

Lemma cl_drain_message_in : forall fuel, ClF (drain_message_in fuel).
Proof.
  induction fuel as [|f IH]; intros s0 s H; cbn [drain_message_in]; [exact H|].
  destruct (negb (s_in_open s)); [exact H|]. destruct (s_in_buf s) as [|m r]; [exact H|].
  apply IH. apply (cl_incoming_with (drain_message_in f) m IH). exact H.
Qed.

Lemma cl_drain : ClF drain.
Proof. intros s0 s H. unfold drain. apply cl_drain_message_in. exact H. Qed.
Lemma cl_set_state next : ClF (fun s => set_state s next).
Proof. apply cl_set_state_with. exact cl_drain. Qed.
Lemma cl_incoming m : ClF (fun s => incoming s m).
Proof. apply cl_incoming_with. exact cl_drain. Qed.

Lemma cl_step_event e : e <> EConnect -> ClF (fun s => step_event s e).
Proof.
  intros Hne s0 s H. destruct e; cbn [step_event].
  - exfalso. apply Hne. reflexivity.
  - destruct (_ && _); exact H.
  - destruct (negb (s_in_open s)); [exact H|]. destruct (s_in_buf s) as [|m r]; [exact H|].
    apply (cl_incoming m). exact H.
  - apply (cl_incoming (Some m)); exact H.
  - apply (cl_incoming None); exact H.
  - destruct (is_connected (s_st s)); [apply (cl_set_state SLatent)|]; exact H.
  - destruct (state_timeout (s_st s) s e) as [s1 next] eqn:E.
    apply (cl_set_state next). apply (cl_same s0 s); [exact H|]. eapply fr_state_timeout; [exact E | apply same_refl].
  - apply (cl_same s0 s); [exact H | fr_go].
  - apply (cl_same s0 s); [exact H | fr_go].
  - match goal with |- context [state_stop ?a ?b] => destruct (state_stop a b) as [s1 next] eqn:E end.
    apply (cl_set_state next).
    match type of E with state_stop _ ?x = _ => apply (cl_same s0 x); [exact H|] end.
    eapply fr_state_stop; [exact E | apply same_refl].
  - apply (cl_same s0 s); [exact H | fr_go].
Qed.

(* the channel after an event other than Connect: open iff it was open and this event did not close it *)
Lemma step_channel : forall s e, e <> EConnect ->
  s_out_open (step s e) = s_out_open s && negb (s_closed (step s e)).
Proof.
  intros s e Hne. unfold step.
  destruct (cl_step_event e Hne (clear_logs s) (clear_logs s) (cl_refl _)) as [[A1 A2]|[A1 A2]]; rewrite A1, A2.
  - cbn [clear_logs upd_chan s_out_open s_closed negb]. rewrite andb_true_r. reflexivity.
  - cbn [negb]. rewrite andb_false_r. reflexivity.
Qed.

(* ---------- (3) invariants through the drain ---------- *)
(* handleDisconnectState first lets the session handle what is buffered in messageIn: a chain of "handler, then setState"
   rounds, each in the state the previous one left, until the buffer is empty or a frame disconnects the session; the
   disconnect itself (disconnect_now) happens once, at the innermost level.  A predicate that survives one round of each
   kind survives drainMessageIn, setState and Incoming. *)
Definition fin (s : sess) (next : sstate) : sess :=
  upd_st (if s_pending_stop s then upd_flags s (s_sent_reset s) (s_hb s) true true else s) next.

Section Rounds.
Variable P : sess -> Prop.
Variable N : sstate -> Prop.       (* what is known of a disconnected state a handler returns *)
Hypothesis P_pop : forall x m r, P x -> s_in_buf x = m :: r -> P (upd_chan x (s_out_open x) (s_in_open x) r (s_closed x)).
Hypothesis P_msg_conn : forall x m s1 next, P x -> is_connected (s_st x) = true ->
  state_fix_msg_in (s_st x) x m = (s1, next) -> is_connected next = true -> P (upd_st s1 next).
Hypothesis P_msg_disc : forall x m s1 next, P x -> is_connected (s_st x) = true ->
  state_fix_msg_in (s_st x) x m = (s1, next) -> is_connected next = false -> P s1 /\ N next.
Hypothesis P_dead : forall s0 next, P s0 -> is_connected (s_st s0) = false -> is_connected next = false -> N next -> P (fin s0 next).
Hypothesis P_disc : forall s0 next, P s0 -> is_connected (s_st s0) = true -> is_connected next = false -> N next ->
  P (fin (disconnect_now s0) next).

Lemma rounds_set_state_with dr s1 next : (forall y, P y -> P (dr y)) -> is_connected (s_st s1) = true ->
  (is_connected next = true -> P (upd_st s1 next)) -> (is_connected next = false -> P s1 /\ N next) ->
  P (set_state_with dr s1 next).
Proof.
  intros Hdr Hc H1 H2. unfold set_state_with. destruct (is_connected next) eqn:En; cbn [negb]; [exact (H1 eq_refl)|].
  destruct (H2 eq_refl) as [Hp Hn]. rewrite Hc, hd_unfold, Hc. cbn [andb].
  pose proof (Hdr s1 Hp) as Hp0.
  destruct (is_connected (s_st (dr s1))) eqn:E0; cbn [negb].
  - exact (P_disc (dr s1) next Hp0 E0 En Hn).
  - exact (P_dead (dr s1) next Hp0 E0 En Hn).
Qed.

Lemma rounds_incoming_with dr x m : (forall y, P y -> P (dr y)) -> P x -> P (incoming_with dr x m).
Proof.
  intros Hdr Hp. unfold incoming_with. destruct (is_connected (s_st x)) eqn:Ec; cbn [negb]; [|exact Hp].
  destruct m as [mm|]; [|exact Hp].
  destruct (state_fix_msg_in (s_st x) x mm) as [s1 next] eqn:E.
  apply rounds_set_state_with; [exact Hdr | | |].
  - pose proof (fr_state_fix_msg_in x _ _ _ _ _ E (same_refl x)) as (_ & _ & _ & _ & _ & _ & _ & S8). rewrite S8. exact Ec.
  - intros En. exact (P_msg_conn x mm s1 next Hp Ec E En).
  - intros En. exact (P_msg_disc x mm s1 next Hp Ec E En).
Qed.

Lemma rounds_drain_message_in : forall fuel x, P x -> P (drain_message_in fuel x).
Proof.
  induction fuel as [|f IH]; intros x Hp; cbn [drain_message_in]; [exact Hp|].
  destruct (negb (s_in_open x)); [exact Hp|]. destruct (s_in_buf x) as [|m r] eqn:Eb; [exact Hp|].
  apply IH. apply rounds_incoming_with; [exact IH|]. exact (P_pop x m r Hp Eb).
Qed.

Lemma rounds_drain x : P x -> P (drain x).
Proof. intros Hp. unfold drain. apply rounds_drain_message_in. exact Hp. Qed.

Lemma rounds_set_state s1 next : is_connected (s_st s1) = true ->
  (is_connected next = true -> P (upd_st s1 next)) -> (is_connected next = false -> P s1 /\ N next) -> P (set_state s1 next).
Proof. intros Hc H1 H2. unfold set_state. apply rounds_set_state_with; [exact rounds_drain | assumption..]. Qed.

Lemma rounds_incoming x m : P x -> P (incoming x m).
Proof. intros Hp. unfold incoming. apply rounds_incoming_with; [exact rounds_drain | exact Hp]. Qed.
End Rounds.

(* setState from a state that is not connected: no handleDisconnectState *)
Lemma set_state_not_connected s next : is_connected (s_st s) = false -> is_connected next = false -> set_state s next = fin s next.
Proof. intros Hc Hn. unfold set_state, set_state_with, fin. rewrite Hn, Hc. reflexivity. Qed.
Lemma set_state_connected_next s next : is_connected next = true -> set_state s next = upd_st s next.
Proof. intros Hn. unfold set_state, set_state_with. rewrite Hn. reflexivity. Qed.

(* the wire log through a handler: it only grows *)
Lemma wire_grows_state_fix st s m s1 next : state_fix_msg_in st s m = (s1, next) -> exists new, s_wire s1 = new ++ s_wire s.
Proof. intros E. destruct (nw_state_fix_msg_in s st s m s1 next E (nw_refl s)) as (new & A1 & _). exists new. exact A1. Qed.
