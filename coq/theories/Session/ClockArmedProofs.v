(* The heartbeat timer is armed in every reachable timed state in which the session is logged on with its outbound channel
   open (Session/Clock.v with the repaired arming rules, `rearm = true`).

   The proof is one untimed fact about `step` and an invariant of the timed wrapper.

   `hot s`: the session is logged on, or it is an INITIATOR in the logon state (it has written its Logon on this connection
   and will be logged on by the answer without writing anything).  The untimed fact (`step_hot`): if the state after an
   event is hot then either the event wrote something to the wire, or the state before was hot already and - when the event
   is the heartbeat timer's expiry - it was the pending or the logon state (where the expiry is ignored and, since the
   repairs, re-arms the timer).  In a logged-on state that is not pending the expiry always writes a Heartbeat: a reachable
   logged-on state has its channel open (`Boundary`), and `send` in a logged-on state flushes the queue with the new message.

   The invariant: `Boundary` of the untimed component, and hot -> the heartbeat deadline is set.  It is kept by `apply_at true`
   for every event (also for timer expiries injected as external events: `apply_at` treats them by their kind) and by
   `fire_until true`, which disarms the deadline it fires before the event is applied. *)
From Coq Require Import String.
From Coq Require Import ZArith List Bool Lia.
From QF Require Import Base.Bytes Session.Types Session.Model Session.Spec Session.FrameProofs Session.LogonProofs
  Session.C08WireProofs Session.Clock.
Import ListNotations.
Open Scope list_scope.
Open Scope Z_scope.

(* ---------- hot states ---------- *)
Definition logon_like (st : sstate) : bool := match unwrap_pending st with SLogon => true | _ => false end.
Definition hot (s : sess) : bool := is_logged_on (s_st s) || (logon_like (s_st s) && initiator s).

Lemma logged_on_unwrap : forall st, is_logged_on st = is_logged_on (unwrap_pending st).
Proof. induction st as [| | | | | a b0 d | i IH]; cbn; try reflexivity. exact IH. Qed.

Lemma cold_of_disconnected : forall st, is_connected st = false -> is_logged_on st = false /\ logon_like st = false.
Proof.
  induction st as [| | | | | a b0 d | i IH]; cbn; intros H; try discriminate; try (split; reflexivity).
  destruct (IH H) as [H1 H2]. split; [exact H1 | exact H2].
Qed.

Lemma same_hot s s' : Same s s' -> hot s' = hot s.
Proof.
  intros H. pose proof (same_initiator _ _ H) as Hi. destruct H as (_ & _ & _ & _ & _ & _ & _ & H8).
  unfold hot. rewrite H8, Hi. reflexivity.
Qed.

(* ---------- what is written ---------- *)
Lemma wrote_mono s0 s : NWr s0 s -> wrote_any s0 = true -> wrote_any s = true.
Proof.
  intros (new & Hw & _) H. unfold wrote_any in *. rewrite Hw.
  destruct (s_wire s0) as [|x l]; [discriminate|]. destruct new; reflexivity.
Qed.

Lemma same_out s s' : Same s s' -> s_out_open s' = s_out_open s.
Proof. intros (H & _). exact H. Qed.

(* a Logon sent with dropAndSend on an open channel is written *)
Lemma send_logon_writes s fl ir : s_out_open s = true -> wrote_any (send_logon_in_reply_to s fl ir) = true.
Proof.
  intros Ho. unfold send_logon_in_reply_to, drop_and_send_in_reply_to.
  destruct (prep s T_LOGON [] (logon_body s fl) ir true) as [s1 r] eqn:Ep.
  assert (Ho1 : s_out_open s1 = true).
  { rewrite (same_out s s1); [exact Ho|]. eapply fr_prep; [exact Ep | apply same_refl]. }
  unfold prep in Ep. change (is_admin T_LOGON) with true in Ep. cbv iota beta zeta in Ep. inv Ep.
  match goal with |- context [enqueue (drop_queued ?p) ?m] => destruct (drop_enqueue_send_facts p m Ho1) as (D1 & _) end.
  unfold wrote_any. rewrite D1. reflexivity.
Qed.

(* an administrative message sent by a logged-on session on an open channel is written *)
Lemma send_logged_on_writes s t body : is_logged_on (s_st s) = true -> is_admin t = true -> s_out_open s = true ->
  wrote_any (send s t body) = true.
Proof.
  intros Hl Ha Ho. unfold send, send_in_reply_to. rewrite Hl. cbn [negb].
  destruct (prep s t [] body None true) as [s1 r] eqn:Ep.
  assert (Ho1 : s_out_open s1 = true).
  { rewrite (same_out s s1); [exact Ho|]. eapply fr_prep; [exact Ep | apply same_refl]. }
  unfold prep in Ep. rewrite Ha in Ep. cbv iota beta zeta in Ep. inv Ep.
  unfold send_queued.
  match goal with |- context [enqueue ?p ?m] => change (s_out_open (enqueue p m)) with (s_out_open p) end.
  rewrite Ho1. unfold wrote_any. cbn [s_wire upd_to_send upd_logs enqueue s_to_send].
  rewrite rev_unit. reflexivity.
Qed.

(* ---------- the Logon handshake of an acceptor writes the Logon reply ---------- *)
Lemma verify_app_not_high s m s1 a b0 : verify_msg_against_app_impl s m = (s1, Some (RTooHigh a b0)) -> False.
Proof.
  unfold verify_msg_against_app_impl, rej_of_verdict. intros E.
  destruct (mi_valid m); try discriminate; destruct (mi_app m); discriminate.
Qed.

Lemma verify_select_not_high s m lo s1 a b0 : verify_select s m false lo false = (s1, Some (RTooHigh a b0)) -> False.
Proof.
  unfold verify_select. intros E.
  destruct (check_begin_string s m) as [r|] eqn:E1.
  { unfold check_begin_string in E1. destruct (beq_bytes _ _); inv E1; discriminate. }
  destruct (check_comp_id s m) as [r|] eqn:E2.
  { unfold check_comp_id, R_required_missing, R_no_value, R_compid in E2. brk_in E2; inv E2; discriminate. }
  destruct (match s_st s with SResend _ _ _ => None | _ => check_sending_time s m end) as [r|] eqn:E3.
  { assert (Hr : check_sending_time s m = Some r) by (destruct (s_st s); try exact E3; discriminate).
    unfold check_sending_time, R_required_missing, R_bad_format, R_sending_time in Hr. brk_in Hr; inv Hr; discriminate. }
  destruct (if lo then check_target_too_low s m else None) as [r|] eqn:E4.
  { destruct lo; [|discriminate]. unfold check_target_too_low, R_required_missing, R_bad_format in E4.
    brk_in E4; inv E4; discriminate. }
  discriminate.
Qed.

Lemma handle_logon_acceptor_writes s m s1 r : handle_logon s m = (s1, r) -> initiator s = false -> s_out_open s = true ->
  (r = None \/ exists a b0, r = Some (RTooHigh a b0)) -> wrote_any s1 = true.
Proof.
  intros E Hi Ho Hr. rewrite handle_logon_unfold in E.
  destruct (if c_begin (s_cfg s) =? 5 then match mi_applver m with None => Some (R_cond_missing 1137) | Some _ => None end else None) as [r0|] eqn:E0.
  { exfalso. inv E. unfold R_cond_missing in E0. destruct Hr as [Hr | (a & b0 & Hr)]; [discriminate|]. inv Hr.
    brk_in E0; discriminate. }
  destruct (verify_msg_against_app_impl s m) as [sa ra] eqn:Ev.
  assert (Sa : Same s sa) by (eapply fr_verify_app; [exact Ev | apply same_refl]).
  destruct ra as [ra|].
  { exfalso. inv E. destruct Hr as [Hr | (a & b0 & Hr)]; [discriminate|]. inv Hr. exact (verify_app_not_high _ _ _ _ _ Ev). }
  cbv zeta in E.
  match type of E with context [verify_select ?x m false true false] => set (s2 := x) in * end.
  assert (S2 : Same s s2) by (unfold s2; fr_go).
  destruct (verify_select s2 m false true false) as [s3 r3] eqn:Evs.
  destruct r3 as [r3|].
  { exfalso. inv E. destruct Hr as [Hr | (a & b0 & Hr)]; [discriminate|]. inv Hr. exact (verify_select_not_high _ _ _ _ _ _ Evs). }
  pose proof (verify_select_noapp _ _ _ _ _ _ Evs) as ->.
  assert (Hi2 : initiator s2 = false) by (rewrite (same_initiator _ _ S2); exact Hi).
  rewrite (logon_accept_acceptor _ _ _ _ Hi2) in E.
  match type of E with accept_tail ?x m = _ => set (s4 := x) in * end.
  assert (W4 : wrote_any s4 = true).
  { unfold s4. apply send_logon_writes.
    match goal with |- s_out_open ?y = true => assert (S3 : Same s y) by fr_go end.
    rewrite (same_out _ _ S3). exact Ho. }
  unfold accept_tail in E. cbv zeta in E.
  destruct (check_target_too_high _ m); inv E; exact W4.
Qed.

Lemma logon_state_hot s m s1 next : logon_state_fix_msg_in s m = (s1, next) -> initiator s = false -> s_out_open s = true ->
  is_logged_on next = true -> wrote_any s1 = true.
Proof.
  intros E Hi Ho Hl. unfold logon_state_fix_msg_in in E.
  destruct (negb (beq_bytes (mi_type m) T_LOGON)); [inv E; discriminate|].
  destruct (handle_logon s m) as [s2 r] eqn:Eh.
  destruct r as [r|].
  - destruct r; try (inv E; discriminate).
    (* what is left is too high: doTargetTooHigh after the reply *)
    assert (W2 : wrote_any s2 = true).
    { eapply handle_logon_acceptor_writes; [exact Eh | exact Hi | exact Ho | right; eauto]. }
    apply (wrote_mono s2); [|exact W2].
    unfold do_target_too_high in E. eapply nw_send_resend_request; [exact E | apply nw_refl].
  - inv E. eapply handle_logon_acceptor_writes; [exact Eh | exact Hi | exact Ho | left; reflexivity].
Qed.

(* ---------- an inbound message ---------- *)
Lemma hot_upd_st s next : hot (upd_st s next) = is_logged_on next || (logon_like next && initiator s).
Proof. reflexivity. Qed.

Lemma state_fix_hot : forall st s m s1 next, state_fix_msg_in st s m = (s1, next) ->
  unwrap_pending st = unwrap_pending (s_st s) -> s_out_open s = true ->
  hot (upd_st s1 next) = true -> hot s = true \/ wrote_any s1 = true.
Proof.
  induction st as [| | | | | a b0 d | i IH]; intros s m s1 next E Hu Ho Hh; cbn [state_fix_msg_in] in E.
  - inv E. rewrite hot_upd_st in Hh. discriminate.
  - inv E. rewrite hot_upd_st in Hh. discriminate.
  - cbn [unwrap_pending] in Hu. destruct (initiator s) eqn:Hi.
    + left. unfold hot, logon_like. rewrite <- Hu, Hi. apply orb_true_r.
    + right. assert (Hi1 : initiator s1 = false).
      { rewrite (same_initiator s s1); [exact Hi|]. eapply fr_logon_state; [exact E | apply same_refl]. }
      rewrite hot_upd_st, Hi1, andb_false_r, orb_false_r in Hh.
      eapply logon_state_hot; eassumption.
  - exfalso. unfold logout_state_fix_msg_in in E. destruct (in_session_fix_msg_in s m) as [x y].
    rewrite hot_upd_st in Hh. destruct y; inv E; discriminate.
  - left. cbn [unwrap_pending] in Hu. unfold hot. rewrite logged_on_unwrap, <- Hu. reflexivity.
  - left. cbn [unwrap_pending] in Hu. unfold hot. rewrite logged_on_unwrap, <- Hu. reflexivity.
  - cbn [unwrap_pending] in Hu. eapply IH; eassumption.
Qed.

Lemma set_state_st dr s next : s_st (set_state_with dr s next) = next.
Proof.
  unfold set_state_with. destruct (negb (is_connected next)); [|reflexivity].
  destruct (is_connected (s_st s)); match goal with |- context [s_pending_stop ?x] => destruct (s_pending_stop x) end; reflexivity.
Qed.

Lemma set_state_hot s next : hot (set_state s next) = true -> is_connected next = true.
Proof.
  intros H. destruct (is_connected next) eqn:Ec; [reflexivity|]. exfalso.
  destruct (cold_of_disconnected next Ec) as [H1 H2].
  unfold hot, set_state in H. rewrite set_state_st, H1, H2 in H. discriminate.
Qed.

Lemma incoming_hot c m : (is_connected (s_st c) = true -> s_out_open c = true) -> hot (incoming c m) = true ->
  hot c = true \/ wrote_any (incoming c m) = true.
Proof.
  intros Hb Hh. unfold incoming, incoming_with in *.
  destruct (is_connected (s_st c)) eqn:Ec; cbn [negb] in *; [|left; exact Hh].
  destruct m as [mm|]; [|left; exact Hh].
  destruct (state_fix_msg_in (s_st c) c mm) as [s1 next] eqn:E.
  fold (set_state s1 next) in *.
  pose proof (set_state_hot _ _ Hh) as Hn. rewrite (set_state_conn _ _ Hn) in *.
  exact (state_fix_hot _ _ _ _ _ E eq_refl (Hb eq_refl) Hh).
Qed.

(* ---------- a timer expiry ---------- *)
Lemma timeout_hot st c t s1 next : state_timeout st c t = (s1, next) -> st = s_st c ->
  (is_connected st = true -> s_out_open c = true) -> hot (upd_st s1 next) = true ->
  wrote_any s1 = true \/ (hot c = true /\ (t = NeedHeartbeat -> is_pending st || is_logon_state st = true)).
Proof.
  intros E Hst Hb Hh. rewrite hot_upd_st in Hh.
  assert (Hsame : Same c s1) by (eapply fr_state_timeout; [exact E | apply same_refl]).
  rewrite (same_initiator _ _ Hsame) in Hh.
  assert (Hl : is_logged_on st = true -> forall ty bd, is_admin ty = true -> wrote_any (send c ty bd) = true).
  { intros L ty bd Ha. apply send_logged_on_writes; [rewrite <- Hst; exact L | exact Ha|].
    apply Hb. destruct st; cbn in L |- *; try discriminate; try reflexivity.
    clear - L. revert L. generalize st. induction st0 as [| | | | | a b0 d | i IH]; cbn; intros; try discriminate; try reflexivity.
    apply IH; assumption. }
  destruct st as [| | | | | a b0 d | i]; cbn [state_timeout] in E.
  - inv E. discriminate.
  - inv E. discriminate.
  - right. destruct t; inv E; try discriminate; (split; [unfold hot; rewrite <- Hst; exact Hh | intros _; reflexivity]).
  - destruct t; inv E; discriminate.
  - destruct t; cbn [in_session_timeout] in E; inv E.
    + left. apply Hl; reflexivity.
    + left. apply Hl; reflexivity.
    + right. split; [unfold hot; rewrite <- Hst; reflexivity | discriminate].
    + right. split; [unfold hot; rewrite <- Hst; reflexivity | discriminate].
  - destruct t; cbn [in_session_timeout] in E; inv E.
    + left. apply Hl; reflexivity.
    + left. apply Hl; reflexivity.
    + right. split; [unfold hot; rewrite <- Hst; reflexivity | discriminate].
    + right. split; [unfold hot; rewrite <- Hst; reflexivity | discriminate].
  - destruct t; inv E; try discriminate; right; (split; [unfold hot; rewrite <- Hst; exact Hh | intros _; reflexivity]).
Qed.

Lemma state_stop_cold : forall st s s1 next, state_stop st s = (s1, next) -> is_logged_on next = false /\ logon_like next = false.
Proof.
  induction st as [| | | | | a b0 d | i IH]; intros s s1 next E; cbn [state_stop] in E; try (inv E; split; reflexivity).
  eapply IH; exact E.
Qed.

(* ---------- the untimed fact ---------- *)
Lemma step_hot : forall s e, Boundary s -> hot (step s e) = true ->
  wrote_any (step s e) = true
  \/ (hot s = true /\ (kind_of e = KState -> is_pending (s_st s) || is_logon_state (s_st s) = true)).
Proof.
  intros s e Hb0 Hh. unfold step in *.
  pose proof (clear_logs_boundary s Hb0) as Hb.
  change (hot s) with (hot (clear_logs s)). change (s_st s) with (s_st (clear_logs s)).
  set (c := clear_logs s) in *. clearbody c. clear s Hb0.
  assert (Hopen : is_connected (s_st c) = true -> s_out_open c = true).
  { intros H. destruct Hb as [B1 _]. exact (proj1 (B1 H)). }
  destruct e; cbn [step_event] in *.
  - (* connect *) unfold connect in *. destruct (is_connected (s_st c)) eqn:Ec; [right; split; [exact Hh | discriminate]|].
    match goal with |- context [set_sent_reset ?x false] => set (c0 := set_sent_reset x false) in * end.
    destruct (initiator c0) eqn:Ei; cbn [negb] in *.
    + left. rewrite (set_state_conn _ SLogon eq_refl).
      match goal with |- wrote_any (upd_st ?x SLogon) = true => change (wrote_any x = true) end.
      apply send_logon_writes.
      match goal with |- s_out_open ?y = true => assert (S1 : Same c0 y) by fr_go end.
      rewrite (same_out _ _ S1). reflexivity.
    + exfalso. rewrite (set_state_conn _ SLogon eq_refl), hot_upd_st, Ei in Hh. discriminate.
  - (* arrive *) right. split; [|discriminate].
    destruct (s_in_open c && Nat.ltb (length (s_in_buf c)) (c_in_cap (s_cfg c))); exact Hh.
  - (* deliver *) destruct (negb (s_in_open c)); [right; split; [exact Hh | discriminate]|].
    destruct (s_in_buf c) as [|m r]; [right; split; [exact Hh | discriminate]|].
    match type of Hh with hot (incoming ?c1 m) = true =>
      destruct (incoming_hot c1 m Hopen Hh) as [H | H]; [right; split; [exact H | discriminate] | left; exact H] end.
  - (* incoming *) destruct (incoming_hot c (Some m) Hopen Hh) as [H | H]; [right; split; [exact H | discriminate] | left; exact H].
  - (* garbage *) right. split; [|discriminate]. unfold incoming, incoming_with in Hh.
    destruct (negb (is_connected (s_st c))); exact Hh.
  - (* inclosed *) destruct (is_connected (s_st c)) eqn:Ec; [|right; split; [exact Hh | discriminate]].
    pose proof (set_state_hot _ _ Hh) as Hn. discriminate.
  - (* timeout *) destruct (state_timeout (s_st c) c e) as [s1 next] eqn:E.
    pose proof (set_state_hot _ _ Hh) as Hn. rewrite (set_state_conn _ _ Hn) in *.
    destruct (timeout_hot _ _ _ _ _ E eq_refl Hopen Hh) as [W | [H1 H2]]; [left; exact W|].
    right. split; [exact H1|]. intros K. apply H2. destruct e; try reflexivity; discriminate.
  - (* app send *) right. split; [|discriminate].
    rewrite <- (same_hot c (queue_for_send c t [] body None ok)); [exact Hh | fr_go].
  - (* flush *) right. split; [|discriminate].
    rewrite <- (same_hot c (if is_logged_on (s_st c) then send_queued c else drop_queued c)); [exact Hh | fr_go].
  - (* stop *) exfalso.
    set (c0 := upd_flags c (s_sent_reset c) (s_hb c) true (s_stopped c)) in *.
    destruct (state_stop (s_st c0) c0) as [s1 next] eqn:E.
    pose proof (set_state_hot _ _ Hh) as Hn. rewrite (set_state_conn _ _ Hn), hot_upd_st in Hh.
    destruct (state_stop_cold _ _ _ _ E) as [H1 H2]. rewrite H1, H2 in Hh. discriminate.
  - (* reset time *) right. split; [|discriminate].
    rewrite <- (same_hot c (if is_connected (s_st c) then send_logon_in_reply_to c true None else c)); [exact Hh | fr_go].
Qed.

(* ---------- the timed invariant ---------- *)
Definition TInv (ts : tsess) : Prop := Boundary (ts_s ts) /\ (hot (ts_s ts) = true -> ts_sd ts <> None).

Lemma tinit_inv c : TInv (tinit c).
Proof. split; [apply init_boundary | intros H; discriminate H]. Qed.

(* an event applied with the repaired rules; for the heartbeat timer's expiry nothing is asked of the deadline before *)
Lemma apply_at_inv_gen ts e : Boundary (ts_s ts) ->
  (kind_of e <> KState -> hot (ts_s ts) = true -> ts_sd ts <> None) -> TInv (apply_at true ts e).
Proof.
  intros Hb Hsd. split.
  - unfold apply_at. cbn [ts_s]. apply step_boundary. exact Hb.
  - unfold apply_at. cbv zeta. cbn [ts_s ts_sd]. intros Hh.
    destruct (wrote_any (step (ts_s ts) e)) eqn:Ew; [discriminate|].
    destruct (step_hot _ _ Hb Hh) as [W | [Hs Hk]]; [rewrite W in Ew; discriminate|].
    destruct (kind_of e) eqn:K.
    + apply Hsd; [discriminate | exact Hs].
    + cbn [andb]. rewrite (Hk eq_refl). discriminate.
    + apply Hsd; [discriminate | exact Hs].
    + apply Hsd; [discriminate | exact Hs].
Qed.

Lemma apply_at_inv ts e : TInv ts -> TInv (apply_at true ts e).
Proof. intros [H1 H2]. apply apply_at_inv_gen; [exact H1 | intros _; exact H2]. Qed.

Lemma fire_until_inv : forall fuel ts upto, TInv ts -> TInv (fire_until true fuel ts upto).
Proof.
  induction fuel as [|f IH]; intros ts upto H; cbn [fire_until]; [exact H|].
  destruct (next_due ts upto) as [[d k]|]; [|exact H].
  apply IH. destruct H as [H1 H2]. apply apply_at_inv_gen; [exact H1|].
  intros Hk Hh. destruct k; [exfalso; apply Hk; reflexivity | exact (H2 Hh) | exact (H2 Hh) | exact (H2 Hh)].
Qed.

Lemma tstep_inv fuel ts t e : TInv ts -> TInv (tstep true fuel ts t e).
Proof. intros H. unfold tstep. apply apply_at_inv, fire_until_inv, H. Qed.

Lemma trun_inv : forall fuel es ts, TInv ts -> TInv (trun true fuel ts es).
Proof.
  intros fuel es. induction es as [|[t e] r IH]; intros ts H; cbn [trun]; [exact H|].
  apply IH, tstep_inv, H.
Qed.

Lemma armed_of_inv ts : TInv ts -> armed ts = true.
Proof.
  intros [_ H]. unfold armed.
  destruct (is_logged_on (s_st (ts_s ts))) eqn:L; [|reflexivity].
  destruct (s_out_open (ts_s ts)); [|reflexivity]. cbn [andb negb orb].
  destruct (ts_sd ts) eqn:Esd; [reflexivity|]. exfalso. apply H; [|reflexivity].
  unfold hot. rewrite L. reflexivity.
Qed.

(* the reachable timed states: any configuration, any fuel for the timers, any external events at any times *)
Theorem clock_armed_on_every_run : forall c fuel es, armed (trun true fuel (tinit c) es) = true.
Proof. intros c fuel es. apply armed_of_inv, trun_inv, tinit_inv. Qed.

(* the invariant behind it, for the states in between as well: also an initiator waiting for the Logon answer has the
   heartbeat timer armed (that is what F23 lacked) *)
Theorem clock_hot_armed_on_every_run : forall c fuel es,
  let ts := trun true fuel (tinit c) es in
  Boundary (ts_s ts) /\ (hot (ts_s ts) = true -> ts_sd ts <> None).
Proof. intros c fuel es. exact (trun_inv fuel es _ (tinit_inv c)). Qed.
