(* Store completeness: with persistence every number below the next sender number is in the store; without it the store is
   empty.  Reachable-state invariant, established by the same syntax-directed closure as the frame lemmas (FrameProofs.v).
   It discharges the hypothesis of the C03 cover theorem (ResendProofs.v) for every reachable state. *)
From Coq Require Import String.
From Coq Require Import ZArith List Bool Lia.
From QF Require Import Base.Bytes Session.Types Session.Model Session.Spec Session.FrameProofs Session.LocalProofs Session.ResendProofs.
Import ListNotations.
Open Scope list_scope.
Open Scope Z_scope.

Definition Complete (s : sess) : Prop :=
  1 <= s_snd s
  /\ (c_disable_persist (s_cfg s) = false -> forall k, 1 <= k < s_snd s -> lookup_msg k (s_msgs s) <> None)
  /\ (c_disable_persist (s_cfg s) = true -> s_msgs s = []).

Definition Cp (s0 s : sess) : Prop := s_cfg s = s_cfg s0 /\ (Complete s0 -> Complete s).

Lemma cp_refl s : Cp s s.
Proof. split; [reflexivity | auto]. Qed.
Lemma cp_trans a b c : Cp a b -> Cp b c -> Cp a c.
Proof. intros [A1 A2] [B1 B2]. split; [congruence | auto]. Qed.

Section Base.
Variable s0 : sess.
Ltac stepc := intros H; eapply cp_trans; [exact H|]; split; [reflexivity | intros C; exact C].
Lemma cp_upd_to_send s q : Cp s0 s -> Cp s0 (upd_to_send s q). Proof. stepc. Qed.
Lemma cp_upd_logs s a b : Cp s0 s -> Cp s0 (upd_logs s a b). Proof. stepc. Qed.
Lemma cp_log s c : Cp s0 s -> Cp s0 (log_cb s c). Proof. unfold log_cb. apply cp_upd_logs. Qed.
Lemma cp_set_sent_reset s b : Cp s0 s -> Cp s0 (set_sent_reset s b). Proof. stepc. Qed.
Lemma cp_set_hb s h : Cp s0 s -> Cp s0 (set_hb s h). Proof. stepc. Qed.
Lemma cp_incr s : Cp s0 s -> Cp s0 (incr_tgt s). Proof. stepc. Qed.
Lemma cp_set_tgt s n : Cp s0 s -> Cp s0 (set_tgt s n). Proof. stepc. Qed.
Lemma cp_reset s : Cp s0 s -> Cp s0 (store_reset s).
Proof.
  intros [H1 H2]. split; [exact H1|]. intros _. unfold Complete, store_reset. cbn.
  split; [lia|]. split; [intros _ k Hk; lia | reflexivity].
Qed.
Lemma cp_persist s m : o_seq m = s_snd s -> Cp s0 s -> Cp s0 (persist s m).
Proof.
  intros Hq [H1 H2]. split; [unfold persist; destruct (c_disable_persist (s_cfg s)); exact H1|].
  intros C0. destruct (H2 C0) as (C1 & C2 & C3). unfold persist, Complete.
  destruct (c_disable_persist (s_cfg s)) eqn:Hp; cbn; rewrite Hp.
  - split; [lia|]. split; [discriminate | intros _; apply C3; reflexivity].
  - split; [lia|]. split; [|discriminate]. intros _ k Hk. rewrite Hq.
    destruct (Z.eqb_spec (s_snd s) k); [discriminate | apply C2; [reflexivity | lia]].
Qed.
End Base.

Ltac cp_ext := fail.
Ltac cp_go :=
  lazymatch goal with
  | H : Cp ?a ?b |- Cp ?a ?b => exact H
  | |- Cp ?a ?a => apply cp_refl
  | |- Cp _ (if ?x then _ else _) => destruct x eqn:?; cp_go
  | |- Cp _ (match ?x with _ => _ end) => destruct x eqn:?; cp_go
  | |- Cp _ (upd_to_send _ _) => apply cp_upd_to_send; cp_go
  | |- Cp _ (upd_logs _ _ _) => apply cp_upd_logs; cp_go
  | |- Cp _ (log_cb _ _) => apply cp_log; cp_go
  | |- Cp _ (store_reset _) => apply cp_reset; cp_go
  | |- Cp _ (incr_tgt _) => apply cp_incr; cp_go
  | |- Cp _ (set_tgt _ _) => apply cp_set_tgt; cp_go
  | |- Cp _ (set_sent_reset _ _) => apply cp_set_sent_reset; cp_go
  | |- Cp _ (set_hb _ _) => apply cp_set_hb; cp_go
  | _ => cp_ext
  end.
Ltac cp_pairlemma E := brk_in E; inv E; brk_hyps; cp_go.

Section L1.
Variable s0 : sess.
Lemma cp_prep s t hdr body ir ok s1 r : prep s t hdr body ir ok = (s1, r) -> Cp s0 s -> Cp s0 s1.
Proof.
  intros E H. unfold prep in E. brk_in E; inv E; try (apply cp_persist; [reflexivity|]); cp_go.
Qed.
Lemma cp_send_queued s : Cp s0 s -> Cp s0 (send_queued s).
Proof. intros H. unfold send_queued. cp_go. Qed.
Lemma cp_drop_queued s : Cp s0 s -> Cp s0 (drop_queued s).
Proof. intros H. unfold drop_queued. cp_go. Qed.
Lemma cp_enqueue s m : Cp s0 s -> Cp s0 (enqueue s m).
Proof. intros H. unfold enqueue. cp_go. Qed.
End L1.
Ltac cp_ext1 :=
  lazymatch goal with
  | |- Cp _ (send_queued _) => apply cp_send_queued; cp_go
  | |- Cp _ (drop_queued _) => apply cp_drop_queued; cp_go
  | |- Cp _ (enqueue _ _) => apply cp_enqueue; cp_go
  | |- Cp _ ?v => match goal with E : prep _ _ _ _ _ _ = (v, _) |- _ => eapply cp_prep; [exact E | cp_go] end
  end.
Ltac cp_ext ::= cp_ext1.

Section L2.
Variable s0 : sess.
Lemma cp_queue_for_send s t hdr body ir ok : Cp s0 s -> Cp s0 (queue_for_send s t hdr body ir ok).
Proof. intros H. unfold queue_for_send. cp_go. Qed.
Lemma cp_enqueue_bytes s m : Cp s0 s -> Cp s0 (enqueue_bytes_and_send s m).
Proof. intros H. unfold enqueue_bytes_and_send. cp_go. Qed.
Lemma cp_drop_and_send s t body ir : Cp s0 s -> Cp s0 (drop_and_send_in_reply_to s t body ir).
Proof. intros H. unfold drop_and_send_in_reply_to. cp_go. Qed.
Lemma cp_drop_and_reset s : Cp s0 s -> Cp s0 (drop_and_reset s).
Proof. intros H. unfold drop_and_reset. cp_go. Qed.
End L2.
Ltac cp_ext2 :=
  lazymatch goal with
  | |- Cp _ (queue_for_send _ _ _ _ _ _) => apply cp_queue_for_send; cp_go
  | |- Cp _ (enqueue_bytes_and_send _ _) => apply cp_enqueue_bytes; cp_go
  | |- Cp _ (drop_and_send_in_reply_to _ _ _ _) => apply cp_drop_and_send; cp_go
  | |- Cp _ (drop_and_reset _) => apply cp_drop_and_reset; cp_go
  | _ => cp_ext1
  end.
Ltac cp_ext ::= cp_ext2.

Section L3.
Variable s0 : sess.
Lemma cp_send_in_reply_to s t hdr body ir : Cp s0 s -> Cp s0 (send_in_reply_to s t hdr body ir).
Proof. intros H. unfold send_in_reply_to. cp_go. Qed.
Lemma cp_send_logon s b ir : Cp s0 s -> Cp s0 (send_logon_in_reply_to s b ir).
Proof. intros H. unfold send_logon_in_reply_to. cp_go. Qed.
Lemma cp_generate_sequence_reset s b e ir : Cp s0 s -> Cp s0 (generate_sequence_reset s b e ir).
Proof. intros H. unfold generate_sequence_reset. cp_go. Qed.
End L3.
Ltac cp_ext3 :=
  lazymatch goal with
  | |- Cp _ (send_in_reply_to _ _ _ _ _) => apply cp_send_in_reply_to; cp_go
  | |- Cp _ (send_logon_in_reply_to _ _ _) => apply cp_send_logon; cp_go
  | |- Cp _ (generate_sequence_reset _ _ _ _) => apply cp_generate_sequence_reset; cp_go
  | _ => cp_ext2
  end.
Ltac cp_ext ::= cp_ext3.

Section L4.
Variable s0 : sess.
Lemma cp_send s t body : Cp s0 s -> Cp s0 (send s t body).
Proof. intros H. unfold send. cp_go. Qed.
Lemma cp_send_logout s ir : Cp s0 s -> Cp s0 (send_logout_in_reply_to s ir).
Proof. intros H. unfold send_logout_in_reply_to. cp_go. Qed.
Lemma cp_do_reject s m r : Cp s0 s -> Cp s0 (do_reject s m r).
Proof. intros H. unfold do_reject. cp_go. Qed.
Lemma cp_resend_loop : forall keys s ir a b s1 x y, resend_loop keys s ir a b = (s1, x, y) -> Cp s0 s -> Cp s0 s1.
Proof.
  induction keys as [|k r IH]; intros s ir a b s1 x y E H; cbn [resend_loop] in E.
  - inv E. exact H.
  - brk_in E; eapply IH; try exact E; cp_go.
Qed.
End L4.
Ltac cp_ext4 :=
  lazymatch goal with
  | |- Cp _ (send _ _ _) => apply cp_send; cp_go
  | |- Cp _ (send_logout_in_reply_to _ _) => apply cp_send_logout; cp_go
  | |- Cp _ (initiate_logout_in_reply_to _ _) => unfold initiate_logout_in_reply_to; apply cp_send_logout; cp_go
  | |- Cp _ (do_reject _ _ _) => apply cp_do_reject; cp_go
  | |- Cp _ ?v =>
      match goal with
      | E : prep _ _ _ _ _ _ = (v, _) |- _ => eapply cp_prep; [exact E | cp_go]
      | E : resend_loop _ _ _ _ _ = (v, _, _) |- _ => eapply cp_resend_loop; [exact E | cp_go]
      | _ => cp_ext3
      end
  | _ => cp_ext3
  end.
Ltac cp_ext ::= cp_ext4.

Section L5.
Variable s0 : sess.
Lemma cp_send_resend_request s b e s1 st : send_resend_request s b e = (s1, st) -> Cp s0 s -> Cp s0 s1.
Proof. intros E H. unfold send_resend_request in E. cp_pairlemma E. Qed.
Lemma cp_resend_messages s b e ir : Cp s0 s -> Cp s0 (resend_messages s b e ir).
Proof. intros H. unfold resend_messages. cp_go. Qed.
Lemma cp_do_target_too_low s m s1 st : do_target_too_low s m = (s1, st) -> Cp s0 s -> Cp s0 s1.
Proof. intros E H. unfold do_target_too_low in E. cp_pairlemma E. Qed.
Lemma cp_shutdown_with_reason s m b s1 st : shutdown_with_reason s m b = (s1, st) -> Cp s0 s -> Cp s0 s1.
Proof. intros E H. unfold shutdown_with_reason in E. cp_pairlemma E. Qed.
Lemma cp_verify_app s m s1 r : verify_msg_against_app_impl s m = (s1, r) -> Cp s0 s -> Cp s0 s1.
Proof. intros E H. unfold verify_msg_against_app_impl in E. cp_pairlemma E. Qed.
Lemma cp_in_session_timeout s e s1 st : in_session_timeout s e = (s1, st) -> Cp s0 s -> Cp s0 s1.
Proof. intros E H. unfold in_session_timeout in E. cp_pairlemma E. Qed.
End L5.
Ltac cp_ext5 :=
  lazymatch goal with
  | |- Cp _ (resend_messages _ _ _ _) => apply cp_resend_messages; cp_go
  | |- Cp _ ?v =>
      match goal with
      | E : prep _ _ _ _ _ _ = (v, _) |- _ => eapply cp_prep; [exact E | cp_go]
      | E : resend_loop _ _ _ _ _ = (v, _, _) |- _ => eapply cp_resend_loop; [exact E | cp_go]
      | E : send_resend_request _ _ _ = (v, _) |- _ => eapply cp_send_resend_request; [exact E | cp_go]
      | E : do_target_too_high _ _ _ = (v, _) |- _ => unfold do_target_too_high in E; eapply cp_send_resend_request; [exact E | cp_go]
      | E : do_target_too_low _ _ = (v, _) |- _ => eapply cp_do_target_too_low; [exact E | cp_go]
      | E : shutdown_with_reason _ _ _ = (v, _) |- _ => eapply cp_shutdown_with_reason; [exact E | cp_go]
      | E : verify_msg_against_app_impl _ _ = (v, _) |- _ => eapply cp_verify_app; [exact E | cp_go]
      | E : in_session_timeout _ _ = (v, _) |- _ => eapply cp_in_session_timeout; [exact E | cp_go]
      | _ => cp_ext4
      end
  | _ => cp_ext4
  end.
Ltac cp_ext ::= cp_ext5.

Section L6.
Variable s0 : sess.
Lemma cp_verify_select s m a b c s1 r : verify_select s m a b c = (s1, r) -> Cp s0 s -> Cp s0 s1.
Proof. intros E H. unfold verify_select in E. brk_in E; try (inv E; exact H). all: eapply cp_verify_app; eauto. Qed.
Lemma cp_process_reject s m r s1 st : process_reject s m r = (s1, st) -> Cp s0 s -> Cp s0 s1.
Proof. intros E H. unfold process_reject in E. cp_pairlemma E. Qed.
End L6.
Ltac cp_ext6 :=
  lazymatch goal with
  | |- Cp _ ?v =>
      match goal with
      | E : verify_select _ _ _ _ _ = (v, _) |- _ => eapply cp_verify_select; [exact E | cp_go]
      | E : process_reject _ _ _ = (v, _) |- _ => eapply cp_process_reject; [exact E | cp_go]
      | _ => cp_ext5
      end
  | _ => cp_ext5
  end.
Ltac cp_ext ::= cp_ext6.

Section L7.
Variable s0 : sess.
Lemma cp_handle_logon s m s1 r : handle_logon s m = (s1, r) -> Cp s0 s -> Cp s0 s1.
Proof. intros E H. unfold handle_logon in E. cp_pairlemma E. Qed.
Lemma cp_handle_logout s m s1 st : handle_logout s m = (s1, st) -> Cp s0 s -> Cp s0 s1.
Proof. intros E H. unfold handle_logout in E. cp_pairlemma E. Qed.
Lemma cp_handle_test_request s m s1 st : handle_test_request s m = (s1, st) -> Cp s0 s -> Cp s0 s1.
Proof. intros E H. unfold handle_test_request, verify in E. cp_pairlemma E. Qed.
Lemma cp_handle_sequence_reset s m s1 st : handle_sequence_reset s m = (s1, st) -> Cp s0 s -> Cp s0 s1.
Proof. intros E H. unfold handle_sequence_reset in E. cp_pairlemma E. Qed.
Lemma cp_handle_resend_request s m s1 st : handle_resend_request s m = (s1, st) -> Cp s0 s -> Cp s0 s1.
Proof. intros E H. unfold handle_resend_request in E. cp_pairlemma E. Qed.
End L7.
Ltac cp_ext7 :=
  lazymatch goal with
  | |- Cp _ ?v =>
      match goal with
      | E : handle_logon _ _ = (v, _) |- _ => eapply cp_handle_logon; [exact E | cp_go]
      | E : handle_logout _ _ = (v, _) |- _ => eapply cp_handle_logout; [exact E | cp_go]
      | E : handle_test_request _ _ = (v, _) |- _ => eapply cp_handle_test_request; [exact E | cp_go]
      | E : handle_sequence_reset _ _ = (v, _) |- _ => eapply cp_handle_sequence_reset; [exact E | cp_go]
      | E : handle_resend_request _ _ = (v, _) |- _ => eapply cp_handle_resend_request; [exact E | cp_go]
      | _ => cp_ext6
      end
  | _ => cp_ext6
  end.
Ltac cp_ext ::= cp_ext7.

Section L8.
Variable s0 : sess.
Lemma cp_in_session_fix_msg_in s m s1 st : in_session_fix_msg_in s m = (s1, st) -> Cp s0 s -> Cp s0 s1.
Proof. intros E H. unfold in_session_fix_msg_in, verify in E. cp_pairlemma E. Qed.
Lemma cp_logon_state s m s1 st : logon_state_fix_msg_in s m = (s1, st) -> Cp s0 s -> Cp s0 s1.
Proof. intros E H. unfold logon_state_fix_msg_in in E. cp_pairlemma E. Qed.
End L8.

Section L9.
Variable s0 : sess.
Lemma cp_logout_state s m s1 st : logout_state_fix_msg_in s m = (s1, st) -> Cp s0 s -> Cp s0 s1.
Proof.
  intros E H. unfold logout_state_fix_msg_in in E.
  destruct (in_session_fix_msg_in s m) as [s2 st2] eqn:E2.
  assert (Cp s0 s2) by (eapply cp_in_session_fix_msg_in; eassumption). destruct st2; inv E; assumption.
Qed.
Lemma cp_resend_drain : forall fuel s stash next s1 stash1 next1 still,
  resend_drain fuel s stash next = (s1, stash1, next1, still) -> Cp s0 s -> Cp s0 s1.
Proof.
  induction fuel as [|f IH]; intros s stash next s1 stash1 next1 still E H; cbn [resend_drain] in E.
  - inv E. exact H.
  - destruct (stash_take (s_tgt s) stash) as [[m stash']|]; [|inv E; exact H].
    destruct (in_session_fix_msg_in s m) as [s2 n2] eqn:E2.
    assert (H2 : Cp s0 s2) by (eapply cp_in_session_fix_msg_in; eassumption).
    destruct (negb (is_logged_on n2)); [inv E; exact H2|]. eapply IH; eassumption.
Qed.
Lemma cp_resend_state s stash c e m s1 st : resend_state_fix_msg_in s stash c e m = (s1, st) -> Cp s0 s -> Cp s0 s1.
Proof.
  intros E H. unfold resend_state_fix_msg_in in E.
  destruct (in_session_fix_msg_in s m) as [s2 n2] eqn:E2.
  assert (H2 : Cp s0 s2) by (eapply cp_in_session_fix_msg_in; eassumption).
  destruct (negb (is_logged_on n2)); [inv E; exact H2|].
  match type of E with context [resend_drain ?f ?a ?b ?c] => destruct (resend_drain f a b c) as [[[s3 l3] n3] still] eqn:E3 end.
  assert (H3 : Cp s0 s3) by (eapply cp_resend_drain; eassumption).
  destruct (negb still); [inv E; exact H3|].
  brk_in E; inv E; try exact H3; eapply cp_send_resend_request; eassumption.
Qed.
Lemma cp_state_fix_msg_in : forall st s m s1 st1, state_fix_msg_in st s m = (s1, st1) -> Cp s0 s -> Cp s0 s1.
Proof.
  induction st as [| | | | | stash c e | i IH]; intros s m s1 st1 E H; cbn [state_fix_msg_in] in E.
  - inv E; exact H.
  - inv E; exact H.
  - eapply cp_logon_state; eassumption.
  - eapply cp_logout_state; eassumption.
  - eapply cp_in_session_fix_msg_in; eassumption.
  - eapply cp_resend_state; eassumption.
  - eapply IH; eassumption.
Qed.
Lemma cp_state_timeout st s e s1 st1 : state_timeout st s e = (s1, st1) -> Cp s0 s -> Cp s0 s1.
Proof.
  intros E H. unfold state_timeout in E.
  destruct st; try (brk_in E; inv E; exact H).
  - eapply cp_in_session_timeout; eassumption.
  - destruct (in_session_timeout s e) as [s2 st2] eqn:E2.
    assert (Cp s0 s2) by (eapply cp_in_session_timeout; eassumption). brk_in E; inv E; assumption.
Qed.
Lemma cp_state_stop : forall st s s1 st1, state_stop st s = (s1, st1) -> Cp s0 s -> Cp s0 s1.
Proof.
  induction st as [| | | | | stash c e | i IH]; intros s s1 st1 E H; cbn [state_stop] in E; try (inv E; cp_go).
  eapply IH; eassumption.
Qed.
End L9.

(* ---------- the state machine above the handlers ---------- *)
Section Upper.
Variable s0 : sess.
Ltac stepc := intros H; eapply cp_trans; [exact H|]; split; [reflexivity | intros C; exact C].
Lemma cp_upd_chan s a b c d : Cp s0 s -> Cp s0 (upd_chan s a b c d). Proof. stepc. Qed.
Lemma cp_upd_flags s a b c d : Cp s0 s -> Cp s0 (upd_flags s a b c d). Proof. stepc. Qed.
Lemma cp_upd_st s x : Cp s0 s -> Cp s0 (upd_st s x). Proof. stepc. Qed.
End Upper.

Definition CpF (f : sess -> sess) : Prop := forall s0 s, Cp s0 s -> Cp s0 (f s).

Ltac cp_ext10 :=
  lazymatch goal with
  | |- Cp _ (upd_chan _ _ _ _ _) => apply cp_upd_chan; cp_go
  | |- Cp _ (upd_flags _ _ _ _ _) => apply cp_upd_flags; cp_go
  | |- Cp _ (upd_st _ _) => apply cp_upd_st; cp_go
  | |- Cp _ (?f ?x) => first [match goal with Hdr : CpF f |- _ => apply Hdr; cp_go end | cp_ext7]
  | _ => cp_ext7
  end.
Ltac cp_ext ::= cp_ext10.

Lemma cp_handle_disconnect dr : CpF dr -> CpF (handle_disconnect_state dr).
Proof. intros Hdr s0 s H. unfold handle_disconnect_state. cbv zeta. cp_go. Qed.

Lemma cp_set_state_with dr next : CpF dr -> CpF (fun s => set_state_with dr s next).
Proof.
  intros Hdr s0 s H. pose proof (cp_handle_disconnect dr Hdr) as Hhd. unfold set_state_with.
  destruct (negb (is_connected next)); [|cp_go].
  apply cp_upd_st.
  assert (H1 : Cp s0 (if is_connected (s_st s) then handle_disconnect_state dr s else s)).
  { destruct (is_connected (s_st s)); [apply Hhd; exact H | exact H]. }
  destruct (s_pending_stop _); [apply cp_upd_flags|]; exact H1.
Qed.

Lemma cp_incoming_with dr m : CpF dr -> CpF (fun s => incoming_with dr s m).
Proof.
  intros Hdr s0 s H. unfold incoming_with.
  destruct (negb (is_connected (s_st s))); [exact H|]. destruct m as [mm|]; [|exact H].
  destruct (state_fix_msg_in (s_st s) s mm) as [s1 next] eqn:E.
  apply (cp_set_state_with dr next Hdr). eapply cp_state_fix_msg_in; eassumption.
Qed.

Lemma cp_drain_message_in : forall fuel, CpF (drain_message_in fuel).
Proof.
  induction fuel as [|f IH]; intros s0 s H; cbn [drain_message_in]; [exact H|].
  destruct (negb (s_in_open s)); [exact H|]. destruct (s_in_buf s) as [|m r]; [exact H|].
  apply IH. apply (cp_incoming_with (drain_message_in f) m IH). apply cp_upd_chan. exact H.
Qed.

Lemma cp_drain : CpF drain.
Proof. intros s0 s H. unfold drain. apply cp_drain_message_in. exact H. Qed.
Lemma cp_set_state next : CpF (fun s => set_state s next).
Proof. apply cp_set_state_with. exact cp_drain. Qed.
Lemma cp_incoming m : CpF (fun s => incoming s m).
Proof. apply cp_incoming_with. exact cp_drain. Qed.

Lemma cp_connect : CpF connect.
Proof.
  intros s0 s H. unfold connect. destruct (is_connected (s_st s)); [exact H|].
  destruct (negb (initiator _)); apply (cp_set_state SLogon); cp_go.
Qed.

Lemma cp_step_event e : CpF (fun s => step_event s e).
Proof.
  intros s0 s H. destruct e; cbn [step_event].
  - apply cp_connect; exact H.
  - cp_go.
  - destruct (negb (s_in_open s)); [exact H|]. destruct (s_in_buf s) as [|m r]; [exact H|].
    apply (cp_incoming m). apply cp_upd_chan. exact H.
  - apply (cp_incoming (Some m)); exact H.
  - apply (cp_incoming None); exact H.
  - destruct (is_connected (s_st s)); [apply (cp_set_state SLatent)|]; exact H.
  - destruct (state_timeout (s_st s) s e) as [s1 next] eqn:E.
    apply (cp_set_state next). eapply cp_state_timeout; eassumption.
  - cp_go.
  - cp_go.
  - match goal with |- context [state_stop ?a ?b] => destruct (state_stop a b) as [s1 next] eqn:E end.
    apply (cp_set_state next). eapply cp_state_stop; [exact E|]. apply cp_upd_flags. exact H.
  - cp_go.
Qed.

Lemma cp_step e : CpF (fun s => step s e).
Proof.
  intros s0 s H. unfold step. apply (cp_step_event e). unfold clear_logs. apply cp_upd_chan, cp_upd_logs. exact H.
Qed.

Lemma step_complete s e : Complete s -> Complete (step s e).
Proof. intros C. exact (proj2 (cp_step e s s (cp_refl s)) C). Qed.

Lemma init_complete c : Complete (init_sess c).
Proof.
  unfold Complete, init_sess. cbn. split; [lia|]. split; [intros _ k Hk; lia | reflexivity].
Qed.

Lemma run_trace_complete : forall es s, Complete s -> Forall Complete (run_trace es s).
Proof.
  induction es as [|e r IH]; intros s H; cbn [run_trace]; [constructor|].
  constructor; [apply step_complete; exact H | apply IH, step_complete, H].
Qed.

Lemma trace_complete : forall c es, Forall Complete (run_trace es (init_sess c)).
Proof. intros c es. apply run_trace_complete, init_complete. Qed.

(* ---------- C03 for every reachable state ---------- *)
Lemma clip_end_below c snd e0 : clip_end c snd e0 <= snd - 1.
Proof.
  unfold clip_end. destruct (Z.leb_spec snd e0); [rewrite orb_true_r; lia|]. rewrite orb_false_r.
  destruct (_ || _); lia.
Qed.

Lemma complete_reply_exact : forall s m b e0,
  Complete s -> flushing s -> mi_beginseq m = FVal b -> mi_endseq m = FVal e0 -> 1 <= b ->
  exists new, s_wire (resend_messages s b (clip_end (s_cfg s) (s_snd s) e0) m) = new ++ s_wire s
    /\ c03_reply_check (s_cfg s) (s_msgs s) (s_snd s) m (rev new) = [].
Proof.
  intros s m b e0 (C1 & C2 & C3) Hf Hb He H1. apply c03_reply_check_model; try assumption.
  destruct (c_disable_persist (s_cfg s)) eqn:Hp; [apply C3; reflexivity|].
  intros Hbe. apply C2; [reflexivity|]. pose proof (clip_end_below (s_cfg s) (s_snd s) e0). lia.
Qed.

(* the state handleResendRequest hands to resendMessages (after verification) in any reachable state *)
Theorem reachable_reply_exact : forall c es s m s1 b e0,
  In s (init_sess c :: run_trace es (init_sess c)) ->
  verify_select s m false false true = (s1, None) -> flushing s1 ->
  mi_beginseq m = FVal b -> mi_endseq m = FVal e0 -> 1 <= b ->
  exists new, s_wire (resend_messages s1 b (clip_end (s_cfg s1) (s_snd s1) e0) m) = new ++ s_wire s1
    /\ c03_reply_check (s_cfg s1) (s_msgs s1) (s_snd s1) m (rev new) = [].
Proof.
  intros c es s m s1 b e0 Hin Hv Hf Hb He H1.
  assert (Cs : Complete s).
  { destruct Hin as [<-|Hin]; [apply init_complete|]. exact (proj1 (Forall_forall _ _) (trace_complete c es) s Hin). }
  apply complete_reply_exact; try assumption.
  exact (proj2 (cp_verify_select s s m false false true s1 None Hv (cp_refl s)) Cs).
Qed.
