(* Every Logon the engine puts on the wire (or in its outbound queue) with ResetSeqNumFlag=Y is number 1
   (clause 708 of c07_check), for every reachable state.  Same syntax-directed closure as FrameProofs.v. *)
From Coq Require Import String.
From Coq Require Import ZArith List Bool Lia.
From QF Require Import Base.Bytes Session.Types Session.Model Session.Spec Session.C01Proofs Session.FrameProofs Session.TraceProofs Session.RecoveryProofs.
Import ListNotations.
Open Scope list_scope.
Open Scope Z_scope.

Definition okw (w : omsg) : Prop := logon_resets w = true -> o_seq w = 1.
Definition W (s : sess) : Prop := Forall okw (s_wire s) /\ Forall okw (s_to_send s).
Definition Wr (s0 s : sess) : Prop := W s0 -> W s.

Lemma wr_refl s : Wr s s.
Proof. intros H; exact H. Qed.
Lemma wr_trans a b c : Wr a b -> Wr b c -> Wr a c.
Proof. intros H1 H2 H. apply H2, H1, H. Qed.

Lemma okw_not_logon m : beq_bytes (o_type m) T_LOGON = false -> okw m.
Proof. intros H L. unfold logon_resets, is_type in L. rewrite H in L. discriminate L. Qed.
Lemma not_admin_not_logon t : is_admin t = false -> beq_bytes t T_LOGON = false.
Proof. unfold is_admin. intros H. repeat (apply orb_false_elim in H as [H ?]). assumption. Qed.

Lemma reset_flag_in_body body : opt_beq (field_of 141 body) (B "Y") = true -> body_has_reset_y body = true.
Proof.
  unfold field_of, body_has_reset_y. intros H.
  destruct (find (fun f => fst f =? 141) body) as [[t v]|] eqn:E; [|discriminate].
  apply find_some in E as [E1 E2]. cbn in E2. apply existsb_exists. exists (t, v). split; [exact E1|].
  cbn. rewrite E2. exact H.
Qed.

Lemma prep_okw s t hdr body ir ok s1 m : prep s t hdr body ir ok = (s1, Some m) -> okw m.
Proof.
  intros E. unfold prep in E. destruct (is_admin t) eqn:Ea.
  - inversion E; subst. clear E. intros L. unfold logon_resets, is_type in L. cbn [o_type o_body o_seq] in *.
    apply andb_true_iff in L as [L1 L2]. rewrite L1, (reset_flag_in_body body L2). reflexivity.
  - destruct ok; inversion E; subst. apply okw_not_logon. cbn [o_type]. apply not_admin_not_logon. exact Ea.
Qed.

Ltac wr_okw :=
  lazymatch goal with
  | E : prep _ _ _ _ _ _ = (_, Some ?m) |- okw ?m => exact (prep_okw _ _ _ _ _ _ _ _ E)
  | |- okw _ => apply okw_not_logon; cbn [o_type];
                first [ reflexivity | match goal with H : is_admin ?t = false |- _ => exact (not_admin_not_logon t H) end ]
  end.

Section Base.
Variable s0 : sess.
Ltac stepw := intros H; eapply wr_trans; [exact H|]; intros C; exact C.
Lemma wr_upd_store s a b c : Wr s0 s -> Wr s0 (upd_store s a b c). Proof. stepw. Qed.
Lemma wr_log s c : Wr s0 s -> Wr s0 (log_cb s c). Proof. stepw. Qed.
Lemma wr_reset s : Wr s0 s -> Wr s0 (store_reset s). Proof. stepw. Qed.
Lemma wr_incr s : Wr s0 s -> Wr s0 (incr_tgt s). Proof. stepw. Qed.
Lemma wr_set_tgt s n : Wr s0 s -> Wr s0 (set_tgt s n). Proof. stepw. Qed.
Lemma wr_set_sent_reset s b : Wr s0 s -> Wr s0 (set_sent_reset s b). Proof. stepw. Qed.
Lemma wr_set_hb s h : Wr s0 s -> Wr s0 (set_hb s h). Proof. stepw. Qed.
Lemma wr_persist s m : Wr s0 s -> Wr s0 (persist s m).
Proof. intros H. unfold persist. destruct (c_disable_persist _); apply wr_upd_store, H. Qed.
End Base.

Ltac wr_ext := fail.
Ltac wr_go :=
  lazymatch goal with
  | H : Wr ?a ?b |- Wr ?a ?b => exact H
  | |- Wr ?a ?a => apply wr_refl
  | |- Wr _ (if ?x then _ else _) => destruct x eqn:?; wr_go
  | |- Wr _ (match ?x with _ => _ end) => destruct x eqn:?; wr_go
  | |- Wr _ (upd_store _ _ _ _) => apply wr_upd_store; wr_go
  | |- Wr _ (log_cb _ _) => apply wr_log; wr_go
  | |- Wr _ (store_reset _) => apply wr_reset; wr_go
  | |- Wr _ (incr_tgt _) => apply wr_incr; wr_go
  | |- Wr _ (set_tgt _ _) => apply wr_set_tgt; wr_go
  | |- Wr _ (set_sent_reset _ _) => apply wr_set_sent_reset; wr_go
  | |- Wr _ (set_hb _ _) => apply wr_set_hb; wr_go
  | |- Wr _ (persist _ _) => apply wr_persist; wr_go
  | _ => wr_ext
  end.
Ltac wr_pairlemma E := brk_in E; inv E; brk_hyps; wr_go.

Section L1.
Variable s0 : sess.
Lemma wr_prep s t hdr body ir ok s1 r : prep s t hdr body ir ok = (s1, r) -> Wr s0 s -> Wr s0 s1.
Proof. intros E H. unfold prep in E. wr_pairlemma E. Qed.
Lemma wr_send_queued s : Wr s0 s -> Wr s0 (send_queued s).
Proof.
  intros H P. destruct (H P) as [W1 W2]. unfold send_queued. destruct (s_out_open s); [|split; assumption].
  split; cbn; [|constructor]. apply Forall_app. split; [apply Forall_rev; exact W2 | exact W1].
Qed.
Lemma wr_drop_queued s : Wr s0 s -> Wr s0 (drop_queued s).
Proof. intros H P. destruct (H P) as [W1 W2]. split; [exact W1 | constructor]. Qed.
Lemma wr_enqueue s m : okw m -> Wr s0 s -> Wr s0 (enqueue s m).
Proof.
  intros Hm H P. destruct (H P) as [W1 W2]. split; [exact W1|]. cbn. apply Forall_app. split; [exact W2 | constructor; [exact Hm | constructor]].
Qed.
End L1.
Ltac wr_ext1 :=
  lazymatch goal with
  | |- Wr _ (send_queued _) => apply wr_send_queued; wr_go
  | |- Wr _ (drop_queued _) => apply wr_drop_queued; wr_go
  | |- Wr _ (enqueue _ _) => apply wr_enqueue; [wr_okw | wr_go]
  | |- Wr _ ?v => match goal with E : prep _ _ _ _ _ _ = (v, _) |- _ => eapply wr_prep; [exact E | wr_go] end
  end.
Ltac wr_ext ::= wr_ext1.

Section L2.
Variable s0 : sess.
Lemma wr_queue_for_send s t hdr body ir ok : Wr s0 s -> Wr s0 (queue_for_send s t hdr body ir ok).
Proof. intros H. unfold queue_for_send. wr_go. Qed.
Lemma wr_enqueue_bytes s m : okw m -> Wr s0 s -> Wr s0 (enqueue_bytes_and_send s m).
Proof. intros Hm H. unfold enqueue_bytes_and_send. apply wr_send_queued, wr_enqueue; [assumption|]. destruct (is_logged_on (s_st s)); [assumption | apply wr_drop_queued; assumption]. Qed.
Lemma wr_drop_and_send s t body ir : Wr s0 s -> Wr s0 (drop_and_send_in_reply_to s t body ir).
Proof. intros H. unfold drop_and_send_in_reply_to. wr_go. Qed.
Lemma wr_drop_and_reset s : Wr s0 s -> Wr s0 (drop_and_reset s).
Proof. intros H. unfold drop_and_reset. wr_go. Qed.
End L2.
Ltac wr_ext2 :=
  lazymatch goal with
  | |- Wr _ (queue_for_send _ _ _ _ _ _) => apply wr_queue_for_send; wr_go
  | |- Wr _ (enqueue_bytes_and_send _ _) => apply wr_enqueue_bytes; [wr_okw | wr_go]
  | |- Wr _ (drop_and_send_in_reply_to _ _ _ _) => apply wr_drop_and_send; wr_go
  | |- Wr _ (drop_and_reset _) => apply wr_drop_and_reset; wr_go
  | _ => wr_ext1
  end.
Ltac wr_ext ::= wr_ext2.

Section L3.
Variable s0 : sess.
Lemma wr_send_in_reply_to s t hdr body ir : Wr s0 s -> Wr s0 (send_in_reply_to s t hdr body ir).
Proof. intros H. unfold send_in_reply_to. wr_go. Qed.
Lemma wr_send_logon s b ir : Wr s0 s -> Wr s0 (send_logon_in_reply_to s b ir).
Proof. intros H. unfold send_logon_in_reply_to. wr_go. Qed.
Lemma wr_generate_sequence_reset s b e ir : Wr s0 s -> Wr s0 (generate_sequence_reset s b e ir).
Proof. intros H. unfold generate_sequence_reset. wr_go. Qed.
End L3.
Ltac wr_ext3 :=
  lazymatch goal with
  | |- Wr _ (send_in_reply_to _ _ _ _ _) => apply wr_send_in_reply_to; wr_go
  | |- Wr _ (send_logon_in_reply_to _ _ _) => apply wr_send_logon; wr_go
  | |- Wr _ (generate_sequence_reset _ _ _ _) => apply wr_generate_sequence_reset; wr_go
  | _ => wr_ext2
  end.
Ltac wr_ext ::= wr_ext3.

Section L4.
Variable s0 : sess.
Lemma wr_send s t body : Wr s0 s -> Wr s0 (send s t body).
Proof. intros H. unfold send. wr_go. Qed.
Lemma wr_send_logout s ir : Wr s0 s -> Wr s0 (send_logout_in_reply_to s ir).
Proof. intros H. unfold send_logout_in_reply_to. wr_go. Qed.
Lemma wr_do_reject s m r : Wr s0 s -> Wr s0 (do_reject s m r).
Proof. intros H. unfold do_reject. wr_go. Qed.
Lemma wr_resend_loop : forall keys s ir a b s1 x y, resend_loop keys s ir a b = (s1, x, y) -> Wr s0 s -> Wr s0 s1.
Proof.
  induction keys as [|k r IH]; intros s ir a b s1 x y E H; cbn [resend_loop] in E.
  - inv E. exact H.
  - brk_in E; eapply IH; try exact E; wr_go.
Qed.
End L4.
Ltac wr_ext4 :=
  lazymatch goal with
  | |- Wr _ (send _ _ _) => apply wr_send; wr_go
  | |- Wr _ (send_logout_in_reply_to _ _) => apply wr_send_logout; wr_go
  | |- Wr _ (initiate_logout_in_reply_to _ _) => unfold initiate_logout_in_reply_to; apply wr_send_logout; wr_go
  | |- Wr _ (do_reject _ _ _) => apply wr_do_reject; wr_go
  | |- Wr _ ?v =>
      match goal with
      | E : prep _ _ _ _ _ _ = (v, _) |- _ => eapply wr_prep; [exact E | wr_go]
      | E : resend_loop _ _ _ _ _ = (v, _, _) |- _ => eapply wr_resend_loop; [exact E | wr_go]
      | _ => wr_ext3
      end
  | _ => wr_ext3
  end.
Ltac wr_ext ::= wr_ext4.

Section L5.
Variable s0 : sess.
Lemma wr_send_resend_request s b e s1 st : send_resend_request s b e = (s1, st) -> Wr s0 s -> Wr s0 s1.
Proof. intros E H. unfold send_resend_request in E. wr_pairlemma E. Qed.
Lemma wr_resend_messages s b e ir : Wr s0 s -> Wr s0 (resend_messages s b e ir).
Proof. intros H. unfold resend_messages. wr_go. Qed.
Lemma wr_do_target_too_low s m s1 st : do_target_too_low s m = (s1, st) -> Wr s0 s -> Wr s0 s1.
Proof. intros E H. unfold do_target_too_low in E. wr_pairlemma E. Qed.
Lemma wr_shutdown_with_reason s m b s1 st : shutdown_with_reason s m b = (s1, st) -> Wr s0 s -> Wr s0 s1.
Proof. intros E H. unfold shutdown_with_reason in E. wr_pairlemma E. Qed.
Lemma wr_verify_app s m s1 r : verify_msg_against_app_impl s m = (s1, r) -> Wr s0 s -> Wr s0 s1.
Proof. intros E H. unfold verify_msg_against_app_impl in E. wr_pairlemma E. Qed.
Lemma wr_in_session_timeout s e s1 st : in_session_timeout s e = (s1, st) -> Wr s0 s -> Wr s0 s1.
Proof. intros E H. unfold in_session_timeout in E. wr_pairlemma E. Qed.
End L5.
Ltac wr_ext5 :=
  lazymatch goal with
  | |- Wr _ (resend_messages _ _ _ _) => apply wr_resend_messages; wr_go
  | |- Wr _ ?v =>
      match goal with
      | E : prep _ _ _ _ _ _ = (v, _) |- _ => eapply wr_prep; [exact E | wr_go]
      | E : resend_loop _ _ _ _ _ = (v, _, _) |- _ => eapply wr_resend_loop; [exact E | wr_go]
      | E : send_resend_request _ _ _ = (v, _) |- _ => eapply wr_send_resend_request; [exact E | wr_go]
      | E : do_target_too_high _ _ _ = (v, _) |- _ => unfold do_target_too_high in E; eapply wr_send_resend_request; [exact E | wr_go]
      | E : do_target_too_low _ _ = (v, _) |- _ => eapply wr_do_target_too_low; [exact E | wr_go]
      | E : shutdown_with_reason _ _ _ = (v, _) |- _ => eapply wr_shutdown_with_reason; [exact E | wr_go]
      | E : verify_msg_against_app_impl _ _ = (v, _) |- _ => eapply wr_verify_app; [exact E | wr_go]
      | E : in_session_timeout _ _ = (v, _) |- _ => eapply wr_in_session_timeout; [exact E | wr_go]
      | _ => wr_ext4
      end
  | _ => wr_ext4
  end.
Ltac wr_ext ::= wr_ext5.

Section L6.
Variable s0 : sess.
Lemma wr_verify_select s m a b c s1 r : verify_select s m a b c = (s1, r) -> Wr s0 s -> Wr s0 s1.
Proof. intros E H. unfold verify_select in E. brk_in E; try (inv E; exact H). all: eapply wr_verify_app; eauto. Qed.
Lemma wr_process_reject s m r s1 st : process_reject s m r = (s1, st) -> Wr s0 s -> Wr s0 s1.
Proof. intros E H. unfold process_reject in E. wr_pairlemma E. Qed.
End L6.
Ltac wr_ext6 :=
  lazymatch goal with
  | |- Wr _ ?v =>
      match goal with
      | E : verify_select _ _ _ _ _ = (v, _) |- _ => eapply wr_verify_select; [exact E | wr_go]
      | E : process_reject _ _ _ = (v, _) |- _ => eapply wr_process_reject; [exact E | wr_go]
      | _ => wr_ext5
      end
  | _ => wr_ext5
  end.
Ltac wr_ext ::= wr_ext6.

Section L7.
Variable s0 : sess.
Lemma wr_handle_logon s m s1 r : handle_logon s m = (s1, r) -> Wr s0 s -> Wr s0 s1.
Proof. intros E H. unfold handle_logon in E. wr_pairlemma E. Qed.
Lemma wr_handle_logout s m s1 st : handle_logout s m = (s1, st) -> Wr s0 s -> Wr s0 s1.
Proof. intros E H. unfold handle_logout in E. wr_pairlemma E. Qed.
Lemma wr_handle_test_request s m s1 st : handle_test_request s m = (s1, st) -> Wr s0 s -> Wr s0 s1.
Proof. intros E H. unfold handle_test_request, verify in E. wr_pairlemma E. Qed.
Lemma wr_handle_sequence_reset s m s1 st : handle_sequence_reset s m = (s1, st) -> Wr s0 s -> Wr s0 s1.
Proof. intros E H. unfold handle_sequence_reset in E. wr_pairlemma E. Qed.
Lemma wr_handle_resend_request s m s1 st : handle_resend_request s m = (s1, st) -> Wr s0 s -> Wr s0 s1.
Proof. intros E H. unfold handle_resend_request in E. wr_pairlemma E. Qed.
End L7.
Ltac wr_ext7 :=
  lazymatch goal with
  | |- Wr _ ?v =>
      match goal with
      | E : handle_logon _ _ = (v, _) |- _ => eapply wr_handle_logon; [exact E | wr_go]
      | E : handle_logout _ _ = (v, _) |- _ => eapply wr_handle_logout; [exact E | wr_go]
      | E : handle_test_request _ _ = (v, _) |- _ => eapply wr_handle_test_request; [exact E | wr_go]
      | E : handle_sequence_reset _ _ = (v, _) |- _ => eapply wr_handle_sequence_reset; [exact E | wr_go]
      | E : handle_resend_request _ _ = (v, _) |- _ => eapply wr_handle_resend_request; [exact E | wr_go]
      | _ => wr_ext6
      end
  | _ => wr_ext6
  end.
Ltac wr_ext ::= wr_ext7.

Section L8.
Variable s0 : sess.
Lemma wr_in_session_fix_msg_in s m s1 st : in_session_fix_msg_in s m = (s1, st) -> Wr s0 s -> Wr s0 s1.
Proof. intros E H. unfold in_session_fix_msg_in, verify in E. wr_pairlemma E. Qed.
Lemma wr_logon_state s m s1 st : logon_state_fix_msg_in s m = (s1, st) -> Wr s0 s -> Wr s0 s1.
Proof. intros E H. unfold logon_state_fix_msg_in in E. wr_pairlemma E. Qed.
End L8.

Section L9.
Variable s0 : sess.
Lemma wr_logout_state s m s1 st : logout_state_fix_msg_in s m = (s1, st) -> Wr s0 s -> Wr s0 s1.
Proof.
  intros E H. unfold logout_state_fix_msg_in in E.
  destruct (in_session_fix_msg_in s m) as [s2 st2] eqn:E2.
  assert (Wr s0 s2) by (eapply wr_in_session_fix_msg_in; eassumption). destruct st2; inv E; assumption.
Qed.
Lemma wr_resend_drain : forall fuel s stash next s1 stash1 next1 still,
  resend_drain fuel s stash next = (s1, stash1, next1, still) -> Wr s0 s -> Wr s0 s1.
Proof.
  induction fuel as [|f IH]; intros s stash next s1 stash1 next1 still E H; cbn [resend_drain] in E.
  - inv E. exact H.
  - destruct (stash_take (s_tgt s) stash) as [[m stash']|]; [|inv E; exact H].
    destruct (in_session_fix_msg_in s m) as [s2 n2] eqn:E2.
    assert (H2 : Wr s0 s2) by (eapply wr_in_session_fix_msg_in; eassumption).
    destruct (negb (is_logged_on n2)); [inv E; exact H2|]. eapply IH; eassumption.
Qed.
Lemma wr_resend_state s stash c e m s1 st : resend_state_fix_msg_in s stash c e m = (s1, st) -> Wr s0 s -> Wr s0 s1.
Proof.
  intros E H. unfold resend_state_fix_msg_in in E.
  destruct (in_session_fix_msg_in s m) as [s2 n2] eqn:E2.
  assert (H2 : Wr s0 s2) by (eapply wr_in_session_fix_msg_in; eassumption).
  destruct (negb (is_logged_on n2)); [inv E; exact H2|].
  match type of E with context [resend_drain ?f ?a ?b ?c] => destruct (resend_drain f a b c) as [[[s3 l3] n3] still] eqn:E3 end.
  assert (H3 : Wr s0 s3) by (eapply wr_resend_drain; eassumption).
  destruct (negb still); [inv E; exact H3|].
  brk_in E; inv E; try exact H3; eapply wr_send_resend_request; eassumption.
Qed.
Lemma wr_state_fix_msg_in : forall st s m s1 st1, state_fix_msg_in st s m = (s1, st1) -> Wr s0 s -> Wr s0 s1.
Proof.
  induction st as [| | | | | stash c e | i IH]; intros s m s1 st1 E H; cbn [state_fix_msg_in] in E.
  - inv E; exact H.
  - inv E; exact H.
  - eapply wr_logon_state; eassumption.
  - eapply wr_logout_state; eassumption.
  - eapply wr_in_session_fix_msg_in; eassumption.
  - eapply wr_resend_state; eassumption.
  - eapply IH; eassumption.
Qed.
Lemma wr_state_timeout st s e s1 st1 : state_timeout st s e = (s1, st1) -> Wr s0 s -> Wr s0 s1.
Proof.
  intros E H. unfold state_timeout in E.
  destruct st; try (brk_in E; inv E; exact H).
  - eapply wr_in_session_timeout; eassumption.
  - destruct (in_session_timeout s e) as [s2 st2] eqn:E2.
    assert (Wr s0 s2) by (eapply wr_in_session_timeout; eassumption). brk_in E; inv E; assumption.
Qed.
Lemma wr_state_stop : forall st s s1 st1, state_stop st s = (s1, st1) -> Wr s0 s -> Wr s0 s1.
Proof.
  induction st as [| | | | | stash c e | i IH]; intros s s1 st1 E H; cbn [state_stop] in E; try (inv E; wr_go).
  eapply IH; eassumption.
Qed.
End L9.

(* ---------- the state machine above the handlers ---------- *)
Section Upper.
Variable s0 : sess.
Lemma wr_upd_chan s a b c d : Wr s0 s -> Wr s0 (upd_chan s a b c d).
Proof. intros H P. exact (H P). Qed.
Lemma wr_upd_flags s a b c d : Wr s0 s -> Wr s0 (upd_flags s a b c d).
Proof. intros H P. exact (H P). Qed.
Lemma wr_upd_st s x : Wr s0 s -> Wr s0 (upd_st s x).
Proof. intros H P. exact (H P). Qed.
End Upper.

Definition WrF (f : sess -> sess) : Prop := forall s0 s, Wr s0 s -> Wr s0 (f s).

Ltac wr_ext10 :=
  lazymatch goal with
  | |- Wr _ (upd_chan _ _ _ _ _) => apply wr_upd_chan; wr_go
  | |- Wr _ (upd_flags _ _ _ _ _) => apply wr_upd_flags; wr_go
  | |- Wr _ (upd_st _ _) => apply wr_upd_st; wr_go
  | |- Wr _ (?f ?x) => first [match goal with Hdr : WrF f |- _ => apply Hdr; wr_go end | wr_ext7]
  | _ => wr_ext7
  end.
Ltac wr_ext ::= wr_ext10.

Lemma wr_handle_disconnect dr : WrF dr -> WrF (handle_disconnect_state dr).
Proof. intros Hdr s0 s H. unfold handle_disconnect_state. cbv zeta. wr_go. Qed.

Lemma wr_set_state_with dr next : WrF dr -> WrF (fun s => set_state_with dr s next).
Proof.
  intros Hdr s0 s H. pose proof (wr_handle_disconnect dr Hdr) as Hhd. unfold set_state_with.
  destruct (negb (is_connected next)); [|wr_go].
  apply wr_upd_st.
  assert (H1 : Wr s0 (if is_connected (s_st s) then handle_disconnect_state dr s else s)).
  { destruct (is_connected (s_st s)); [apply Hhd; exact H | exact H]. }
  destruct (s_pending_stop _); [apply wr_upd_flags|]; exact H1.
Qed.

Lemma wr_incoming_with dr m : WrF dr -> WrF (fun s => incoming_with dr s m).
Proof.
  intros Hdr s0 s H. unfold incoming_with.
  destruct (negb (is_connected (s_st s))); [exact H|]. destruct m as [mm|]; [|exact H].
  destruct (state_fix_msg_in (s_st s) s mm) as [s1 next] eqn:E.
  apply (wr_set_state_with dr next Hdr). eapply wr_state_fix_msg_in; eassumption.
Qed.

Lemma wr_drain_message_in : forall fuel, WrF (drain_message_in fuel).
Proof.
  induction fuel as [|f IH]; intros s0 s H; cbn [drain_message_in]; [exact H|].
  destruct (negb (s_in_open s)); [exact H|]. destruct (s_in_buf s) as [|m r]; [exact H|].
  apply IH. apply (wr_incoming_with (drain_message_in f) m IH). apply wr_upd_chan; exact H.
Qed.

Lemma wr_drain : WrF drain.
Proof. intros s0 s H. unfold drain. apply wr_drain_message_in. exact H. Qed.


Lemma wr_set_state next : WrF (fun s => set_state s next).
Proof. apply wr_set_state_with. exact wr_drain. Qed.
Lemma wr_incoming m : WrF (fun s => incoming s m).
Proof. apply wr_incoming_with. exact wr_drain. Qed.

Lemma wr_connect : WrF connect.
Proof.
  intros s0 s H. unfold connect. destruct (is_connected (s_st s)); [exact H|].
  destruct (negb (initiator _)); apply (wr_set_state SLogon); wr_go.
Qed.

Lemma wr_step_event e : WrF (fun s => step_event s e).
Proof.
  intros s0 s H. destruct e; cbn [step_event].
  - apply wr_connect; exact H.
  - wr_go.
  - destruct (negb (s_in_open s)); [exact H|]. destruct (s_in_buf s) as [|m r]; [exact H|].
    apply (wr_incoming m). apply wr_upd_chan. exact H.
  - apply (wr_incoming (Some m)); exact H.
  - apply (wr_incoming None); exact H.
  - destruct (is_connected (s_st s)); [apply (wr_set_state SLatent)|]; exact H.
  - destruct (state_timeout (s_st s) s e) as [s1 next] eqn:E.
    apply (wr_set_state next). eapply wr_state_timeout; eassumption.
  - wr_go.
  - wr_go.
  - match goal with |- context [state_stop ?a ?b] => destruct (state_stop a b) as [s1 next] eqn:E end.
    apply (wr_set_state next). eapply wr_state_stop; [exact E|]. apply wr_upd_flags. exact H.
  - wr_go.
Qed.


Lemma step_w s e : W s -> W (step s e).
Proof.
  intros [W1 W2]. unfold step.
  assert (Hc : W (clear_logs s)) by (split; [constructor | exact W2]).
  exact (wr_step_event e (clear_logs s) (clear_logs s) (wr_refl _) Hc).
Qed.

Lemma init_w c : W (init_sess c).
Proof. split; constructor. Qed.

Lemma run_trace_w : forall es s, W s -> Forall W (run_trace es s).
Proof.
  induction es as [|e r IH]; intros s H; cbn [run_trace]; [constructor|].
  constructor; [apply step_w; exact H | apply IH, step_w, H].
Qed.

(* ---------- clause 708 of c07_check ---------- *)
Lemma w_clause : forall i s, W s ->
  free_of [708] (if forallb (fun w => negb (logon_resets w) || (o_seq w =? 1)) (ob_wire (obs_of s)) then [] else [(i, 708)]) = true.
Proof.
  intros i s [W1 _]. replace (forallb _ _) with true; [reflexivity|]. symmetry. apply forallb_forall.
  intros w Hw. change (ob_wire (obs_of s)) with (rev (s_wire s)) in Hw. apply in_rev in Hw.
  pose proof (proj1 (Forall_forall _ _) W1 w Hw) as Hk. unfold okw in Hk.
  destruct (logon_resets w); [|reflexivity]. rewrite (Hk eq_refl). reflexivity.
Qed.

Lemma c07_scan_reset_logon : forall es s i b, W s ->
  free_of [708] (c07_scan (s_cfg s) i b (obs_of s) (combine es (map obs_of (run_trace es s)))) = true.
Proof.
  induction es as [|e r IH]; intros s i b Hw; cbn [run_trace map combine]; [reflexivity|].
  cbn [c07_scan]. rewrite !free_of_app. repeat (apply andb_true_iff; split).
  - free_rest.
  - apply w_clause. apply step_w; exact Hw.
  - free_rest.
  - rewrite <- (step_cfg (s_cfg s) s e eq_refl). apply IH. apply step_w; exact Hw.
Qed.

(* C07, trace level: on every trace of the model, every Logon the engine transmits with ResetSeqNumFlag=Y carries
   MsgSeqNum 1 — whatever made it send one (connect, ResetOnLogon, ResetSeqTime, an application-set flag, a reply) *)
Lemma c07_reset_logon_is_number_one : forall c es,
  free_of [708] (c07_check c (combine es (map obs_of (run_trace es (init_sess c))))) = true.
Proof. intros c es. unfold c07_check. apply (c07_scan_reset_logon es (init_sess c)). apply init_w. Qed.
