(* C01: inbound application messages reach the application in order, exactly once — proofs over Session/Model.v.
   Invariant: scanning the chronological callback log with a lower bound `lb` succeeds and the final bound is at most the
   expected number (GoodK 0).  Every function of the model that does not hand a message to the application only performs
   "administrative" effects (Adm): it preserves GoodK k for every k. *)
From Coq Require Import String.
From Coq Require Import ZArith List Bool Lia.
From QF Require Import Base.Bytes Session.Types Session.Model Session.Spec.
Import ListNotations.
Open Scope list_scope.
Open Scope Z_scope.

(* scan of a newest-first log *)
Definition scanr (lb : Z) (l : list cb) : option Z := c01_scan_cbs lb (rev l).

Lemma c01_scan_app : forall l1 l2 lb,
  c01_scan_cbs lb (l1 ++ l2) = match c01_scan_cbs lb l1 with Some lb' => c01_scan_cbs lb' l2 | None => None end.
Proof.
  induction l1 as [|c r IH]; intros l2 lb; cbn [app c01_scan_cbs]; [reflexivity|].
  destruct c as [sq t v f| | | | | |]; try apply IH.
  destruct sq as [| |n]; try reflexivity.
  destruct ((n =? t) && (lb <=? n)); [apply IH | reflexivity].
Qed.

Lemma scanr_cons : forall c l lb,
  scanr lb (c :: l) = match scanr lb l with Some lb' => c01_scan_cbs lb' [c] | None => None end.
Proof. intros. unfold scanr. cbn [rev]. apply c01_scan_app. Qed.

Definition GoodK (k lb : Z) (s : sess) : Prop :=
  exists lb', scanr lb (s_cbs s) = Some lb' /\ lb' <= s_tgt s + k.

Definition Adm (s s' : sess) : Prop := forall k lb, 0 <= k -> GoodK k lb s -> GoodK k lb s'.

Lemma adm_refl s : Adm s s.
Proof. intros k lb _ H; exact H. Qed.
Lemma adm_trans s1 s2 s3 : Adm s1 s2 -> Adm s2 s3 -> Adm s1 s3.
Proof. intros H1 H2 k lb Hk H. apply H2; [exact Hk|]. apply H1; assumption. Qed.

(* same log, expected number not smaller *)
Lemma adm_same : forall s s', s_cbs s' = s_cbs s -> s_tgt s <= s_tgt s' -> Adm s s'.
Proof.
  intros s s' Hc Ht k lb Hk [lb' [H1 H2]]. exists lb'. rewrite Hc. split; [exact H1 | lia].
Qed.

Definition neutral_cb (c : cb) : bool :=
  match c with CbFromApp _ _ _ _ => false | CbStoreReset => false | _ => true end.

Lemma scan_neutral : forall c lb, neutral_cb c = true -> c01_scan_cbs lb [c] = Some lb.
Proof. intros c lb H. destruct c; cbn in *; try reflexivity; discriminate. Qed.

Lemma adm_log_cb : forall s c, neutral_cb c = true -> Adm s (log_cb s c).
Proof.
  intros s c Hc k lb Hk [lb' [H1 H2]]. exists lb'. unfold log_cb, upd_logs. cbn [s_cbs s_tgt].
  rewrite scanr_cons, H1, (scan_neutral c lb' Hc). split; [reflexivity | exact H2].
Qed.

Lemma adm_store_reset : forall s, Adm s (store_reset s).
Proof.
  intros s k lb Hk [lb' [H1 H2]]. exists 1. unfold store_reset, log_cb, upd_logs, upd_store. cbn [s_cbs s_tgt].
  rewrite scanr_cons. change (scanr lb (s_cbs s)) with (scanr lb (s_cbs s)). rewrite H1.
  split; [reflexivity | lia].
Qed.

Lemma adm_incr_tgt : forall s, Adm s (incr_tgt s).
Proof. intros s. apply adm_same; unfold incr_tgt, upd_store; cbn [s_cbs s_tgt]; [reflexivity | lia]. Qed.

(* consuming one unit of slack *)
Lemma good_incr : forall k lb s, GoodK (k + 1) lb s -> GoodK k lb (incr_tgt s).
Proof. intros k lb s [lb' [H1 H2]]. exists lb'. unfold incr_tgt, upd_store; cbn [s_cbs s_tgt]. split; [exact H1 | lia]. Qed.

#[export] Hint Resolve adm_refl adm_store_reset adm_incr_tgt : adm.

(* ---------- administrative effects: everything except handing a message to the application ---------- *)

Ltac brk :=
  repeat match goal with
  | |- context [if ?x then _ else _] => destruct x eqn:?
  | |- context [match ?x with _ => _ end] => destruct x eqn:?
  end.
Ltac brk_in E :=
  repeat match type of E with
  | context [if ?x then _ else _] => destruct x eqn:?
  | context [match ?x with _ => _ end] => destruct x eqn:?
  end.
Ltac inv E := inversion E; subst; clear E.
Ltac brk_hyps :=
  repeat match goal with
  | Hq : (match ?x with _ => _ end) = (_, _) |- _ => destruct x eqn:?; try (inversion Hq; subst; clear Hq)
  | Hq : (if ?x then _ else _) = (_, _) |- _ => destruct x eqn:?; try (inversion Hq; subst; clear Hq)
  end.

Ltac same := apply adm_same; cbn [s_cbs s_tgt]; [reflexivity | lia].

Section AdmLemmas.
Variable s0 : sess.

Lemma adm_upd_st s x : Adm s0 s -> Adm s0 (upd_st s x).
Proof. intros H. eapply adm_trans; [exact H|]. unfold upd_st. same. Qed.
Lemma adm_upd_to_send s q : Adm s0 s -> Adm s0 (upd_to_send s q).
Proof. intros H. eapply adm_trans; [exact H|]. unfold upd_to_send. same. Qed.
Lemma adm_upd_chan s a b c d : Adm s0 s -> Adm s0 (upd_chan s a b c d).
Proof. intros H. eapply adm_trans; [exact H|]. unfold upd_chan. same. Qed.
Lemma adm_upd_flags s a b c d : Adm s0 s -> Adm s0 (upd_flags s a b c d).
Proof. intros H. eapply adm_trans; [exact H|]. unfold upd_flags. same. Qed.
Lemma adm_upd_wire s w : Adm s0 s -> Adm s0 (upd_logs s (s_cbs s) w).
Proof. intros H. eapply adm_trans; [exact H|]. unfold upd_logs. same. Qed.
Lemma adm_log s c : neutral_cb c = true -> Adm s0 s -> Adm s0 (log_cb s c).
Proof. intros Hc H. eapply adm_trans; [exact H | apply adm_log_cb; exact Hc]. Qed.
Lemma adm_reset s : Adm s0 s -> Adm s0 (store_reset s).
Proof. intros H. eapply adm_trans; [exact H | apply adm_store_reset]. Qed.
Lemma adm_incr s : Adm s0 s -> Adm s0 (incr_tgt s).
Proof. intros H. eapply adm_trans; [exact H | apply adm_incr_tgt]. Qed.
Lemma adm_set_tgt s n : s_tgt s <= n -> Adm s0 s -> Adm s0 (set_tgt s n).
Proof. intros Hn H. eapply adm_trans; [exact H|]. unfold set_tgt, upd_store. same. Qed.
Lemma adm_set_sent_reset s b : Adm s0 s -> Adm s0 (set_sent_reset s b).
Proof. intros H. unfold set_sent_reset. apply adm_upd_flags; exact H. Qed.
Lemma adm_set_hb s h : Adm s0 s -> Adm s0 (set_hb s h).
Proof. intros H. unfold set_hb. apply adm_upd_flags; exact H. Qed.
Lemma adm_persist s m : Adm s0 s -> Adm s0 (persist s m).
Proof. intros H. eapply adm_trans; [exact H|]. unfold persist, upd_store. brk; same. Qed.
Hint Resolve adm_upd_st adm_upd_to_send adm_upd_chan adm_upd_flags adm_upd_wire adm_log adm_reset adm_incr
     adm_set_sent_reset adm_set_hb adm_persist : adm.

Lemma adm_prep s t hdr body ir ok s1 r : prep s t hdr body ir ok = (s1, r) -> Adm s0 s -> Adm s0 s1.
Proof. intros E H. unfold prep in E. brk_in E; inv E; eauto 8 with adm. Qed.
Hint Resolve adm_prep : adm.

Lemma adm_send_queued s : Adm s0 s -> Adm s0 (send_queued s).
Proof. intros H. unfold send_queued. brk; eauto with adm. Qed.
Lemma adm_drop_queued s : Adm s0 s -> Adm s0 (drop_queued s).
Proof. intros H. unfold drop_queued. eauto with adm. Qed.
Lemma adm_enqueue s m : Adm s0 s -> Adm s0 (enqueue s m).
Proof. intros H. unfold enqueue. eauto with adm. Qed.
Hint Resolve adm_send_queued adm_drop_queued adm_enqueue : adm.

Lemma adm_queue_for_send s t hdr body ir ok : Adm s0 s -> Adm s0 (queue_for_send s t hdr body ir ok).
Proof. intros H. unfold queue_for_send. brk; eauto with adm. Qed.
Hint Resolve adm_queue_for_send : adm.
Lemma adm_send_in_reply_to s t hdr body ir : Adm s0 s -> Adm s0 (send_in_reply_to s t hdr body ir).
Proof. intros H. unfold send_in_reply_to. brk; eauto 8 with adm. Qed.
Hint Resolve adm_send_in_reply_to : adm.
Lemma adm_send s t body : Adm s0 s -> Adm s0 (send s t body).
Proof. intros H. unfold send. eauto with adm. Qed.
Lemma adm_drop_and_send s t body ir : Adm s0 s -> Adm s0 (drop_and_send_in_reply_to s t body ir).
Proof. intros H. unfold drop_and_send_in_reply_to. brk; eauto 8 with adm. Qed.
Lemma adm_drop_and_reset s : Adm s0 s -> Adm s0 (drop_and_reset s).
Proof. intros H. unfold drop_and_reset. eauto with adm. Qed.
Lemma adm_enqueue_bytes s m : Adm s0 s -> Adm s0 (enqueue_bytes_and_send s m).
Proof. intros H. unfold enqueue_bytes_and_send. destruct (is_logged_on (s_st s)); eauto with adm. Qed.
Hint Resolve adm_send adm_drop_and_send adm_drop_and_reset adm_enqueue_bytes : adm.

Lemma adm_send_logon s b ir : Adm s0 s -> Adm s0 (send_logon_in_reply_to s b ir).
Proof. intros H. unfold send_logon_in_reply_to. eauto with adm. Qed.
Lemma adm_send_logout s ir : Adm s0 s -> Adm s0 (send_logout_in_reply_to s ir).
Proof. intros H. unfold send_logout_in_reply_to. eauto with adm. Qed.
Lemma adm_initiate_logout s ir : Adm s0 s -> Adm s0 (initiate_logout_in_reply_to s ir).
Proof. intros H. unfold initiate_logout_in_reply_to. apply adm_send_logout; exact H. Qed.
Hint Resolve adm_send_logon adm_send_logout adm_initiate_logout : adm.

Lemma adm_do_reject s m r : Adm s0 s -> Adm s0 (do_reject s m r).
Proof. intros H. unfold do_reject. brk; eauto with adm. Qed.
Hint Resolve adm_do_reject : adm.

Lemma adm_send_resend_request s b e s1 st : send_resend_request s b e = (s1, st) -> Adm s0 s -> Adm s0 s1.
Proof. intros E H. unfold send_resend_request in E. brk_in E; inv E; eauto with adm. Qed.
Hint Resolve adm_send_resend_request : adm.
Lemma adm_do_target_too_high s a b s1 st : do_target_too_high s a b = (s1, st) -> Adm s0 s -> Adm s0 s1.
Proof. intros E H. unfold do_target_too_high in E. eauto with adm. Qed.
Hint Resolve adm_do_target_too_high : adm.

Lemma adm_generate_sequence_reset s b e ir : Adm s0 s -> Adm s0 (generate_sequence_reset s b e ir).
Proof. intros H. unfold generate_sequence_reset. eauto 8 with adm. Qed.
Hint Resolve adm_generate_sequence_reset : adm.

Lemma adm_do_target_too_low s m s1 st : do_target_too_low s m = (s1, st) -> Adm s0 s -> Adm s0 s1.
Proof. intros E H. unfold do_target_too_low in E. brk_in E; inv E; eauto 8 with adm. Qed.
Hint Resolve adm_do_target_too_low : adm.

Lemma adm_process_reject s m r s1 st : process_reject s m r = (s1, st) -> Adm s0 s -> Adm s0 s1.
Proof. intros E H. unfold process_reject in E. brk_in E; inv E; brk_hyps; eauto 8 with adm. Qed.
Hint Resolve adm_process_reject : adm.

Lemma adm_resend_loop : forall keys s ir a b s1 x y,
  resend_loop keys s ir a b = (s1, x, y) -> Adm s0 s -> Adm s0 s1.
Proof.
  induction keys as [|k r IH]; intros s ir a b s1 x y E H; cbn [resend_loop] in E.
  - inv E. exact H.
  - brk_in E; eapply IH; try exact E; eauto 8 with adm.
Qed.
Hint Resolve adm_resend_loop : adm.

Lemma adm_resend_messages s b e ir : Adm s0 s -> Adm s0 (resend_messages s b e ir).
Proof. intros H. unfold resend_messages. brk; eauto 8 with adm. Qed.
Hint Resolve adm_resend_messages : adm.

Lemma adm_shutdown_with_reason s m b s1 st : shutdown_with_reason s m b = (s1, st) -> Adm s0 s -> Adm s0 s1.
Proof. intros E H. unfold shutdown_with_reason in E. brk_in E; inv E; eauto 8 with adm. Qed.
Hint Resolve adm_shutdown_with_reason : adm.

(* verification: administrative when the message is of an administrative type *)
Lemma adm_verify_app_admin s m s1 r : is_admin (mi_type m) = true ->
  verify_msg_against_app_impl s m = (s1, r) -> Adm s0 s -> Adm s0 s1.
Proof.
  intros Ha E H. unfold verify_msg_against_app_impl in E. rewrite Ha in E. brk_in E; inv E; eauto with adm.
Qed.
Lemma adm_verify_select_admin s m a b c s1 r : is_admin (mi_type m) = true ->
  verify_select s m a b c = (s1, r) -> Adm s0 s -> Adm s0 s1.
Proof.
  intros Ha E H. unfold verify_select in E. brk_in E; try (inv E; exact H).
  all: eapply adm_verify_app_admin; eauto.
Qed.
End AdmLemmas.

Lemma beq_bytes_true : forall a b, beq_bytes a b = true -> a = b.
Proof.
  induction a as [|x a IH]; destruct b as [|y b]; cbn; intros H; try discriminate; [reflexivity|].
  apply andb_true_iff in H as [H1 H2]. apply Z.eqb_eq in H1. subst. f_equal. apply IH; exact H2.
Qed.

(* deterministic, syntax-directed composition of the Adm lemmas *)
Ltac adm_pair v := fail.
Ltac adm_go :=
  lazymatch goal with
  | H : Adm ?a ?b |- Adm ?a ?b => exact H
  | |- Adm ?a ?a => apply adm_refl
  | |- Adm _ (if ?x then _ else _) => destruct x eqn:?; adm_go
  | |- Adm _ (match ?x with _ => _ end) => destruct x eqn:?; adm_go
  | |- Adm _ (upd_st _ _) => apply adm_upd_st; adm_go
  | |- Adm _ (upd_to_send _ _) => apply adm_upd_to_send; adm_go
  | |- Adm _ (upd_chan _ _ _ _ _) => apply adm_upd_chan; adm_go
  | |- Adm _ (upd_flags _ _ _ _ _) => apply adm_upd_flags; adm_go
  | |- Adm _ (log_cb _ _) => apply adm_log; [reflexivity | adm_go]
  | |- Adm _ (store_reset _) => apply adm_reset; adm_go
  | |- Adm _ (incr_tgt _) => apply adm_incr; adm_go
  | |- Adm _ (set_tgt _ _) => apply adm_set_tgt; [ repeat match goal with Hq : (_ <? _) = true |- _ => apply Z.ltb_lt in Hq end; lia | adm_go ]
  | |- Adm _ (set_sent_reset _ _) => apply adm_set_sent_reset; adm_go
  | |- Adm _ (set_hb _ _) => apply adm_set_hb; adm_go
  | |- Adm _ (persist _ _) => apply adm_persist; adm_go
  | |- Adm _ (send_queued _) => apply adm_send_queued; adm_go
  | |- Adm _ (drop_queued _) => apply adm_drop_queued; adm_go
  | |- Adm _ (enqueue _ _) => apply adm_enqueue; adm_go
  | |- Adm _ (queue_for_send _ _ _ _ _ _) => apply adm_queue_for_send; adm_go
  | |- Adm _ (send_in_reply_to _ _ _ _ _) => apply adm_send_in_reply_to; adm_go
  | |- Adm _ (send _ _ _) => apply adm_send; adm_go
  | |- Adm _ (drop_and_send_in_reply_to _ _ _ _) => apply adm_drop_and_send; adm_go
  | |- Adm _ (drop_and_reset _) => apply adm_drop_and_reset; adm_go
  | |- Adm _ (enqueue_bytes_and_send _ _) => apply adm_enqueue_bytes; adm_go
  | |- Adm _ (send_logon_in_reply_to _ _ _) => apply adm_send_logon; adm_go
  | |- Adm _ (send_logout_in_reply_to _ _) => apply adm_send_logout; adm_go
  | |- Adm _ (initiate_logout_in_reply_to _ _) => apply adm_initiate_logout; adm_go
  | |- Adm _ (do_reject _ _ _) => apply adm_do_reject; adm_go
  | |- Adm _ (generate_sequence_reset _ _ _ _) => apply adm_generate_sequence_reset; adm_go
  | |- Adm _ (resend_messages _ _ _ _) => apply adm_resend_messages; adm_go
  | |- Adm _ ?v =>
      match goal with
      | E : prep _ _ _ _ _ _ = (v, _) |- _ => eapply adm_prep; [exact E | adm_go]
      | E : send_resend_request _ _ _ = (v, _) |- _ => eapply adm_send_resend_request; [exact E | adm_go]
      | E : do_target_too_high _ _ _ = (v, _) |- _ => eapply adm_do_target_too_high; [exact E | adm_go]
      | E : do_target_too_low _ _ = (v, _) |- _ => eapply adm_do_target_too_low; [exact E | adm_go]
      | E : process_reject _ _ _ = (v, _) |- _ => eapply adm_process_reject; [exact E | adm_go]
      | E : resend_loop _ _ _ _ _ = (v, _, _) |- _ => eapply adm_resend_loop; [exact E | adm_go]
      | E : shutdown_with_reason _ _ _ = (v, _) |- _ => eapply adm_shutdown_with_reason; [exact E | adm_go]
      | E : verify_msg_against_app_impl _ _ = (v, _) |- _ => eapply adm_verify_app_admin; [ | exact E | adm_go]; assumption
      | E : verify_select _ _ _ _ _ = (v, _) |- _ => eapply adm_verify_select_admin; [ | exact E | adm_go]; assumption
      | _ => adm_pair v
      end
  end.

Ltac pair_lemma E := brk_in E; inv E; brk_hyps; adm_go.

Section Handlers.
Variable s0 : sess.

Lemma adm_handle_logon s m s1 r : is_admin (mi_type m) = true ->
  handle_logon s m = (s1, r) -> Adm s0 s -> Adm s0 s1.
Proof. intros Ha E H. unfold handle_logon in E. pair_lemma E. Qed.

Lemma adm_handle_logout s m s1 st : is_admin (mi_type m) = true ->
  handle_logout s m = (s1, st) -> Adm s0 s -> Adm s0 s1.
Proof. intros Ha E H. unfold handle_logout in E. pair_lemma E. Qed.

Lemma adm_handle_test_request s m s1 st : is_admin (mi_type m) = true ->
  handle_test_request s m = (s1, st) -> Adm s0 s -> Adm s0 s1.
Proof. intros Ha E H. unfold handle_test_request, verify in E. pair_lemma E. Qed.

Lemma adm_handle_sequence_reset s m s1 st : is_admin (mi_type m) = true ->
  handle_sequence_reset s m = (s1, st) -> Adm s0 s -> Adm s0 s1.
Proof. intros Ha E H. unfold handle_sequence_reset in E. pair_lemma E. Qed.

Lemma adm_handle_resend_request s m s1 st : is_admin (mi_type m) = true ->
  handle_resend_request s m = (s1, st) -> Adm s0 s -> Adm s0 s1.
Proof. intros Ha E H. unfold handle_resend_request in E. pair_lemma E. Qed.
End Handlers.

(* ---------- handing a message to the application ---------- *)
Definition G (lb : Z) (s : sess) : Prop := GoodK 0 lb s.

Lemma G_adm lb s s' : Adm s s' -> G lb s -> G lb s'.
Proof. intros H Hg. apply H; [lia | exact Hg]. Qed.

Lemma type_admin m t : beq_bytes (mi_type m) t = true -> is_admin t = true -> is_admin (mi_type m) = true.
Proof. intros H1 H2. apply beq_bytes_true in H1. rewrite H1. exact H2. Qed.

(* the default branch of inSession.FixMsgIn for an application message *)
Lemma good_app_message : forall lb s m s1 st,
  is_admin (mi_type m) = false ->
  match verify s m with
  | (s', Some r) => process_reject s' m r
  | (s', None) => (incr_tgt s', SInSession)
  end = (s1, st) ->
  G lb s -> G lb s1.
Proof.
  intros lb s m s1 st Hna E Hg. unfold verify, verify_select in E.
  destruct (check_begin_string s m) eqn:E1.
  { apply (G_adm lb s); [|exact Hg]. eapply adm_process_reject; [exact E | apply adm_refl]. }
  destruct (check_comp_id s m) eqn:E2.
  { apply (G_adm lb s); [|exact Hg]. eapply adm_process_reject; [exact E | apply adm_refl]. }
  destruct (match s_st s with SResend _ _ _ => None | _ => check_sending_time s m end) eqn:E3.
  { apply (G_adm lb s); [|exact Hg]. eapply adm_process_reject; [exact E | apply adm_refl]. }
  cbn match in E.
  destruct (check_target_too_low s m) eqn:E4.
  { apply (G_adm lb s); [|exact Hg]. eapply adm_process_reject; [exact E | apply adm_refl]. }
  destruct (check_target_too_high s m) eqn:E5.
  { apply (G_adm lb s); [|exact Hg]. eapply adm_process_reject; [exact E | apply adm_refl]. }
  unfold verify_msg_against_app_impl in E. rewrite Hna in E.
  destruct (rej_of_verdict (mi_valid m)) eqn:E6.
  { apply (G_adm lb s); [|exact Hg]. eapply adm_process_reject; [exact E | apply adm_refl]. }
  (* the message is at the expected number *)
  unfold check_target_too_low in E4. unfold check_target_too_high in E5.
  destruct (mi_seq m) as [| |n] eqn:Eseq; try discriminate.
  destruct (n <? s_tgt s) eqn:Elo; [discriminate|]. destruct (s_tgt s <? n) eqn:Ehi; [discriminate|].
  apply Z.ltb_ge in Elo. apply Z.ltb_ge in Ehi. assert (Hn : n = s_tgt s) by lia. subst n.
  set (s' := log_cb s (CbFromApp (FVal (s_tgt s)) (s_tgt s) (mi_app m) (facts_of m))) in E.
  assert (Hs' : GoodK (if consumes (mi_app m) then 1 else 0) lb s').
  { destruct Hg as [lb' [H1 H2]].
    exists (if consumes (mi_app m) then s_tgt s + 1 else s_tgt s).
    unfold s', log_cb, upd_logs. cbn [s_cbs s_tgt]. rewrite scanr_cons, H1. cbn [c01_scan_cbs].
    rewrite Z.eqb_refl. replace (lb' <=? s_tgt s) with true by (symmetry; apply Z.leb_le; lia).
    cbn [andb]. split; [reflexivity|]. destruct (consumes (mi_app m)); lia. }
  assert (Htgt : s_tgt s' = s_tgt s) by reflexivity.
  destruct (mi_app m) as [|reason tag business|] eqn:Eapp; cbn [rej_of_verdict] in E.
  - (* accepted *) inv E. cbn [consumes] in Hs'. apply (good_incr 0 lb s'). exact Hs'.
  - (* a reject from the application *)
    cbn [process_reject] in E. cbn [consumes] in Hs'.
    destruct ((reason =? 9) || (reason =? 10)) eqn:Er; cbn [negb] in Hs'.
    + inv E. apply (G_adm lb s'); [|exact Hs']. apply adm_initiate_logout, adm_do_reject, adm_refl.
    + inv E. apply (good_incr 0 lb). apply (adm_do_reject s' s' m _ (adm_refl s')); [lia | exact Hs'].
  - (* RejectLogon *)
    cbn [process_reject] in E. inv E. cbn [consumes] in Hs'.
    apply (good_incr 0 lb). apply (adm_do_reject s' s' m _ (adm_refl s')); [lia | exact Hs'].
Qed.

Lemma good_in_session_fix_msg_in : forall lb s m s1 st,
  in_session_fix_msg_in s m = (s1, st) -> G lb s -> G lb s1.
Proof.
  intros lb s m s1 st E Hg. unfold in_session_fix_msg_in in E.
  destruct (beq_bytes (mi_type m) T_LOGON) eqn:E1.
  { pose proof (type_admin m _ E1 eq_refl) as Ha.
    destruct (handle_logon s m) as [s2 r] eqn:E2.
    pose proof (adm_handle_logon s s m s2 r Ha E2 (adm_refl s)) as H2.
    destruct r; inv E; apply (G_adm lb s); try exact Hg; [apply adm_initiate_logout; exact H2 | exact H2]. }
  destruct (beq_bytes (mi_type m) T_LOGOUT) eqn:E2.
  { apply (G_adm lb s); [|exact Hg]. eapply adm_handle_logout; [exact (type_admin m _ E2 eq_refl) | exact E | apply adm_refl]. }
  destruct (beq_bytes (mi_type m) T_RESENDREQ) eqn:E3.
  { apply (G_adm lb s); [|exact Hg]. eapply adm_handle_resend_request; [exact (type_admin m _ E3 eq_refl) | exact E | apply adm_refl]. }
  destruct (beq_bytes (mi_type m) T_SEQRESET) eqn:E4.
  { apply (G_adm lb s); [|exact Hg]. eapply adm_handle_sequence_reset; [exact (type_admin m _ E4 eq_refl) | exact E | apply adm_refl]. }
  destruct (beq_bytes (mi_type m) T_TESTREQ) eqn:E5.
  { apply (G_adm lb s); [|exact Hg]. eapply adm_handle_test_request; [exact (type_admin m _ E5 eq_refl) | exact E | apply adm_refl]. }
  destruct (is_admin (mi_type m)) eqn:Ha.
  - (* Heartbeat, Reject: administrative *)
    apply (G_adm lb s); [|exact Hg]. unfold verify in E.
    destruct (verify_select s m true true true) as [s2 r] eqn:Ev.
    pose proof (adm_verify_select_admin s s m _ _ _ s2 r Ha Ev (adm_refl s)) as H2.
    destruct r; [eapply adm_process_reject; [exact E | exact H2] | inv E; apply adm_incr; exact H2].
  - eapply good_app_message; [exact Ha | exact E | exact Hg].
Qed.

Lemma good_logon_state : forall lb s m s1 st, logon_state_fix_msg_in s m = (s1, st) -> G lb s -> G lb s1.
Proof.
  intros lb s m s1 st E Hg. unfold logon_state_fix_msg_in in E.
  destruct (beq_bytes (mi_type m) T_LOGON) eqn:E1; cbn [negb] in E; [|inv E; exact Hg].
  pose proof (type_admin m _ E1 eq_refl) as Ha.
  destruct (handle_logon s m) as [s2 r] eqn:E2.
  pose proof (adm_handle_logon s s m s2 r Ha E2 (adm_refl s)) as H2.
  apply (G_adm lb s); [|exact Hg].
  destruct r as [r|]; [|inv E; exact H2].
  destruct r; try (inv E; exact H2).
  - eapply adm_do_target_too_high; [exact E | exact H2].
  - eapply adm_shutdown_with_reason; [exact E | exact H2].
  - eapply adm_shutdown_with_reason; [exact E | exact H2].
Qed.

Lemma good_logout_state : forall lb s m s1 st, logout_state_fix_msg_in s m = (s1, st) -> G lb s -> G lb s1.
Proof.
  intros lb s m s1 st E Hg. unfold logout_state_fix_msg_in in E.
  destruct (in_session_fix_msg_in s m) as [s2 st2] eqn:E2.
  pose proof (good_in_session_fix_msg_in lb s m s2 st2 E2 Hg) as H2.
  destruct st2; inv E; exact H2.
Qed.

Lemma good_resend_drain : forall fuel lb s stash next s1 stash1 next1 still,
  resend_drain fuel s stash next = (s1, stash1, next1, still) -> G lb s -> G lb s1.
Proof.
  induction fuel as [|f IH]; intros lb s stash next s1 stash1 next1 still E Hg; cbn [resend_drain] in E.
  - inv E. exact Hg.
  - destruct (stash_take (s_tgt s) stash) as [[m stash']|]; [|inv E; exact Hg].
    destruct (in_session_fix_msg_in s m) as [s2 n2] eqn:E2.
    pose proof (good_in_session_fix_msg_in lb s m s2 n2 E2 Hg) as H2.
    destruct (negb (is_logged_on n2)); [inv E; exact H2|].
    eapply IH; [exact E | exact H2].
Qed.

Lemma good_resend_state : forall lb s stash c e m s1 st,
  resend_state_fix_msg_in s stash c e m = (s1, st) -> G lb s -> G lb s1.
Proof.
  intros lb s stash c e m s1 st E Hg. unfold resend_state_fix_msg_in in E.
  destruct (in_session_fix_msg_in s m) as [s2 n2] eqn:E2.
  pose proof (good_in_session_fix_msg_in lb s m s2 n2 E2 Hg) as H2.
  destruct (negb (is_logged_on n2)); [inv E; exact H2|].
  match type of E with context [resend_drain ?f ?a ?b ?c] => destruct (resend_drain f a b c) as [[[s3 l3] n3] still] eqn:E3 end.
  pose proof (good_resend_drain _ lb _ _ _ _ _ _ _ E3 H2) as H3.
  destruct (negb still); [inv E; exact H3|].
  assert (Hrr : forall a b s4 st4, send_resend_request s3 a b = (s4, st4) -> G lb s4).
  { intros a b s4 st4 Er. apply (G_adm lb s3); [|exact H3]. eapply adm_send_resend_request; [exact Er | apply adm_refl]. }
  brk_in E; inv E; try exact H3; eapply Hrr; eassumption.
Qed.

Lemma good_state_fix_msg_in : forall st lb s m s1 st1, state_fix_msg_in st s m = (s1, st1) -> G lb s -> G lb s1.
Proof.
  induction st as [| | | | | stash c e | i IH]; intros lb s m s1 st1 E Hg; cbn [state_fix_msg_in] in E.
  - inv E; exact Hg.
  - inv E; exact Hg.
  - eapply good_logon_state; eassumption.
  - eapply good_logout_state; eassumption.
  - eapply good_in_session_fix_msg_in; eassumption.
  - eapply good_resend_state; eassumption.
  - eapply IH; eassumption.
Qed.

Lemma adm_in_session_timeout s0 s e s1 st : in_session_timeout s e = (s1, st) -> Adm s0 s -> Adm s0 s1.
Proof. intros E H. unfold in_session_timeout in E. pair_lemma E. Qed.

Lemma adm_state_timeout s0 st s e s1 st1 : state_timeout st s e = (s1, st1) -> Adm s0 s -> Adm s0 s1.
Proof.
  intros E H. unfold state_timeout in E.
  destruct st; try (brk_in E; inv E; exact H).
  - eapply adm_in_session_timeout; eassumption.
  - destruct (in_session_timeout s e) as [s2 st2] eqn:E2.
    pose proof (adm_in_session_timeout s0 s e s2 st2 E2 H). brk_in E; inv E; assumption.
Qed.

Lemma adm_state_stop s0 : forall st s s1 st1, state_stop st s = (s1, st1) -> Adm s0 s -> Adm s0 s1.
Proof.
  induction st as [| | | | | stash c e | i IH]; intros s s1 st1 E H; cbn [state_stop] in E; try (inv E; adm_go).
  eapply IH; eassumption.
Qed.

Section WithDrain.
Variable dr : sess -> sess.
Hypothesis dr_good : forall lb s, G lb s -> G lb (dr s).

Lemma good_handle_disconnect : forall lb s, G lb s -> G lb (handle_disconnect_state dr s).
Proof.
  intros lb s Hg. unfold handle_disconnect_state. cbv zeta.
  pose proof (dr_good lb s Hg) as H0.
  destruct (is_connected (s_st s) && negb (is_connected (s_st (dr s)))); [exact H0|].
  eapply G_adm; [|exact H0]. adm_go.
Qed.

Lemma good_set_state_with : forall lb s next, G lb s -> G lb (set_state_with dr s next).
Proof.
  intros lb s next Hg. unfold set_state_with.
  destruct (negb (is_connected next)).
  - destruct (is_connected (s_st s)).
    + pose proof (good_handle_disconnect lb s Hg) as H1. eapply G_adm; [|exact H1]. adm_go.
    + eapply G_adm; [|exact Hg]. adm_go.
  - eapply G_adm; [|exact Hg]. adm_go.
Qed.

Lemma good_incoming_with : forall lb s m, G lb s -> G lb (incoming_with dr s m).
Proof.
  intros lb s m Hg. unfold incoming_with.
  destruct (negb (is_connected (s_st s))); [exact Hg|].
  destruct m as [mm|]; [|exact Hg].
  destruct (state_fix_msg_in (s_st s) s mm) as [s1 next] eqn:E.
  apply good_set_state_with. eapply good_state_fix_msg_in; eassumption.
Qed.
End WithDrain.

Lemma good_drain_message_in : forall fuel lb s, G lb s -> G lb (drain_message_in fuel s).
Proof.
  induction fuel as [|f IH]; intros lb s Hg; cbn [drain_message_in]; [exact Hg|].
  destruct (negb (s_in_open s)); [exact Hg|].
  destruct (s_in_buf s) as [|m r]; [exact Hg|].
  apply IH. apply good_incoming_with; [intros; apply IH; assumption|].
  eapply G_adm; [|exact Hg]. adm_go.
Qed.

Lemma good_drain lb s : G lb s -> G lb (drain s).
Proof. apply good_drain_message_in. Qed.
Lemma good_set_state lb s next : G lb s -> G lb (set_state s next).
Proof. apply good_set_state_with. intros; apply good_drain; assumption. Qed.
Lemma good_incoming lb s m : G lb s -> G lb (incoming s m).
Proof. apply good_incoming_with. intros; apply good_drain; assumption. Qed.

Lemma good_connect lb s : G lb s -> G lb (connect s).
Proof.
  intros Hg. unfold connect. destruct (is_connected (s_st s)); [exact Hg|].
  destruct (negb (initiator _)); apply good_set_state; (eapply G_adm; [|exact Hg]); adm_go.
Qed.

Lemma good_step_event lb s e : G lb s -> G lb (step_event s e).
Proof.
  intros Hg. destruct e; cbn [step_event].
  - apply good_connect; exact Hg.
  - brk; try exact Hg; (eapply G_adm; [|exact Hg]); adm_go.
  - brk; try exact Hg; apply good_incoming; (eapply G_adm; [|exact Hg]); adm_go.
  - apply good_incoming; exact Hg.
  - apply good_incoming; exact Hg.
  - brk; try exact Hg; apply good_set_state; exact Hg.
  - destruct (state_timeout (s_st s) s e) as [s1 next] eqn:E. apply good_set_state.
    eapply G_adm; [|exact Hg]. eapply adm_state_timeout; [exact E | apply adm_refl].
  - eapply G_adm; [|exact Hg]. adm_go.
  - brk; (eapply G_adm; [|exact Hg]); adm_go.
  - match goal with |- context [state_stop ?a ?b] => destruct (state_stop a b) as [s1 next] eqn:E end.
    apply good_set_state. eapply G_adm; [|exact Hg]. eapply adm_state_stop; [exact E|]. adm_go.
  - brk; try exact Hg; (eapply G_adm; [|exact Hg]); adm_go.
Qed.

Lemma good_step lb s e : lb <= s_tgt s -> G lb (step s e).
Proof.
  intros Hlb. unfold step. apply good_step_event. exists lb. split; [reflexivity|]. cbn. lia.
Qed.

Lemma scan_no_reset_mono : forall l lb lb', has_reset l = false -> c01_scan_cbs lb l = Some lb' -> lb <= lb'.
Proof.
  induction l as [|c r IH]; intros lb lb' Hr E; cbn [c01_scan_cbs] in E.
  - inv E. lia.
  - unfold has_reset in Hr. cbn [existsb] in Hr. apply orb_false_iff in Hr as [Hc Hr].
    destruct c as [sq t v f| | | | | |]; try (eapply IH; eassumption); try discriminate.
    destruct sq as [| |n]; try discriminate.
    destruct ((n =? t) && (lb <=? n)) eqn:Ec; [|discriminate].
    apply andb_true_iff in Ec as [_ Ec]. apply Z.leb_le in Ec.
    specialize (IH _ _ Hr E). destruct (consumes v); lia.
Qed.

Lemma c01_scan_run : forall es s i lb, lb <= s_tgt s ->
  c01_scan i lb (s_tgt s) (map obs_of (run_trace es s)) = [].
Proof.
  induction es as [|e r IH]; intros s i lb Hlb; cbn [run_trace map c01_scan]; [reflexivity|].
  set (s' := step s e).
  destruct (good_step lb s e Hlb) as [lb' [H1 H2]]. fold s' in H1, H2.
  change (ob_cbs (obs_of s')) with (rev (s_cbs s')). change (ob_tgt (obs_of s')) with (s_tgt s').
  unfold scanr in H1. rewrite H1.
  replace (lb' <=? s_tgt s') with true by (symmetry; apply Z.leb_le; lia).
  assert (Hm : has_reset (rev (s_cbs s')) || (s_tgt s <=? s_tgt s') = true).
  { destruct (has_reset (rev (s_cbs s'))) eqn:Hr; [reflexivity|]. cbn [orb]. apply Z.leb_le.
    destruct (good_step (s_tgt s) s e (Z.le_refl _)) as [lb2 [H3 H4]]. fold s' in H3, H4.
    unfold scanr in H3. pose proof (scan_no_reset_mono _ _ _ Hr H3). lia. }
  rewrite Hm. cbn [app]. apply IH. lia.
Qed.

(* every trace of the model passes the C01 specification predicate *)
Lemma c01_model_ok : forall c es, c01_check (map obs_of (run_trace es (init_sess c))) = [].
Proof. intros c es. unfold c01_check. apply (c01_scan_run es (init_sess c) O 1). cbn. lia. Qed.

(* local form: an application message is handed over only at the expected number *)
Lemma c01_handover_at_expected : forall lb s e, lb <= s_tgt s ->
  exists lb', c01_scan_cbs lb (rev (s_cbs (step s e))) = Some lb' /\ lb' <= s_tgt (step s e).
Proof. intros lb s e H. destruct (good_step lb s e H) as [lb' [H1 H2]]. exists lb'. split; [exact H1 | lia]. Qed.
