(* C06, clauses 601 and 604 (the gate): every FromApp callback, every FromAdmin callback for a message other than a Logon,
   and every OnLogon logged while ONE message is processed belongs to a message that passed the BeginString, CompID,
   SendingTime (unless the state in which it is processed is the resend state) and validation checks.
   Closure over all handlers (same syntax-directed scheme as FrameProofs.v, sections L1-L9 cloned), then the lift to steps
   and traces.  An event that drains TWO OR MORE buffered frames at a disconnect handles them in changing states (in session
   -> resend -> ...) that the observation before/after the event does not show; c06_scan (Spec.v) therefore waives the
   SendingTime clause on such events (negb no_drain).  Proved: (a) the full gate on every event that drains at most ONE
   frame (that frame is handled in the state before the event), (b) the gate without the SendingTime clause on every event,
   and from the two: clauses 601 / 604 of c06_check never fail on any trace of the model (c06_gate_never_fails). *)
From Coq Require Import String.
From Coq Require Import ZArith List Bool Lia.
From QF Require Import Base.Bytes Session.Types Session.Model Session.Spec Session.C01Proofs Session.LocalProofs
  Session.FrameProofs Session.TraceProofs.
Import ListNotations.
Open Scope string_scope.
Open Scope list_scope.
Open Scope Z_scope.

(* ---------- what a callback must satisfy ---------- *)
(* the resend context of a message: the state in which it is processed is the resend state itself (not wrapped) *)
Definition gt_rs (st : sstate) : bool := match st with SResend _ _ _ => true | _ => false end.

Definition gt_cb_ok (c : cfg) (R : bool) (x : cb) : bool :=
  match x with
  | CbFromApp _ _ _ f => gate_ok c R f
  | CbFromAdmin t _ f => beq_bytes t T_LOGON || gate_ok c R f
  | _ => true
  end.

(* a block of callbacks (newest first): each passes the gate, and an OnLogon comes with the FromAdmin of a Logon that passes *)
Definition NewOk (c : cfg) (R : bool) (new : list cb) : Prop :=
  (forall x, In x new -> gt_cb_ok c R x = true)
  /\ (In CbOnLogon new ->
      exists t sq f, In (CbFromAdmin t sq f) new /\ beq_bytes t T_LOGON = true /\ gate_ok c R f = true).

Lemma newok_nil c R : NewOk c R [].
Proof. split; [intros x []|intros []]. Qed.

Lemma newok_app c R a b : NewOk c R a -> NewOk c R b -> NewOk c R (a ++ b).
Proof.
  intros [A1 A2] [B1 B2]. split.
  - intros x Hx. apply in_app_or in Hx as [Hx|Hx]; [apply A1 | apply B1]; exact Hx.
  - intros Hx. apply in_app_or in Hx as [Hx|Hx].
    + destruct (A2 Hx) as (t & sq & f & I1 & I2 & I3). exists t, sq, f. split; [apply in_or_app; left; exact I1|]. split; assumption.
    + destruct (B2 Hx) as (t & sq & f & I1 & I2 & I3). exists t, sq, f. split; [apply in_or_app; right; exact I1|]. split; assumption.
Qed.

Lemma newok_one c R x : gt_cb_ok c R x = true -> x <> CbOnLogon -> NewOk c R [x].
Proof.
  intros Hok Hne. split.
  - intros y [<-|[]]. exact Hok.
  - intros [E|[]]. exfalso. apply Hne. exact E.
Qed.

Lemma newok_cons c R x l : gt_cb_ok c R x = true -> x <> CbOnLogon -> NewOk c R l -> NewOk c R (x :: l).
Proof. intros Hok Hne Hl. apply (newok_app c R [x] l); [apply newok_one; assumption | exact Hl]. Qed.

Lemma gate_weaken c R R' f : (R = true -> R' = true) -> gate_ok c R f = true -> gate_ok c R' f = true.
Proof.
  intros HR H. unfold gate_ok in *.
  apply andb_true_iff in H as [H Hv]. apply andb_true_iff in H as [H Ht].
  rewrite H, Hv, andb_true_r. cbn [andb].
  destruct R'; [reflexivity|]. destruct R; [specialize (HR eq_refl); discriminate|]. exact Ht.
Qed.

Lemma cb_ok_weaken c R R' x : (R = true -> R' = true) -> gt_cb_ok c R x = true -> gt_cb_ok c R' x = true.
Proof.
  intros HR H. destruct x; cbn [gt_cb_ok] in *; try reflexivity.
  - eapply gate_weaken; eassumption.
  - apply orb_true_iff in H as [H|H]; [rewrite H; reflexivity|].
    rewrite (gate_weaken c R R' f HR H). apply orb_true_r.
Qed.

Lemma newok_weaken c R R' l : (R = true -> R' = true) -> NewOk c R l -> NewOk c R' l.
Proof.
  intros HR [A1 A2]. split.
  - intros x Hx. eapply cb_ok_weaken; [exact HR | apply A1; exact Hx].
  - intros Hx. destruct (A2 Hx) as (t & sq & f & I1 & I2 & I3). exists t, sq, f. split; [exact I1|]. split; [exact I2|].
    eapply gate_weaken; eassumption.
Qed.

Definition gt_harmless (x : cb) : bool :=
  match x with CbToApp _ _ | CbToAdmin _ | CbOnLogout | CbStoreReset => true | _ => false end.
Lemma newok_harmless c R l : forallb gt_harmless l = true -> NewOk c R l.
Proof.
  induction l as [|x l IH]; intros H; [apply newok_nil|]. cbn [forallb] in H. apply andb_true_iff in H as [Hx Hl].
  apply newok_cons; [destruct x; try discriminate; reflexivity | destruct x; try discriminate; intro; discriminate | apply IH; exact Hl].
Qed.

(* the callback log grew by a good block *)
Definition Ext (c : cfg) (R : bool) (l l' : list cb) : Prop := exists new, l' = new ++ l /\ NewOk c R new.
Lemma ext_refl c R l : Ext c R l l.
Proof. exists []. split; [reflexivity | apply newok_nil]. Qed.
Lemma ext_trans c R l1 l2 l3 : Ext c R l1 l2 -> Ext c R l2 l3 -> Ext c R l1 l3.
Proof.
  intros (n1 & E1 & N1) (n2 & E2 & N2). exists (n2 ++ n1). split; [rewrite E2, E1, app_assoc; reflexivity|].
  apply newok_app; assumption.
Qed.

(* the closure relation: configuration and state kept, callback log extended by a good block *)
Definition K (s s' : sess) : Prop :=
  s_cfg s' = s_cfg s /\ s_st s' = s_st s /\ Ext (s_cfg s) (gt_rs (s_st s)) (s_cbs s) (s_cbs s').

Lemma k_refl s : K s s.
Proof. split; [reflexivity|]. split; [reflexivity | apply ext_refl]. Qed.
Lemma k_trans a b c : K a b -> K b c -> K a c.
Proof.
  intros (A1 & A2 & A3) (B1 & B2 & B3). split; [congruence|]. split; [congruence|].
  rewrite A1, A2 in B3. eapply ext_trans; eassumption.
Qed.

(* the checks of verifySelect, as the gate reads them *)
Lemma gate_from_checks s m :
  check_begin_string s m = None -> check_comp_id s m = None ->
  (match s_st s with SResend _ _ _ => None | _ => check_sending_time s m end) = None -> mi_valid m = VAccept ->
  gate_ok (s_cfg s) (gt_rs (s_st s)) (facts_of m) = true.
Proof.
  intros Hb Hc Ht Hv. unfold gate_ok, facts_of. cbn [mf_begin mf_sender mf_target mf_stime mf_valid]. rewrite Hv.
  unfold check_begin_string in Hb.
  destruct (beq_bytes (mi_begin m) (begin_string (c_begin (s_cfg s)))); [|discriminate]. cbn [andb].
  unfold check_comp_id in Hc.
  destruct (mi_sender m) as [sd|]; [|discriminate]. destruct (mi_target m) as [tg|]; [|discriminate].
  destruct (Nat.eqb (length tg) 0); [discriminate|]. destruct (Nat.eqb (length sd) 0); [discriminate|].
  destruct (beq_bytes (c_sender (s_cfg s)) tg && beq_bytes (c_target (s_cfg s)) sd); [|discriminate]. cbn [andb].
  rewrite andb_true_r.
  destruct (gt_rs (s_st s)) eqn:Er; [reflexivity|]. cbn [orb].
  assert (Ht' : check_sending_time s m = None) by (destruct (s_st s); try exact Ht; discriminate).
  unfold check_sending_time in Ht'. unfold hdr_time_ok.
  destruct (c_skip_latency (s_cfg s)); [reflexivity|]. cbn [orb].
  destruct (mi_stime m) as [| |d]; try discriminate.
  destruct ((c_max_latency (s_cfg s) <=? d) || (d <=? - c_max_latency (s_cfg s))) eqn:El; [discriminate|].
  apply orb_false_iff in El as [E1 E2]. apply Z.leb_gt in E1. apply Z.leb_gt in E2.
  apply andb_true_iff. split; apply Z.ltb_lt; lia.
Qed.

Lemma logon_is_admin t : beq_bytes t T_LOGON = true -> is_admin t = true.
Proof. intros H. unfold is_admin. rewrite H. rewrite orb_true_r. reflexivity. Qed.

Section Base.
Variable s0 : sess.
Ltac stepk := intros H; eapply k_trans; [exact H|]; split; [reflexivity|]; split; [reflexivity|]; apply ext_refl.
Lemma k_upd_to_send s q : K s0 s -> K s0 (upd_to_send s q). Proof. stepk. Qed.
Lemma k_upd_store s a b c : K s0 s -> K s0 (upd_store s a b c). Proof. stepk. Qed.
Lemma k_upd_logs_same s w : K s0 s -> K s0 (upd_logs s (s_cbs s) w). Proof. stepk. Qed.
Lemma k_set_sent_reset s b : K s0 s -> K s0 (set_sent_reset s b). Proof. stepk. Qed.
Lemma k_set_hb s h : K s0 s -> K s0 (set_hb s h). Proof. stepk. Qed.
Lemma k_log s x : gt_cb_ok (s_cfg s) (gt_rs (s_st s)) x = true -> x <> CbOnLogon -> K s0 s -> K s0 (log_cb s x).
Proof.
  intros Hok Hne H. eapply k_trans; [exact H|]. split; [reflexivity|]. split; [reflexivity|].
  exists [x]. split; [reflexivity|]. apply newok_one; assumption.
Qed.
Lemma k_reset s : K s0 s -> K s0 (store_reset s).
Proof. intros H. unfold store_reset. apply k_log; [reflexivity | discriminate | apply k_upd_store, H]. Qed.
Lemma k_incr s : K s0 s -> K s0 (incr_tgt s). Proof. unfold incr_tgt. apply k_upd_store. Qed.
Lemma k_set_tgt s n : K s0 s -> K s0 (set_tgt s n). Proof. unfold set_tgt. apply k_upd_store. Qed.
Lemma k_persist s m : K s0 s -> K s0 (persist s m).
Proof. intros H. unfold persist. destruct (c_disable_persist _); apply k_upd_store, H. Qed.
End Base.

(* syntax-directed composition; k_ext is extended layer by layer *)
Ltac k_ext := fail.
Ltac k_go :=
  lazymatch goal with
  | H : K ?a ?b |- K ?a ?b => exact H
  | |- K ?a ?a => apply k_refl
  | |- K _ (if ?x then _ else _) => destruct x eqn:?; k_go
  | |- K _ (match ?x with _ => _ end) => destruct x eqn:?; k_go
  | |- K _ (upd_to_send _ _) => apply k_upd_to_send; k_go
  | |- K _ (upd_store _ _ _ _) => apply k_upd_store; k_go
  | |- K _ (upd_logs ?s (s_cbs ?s) _) => apply k_upd_logs_same; k_go
  | |- K _ (log_cb _ _) => apply k_log; [reflexivity | discriminate | k_go]
  | |- K _ (store_reset _) => apply k_reset; k_go
  | |- K _ (incr_tgt _) => apply k_incr; k_go
  | |- K _ (set_tgt _ _) => apply k_set_tgt; k_go
  | |- K _ (set_sent_reset _ _) => apply k_set_sent_reset; k_go
  | |- K _ (set_hb _ _) => apply k_set_hb; k_go
  | |- K _ (persist _ _) => apply k_persist; k_go
  | _ => k_ext
  end.
Ltac k_pairlemma E := cbv zeta in E; brk_in E; inv E; brk_hyps; k_go.

Section L1.
Variable s0 : sess.
Lemma k_prep s t hdr body ir ok s1 r : prep s t hdr body ir ok = (s1, r) -> K s0 s -> K s0 s1.
Proof. intros E H. unfold prep in E. k_pairlemma E. Qed.
Lemma k_send_queued s : K s0 s -> K s0 (send_queued s).
Proof. intros H. unfold send_queued. k_go. Qed.
Lemma k_drop_queued s : K s0 s -> K s0 (drop_queued s).
Proof. intros H. unfold drop_queued. k_go. Qed.
Lemma k_enqueue s m : K s0 s -> K s0 (enqueue s m).
Proof. intros H. unfold enqueue. k_go. Qed.
End L1.
Ltac k_ext1 :=
  lazymatch goal with
  | |- K _ (send_queued _) => apply k_send_queued; k_go
  | |- K _ (drop_queued _) => apply k_drop_queued; k_go
  | |- K _ (enqueue _ _) => apply k_enqueue; k_go
  | |- K _ ?v => match goal with E : prep _ _ _ _ _ _ = (v, _) |- _ => eapply k_prep; [exact E | k_go] end
  end.
Ltac k_ext ::= k_ext1.

Section L2.
Variable s0 : sess.
Lemma k_queue_for_send s t hdr body ir ok : K s0 s -> K s0 (queue_for_send s t hdr body ir ok).
Proof. intros H. unfold queue_for_send. k_go. Qed.
Lemma k_enqueue_bytes s m : K s0 s -> K s0 (enqueue_bytes_and_send s m).
Proof. intros H. unfold enqueue_bytes_and_send. k_go. Qed.
Lemma k_drop_and_send s t body ir : K s0 s -> K s0 (drop_and_send_in_reply_to s t body ir).
Proof. intros H. unfold drop_and_send_in_reply_to. k_go. Qed.
Lemma k_drop_and_reset s : K s0 s -> K s0 (drop_and_reset s).
Proof. intros H. unfold drop_and_reset. k_go. Qed.
End L2.
Ltac k_ext2 :=
  lazymatch goal with
  | |- K _ (queue_for_send _ _ _ _ _ _) => apply k_queue_for_send; k_go
  | |- K _ (enqueue_bytes_and_send _ _) => apply k_enqueue_bytes; k_go
  | |- K _ (drop_and_send_in_reply_to _ _ _ _) => apply k_drop_and_send; k_go
  | |- K _ (drop_and_reset _) => apply k_drop_and_reset; k_go
  | _ => k_ext1
  end.
Ltac k_ext ::= k_ext2.

Section L3.
Variable s0 : sess.
Lemma k_send_in_reply_to s t hdr body ir : K s0 s -> K s0 (send_in_reply_to s t hdr body ir).
Proof. intros H. unfold send_in_reply_to. k_go. Qed.
Lemma k_send_logon s b ir : K s0 s -> K s0 (send_logon_in_reply_to s b ir).
Proof. intros H. unfold send_logon_in_reply_to. k_go. Qed.
Lemma k_generate_sequence_reset s b e ir : K s0 s -> K s0 (generate_sequence_reset s b e ir).
Proof. intros H. unfold generate_sequence_reset. k_go. Qed.
End L3.
Ltac k_ext3 :=
  lazymatch goal with
  | |- K _ (send_in_reply_to _ _ _ _ _) => apply k_send_in_reply_to; k_go
  | |- K _ (send_logon_in_reply_to _ _ _) => apply k_send_logon; k_go
  | |- K _ (generate_sequence_reset _ _ _ _) => apply k_generate_sequence_reset; k_go
  | _ => k_ext2
  end.
Ltac k_ext ::= k_ext3.

Section L4.
Variable s0 : sess.
Lemma k_send s t body : K s0 s -> K s0 (send s t body).
Proof. intros H. unfold send. k_go. Qed.
Lemma k_send_logout s ir : K s0 s -> K s0 (send_logout_in_reply_to s ir).
Proof. intros H. unfold send_logout_in_reply_to. k_go. Qed.
Lemma k_do_reject s m r : K s0 s -> K s0 (do_reject s m r).
Proof. intros H. unfold do_reject. k_go. Qed.
Lemma k_resend_loop : forall keys s ir a b s1 x y, resend_loop keys s ir a b = (s1, x, y) -> K s0 s -> K s0 s1.
Proof.
  induction keys as [|k r IH]; intros s ir a b s1 x y E H; cbn [resend_loop] in E.
  - inv E. exact H.
  - brk_in E; eapply IH; try exact E; k_go.
Qed.
End L4.
Ltac k_ext4 :=
  lazymatch goal with
  | |- K _ (send _ _ _) => apply k_send; k_go
  | |- K _ (send_logout_in_reply_to _ _) => apply k_send_logout; k_go
  | |- K _ (initiate_logout_in_reply_to _ _) => unfold initiate_logout_in_reply_to; apply k_send_logout; k_go
  | |- K _ (do_reject _ _ _) => apply k_do_reject; k_go
  | |- K _ ?v =>
      match goal with
      | E : prep _ _ _ _ _ _ = (v, _) |- _ => eapply k_prep; [exact E | k_go]
      | E : resend_loop _ _ _ _ _ = (v, _, _) |- _ => eapply k_resend_loop; [exact E | k_go]
      | _ => k_ext3
      end
  | _ => k_ext3
  end.
Ltac k_ext ::= k_ext4.

Section L5.
Variable s0 : sess.
Lemma k_send_resend_request s b e s1 st : send_resend_request s b e = (s1, st) -> K s0 s -> K s0 s1.
Proof. intros E H. unfold send_resend_request in E. k_pairlemma E. Qed.
Lemma k_resend_messages s b e ir : K s0 s -> K s0 (resend_messages s b e ir).
Proof. intros H. unfold resend_messages. k_go. Qed.
Lemma k_do_target_too_low s m s1 st : do_target_too_low s m = (s1, st) -> K s0 s -> K s0 s1.
Proof. intros E H. unfold do_target_too_low in E. k_pairlemma E. Qed.
Lemma k_shutdown_with_reason s m b s1 st : shutdown_with_reason s m b = (s1, st) -> K s0 s -> K s0 s1.
Proof. intros E H. unfold shutdown_with_reason in E. k_pairlemma E. Qed.
Lemma k_in_session_timeout s e s1 st : in_session_timeout s e = (s1, st) -> K s0 s -> K s0 s1.
Proof. intros E H. unfold in_session_timeout in E. k_pairlemma E. Qed.
End L5.
Ltac k_ext5 :=
  lazymatch goal with
  | |- K _ (resend_messages _ _ _ _) => apply k_resend_messages; k_go
  | |- K _ ?v =>
      match goal with
      | E : prep _ _ _ _ _ _ = (v, _) |- _ => eapply k_prep; [exact E | k_go]
      | E : resend_loop _ _ _ _ _ = (v, _, _) |- _ => eapply k_resend_loop; [exact E | k_go]
      | E : send_resend_request _ _ _ = (v, _) |- _ => eapply k_send_resend_request; [exact E | k_go]
      | E : do_target_too_high _ _ _ = (v, _) |- _ => unfold do_target_too_high in E; eapply k_send_resend_request; [exact E | k_go]
      | E : do_target_too_low _ _ = (v, _) |- _ => eapply k_do_target_too_low; [exact E | k_go]
      | E : shutdown_with_reason _ _ _ = (v, _) |- _ => eapply k_shutdown_with_reason; [exact E | k_go]
      | E : in_session_timeout _ _ = (v, _) |- _ => eapply k_in_session_timeout; [exact E | k_go]
      | _ => k_ext4
      end
  | _ => k_ext4
  end.
Ltac k_ext ::= k_ext5.

Section L6.
Variable s0 : sess.
Lemma k_verify_select s m a b c s1 r : verify_select s m a b c = (s1, r) -> K s0 s -> K s0 s1.
Proof.
  intros E H. unfold verify_select in E.
  destruct (check_begin_string s m) eqn:Eb; [inv E; exact H|].
  destruct (check_comp_id s m) eqn:Ec; [inv E; exact H|].
  destruct (match s_st s with SResend _ _ _ => None | _ => check_sending_time s m end) eqn:Et; [inv E; exact H|].
  destruct (if b then check_target_too_low s m else None); [inv E; exact H|].
  destruct (if a then check_target_too_high s m else None); [inv E; exact H|].
  destruct c; [|inv E; exact H].
  unfold verify_msg_against_app_impl in E.
  destruct (mi_valid m) eqn:Ev; cbn [rej_of_verdict] in E; try (inv E; exact H).
  pose proof (gate_from_checks s m Eb Ec Et Ev) as Hg.
  inv E. destruct (is_admin (mi_type m)); (apply k_log; [cbn [gt_cb_ok]; rewrite Hg; try apply orb_true_r; reflexivity | discriminate | exact H]).
Qed.
(* verification without the application check changes nothing and, when it succeeds, the header checks passed *)
Lemma verify_select_noapp s m a b s1 r : verify_select s m a b false = (s1, r) ->
  s1 = s /\ (r = None -> check_begin_string s m = None /\ check_comp_id s m = None
                       /\ (match s_st s with SResend _ _ _ => None | _ => check_sending_time s m end) = None).
Proof.
  intros E. unfold verify_select in E.
  destruct (check_begin_string s m) eqn:Eb; [inv E; split; [reflexivity | discriminate]|].
  destruct (check_comp_id s m) eqn:Ec; [inv E; split; [reflexivity | discriminate]|].
  destruct (match s_st s with SResend _ _ _ => None | _ => check_sending_time s m end) eqn:Et; [inv E; split; [reflexivity | discriminate]|].
  destruct (if b then check_target_too_low s m else None); [inv E; split; [reflexivity | discriminate]|].
  destruct (if a then check_target_too_high s m else None); inv E; (split; [reflexivity|]); try discriminate.
  intros _. auto.
Qed.
Lemma k_process_reject s m r s1 st : process_reject s m r = (s1, st) -> K s0 s -> K s0 s1.
Proof. intros E H. unfold process_reject in E. k_pairlemma E. Qed.
End L6.
Ltac k_ext6 :=
  lazymatch goal with
  | |- K _ ?v =>
      match goal with
      | E : verify_select _ _ _ _ _ = (v, _) |- _ => eapply k_verify_select; [exact E | k_go]
      | E : process_reject _ _ _ = (v, _) |- _ => eapply k_process_reject; [exact E | k_go]
      | _ => k_ext5
      end
  | _ => k_ext5
  end.
Ltac k_ext ::= k_ext6.

Section L7.
Variable s0 : sess.
(* OnLogon after the FromAdmin of the Logon whose header passed *)
Lemma k_onlogon s sa s4 t sq f :
  K s0 s -> sa = log_cb s (CbFromAdmin t sq f) -> beq_bytes t T_LOGON = true ->
  gate_ok (s_cfg s0) (gt_rs (s_st s0)) f = true -> K sa s4 -> K s0 (log_cb s4 CbOnLogon).
Proof.
  intros (A1 & A2 & n0 & E0 & N0) Esa Ht Hg (B1 & B2 & n4 & E4 & N4). subst sa.
  cbn [log_cb upd_logs s_cfg s_st s_cbs] in B1, B2, E4, N4.
  split; [cbn; congruence|]. split; [cbn; congruence|].
  exists (CbOnLogon :: n4 ++ CbFromAdmin t sq f :: n0). split.
  - cbn [log_cb upd_logs s_cbs]. rewrite E4, E0. cbn [app]. rewrite <- app_assoc. reflexivity.
  - rewrite A1, A2 in N4. split.
    + intros x [<-|Hx]; [reflexivity|]. apply in_app_or in Hx as [Hx|[<-|Hx]].
      * apply (proj1 N4); exact Hx.
      * cbn [gt_cb_ok]. rewrite Ht. reflexivity.
      * apply (proj1 N0); exact Hx.
    + intros _. exists t, sq, f. split; [right; apply in_or_app; right; left; reflexivity|]. split; assumption.
Qed.
Lemma k_handle_logon s m s1 r : beq_bytes (mi_type m) T_LOGON = true -> handle_logon s m = (s1, r) -> K s0 s -> K s0 s1.
Proof.
  intros Ht E H. unfold handle_logon in E.
  match type of E with (match ?x with Some _ => _ | None => _ end) = _ => destruct x; [inv E; exact H|] end.
  unfold verify_msg_against_app_impl in E. rewrite (logon_is_admin _ Ht) in E.
  destruct (mi_valid m) eqn:Ev; cbn [rej_of_verdict] in E; try (inv E; exact H).
  set (sa := log_cb s (CbFromAdmin (mi_type m) (mi_seq m) (facts_of m))) in E.
  assert (Ha : K s0 sa) by (apply k_log; [cbn [gt_cb_ok]; rewrite Ht; reflexivity | discriminate | exact H]).
  destruct (rej_of_verdict (mi_app m)); [inv E; exact Ha|].
  cbv zeta in E.
  match type of E with context [verify_select ?x m false true false] =>
    set (s2 := x) in E; destruct (verify_select s2 m false true false) as [s3 r3] eqn:E3 end.
  assert (H2 : K sa s2) by (subst s2; k_go).
  destruct (verify_select_noapp _ _ _ _ _ _ E3) as [-> Hchk].
  destruct r3 as [r3|]; [inv E; eapply k_trans; eassumption|].
  destruct (Hchk eq_refl) as (Cb & Cc & Ct).
  pose proof (gate_from_checks s2 m Cb Cc Ct Ev) as Hg.
  assert (Ecfg : s_cfg s2 = s_cfg s0) by (destruct H2 as (X1 & _); destruct Ha as (Y1 & _); congruence).
  assert (Est : s_st s2 = s_st s0) by (destruct H2 as (_ & X2 & _); destruct Ha as (_ & Y2 & _); congruence).
  rewrite Ecfg, Est in Hg.
  match type of E with context [log_cb (set_sent_reset ?x false) CbOnLogon] => set (s4 := x) in E end.
  assert (H4 : K sa (set_sent_reset s4 false)) by (apply k_set_sent_reset; subst s4; k_go).
  pose proof (k_onlogon s sa _ _ _ _ H eq_refl Ht Hg H4) as H5.
  destruct (check_target_too_high _ m); inv E; [exact H5 | apply k_incr; exact H5].
Qed.
Lemma k_handle_logout s m s1 st : handle_logout s m = (s1, st) -> K s0 s -> K s0 s1.
Proof. intros E H. unfold handle_logout in E. k_pairlemma E. Qed.
Lemma k_handle_test_request s m s1 st : handle_test_request s m = (s1, st) -> K s0 s -> K s0 s1.
Proof. intros E H. unfold handle_test_request, verify in E. k_pairlemma E. Qed.
Lemma k_handle_sequence_reset s m s1 st : handle_sequence_reset s m = (s1, st) -> K s0 s -> K s0 s1.
Proof. intros E H. unfold handle_sequence_reset in E. k_pairlemma E. Qed.
Lemma k_handle_resend_request s m s1 st : handle_resend_request s m = (s1, st) -> K s0 s -> K s0 s1.
Proof. intros E H. unfold handle_resend_request in E. k_pairlemma E. Qed.
End L7.
Ltac k_ext7 :=
  lazymatch goal with
  | |- K _ ?v =>
      match goal with
      | E : handle_logon _ _ = (v, _) |- _ =>
          eapply k_handle_logon; [ | exact E | k_go]; first [assumption | apply negb_false_iff; assumption]
      | E : handle_logout _ _ = (v, _) |- _ => eapply k_handle_logout; [exact E | k_go]
      | E : handle_test_request _ _ = (v, _) |- _ => eapply k_handle_test_request; [exact E | k_go]
      | E : handle_sequence_reset _ _ = (v, _) |- _ => eapply k_handle_sequence_reset; [exact E | k_go]
      | E : handle_resend_request _ _ = (v, _) |- _ => eapply k_handle_resend_request; [exact E | k_go]
      | _ => k_ext6
      end
  | _ => k_ext6
  end.
Ltac k_ext ::= k_ext7.

Section L8.
Variable s0 : sess.
Lemma k_in_session_fix_msg_in s m s1 st : in_session_fix_msg_in s m = (s1, st) -> K s0 s -> K s0 s1.
Proof. intros E H. unfold in_session_fix_msg_in, verify in E. k_pairlemma E. Qed.
Lemma k_logon_state s m s1 st : logon_state_fix_msg_in s m = (s1, st) -> K s0 s -> K s0 s1.
Proof. intros E H. unfold logon_state_fix_msg_in in E. k_pairlemma E. Qed.
End L8.

Section L9.
Variable s0 : sess.
Lemma k_logout_state s m s1 st : logout_state_fix_msg_in s m = (s1, st) -> K s0 s -> K s0 s1.
Proof.
  intros E H. unfold logout_state_fix_msg_in in E.
  destruct (in_session_fix_msg_in s m) as [s2 st2] eqn:E2.
  assert (K s0 s2) by (eapply k_in_session_fix_msg_in; eassumption). destruct st2; inv E; assumption.
Qed.
Lemma k_resend_drain : forall fuel s stash next s1 stash1 next1 still,
  resend_drain fuel s stash next = (s1, stash1, next1, still) -> K s0 s -> K s0 s1.
Proof.
  induction fuel as [|f IH]; intros s stash next s1 stash1 next1 still E H; cbn [resend_drain] in E.
  - inv E. exact H.
  - destruct (stash_take (s_tgt s) stash) as [[m stash']|]; [|inv E; exact H].
    destruct (in_session_fix_msg_in s m) as [s2 n2] eqn:E2.
    assert (H2 : K s0 s2) by (eapply k_in_session_fix_msg_in; eassumption).
    destruct (negb (is_logged_on n2)); [inv E; exact H2|]. eapply IH; eassumption.
Qed.
Lemma k_resend_state s stash c e m s1 st : resend_state_fix_msg_in s stash c e m = (s1, st) -> K s0 s -> K s0 s1.
Proof.
  intros E H. unfold resend_state_fix_msg_in in E.
  destruct (in_session_fix_msg_in s m) as [s2 n2] eqn:E2.
  assert (H2 : K s0 s2) by (eapply k_in_session_fix_msg_in; eassumption).
  destruct (negb (is_logged_on n2)); [inv E; exact H2|].
  match type of E with context [resend_drain ?f ?a ?b ?c] => destruct (resend_drain f a b c) as [[[s3 l3] n3] still] eqn:E3 end.
  assert (H3 : K s0 s3) by (eapply k_resend_drain; eassumption).
  destruct (negb still); [inv E; exact H3|].
  brk_in E; inv E; try exact H3; eapply k_send_resend_request; eassumption.
Qed.
Lemma k_state_fix_msg_in : forall st s m s1 st1, state_fix_msg_in st s m = (s1, st1) -> K s0 s -> K s0 s1.
Proof.
  induction st as [| | | | | stash c e | i IH]; intros s m s1 st1 E H; cbn [state_fix_msg_in] in E.
  - inv E; exact H.
  - inv E; exact H.
  - eapply k_logon_state; eassumption.
  - eapply k_logout_state; eassumption.
  - eapply k_in_session_fix_msg_in; eassumption.
  - eapply k_resend_state; eassumption.
  - eapply IH; eassumption.
Qed.
Lemma k_state_timeout st s e s1 st1 : state_timeout st s e = (s1, st1) -> K s0 s -> K s0 s1.
Proof.
  intros E H. unfold state_timeout in E.
  destruct st; try (brk_in E; inv E; exact H).
  - eapply k_in_session_timeout; eassumption.
  - destruct (in_session_timeout s e) as [s2 st2] eqn:E2.
    assert (K s0 s2) by (eapply k_in_session_timeout; eassumption). brk_in E; inv E; assumption.
Qed.
Lemma k_state_stop : forall st s s1 st1, state_stop st s = (s1, st1) -> K s0 s -> K s0 s1.
Proof.
  induction st as [| | | | | stash c e | i IH]; intros s s1 st1 E H; cbn [state_stop] in E; try (inv E; k_go).
  eapply IH; eassumption.
Qed.
End L9.

(* ====================================================================================================== *)
(* ---------- one message: everything logged while it is processed passes the gate of the state it is processed in ---------- *)
Theorem gate_one_message : forall st s m s1 next,
  state_fix_msg_in st s m = (s1, next) -> K s s1.
Proof. intros st s m s1 next E. eapply k_state_fix_msg_in; [exact E | apply k_refl]. Qed.

Lemma set_state_st dr s next : s_st (set_state_with dr s next) = next.
Proof. unfold set_state_with. destruct (negb (is_connected next)); reflexivity. Qed.

(* ---------- (a) events that drain at most one frame ---------- *)
(* what the disconnect itself logs once the buffered frames are handled: notifications only *)
Lemma disconnect_now_cbs s0 :
  exists new, s_cbs (disconnect_now s0) = new ++ s_cbs s0 /\ forallb gt_harmless new = true.
Proof.
  unfold disconnect_now. cbn [upd_chan s_cbs].
  match goal with |- context [if ?b then log_cb s0 CbOnLogout else s0] => destruct b end;
    match goal with |- context [if c_reset_on_disconnect ?x then _ else _] => destruct (c_reset_on_disconnect x) end;
    match goal with |- context [if s_out_open ?x then _ else _] => destruct (s_out_open x) end;
    first [ exists [CbStoreReset; CbOnLogout]; split; reflexivity | exists [CbOnLogout]; split; reflexivity
          | exists [CbStoreReset]; split; reflexivity | exists []; split; reflexivity ].
Qed.

(* handleDisconnectState / setState extend the log by a good block whenever the drain does *)
Lemma hd_ext dr s c R : Ext c R (s_cbs s) (s_cbs (dr s)) -> Ext c R (s_cbs s) (s_cbs (handle_disconnect_state dr s)).
Proof.
  intros H. rewrite hd_unfold. destruct (is_connected (s_st s) && negb (is_connected (s_st (dr s)))); [exact H|].
  eapply ext_trans; [exact H|]. destruct (disconnect_now_cbs (dr s)) as (new & E & Hh).
  exists new. split; [exact E | apply newok_harmless; exact Hh].
Qed.

Lemma set_state_with_ext dr s next c R : Ext c R (s_cbs s) (s_cbs (dr s)) -> Ext c R (s_cbs s) (s_cbs (set_state_with dr s next)).
Proof.
  intros H. unfold set_state_with. destruct (negb (is_connected next)); [|apply ext_refl].
  destruct (is_connected (s_st s)).
  - pose proof (hd_ext dr s c R H) as H1. destruct (s_pending_stop (handle_disconnect_state dr s)); exact H1.
  - destruct (s_pending_stop s); apply ext_refl.
Qed.

(* a drain of at most ONE buffered frame: the frame is handled in the state the session is still in *)
Lemma drain_fuel_nil f s : s_in_buf s = [] -> drain_message_in f s = s.
Proof. intros H. destruct f; cbn [drain_message_in]; [reflexivity|]. destruct (negb (s_in_open s)); [reflexivity|]. rewrite H. reflexivity. Qed.

Lemma set_state_with_buf dr s next : dr s = s -> s_in_buf s = [] -> s_in_buf (set_state_with dr s next) = [].
Proof.
  intros Hdr Hb. unfold set_state_with. destruct (negb (is_connected next)); [|exact Hb].
  destruct (is_connected (s_st s)) eqn:Ec.
  - rewrite hd_unfold, Hdr, Ec. cbn [negb andb]. destruct (s_pending_stop (disconnect_now s)); reflexivity.
  - destruct (s_pending_stop s); exact Hb.
Qed.

Lemma incoming_with_one dr s m : (forall x, s_in_buf x = [] -> dr x = x) -> s_in_buf s = [] ->
  Ext (s_cfg s) (gt_rs (s_st s)) (s_cbs s) (s_cbs (incoming_with dr s m)) /\ s_in_buf (incoming_with dr s m) = [].
Proof.
  intros Hdr Hb. unfold incoming_with. destruct (negb (is_connected (s_st s))); [split; [apply ext_refl | exact Hb]|].
  destruct m as [mm|]; [|split; [apply ext_refl | exact Hb]].
  destruct (state_fix_msg_in (s_st s) s mm) as [s1 next] eqn:E.
  destruct (gate_one_message _ _ _ _ _ E) as (_ & _ & HK).
  destruct (fr_state_fix_msg_in s _ _ _ _ _ E (same_refl s)) as (_ & _ & Hbuf & _).
  assert (Hb1 : s_in_buf s1 = []) by (rewrite Hbuf; exact Hb).
  pose proof (Hdr s1 Hb1) as Hd1. split.
  - eapply ext_trans; [exact HK|]. apply set_state_with_ext. rewrite Hd1. apply ext_refl.
  - apply set_state_with_buf; assumption.
Qed.

Lemma drain_S f s : drain_message_in (S f) s =
  if negb (s_in_open s) then s else
  match s_in_buf s with
  | [] => s
  | m :: r => drain_message_in f (incoming_with (drain_message_in f) (upd_chan s (s_out_open s) (s_in_open s) r (s_closed s)) m)
  end.
Proof. reflexivity. Qed.

Lemma drain_one_ext s : (length (s_in_buf s) <= 1)%nat -> Ext (s_cfg s) (gt_rs (s_st s)) (s_cbs s) (s_cbs (drain s)).
Proof.
  intros Hl. destruct (s_in_buf s) as [|m [|m' r]] eqn:Eb; [rewrite (drain_nil s Eb); apply ext_refl | | cbn in Hl; lia].
  unfold drain. rewrite Eb. cbn [length]. rewrite drain_S. destruct (negb (s_in_open s)); [apply ext_refl|]. rewrite Eb.
  set (s0 := upd_chan s (s_out_open s) (s_in_open s) [] (s_closed s)).
  destruct (incoming_with_one (drain_message_in 1) s0 m (fun x Hx => drain_fuel_nil 1 x Hx) eq_refl) as [E1 E2].
  rewrite (drain_fuel_nil 1 _ E2). exact E1.
Qed.

(* after a handler (closure K, frame Same): the state change adds the callbacks of at most one drained frame, handled in
   the same state, and notifications *)
Lemma set_state_after s s1 next : K s s1 -> Same s s1 ->
  (is_connected (s_st (set_state s1 next)) = true \/ (length (s_in_buf s) <= 1)%nat) ->
  Ext (s_cfg s) (gt_rs (s_st s)) (s_cbs s) (s_cbs (set_state s1 next)).
Proof.
  intros (K1 & K2 & HK) (_ & _ & Hbuf & _) H.
  eapply ext_trans; [exact HK|]. unfold set_state in *. rewrite set_state_st in H. destruct H as [H|H].
  - unfold set_state_with. rewrite H. apply ext_refl.
  - apply set_state_with_ext. rewrite <- K1, <- K2. apply drain_one_ext. rewrite Hbuf. exact H.
Qed.

Lemma incoming_nodrain s m :
  (is_connected (s_st (incoming s m)) = true \/ (length (s_in_buf s) <= 1)%nat) ->
  Ext (s_cfg s) (gt_rs (s_st s)) (s_cbs s) (s_cbs (incoming s m)).
Proof.
  unfold incoming, incoming_with. destruct (negb (is_connected (s_st s))); [intros _; apply ext_refl|].
  destruct m as [mm|]; [|intros _; apply ext_refl].
  destruct (state_fix_msg_in (s_st s) s mm) as [s1 next] eqn:E. intros H.
  apply set_state_after; [eapply gate_one_message; exact E | eapply fr_state_fix_msg_in; [exact E | apply same_refl] | exact H].
Qed.

(* how many frames may be buffered before the event: one may be drained; EDeliver takes one out first *)
Definition gt_quota (e : event) : nat := match e with EDeliver => 2%nat | _ => 1%nat end.

Lemma step_event_nodrain : forall s e,
  (is_connected (s_st (step_event s e)) = true \/ (length (s_in_buf s) <= gt_quota e)%nat) ->
  Ext (s_cfg s) (gt_rs (s_st s)) (s_cbs s) (s_cbs (step_event s e)).
Proof.
  intros s e H.
  assert (Hk : forall x, K s x -> Ext (s_cfg s) (gt_rs (s_st s)) (s_cbs s) (s_cbs x)) by (intros x (_ & _ & X); exact X).
  destruct e; cbn [step_event gt_quota] in *.
  - (* connect *) unfold connect in *. destruct (is_connected (s_st s)); [apply ext_refl|].
    match goal with |- context [set_sent_reset ?x false] => set (c0 := set_sent_reset x false) in * end.
    assert (Hc0 : K s c0) by (split; [reflexivity|]; split; [reflexivity|]; apply ext_refl).
    assert (Hfin : forall x, K s x -> Ext (s_cfg s) (gt_rs (s_st s)) (s_cbs s) (s_cbs (set_state x SLogon))).
    { intros x Hx. eapply ext_trans; [apply Hk; exact Hx|]. unfold set_state, set_state_with. apply ext_refl. }
    destruct (negb (initiator c0)); apply Hfin; [exact Hc0|]. k_go.
  - (* arrive *) destruct (_ && _); apply ext_refl.
  - (* deliver *) destruct (negb (s_in_open s)); [apply ext_refl|]. destruct (s_in_buf s) as [|m0 r] eqn:Eb; [apply ext_refl|].
    set (c1 := upd_chan s (s_out_open s) (s_in_open s) r (s_closed s)) in *.
    change (Ext (s_cfg c1) (gt_rs (s_st c1)) (s_cbs c1) (s_cbs (incoming c1 m0))).
    apply incoming_nodrain. destruct H as [H|H]; [left; exact H|]. right. cbn [length] in H.
    change (s_in_buf c1) with r. lia.
  - (* incoming *) apply incoming_nodrain. exact H.
  - (* garbage *) apply incoming_nodrain. exact H.
  - (* inclosed *) destruct (is_connected (s_st s)); [|apply ext_refl].
    apply set_state_after; [apply k_refl | apply same_refl | exact H].
  - (* timeout *) destruct (state_timeout (s_st s) s e) as [s1 next] eqn:E.
    apply set_state_after; [eapply k_state_timeout; [exact E | apply k_refl] | eapply fr_state_timeout; [exact E | apply same_refl] | exact H].
  - (* app send *) apply Hk. k_go.
  - (* flush *) apply Hk. k_go.
  - (* stop *)
    set (c0 := upd_flags s (s_sent_reset s) (s_hb s) true (s_stopped s)) in *.
    destruct (state_stop (s_st c0) c0) as [s1 next] eqn:E.
    change (Ext (s_cfg c0) (gt_rs (s_st c0)) (s_cbs c0) (s_cbs (set_state s1 next))).
    apply set_state_after; [eapply k_state_stop; [exact E | apply k_refl] | eapply fr_state_stop; [exact E | apply same_refl] | exact H].
  - (* reset time *) apply Hk. k_go.
Qed.

Theorem step_nodrain : forall s e,
  (is_connected (s_st (step s e)) = true \/ (length (s_in_buf s) <= gt_quota e)%nat) ->
  NewOk (s_cfg s) (gt_rs (s_st s)) (s_cbs (step s e)).
Proof.
  intros s e H. unfold step in *.
  destruct (step_event_nodrain (clear_logs s) e H) as (new & E & N).
  change (s_cbs (clear_logs s)) with (@nil cb) in E. rewrite app_nil_r in E. rewrite E. exact N.
Qed.

(* ---------- (b) every event, drains included: the gate without the SendingTime clause ---------- *)
Definition W (s s' : sess) : Prop := s_cfg s' = s_cfg s /\ Ext (s_cfg s) true (s_cbs s) (s_cbs s').
Lemma w_refl s : W s s.
Proof. split; [reflexivity | apply ext_refl]. Qed.
Lemma w_trans a b c : W a b -> W b c -> W a c.
Proof. intros (A1 & A2) (B1 & B2). split; [congruence|]. rewrite A1 in B2. eapply ext_trans; eassumption. Qed.
Lemma k_w a b : K a b -> W a b.
Proof.
  intros (A1 & _ & new & E & N). split; [exact A1|]. exists new. split; [exact E|].
  eapply newok_weaken; [|exact N]. intros _; reflexivity.
Qed.

Lemma disconnect_now_w s : W s (disconnect_now s).
Proof.
  unfold disconnect_now.
  match goal with |- W s (upd_chan ?x _ _ _ _) => set (s3 := x) end.
  assert (H3 : W s s3).
  { subst s3.
    match goal with |- W s (if ?b then upd_chan ?y _ _ _ _ else _) =>
      assert (Hy : K s y) by k_go; apply k_w in Hy; destruct b; exact Hy end. }
  exact H3.
Qed.

Lemma hd_w dr s : (forall x, W x (dr x)) -> W s (handle_disconnect_state dr s).
Proof.
  intros Hdr. rewrite hd_unfold. destruct (is_connected (s_st s) && negb (is_connected (s_st (dr s)))); [apply Hdr|].
  eapply w_trans; [apply Hdr | apply disconnect_now_w].
Qed.

Lemma set_state_w dr s next : (forall x, W x (dr x)) -> W s (set_state_with dr s next).
Proof.
  intros Hdr. unfold set_state_with. destruct (negb (is_connected next)); [|split; [reflexivity | apply ext_refl]].
  destruct (is_connected (s_st s)).
  - pose proof (hd_w dr s Hdr) as H. destruct (s_pending_stop _); exact H.
  - destruct (s_pending_stop s); (split; [reflexivity | apply ext_refl]).
Qed.

Lemma incoming_w dr s m : (forall x, W x (dr x)) -> W s (incoming_with dr s m).
Proof.
  intros Hdr. unfold incoming_with. destruct (negb (is_connected (s_st s))); [apply w_refl|].
  destruct m as [mm|]; [|apply w_refl].
  destruct (state_fix_msg_in (s_st s) s mm) as [s1 next] eqn:E.
  eapply w_trans; [apply k_w; eapply gate_one_message; exact E|]. apply set_state_w; exact Hdr.
Qed.

Lemma drain_w : forall fuel s, W s (drain_message_in fuel s).
Proof.
  induction fuel as [|f IH]; intros s; cbn [drain_message_in]; [apply w_refl|].
  destruct (negb (s_in_open s)); [apply w_refl|]. destruct (s_in_buf s) as [|m r]; [apply w_refl|].
  set (c1 := upd_chan s (s_out_open s) (s_in_open s) r (s_closed s)).
  assert (H1 : W s c1) by (split; [reflexivity | apply ext_refl]).
  eapply w_trans; [exact H1|]. eapply w_trans; [apply incoming_w; exact IH | apply IH].
Qed.

Lemma step_event_w : forall s e, W s (step_event s e).
Proof.
  intros s e.
  assert (Hdr : forall x, W x (drain x)) by (intros x; apply drain_w).
  assert (Hss : forall x next, W s x -> W s (set_state x next)).
  { intros x next Hx. eapply w_trans; [exact Hx|]. apply set_state_w; exact Hdr. }
  destruct e; cbn [step_event].
  - unfold connect. destruct (is_connected (s_st s)); [apply w_refl|].
    match goal with |- context [set_sent_reset ?x false] => set (c0 := set_sent_reset x false) end.
    assert (Hc0 : K s c0) by (split; [reflexivity|]; split; [reflexivity|]; apply ext_refl).
    destruct (negb (initiator c0)); apply Hss; apply k_w; [exact Hc0|]. k_go.
  - destruct (_ && _); [split; [reflexivity | apply ext_refl] | apply w_refl].
  - destruct (negb (s_in_open s)); [apply w_refl|]. destruct (s_in_buf s) as [|m0 r]; [apply w_refl|].
    set (c1 := upd_chan s (s_out_open s) (s_in_open s) r (s_closed s)).
    assert (H1 : W s c1) by (split; [reflexivity | apply ext_refl]).
    eapply w_trans; [exact H1|]. apply incoming_w; exact Hdr.
  - apply incoming_w; exact Hdr.
  - apply incoming_w; exact Hdr.
  - destruct (is_connected (s_st s)); [apply Hss|]; apply w_refl.
  - destruct (state_timeout (s_st s) s e) as [s1 next] eqn:E. apply Hss. apply k_w.
    eapply k_state_timeout; [exact E | apply k_refl].
  - apply k_w. k_go.
  - apply k_w. k_go.
  - set (c0 := upd_flags s (s_sent_reset s) (s_hb s) true (s_stopped s)).
    destruct (state_stop (s_st c0) c0) as [s1 next] eqn:E.
    assert (H0 : W s c0) by (split; [reflexivity | apply ext_refl]).
    apply Hss. eapply w_trans; [exact H0|]. apply k_w. eapply k_state_stop; [exact E | apply k_refl].
  - apply k_w. k_go.
Qed.

Theorem step_gate_noclock : forall s e, NewOk (s_cfg s) true (s_cbs (step s e)).
Proof.
  intros s e. unfold step. destruct (step_event_w (clear_logs s) e) as (_ & new & E & N).
  change (s_cbs (clear_logs s)) with (@nil cb) in E. rewrite app_nil_r in E. rewrite E. exact N.
Qed.

(* the same, spelled out callback by callback *)
Theorem gate_step_callbacks : forall s e,
  (is_connected (s_st (step s e)) = true \/ (length (s_in_buf s) <= gt_quota e)%nat) ->
  (forall sq tg v f, In (CbFromApp sq tg v f) (s_cbs (step s e)) -> gate_ok (s_cfg s) (gt_rs (s_st s)) f = true)
  /\ (forall t sq f, In (CbFromAdmin t sq f) (s_cbs (step s e)) -> beq_bytes t T_LOGON = false ->
        gate_ok (s_cfg s) (gt_rs (s_st s)) f = true)
  /\ (In CbOnLogon (s_cbs (step s e)) ->
        exists t sq f, In (CbFromAdmin t sq f) (s_cbs (step s e)) /\ beq_bytes t T_LOGON = true
                       /\ gate_ok (s_cfg s) (gt_rs (s_st s)) f = true).
Proof.
  intros s e H. destruct (step_nodrain s e H) as [N1 N2]. split; [|split].
  - intros sq tg v f Hin. exact (N1 _ Hin).
  - intros t sq f Hin Ht. pose proof (N1 _ Hin) as Hx. cbn [gt_cb_ok] in Hx. rewrite Ht in Hx. exact Hx.
  - exact N2.
Qed.

Theorem gate_step_callbacks_noclock : forall s e,
  (forall sq tg v f, In (CbFromApp sq tg v f) (s_cbs (step s e)) -> gate_ok (s_cfg s) true f = true)
  /\ (forall t sq f, In (CbFromAdmin t sq f) (s_cbs (step s e)) -> beq_bytes t T_LOGON = false -> gate_ok (s_cfg s) true f = true)
  /\ (In CbOnLogon (s_cbs (step s e)) ->
        exists t sq f, In (CbFromAdmin t sq f) (s_cbs (step s e)) /\ beq_bytes t T_LOGON = true /\ gate_ok (s_cfg s) true f = true).
Proof.
  intros s e. destruct (step_gate_noclock s e) as [N1 N2]. split; [|split].
  - intros sq tg v f Hin. exact (N1 _ Hin).
  - intros t sq f Hin Ht. pose proof (N1 _ Hin) as Hx. cbn [gt_cb_ok] in Hx. rewrite Ht in Hx. exact Hx.
  - exact N2.
Qed.

(* ====================================================================================================== *)
(* ---------- observation level: the clauses 601 / 604 of c06_check ---------- *)
Lemma gate_cbs_mono c R R' l : (R = true -> R' = true) -> c06_gate_cbs c R l = true -> c06_gate_cbs c R' l = true.
Proof.
  intros HR H. unfold c06_gate_cbs in *. rewrite forallb_forall in *. intros x Hx. specialize (H x Hx).
  exact (cb_ok_weaken c R R' x HR H).
Qed.

Lemma logon_gate_mono c R R' l : (R = true -> R' = true) -> c06_logon_gate c R l = true -> c06_logon_gate c R' l = true.
Proof.
  intros HR H. unfold c06_logon_gate in *. destruct (existsb _ l); [|reflexivity].
  destruct (filter _ l) as [|y [|z r]]; try reflexivity; destruct y; try reflexivity.
  eapply gate_weaken; eassumption.
Qed.

Lemma newok_gate c R ctx l : NewOk c R l -> (R = true -> ctx = true) ->
  c06_gate_cbs c ctx (rev l) = true /\ c06_logon_gate c ctx (rev l) = true.
Proof.
  intros N HR. apply (newok_weaken c R ctx) in N; [|exact HR]. destruct N as [N1 N2]. split.
  - unfold c06_gate_cbs. apply forallb_forall. intros x Hx. rewrite <- in_rev in Hx. exact (N1 x Hx).
  - unfold c06_logon_gate.
    destruct (existsb (fun x => match x with CbOnLogon => true | _ => false end) (rev l)) eqn:Ex; [|reflexivity].
    apply existsb_exists in Ex as (x & Hx & Hxl). destruct x; try discriminate. rewrite <- in_rev in Hx.
    destruct (N2 Hx) as (t & sq & f & I1 & I2 & I3).
    match goal with |- context [filter ?p (rev l)] =>
      assert (Hin : In (CbFromAdmin t sq f) (filter p (rev l))) by (apply filter_In; split; [rewrite <- in_rev; exact I1 | exact I2]);
      destruct (filter p (rev l)) as [|y [|z r]] end; try reflexivity; destruct y; try reflexivity.
    destruct Hin as [E|[]]. inversion E; subst. exact I3.
Qed.

Definition c06_event (c : cfg) (i : nat) (prev : obs) (e : event) (o : obs) : list failure := c06_scan c i prev [(e, o)].

Lemma c06_scan_cons c i prev e o r :
  c06_scan c i prev ((e, o) :: r) = c06_event c i prev e o ++ c06_scan c (S i) o r.
Proof. unfold c06_event. cbn [c06_scan]. rewrite !app_nil_r, <- !app_assoc. reflexivity. Qed.

Ltac gate_free_rest :=
  repeat match goal with
         | |- free_of _ (_ ++ _) = true => rewrite free_of_app; apply andb_true_iff; split
         | |- free_of _ (match ?x with _ => _ end) = true => destruct x
         | |- free_of _ (if ?x then _ else _) = true => destruct x
         end; try reflexivity.

Lemma gt_sh_connected st : sh_connected (shape_of st) = is_connected st.
Proof. induction st; cbn; auto. Qed.
Lemma gt_rs_shape st : gt_rs st = true -> sh_is_resend (shape_of st) = true.
Proof. destruct st; cbn; intros H; try discriminate; reflexivity. Qed.

(* Spec.no_drain in terms of the model: the event drains at most one frame *)
Lemma no_drain_step s e : no_drain e (obs_of s) (obs_of (step s e)) = true ->
  is_connected (s_st (step s e)) = true \/ (length (s_in_buf s) <= gt_quota e)%nat.
Proof.
  unfold no_drain. cbn [obs_of ob_st ob_inbuf]. rewrite gt_sh_connected. intros H.
  apply orb_true_iff in H as [H|H]; [left; exact H | right]. apply Z.leb_le in H. destruct e; cbn [gt_quota]; lia.
Qed.

(* one event of a model trace, ANY event: clauses 601 / 604 hold.  If the event drains at most one frame, everything is
   handled in the state before it (step_nodrain); otherwise c06_scan demands the clock-free gate only (step_gate_noclock). *)
Lemma c06_event_gate_ok : forall i s e,
  free_of [601; 604] (c06_event (s_cfg s) i (obs_of s) e (obs_of (step s e))) = true.
Proof.
  intros i s e. unfold c06_event. cbn [c06_scan].
  change (ob_cbs (obs_of (step s e))) with (rev (s_cbs (step s e))).
  destruct (no_drain e (obs_of s) (obs_of (step s e))) eqn:Hnd.
  - pose proof (step_nodrain s e (no_drain_step s e Hnd)) as N.
    match goal with |- context [c06_gate_cbs _ ?x _] => set (ctx := x) end.
    destruct (newok_gate _ _ ctx _ N) as [G1 G2].
    { intros HR. subst ctx. change (ob_st (obs_of s)) with (shape_of (s_st s)). rewrite (gt_rs_shape _ HR). reflexivity. }
    rewrite G1, G2. cbn [app]. gate_free_rest.
  - match goal with |- context [c06_gate_cbs _ ?x _] => set (ctx := x) end.
    assert (Hctx : ctx = true) by (subst ctx; cbn [negb]; apply orb_true_r).
    destruct (newok_gate _ _ ctx _ (step_gate_noclock s e) (fun _ => Hctx)) as [G1 G2].
    rewrite G1, G2. cbn [app]. gate_free_rest.
Qed.

Lemma c06_scan_gate_ok : forall es s i,
  free_of [601; 604] (c06_scan (s_cfg s) i (obs_of s) (combine es (map obs_of (run_trace es s)))) = true.
Proof.
  induction es as [|e r IH]; intros s i; cbn [run_trace map combine]; [reflexivity|].
  rewrite c06_scan_cons, free_of_app. apply andb_true_iff; split; [apply c06_event_gate_ok|].
  rewrite <- (step_cfg (s_cfg s) s e eq_refl). apply IH.
Qed.

(* C06, trace level: for every configuration and every event list, clauses 601 and 604 of c06_check never fail on the
   model's trace (no reachable-state invariant is needed: the statement holds from any state) *)
Lemma c06_gate_never_fails : forall c es,
  free_of [601; 604] (c06_check c (combine es (map obs_of (run_trace es (init_sess c))))) = true.
Proof. intros c es. unfold c06_check. apply (c06_scan_gate_ok es (init_sess c)). Qed.

(* the gate without the SendingTime clause (resend_ctx forced to true), on every event: what c06_check demands of an
   event that may have handled several frames, and a lower bound of what it demands of every event *)
Fixpoint c06_scan_nc (c : cfg) (i : nat) (tr : list (event * obs)) : list failure :=
  match tr with
  | [] => []
  | (e, o) :: r =>
      (if c06_gate_cbs c true (ob_cbs o) then [] else [(i, 601)])
      ++ (if c06_logon_gate c true (ob_cbs o) then [] else [(i, 604)])
      ++ c06_scan_nc c (S i) r
  end.
Definition c06_check_nc (c : cfg) (tr : list (event * obs)) : list failure := c06_scan_nc c O tr.

(* whatever the clock-free predicate reports, c06_check reports too *)
Lemma c06_scan_nc_incl : forall tr c i prev x, In x (c06_scan_nc c i tr) -> In x (c06_scan c i prev tr).
Proof.
  induction tr as [|[e o] r IH]; intros c i prev x H; [exact H|].
  cbn [c06_scan_nc c06_scan] in *.
  set (ctx := sh_is_resend (ob_st prev) || sh_is_resend (ob_st o) || negb (no_drain e prev o)).
  apply in_app_or in H as [H|H].
  - apply in_or_app. left.
    destruct (c06_gate_cbs c ctx (ob_cbs o)) eqn:Eg; [|destruct (c06_gate_cbs c true (ob_cbs o)); [destruct H | exact H]].
    rewrite (gate_cbs_mono c ctx true _ (fun _ => eq_refl) Eg) in H. destruct H.
  - apply in_or_app. right. apply in_app_or in H as [H|H].
    + apply in_or_app. left.
      destruct (c06_logon_gate c ctx (ob_cbs o)) eqn:Eg; [|destruct (c06_logon_gate c true (ob_cbs o)); [destruct H | exact H]].
      rewrite (logon_gate_mono c ctx true _ (fun _ => eq_refl) Eg) in H. destruct H.
    + apply in_or_app. right. apply in_or_app. right. apply IH; exact H.
Qed.

Lemma c06_scan_nc_ok : forall es s i, c06_scan_nc (s_cfg s) i (combine es (map obs_of (run_trace es s))) = [].
Proof.
  induction es as [|e r IH]; intros s i; cbn [run_trace map combine c06_scan_nc]; [reflexivity|].
  change (ob_cbs (obs_of (step s e))) with (rev (s_cbs (step s e))).
  destruct (newok_gate _ _ true _ (step_gate_noclock s e) (fun _ => eq_refl)) as [G1 G2].
  rewrite G1, G2. cbn [app]. rewrite <- (step_cfg (s_cfg s) s e eq_refl). apply IH.
Qed.

Lemma c06_gate_noclock_never_fails : forall c es,
  c06_check_nc c (combine es (map obs_of (run_trace es (init_sess c)))) = [].
Proof. intros c es. unfold c06_check_nc. apply (c06_scan_nc_ok es (init_sess c)). Qed.

(* ====================================================================================================== *)
(* ---------- regression examples ---------- *)
Definition gt_cfg : cfg :=
  {| c_role := Acceptor; c_begin := 2; c_sender := B "S"; c_target := B "T"; c_reset_on_logon := false;
     c_reset_on_logout := false; c_reset_on_disconnect := false; c_refresh_on_logon := false; c_chunk := 0; c_hb := 30;
     c_hb_override := false; c_skip_latency := false; c_max_latency := 120; c_disable_persist := false;
     c_last_seq_processed := false; c_in_cap := 4%nat; c_appl_ver := [] |}.
(* a well-formed message of type t with number seq whose SendingTime is stime seconds away from now *)
Definition gt_msg (t : bytes) (seq : Z) (stime : Z) : minput :=
  {| mi_type := t; mi_begin := B "FIX.4.2"; mi_sender := Some (B "T"); mi_target := Some (B "S"); mi_seq := FVal seq;
     mi_possdup := FAbsent; mi_stime := FVal stime; mi_otime := FAbsent; mi_gapfill := FAbsent; mi_newseq := FAbsent;
     mi_beginseq := FAbsent; mi_endseq := FAbsent; mi_reset := FAbsent; mi_hbint := FVal 30; mi_testreq := None;
     mi_applver := None; mi_route := []; mi_body := []; mi_app := VAccept; mi_valid := VAccept; mi_refuse := [] |}.
Definition gt_app (seq stime : Z) : minput := gt_msg (B "D") seq stime.   (* a NewOrderSingle *)
Definition gt_trace (c : cfg) (es : list event) : list (event * obs) := combine es (map obs_of (run_trace es (init_sess c))).

(* the former counterexamples (with resend_ctx computed from the shapes before / after the event only).  Logged on; two
   frames wait in the inbound channel: number 5 (a gap: recovery starts) and number 2 with a SendingTime 1000 s off; the
   connection is lost: handleDisconnectState drains the buffer, number 5 in session (-> resend state), then number 2 in the
   resend state, where the SendingTime check is waived; the event starts in session and ends latent.  The event can handle
   two frames (no_drain = false), so c06_scan demands the clock-free gate only: nothing is reported. *)
Definition gt_es_601 : list event :=
  [EConnect; EIncoming (gt_msg T_LOGON 1 0); EArrive (gt_app 5 0); EArrive (gt_app 2 1000); EInClosed].
(* the same with a stale Logon as the second buffered frame: OnLogon for a Logon outside the window *)
Definition gt_es_604 : list event :=
  [EConnect; EIncoming (gt_msg T_LOGON 1 0); EArrive (gt_app 5 0); EArrive (gt_msg T_LOGON 2 1000); EInClosed].

Definition gt_count_cbs (p : cb -> bool) (tr : list (event * obs)) : list nat :=
  map (fun eo => length (filter p (ob_cbs (snd eo)))) tr.
Definition gt_is_fromapp (x : cb) : bool := match x with CbFromApp _ _ _ _ => true | _ => false end.
Definition gt_is_onlogon (x : cb) : bool := match x with CbOnLogon => true | _ => false end.

Lemma gt_es_601_regression :
  c06_check gt_cfg (gt_trace gt_cfg gt_es_601) = []
  /\ gt_count_cbs gt_is_fromapp (gt_trace gt_cfg gt_es_601) = [0; 0; 0; 0; 1]%nat
  /\ map (fun eo => no_drain (fst (fst eo)) (snd (fst eo)) (snd eo))
         (combine (combine gt_es_601 (init_obs gt_cfg :: map snd (gt_trace gt_cfg gt_es_601))) (map snd (gt_trace gt_cfg gt_es_601)))
     = [true; true; true; true; false].
Proof. vm_compute. repeat split; reflexivity. Qed.
Lemma gt_es_604_regression :
  c06_check gt_cfg (gt_trace gt_cfg gt_es_604) = []
  /\ gt_count_cbs gt_is_onlogon (gt_trace gt_cfg gt_es_604) = [0; 1; 0; 0; 1]%nat.
Proof. vm_compute. repeat split; reflexivity. Qed.

(* a trace with callbacks of all three kinds (Logon, application message, buffered Heartbeat delivered, a gap, a stale
   SendingTime while recovering, a disconnect), and one whose disconnect drains ONE buffered application message *)
Definition gt_es_ok : list event :=
  [EConnect; EIncoming (gt_msg T_LOGON 1 0); EIncoming (gt_app 2 0); EArrive (gt_msg T_HEARTBEAT 3 0); EDeliver;
   EIncoming (gt_app 9 0); EIncoming (gt_app 4 5000); EInClosed].
Definition gt_es_one : list event :=
  [EConnect; EIncoming (gt_msg T_LOGON 1 0); EArrive (gt_app 2 0); EInClosed].
Lemma gt_es_ok_callbacks :
  map (fun eo => length (ob_cbs (snd eo))) (gt_trace gt_cfg gt_es_ok) = [0; 3; 1; 0; 1; 1; 1; 1]%nat
  /\ gt_count_cbs gt_is_fromapp (gt_trace gt_cfg gt_es_one) = [0; 0; 0; 1]%nat.
Proof. vm_compute. split; reflexivity. Qed.

(* the clauses still bite.  (1) A single directly processed message (no_drain = true): an observation in which the stale
   application message 2 was handed over in session is reported (601).  (2) On the draining event of gt_es_601 an
   observation with a callback for a message with the wrong SenderCompID is reported although the clock is waived there. *)
Definition gt_obs_with (o : obs) (cbs : list cb) : obs :=
  {| ob_cbs := cbs; ob_wire := ob_wire o; ob_closed := ob_closed o; ob_snd := ob_snd o; ob_tgt := ob_tgt o; ob_st := ob_st o;
     ob_tosend := ob_tosend o; ob_stopped := ob_stopped o; ob_hb := ob_hb o; ob_inbuf := ob_inbuf o |}.
Definition gt_in_session : obs := obs_of (fold_left step [EConnect; EIncoming (gt_msg T_LOGON 1 0)] (init_sess gt_cfg)).
Definition gt_bad_sender (m : minput) : mfacts :=
  {| mf_begin := mi_begin m; mf_sender := Some (B "X"); mf_target := mi_target m; mf_stime := mi_stime m;
     mf_valid := mi_valid m; mf_id := None |}.
Lemma gt_clauses_bite :
  filter (fun f => snd f =? 601) (c06_scan gt_cfg 0 gt_in_session
    [(EIncoming (gt_app 2 1000), gt_obs_with gt_in_session [CbFromApp (FVal 2) 2 VAccept (facts_of (gt_app 2 1000))])]) = [(0%nat, 601)]
  /\ (let tr := gt_trace gt_cfg gt_es_601 in
      let prev := nth 3 (map snd tr) gt_in_session in
      let o := nth 4 (map snd tr) gt_in_session in
      no_drain EInClosed prev o = false
      /\ filter (fun f => snd f =? 601)
            (c06_scan gt_cfg 4 prev [(EInClosed, gt_obs_with o [CbFromApp (FVal 2) 2 VAccept (gt_bad_sender (gt_app 2 0))])]) = [(4%nat, 601)]).
Proof. vm_compute. repeat split; reflexivity. Qed.

(* the per-message statement with the block of new callbacks made explicit *)
Lemma gate_per_message : forall s m s1 next,
  state_fix_msg_in (s_st s) s m = (s1, next) ->
  s_cfg s1 = s_cfg s /\ s_st s1 = s_st s /\ exists new, s_cbs s1 = new ++ s_cbs s /\ NewOk (s_cfg s) (gt_rs (s_st s)) new.
Proof. intros s m s1 next E. exact (gate_one_message _ _ _ _ _ E). Qed.

(* non-vacuity of the per-message statement: an application message in sequence in the resend state with a SendingTime
   far outside the window is handed to the application (the clause is waived there), and it passes the gate *)
Lemma gate_per_message_ex :
  let s := {| s_cfg := gt_cfg; s_st := SResend None 0 7; s_snd := 3; s_tgt := 2; s_msgs := []; s_to_send := [];
              s_out_open := true; s_in_open := true; s_in_buf := []; s_sent_reset := false; s_hb := 30;
              s_pending_stop := false; s_stopped := false; s_cbs := []; s_wire := []; s_closed := false |} in
  let m := gt_app 2 1000 in
  s_cbs (fst (state_fix_msg_in (s_st s) s m)) = [CbFromApp (FVal 2) 2 VAccept (facts_of m)]
  /\ gate_ok gt_cfg (gt_rs (s_st s)) (facts_of m) = true /\ gate_ok gt_cfg false (facts_of m) = false.
Proof. vm_compute. repeat split; reflexivity. Qed.
