(* Facts about the timed wrapper (Session/Clock.v): the scenarios of the `clock` stream run on the model, the witness of
   F18 (the timer rule before e8ed431), and the general step facts the keep-alive clauses rest on. *)
From Coq Require Import String.
From Coq Require Import ZArith List Bool Lia.
From QF Require Import Base.Bytes Session.Types Session.Model Session.Spec Session.LocalProofs Session.Clock.
Import ListNotations.
Open Scope Z_scope.

(* ---- the scenarios of the clock stream on the model (acceptor, HeartBtInt taken from the Logon) ---- *)
Definition ck_cfg (role : role) (hb : Z) : cfg :=
  {| c_role := role; c_begin := 2; c_sender := B "S"; c_target := B "T"; c_reset_on_logon := false;
     c_reset_on_logout := false; c_reset_on_disconnect := false; c_refresh_on_logon := false; c_chunk := 0; c_hb := hb;
     c_hb_override := false; c_skip_latency := true; c_max_latency := 120; c_disable_persist := false;
     c_last_seq_processed := false; c_in_cap := 8%nat; c_appl_ver := [] |}.
Definition ck_msg (t : bytes) (n hb : Z) (tr : option bytes) : minput :=
  {| mi_type := t; mi_begin := B "FIX.4.2"; mi_sender := Some (B "T"); mi_target := Some (B "S"); mi_seq := FVal n;
     mi_possdup := FAbsent; mi_stime := FVal 0; mi_otime := FAbsent; mi_gapfill := FAbsent; mi_newseq := FAbsent;
     mi_beginseq := FAbsent; mi_endseq := FAbsent; mi_reset := FAbsent; mi_hbint := FVal hb; mi_testreq := tr;
     mi_applver := None; mi_route := []; mi_body := []; mi_app := VAccept; mi_valid := VAccept; mi_refuse := [] |}.

(* silent peer, HeartBtInt 1 s: Logon reply at 0, Heartbeat at 1000, TestRequest at 1200, closed at 2400 *)
Definition ck_silent : list (Z * event) :=
  [(0, EConnect); (0, EIncoming (ck_msg T_LOGON 1 1 None)); (4000, EFlush)].
Example clock_silent_peer :
  let ts := trun true 50 (tinit (ck_cfg Acceptor 30)) ck_silent in
  tout ts = [(0, T_LOGON); (1000, T_HEARTBEAT); (1200, T_TESTREQ)] /\ ts_closed ts = [2400]
  /\ is_logged_on (s_st (ts_s ts)) = false.
Proof. vm_compute. repeat split; reflexivity. Qed.

(* the same on a second connection of the same session: the timers survive the reconnect *)
Definition ck_silent_twice : list (Z * event) :=
  [(0, EConnect); (0, EIncoming (ck_msg T_LOGON 1 1 None)); (4000, EConnect); (4000, EIncoming (ck_msg T_LOGON 2 1 None)); (9000, EFlush)].
Example clock_silent_peer_second_connection :
  let ts := trun true 50 (tinit (ck_cfg Acceptor 30)) ck_silent_twice in
  tout ts = [(0, T_LOGON); (1000, T_HEARTBEAT); (1200, T_TESTREQ); (4000, T_LOGON); (5000, T_HEARTBEAT); (5200, T_TESTREQ)]
  /\ ts_closed ts = [6400; 2400].
Proof. vm_compute. repeat split; reflexivity. Qed.

(* live peer (a Heartbeat every 400 ms for 3 s): our Heartbeats at 1000, 2000, 3000, no TestRequest, not closed *)
Definition ck_alive : list (Z * event) :=
  [(0, EConnect); (0, EIncoming (ck_msg T_LOGON 1 1 None));
   (400, EIncoming (ck_msg T_HEARTBEAT 2 1 None)); (800, EIncoming (ck_msg T_HEARTBEAT 3 1 None));
   (1200, EIncoming (ck_msg T_HEARTBEAT 4 1 None)); (1600, EIncoming (ck_msg T_HEARTBEAT 5 1 None));
   (2000, EIncoming (ck_msg T_HEARTBEAT 6 1 None)); (2400, EIncoming (ck_msg T_HEARTBEAT 7 1 None));
   (2800, EIncoming (ck_msg T_HEARTBEAT 8 1 None)); (3200, EIncoming (ck_msg T_HEARTBEAT 9 1 None))].
Example clock_live_peer :
  let ts := trun true 50 (tinit (ck_cfg Acceptor 30)) ck_alive in
  tout ts = [(0, T_LOGON); (1000, T_HEARTBEAT); (2000, T_HEARTBEAT); (3000, T_HEARTBEAT)] /\ ts_closed ts = [].
Proof. vm_compute. repeat split; reflexivity. Qed.

(* F18.  HeartBtInt 2 s; the peer is silent, our TestRequest goes out at 2400, our heartbeat timer fires at 4400 while the
   answer is pending, the peer's answer arrives at 4600 and the peer then stays alive.  With the timer rule before the
   repair (rearm = false) the session is logged on with the heartbeat timer NOT armed and sends nothing more; with the
   repaired rule Heartbeats follow at 6400, 8400, 10400 — the times the implementation shows (6402, 8402, 10402 ms). *)
Definition ck_late : list (Z * event) :=
  [(0, EConnect); (0, EIncoming (ck_msg T_LOGON 1 2 None));
   (4600, EIncoming (ck_msg T_HEARTBEAT 2 2 (Some (B "TEST"))));
   (5400, EIncoming (ck_msg T_HEARTBEAT 3 2 None)); (6200, EIncoming (ck_msg T_HEARTBEAT 4 2 None));
   (7000, EIncoming (ck_msg T_HEARTBEAT 5 2 None)); (7800, EIncoming (ck_msg T_HEARTBEAT 6 2 None));
   (8600, EIncoming (ck_msg T_HEARTBEAT 7 2 None)); (9400, EIncoming (ck_msg T_HEARTBEAT 8 2 None));
   (10200, EIncoming (ck_msg T_HEARTBEAT 9 2 None)); (11000, EIncoming (ck_msg T_HEARTBEAT 10 2 None))].
Example clock_late_answer_before_repair_refuted :
  let ts := trun false 50 (tinit (ck_cfg Acceptor 30)) ck_late in
  tout ts = [(0, T_LOGON); (2000, T_HEARTBEAT); (2400, T_TESTREQ)]
  /\ is_logged_on (s_st (ts_s ts)) = true /\ armed ts = false.
Proof. vm_compute. repeat split; reflexivity. Qed.
Example clock_late_answer_repaired :
  let ts := trun true 50 (tinit (ck_cfg Acceptor 30)) ck_late in
  tout ts = [(0, T_LOGON); (2000, T_HEARTBEAT); (2400, T_TESTREQ); (6400, T_HEARTBEAT); (8400, T_HEARTBEAT); (10400, T_HEARTBEAT)]
  /\ armed ts = true.
Proof. vm_compute. repeat split; reflexivity. Qed.

(* F23, predicted by this model before it was observed: an INITIATOR whose Logon is answered later than one heartbeat
   interval.  Its heartbeat timer, armed by its own Logon, fires in logonState and was ignored there without being re-armed;
   the Logon answer logs the session on without anything being sent, so it was logged on with the timer not armed (the
   implementation: answer at 2300 ms, the peer alive for 7 s, nothing sent).  Repaired in da7518d: Heartbeats at 3000, 4000. *)
Definition ck_slow_logon : list (Z * event) :=
  [(0, EConnect); (1300, EIncoming (ck_msg T_LOGON 1 1 None)); (1700, EIncoming (ck_msg T_HEARTBEAT 2 1 None));
   (2100, EIncoming (ck_msg T_HEARTBEAT 3 1 None)); (2500, EIncoming (ck_msg T_HEARTBEAT 4 1 None));
   (2900, EIncoming (ck_msg T_HEARTBEAT 5 1 None)); (3300, EIncoming (ck_msg T_HEARTBEAT 6 1 None));
   (3700, EIncoming (ck_msg T_HEARTBEAT 7 1 None)); (4100, EIncoming (ck_msg T_HEARTBEAT 8 1 None))].
Example clock_initiator_slow_logon_before_repair_refuted :
  let ts := trun false 50 (tinit (ck_cfg Initiator 1)) ck_slow_logon in
  tout ts = [(0, T_LOGON)] /\ is_logged_on (s_st (ts_s ts)) = true /\ armed ts = false.
Proof. vm_compute. repeat split; reflexivity. Qed.
Example clock_initiator_slow_logon_repaired :
  let ts := trun true 50 (tinit (ck_cfg Initiator 1)) ck_slow_logon in
  tout ts = [(0, T_LOGON); (2000, T_HEARTBEAT); (3000, T_HEARTBEAT); (4000, T_HEARTBEAT)] /\ armed ts = true.
Proof. vm_compute. repeat split; reflexivity. Qed.

(* ---- general step facts ---- *)

(* whatever the event and the state: a step that writes arms the heartbeat timer one interval ahead *)
Lemma apply_at_arms_on_write : forall rearm ts e,
  wrote_any (step (ts_s ts) e) = true ->
  ts_sd (apply_at rearm ts e) = Some (ts_now ts + hb_ms (step (ts_s ts) e)).
Proof. intros rearm ts e H. unfold apply_at. cbn. rewrite H. reflexivity. Qed.

(* every inbound frame arms the peer timer 1.2 intervals ahead *)
Lemma apply_at_inbound_arms_peer : forall rearm ts e,
  kind_of e = KInbound -> ts_pd (apply_at rearm ts e) = Some (ts_now ts + peer_ms (step (ts_s ts) e)).
Proof. intros rearm ts e H. unfold apply_at. cbn. rewrite H. reflexivity. Qed.

(* with the repaired rule an ignored NeedHeartbeat in pendingTimeout leaves the timer armed; with the old rule it does not *)
Lemma apply_at_pending_rearms : forall ts,
  is_pending (s_st (ts_s ts)) = true -> wrote_any (step (ts_s ts) (ETimeout NeedHeartbeat)) = false ->
  ts_sd (apply_at true ts (ETimeout NeedHeartbeat)) = Some (ts_now ts + hb_ms (step (ts_s ts) (ETimeout NeedHeartbeat)))
  /\ ts_sd (apply_at false ts (ETimeout NeedHeartbeat)) = None.
Proof.
  intros ts Hp Hw. unfold apply_at. cbv zeta. cbn [ts_sd kind_of]. rewrite Hw, Hp. split; reflexivity.
Qed.

(* "when nothing has been sent for the heartbeat interval a Heartbeat is sent": in session, nothing queued, the channel open,
   the heartbeat timer due at d before the peer timer: letting the time pass to any moment from d up to (but not including)
   the next deadline writes exactly one Heartbeat, at time d, and arms the timer for d + HeartBtInt *)
Lemma apply_heartbeat_due : forall rearm c snd tgt msgs hb sr d p out cl,
  apply_at rearm {| ts_s := mk c SInSession snd tgt msgs [] hb sr; ts_sd := None; ts_pd := Some p; ts_now := d;
                    ts_out := out; ts_closed := cl |} (ETimeout NeedHeartbeat)
  = {| ts_s := step (mk c SInSession snd tgt msgs [] hb sr) (ETimeout NeedHeartbeat); ts_sd := Some (d + 1000 * hb);
       ts_pd := Some p; ts_now := d; ts_out := (d, heartbeat_msg c snd tgt) :: out; ts_closed := cl |}.
Proof.
  intros rearm c snd tgt msgs hb sr d p out cl.
  pose proof (timer_heartbeat_in_session c snd tgt msgs hb sr) as Hstep. cbv zeta in Hstep.
  destruct Hstep as (Hw & _).
  set (s0 := mk c SInSession snd tgt msgs [] hb sr) in *.
  set (s1 := step s0 (ETimeout NeedHeartbeat)) in *.
  assert (Hwire : s_wire s1 = [heartbeat_msg c snd tgt]).
  { destruct (s_wire s1) as [|a [|b0 l]] eqn:E; cbn in Hw; try discriminate.
    - inversion Hw; reflexivity.
    - exfalso. apply (f_equal (@length omsg)) in Hw. rewrite !app_length in Hw. cbn in Hw. lia. }
  assert (Hhb1 : s_hb s1 = hb).
  { subst s1 s0. destruct c as [role bg sn tg r1 r2 r3 r4 ch h ho sl ml np ls ic av]. destruct ls, np; reflexivity. }
  assert (Hcl : s_closed s1 = false).
  { subst s1 s0. destruct c as [role bg sn tg r1 r2 r3 r4 ch h ho sl ml np ls ic av]. destruct ls, np; reflexivity. }
  unfold apply_at. cbv zeta. cbn [ts_s ts_sd ts_pd ts_now ts_out ts_closed kind_of]. fold s1.
  unfold wrote_any. rewrite Hwire, Hcl. unfold hb_ms. rewrite Hhb1. reflexivity.
Qed.

Lemma clock_heartbeat_when_due : forall rearm c snd tgt msgs hb sr now d p out cl upto,
  now <= d -> d <= upto -> d < p -> 0 < hb -> upto < d + 1000 * hb -> upto < p ->
  let ts := {| ts_s := mk c SInSession snd tgt msgs [] hb sr; ts_sd := Some d; ts_pd := Some p; ts_now := now;
               ts_out := out; ts_closed := cl |} in
  let ts' := fire_until rearm 2 ts upto in
  ts_out ts' = (d, heartbeat_msg c snd tgt) :: out /\ ts_sd ts' = Some (d + 1000 * hb) /\ ts_pd ts' = Some p
  /\ s_st (ts_s ts') = SInSession /\ ts_now ts' = upto.
Proof.
  intros rearm c snd tgt msgs hb sr now d p out cl upto Hnd Hdu Hdp Hhb Hup1 Hup2 ts ts'.
  pose proof (timer_heartbeat_in_session c snd tgt msgs hb sr) as Hstep. cbv zeta in Hstep.
  destruct Hstep as (_ & Hst & _ & _).
  assert (E1 : (d <=? upto) = true) by (apply Z.leb_le; lia).
  assert (E2 : (p <=? upto) = false) by (apply Z.leb_gt; lia).
  assert (E3 : (d + 1000 * hb <=? upto) = false) by (apply Z.leb_gt; lia).
  assert (E4 : (d <=? p) = true) by (apply Z.leb_le; lia).
  assert (Hfu : fire_until rearm 2
                  {| ts_s := mk c SInSession snd tgt msgs [] hb sr; ts_sd := Some d; ts_pd := Some p; ts_now := now;
                     ts_out := out; ts_closed := cl |} upto
                = {| ts_s := step (mk c SInSession snd tgt msgs [] hb sr) (ETimeout NeedHeartbeat);
                     ts_sd := Some (d + 1000 * hb); ts_pd := Some p; ts_now := upto;
                     ts_out := (d, heartbeat_msg c snd tgt) :: out; ts_closed := cl |}).
  { cbn [fire_until]. unfold next_due. cbn [ts_sd ts_pd ts_now]. rewrite E1, E2.
    unfold set_now, disarm. cbn [ts_s ts_sd ts_pd ts_now ts_out ts_closed].
    replace (Z.max now d) with d by lia.
    rewrite apply_heartbeat_due. cbn [ts_sd ts_pd ts_now]. rewrite E3, E2.
    cbn [ts_s ts_sd ts_pd ts_now ts_out ts_closed].
    replace (Z.max d upto) with upto by lia. reflexivity. }
  subst ts' ts. rewrite Hfu. cbn [ts_s ts_sd ts_pd ts_now ts_out ts_closed].
  repeat split; try reflexivity; assumption.
Qed.
