(* C04, clause 405: how the expected inbound number moves inside one event.
   `Tj s0 s`: a store reset logged in s0 is still logged in s, and unless a store reset is logged in s the expected number
   is the one of s0 (closure over the send path, same syntax-directed scheme as FrameProofs.v; incr_tgt / set_tgt are not
   in the closure).  `Adv j m s0 s`: after one handler ran on message m the expected number is unchanged, one higher, or —
   only for a SequenceReset (j) — the NewSeqNo of m above the old number; or a store reset was logged. *)
From Coq Require Import String.
From Coq Require Import ZArith List Bool Lia.
From QF Require Import Base.Bytes Session.Types Session.Model Session.Spec Session.FrameProofs.
Import ListNotations.
Open Scope list_scope.
Open Scope Z_scope.

Definition rst (s : sess) : bool := has_reset (s_cbs s).
Definition Tj (s0 s : sess) : Prop := (rst s0 = true -> rst s = true) /\ (rst s = true \/ s_tgt s = s_tgt s0).

Lemma tj_refl s : Tj s s.
Proof. split; auto. Qed.
Lemma tj_trans a b c : Tj a b -> Tj b c -> Tj a c.
Proof.
  intros [A1 A2] [B1 B2]. split; [auto|].
  destruct B2 as [B2|B2]; [left; exact B2|]. destruct A2 as [A2|A2]; [left; auto | right; congruence].
Qed.

Section Base.
Variable s0 : sess.
Ltac stepj := intros H; eapply tj_trans; [exact H|]; split; [intros C; exact C | right; reflexivity].
Lemma tj_upd_to_send s q : Tj s0 s -> Tj s0 (upd_to_send s q). Proof. stepj. Qed.
Lemma tj_upd_wire s w : Tj s0 s -> Tj s0 (upd_logs s (s_cbs s) w). Proof. stepj. Qed.
Lemma tj_log s c : Tj s0 s -> Tj s0 (log_cb s c).
Proof.
  intros H. eapply tj_trans; [exact H|]. split; [|right; reflexivity].
  unfold rst, log_cb. cbn [s_cbs upd_logs has_reset existsb]. intros C. fold (has_reset (s_cbs s)). rewrite C. apply orb_true_r.
Qed.
Lemma tj_reset s : Tj s0 s -> Tj s0 (store_reset s).
Proof. intros _. split; [intros _; reflexivity | left; reflexivity]. Qed.
Lemma tj_set_sent_reset s b : Tj s0 s -> Tj s0 (set_sent_reset s b). Proof. stepj. Qed.
Lemma tj_set_hb s h : Tj s0 s -> Tj s0 (set_hb s h). Proof. stepj. Qed.
Lemma tj_persist s m : Tj s0 s -> Tj s0 (persist s m).
Proof. intros H. unfold persist. destruct (c_disable_persist _); (eapply tj_trans; [exact H|]; split; [intros C; exact C | right; reflexivity]). Qed.
End Base.

Ltac tj_ext := fail.
Ltac tj_go :=
  lazymatch goal with
  | H : Tj ?a ?b |- Tj ?a ?b => exact H
  | |- Tj ?a ?a => apply tj_refl
  | |- Tj _ (if ?x then _ else _) => destruct x eqn:?; tj_go
  | |- Tj _ (match ?x with _ => _ end) => destruct x eqn:?; tj_go
  | |- Tj _ (upd_to_send _ _) => apply tj_upd_to_send; tj_go
  | |- Tj _ (upd_logs ?x (s_cbs ?x) _) => apply tj_upd_wire; tj_go
  | |- Tj _ (log_cb _ _) => apply tj_log; tj_go
  | |- Tj _ (store_reset _) => apply tj_reset; tj_go
  | |- Tj _ (set_sent_reset _ _) => apply tj_set_sent_reset; tj_go
  | |- Tj _ (set_hb _ _) => apply tj_set_hb; tj_go
  | |- Tj _ (persist _ _) => apply tj_persist; tj_go
  | _ => tj_ext
  end.
Ltac tj_pairlemma E := brk_in E; inv E; brk_hyps; tj_go.

Section L1.
Variable s0 : sess.
Lemma tj_prep s t hdr body ir ok s1 r : prep s t hdr body ir ok = (s1, r) -> Tj s0 s -> Tj s0 s1.
Proof.
  intros E H. unfold prep in E. tj_pairlemma E.
Qed.
Lemma tj_send_queued s : Tj s0 s -> Tj s0 (send_queued s).
Proof. intros H. unfold send_queued. tj_go. Qed.
Lemma tj_drop_queued s : Tj s0 s -> Tj s0 (drop_queued s).
Proof. intros H. unfold drop_queued. tj_go. Qed.
Lemma tj_enqueue s m : Tj s0 s -> Tj s0 (enqueue s m).
Proof. intros H. unfold enqueue. tj_go. Qed.
End L1.
Ltac tj_ext1 :=
  lazymatch goal with
  | |- Tj _ (send_queued _) => apply tj_send_queued; tj_go
  | |- Tj _ (drop_queued _) => apply tj_drop_queued; tj_go
  | |- Tj _ (enqueue _ _) => apply tj_enqueue; tj_go
  | |- Tj _ ?v => match goal with E : prep _ _ _ _ _ _ = (v, _) |- _ => eapply tj_prep; [exact E | tj_go] end
  end.
Ltac tj_ext ::= tj_ext1.

Section L2.
Variable s0 : sess.
Lemma tj_queue_for_send s t hdr body ir ok : Tj s0 s -> Tj s0 (queue_for_send s t hdr body ir ok).
Proof. intros H. unfold queue_for_send. tj_go. Qed.
Lemma tj_enqueue_bytes s m : Tj s0 s -> Tj s0 (enqueue_bytes_and_send s m).
Proof. intros H. unfold enqueue_bytes_and_send. tj_go. Qed.
Lemma tj_drop_and_send s t body ir : Tj s0 s -> Tj s0 (drop_and_send_in_reply_to s t body ir).
Proof. intros H. unfold drop_and_send_in_reply_to. tj_go. Qed.
Lemma tj_drop_and_reset s : Tj s0 s -> Tj s0 (drop_and_reset s).
Proof. intros H. unfold drop_and_reset. tj_go. Qed.
End L2.
Ltac tj_ext2 :=
  lazymatch goal with
  | |- Tj _ (queue_for_send _ _ _ _ _ _) => apply tj_queue_for_send; tj_go
  | |- Tj _ (enqueue_bytes_and_send _ _) => apply tj_enqueue_bytes; tj_go
  | |- Tj _ (drop_and_send_in_reply_to _ _ _ _) => apply tj_drop_and_send; tj_go
  | |- Tj _ (drop_and_reset _) => apply tj_drop_and_reset; tj_go
  | _ => tj_ext1
  end.
Ltac tj_ext ::= tj_ext2.

Section L3.
Variable s0 : sess.
Lemma tj_send_in_reply_to s t hdr body ir : Tj s0 s -> Tj s0 (send_in_reply_to s t hdr body ir).
Proof. intros H. unfold send_in_reply_to. tj_go. Qed.
Lemma tj_send_logon s b ir : Tj s0 s -> Tj s0 (send_logon_in_reply_to s b ir).
Proof. intros H. unfold send_logon_in_reply_to. tj_go. Qed.
Lemma tj_generate_sequence_reset s b e ir : Tj s0 s -> Tj s0 (generate_sequence_reset s b e ir).
Proof. intros H. unfold generate_sequence_reset. tj_go. Qed.
End L3.
Ltac tj_ext3 :=
  lazymatch goal with
  | |- Tj _ (send_in_reply_to _ _ _ _ _) => apply tj_send_in_reply_to; tj_go
  | |- Tj _ (send_logon_in_reply_to _ _ _) => apply tj_send_logon; tj_go
  | |- Tj _ (generate_sequence_reset _ _ _ _) => apply tj_generate_sequence_reset; tj_go
  | _ => tj_ext2
  end.
Ltac tj_ext ::= tj_ext3.

Section L4.
Variable s0 : sess.
Lemma tj_send s t body : Tj s0 s -> Tj s0 (send s t body).
Proof. intros H. unfold send. tj_go. Qed.
Lemma tj_send_logout s ir : Tj s0 s -> Tj s0 (send_logout_in_reply_to s ir).
Proof. intros H. unfold send_logout_in_reply_to. tj_go. Qed.
Lemma tj_do_reject s m r : Tj s0 s -> Tj s0 (do_reject s m r).
Proof. intros H. unfold do_reject. tj_go. Qed.
Lemma tj_resend_loop : forall keys s ir a b s1 x y, resend_loop keys s ir a b = (s1, x, y) -> Tj s0 s -> Tj s0 s1.
Proof.
  induction keys as [|k r IH]; intros s ir a b s1 x y E H; cbn [resend_loop] in E.
  - inv E. exact H.
  - brk_in E; eapply IH; try exact E; tj_go.
Qed.
End L4.
Ltac tj_ext4 :=
  lazymatch goal with
  | |- Tj _ (send _ _ _) => apply tj_send; tj_go
  | |- Tj _ (send_logout_in_reply_to _ _) => apply tj_send_logout; tj_go
  | |- Tj _ (initiate_logout_in_reply_to _ _) => unfold initiate_logout_in_reply_to; apply tj_send_logout; tj_go
  | |- Tj _ (do_reject _ _ _) => apply tj_do_reject; tj_go
  | |- Tj _ ?v =>
      match goal with
      | E : prep _ _ _ _ _ _ = (v, _) |- _ => eapply tj_prep; [exact E | tj_go]
      | E : resend_loop _ _ _ _ _ = (v, _, _) |- _ => eapply tj_resend_loop; [exact E | tj_go]
      | _ => tj_ext3
      end
  | _ => tj_ext3
  end.
Ltac tj_ext ::= tj_ext4.

Section L5.
Variable s0 : sess.
Lemma tj_send_resend_request s b e s1 st : send_resend_request s b e = (s1, st) -> Tj s0 s -> Tj s0 s1.
Proof. intros E H. unfold send_resend_request in E. tj_pairlemma E. Qed.
Lemma tj_resend_messages s b e ir : Tj s0 s -> Tj s0 (resend_messages s b e ir).
Proof. intros H. unfold resend_messages. tj_go. Qed.
Lemma tj_verify_app s m s1 r : verify_msg_against_app_impl s m = (s1, r) -> Tj s0 s -> Tj s0 s1.
Proof. intros E H. unfold verify_msg_against_app_impl in E. tj_pairlemma E. Qed.
End L5.
Ltac tj_ext5 :=
  lazymatch goal with
  | |- Tj _ (resend_messages _ _ _ _) => apply tj_resend_messages; tj_go
  | |- Tj _ ?v =>
      match goal with
      | E : prep _ _ _ _ _ _ = (v, _) |- _ => eapply tj_prep; [exact E | tj_go]
      | E : resend_loop _ _ _ _ _ = (v, _, _) |- _ => eapply tj_resend_loop; [exact E | tj_go]
      | E : send_resend_request _ _ _ = (v, _) |- _ => eapply tj_send_resend_request; [exact E | tj_go]
      | E : do_target_too_high _ _ _ = (v, _) |- _ => unfold do_target_too_high in E; eapply tj_send_resend_request; [exact E | tj_go]
      | E : verify_msg_against_app_impl _ _ = (v, _) |- _ => eapply tj_verify_app; [exact E | tj_go]
      | _ => tj_ext4
      end
  | _ => tj_ext4
  end.
Ltac tj_ext ::= tj_ext5.

Section L6.
Variable s0 : sess.
Lemma tj_verify_select s m a b c s1 r : verify_select s m a b c = (s1, r) -> Tj s0 s -> Tj s0 s1.
Proof. intros E H. unfold verify_select in E. brk_in E; try (inv E; exact H). all: eapply tj_verify_app; eauto. Qed.
End L6.
Ltac tj_ext6 :=
  lazymatch goal with
  | |- Tj _ ?v =>
      match goal with
      | E : verify_select _ _ _ _ _ = (v, _) |- _ => eapply tj_verify_select; [exact E | tj_go]
      | _ => tj_ext5
      end
  | _ => tj_ext5
  end.
Ltac tj_ext ::= tj_ext6.

(* ---------- one handler: the expected number advances by at most one, or jumps to the NewSeqNo of a SequenceReset ---------- *)
Definition Adv (j : bool) (m : minput) (s0 s : sess) : Prop :=
  (rst s0 = true -> rst s = true)
  /\ (rst s = true \/ s_tgt s = s_tgt s0 \/ s_tgt s = s_tgt s0 + 1
      \/ (j = true /\ mi_newseq m = FVal (s_tgt s) /\ s_tgt s0 < s_tgt s)).

Lemma adv_tj j m s0 s : Tj s0 s -> Adv j m s0 s.
Proof. intros [H1 H2]. split; [exact H1|]. destruct H2 as [H2|H2]; auto. Qed.
Lemma rst_incr s : rst (incr_tgt s) = rst s. Proof. reflexivity. Qed.
Lemma rst_set_tgt s n : rst (set_tgt s n) = rst s. Proof. reflexivity. Qed.
Lemma adv_incr j m s0 s : Tj s0 s -> Adv j m s0 (incr_tgt s).
Proof.
  intros [H1 H2]. split; [rewrite rst_incr; exact H1|]. rewrite rst_incr.
  destruct H2 as [H2|H2]; [left; exact H2|]. right; right; left. unfold incr_tgt. cbn [s_tgt upd_store]. lia.
Qed.
Lemma adv_set m s0 s n : Tj s0 s -> mi_newseq m = FVal n -> s_tgt s < n -> Adv true m s0 (set_tgt s n).
Proof.
  intros [H1 H2] Hn Hlt. split; [rewrite rst_set_tgt; exact H1|]. rewrite rst_set_tgt.
  destruct H2 as [H2|H2]; [left; exact H2|]. right; right; right.
  unfold set_tgt. cbn [s_tgt upd_store]. split; [reflexivity|]. split; [exact Hn | lia].
Qed.

Ltac adv_ext := fail.
Ltac adv_go :=
  lazymatch goal with
  | |- Adv _ _ _ (incr_tgt _) => apply adv_incr; tj_go
  | |- Adv _ _ _ (set_tgt _ _) => eapply adv_set; [tj_go | eassumption | apply Z.ltb_lt; eassumption]
  | |- Adv _ _ _ (if ?x then _ else _) => destruct x eqn:?; adv_go
  | |- Adv _ _ _ (match ?x with _ => _ end) => destruct x eqn:?; adv_go
  | |- Adv _ _ _ _ => first [adv_ext | apply adv_tj; tj_go]
  end.
Ltac adv_pairlemma E := brk_in E; inv E; brk_hyps; adv_go.

Section A1.
Variable s0 : sess.
Variable j : bool.
Lemma adv_do_target_too_low s m s1 st : do_target_too_low s m = (s1, st) -> Tj s0 s -> Adv j m s0 s1.
Proof. intros E H. unfold do_target_too_low in E. adv_pairlemma E. Qed.
End A1.
Ltac adv_ext1 :=
  lazymatch goal with
  | |- Adv _ _ _ ?v =>
      match goal with
      | E : do_target_too_low _ _ = (v, _) |- _ => eapply adv_do_target_too_low; [exact E | tj_go]
      end
  end.
Ltac adv_ext ::= adv_ext1.

Section A2.
Variable s0 : sess.
Variable j : bool.
Lemma adv_process_reject s m r s1 st : process_reject s m r = (s1, st) -> Tj s0 s -> Adv j m s0 s1.
Proof. intros E H. unfold process_reject in E. adv_pairlemma E. Qed.
Lemma adv_handle_logon s m s1 r : handle_logon s m = (s1, r) -> Tj s0 s -> Adv j m s0 s1.
Proof. intros E H. unfold handle_logon in E. adv_pairlemma E. Qed.
End A2.
Ltac adv_ext2 :=
  lazymatch goal with
  | |- Adv _ _ _ ?v =>
      match goal with
      | E : process_reject _ _ _ = (v, _) |- _ => eapply adv_process_reject; [exact E | tj_go]
      | E : handle_logon _ _ = (v, _) |- _ => eapply adv_handle_logon; [exact E | tj_go]
      | _ => adv_ext1
      end
  end.
Ltac adv_ext ::= adv_ext2.

Section A3.
Variable s0 : sess.
Lemma adv_handle_logout j s m s1 st : handle_logout s m = (s1, st) -> Tj s0 s -> Adv j m s0 s1.
Proof. intros E H. unfold handle_logout in E. adv_pairlemma E. Qed.
Lemma adv_handle_test_request j s m s1 st : handle_test_request s m = (s1, st) -> Tj s0 s -> Adv j m s0 s1.
Proof. intros E H. unfold handle_test_request, verify in E. adv_pairlemma E. Qed.
Lemma adv_handle_sequence_reset s m s1 st : handle_sequence_reset s m = (s1, st) -> Tj s0 s -> Adv true m s0 s1.
Proof. intros E H. unfold handle_sequence_reset in E. adv_pairlemma E. Qed.
Lemma adv_handle_resend_request j s m s1 st : handle_resend_request s m = (s1, st) -> Tj s0 s -> Adv j m s0 s1.
Proof. intros E H. unfold handle_resend_request in E. adv_pairlemma E. Qed.
End A3.
Ltac adv_ext3 :=
  lazymatch goal with
  | |- Adv _ _ _ ?v =>
      match goal with
      | E : handle_logout _ _ = (v, _) |- _ => eapply adv_handle_logout; [exact E | tj_go]
      | E : handle_test_request _ _ = (v, _) |- _ => eapply adv_handle_test_request; [exact E | tj_go]
      | E : handle_sequence_reset _ _ = (v, _) |- _ => eapply adv_handle_sequence_reset; [exact E | tj_go]
      | E : handle_resend_request _ _ = (v, _) |- _ => eapply adv_handle_resend_request; [exact E | tj_go]
      | _ => adv_ext2
      end
  end.
Ltac adv_ext ::= adv_ext3.

Lemma adv_then_tj j m s0 s s' : Adv j m s0 s -> Tj s s' -> Adv j m s0 s'.
Proof.
  intros [A1 A2] [B1 B2]. split; [auto|].
  destruct B2 as [B2|B2]; [left; exact B2|]. rewrite B2.
  destruct A2 as [A2|A2]; [left; auto | right; exact A2].
Qed.

Lemma adv_in_session_fix_msg_in s0 s m s1 st : in_session_fix_msg_in s m = (s1, st) -> Tj s0 s ->
  Adv (beq_bytes (mi_type m) T_SEQRESET) m s0 s1.
Proof.
  intros E H. unfold in_session_fix_msg_in, verify in E.
  destruct (beq_bytes (mi_type m) T_LOGON).
  { destruct (handle_logon s m) as [x [r|]] eqn:Eh; inv E.
    - eapply adv_then_tj; [eapply adv_handle_logon; eassumption | tj_go].
    - eapply adv_handle_logon; eassumption. }
  adv_pairlemma E.
Qed.
